import CkbVerif.Lemmas.MoleculeVerify
import CkbVerif.Lemmas.Json
import CkbVerif.Gen.Schemas
import CkbVerif.Lemmas.HashBody
import CkbVerif.Lemmas.HashLayout
import CkbVerif.Lemmas.HashBlockBytes
import CkbVerif.Lemmas.HashView
import CkbVerif.Lemmas.HashCbmtArray
import CkbVerif.Lemmas.HashProofTop
import CkbVerif.Lemmas.HashProofFuel
import CkbVerif.Lemmas.MolSize
import CkbVerif.Lemmas.JsonMap
/-!
# C15 — wire and storage encodings round-trip losslessly and hashes commit to content

All statements are for **every** schema and value (structural induction, no bound), then
instantiated for the schemas generated from `util/gen-types/schemas/*.mol` (`Gen.Schemas.all`,
regenerated on every run; `generated_schemas_wf` is re-decided against the regenerated table).
`encode` is what the generated builders write, `decode`/`verify` what the generated readers check
and read (`Model/Molecule.lean`); the correspondence harness ties both to the real code.
The hash function is opaque: hash statements say which bytes are hashed.
-/
namespace CkbVerif.C15
open CkbVerif.Molecule CkbVerif.Gen.Schemas

/-- builder → reader is the identity (both reader modes) -/
theorem decode_encode (c : Bool) (s : Schema) (v : Val) (hs : wf s = true) (hv : wfv s v = true) :
    decode c s (encode s v) = some v :=
  Molecule.decode_encode c s v hs hv

/-- strict decoding accepts only the canonical encoding of the value it returns:
rebuilding the value field by field reproduces the bytes -/
theorem encode_decode_canonical (s : Schema) (bs : Bytes) (v : Val) (h : decode false s bs = some v) :
    encode s v = bs :=
  Molecule.encode_decode s bs v h

/-- the reader's `verify` (the checks of the generated `Reader::verify`) accepts exactly the
byte strings that decode -/
theorem verify_iff_decode (c : Bool) (s : Schema) (bs : Bytes) (hs : wf s = true) :
    verify c s bs = true ↔ ∃ v, decode c s bs = some v := by
  rw [verify_eq_decode c s bs hs, Option.isSome_iff_exists]

/-- `from_compatible_slice` accepts whatever `from_slice` accepts, with the same value -/
theorem compatible_extends_strict (s : Schema) (bs : Bytes) (v : Val) (h : decode false s bs = some v) :
    decode true s bs = some v :=
  Molecule.compat_extends s bs v h

/-- two values with the same encoding are the same value (lossless) -/
theorem encode_injective (s : Schema) (v w : Val) (hs : wf s = true) (hv : wfv s v = true) (hw : wfv s w = true)
    (h : encode s v = encode s w) : v = w := by
  have h1 := Molecule.decode_encode false s v hs hv
  have h2 := Molecule.decode_encode false s w hs hw
  rw [h] at h1
  rw [h1] at h2
  exact Option.some.inj h2

/-- a strictly accepted byte string is the encoding of exactly one value, and that value is what
decoding returns (uniqueness of the decoded value) -/
theorem strict_bytes_unique_value (s : Schema) (bs : Bytes) (v w : Val) (hs : wf s = true) (hw : wfv s w = true)
    (h : decode false s bs = some v) (he : encode s w = bs) : w = v := by
  have := Molecule.decode_encode false s w hs hw
  rw [he, h] at this
  exact (Option.some.inj this).symm

/-! ### the generated schemas -/

/-- every schema generated from the `.mol` files of /repo is well-formed (re-decided on every run) -/
theorem generated_schemas_wf : ∀ p ∈ all, wf p.2 = true := by decide +kernel

theorem generated_decode_encode (c : Bool) (name : String) (s : Schema) (hm : (name, s) ∈ all) (v : Val)
    (hv : wfv s v = true) : decode c s (encode s v) = some v :=
  Molecule.decode_encode c s v (generated_schemas_wf (name, s) hm) hv

theorem generated_verify_iff_decode (c : Bool) (name : String) (s : Schema) (hm : (name, s) ∈ all) (bs : Bytes) :
    verify c s bs = true ↔ ∃ v, decode c s bs = some v :=
  verify_iff_decode c s bs (generated_schemas_wf (name, s) hm)

/-! ### hash coverage at the layout level (hash opaque) -/

/-- a table field, as the reader slices it out of a built table, is the encoding of that field -/
theorem table_field_bytes (fs : List Schema) (vs : List Val) (i : Nat) (hne : fs ≠ [])
    (hv : wfv (.table fs) (.seq vs) = true) :
    tableFieldBytes (encode (.table fs) (.seq vs)) i = (encodeL fs vs)[i]? := by
  simp only [wfv, Bool.and_eq_true, decide_eq_true_eq] at hv
  have hel := encodeL_length fs vs hv.1
  have hne' : encodeL fs vs ≠ [] := by
    intro hc; rw [hc] at hel; cases fs with
    | nil => exact hne rfl
    | cons => simp at hel
  have hsz : 4 * ((encodeL fs vs).length + 1) + (encodeL fs vs).flatten.length < 4294967296 := by
    rw [hel]; exact hv.2
  have henc : encode (.table fs) (.seq vs) = encDyn (encodeL fs vs) := by simp only [encode]
  rw [henc]
  simp only [tableFieldBytes, dynHeader_encDyn _ hne' hsz, slices_encDyn _ hne']

/-- what `calc_tx_hash` hashes: `self.raw().as_slice()` -/
def txHashInput (tx : Bytes) : Option Bytes := tableFieldBytes tx 0
/-- what `calc_witness_hash` hashes: `self.as_slice()` -/
def witnessHashInput (tx : Bytes) : Bytes := tx

/-- tx hash = H(encoding of `raw` only) -/
theorem tx_hash_input_is_raw (raw wit : Val) (hv : wfv S.Transaction (.seq [raw, wit]) = true) :
    txHashInput (encode S.Transaction (.seq [raw, wit])) = some (encode S.RawTransaction raw) := by
  have := table_field_bytes [S.RawTransaction, S.BytesVec] [raw, wit] 0 (by simp) hv
  simpa [txHashInput, S.Transaction, encodeL] using this

/-- … so it does not depend on the witnesses … -/
theorem tx_hash_ignores_witnesses (raw w1 w2 : Val) (h1 : wfv S.Transaction (.seq [raw, w1]) = true)
    (h2 : wfv S.Transaction (.seq [raw, w2]) = true) :
    txHashInput (encode S.Transaction (.seq [raw, w1])) = txHashInput (encode S.Transaction (.seq [raw, w2])) := by
  rw [tx_hash_input_is_raw raw w1 h1, tx_hash_input_is_raw raw w2 h2]

theorem wfv_tx_fields (raw wit : Val) (hv : wfv S.Transaction (.seq [raw, wit]) = true) :
    wfv S.RawTransaction raw = true ∧ wfv S.BytesVec wit = true := by
  simp only [S.Transaction, wfv, wfvL, Bool.and_eq_true, Bool.and_true] at hv
  exact ⟨hv.1.1, hv.1.2⟩

/-- … and binds every field of `raw` (equal pre-images ⇒ equal raw transactions) -/
theorem tx_hash_binds_raw (r1 w1 r2 w2 : Val) (h1 : wfv S.Transaction (.seq [r1, w1]) = true)
    (h2 : wfv S.Transaction (.seq [r2, w2]) = true)
    (h : txHashInput (encode S.Transaction (.seq [r1, w1])) = txHashInput (encode S.Transaction (.seq [r2, w2]))) :
    r1 = r2 := by
  rw [tx_hash_input_is_raw r1 w1 h1, tx_hash_input_is_raw r2 w2 h2] at h
  exact encode_injective S.RawTransaction r1 r2 (by decide +kernel : wf S.RawTransaction = true)
    (wfv_tx_fields r1 w1 h1).1 (wfv_tx_fields r2 w2 h2).1 (Option.some.inj h)

/-- witness hash = H(whole transaction): binds raw and witnesses -/
theorem witness_hash_binds_all (t1 t2 : Val) (h1 : wfv S.Transaction t1 = true) (h2 : wfv S.Transaction t2 = true)
    (h : witnessHashInput (encode S.Transaction t1) = witnessHashInput (encode S.Transaction t2)) : t1 = t2 :=
  encode_injective S.Transaction t1 t2 (by decide +kernel : wf S.Transaction = true) h1 h2 h

/-- header hash = H(whole header): binds every header field, incl. transactions_root, proposals_hash, extra_hash -/
theorem header_hash_binds_all (h1 h2 : Val) (w1 : wfv S.Header h1 = true) (w2 : wfv S.Header h2 = true)
    (h : encode S.Header h1 = encode S.Header h2) : h1 = h2 :=
  encode_injective S.Header h1 h2 (by decide +kernel : wf S.Header = true) w1 w2 h


/-! ### hash STRUCTURE of a block: CBMT, transactions root, proposals hash, extra hash, `reset_header`

Model: `Model/Hash.lean` (`cbmtRoot` = `merkle_cbt::CBMT::build_merkle_root` loop by loop,
`resetFields` = `reset_header_with_hashes` / `BlockBuilder::build_internal(true)`).  Digests are an
abstract type with the operations of `HashAlg`; every theorem names the collision-freeness
hypotheses it uses (`Injective2 merge`, or the bundle `CollisionFree`), which are satisfied by the
free term algebra (`collision_free_satisfiable`) — the same algebra the driver prints, so the
correspondence compares which bytes the real code hashed, term by term. -/
section hash_structure
open CkbVerif.Hash

/-- the hypotheses of the theorems below are satisfiable (free term algebra) -/
theorem collision_free_satisfiable : CollisionFree termAlg := termAlg_collisionFree

/-- **CBMT, equal lengths.** With `merge` injective (collision-free), two leaf lists of the same
length with the same `build_merkle_root` are equal: the root binds order and content.  Nothing
about leaves vs inner nodes is needed, the tree shape is a function of the leaf count. -/
theorem cbmt_root_injective_same_length {α : Type} (merge : α → α → α) (hinj : Injective2 merge) (zero : α)
    (l1 l2 : List α) (hlen : l1.length = l2.length) (h : cbmtRoot merge zero l1 = cbmtRoot merge zero l2) :
    l1 = l2 :=
  cbmtRoot_inj_same_length merge hinj zero l1 l2 hlen h

/-- **CBMT has no domain separation between leaves and inner nodes**: for every `merge`, the
2-leaf list `[merge b c, a]` and the 3-leaf list `[a, b, c]` have the same root.  Lists of
different lengths collide structurally exactly when a leaf is itself a `merge` output. -/
theorem cbmt_no_domain_separation {α : Type} (merge : α → α → α) (zero a b c : α) :
    cbmtRoot merge zero [merge b c, a] = cbmtRoot merge zero [a, b, c] :=
  cbmt_structural_collision merge zero a b c

/-- **CBMT, length binding.** If no leaf is a `merge` output or the zero digest (and zero is not a
`merge` output), the root determines the leaf list whatever the lengths. -/
theorem cbmt_root_binds_length {α : Type} (merge : α → α → α) (hinj : Injective2 merge) (zero : α)
    (hz : ∀ a b, merge a b ≠ zero) (l1 l2 : List α)
    (h1 : ∀ x ∈ l1, x ≠ zero ∧ ∀ a b, x ≠ merge a b) (h2 : ∀ x ∈ l2, x ≠ zero ∧ ∀ a b, x ≠ merge a b)
    (h : cbmtRoot merge zero l1 = cbmtRoot merge zero l2) : l1 = l2 :=
  cbmtRoot_inj_any_length merge hinj zero hz l1 l2 h1 h2 h

/-- the merge-TERM correspondence: the real root is the evaluation of the root computed by the same
algorithm in the free term algebra (this is what the `cbmt`/`vblk` ops of stream `view` compare) -/
theorem cbmt_root_is_merge_term {α : Type} (merge : α → α → α) (zero : α) (l : List α) :
    cbmtRoot merge zero l = Tm.eval merge (cbmtRoot Tm.node (Tm.atom zero) (l.map Tm.atom)) :=
  cbmtRoot_eval merge zero l

/-- **`build_merkle_root` is the root of the array-form complete binary merkle tree**: `nodes[0]`
where `nodes[n-1+j] = leaf j` and `nodes[i] = merge nodes[2i+1] nodes[2i+2]` — leaf order, the
odd-count rule and the orientation of every merge of the queue algorithm are those of the array
(`build_merkle_tree`, RFC 0006) -/
theorem cbmt_root_is_array_tree_root {α : Type} (merge : α → α → α) (zero : α) (leaves : List α) (hne : leaves ≠ []) :
    cbmtRoot merge zero leaves = nodeAt merge zero leaves 0 :=
  cbmtRoot_eq_nodeAt merge zero leaves hne

/-- … and the empty list has root `T::default()` -/
theorem cbmt_root_empty {α : Type} (merge : α → α → α) (zero : α) : cbmtRoot merge zero [] = zero := rfl

variable {D : Type} {A : HashAlg D}

/-- `transactions_root = merge(raw_root, witness_root)` -/
theorem transactions_root_is_merge (txs : List Bytes) :
    transactionsRoot A txs = merge A (rawTransactionsRoot A txs) (witnessesRoot A txs) := rfl

/-- the raw root (and every tx hash) ignores witnesses: transactions with the same `raw` parts, in
the same order, have the same raw transactions root -/
theorem raw_root_ignores_witnesses (t1 t2 : List Bytes) (h : t1.map txRaw = t2.map txRaw) :
    rawTransactionsRoot A t1 = rawTransactionsRoot A t2 := by
  unfold rawTransactionsRoot
  have : t1.map (txHash A) = t2.map (txHash A) := by
    have := congrArg (List.map A.hb) h
    simp only [List.map_map] at this
    exact this
  rw [this]

/-- `transactions_root` binds order, content and witnesses of the transaction list, across lengths.
The length binding comes from the WITNESS root: a whole-`Transaction` encoding is ≥ 68 bytes
(`transaction_encoding_never_64`), an inner node hashes exactly 64.  (A `RawTransaction` encoding
CAN be exactly 64 bytes — `raw_transaction_can_be_64` — so the raw root alone has no such binding.) -/
theorem transactions_root_binds_txs (cf : CollisionFree A) (t1 t2 : List Bytes)
    (h1 : ∀ t ∈ t1, t.length ≠ 64) (h2 : ∀ t ∈ t2, t.length ≠ 64)
    (h : transactionsRoot A t1 = transactionsRoot A t2) : t1 = t2 :=
  transactionsRoot_inj cf t1 t2 h1 h2 h

/-- a witness-only change (same raws, different whole encodings) keeps the raw root and changes the
transactions root -/
theorem witness_change_changes_root (cf : CollisionFree A) (t1 t2 : List Bytes)
    (h1 : ∀ t ∈ t1, t.length ≠ 64) (h2 : ∀ t ∈ t2, t.length ≠ 64)
    (hraw : t1.map txRaw = t2.map txRaw) (hne : t1 ≠ t2) :
    rawTransactionsRoot A t1 = rawTransactionsRoot A t2 ∧ witnessesRoot A t1 ≠ witnessesRoot A t2 ∧
      transactionsRoot A t1 ≠ transactionsRoot A t2 :=
  ⟨raw_root_ignores_witnesses t1 t2 hraw, fun h => hne (witnessesRoot_inj cf t1 t2 h1 h2 h),
    fun h => hne (transactionsRoot_inj cf t1 t2 h1 h2 h)⟩

/-- proposals hash: zero when empty, else the hash of the concatenated ids -/
theorem proposals_hash_cases (ps : List Bytes) :
    proposalsHash A ps = if ps = [] then A.zero else A.hb ps.flatten := by
  cases ps <;> simp [proposalsHash]

/-- the proposals hash binds the list of short ids (content, count and order) -/
theorem proposals_hash_binds_list (cf : CollisionFree A) (p1 p2 : List Bytes)
    (h1 : ∀ p ∈ p1, p.length = 10) (h2 : ∀ p ∈ p2, p.length = 10)
    (h : proposalsHash A p1 = proposalsHash A p2) : p1 = p2 :=
  proposalsHash_inj cf p1 p2 h1 h2 h

/-- … in particular the order: any reordering that changes the list changes the hash -/
theorem proposals_hash_binds_order (cf : CollisionFree A) (p1 p2 : List Bytes)
    (h1 : ∀ p ∈ p1, p.length = 10) (hperm : p1.Perm p2) (hne : p1 ≠ p2) :
    proposalsHash A p1 ≠ proposalsHash A p2 :=
  fun h => hne (proposalsHash_inj cf p1 p2 h1 (fun p hp => h1 p (hperm.mem_iff.mpr hp)) h)

/-- extra hash: the uncles hash alone when there is no extension (zero when there are no uncles
either), hash(uncles_hash ‖ extension_hash) when an extension is present -/
theorem extra_hash_cases (us : List Bytes) (e : Option Bytes) :
    extraHash A (unclesHash A us) (extensionHash A e) =
      match e with
      | none => if us = [] then A.zero else A.hd (us.map A.hb)
      | some x => A.hd [if us = [] then A.zero else A.hd (us.map A.hb), A.hb x] := by
  cases e <;> cases us <;> simp [extraHash, extensionHash, unclesHash]

/-- the extra hash binds the uncle header list and the extension (presence and bytes).
Uses the length separation: an uncle header hash has a 208-byte pre-image, an uncles hash a
32·n-byte one. -/
theorem extra_hash_binds_uncles_and_extension (cf : CollisionFree A) (u1 u2 : List Bytes)
    (h1 : ∀ u ∈ u1, u.length = 208) (h2 : ∀ u ∈ u2, u.length = 208) (e1 e2 : Option Bytes)
    (h : extraHash A (unclesHash A u1) (extensionHash A e1) = extraHash A (unclesHash A u2) (extensionHash A e2)) :
    u1 = u2 ∧ e1 = e2 :=
  extraHash_inj cf u1 u2 h1 h2 e1 e2 h

/-- an extension that is present but empty is not the same commitment as no extension -/
theorem extension_empty_vs_absent_distinct (cf : CollisionFree A) (us : List Bytes) (hu : ∀ u ∈ us, u.length = 208) :
    extraHash A (unclesHash A us) (extensionHash A (some [])) ≠ extraHash A (unclesHash A us) (extensionHash A none) :=
  fun h => (extraHash_none_ne_some cf us us hu []) h.symm

/-- **`reset_header` commits to the body.** Two (structurally well-formed) bodies that get the same
three header fields from `reset_header` are the same body: equal transaction lists (whole
encodings, hence raw parts and witnesses), proposals, uncle header lists, extension presence+bytes. -/
theorem reset_header_commits_body (cf : CollisionFree A) (b1 b2 : Body) (w1 : b1.WF) (w2 : b2.WF)
    (htr : (resetFields A b1).transactionsRoot = (resetFields A b2).transactionsRoot)
    (hph : (resetFields A b1).proposalsHash = (resetFields A b2).proposalsHash)
    (hxh : (resetFields A b1).extraHash = (resetFields A b2).extraHash) :
    b1.txs = b2.txs ∧ b1.txs.map txRaw = b2.txs.map txRaw ∧ b1.proposals = b2.proposals ∧
      b1.uncles = b2.uncles ∧ b1.extension = b2.extension := by
  have := resetFields_inj cf b1 b2 w1 w2 htr hph hxh
  subst this
  exact ⟨rfl, rfl, rfl, rfl, rfl⟩

/-- **The block hash binds the body** (for blocks whose header was reset from their body): the hash
changes if and only if a committed part changes — the literal header fields, the transactions
(incl. witnesses), the proposals, the uncle headers, the extension. -/
theorem block_hash_binds_body (cf : CollisionFree A) (lit1 lit2 : Bytes) (b1 b2 : Body) (w1 : b1.WF) (w2 : b2.WF) :
    blockHash A lit1 (resetFields A b1) = blockHash A lit2 (resetFields A b2) ↔ (lit1 = lit2 ∧ b1 = b2) := by
  constructor
  · intro h
    have := cf.hm_inj _ _ _ _ h
    simp only [List.cons.injEq, and_true] at this
    exact ⟨this.1, resetFields_inj cf b1 b2 w1 w2 this.2.1 this.2.2.1 this.2.2.2⟩
  · rintro ⟨rfl, rfl⟩; rfl

/-! layout facts behind `Body.WF` (from the molecule model and the generated schemas) -/

theorem transaction_encoding_never_64 (v : Val) (hv : wfv S.Transaction v = true) :
    (encode S.Transaction v).length ≠ 64 := by
  have := transaction_length_ge_68 v hv; omega

theorem header_encoding_is_208 (v : Val) (hv : wfv S.Header v = true) : (encode S.Header v).length = 208 :=
  header_length_208 v hv

theorem proposal_short_id_encoding_is_10 (v : Val) (hv : wfv S.ProposalShortId v = true) :
    (encode S.ProposalShortId v).length = 10 :=
  proposal_short_id_length_10 v hv

/-- a body assembled from encodings of well-formed values is `WF` -/
theorem body_of_encodings_wf (txs props uncles : List Val) (ext : Option Bytes)
    (ht : ∀ v ∈ txs, wfv S.Transaction v = true) (hp : ∀ v ∈ props, wfv S.ProposalShortId v = true)
    (hu : ∀ v ∈ uncles, wfv S.Header v = true) :
    Body.WF { txs := txs.map (encode S.Transaction), proposals := props.map (encode S.ProposalShortId),
              uncles := uncles.map (encode S.Header), extension := ext } := by
  refine ⟨?_, ?_, ?_⟩
  · intro t hm; obtain ⟨v, hv, rfl⟩ := List.mem_map.mp hm; exact transaction_encoding_never_64 v (ht v hv)
  · intro t hm; obtain ⟨v, hv, rfl⟩ := List.mem_map.mp hm; exact proposal_short_id_encoding_is_10 v (hp v hv)
  · intro t hm; obtain ⟨v, hv, rfl⟩ := List.mem_map.mp hm; exact header_encoding_is_208 v (hu v hv)

/-! byte level: the body the model reads out of block bytes (`bodyOfBlock`, what the `vblk` op of
stream `view` feeds to `resetFields`) is exactly what the builders wrote -/

/-- `BlockV1` builder, then read as a compatible `Block`: the parts come back as the encodings of
the parts, the extension is PRESENT with the raw bytes of the `Bytes` value (also when empty) -/
theorem body_of_encoded_block_v1 (h : Val) (us : List (Val × Val)) (ts ps : List Val) (ext : Val)
    (hv : wfv S.BlockV1 (.seq [h, .seq (us.map uncleVal), .seq ts, .seq ps, ext]) = true) :
    bodyOfBlock (encode S.BlockV1 (.seq [h, .seq (us.map uncleVal), .seq ts, .seq ps, ext])) =
      some (encode S.Header h,
        { txs := ts.map (encode S.Transaction), proposals := ps.map (encode S.ProposalShortId),
          uncles := us.map (fun u => encode S.Header u.1), extension := some ((encode S.Bytes ext).drop 4) }) :=
  bodyOfBlock_encode_BlockV1 h us ts ps ext hv

/-- `Block` builder (four fields): the extension is ABSENT -/
theorem body_of_encoded_block (h : Val) (us : List (Val × Val)) (ts ps : List Val)
    (hv : wfv S.Block (.seq [h, .seq (us.map uncleVal), .seq ts, .seq ps]) = true) :
    bodyOfBlock (encode S.Block (.seq [h, .seq (us.map uncleVal), .seq ts, .seq ps])) =
      some (encode S.Header h,
        { txs := ts.map (encode S.Transaction), proposals := ps.map (encode S.ProposalShortId),
          uncles := us.map (fun u => encode S.Header u.1), extension := none }) :=
  bodyOfBlock_encode_Block h us ts ps hv

/-- end to end on bytes: the same parts built once as a `BlockV1` with an EMPTY extension and once
as a `Block` without one get different `extra_hash` fields from `reset_header` -/
theorem empty_extension_block_bytes_distinct (cf : CollisionFree A) (h : Val) (us : List (Val × Val)) (ts ps : List Val)
    (hv1 : wfv S.BlockV1 (.seq [h, .seq (us.map uncleVal), .seq ts, .seq ps, .seq []]) = true)
    (hv0 : wfv S.Block (.seq [h, .seq (us.map uncleVal), .seq ts, .seq ps]) = true)
    (hd1 hd0 : Bytes) (b1 b0 : Body)
    (e1 : bodyOfBlock (encode S.BlockV1 (.seq [h, .seq (us.map uncleVal), .seq ts, .seq ps, .seq []])) = some (hd1, b1))
    (e0 : bodyOfBlock (encode S.Block (.seq [h, .seq (us.map uncleVal), .seq ts, .seq ps])) = some (hd0, b0)) :
    (resetFields A b1).extraHash ≠ (resetFields A b0).extraHash := by
  rw [body_of_encoded_block_v1 h us ts ps _ hv1] at e1
  rw [body_of_encoded_block h us ts ps hv0] at e0
  cases e1; cases e0
  have hu : ∀ u ∈ us.map (fun u => encode S.Header u.1), u.length = 208 := by
    intro x hx
    obtain ⟨u, hum, rfl⟩ := List.mem_map.mp hx
    have hw : wfv S.UncleBlock (uncleVal u) = true := by
      simp only [S.Block, S.UncleBlockVec, wfv, wfvL, Bool.and_eq_true] at hv0
      exact Molecule.all_mem hv0.1.2.1.1 _ (List.mem_map.mpr ⟨u, hum, rfl⟩)
    simp only [S.UncleBlock, uncleVal, wfv, wfvL, Bool.and_eq_true] at hw
    exact header_encoding_is_208 u.1 hw.1.1
  exact extension_empty_vs_absent_distinct cf _ hu

/-- a well-formed `RawTransaction` (no cells, one 4-byte output datum) whose encoding is exactly 64
bytes: the pre-image length does NOT separate raw-transaction leaves from CBMT inner nodes -/
def exRaw64 : Val :=
  .seq [.seq [.byte 0, .byte 0, .byte 0, .byte 0], .seq [], .seq [], .seq [], .seq [],
        .seq [.seq [.byte 1, .byte 2, .byte 3, .byte 4]]]

theorem raw_transaction_can_be_64 : wfv S.RawTransaction exRaw64 = true ∧ (encode S.RawTransaction exRaw64).length = 64 := by
  decide +kernel

/-! non-vacuity of the hash-structure theorems (free term algebra, concrete bodies) -/

def exBody : Body :=
  { txs := [List.replicate 68 1, List.replicate 70 2], proposals := [List.replicate 10 7, List.replicate 10 8],
    uncles := [List.replicate 208 3], extension := some [] }

theorem exBody_wf : exBody.WF := by
  refine ⟨?_, ?_, ?_⟩ <;> intro x hx <;> simp only [exBody, List.mem_cons, List.not_mem_nil, or_false] at hx
  · rcases hx with rfl | rfl <;> simp only [List.length_replicate] <;> omega
  · rcases hx with rfl | rfl <;> simp only [List.length_replicate]
  · subst hx; simp only [List.length_replicate]

example : Injective2 (Tm.node : Tm Nat → Tm Nat → Tm Nat) := Tm.node_inj2
example : cbmtRoot Tm.node (Tm.atom 0) [Tm.atom 1, Tm.atom 2, Tm.atom 3]
    = Tm.node (Tm.node (Tm.atom 2) (Tm.atom 3)) (Tm.atom 1) := rfl
example : [Tm.atom 1, Tm.atom 2, Tm.atom 3] = [Tm.atom 1, Tm.atom 2, Tm.atom (3 : Nat)] :=
  cbmt_root_injective_same_length Tm.node Tm.node_inj2 (Tm.atom 0) _ _ rfl rfl
/-- empty vs absent extension on a concrete body, in the term algebra -/
example : (resetFields termAlg exBody).extraHash ≠ (resetFields termAlg { exBody with extension := none }).extraHash :=
  extension_empty_vs_absent_distinct collision_free_satisfiable exBody.uncles exBody_wf.2.2
/-- swapping the two proposals changes the proposals hash -/
example : proposalsHash termAlg exBody.proposals ≠ proposalsHash termAlg exBody.proposals.reverse :=
  proposals_hash_binds_order collision_free_satisfiable _ _ exBody_wf.2.1 (List.reverse_perm _).symm (by decide)
example : blockHash termAlg [1] (resetFields termAlg exBody) = blockHash termAlg [1] (resetFields termAlg exBody) ↔
    (([1] : Bytes) = [1] ∧ exBody = exBody) :=
  block_hash_binds_body collision_free_satisfiable [1] [1] exBody exBody exBody_wf exBody_wf

end hash_structure

/-! ### the VIEW layer: cached hashes always equal recomputation

Model: `Model/HashView.lean` (`views.rs`, `advanced_builders.rs`, `reset_header_with_hashes`).
`BlockView.Consistent` = every cache (block hash, uncle hashes, tx hashes, witness hashes) equals
recomputation from the view's own data; `BlockData.Committed` = the header's three commitment
fields are what `reset_header` computes from the body.  Every constructor establishes
`Consistent`, every builder path preserves it, the reset paths establish `Committed`, and the
builder path and the packed path produce the same view. -/
section view_layer
open CkbVerif.Hash
variable {D : Type} (A : HashAlg D)

/-- `packed::Block::into_view()`: caches equal recomputation, the header commits to the body, the
body and the other header fields are untouched -/
theorem into_view_sound (b : BlockData D) :
    (intoView A b).Consistent A ∧ (intoView A b).data.Committed A ∧ (intoView A b).data.body = b.body ∧
      (intoView A b).data.lit = b.lit ∧ (intoView A b).data.uncles = b.uncles :=
  ⟨intoView_consistent A b, intoView_committed A b, (intoView_keeps A b).1, (intoView_keeps A b).2.1, (intoView_keeps A b).2.2⟩

/-- `into_view_without_reset_header()`: caches equal recomputation, the block is untouched -/
theorem into_view_without_reset_sound (b : BlockData D) :
    (intoViewWithoutReset A b).Consistent A ∧ (intoViewWithoutReset A b).data = b :=
  ⟨intoViewWithoutReset_consistent A b, rfl⟩

/-- `reset_header()` (= `reset_header_with_hashes` with the block's own hashes): the header commits
to the body — all three fields, whatever the header contained before — and nothing else changes -/
theorem reset_header_sound (b : BlockData D) :
    (resetHeader A b).Committed A ∧ (resetHeader A b).body = b.body ∧ (resetHeader A b).lit = b.lit ∧
      resetHeaderWithHashes A b (b.txs.map (txHash A)) (b.txs.map (witnessHash A)) = resetHeader A b :=
  ⟨resetHeader_committed A b, (resetHeader_keeps A b).1, (resetHeader_keeps A b).2.1, rfl⟩

/-- `BlockView::transaction(i)` and `BlockView::transactions()[i]` are the same view (data, hash
AND witness hash), for every view and index -/
theorem block_transaction_accessors_agree (v : BlockView D) (i : Nat) : v.transaction i = v.transactions[i]? :=
  transaction_eq_transactions_get v i

/-- on a consistent view every accessor returns recomputed hashes: `header()`, `transactions()`,
`transaction(i)`, `uncles()` -/
theorem consistent_view_accessors (v : BlockView D) (hc : v.Consistent A) :
    v.header.Ok A ∧ v.transactions = v.data.txs.map (txIntoView A) ∧
      (∀ i, v.transaction i = (v.data.txs[i]?).map (txIntoView A)) ∧ v.uncles = v.data.uncles.map (uncleIntoView A) :=
  ⟨header_ok A v hc, transactions_ok A v hc, fun i => transaction_ok A v hc i, uncles_ok A v hc⟩

/-- `BlockBuilder::build()` / `build_unchecked()` from parts whose caches are right: the caches of
the result are right, the body is the builder's parts; with reset the header commits to that body -/
theorem builder_build_sound (b : BlockBuilder D) (ht : ∀ t ∈ b.transactions, t.Ok A) (hu : ∀ u ∈ b.uncles, u.Ok A) :
    (b.build A).Consistent A ∧ (b.buildUnchecked A).Consistent A ∧ (b.build A).data.Committed A ∧
      (b.build A).data.body = { txs := b.transactions.map (·.data), proposals := b.proposals,
                                uncles := b.uncles.map (·.data.header), extension := b.extension } ∧
      (b.build A).data.lit = b.header.lit ∧ (b.buildUnchecked A).data.fields = b.header.fields :=
  ⟨buildInternal_consistent A b true ht hu, buildInternal_consistent A b false ht hu, build_committed A b ht,
    buildInternal_body A b true, rfl, rfl⟩

/-- the parts handed out by `as_advanced_builder()` (of a consistent view, or of a packed block)
have right caches -/
theorem as_advanced_builder_parts_ok (v : BlockView D) (hc : v.Consistent A) (b : BlockData D) :
    ((∀ t ∈ v.asAdvancedBuilder.transactions, t.Ok A) ∧ (∀ u ∈ v.asAdvancedBuilder.uncles, u.Ok A)) ∧
      ((∀ t ∈ (b.asAdvancedBuilder A).transactions, t.Ok A) ∧ (∀ u ∈ (b.asAdvancedBuilder A).uncles, u.Ok A)) :=
  ⟨view_asAdvancedBuilder_ok A v hc, packed_asAdvancedBuilder_ok A b⟩

/-- `as_advanced_builder().build_unchecked()` is the identity on consistent views;
`as_advanced_builder().build()` is the identity on consistent views whose header commits to the body -/
theorem as_advanced_builder_roundtrip (v : BlockView D) (hc : v.Consistent A) :
    v.asAdvancedBuilder.buildUnchecked A = v ∧ (v.data.Committed A → v.asAdvancedBuilder.build A = v) :=
  ⟨rebuild_unchecked_identity A v hc, rebuild_identity A v hc⟩

/-- the advanced-builder path and the packed path agree: building a packed block's parts back with
`as_advanced_builder().build()` is `into_view()` -/
theorem packed_builder_path_eq_into_view (b : BlockData D) : (b.asAdvancedBuilder A).build A = intoView A b := by
  simp [BlockBuilder.build, BlockBuilder.buildInternal, BlockData.asAdvancedBuilder, intoView, blockIntoViewInternal,
    resetHeaderWithHashes, HeaderBuilder.build, txIntoView, uncleIntoView, List.map_map, Function.comp_def]

/-- **changing only the proposals re-binds the header** (the class of the `reset_header` fast-path
regression): from a consistent view, `as_advanced_builder().set_proposals(ps).build()` equals
`into_view()` of the packed block with the proposals replaced; its caches are right, its header
commits to the new body, and `proposals_hash` is the hash of the NEW proposals -/
theorem set_proposals_rebinds_header (v : BlockView D) (hc : v.Consistent A) (ps : List Bytes) :
    ({ v.asAdvancedBuilder with proposals := ps } : BlockBuilder D).build A = intoView A { v.data with proposals := ps } ∧
      (intoView A { v.data with proposals := ps }).data.fields.proposalsHash = proposalsHash A ps := by
  refine ⟨?_, rfl⟩
  obtain ⟨⟨lit, fields, uncles, txs, props, ext⟩, hash, uh, th, wh⟩ := v
  obtain ⟨h1, h2, h3, h4⟩ := hc
  simp only at h1 h2 h3 h4
  subst h1 h2 h3 h4
  simp [BlockBuilder.build, BlockBuilder.buildInternal, BlockView.asAdvancedBuilder, intoView, blockIntoViewInternal,
    resetHeaderWithHashes, HeaderBuilder.build, zipTx_map, zipUncle_map, List.map_map, Function.comp_def]

/-- **the block hash of a view changes iff a committed part changes** (consistent views whose
headers commit to well-formed bodies) -/
theorem view_hash_changes_iff (cf : CollisionFree A) (v1 v2 : BlockView D) (c1 : v1.Consistent A) (c2 : v2.Consistent A)
    (m1 : v1.data.Committed A) (m2 : v2.data.Committed A) (w1 : v1.data.body.WF) (w2 : v2.data.body.WF) :
    v1.hash = v2.hash ↔ (v1.data.lit = v2.data.lit ∧ v1.data.body = v2.data.body) :=
  view_hash_eq_iff A cf v1 v2 c1 c2 m1 m2 w1 w2

/-- `BlockView::new_unchecked*`: nothing is recomputed — the result is consistent exactly because
the given parts are -/
theorem new_unchecked_sound (header : HeaderView D) (uncles : List Uncle) (uncleHashes : List D)
    (body : List (TxView D)) (proposals : List Bytes) (extension : Option Bytes)
    (hh : header.Ok A) (hu : uncleHashes = uncles.map (fun u => A.hb u.header)) (hb : ∀ t ∈ body, t.Ok A) :
    (newUnchecked header uncles uncleHashes body proposals extension).Consistent A :=
  newUnchecked_consistent A header uncles uncleHashes body proposals extension hh hu hb

/-! non-vacuity -/

def exData : BlockData Dg :=
  { lit := [1, 2, 3], fields := { transactionsRoot := .zero, proposalsHash := .zero, extraHash := .zero },
    uncles := [{ header := List.replicate 208 3, proposals := [List.replicate 10 9] }],
    txs := exBody.txs, proposals := exBody.proposals, extension := some [] }

example : (intoView termAlg exData).Consistent termAlg := (into_view_sound termAlg exData).1
example : (intoView termAlg exData).data.fields.proposalsHash = Dg.hb (exBody.proposals.flatten) := rfl
/-- the stored (wrong) fields of `exData` are kept by the non-reset path -/
example : (intoViewWithoutReset termAlg exData).data.fields.proposalsHash = Dg.zero := rfl
def exData' : BlockData Dg := { exData with proposals := exData.proposals.reverse }
theorem exData_body_wf : (intoView termAlg exData).data.body.WF := exBody_wf
theorem exData'_body_wf : (intoView termAlg exData').data.body.WF :=
  ⟨exBody_wf.1, fun p hp => exBody_wf.2.1 p (List.mem_reverse.mp hp), exBody_wf.2.2⟩
/-- reversing the proposals changes the block hash of the view -/
example : (intoView termAlg exData).hash ≠ (intoView termAlg exData').hash := by
  intro h
  have := (view_hash_changes_iff termAlg collision_free_satisfiable _ _ (intoView_consistent _ exData)
    (intoView_consistent _ exData') (intoView_committed _ _) (intoView_committed _ _) exData_body_wf exData'_body_wf).mp h
  exact absurd (congrArg Body.proposals this.2) (by decide)

end view_layer

/-! ### CBMT merkle proofs (`merkle_cbt` 0.3.2 as used by `get_transaction_proof` / `verify_transaction_proof`) -/

section merkle_proofs
open CkbVerif.Hash

/-- `CBMT::build_merkle_tree` fills exactly the array-form complete binary merkle tree: `2n-1` nodes, node `i` = `nodeAt i`
(leaves at `n-1 ..`, `nodes[i] = merge nodes[2i+1] nodes[2i+2]`), and `MerkleTree::root()` = `build_merkle_root` -/
theorem build_merkle_tree_is_array_tree {α : Type} (merge : α → α → α) (zero : α) (leaves : List α) (hne : leaves ≠ []) :
    (buildTree merge zero leaves).length = 2 * leaves.length - 1 ∧
    (∀ i, i < 2 * leaves.length - 1 → (buildTree merge zero leaves).getD i zero = nodeAt merge zero leaves i) ∧
    treeRoot zero (buildTree merge zero leaves) = cbmtRoot merge zero leaves := by
  have hn : 0 < leaves.length := List.length_pos_iff.mpr hne
  refine ⟨buildTree_length merge zero leaves hne, buildTree_getD merge zero leaves hne, ?_⟩
  have h0 := buildTree_getD merge zero leaves hne 0 (by omega)
  rw [cbmtRoot_eq_nodeAt merge zero leaves hne, ← h0]
  unfold treeRoot
  cases buildTree merge zero leaves <;> rfl

/-- **completeness for every leaf subset**: for every non-empty leaf list, every total preorder `le` (`T: Ord`) and every
non-empty list of DISTINCT in-range leaf indices in any order, `CBMT::build_merkle_proof` returns a proof (never `None`,
its assertion never fires) whose indices are the requested leaf positions; `CBMT::retrieve_leaves` accepts it and returns
the selected leaves; `MerkleProof::root` on them is `Some(build_merkle_root(leaves))`. -/
theorem merkle_proof_complete {α : Type} (le : α → α → Bool)
    (htot : ∀ a b : α, le a b = true ∨ le b a = true) (htrans : ∀ a b c : α, le a b = true → le b c = true → le a c = true)
    (merge : α → α → α) (zero : α) (leaves : List α) (idx : List Nat)
    (hne : leaves ≠ []) (hidx : idx ≠ []) (hnd : idx.Nodup) (hr : ∀ i ∈ idx, i < leaves.length) :
    ∃ p : MProof α, buildMerkleProof le merge zero leaves idx = .some p ∧
      p.indices.Perm (idx.map (fun i => leaves.length + i - 1)) ∧
      retrieveLeaves zero leaves p = some (p.indices.map fun i => leaves.getD (i + 1 - leaves.length) zero) ∧
      proofRoot le merge p (p.indices.map fun i => leaves.getD (i + 1 - leaves.length) zero)
        = some (cbmtRoot merge zero leaves) :=
  buildMerkleProof_complete le htot htrans merge zero leaves idx hne hidx hnd hr

/-- **the assertion inside `build_proof` is reachable only on a one-leaf tree**: with two or more leaves
`CBMT::build_merkle_proof` returns `None` or a proof for EVERY index list (duplicates, out of range, any order) — it
cannot panic; the one-leaf case with a repeated index does (`example` below, reproduced on the real code). -/
theorem build_merkle_proof_panics_only_on_one_leaf {α : Type} (le : α → α → Bool) (merge : α → α → α) (zero : α)
    (leaves : List α) (idx : List Nat) (hn : 2 ≤ leaves.length) : buildMerkleProof le merge zero leaves idx ≠ .panic :=
  buildMerkleProof_no_panic le merge zero leaves idx hn

/-- **the model's loops are the unbounded Rust loops**: `buildLoop` / `rootLoop` recurse on a fuel, the code does not;
every iteration strictly decreases Σ(index+1), and with any fuel ≥ the `qFuel` / `pFuel` the model uses the result is
the same — no answer of `buildProof` / `proofRoot` is ever caused by the fuel running out. -/
theorem merkle_loops_fuel_irrelevant {α : Type} (merge : α → α → α) (zero : α) (nodes : List α) :
    (∀ (q : List Nat) (f : Nat), qFuel q ≤ f → buildLoop zero nodes f q = buildLoop zero nodes (qFuel q) q) ∧
    (∀ (q : List (Nat × α)) (lem : List α) (f : Nat), pFuel q ≤ f → rootLoop merge f q lem = rootLoop merge (pFuel q) q lem) :=
  ⟨fun q f h => buildLoop_fuel_irrelevant zero nodes q f h, fun q lem f h => rootLoop_fuel_irrelevant merge q lem f h⟩

/-- **total decision table of `CBMT::build_merkle_proof`**: `None` exactly when there are no leaves, no indices, or some
index is not a leaf position (only the LARGEST index is range-checked by the code — that suffices); otherwise a proof,
except the assertion panic, which needs a one-leaf tree (`build_merkle_proof_panics_only_on_one_leaf`) -/
theorem build_merkle_proof_none_iff {α : Type} (le : α → α → Bool) (merge : α → α → α) (zero : α) (leaves : List α) (idx : List Nat) :
    buildMerkleProof le merge zero leaves idx = .none ↔ (leaves = [] ∨ idx = [] ∨ ∃ i ∈ idx, leaves.length ≤ i) :=
  buildMerkleProof_none_iff le merge zero leaves idx

/-- **`CBMT::retrieve_leaves` answers `None` exactly** when there are no leaves, no indices, or some index is outside
`leaves_count - 1 .. 2 * leaves_count - 1` — duplicates are accepted -/
theorem retrieve_leaves_none_iff {α : Type} (zero : α) (leaves : List α) (p : MProof α) :
    retrieveLeaves zero leaves p = none ↔
      (leaves = [] ∨ p.indices = [] ∨ ∃ i ∈ p.indices, i < leaves.length - 1 ∨ 2 * leaves.length - 1 ≤ i) :=
  retrieveLeaves_none_iff zero leaves p

/-- `MerkleProof::verify` accepts the honest proof -/
theorem merkle_proof_verifies {α : Type} [DecidableEq α] (le : α → α → Bool)
    (htot : ∀ a b : α, le a b = true ∨ le b a = true) (htrans : ∀ a b c : α, le a b = true → le b c = true → le a c = true)
    (merge : α → α → α) (zero : α) (leaves : List α) (idx : List Nat)
    (hne : leaves ≠ []) (hidx : idx ≠ []) (hnd : idx.Nodup) (hr : ∀ i ∈ idx, i < leaves.length) :
    ∃ p ls, buildMerkleProof le merge zero leaves idx = .some p ∧ retrieveLeaves zero leaves p = some ls ∧
      proofVerify le merge p (cbmtRoot merge zero leaves) ls = true := by
  obtain ⟨p, h1, _, h3, h4⟩ := buildMerkleProof_complete le htot htrans merge zero leaves idx hne hidx hnd hr
  refine ⟨p, _, h1, h3, ?_⟩
  unfold proofVerify
  rw [h4]
  simp

/-- the claimed leaves may be handed to `root` in ANY order (it sorts them), provided `le` is antisymmetric (`Ord` on
`Byte32` is) -/
theorem merkle_proof_root_order_irrelevant {α : Type} (le : α → α → Bool)
    (htot : ∀ a b : α, le a b = true ∨ le b a = true) (htrans : ∀ a b c : α, le a b = true → le b c = true → le a c = true)
    (hanti : ∀ a b : α, le a b = true → le b a = true → a = b)
    (merge : α → α → α) (p : MProof α) (l1 l2 : List α) (hp : l1.Perm l2) :
    proofRoot le merge p l1 = proofRoot le merge p l2 := by
  have hs : sortBy le id l1 = sortBy le id l2 :=
    List.Perm.eq_of_pairwise (le := fun a b => le a b = true) (fun a b _ _ h1 h2 => hanti a b h1 h2)
      (sortBy_pairwise le id htot htrans l1) (sortBy_pairwise le id htot htrans l2)
      ((sortBy_perm le id l1).trans (hp.trans (sortBy_perm le id l2).symm))
  unfold proofRoot proofPre
  rw [hs, hp.length_eq]
  have : l1.isEmpty = l2.isEmpty := by
    cases l1 <;> cases l2 <;> simp_all
  rw [this]

/-- **soundness for distinct leaf positions**: `merge` injective; a proof whose indices are distinct and inside the leaf
range of the tree over `leaves` (the range is what `retrieve_leaves` checks) and whose `root(claimed)` is
`build_merkle_root(leaves)` binds every claimed leaf: the k-th index of the proof paired with the k-th smallest claimed
leaf IS the tree's leaf at that position.  (No entry can have been dropped, no lemma left over.) -/
theorem merkle_proof_sound {α : Type} (le : α → α → Bool) (merge : α → α → α) (hinj : Injective2 merge) (zero : α)
    (leaves : List α) (hne : leaves ≠ []) (p : MProof α) (claimed : List α)
    (hnd : p.indices.Nodup)
    (hrange : ∀ i ∈ p.indices, leaves.length - 1 ≤ i ∧ i ≤ 2 * (leaves.length - 1))
    (hroot : proofRoot le merge p claimed = some (cbmtRoot merge zero leaves)) :
    ∀ e ∈ p.indices.zip (sortBy le id claimed), leaves.getD (e.1 + 1 - leaves.length) zero = e.2 :=
  proofRoot_sound le merge hinj zero leaves hne p claimed hnd hrange hroot

/-- … in particular every claimed leaf is a leaf of the tree -/
theorem merkle_proof_sound_membership {α : Type} (le : α → α → Bool) (merge : α → α → α) (hinj : Injective2 merge) (zero : α)
    (leaves : List α) (hne : leaves ≠ []) (p : MProof α) (claimed : List α)
    (hnd : p.indices.Nodup)
    (hrange : ∀ i ∈ p.indices, leaves.length - 1 ≤ i ∧ i ≤ 2 * (leaves.length - 1))
    (hroot : proofRoot le merge p claimed = some (cbmtRoot merge zero leaves)) :
    ∀ x ∈ claimed, x ∈ leaves := by
  intro x hx
  have hn : 0 < leaves.length := List.length_pos_iff.mpr hne
  have hlen : claimed.length = p.indices.length := by
    unfold proofRoot at hroot
    split at hroot
    · cases hroot
    · rename_i hc
      simp only [Bool.or_eq_true, bne_iff_ne, ne_eq, not_or, Decidable.not_not] at hc
      exact hc.1
  obtain ⟨i, hi⟩ := zip_mem_right p.indices (sortBy le id claimed) (by rw [sortBy_length]; omega) x ((mem_sortBy le id).mpr hx)
  have := proofRoot_sound le merge hinj zero leaves hne p claimed hnd hrange hroot (i, x) hi
  have hr := hrange i (List.of_mem_zip hi).1
  simp only [] at this
  rw [← this, List.getD_eq_getElem?_getD, List.getElem?_eq_getElem (by omega)]
  simp

/-- **the distinctness hypothesis is necessary** (negation witness, for EVERY merge function): `root` silently drops an
entry when the lemmas are exhausted and its sibling is not next.  Over the four leaves 40,30,20,10 the proof with indices
[6,6,5,4,3] (all inside the leaf range 3..6, index 6 twice) and no lemmas makes `root([5,10,20,30,40])` return the true
root although 5 is not a leaf: the first entry `(6,5)` is dropped, the rest rebuilds the whole tree.  The same with a
lemma in play: indices [4,6,4,3], lemma = leaf 20, claimed [5,10,30,40]. -/
theorem proof_root_duplicate_index_unbound (merge : Nat → Nat → Nat) :
    proofRoot Nat.ble merge { indices := [6, 6, 5, 4, 3], lemmas := [] } [5, 10, 20, 30, 40]
      = some (cbmtRoot merge 0 [40, 30, 20, 10]) ∧
    proofRoot Nat.ble merge { indices := [4, 6, 4, 3], lemmas := [20] } [30, 5, 10, 40]
      = some (cbmtRoot merge 0 [40, 30, 20, 10]) ∧
    5 ∉ [40, 30, 20, 10] ∧
    retrieveLeaves 0 [40, 30, 20, 10] ({ indices := [6, 6, 5, 4, 3], lemmas := [] } : MProof Nat) = some [10, 10, 20, 30, 40] :=
  ⟨rfl, rfl, by decide, rfl⟩

/-- and without any range check (`verify` alone has none) a proof can bind nothing but its root entry:
`MerkleProof { indices: [0,7,6,3], lemmas: [] }.root([r,x,y,z])` = `Some(r)` for the smallest `r` -/
theorem proof_root_drops_unpaired_entries (merge : Nat → Nat → Nat) :
    proofRoot Nat.ble merge { indices := [0, 7, 6, 3], lemmas := [] } [1, 5, 1, 1] = some 1 := rfl

variable {D : Type} [BEq D] [LawfulBEq D] {A : HashAlg D}

omit [LawfulBEq D] in
/-- `verify_transaction_proof` only ever returns transaction hashes of the block it looked up -/
theorem verify_tx_proof_returns_block_hashes (le : D → D → Bool) (txHashes : List D) (tr w : D) (p : MProof D) (hs : List D)
    (h : verifyTxProof A le txHashes tr w p = some hs) : ∀ x ∈ hs, x ∈ txHashes := by
  cases hret : retrieveLeaves A.zero txHashes p with
  | none => simp [verifyTxProof, hret] at h
  | some ls =>
    simp only [verifyTxProof, hret] at h
    split at h
    · cases h
    · split at h
      · have := Option.some.inj h
        subst this
        exact (retrieveLeaves_mem A.zero txHashes p _ hret).2.2
      · cases h

/-- **`get_transaction_proof` → `verify_transaction_proof` round trip**: for every block body (`txs` non-empty) and every
non-empty set of distinct transaction positions (what `get_tx_indices` produces, in any order), the node builds a proof
and accepts it against the block's `transactions_root` and `calc_witnesses_root()`, returning exactly the requested
transaction hashes (as a permutation: sorted by hash). -/
theorem tx_proof_roundtrip (le : D → D → Bool)
    (htot : ∀ a b : D, le a b = true ∨ le b a = true) (htrans : ∀ a b c : D, le a b = true → le b c = true → le a c = true)
    (txs : List Bytes) (idx : List Nat) (hne : txs ≠ []) (hidx : idx ≠ []) (hnd : idx.Nodup) (hr : ∀ i ∈ idx, i < txs.length) :
    ∃ p hs, getTxProof A le (txs.map (txHash A)) idx = .some p ∧
      verifyTxProof A le (txs.map (txHash A)) (transactionsRoot A txs) (witnessesRoot A txs) p = some hs ∧
      hs.Perm (idx.map fun i => (txs.map (txHash A)).getD i A.zero) := by
  have hne' : txs.map (txHash A) ≠ [] := by simpa using hne
  have hr' : ∀ i ∈ idx, i < (txs.map (txHash A)).length := by simpa using hr
  obtain ⟨p, h1, h2, h3, h4⟩ := buildMerkleProof_complete le htot htrans (merge A) A.zero (txs.map (txHash A)) idx hne' hidx hnd hr'
  refine ⟨p, p.indices.map (fun i => (txs.map (txHash A)).getD (i + 1 - (txs.map (txHash A)).length) A.zero), h1, ?_, ?_⟩
  · unfold verifyTxProof
    rw [h3]
    simp only []
    rw [h4]
    simp only []
    have : transactionsRoot A txs = merkleRoot A [cbmtRoot (merge A) A.zero (txs.map (txHash A)), witnessesRoot A txs] := rfl
    rw [this]
    simp
  · have hn : 0 < (txs.map (txHash A)).length := List.length_pos_iff.mpr hne'
    have := h2.map (fun i => (txs.map (txHash A)).getD (i + 1 - (txs.map (txHash A)).length) A.zero)
    refine this.trans ?_
    rw [List.map_map]
    apply List.Perm.of_eq
    apply List.map_congr_left
    intro i _
    simp only [Function.comp]
    congr 1
    omega

/-- **`get_transaction_and_witness_proof` → `verify_transaction_and_witness_proof` round trip**: both CBMT proofs (over the
tx hashes and over the witness hashes, same positions) are built and accepted against the block's `transactions_root`;
the returned list is the requested tx hashes. -/
theorem tx_and_witness_proof_roundtrip (le : D → D → Bool)
    (htot : ∀ a b : D, le a b = true ∨ le b a = true) (htrans : ∀ a b c : D, le a b = true → le b c = true → le a c = true)
    (txs : List Bytes) (idx : List Nat) (hne : txs ≠ []) (hidx : idx ≠ []) (hnd : idx.Nodup) (hr : ∀ i ∈ idx, i < txs.length) :
    ∃ pt pw hs, getTxProof A le (txs.map (txHash A)) idx = .some pt ∧
      buildMerkleProof le (merge A) A.zero (txs.map (witnessHash A)) idx = .some pw ∧
      verifyTxAndWitnessProof A le (txs.map (txHash A)) (txs.map (witnessHash A)) (transactionsRoot A txs) pt pw = some hs ∧
      hs.Perm (idx.map fun i => (txs.map (txHash A)).getD i A.zero) := by
  have hne1 : txs.map (txHash A) ≠ [] := by simpa using hne
  have hne2 : txs.map (witnessHash A) ≠ [] := by simpa using hne
  have hr1 : ∀ i ∈ idx, i < (txs.map (txHash A)).length := by simpa using hr
  have hr2 : ∀ i ∈ idx, i < (txs.map (witnessHash A)).length := by simpa using hr
  obtain ⟨pt, t1, t2, t3, t4⟩ := buildMerkleProof_complete le htot htrans (merge A) A.zero (txs.map (txHash A)) idx hne1 hidx hnd hr1
  obtain ⟨pw, w1, _, w3, w4⟩ := buildMerkleProof_complete le htot htrans (merge A) A.zero (txs.map (witnessHash A)) idx hne2 hidx hnd hr2
  refine ⟨pt, pw, pt.indices.map (fun i => (txs.map (txHash A)).getD (i + 1 - (txs.map (txHash A)).length) A.zero), t1, w1, ?_, ?_⟩
  · unfold verifyTxAndWitnessProof
    rw [w3]
    simp only []
    rw [w4]
    simp only []
    rw [t3]
    simp only []
    rw [t4]
    simp only []
    have : transactionsRoot A txs = merkleRoot A [cbmtRoot (merge A) A.zero (txs.map (txHash A)), cbmtRoot (merge A) A.zero (txs.map (witnessHash A))] := rfl
    rw [this]
    simp
  · have hn : 0 < (txs.map (txHash A)).length := List.length_pos_iff.mpr hne1
    have := t2.map (fun i => (txs.map (txHash A)).getD (i + 1 - (txs.map (txHash A)).length) A.zero)
    refine this.trans ?_
    rw [List.map_map]
    apply List.Perm.of_eq
    apply List.map_congr_left
    intro i _
    simp only [Function.comp]
    congr 1
    omega

omit [BEq D] [LawfulBEq D] in
/-- **what a verified transaction proof binds, for somebody who only has the header** (`CollisionFree`): a CBMT proof with
distinct leaf-range indices whose root, merged with the supplied `witnesses_root`, is the header's `transactions_root`
pins the witnesses root and makes every claimed hash the tx hash of the block's transaction at that position. -/
theorem tx_proof_binds_hashes (cf : CollisionFree A) (le : D → D → Bool) (txs : List Bytes) (hne : txs ≠ [])
    (p : MProof D) (claimed : List D) (w r : D)
    (hnd : p.indices.Nodup)
    (hrange : ∀ i ∈ p.indices, txs.length - 1 ≤ i ∧ i ≤ 2 * (txs.length - 1))
    (hr : proofRoot le (merge A) p claimed = some r)
    (hroot : transactionsRoot A txs = merkleRoot A [r, w]) :
    w = witnessesRoot A txs ∧
    ∀ e ∈ p.indices.zip (sortBy le id claimed), (txs.map (txHash A)).getD (e.1 + 1 - txs.length) A.zero = e.2 := by
  have h : merge A (rawTransactionsRoot A txs) (witnessesRoot A txs) = merge A r w := hroot
  have hinj := merge_inj2 cf _ _ _ _ h
  refine ⟨hinj.2.symm, ?_⟩
  have hne' : txs.map (txHash A) ≠ [] := by simpa using hne
  have := proofRoot_sound le (merge A) (merge_inj2 cf) A.zero (txs.map (txHash A)) hne' p claimed hnd
    (by simpa using hrange) (by rw [hr, ← hinj.1]; rfl)
  simpa using this

example : buildMerkleProof Nat.ble (fun a b => 2 * a + 3 * b + 1) 0 [40, 30, 20, 10, 50] [4, 0]
    = .some { indices := [4, 8], lemmas := [10, 121] } := by decide
example : proofRoot Nat.ble (fun a b => 2 * a + 3 * b + 1) { indices := [4, 8], lemmas := [10, 121] } [50, 40]
    = some (cbmtRoot (fun a b => 2 * a + 3 * b + 1) 0 [40, 30, 20, 10, 50]) := by decide
example : buildMerkleProof Nat.ble (fun a b => a + b) 0 [7] [0, 0] = .panic := by decide
-- the hypotheses of `merkle_proof_sound` / `tx_proof_binds_hashes` are satisfiable: the honest proof above
example : ([4, 8] : List Nat).Nodup ∧ ∀ i ∈ [4, 8], [40, 30, 20, 10, 50].length - 1 ≤ i ∧ i ≤ 2 * ([40, 30, 20, 10, 50].length - 1) := by decide
example : Injective2 (Tm.node : Tm Nat → Tm Nat → Tm Nat) := Tm.node_inj2
/-- a toy algebra over `Nat` (not collision free) for executable examples of the RPC compositions -/
def natAlg : HashAlg Nat := { zero := 0, hb := fun b => b.length + 1, hd := fun ds => 2 * ds.sum + 100, hm := fun _ ds => ds.sum }
example : getTxProof natAlg Nat.ble [5, 3, 4] [1, 2] = .some { indices := [3, 4], lemmas := [5] } := by decide
example : verifyTxProof natAlg Nat.ble [5, 3, 4] (merkleRoot natAlg [merkleRoot natAlg [5, 3, 4], 77]) 77
    { indices := [3, 4], lemmas := [5] } = some [3, 4] := by decide

end merkle_proofs

/-! ### `serialized_size` helpers (`util/gen-types/src/extension/serialized_size.rs`) -/

section serialized_size
open CkbVerif.Hash

/-- **`Block::serialized_size_without_uncle_proposals`** on the bytes the `Block` builder writes is exactly the length
of the encoding of the same block with every uncle's proposals removed (for every header, uncle list, transaction
list and proposal list) -/
theorem size_without_uncle_proposals_is_stripped_block (h : Val) (us : List (Val × Val)) (ts ps : List Val)
    (hv : wfv S.Block (.seq [h, .seq (us.map uncleVal), .seq ts, .seq ps]) = true) :
    sizeWithoutUncleProposals (encode S.Block (.seq [h, .seq (us.map uncleVal), .seq ts, .seq ps])) =
      some (encode S.Block (.seq [h, .seq ((us.map stripUncle).map uncleVal), .seq ts, .seq ps])).length := by
  have hv' := hv
  simp only [S.Block, S.UncleBlockVec, S.TransactionVec, S.ProposalShortIdVec, wfv, wfvL, Bool.and_eq_true, Bool.and_true,
    decide_eq_true_eq] at hv'
  obtain ⟨⟨_, hus, _, _⟩, hsz⟩ := hv'
  have henc : ∀ us', encode S.Block (.seq [h, .seq (us'.map uncleVal), .seq ts, .seq ps]) = encDyn (blockItems h us' ts ps []) := by
    intro us'
    simp only [S.Block, S.UncleBlockVec, S.TransactionVec, S.ProposalShortIdVec, encode, encodeL, blockItems]
  rw [henc, henc, sizeWithoutUncleProposals_encDyn h us ts ps [] (by simpa [wfv] using hus)
    (by simpa [blockItems, encodeL, S.UncleBlockVec, S.TransactionVec, S.ProposalShortIdVec] using hsz)]

/-- the same for a `BlockV1` (extension present), read as a compatible `Block` -/
theorem size_without_uncle_proposals_is_stripped_block_v1 (h : Val) (us : List (Val × Val)) (ts ps : List Val) (ext : Val)
    (hv : wfv S.BlockV1 (.seq [h, .seq (us.map uncleVal), .seq ts, .seq ps, ext]) = true) :
    sizeWithoutUncleProposals (encode S.BlockV1 (.seq [h, .seq (us.map uncleVal), .seq ts, .seq ps, ext])) =
      some (encode S.BlockV1 (.seq [h, .seq ((us.map stripUncle).map uncleVal), .seq ts, .seq ps, ext])).length := by
  have hv' := hv
  simp only [S.BlockV1, S.UncleBlockVec, S.TransactionVec, S.ProposalShortIdVec, wfv, wfvL, Bool.and_eq_true, Bool.and_true,
    decide_eq_true_eq] at hv'
  obtain ⟨⟨_, hus, _, _, _⟩, hsz⟩ := hv'
  have henc : ∀ us', encode S.BlockV1 (.seq [h, .seq (us'.map uncleVal), .seq ts, .seq ps, ext]) =
      encDyn (blockItems h us' ts ps [encode S.Bytes ext]) := by
    intro us'
    simp only [S.BlockV1, S.UncleBlockVec, S.TransactionVec, S.ProposalShortIdVec, encode, encodeL, blockItems]
  rw [henc, henc, sizeWithoutUncleProposals_encDyn h us ts ps _ (by simpa [wfv] using hus)
    (by simpa [blockItems, encodeL, S.UncleBlockVec, S.TransactionVec, S.ProposalShortIdVec] using hsz)]

/-- **`Transaction::serialized_size_in_block`** is exactly what one more transaction adds to the block encoding -/
theorem tx_size_in_block_is_increment (h us ps : Val) (ts : List Val) (t : Val) :
    (encode S.Block (.seq [h, us, .seq (ts ++ [t]), ps])).length =
      (encode S.Block (.seq [h, us, .seq ts, ps])).length + txSizeInBlock (encode S.Transaction t) := by
  have e1 : (encode S.TransactionVec (.seq (ts ++ [t]))).length =
      (encode S.TransactionVec (.seq ts)).length + (encode S.Transaction t).length + 4 := by
    simp only [S.TransactionVec, encode, encDyn_length_all, List.map_append, List.map_cons, List.map_nil, List.flatten_append,
      List.length_append, List.flatten_cons, List.flatten_nil, List.length_cons, List.length_nil, List.length_map]
    omega
  simp only [S.Block, encode, encodeL, txSizeInBlock, numberSize]
  rw [encDyn_length_all, encDyn_length_all]
  simp only [List.flatten_cons, List.flatten_nil, List.length_append, List.length_cons, List.length_nil]
  rw [e1]
  omega

/-- **`UncleBlock::serialized_size_in_block()`** is exactly what one more uncle WITHOUT proposals adds to the block
encoding: `Header::TOTAL_SIZE + 5 * NUMBER_SIZE` = 228 -/
theorem uncle_size_in_block_is_increment (h ts ps : Val) (us : List Val) (uh : Val) (huh : wfv S.Header uh = true) :
    (encode S.Block (.seq [h, .seq (us ++ [.seq [uh, .seq []]]), ts, ps])).length =
      (encode S.Block (.seq [h, .seq us, ts, ps])).length + uncleSizeInBlock := by
  have hlen := encode_length_fixed S.Header uh (by decide +kernel) huh
  have e0 : (encode S.UncleBlock (.seq [uh, .seq []])).length = size S.Header + 16 := by
    have := uncle_length (uh, .seq [])
    simp only [uncleVal, empty_proposals_length, hlen] at this
    omega
  have e1 : (encode S.UncleBlockVec (.seq (us ++ [.seq [uh, .seq []]]))).length =
      (encode S.UncleBlockVec (.seq us)).length + (size S.Header + 16) + 4 := by
    simp only [S.UncleBlockVec, encode, encDyn_length_all, List.map_append, List.map_cons, List.map_nil, List.flatten_append,
      List.length_append, List.flatten_cons, List.flatten_nil, List.length_cons, List.length_nil, List.length_map]
    have := e0
    simp only [S.UncleBlock, encode] at this
    omega
  simp only [S.Block, encode, encodeL, uncleSizeInBlock, numberSize]
  rw [encDyn_length_all, encDyn_length_all]
  simp only [List.flatten_cons, List.flatten_nil, List.length_append, List.length_cons, List.length_nil]
  rw [e1]
  omega

theorem serialized_size_constants : uncleSizeInBlock = 228 ∧ proposalShortIdSize = 10 := by decide +kernel

example : txSizeInBlock [1, 2, 3] = 7 := rfl

end serialized_size

/-! ### JSON ↔ packed field maps (`util/jsonrpc-types/src/blockchain.rs`), over the table REGENERATED on every run -/

section json_field_maps
open CkbVerif.JsonMap CkbVerif.Gen.JsonMap

/-- **the generated field maps keep the discipline** (re-checked against the regenerated `Gen/JsonMap.lean` on every
run): for Script, OutPoint, CellInput, CellOutput, CellDep, Transaction, Header, UncleBlock, Block — every declared
packed field (Transaction / Header: through `raw`) and the optional `Block.extension` is read by exactly one json
field in `From<packed::X> for X`; every field of the json struct is set exactly once; every builder branch of
`From<X> for packed::X` writes every declared packed field exactly once, from exactly the json field that read it and
with the same conversion kind, consuming distinct json fields; `Block` has one branch that writes the extension
(`BlockV1 … as_v0()`) and one that does not.  A conversion that drops, duplicates or crosses a field breaks this. -/
theorem generated_json_maps_ok : ∀ t ∈ CkbVerif.Gen.JsonMap.all, mapOk t = true := by decide +kernel

/-- the nine types are all in the table (an impl the translator cannot read makes the translator fail, not shrink) -/
theorem generated_json_maps_cover :
    CkbVerif.Gen.JsonMap.all.map (·.name) = ["Script", "OutPoint", "CellInput", "CellOutput", "CellDep", "Transaction", "Header", "UncleBlock", "Block"] := by
  decide +kernel

/-- **the two directions are mutually inverse at the field-map level, for EVERY map with the discipline** and every
record: a backward branch applied after the forward map returns, at every packed field the branch writes, the value the
packed record had there -/
theorem json_field_map_roundtrip_general {V : Type} (dflt : V) (t : TypeMap) (hok : mapOk t = true)
    (b : String × List Entry) (hb : b ∈ t.back) (rec : String → V) (p : String) (hp : p ∈ branchTargets t b.2) :
    applyBack dflt b.2 (applyFwd dflt t.fwd rec) p = rec p :=
  back_after_fwd dflt t hok b hb rec p hp

/-- … in particular for every generated type, every branch, every record and every field -/
theorem json_field_map_roundtrip {V : Type} (dflt : V) (t : TypeMap) (ht : t ∈ CkbVerif.Gen.JsonMap.all)
    (b : String × List Entry) (hb : b ∈ t.back) (rec : String → V) (p : String) (hp : p ∈ branchTargets t b.2) :
    applyBack dflt b.2 (applyFwd dflt t.fwd rec) p = rec p :=
  back_after_fwd dflt t (generated_json_maps_ok t ht) b hb rec p hp

/-- the extension of a block: the `BlockV1` branch must write it, the `Block` branch must not -/
theorem block_extension_branches :
    mBlock.back.map (fun b => (b.1, branchTargets mBlock b.2)) =
      [("BlockV1", ["header", "uncles", "transactions", "proposals", "extension"]),
       ("Block", ["header", "uncles", "transactions", "proposals"])] := by decide +kernel

-- a table that loses, duplicates or crosses a field does not have the discipline
example : mapOk { mScript with fwd := mScript.fwd.drop 1 } = false := by decide +kernel
example : mapOk { mHeader with back := [("Header", mHeader.fwd.drop 1)] } = false := by decide +kernel
example : mapOk { mOutPoint with fwd := [⟨"tx_hash", "index", "hash"⟩, ⟨"index", "tx_hash", "uint"⟩] } = false := by decide +kernel
example : applyBack 0 mOutPoint.fwd (applyFwd 0 mOutPoint.fwd (fun p => p.length)) "tx_hash" = 7 := by decide +kernel

end json_field_maps

/-! ### JSON scalars (`JsonUint<T>`, `JsonBytes`) -/

/-- `0x{:x}` then `visit_str` is the identity on every value of the type -/
theorem json_uint_roundtrip (bits n : Nat) (h : n < 2 ^ bits) :
    Json.parseUint bits (Json.showUintChars n) = some n :=
  Json.parseUint_showUint bits n h

theorem json_bytes_roundtrip (bs : List UInt8) : Json.parseBytes (Json.showBytesChars bs) = some bs :=
  Json.parseBytes_showBytes bs

/-! ### non-vacuity: the hypotheses are satisfiable by concrete, non-trivial values -/

/-- a Script value: code_hash = 32 bytes, hash_type = 1, args = [0xde, 0xad] -/
def exScript : Val := .seq [.seq (List.replicate 32 (.byte 7)), .byte 1, .seq [.byte 0xde, .byte 0xad]]

example : wfv S.Script exScript = true := by decide +kernel
example : (encode S.Script exScript).length = 55 := by decide +kernel
example : decode false S.Script (encode S.Script exScript) = some exScript :=
  decode_encode false S.Script exScript (by decide +kernel) (by decide +kernel)
/-- a table with an extra field is accepted only in compatible mode -/
example : verify false (.table [.byte]) [14, 0, 0, 0, 12, 0, 0, 0, 13, 0, 0, 0, 5, 9] = false
    ∧ verify true (.table [.byte]) [14, 0, 0, 0, 12, 0, 0, 0, 13, 0, 0, 0, 5, 9] = true := by decide +kernel
example : Json.parseUint 64 "0x1f".toList = some 31 := by decide +kernel

end CkbVerif.C15
