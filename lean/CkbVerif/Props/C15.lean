import CkbVerif.Model.Molecule
import CkbVerif.Model.Json
import CkbVerif.Gen.Schemas
namespace CkbVerif.C15
open CkbVerif.Molecule

theorem placeholder : size .byte = 1 := by decide

end CkbVerif.C15
