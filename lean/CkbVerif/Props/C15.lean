import CkbVerif.Lemmas.MoleculeVerify
import CkbVerif.Lemmas.Json
import CkbVerif.Gen.Schemas
/-!
# C15 — wire and storage encodings round-trip losslessly and hashes commit to content

All statements are for **every** schema and value (structural induction, no bound), then
instantiated for the schemas generated from `util/gen-types/schemas/*.mol` (`Gen.Schemas.all`,
regenerated on every run; `generated_schemas_wf` is re-decided against the regenerated table).
`encode` is what the generated builders write, `decode`/`verify` what the generated readers check
and read (`Model/Molecule.lean`); the correspondence harness ties both to the real code.
The hash function is opaque: hash statements say which bytes are hashed.
-/
namespace CkbVerif.C15
open CkbVerif.Molecule CkbVerif.Gen.Schemas

/-- builder → reader is the identity (both reader modes) -/
theorem decode_encode (c : Bool) (s : Schema) (v : Val) (hs : wf s = true) (hv : wfv s v = true) :
    decode c s (encode s v) = some v :=
  Molecule.decode_encode c s v hs hv

/-- strict decoding accepts only the canonical encoding of the value it returns:
rebuilding the value field by field reproduces the bytes -/
theorem encode_decode_canonical (s : Schema) (bs : Bytes) (v : Val) (h : decode false s bs = some v) :
    encode s v = bs :=
  Molecule.encode_decode s bs v h

/-- the reader's `verify` (the checks of the generated `Reader::verify`) accepts exactly the
byte strings that decode -/
theorem verify_iff_decode (c : Bool) (s : Schema) (bs : Bytes) (hs : wf s = true) :
    verify c s bs = true ↔ ∃ v, decode c s bs = some v := by
  rw [verify_eq_decode c s bs hs, Option.isSome_iff_exists]

/-- `from_compatible_slice` accepts whatever `from_slice` accepts, with the same value -/
theorem compatible_extends_strict (s : Schema) (bs : Bytes) (v : Val) (h : decode false s bs = some v) :
    decode true s bs = some v :=
  Molecule.compat_extends s bs v h

/-- two values with the same encoding are the same value (lossless) -/
theorem encode_injective (s : Schema) (v w : Val) (hs : wf s = true) (hv : wfv s v = true) (hw : wfv s w = true)
    (h : encode s v = encode s w) : v = w := by
  have h1 := Molecule.decode_encode false s v hs hv
  have h2 := Molecule.decode_encode false s w hs hw
  rw [h] at h1
  rw [h1] at h2
  exact Option.some.inj h2

/-- a strictly accepted byte string is the encoding of exactly one value, and that value is what
decoding returns (uniqueness of the decoded value) -/
theorem strict_bytes_unique_value (s : Schema) (bs : Bytes) (v w : Val) (hs : wf s = true) (hw : wfv s w = true)
    (h : decode false s bs = some v) (he : encode s w = bs) : w = v := by
  have := Molecule.decode_encode false s w hs hw
  rw [he, h] at this
  exact (Option.some.inj this).symm

/-! ### the generated schemas -/

/-- every schema generated from the `.mol` files of /repo is well-formed (re-decided on every run) -/
theorem generated_schemas_wf : ∀ p ∈ all, wf p.2 = true := by decide +kernel

theorem generated_decode_encode (c : Bool) (name : String) (s : Schema) (hm : (name, s) ∈ all) (v : Val)
    (hv : wfv s v = true) : decode c s (encode s v) = some v :=
  Molecule.decode_encode c s v (generated_schemas_wf (name, s) hm) hv

theorem generated_verify_iff_decode (c : Bool) (name : String) (s : Schema) (hm : (name, s) ∈ all) (bs : Bytes) :
    verify c s bs = true ↔ ∃ v, decode c s bs = some v :=
  verify_iff_decode c s bs (generated_schemas_wf (name, s) hm)

/-! ### hash coverage at the layout level (hash opaque) -/

/-- a table field, as the reader slices it out of a built table, is the encoding of that field -/
theorem table_field_bytes (fs : List Schema) (vs : List Val) (i : Nat) (hne : fs ≠ [])
    (hv : wfv (.table fs) (.seq vs) = true) :
    tableFieldBytes (encode (.table fs) (.seq vs)) i = (encodeL fs vs)[i]? := by
  simp only [wfv, Bool.and_eq_true, decide_eq_true_eq] at hv
  have hel := encodeL_length fs vs hv.1
  have hne' : encodeL fs vs ≠ [] := by
    intro hc; rw [hc] at hel; cases fs with
    | nil => exact hne rfl
    | cons => simp at hel
  have hsz : 4 * ((encodeL fs vs).length + 1) + (encodeL fs vs).flatten.length < 4294967296 := by
    rw [hel]; exact hv.2
  have henc : encode (.table fs) (.seq vs) = encDyn (encodeL fs vs) := by simp only [encode]
  rw [henc]
  simp only [tableFieldBytes, dynHeader_encDyn _ hne' hsz, slices_encDyn _ hne']

/-- what `calc_tx_hash` hashes: `self.raw().as_slice()` -/
def txHashInput (tx : Bytes) : Option Bytes := tableFieldBytes tx 0
/-- what `calc_witness_hash` hashes: `self.as_slice()` -/
def witnessHashInput (tx : Bytes) : Bytes := tx

/-- tx hash = H(encoding of `raw` only) -/
theorem tx_hash_input_is_raw (raw wit : Val) (hv : wfv S.Transaction (.seq [raw, wit]) = true) :
    txHashInput (encode S.Transaction (.seq [raw, wit])) = some (encode S.RawTransaction raw) := by
  have := table_field_bytes [S.RawTransaction, S.BytesVec] [raw, wit] 0 (by simp) hv
  simpa [txHashInput, S.Transaction, encodeL] using this

/-- … so it does not depend on the witnesses … -/
theorem tx_hash_ignores_witnesses (raw w1 w2 : Val) (h1 : wfv S.Transaction (.seq [raw, w1]) = true)
    (h2 : wfv S.Transaction (.seq [raw, w2]) = true) :
    txHashInput (encode S.Transaction (.seq [raw, w1])) = txHashInput (encode S.Transaction (.seq [raw, w2])) := by
  rw [tx_hash_input_is_raw raw w1 h1, tx_hash_input_is_raw raw w2 h2]

theorem wfv_tx_fields (raw wit : Val) (hv : wfv S.Transaction (.seq [raw, wit]) = true) :
    wfv S.RawTransaction raw = true ∧ wfv S.BytesVec wit = true := by
  simp only [S.Transaction, wfv, wfvL, Bool.and_eq_true, Bool.and_true] at hv
  exact ⟨hv.1.1, hv.1.2⟩

/-- … and binds every field of `raw` (equal pre-images ⇒ equal raw transactions) -/
theorem tx_hash_binds_raw (r1 w1 r2 w2 : Val) (h1 : wfv S.Transaction (.seq [r1, w1]) = true)
    (h2 : wfv S.Transaction (.seq [r2, w2]) = true)
    (h : txHashInput (encode S.Transaction (.seq [r1, w1])) = txHashInput (encode S.Transaction (.seq [r2, w2]))) :
    r1 = r2 := by
  rw [tx_hash_input_is_raw r1 w1 h1, tx_hash_input_is_raw r2 w2 h2] at h
  exact encode_injective S.RawTransaction r1 r2 (by decide +kernel : wf S.RawTransaction = true)
    (wfv_tx_fields r1 w1 h1).1 (wfv_tx_fields r2 w2 h2).1 (Option.some.inj h)

/-- witness hash = H(whole transaction): binds raw and witnesses -/
theorem witness_hash_binds_all (t1 t2 : Val) (h1 : wfv S.Transaction t1 = true) (h2 : wfv S.Transaction t2 = true)
    (h : witnessHashInput (encode S.Transaction t1) = witnessHashInput (encode S.Transaction t2)) : t1 = t2 :=
  encode_injective S.Transaction t1 t2 (by decide +kernel : wf S.Transaction = true) h1 h2 h

/-- header hash = H(whole header): binds every header field, incl. transactions_root, proposals_hash, extra_hash -/
theorem header_hash_binds_all (h1 h2 : Val) (w1 : wfv S.Header h1 = true) (w2 : wfv S.Header h2 = true)
    (h : encode S.Header h1 = encode S.Header h2) : h1 = h2 :=
  encode_injective S.Header h1 h2 (by decide +kernel : wf S.Header = true) w1 w2 h

/-! ### JSON scalars (`JsonUint<T>`, `JsonBytes`) -/

/-- `0x{:x}` then `visit_str` is the identity on every value of the type -/
theorem json_uint_roundtrip (bits n : Nat) (h : n < 2 ^ bits) :
    Json.parseUint bits (Json.showUintChars n) = some n :=
  Json.parseUint_showUint bits n h

theorem json_bytes_roundtrip (bs : List UInt8) : Json.parseBytes (Json.showBytesChars bs) = some bs :=
  Json.parseBytes_showBytes bs

/-! ### non-vacuity: the hypotheses are satisfiable by concrete, non-trivial values -/

/-- a Script value: code_hash = 32 bytes, hash_type = 1, args = [0xde, 0xad] -/
def exScript : Val := .seq [.seq (List.replicate 32 (.byte 7)), .byte 1, .seq [.byte 0xde, .byte 0xad]]

example : wfv S.Script exScript = true := by decide +kernel
example : (encode S.Script exScript).length = 55 := by decide +kernel
example : decode false S.Script (encode S.Script exScript) = some exScript :=
  decode_encode false S.Script exScript (by decide +kernel) (by decide +kernel)
/-- a table with an extra field is accepted only in compatible mode -/
example : verify false (.table [.byte]) [14, 0, 0, 0, 12, 0, 0, 0, 13, 0, 0, 0, 5, 9] = false
    ∧ verify true (.table [.byte]) [14, 0, 0, 0, 12, 0, 0, 0, 13, 0, 0, 0, 5, 9] = true := by decide +kernel
example : Json.parseUint 64 "0x1f".toList = some 31 := by decide +kernel

end CkbVerif.C15
