/-
C02, part 2 — blocks that FAIL verification inside a reorganisation: all or nothing.

`Model/StoreV.lean` extends the chain-service step of `Model/Store.lean` with the failure path of
`reconcile_main_chain` / `verify_block` / `consume_unverified_blocks` (chain/src/verify.rs): the
model decides `resolve_block_transactions` itself from the cell column inside the reorg transaction
(`resolveOk`), takes the rules it does not model (reward, DAO field, chain-root extension) as the
input `bad`, and answers a failed step with the OLD view.  Theorems: a step that succeeds is exactly
`Store.process` (so every theorem of `Props/C02.lean` applies to it); a step that fails leaves every
column of the main-chain view and every record as it was — in particular the view stays the replay
of the old main chain; `reconcile_main_chain` fails exactly at the FIRST failing block; what
`resolveOk` accepts satisfies the `inputs` clause of `Valid` and spends nothing twice.
-/
import CkbVerif.Props.C02
import CkbVerif.Lemmas.StoreV
namespace CkbVerif.C02
open CkbVerif.Store

/-- **A step that succeeds is `Store.process`.**  Whatever the set of bad blocks: if the
chain-service step with failing blocks answers `Ok`, it committed exactly what the valid-blocks
model commits, so `process_reorg_eq_replay`, `current_epoch_follows_main_chain` … apply verbatim. -/
theorem processV_ok_is_process (bad : Nat → Bool) (v : View) (b : Block)
    (h : (processV bad v b).2 = true) : (processV bad v b).1 = process v b := by
  unfold processV process at *
  simp only at h ⊢
  split
  · rename_i hbest
    simp only [hbest, if_true] at h
    generalize hw : walkBack v.m _ (b.number + 1) b.parent [] = w at h ⊢
    obtain ⟨attTail, common⟩ := w
    simp only at h ⊢
    cases hc : commitBestV bad _ b _ (attTail ++ [b]) with
    | none => rw [hc] at h; simp at h
    | some v' =>
      simp only
      exact commitBestV_some bad _ b _ _ v' hc
  · rfl

/-- **All or nothing.**  If the step answers `Err` (some attached block failed inside
`reconcile_main_chain`), the main-chain view — live cells, tx-info, both index directions, uncles,
epoch-number rows, tip, current epoch — is *the view before the step*, for every view, every block
and every set of bad blocks; and the records are the records before the step (the body inserted by
`insert_block` is deleted again; no ext, block → epoch or epoch row of the block survives). -/
theorem failed_reorg_all_or_nothing (bad : Nat → Bool) (v : View) (b : Block)
    (h : (processV bad v b).2 = false) :
    (processV bad v b).1.m = v.m ∧
    (v.r.bodies b.id = none → (processV bad v b).1.r = v.r) := by
  unfold processV at *
  simp only at h ⊢
  split
  · rename_i hbest
    simp only [hbest, if_true] at h
    generalize hw : walkBack v.m _ (b.number + 1) b.parent [] = w at h ⊢
    obtain ⟨attTail, common⟩ := w
    simp only at h ⊢
    cases hc : commitBestV bad _ b _ (attTail ++ [b]) with
    | some v' => rw [hc] at h; simp at h
    | none =>
      simp only
      refine ⟨trivial, ?_⟩
      intro hb
      show deleteBlock (insertBlock v.r b) b = v.r
      cases hr : v.r with
      | mk bodies ext blockEpoch epochExt =>
        rw [hr] at hb
        simp only [deleteBlock, insertBlock]
        congr 1
        funext x
        simp only [upd]
        by_cases hx : x = b.id
        · simp [hx]; exact hb.symm
        · simp [hx]
  · rename_i hbest
    simp [hbest] at h

/-- … hence a failed reorganisation leaves the stored view the replay of the OLD main chain -/
theorem failed_reorg_keeps_replay (bad : Nat → Bool) (g : Block) (rest : List Block) (r : Recs) (b : Block)
    (h : (processV bad ⟨(replay (g :: rest)).m, r⟩ b).2 = false) :
    (processV bad ⟨(replay (g :: rest)).m, r⟩ b).1.m = (replay (g :: rest)).m :=
  (failed_reorg_all_or_nothing bad _ b h).1

/-- **`reconcile_main_chain` fails exactly at the first failing block.**  `Err` is returned iff the
attached list splits as `as ++ a :: rest` where all of `as` were attached (verified blocks as they
are, unverified ones after passing) and `a` needs verification and fails on the view built so far:
it is flagged bad or `resolve_block_transactions` fails on that view's cell column.  Nothing about
`rest` matters (the code gives them failure exts in a transaction that is dropped). -/
theorem reconcile_fails_at_first_failing_block (bad : Nat → Bool) (v : View) (att : List Block) :
    reconcileV bad v att = none ↔
      ∃ as a rest, att = as ++ a :: rest ∧ reconcileV bad v as = some (reconcile v as) ∧
        needsVerify (reconcile v as).r a = true ∧
        (bad a.id = true ∨ resolveOk (reconcile v as).m a = false) := by
  rw [reconcileV_none_iff]
  constructor
  · rintro ⟨as, a, rest, e, h1, h2⟩
    refine ⟨as, a, rest, e, h1, ?_⟩
    simp only [failsOn, Bool.and_eq_true, Bool.or_eq_true, Bool.not_eq_true'] at h2
    exact h2
  · rintro ⟨as, a, rest, e, h1, h2, h3⟩
    refine ⟨as, a, rest, e, h1, ?_⟩
    simp only [failsOn, Bool.and_eq_true, Bool.or_eq_true, Bool.not_eq_true']
    exact ⟨h2, h3⟩

/-- a reorganisation none of whose attached blocks fails commits, and commits `Store.commitBest` -/
theorem reorg_without_failing_block_commits (bad : Nat → Bool) (v : View) (b : Block) (det att : List Block)
    (hok : ∀ as a rest, att = as ++ a :: rest →
      failsOn bad (reconcile (rollback v det.reverse) as) a = false) :
    commitBestV bad v b det att = some (commitBest v b det att) := by
  unfold commitBestV
  rw [reconcileV_ok bad att _ hok]
  rfl

/-- **What the model's `resolve_block_transactions` accepts.**  On any cell column: every spent
out-point is live there or is an existing output of the block itself (the `inputs` clause of
`Valid`, which `detach_attach_cell` / `reorg_eq_replay` need — now decided by the model instead of
assumed), and no out-point is spent twice in the block (`seen_inputs`). -/
theorem resolve_accepts_only_spendable_inputs (m : Main) (b : Block) (h : resolveOk m b = true) :
    (∀ o ∈ deadInputs b, m.cells o ≠ none ∨ o ∈ blockOutPoints b) ∧ (deadInputs b).Nodup :=
  resolveOk_spec m b h

/-! ### witnesses on the example chain of `Props/C02.lean`
`g` (one spendable cell), `b1 = [cb, t5, t6]` (t5 spends the genesis cell, t6 spends t5's output 1
in the same block), sibling `b2 = [cb, t5]`. -/
namespace Example
/-- spends the genesis cell again: dead on every branch that contains `t5` -/
def t7 : Tx := { id := 7, inputs := [⟨0, 0⟩], outputs := [⟨8, 7⟩], fee := 1 }
/-- spends output 0 of `t5` -/
def t8 : Tx := { id := 8, inputs := [⟨5, 0⟩], outputs := [⟨8, 8⟩], fee := 1 }
/-- spends output 0 of `t5` as well -/
def t9 : Tx := { id := 9, inputs := [⟨5, 0⟩], outputs := [⟨8, 9⟩], fee := 1 }
/-- child of `b2` whose transaction spends a dead cell -/
def b3dead : Block := { b3 with id := 30, txs := [Witness.cb 1002, t7] }
/-- child of `b2` spending one cell twice inside the block -/
def b3twice : Block := { b3 with id := 31, txs := [Witness.cb 1002, t8, t9] }
/-- child of `b2` spending a cell that exists on the other branch only (output of `t6`) -/
def b3foreign : Block := { b3 with id := 32, txs := [Witness.cb 1002, { id := 10, inputs := [⟨6, 0⟩], outputs := [⟨8, 10⟩], fee := 1 }] }
/-- child of `b2` that is fine for the store columns (flagged bad from outside, e.g. a wrong DAO field) -/
def b3ok : Block := { b3 with id := 33, txs := [Witness.cb 1002, t8] }
def noBad : Nat → Bool := fun _ => false
/-- the main chain `g, b1` with `b2` stored as a side block -/
def v1 : View := (processV noBad (replay [g, b1]) b2).1
end Example

open Example in
/-- the three kinds of unresolvable input are decided by the model: the overtaking block is refused,
the tip stays block 1, the index, the cells of block 1 and the tx-info rows are untouched, nothing of
block 2 was attached, the refused block has no ext / body row; the same block without the offending
transaction is accepted and makes `g, b2, b3ok` the main chain; flagged bad from outside it is
refused again -/
theorem unresolvable_reorg_is_refused :
    (processV noBad (replay [g, b1]) b2).2 = true ∧ v1.m.tip = some 1 ∧
    (processV noBad v1 b3dead).2 = false ∧ (processV noBad v1 b3twice).2 = false ∧
    (processV noBad v1 b3foreign).2 = false ∧
    (processV noBad v1 b3dead).1.m.tip = some 1 ∧ (processV noBad v1 b3dead).1.m.index 1 = some 1 ∧
    (processV noBad v1 b3dead).1.m.index 2 = none ∧
    (processV noBad v1 b3dead).1.m.cells ⟨6, 0⟩ = v1.m.cells ⟨6, 0⟩ ∧ v1.m.cells ⟨6, 0⟩ ≠ none ∧
    (processV noBad v1 b3dead).1.m.txInfo 5 = some ⟨1, 1, 1, ⟨0, 1, 9⟩⟩ ∧
    (processV noBad v1 b3dead).1.r.ext 30 = none ∧ (processV noBad v1 b3dead).1.r.bodies 30 = none ∧
    (processV noBad v1 b3dead).1.r.ext 2 = v1.r.ext 2 ∧
    (processV noBad v1 b3ok).2 = true ∧ (processV noBad v1 b3ok).1.m.tip = some 33 ∧
    (processV noBad v1 b3ok).1.m.index 1 = some 2 ∧
    (processV (fun x => x == 33) v1 b3ok).2 = false ∧ (processV (fun x => x == 33) v1 b3ok).1.m.tip = some 1 := by
  decide

open Example in
/-- **Mutation witness: committing the transaction on the error path.**  What the reorg transaction
holds when `b3dead` fails — block 1 rolled back, block 2 attached — is NOT the old view: committing
it (a `?` replaced by logging, a commit moved before the check) would leave index 1 → block 2 and
tx 6's cell gone under the tip block 1. -/
theorem committing_a_failed_reorg_breaks_replay :
    let partial_ := reconcile (rollback ⟨v1.m, putExt v1.r 30 (freshExt v1.r b3dead)⟩ [b1]) [b2]
    partial_.m.index 1 = some 2 ∧ v1.m.index 1 = some 1 ∧
    partial_.m.cells ⟨6, 0⟩ = none ∧ v1.m.cells ⟨6, 0⟩ ≠ none ∧
    failsOn noBad ⟨partial_.m, putExt partial_.r 30 (freshExt v1.r b3dead)⟩ b3dead = true := by
  decide

open Example in
/-- non-vacuity of `failed_reorg_all_or_nothing` / `processV_ok_is_process` -/
example : (processV noBad v1 b3dead).2 = false ∧ (processV noBad v1 b3dead).1.m.tip = v1.m.tip ∧
    v1.r.bodies b3dead.id = none ∧ (processV noBad v1 b3ok).2 = true := by
  decide

open Example in
/-- non-vacuity of `resolve_accepts_only_spendable_inputs` (in-block create-and-spend accepted) and
the three refusals at the level of `resolveOk` -/
example : resolveOk (replay [g]).m b1 = true ∧ resolveOk (replay [g, b2]).m b3ok = true ∧
    resolveOk (replay [g, b2]).m b3dead = false ∧ resolveOk (replay [g, b2]).m b3twice = false ∧
    resolveOk (replay [g, b2]).m b3foreign = false := by
  decide

end CkbVerif.C02
