import CkbVerif.Lemmas.IndexerPool
import CkbVerif.Lemmas.IndexerWF
import CkbVerif.Lemmas.RichIndexer
import CkbVerif.Lemmas.IndexerFollow
import CkbVerif.Lemmas.RichCells
import CkbVerif.Lemmas.RichReach
import CkbVerif.Lemmas.RichCellPage
import CkbVerif.Lemmas.RichHistory
import CkbVerif.Lemmas.RichShape
import CkbVerif.Lemmas.IndexerDeep
import CkbVerif.Lemmas.IndexerDeepQuery

/-!
# C18, round 6 — the tx-pool overlay, the handlers' snapshot discipline, the descending seek key,
# and rollbacks of any depth for the relational (rich-indexer) model

Model: `CkbVerif.Model.IndexerPool` (follows `util/indexer-sync/src/pool.rs`, the overlay's use in
`util/indexer/src/indexer.rs append` and `util/indexer/src/service.rs get_cells / get_cells_capacity`,
`build_query_options`' descending seek key), `CkbVerif.Model.RichIndexer`.

* `pool_dead_set_laws` — the overlay is a SET with exactly the membership laws the notifications
  imply: announced inputs join, rejected / committed inputs leave, nothing else changes.
* `pool_append_clears_inputs` — `append` with the overlay: the store is `append`'s, and an out-point
  is dead afterwards iff it was dead before and NO transaction of the block (cellbase included) spends it.
* `pool_empty_is_no_overlay` — with an empty overlay the handlers are the plain ones (so every `get_cells`
  statement of `Props/C18.lean` is the `pool = []` case of the overlay'd handler).
* `pool_get_cells_eq_filter` — on every well-formed chain store and for EVERY overlay: the overlay'd
  `get_cells` never reaches `expect("stored OutPoint")` and answers exactly the plain answer (in exact
  mode the filter over `replayLive`, `get_cells_eq_filter_partial`) WITHOUT the cells the overlay marks dead.
* `pool_get_cells_pages_concat` — LIMIT / CURSOR under the overlay: pages concatenate to that list.
* `pool_capacity_eq_sum` — `get_cells_capacity` under the overlay = the sum over that list, reported
  with the tip OF THE SAME SNAPSHOT.
* `capacity_live_tip_torn_witness` — the class of the seeded change r5m3: reading the tip from the
  live store instead of the snapshot gives an answer that is neither the one before nor the one after
  the concurrent `append`.
* `pool_tear_witness` — the code AS WRITTEN: the overlay's lock is taken after the snapshot, and a
  block committed in between makes `get_cells` list a cell that was pool-dead before the block and
  chain-dead after it (listed by neither consistent view).
* `desc_seek_covers` / `desc_seek_17_witness` — the descending seek key lies above every row while the
  keys continue the prefix with at most `MAX_PREFIX_SEARCH_SIZE − args_len` bytes; a 17-byte padding
  (seeded change r5m2) hides the rows of a script whose args continue the searched args with 17 × 0xff.
* `kv_queries_after_any_reorg` — after such a history EVERY query call (cells, capacity, transactions,
  any cursor) answers exactly as on the plain replay of the surviving chain.
* `kv_follows_chain_any_reorg`, `kv_follows_checked_chain_any_reorg`, `kv_rollback_to_empty` — KEY-VALUE
  model: from the store of any chain, after ANY history of appends and rollbacks (any depth, residue
  of abandoned blocks included) whose appended blocks passed the per-append checks and did not run the
  automatic prune, the answer rows are those of the plain replay of the surviving chain.
* `rich_append_only` — the relational `append` only appends rows and sets `is_spent` flags, for every
  database and block (the structural half of `Layer`, proved).
* `rich_follows_chain_any_reorg`, `rich_rollback_any_depth` — relational model: after ANY interleaving
  of appends and rollbacks (rollbacks of ANY depth, never below the start), the database is EXACTLY
  (every relation, row ids and `is_spent` flags included) the database of appending the surviving
  chain, provided each appended block passed the decidable layer check when it was appended.
-/
namespace CkbVerif.C18
open CkbVerif.Indexer CkbVerif.Gen.Indexer

/-! ## the overlay as a set -/

/-- **`Pool` membership laws** (`new_transaction`, `transaction_rejected` = `transaction_committed`,
`transactions_committed`), and the list stays duplicate-free (it is the `HashSet` of the code). -/
theorem pool_dead_set_laws (p : Pool) (tx : Tx) (txs : List Tx) (x : OutPoint) :
    (x ∈ p.newTx tx ↔ x ∈ p ∨ x ∈ tx.inputs) ∧
    (x ∈ p.removeTx tx ↔ x ∈ p ∧ x ∉ tx.inputs) ∧
    (x ∈ p.committed txs ↔ x ∈ p ∧ ∀ t ∈ txs, x ∉ t.inputs) ∧
    (p.Nodup → (p.newTx tx).Nodup ∧ (p.removeTx tx).Nodup ∧ (p.committed txs).Nodup) :=
  ⟨Pool.mem_newTx p tx x, Pool.mem_removeTx p tx x, Pool.mem_committed txs p x,
   fun h => ⟨Pool.nodup_newTx p tx h, Pool.nodup_removeTx p tx h, Pool.nodup_committed txs p h⟩⟩

example : (Pool.newTx [] ⟨7, [⟨1, 0⟩, ⟨2, 1⟩, ⟨1, 0⟩], []⟩).committed [⟨9, [⟨2, 1⟩], []⟩] = [⟨1, 0⟩] := by decide

/-- **`append` with the overlay**: the store component is `append`; an out-point is dead afterwards
iff it was dead before and no transaction of the block (the cellbase included) has it as an input. -/
theorem pool_append_clears_inputs (keep interval : Nat) (sp : Store × Pool) (b : Block) (x : OutPoint) :
    (appendP keep interval sp b).1 = append keep interval sp.1 b ∧
    (x ∈ (appendP keep interval sp b).2 ↔ x ∈ sp.2 ∧ ∀ tx ∈ b.txs, x ∉ tx.inputs) :=
  ⟨rfl, Pool.mem_committed b.txs sp.2 x⟩

/-- so right after a block no input of the block is dead in the overlay -/
theorem pool_no_committed_input_dead (keep interval : Nat) (sp : Store × Pool) (b : Block)
    (tx : Tx) (htx : tx ∈ b.txs) (x : OutPoint) (hx : x ∈ tx.inputs) :
    (appendP keep interval sp b).2.consumed x = false := by
  have h := (pool_append_clears_inputs keep interval sp b x).2
  cases hc : (appendP keep interval sp b).2.consumed x with
  | false => rfl
  | true =>
    have := (h.mp ((Pool.consumed_iff _ _).mp hc)).2 tx htx
    exact absurd hx this

/-- **the empty overlay is no overlay** -/
theorem pool_empty_is_no_overlay (s : Store) (ls : Bool) (q : Script) (exact : Bool) (f : Filter)
    (desc : Bool) (limit : Nat) (cursor : Option (List Nat)) :
    getCellsAt s [] ls q exact f desc limit cursor = getCells s ls q exact f desc limit cursor := by
  simp only [getCellsAt, getCells, cellRowsP_nil]
  rfl

/-! ## the overlay'd answers on every chain store -/

/-- **`get_cells` under the overlay = the plain answer minus the dead cells**, on the store of ANY
well-formed chain (`ChainOK2`: same-block spends, automatic prune) and for EVERY overlay `pool`
(whatever was announced): no `expect("stored OutPoint")` panic, and the unlimited answer is the plain
unlimited answer `l` (exact mode: the filter over `replayLive`, `get_cells_eq_filter_partial` /
`get_cells_type_eq_filter_partial`) without the rows whose out-point the overlay holds. -/
theorem pool_get_cells_eq_filter (keep interval : Nat) (blocks : List Block)
    (ok : ChainOK2 keep interval [] blocks) (pool : Pool)
    (ls : Bool) (q : Script) (exact : Bool) (f : Filter) :
    ∃ l, cellRows (blocks.foldl (append keep interval) []) ls q exact f false
        (scan (blocks.foldl (append keep interval) []) (cellPrefix ls q)) = some l ∧
      cellRowsP (blocks.foldl (append keep interval) []) pool ls q exact f false
        (scan (blocks.foldl (append keep interval) []) (cellPrefix ls q)) =
          some (l.filter fun a => !pool.consumed a.op) := by
  refine ⟨_, cellRows_chain keep interval blocks ok ls q exact f, ?_⟩
  rw [cellRowsP_eq_filterMap _ pool ls q exact f false _
    (fun e he h1 _ => cellsResolvable_chain keep interval blocks ok ls q exact e he h1),
    filterMap_cellAnsOfP]
  rfl

/-- **LIMIT / CURSOR under the overlay**: for every limit ≥ 1, asc or desc, prefix or exact, lock or
type, any filter, any overlay: the walk terminates with an empty page, never panics, and the pages
concatenate to exactly the plain unlimited answer without the dead cells, in the requested direction. -/
theorem pool_get_cells_pages_concat (keep interval : Nat) (blocks : List Block)
    (ok : ChainOK2 keep interval [] blocks) (hb : ∀ b ∈ blocks, BlockBounded b) (pool : Pool)
    (ls : Bool) (q : Script) (exact : Bool) (f : Filter) (desc : Bool) (limit : Nat) (hl : 1 ≤ limit)
    (fuel : Nat) (hf : (blocks.foldl (append keep interval) []).length < fuel) :
    ∃ l pages, cellRows (blocks.foldl (append keep interval) []) ls q exact f false
        (scan (blocks.foldl (append keep interval) []) (cellPrefix ls q)) = some l ∧
      getCellsPagesP (blocks.foldl (append keep interval) []) pool ls q exact f desc limit fuel none = some pages ∧
      pages.flatten = ((if desc then l.reverse else l).filter fun a => !pool.consumed a.op) ∧
      pages.getLast? = some [] := by
  obtain ⟨fam, hfam, hfm⟩ := cellPrefix_fam ls q
  have hs := scan_strict_chain keep interval blocks hb fam (scriptRaw q) hfm
  rw [← hfam] at hs
  obtain ⟨pages, h1, h2, h3⟩ := getCellsPagesP_concat _ pool ls q exact f
    (cellsResolvable_chain keep interval blocks ok ls q exact) hs desc limit hl fuel hf
  exact ⟨_, pages, cellRows_chain keep interval blocks ok ls q exact f, h1, h2, h3⟩

def poolBlock0 : Block := ⟨0, 10, [⟨1, [⟨0, 4294967295⟩], [⟨5000, ⟨1, []⟩, none, []⟩, ⟨70, ⟨1, []⟩, none, [7]⟩]⟩]⟩
def poolBlock1 : Block := ⟨1, 11, [⟨2, [⟨0, 4294967295⟩], [⟨100, ⟨1, []⟩, none, []⟩]⟩, ⟨3, [⟨1, 1⟩], []⟩]⟩

/-- the hypotheses are satisfiable: a two-block chain whose second block spends `1.1` -/
theorem poolChain_ok : ChainOK2 1 1 [] [poolBlock0, poolBlock1] :=
  ⟨wfAppend2_of_B _ _ (by decide), wfAppend2_of_B _ _ (by decide), trivial⟩

/-- not vacuous: three live cells of lock `1`, the overlay holds `1.0` (and a stranger): pages of one
row list `2.0` only … descending, limit 1 -/
example :
    (getCellsPagesP ([poolBlock0, poolBlock1].foldl (append 1 1) []) [⟨1, 0⟩, ⟨9, 9⟩] true ⟨1, []⟩ true {} true 1 20 none).map
      (fun ps => ps.map (·.map (·.op))) = some [[⟨2, 0⟩], []] := by
  decide

/-- **`get_cells_capacity` under the overlay** on every chain store: the sum of the capacities of the
plain answer without the dead cells, together with the tip of THE SAME store the sum was taken over
(`None` exactly when that store has no row a tip can be decoded from). -/
theorem pool_capacity_eq_sum (keep interval : Nat) (blocks : List Block)
    (ok : ChainOK2 keep interval [] blocks) (pool : Pool)
    (ls : Bool) (q : Script) (exact : Bool) (f : Filter) :
    ∃ l, cellRows (blocks.foldl (append keep interval) []) ls q exact f false
        (scan (blocks.foldl (append keep interval) []) (cellPrefix ls q)) = some l ∧
      getCellsCapacityAt (blocks.foldl (append keep interval) []) pool ls q exact f =
        some (match tipAsCode (blocks.foldl (append keep interval) []) with
          | .none => none
          | t => some (((l.filter fun a => !pool.consumed a.op).map fun a => a.cell.out.cap).foldl (· + ·) 0, t)) := by
  obtain ⟨l, h1, h2⟩ := pool_get_cells_eq_filter keep interval blocks ok pool ls q exact f
  refine ⟨l, h1, ?_⟩
  unfold getCellsCapacityAt
  rw [h2]
  cases tipAsCode (List.foldl (append keep interval) [] blocks) <;> rfl

example :
    getCellsCapacityAt ([poolBlock0, poolBlock1].foldl (append 1 1) []) [⟨1, 0⟩] true ⟨1, []⟩ true {} =
      some (some (100, .header 1 11)) := by
  decide

/-! ## the snapshot discipline: witnesses of the two torn reads -/

/-- **a tip read from the live store tears the answer** (the class of the seeded change r5m3:
`get_cells_capacity` answering `self.get_indexer_tip()` instead of the snapshot's tip). `s0` = the store
at the snapshot, `s1` = the store after a concurrently committed block: the pair (sum over `s0`, tip of
`s1`) is neither the answer on `s0` nor the answer on `s1`. -/
theorem capacity_live_tip_torn_witness :
    let s0 := [poolBlock0].foldl (append 1 1) []
    let s1 := [poolBlock0, poolBlock1].foldl (append 1 1) []
    let torn := (getCellsCapacityAt s0 [] true ⟨1, []⟩ true {}).map (·.map fun r => (r.1, tipAsCode s1))
    torn = some (some (5070, .header 1 11)) ∧
    getCellsCapacityAt s0 [] true ⟨1, []⟩ true {} = some (some (5070, .header 0 10)) ∧
    getCellsCapacityAt s1 [] true ⟨1, []⟩ true {} = some (some (5100, .header 1 11)) := by
  decide

/-- **the overlay is read after the snapshot (code as written)**: `get_cells` takes its RocksDB
snapshot, THEN the overlay's read lock; `append` holds the overlay's write lock from before its batch
commit until after `transactions_committed`. A block committed in between removes its inputs from the
overlay while the snapshot still lists the cells it spends: cell `1.1` is hidden before the block
(dead in the overlay: a pending transaction spends it), gone after the block (spent on chain), and
LISTED by the handler that took its snapshot before and the overlay's lock after the block. -/
theorem pool_tear_witness :
    let s0 := [poolBlock0].foldl (append 1 1) []
    let sp1 := appendP 1 1 (s0, [⟨1, 1⟩]) poolBlock1
    let ops := fun (r : Option (List CellAns × List Nat)) => r.map (·.1.map (·.op))
    ops (getCellsAt s0 [⟨1, 1⟩] true ⟨1, []⟩ true {} false 10 none) = some [⟨1, 0⟩] ∧
    ops (getCellsAt sp1.1 sp1.2 true ⟨1, []⟩ true {} false 10 none) = some [⟨1, 0⟩, ⟨2, 0⟩] ∧
    ops (getCellsAt s0 sp1.2 true ⟨1, []⟩ true {} false 10 none) = some [⟨1, 0⟩, ⟨1, 1⟩] := by
  decide

/-! ## the descending seek key -/

/-- **a descending walk sees every row** (`build_query_options`: the reverse seek starts at
`prefix ‖ 0xff × (MAX_PREFIX_SEARCH_SIZE − args_len)`): as long as every key that starts with the
prefix continues it with at most `maxPre − argsLen` bytes, each `≤ 0xff` (only the continuation is
constrained, not the prefix), no row lies above the seek key, so the view a descending walk has of the store is the store. (Keys are
`prefix-byte ‖ script ‖ 16 or 17 bytes`; with `maxPre = MAX_PREFIX_SEARCH_SIZE` (translated from the code, `u16::MAX` = 65535 today) the bound holds for all scripts whose
args are at most `65535 − 17` bytes longer than the searched args.) -/
theorem desc_seek_covers (maxPre : Nat) (s : Store) (pre : List Nat) (argsLen : Nat)
    (hk : ∀ e ∈ s, ∀ r, e.1.bytes = pre ++ r → r.length ≤ maxPre - argsLen ∧ ∀ x ∈ r, x ≤ 255) :
    descView maxPre s pre argsLen = s :=
  descView_eq maxPre s pre argsLen hk

def ffArgs : List Nat := List.replicate 17 255
def ffStore : Store := append 1 1 [] ⟨0, 10, [⟨1, [⟨0, 4294967295⟩], [⟨5000, ⟨1, ffArgs⟩, none, []⟩, ⟨60, ⟨1, [255]⟩, none, []⟩]⟩]⟩

example : descView MAX_PREFIX_SEARCH_SIZE ffStore (cellPrefix true ⟨1, []⟩) 0 = ffStore := by decide +kernel

/-- not vacuous, and the class of the seeded change r5m2: with the real padding the descending search
by the code hash (empty args) lists both cells; with a padding of 17 bytes (`maxPre = 17`) the cell
whose args are 17 × 0xff lies above the seek key and is lost, the other one is still listed. -/
theorem desc_seek_17_witness :
    let pre := cellPrefix true ⟨1, []⟩
    let ops := fun (s : Store) => (getCellsAt s [] true ⟨1, []⟩ false {} true 10 none).map (·.1.map (·.op))
    ops (descView MAX_PREFIX_SEARCH_SIZE ffStore pre 0) = some [⟨1, 0⟩, ⟨1, 1⟩] ∧
    ops (descView 17 ffStore pre 0) = some [⟨1, 1⟩] := by
  decide +kernel

/-! ## key-value model: rollbacks of any depth, any interleaving -/

/-- **the key-value indexer follows the chain through reorganisations of ANY depth.** The history
starts from the store of ANY chain `c0` that satisfies the chain hypotheses (`ChainOK2/3/3T`, automatic
prune included; `c0 = []` is the empty store) and is any list of `append b` / `rollback` steps
(`kvRun`; rollbacks of any depth down to `c0`, any number of reorganisations, ConsumedOutPoint residue
of abandoned blocks staying in the store as in the code). Hypothesis (`kvOKB`, decidable, evaluated on
the ACTUAL store with its residue): every appended block passed the driver's per-append checks
`wfAppend2B` / `freshB2` when it was appended, its automatic prune was absent or a no-op (`noPruneB`:
number not a multiple of the prune interval, or at most `keep_num + 1`), and no rollback was applied
with no block of the history left. Then, for the surviving chain `bl = c0 ++` (the appended blocks not
rolled back): every answer row of the store is the replay spec of `bl` (OutPoint rows = `replayLive bl`,
Tx*Script rows = `replayTxLock` / `replayTxType`, Cell*Script rows index exactly the replayed live
cells); more: EVERY row that is not a ConsumedOutPoint row — Header and TxHash rows included — is the
row of the plain replay of `bl` (`NcEq`; the ConsumedOutPoint rows differ by the residue of abandoned
blocks, which `rollback` never deletes, by design of the code); the tip is the last surviving block
of the history (the tip of `c0`'s store when none is left); the keys are duplicate-free; and `bl`
satisfies the chain hypotheses of all the query theorems of `Props/C18.lean`. -/
theorem kv_follows_chain_any_reorg (keep interval : Nat) (c0 : List Block)
    (h2 : ChainOK2 keep interval [] c0) (h3 : ChainOK3 keep interval [] c0) (h3t : ChainOK3T keep interval [] c0)
    (evs : List KvEv) (h : kvOKB keep interval (c0.foldl (append keep interval) [], []) evs = true) :
    let S := (kvRun keep interval (c0.foldl (append keep interval) [], []) evs).1
    let hist := kvChain (kvRun keep interval (c0.foldl (append keep interval) [], []) evs).2
    let bl := c0 ++ hist
    (∀ op, get S (.outPoint op) = (replayLive bl op).map Val.cell) ∧
    (∀ sc bn i io t, get S (.txLock sc bn i io t) = (replayTxLock bl sc bn i io t).map Val.tx) ∧
    (∀ sc bn i io t, get S (.txType sc bn i io t) = (replayTxType bl sc bn i io t).map Val.tx) ∧
    (∀ sc bn txi io t, get S (.cellLock sc bn txi io) = some (.tx t) ↔
      ∃ c : Cell, replayLive bl ⟨t, io⟩ = some c ∧ c.out.lock = sc ∧ c.bn = bn ∧ c.txIdx = txi) ∧
    (∀ sc bn txi io t, get S (.cellType sc bn txi io) = some (.tx t) ↔
      ∃ c : Cell, replayLive bl ⟨t, io⟩ = some c ∧ c.out.type = some sc ∧ c.bn = bn ∧ c.txIdx = txi) ∧
    AnsEq S (bl.foldl (append keep interval) []) ∧
    NcEq S (bl.foldl (append keep interval) []) ∧
    (tip S = match hist.getLast? with
      | some b => some (b.number, b.hash)
      | none => tip (c0.foldl (append keep interval) [])) ∧
    NodupKeys S ∧
    ChainOK2 keep interval [] bl ∧ ChainOK3 keep interval [] bl ∧ ChainOK3T keep interval [] bl := by
  intro S hist bl
  obtain ⟨g, si⟩ := kv_history_aux keep interval _ c0 evs (c0.foldl (append keep interval) [], [])
    (good_start keep interval c0 h2 h3 h3t) trivial h
  have htip := good_tip keep interval _ c0 _ _ g si
  obtain ⟨rel, hncC, heq, c2, c3, c3t⟩ := g
  have hrep := outPoint_eq_replay keep interval bl c2
  have hcell : ∀ (op : OutPoint) (c : Cell),
      get (bl.foldl (append keep interval) []) (.outPoint op) = some (.cell c) ↔ replayLive bl op = some c := by
    intro op c
    rw [hrep]
    cases replayLive bl op <;> simp
  refine ⟨fun op => by rw [heq _ rfl]; exact hrep op,
    fun sc bn i io t => by rw [heq _ rfl]; exact txLock_eq_replay keep interval bl c3 sc bn i io t,
    fun sc bn i io t => by rw [heq _ rfl]; exact txType_eq_replay keep interval bl c3t sc bn i io t, ?_, ?_,
    heq, hncC, htip, rel.1, c2, c3, c3t⟩
  · intro sc bn txi io t
    rw [heq _ rfl, lockInv_chain2 keep interval bl [] lockInv_empty c2 sc bn txi io t]
    simp only [hcell]
  · intro sc bn txi io t
    rw [heq _ rfl, typeInv_chain2 keep interval bl [] typeInv_empty c2 sc bn txi io t]
    simp only [hcell]

def kq0 : Block := ⟨0, 10, [⟨1, [⟨0, 4294967295⟩], [⟨1000, ⟨1, [1]⟩, none, []⟩, ⟨70, ⟨1, [1]⟩, some ⟨2, [5]⟩, []⟩]⟩]⟩
def kq1 : Block := ⟨1, 11, [⟨2, [⟨0, 4294967295⟩], []⟩, ⟨3, [⟨1, 0⟩], [⟨100, ⟨1, [1]⟩, none, []⟩]⟩]⟩
def kq2 : Block := ⟨2, 12, [⟨4, [⟨0, 4294967295⟩], []⟩, ⟨5, [⟨3, 0⟩, ⟨1, 1⟩], [⟨9, ⟨3, []⟩, none, []⟩]⟩]⟩
def kq1' : Block := ⟨1, 13, [⟨6, [⟨0, 4294967295⟩], []⟩, ⟨7, [⟨1, 1⟩], [⟨7, ⟨1, [2]⟩, none, []⟩]⟩]⟩
def kq2' : Block := ⟨2, 14, [⟨8, [⟨0, 4294967295⟩], []⟩, ⟨9, [⟨1, 0⟩, ⟨7, 0⟩], []⟩]⟩

/-- not vacuous: blocks 0, 1, 2 (2 spends an output of 1 and one of 0), a reorganisation of DEPTH 2
(two rollbacks), then 1' and 2' on the store that carries the ConsumedOutPoint residue of 1 and 2 (2'
spends the cell block 1 had spent, 1' the cell block 2 had spent), then one more rollback and 2' again:
the hypothesis holds, the surviving chain is [0, 1', 2'] and the live cells are those of its replay. -/
example :
    let evs := [KvEv.app kq0, .app kq1, .app kq2, .rb, .rb, .app kq1', .app kq2', .rb, .app kq2']
    kvOKB 100 1000 ([], []) evs = true ∧
    (kvChain (kvRun 100 1000 ([], []) evs).2).map (·.hash) = [10, 13, 14] ∧
    tip (kvRun 100 1000 ([], []) evs).1 = some (2, 14) := by
  decide +kernel

/-- the same with every hypothesis decidable: the base chain passed the driver's per-append checks
(`chainCheckedB`, the `wf` op of the driver) -/
theorem kv_follows_checked_chain_any_reorg (keep interval : Nat) (c0 : List Block)
    (hc : chainCheckedB keep interval [] c0 = true)
    (evs : List KvEv) (h : kvOKB keep interval (c0.foldl (append keep interval) [], []) evs = true) :
    let S := (kvRun keep interval (c0.foldl (append keep interval) [], []) evs).1
    let bl := c0 ++ kvChain (kvRun keep interval (c0.foldl (append keep interval) [], []) evs).2
    AnsEq S (bl.foldl (append keep interval) []) ∧
    NcEq S (bl.foldl (append keep interval) []) ∧
    (∀ op, get S (.outPoint op) = (replayLive bl op).map Val.cell) ∧
    ChainOK2 keep interval [] bl ∧ ChainOK3 keep interval [] bl ∧ ChainOK3T keep interval [] bl := by
  intro S bl
  obtain ⟨c2, c3, c3t⟩ := chainOK_of_checked keep interval c0 [] hc
  obtain ⟨h1, _, _, _, _, heq, hnc, _, _, k2, k3, k3t⟩ :=
    kv_follows_chain_any_reorg keep interval c0 c2 c3 c3t evs h
  exact ⟨heq, hnc, h1, k2, k3, k3t⟩

/-- **every query answers as on the plain replay of the surviving chain, after reorganisations of ANY
depth.** Under the hypotheses of `kv_follows_chain_any_reorg` and in-range numbers of the surviving
chain (`BlockBounded`: u64 block number, at most 2^32 transactions / inputs / outputs — the key order
is read numerically), the ACTUAL store `S` (ConsumedOutPoint residue of abandoned blocks included) and
the store of the plain replay of the surviving chain `bl` give the SAME answer to every call of
`get_cells`, `get_cells_capacity`, `get_transactions` (ungrouped and grouped) — every search key, mode,
filter, order, limit and cursor, the returned cursor included — and the same tip. So every theorem of
`Props/C18.lean` / this file about the answers on the store of a chain (= filter over `replayLive`,
order, LIMIT/CURSOR, capacity = sum, transactions, overlay) holds verbatim for the store after the
history, with `bl` as the chain. -/
theorem kv_queries_after_any_reorg (keep interval : Nat) (c0 : List Block)
    (h2 : ChainOK2 keep interval [] c0) (h3 : ChainOK3 keep interval [] c0) (h3t : ChainOK3T keep interval [] c0)
    (evs : List KvEv) (h : kvOKB keep interval (c0.foldl (append keep interval) [], []) evs = true)
    (hb : ∀ b ∈ c0 ++ kvChain (kvRun keep interval (c0.foldl (append keep interval) [], []) evs).2, BlockBounded b) :
    let S := (kvRun keep interval (c0.foldl (append keep interval) [], []) evs).1
    let C := (c0 ++ kvChain (kvRun keep interval (c0.foldl (append keep interval) [], []) evs).2).foldl
      (append keep interval) []
    (∀ ls q exact f desc limit cursor, getCells S ls q exact f desc limit cursor = getCells C ls q exact f desc limit cursor) ∧
    (∀ ls q exact f, getCellsCapacity S ls q exact f = getCellsCapacity C ls q exact f) ∧
    (∀ ls q exact fs br desc limit cursor,
      getTxs S ls q exact fs br desc limit cursor = getTxs C ls q exact fs br desc limit cursor) ∧
    (∀ ls q exact fs br desc limit cursor,
      getTxsGrouped S ls q exact fs br desc limit cursor = getTxsGrouped C ls q exact fs br desc limit cursor) ∧
    tip S = tip C := by
  intro S C
  obtain ⟨_, _, _, _, _, _, hnc, _, hnd, _⟩ := kv_follows_chain_any_reorg keep interval c0 h2 h3 h3t evs h
  exact queries_ncEq hnd (nodup_chain keep interval _ [] trivial) hnc
    (keysBounded_chain keep interval _ [] (fun _ he => by cases he) hb)

def kq3 : Block := ⟨3, 15, [⟨10, [⟨0, 4294967295⟩], [⟨5, ⟨1, [1]⟩, none, []⟩]⟩]⟩
def kq4 : Block := ⟨4, 16, [⟨11, [⟨0, 4294967295⟩], []⟩, ⟨12, [⟨10, 0⟩], [⟨4, ⟨1, [1]⟩, none, []⟩]⟩]⟩
def kq5 : Block := ⟨5, 17, [⟨13, [⟨0, 4294967295⟩], []⟩, ⟨14, [⟨12, 0⟩], []⟩]⟩
def kq4' : Block := ⟨4, 18, [⟨15, [⟨0, 4294967295⟩], []⟩, ⟨16, [⟨10, 0⟩], [⟨3, ⟨1, [2]⟩, none, []⟩]⟩]⟩

/-- not vacuous with a PRUNED base: `keep_num = 0`, `prune_interval = 3`; the base chain 0..3 is
checked and its store has been pruned at block 3 (the Header rows of blocks 1 and 2 are gone: two Header
rows are left); on it: blocks 4 and 5, a reorganisation of depth 2, block 4' (spending the cell block 4
had spent): the hypotheses hold and the surviving chain is 0, 1, 2, 3, 4'. -/
example :
    let c0 := [kq0, kq1, kq2, kq3]
    let base := c0.foldl (append 0 3) []
    let evs := [KvEv.app kq4, .app kq5, .rb, .rb, .app kq4']
    chainCheckedB 0 3 [] c0 = true ∧ (headerRows base).length = 2 ∧
    kvOKB 0 3 (base, []) evs = true ∧
    (kvChain (kvRun 0 3 (base, []) evs).2).map (·.hash) = [18] ∧
    tip (kvRun 0 3 (base, []) evs).1 = some (4, 18) := by
  decide +kernel

/-- **a rollback of any depth**: appending `k` checked blocks to the empty store and rolling back `k`
times leaves NO row that is not a ConsumedOutPoint row — no answer row, no Header row, no TxHash row,
only the residue — for every `k`; more generally the history theorem above with `evs = apps ++ rollbacks`. -/
theorem kv_rollback_to_empty (keep interval : Nat) (bs : List Block)
    (h : kvOKB keep interval ([], []) (bs.map KvEv.app ++ List.replicate bs.length KvEv.rb) = true) :
    let S := (kvRun keep interval ([], []) (bs.map KvEv.app ++ List.replicate bs.length KvEv.rb)).1
    (∀ k, (∀ bn op, k ≠ .consumed bn op) → get S k = none) ∧ tip S = none := by
  intro S
  obtain ⟨_, _, _, _, _, _, hnc, htip, _⟩ :=
    kv_follows_chain_any_reorg keep interval [] trivial trivial trivial _ h
  simp only [List.foldl_nil, List.nil_append] at hnc htip
  rw [kvRun_apps_rbs_chain keep interval bs] at hnc htip
  exact ⟨fun k hk => by rw [hnc k hk]; rfl, htip⟩

/-! ## relational model: rollbacks of any depth, any interleaving -/
namespace RichIndexer
open CkbVerif.Rich

/-- **the rich-indexer follows the chain through reorganisations of ANY depth**: after any history of
appends and rollbacks (each rollback removes the block appended last that is still there; any number
of rollbacks in a row, down to the starting database; any number of reorganisations), the database is
EXACTLY — every relation, row ids and `is_spent` flags included — the one obtained by appending the
surviving chain to the starting database, and that chain is itself a chain of layers. Hypothesis
(`histOKB`, decidable): every appended block passed `layerCheckB` against the database it was appended
to, and no rollback was applied with no appended block left. -/
theorem rich_follows_chain_any_reorg (db0 : DB) (ops : List ROp) (h : histOKB db0 [] ops = true) :
    runOps db0 ops = (chainOf [] ops).foldl appendBlock db0 ∧ layersOK db0 (chainOf [] ops) :=
  follows_aux db0 ops db0 [] rfl trivial h

def rq0 : Block := ⟨0, 1, [⟨1, [⟨0, 4294967295⟩], [⟨1000, ⟨1, [1]⟩, none, []⟩]⟩,
  ⟨2, [], [⟨500, ⟨1, [1]⟩, some ⟨2, [5]⟩, [7]⟩]⟩]⟩
def rq1 : Block := ⟨1, 2, [⟨3, [⟨0, 4294967295⟩], [⟨1000, ⟨1, [1]⟩, none, []⟩]⟩,
  ⟨4, [⟨99, 0⟩, ⟨1, 0⟩], [⟨500, ⟨3, [9]⟩, some ⟨2, [5]⟩, []⟩, ⟨5, ⟨1, [1]⟩, none, [7, 8]⟩]⟩,
  ⟨5, [⟨4, 1⟩], []⟩]⟩
def rq2 : Block := ⟨2, 3, [⟨6, [⟨0, 4294967295⟩], [⟨7, ⟨3, [9]⟩, none, []⟩]⟩, ⟨7, [⟨4, 0⟩, ⟨2, 0⟩], []⟩]⟩
def rq1' : Block := ⟨1, 4, [⟨8, [⟨0, 4294967295⟩], [⟨9, ⟨1, [1]⟩, some ⟨2, [5]⟩, []⟩]⟩, ⟨9, [⟨2, 0⟩], []⟩]⟩

/-- not vacuous: append 0, 1, 2, roll back two blocks (a reorganisation of depth 2), append another
block 1: the hypothesis holds and the surviving chain is [0, 1'] -/
example :
    (chainOf [] [ROp.app rq0, .app rq1, .app rq2, .rb, .rb, .app rq1']).map (·.hash) = [1, 4] ∧
    runOps {} [ROp.app rq0, .app rq1, .app rq2, .rb, .rb, .app rq1'] = [rq0, rq1'].foldl appendBlock {} :=
  ⟨by decide, (rich_follows_chain_any_reorg {} _ (by decide)).1⟩

/-- **a rollback of any depth**: appending `k` blocks (each a layer on the database before it) and
rolling back `k` times restores the database EXACTLY, for every `k`. -/
theorem rich_rollback_any_depth (db : DB) (bs : List Block) (h : layersOK db bs) :
    rollbackN bs.length (bs.foldl appendBlock db) = db := by
  induction bs generalizing db with
  | nil => rfl
  | cons b r ih =>
    show rollbackN (r.length + 1) (r.foldl appendBlock (appendBlock db b)) = db
    rw [rollbackN_succ', ih (appendBlock db b) h.2]
    exact rollback_of_layerCheck h.1

/-- **the relational `append` is append-only up to `is_spent` flags — for EVERY database and EVERY
block, no hypothesis**: it adds exactly one block row (`max(id)+1`, the block's number and hash), adds
transaction, input and script rows only at the end of their relations, adds output rows at the end, and
changes an older output row at most in its `is_spent` column, and only to "spent". This is the
structural half of `Layer` (the clauses `blocks`, `txs`, `ins`, `scripts` and the shape of `outs`)
PROVED for `appendBlock` instead of evaluated; the id-freshness / foreign-key clauses of `layerCheckB`
are still evaluated per appended block (see `rich_follows_chain_any_reorg`). -/
theorem rich_append_only (db : DB) (b : Block) :
    (appendBlock db b).blocks = db.blocks ++ [⟨nextId (db.blocks.map (·.id)), b.number, b.hash⟩] ∧
    (∃ nt, (appendBlock db b).txs = db.txs ++ nt) ∧ (∃ ni, (appendBlock db b).ins = db.ins ++ ni) ∧
    (∃ ns, (appendBlock db b).scripts = db.scripts ++ ns) ∧
    ∃ g no, SpentOnly g ∧ (appendBlock db b).outs = db.outs.map g ++ no := by
  have h := ext_insertTxs b.txs
    { db with blocks := db.blocks ++ [⟨nextId (db.blocks.map (·.id)), b.number, b.hash⟩] }
    (nextId (db.blocks.map (·.id))) 0
  exact ⟨h.blocks, h.txs, h.ins, h.scripts, h.outs⟩

/-! ### LIMIT / CURSOR of the relational `get_cells`, and `get_cells_capacity` -/

/-- **LIMIT / CURSOR of the rich-indexer's `get_cells`** (cursor = `output.id`, `WHERE output.id > c`
ascending / `< c` descending): in EVERY database reached from the empty one by any interleaving of
`append` (any block) and `rollback`, for every search (lock / type, exact / prefix / partial mode,
any filter), order and limit ≥ 1: following `last_cursor` from the first call until a page comes back
empty terminates within `|answer| + 1` calls, and the pages concatenate to EXACTLY the unlimited
answer in the requested direction — no row lost, none duplicated. -/
theorem rich_get_cells_pages_concat {db : DB} (hr : Reachable db) (ls : Bool) (m : Mode) (q : Script)
    (f : Filter) (desc : Bool) (limit : Nat) (hl : 1 ≤ limit) (fuel : Nat)
    (hf : (cellRows db ls m q f).length < fuel) :
    (getCellsPages db ls m q f desc limit fuel none).flatten =
      (if desc then (cellRows db ls m q f).reverse else cellRows db ls m q f) ∧
    (getCellsPages db ls m q f desc limit fuel none).getLast? = some [] ∧
    ∀ lim, (cellRows db ls m q f).length ≤ lim →
      (getCells db ls m q f desc lim none).1 = (if desc then (cellRows db ls m q f).reverse else cellRows db ls m q f) := by
  have hs := dirSorted_of_asc (cellRows db ls m q f)
    (cellRows_sorted ls m q f db.outs (reachable_outsAsc hr)) desc
  obtain ⟨h1, h2⟩ := getCellsPages_from db ls m q f desc limit hl hs fuel none []
    (if desc then (cellRows db ls m q f).reverse else cellRows db ls m q f) (by simp) rfl
    (by cases desc <;> simpa using hf)
  refine ⟨h1, h2, fun lim hlim => ?_⟩
  rw [getCells_rows]
  simp only [afterRows]
  apply List.take_of_length_le
  cases desc <;> simpa using hlim

example :
    (getCellsPages (appendBlock (appendBlock {} rq0) rq1) true .pre ⟨1, []⟩ {} true 1 10 none).map (·.map (·.cur)) =
      [[3], [2], []] := by
  decide

/-- **`get_cells_capacity` of the rich-indexer = the sum over the `get_cells` answer** (every database,
search and filter): `None` iff the unlimited `get_cells` answer is empty (SQL `SUM` over no row),
otherwise the sum of the capacities of exactly the rows one `get_cells` call with a covering limit
returns. -/
theorem rich_capacity_eq_get_cells (db : DB) (ls : Bool) (m : Mode) (q : Script) (f : Filter) :
    getCellsCapacity db ls m q f =
      (let page := (getCells db ls m q f false (cellRows db ls m q f).length none).1
       if page.isEmpty then none else some ((page.map fun r => r.cell.out.cap).foldl (· + ·) 0)) := by
  have : (getCells db ls m q f false (cellRows db ls m q f).length none).1 = cellRows db ls m q f := by
    rw [getCells_rows]
    simp [afterRows]
  simp only [this]
  rfl

example : getCellsCapacity (appendBlock (appendBlock {} rq0) rq1) true .pre ⟨1, []⟩ {} = some 1500 ∧
    getCellsCapacity (appendBlock (appendBlock {} rq0) rq1) true .exact ⟨9, []⟩ {} = none := by
  decide

example : rollbackN 3 ([rq0, rq1, rq2].foldl appendBlock {}) = {} :=
  rich_rollback_any_depth {} [rq0, rq1, rq2] (by refine ⟨by decide, by decide, by decide, trivial⟩)

end RichIndexer

end CkbVerif.C18
