import CkbVerif.Lemmas.ChainSeen

/-!
# C01 — the tip is the head of the heaviest fully valid chain, for any delivery order

Model: `CkbVerif.Chain` (Model/Chain.lean): the chain-service pipeline as a state machine with
operations `deliver b hint` (chain-service thread: non-contextual check, `insert_block`,
`process_lonely_block`, `search_orphan_leaders`), `verify` (verify thread on the head of the merged
preload/unverified FIFO: `verify_block` with the strict `>` rule, dirty-ext walk, all-or-nothing
commit, delete + BLOCK_INVALID on failure), `expire` (orphan expiry) and `crash` (C08).
Every theorem below quantifies over ALL operation sequences, i.e. all arrival orders (with orphans
and duplicates) × all interleavings of the two threads × all sibling orders (`hint`) the
implementation's hash maps may pick when orphans are released.

Restarts of the node (stop in the middle of a delivery, start on the same database: `Chain.restart`,
`Chain.rstep`) and the dead-pipeline state of finding F7 (`Chain.pstep`) are the subject of
`Props/C01Restart.lean`; every theorem below about `Inv` / `Reachable` covers restarted nodes
(`rreachable_reachable` there).

What is NOT in these theorems: real thread schedules of the Rust code (the model's atomic-step
granularity is argued in Model/Chain.lean, and sampled by the harness' burst mode); panics of the
pipeline threads: the step function `step` these theorems are about has no panic state, and finding F7
(confirmed on the real code by the harness, see known_findings.txt: a second queued copy of a block
whose first copy failed verification and was deleted makes `get_block(..).expect(..)` panic in the
verify or the preload thread, after which nothing is verified any more) is exactly a behaviour `step`
does not have — there the second copy simply fails again (`Props/C01Restart.lean`: `panic_reachable`,
`not_no_panic_reachable` about `pstep`, and `no_panic_first_deliveries_partial`: the two step functions
agree on every history without a second delivery of a block); the sync layer's `HeaderMap`; `truncate`.
-/
namespace CkbVerif.C01
open CkbVerif.Chain CkbVerif.Gen.Chain

/-- states reachable from genesis by any operation sequence -/
def Reachable (T : Tree) (s : State) : Prop := ∃ ops, s = run T (init T) ops

/-- ids delivered by an operation sequence -/
def delivered : List Op → List Nat
  | [] => []
  | .deliver b _ :: ops => b :: delivered ops
  | _ :: ops => delivered ops

abbrev crashFree (ops : List Op) : Prop := ∀ op ∈ ops, op ≠ Op.crash

/-- nothing is waiting for the verify thread (the orphan pool may be non-empty: by
`orphans_connected` nothing in it is connectable) -/
abbrev Quiescent (s : State) : Prop := s.queue = []

/-! ## The invariant -/

theorem inv_init (T : Tree) : Inv T (init T) := inv_init' T

theorem inv_step (T : Tree) (s : State) (op : Op) (h : Inv T s) : Inv T (step T s op).1 := inv_step' h op

theorem inv_reachable (T : Tree) (s : State) (h : Reachable T s) : Inv T s := by
  obtain ⟨ops, rfl⟩ := h
  exact inv_run' ops _ (inv_init' T)

/-! ## Tip validity -/

/-- the tip is fully valid (it and all its ancestors pass both verification stages), every
verified block is, and the published total difficulty is the true accumulated work of the tip's
chain -/
theorem tip_fully_valid (T : Tree) (s : State) (h : Inv T s) :
    FullyValid T s.tip ∧ TD T s.tip s.tipTd ∧ (∀ b, s.ver b = true → FullyValid T b) :=
  ⟨fullyValid_of_ver h.safe _ h.safe.tipOk.2, h.safe.tdTrue _ _ h.safe.tipOk.1,
   fun b hb => fullyValid_of_ver h.safe b hb⟩

/-- every stored ext carries the true accumulated work and never exceeds the tip's -/
theorem ext_td_correct (T : Tree) (s : State) (h : Inv T s) (b n : Nat) (hb : s.td b = some n) :
    TD T b n ∧ n ≤ s.tipTd := ⟨h.safe.tdTrue b n hb, h.safe.tdLe b n hb⟩

/-! ## The tip only moves to strictly heavier chains -/

/-- a step that changes the tip strictly increases the tip's accumulated work (equal work: the
chain verified first stays); needs no invariant -/
theorem tip_moves_only_if_strictly_heavier (T : Tree) (s : State) (op : Op)
    (h : (step T s op).1.tip ≠ s.tip) : s.tipTd < (step T s op).1.tipTd := by
  rcases step_tip T s op with h1 | h1
  · exact absurd h1.1 h
  · exact h1

theorem tip_work_monotone (T : Tree) (s : State) (op : Op) : s.tipTd ≤ (step T s op).1.tipTd := by
  rcases step_tip T s op with h1 | h1
  · rw [h1.2]; exact Nat.le_refl _
  · exact Nat.le_of_lt h1

theorem tip_work_monotone_run (T : Tree) : ∀ (ops : List Op) (s : State), s.tipTd ≤ (run T s ops).tipTd := by
  intro ops
  induction ops with
  | nil => intro s; exact Nat.le_refl _
  | cons op ops ih => intro s; exact Nat.le_trans (tip_work_monotone T s op) (ih _)

/-! ## Maximality at quiescence -/

/-- When the verify queue is empty and the expiry timer has not removed anything, every fully valid
chain that can be formed from the delivered blocks (`ChainIn T seen`) has accumulated work at most
the tip's. (`seen` = ids delivered since genesis / since the last crash plus those that had an ext
at the crash.) -/
theorem tip_heaviest_at_quiescence (T : Tree) (s : State) (h : Inv T s) (hq : Quiescent s)
    (hx : s.expiryFired = false) (b n : Nat)
    (hc : ChainIn T (fun x => s.seen x = true) b) (hn : TD T b n) : n ≤ s.tipTd := by
  have hext := chain_has_ext h.safe (h.live hx) hq b hc
  cases htd : s.td b with
  | none => rw [htd] at hext; simp at hext
  | some m =>
    have := TD.functional hn (h.safe.tdTrue b m htd)
    rw [this]; exact h.safe.tdLe b m htd

/-- orphans are connected as soon as possible: no pooled block has a pending or stored parent
(always, not only at quiescence) -/
theorem orphans_connected (T : Tree) (s : State) (h : Inv T s) (hx : s.expiryFired = false) :
    ∀ c ∈ s.pool, s.pending (T.par c) = false ∧ s.td (T.par c) = none := by
  intro c hc
  obtain ⟨p1, p2, _⟩ := (h.live hx).poolPar c hc
  exact ⟨p1, p2⟩

/-- the same right after a delivery that reached the orphan search, whatever happened before -/
theorem orphans_connected_after_deliver (T : Tree) (s : State) (hs : Safe T s) (hint : List Nat) (b : Nat)
    (hb : b ≠ 0) (hnc : T.nc b = true) :
    ∀ c ∈ (deliver T hint s b).1.pool,
      (deliver T hint s b).1.pending (T.par c) = false ∧ (deliver T hint s b).1.td (T.par c) = none := by
  have key : PoolPar T (deliver T hint s b).1 := by
    unfold deliver
    simp only [hb, if_false, hnc, Bool.not_true, Bool.false_eq_true]
    exact search_poolPar hint (safe_route hs hb hnc)
  intro c hc
  obtain ⟨p1, p2, _⟩ := key c hc
  exact ⟨p1, p2⟩

/-! ## Order independence -/

theorem deliver_seen (T : Tree) (hint : List Nat) (s : State) (b : Nat) :
    (deliver T hint s b).1.seen = if b = 0 then s.seen else upd s.seen b true := by
  unfold deliver
  by_cases hb : b = 0
  · simp [hb]
  · simp only [hb, if_false]
    by_cases hnc : T.nc b = true
    · simp only [hnc, Bool.not_true, Bool.false_eq_true, if_false]
      have e1 : ∀ (s0 : State) (x : Nat), (route T s0 x).1.seen = s0.seen := by
        intro s0 x
        have hact := route_act T s0 x
        generalize route T s0 x = r at hact ⊢
        cases hact <;> rfl
      rw [(search_mem (T := T) (fun _ => True) hint _ (fun _ _ => trivial) (fun _ _ => trivial)).2.2, e1]
    · have : T.nc b = false := by simpa using hnc
      simp only [this, Bool.not_false, if_true]

theorem verify_seen (T : Tree) (s : State) : (verifyHead T s).1.seen = s.seen := by
  have hact := verifyHead_act T s
  generalize verifyHead T s = r at hact ⊢
  cases hact <;> rfl

/-- without crashes, `seen` is exactly the set of delivered non-genesis ids -/
theorem seen_run (T : Tree) : ∀ (ops : List Op) (s : State), crashFree ops →
    ∀ b, (run T s ops).seen b = true ↔ (s.seen b = true ∨ (b ≠ 0 ∧ b ∈ delivered ops)) := by
  intro ops
  induction ops with
  | nil => intro s _ b; simp [run, delivered]
  | cons op ops ih =>
    intro s hcf b
    have hcf' : crashFree ops := fun o ho => hcf o (List.mem_cons_of_mem _ ho)
    rw [show run T s (op :: ops) = run T (step T s op).1 ops from rfl, ih _ hcf' b]
    cases op with
    | deliver x hint =>
      show ((deliver T hint s x).1.seen b = true ∨ _) ↔ _
      rw [deliver_seen]
      simp only [delivered, List.mem_cons]
      by_cases hx : x = 0
      · simp only [hx, if_true]
        constructor
        · rintro (h | h); exact Or.inl h; exact Or.inr ⟨h.1, Or.inr h.2⟩
        · rintro (h | ⟨h0, h | h⟩)
          · exact Or.inl h
          · exact absurd h h0
          · exact Or.inr ⟨h0, h⟩
      · simp only [hx, if_false]
        constructor
        · rintro (h | h)
          · rcases upd_true_cases h with h1 | h1
            · exact Or.inl h1
            · exact Or.inr ⟨by rw [h1]; exact hx, Or.inl h1⟩
          · exact Or.inr ⟨h.1, Or.inr h.2⟩
        · rintro (h | ⟨h0, h | h⟩)
          · left
            by_cases hbx : b = x
            · rw [hbx]; simp
            · rw [upd_other _ _ hbx]; exact h
          · left; rw [h]; simp
          · exact Or.inr ⟨h0, h⟩
    | verify =>
      show ((verifyHead T s).1.seen b = true ∨ _) ↔ _
      rw [verify_seen]; simp [delivered]
    | expire =>
      show ((expire T s).seen b = true ∨ _) ↔ _
      rw [expire_seen]; simp [delivered]
    | crash => exact absurd rfl (hcf Op.crash List.mem_cons_self)

/-- Two crash-free histories that deliver the same set of blocks — in any order, with any
duplicates and orphans, under any interleaving — and are both quiescent without an expiry end with
the same total difficulty; and with the same tip whenever the heaviest fully valid chain is unique. -/
theorem order_independent (T : Tree) (ops1 ops2 : List Op) (hc1 : crashFree ops1) (hc2 : crashFree ops2)
    (hsame : ∀ b, b ∈ delivered ops1 ↔ b ∈ delivered ops2)
    (hq1 : Quiescent (run T (init T) ops1)) (hq2 : Quiescent (run T (init T) ops2))
    (hx1 : (run T (init T) ops1).expiryFired = false) (hx2 : (run T (init T) ops2).expiryFired = false) :
    (run T (init T) ops1).tipTd = (run T (init T) ops2).tipTd ∧
    ((∀ b, ChainIn T (fun x => x ≠ 0 ∧ x ∈ delivered ops1) b → TD T b (run T (init T) ops1).tipTd →
        b = (run T (init T) ops1).tip) → (run T (init T) ops2).tip = (run T (init T) ops1).tip) := by
  have i1 := inv_run' ops1 _ (inv_init' T)
  have i2 := inv_run' ops2 _ (inv_init' T)
  have k1 := seenOk_run (T := T) ops1 _ (seenOk_init T)
  have k2 := seenOk_run (T := T) ops2 _ (seenOk_init T)
  have s1 : ∀ b, (run T (init T) ops1).seen b = true ↔ (b ≠ 0 ∧ b ∈ delivered ops1) := by
    intro b; rw [seen_run T ops1 _ hc1 b]; simp [init]
  have s2 : ∀ b, (run T (init T) ops2).seen b = true ↔ (b ≠ 0 ∧ b ∈ delivered ops2) := by
    intro b; rw [seen_run T ops2 _ hc2 b]; simp [init]
  have c1 := chainIn_of_ver i1.safe k1 _ i1.safe.tipOk.2
  have c2 := chainIn_of_ver i2.safe k2 _ i2.safe.tipOk.2
  have t1 := i1.safe.tdTrue _ _ i1.safe.tipOk.1
  have t2 := i2.safe.tdTrue _ _ i2.safe.tipOk.1
  have c12 : ChainIn T (fun x => (run T (init T) ops2).seen x = true) (run T (init T) ops1).tip :=
    c1.mono (fun b hb => (s2 b).mpr ⟨((s1 b).mp hb).1, (hsame b).mp ((s1 b).mp hb).2⟩)
  have c21 : ChainIn T (fun x => (run T (init T) ops1).seen x = true) (run T (init T) ops2).tip :=
    c2.mono (fun b hb => (s1 b).mpr ⟨((s2 b).mp hb).1, (hsame b).mpr ((s2 b).mp hb).2⟩)
  have le1 := tip_heaviest_at_quiescence T _ i2 hq2 hx2 _ _ c12 t1
  have le2 := tip_heaviest_at_quiescence T _ i1 hq1 hx1 _ _ c21 t2
  have heq : (run T (init T) ops1).tipTd = (run T (init T) ops2).tipTd := Nat.le_antisymm le1 le2
  refine ⟨heq, fun huniq => ?_⟩
  apply huniq
  · exact c21.mono (fun b hb => (s1 b).mp hb)
  · rw [heq]; exact t2

/-! ## Expiry guard -/

/-- the expiry timer changes nothing unless some pooled block is older than `EXPIRED_EPOCH`
epochs (strictly: `epoch + EXPIRED_EPOCH < tip epoch`); it never touches exts, tip or queue -/
theorem expiry_guard (T : Tree) (s : State)
    (h : ∀ c ∈ s.pool, ¬ (T.epoch c + EXPIRED_EPOCH < T.epoch s.tip)) : expire T s = s := by
  unfold expire
  have key : ∀ (l : List Nat), l.foldl (stepExpire T s.pool (T.epoch s.tip)) (s, []) = (s, []) := by
    intro l
    induction l with
    | nil => rfl
    | cons c r ih =>
      simp only [List.foldl_cons]
      have : stepExpire T s.pool (T.epoch s.tip) (s, []) c = (s, []) := by
        unfold stepExpire
        by_cases hc : c ∈ s.pool
        · simp only [hc, if_true]
          have : expGone T s.pool (T.epoch s.tip) [] c = false := by
            unfold expGone
            by_cases hp : T.par c ∈ s.pool
            · simp [hp]
            · simp [hp]; have := h c hc; omega
          simp [this]
        · simp only [hc, if_false]
      rw [this]; exact ih
  rw [key]

/-- justification for removing `x` given the ids `g` removed so far -/
def expJust (T : Tree) (pool0 : List Nat) (e : Nat) (g : List Nat) (x : Nat) : Prop :=
  if T.par x ∈ pool0 then T.par x ∈ g else T.epoch x + EXPIRED_EPOCH < e

theorem expGone_iff (T : Tree) (pool0 : List Nat) (e : Nat) (g : List Nat) (x : Nat) :
    expGone T pool0 e g x = true ↔ expJust T pool0 e g x := by
  unfold expGone expJust
  by_cases h : T.par x ∈ pool0 <;> simp [h]

theorem expire_fold_inv (T : Tree) (pool0 : List Nat) (e : Nat) (s0 : State) (hp : s0.pool = pool0) :
    ∀ (l : List Nat), let r := l.foldl (stepExpire T pool0 e) (s0, [])
      (∀ x ∈ r.2, x ∈ pool0 ∧ x ∉ r.1.pool ∧ expJust T pool0 e r.2 x) ∧
      (∀ x ∈ pool0, x ∈ r.1.pool ∨ x ∈ r.2) ∧ (∀ x ∈ r.1.pool, x ∈ pool0) := by
  intro l
  refine foldl_preserves (stepExpire T pool0 e)
    (fun r => (∀ x ∈ r.2, x ∈ pool0 ∧ x ∉ r.1.pool ∧ expJust T pool0 e r.2 x) ∧
      (∀ x ∈ pool0, x ∈ r.1.pool ∨ x ∈ r.2) ∧ (∀ x ∈ r.1.pool, x ∈ pool0)) ?_ l (s0, []) ?_
  · intro acc c ⟨h1, h2, h3⟩
    unfold stepExpire
    by_cases hc : c ∈ acc.1.pool
    · simp only [hc, if_true]
      by_cases hg : expGone T pool0 e acc.2 c = true
      · simp only [hg, if_true]
        have mono : ∀ x, expJust T pool0 e acc.2 x → expJust T pool0 e (acc.2 ++ [c]) x := by
          intro x hx
          unfold expJust at hx ⊢
          by_cases hpp : T.par x ∈ pool0
          · simp only [hpp, if_true] at hx ⊢; exact List.mem_append.mpr (Or.inl hx)
          · simp only [hpp, if_false] at hx ⊢; exact hx
        refine ⟨?_, ?_, ?_⟩
        · intro x hx
          rcases List.mem_append.mp hx with hx | hx
          · obtain ⟨a, b, c'⟩ := h1 x hx
            refine ⟨a, ?_, mono x c'⟩
            simp only [unpool, List.mem_filter]; exact fun hh => b hh.1
          · have hxc : x = c := by simpa using hx
            subst hxc
            refine ⟨h3 x hc, ?_, mono x ((expGone_iff T pool0 e acc.2 x).mp hg)⟩
            simp [unpool]
        · intro x hx
          rcases h2 x hx with h | h
          · by_cases hxc : x = c
            · right; rw [hxc]; simp
            · left; simp only [unpool, List.mem_filter]; exact ⟨h, by simpa using hxc⟩
          · right; exact List.mem_append.mpr (Or.inl h)
        · intro x hx
          simp only [unpool, List.mem_filter] at hx; exact h3 x hx.1
      · simp only [hg]; exact ⟨h1, h2, h3⟩
    · simp only [hc, if_false]; exact ⟨h1, h2, h3⟩
  · refine ⟨by simp, fun x hx => Or.inl (by rw [hp]; exact hx), fun x hx => by rw [← hp]; exact hx⟩

/-- **expiry guard, removal direction**: a pooled block disappears in an expiry run only if it is
the child of a non-pooled parent (a "leader") and strictly older than `EXPIRED_EPOCH` epochs
(`epoch + EXPIRED_EPOCH < tip epoch`), or its pooled parent disappears in the same run. Hence every
removed block hangs below a removed, expired leader child; nothing else leaves the pool. -/
theorem expire_removes_only_expired (T : Tree) (s : State) (x : Nat) (hx : x ∈ s.pool)
    (hgone : x ∉ (expire T s).pool) :
    (T.par x ∈ s.pool → T.par x ∉ (expire T s).pool) ∧
    (T.par x ∉ s.pool → T.epoch x + EXPIRED_EPOCH < T.epoch s.tip) := by
  unfold expire at hgone ⊢
  obtain ⟨h1, h2, _⟩ := expire_fold_inv T s.pool (T.epoch s.tip) s rfl (List.range (poolBound s.pool + 1))
  generalize (List.range (poolBound s.pool + 1)).foldl (stepExpire T s.pool (T.epoch s.tip)) (s, []) = r at *
  rcases h2 x hx with h | h
  · exact absurd h hgone
  · obtain ⟨_, _, hj⟩ := h1 x h
    unfold expJust at hj
    constructor
    · intro hp; simp only [hp, if_true] at hj; exact (h1 _ hj).2.1
    · intro hp; simp only [hp, if_false] at hj; exact hj

theorem expiry_keeps_chain (T : Tree) (s : State) :
    (expire T s).td = s.td ∧ (expire T s).ver = s.ver ∧ (expire T s).tip = s.tip ∧
    (expire T s).tipTd = s.tipTd ∧ (expire T s).queue = s.queue ∧ (∀ b ∈ (expire T s).pool, b ∈ s.pool) := by
  obtain ⟨⟨a, b, c, d⟩, q, p⟩ := expire_frame T s
  exact ⟨a, b, c, d, q, p⟩

/-! ## Non-vacuity: a concrete history with a fork, an equal-work tie, orphans (children before
parents), a duplicate and an invalid block in the middle of the heavier branch -/

/-- genesis 0; branch A: 1-2; branch B: 3-4-5 with 4 contextually invalid; 6 child of 1 (ties with 2) -/
def exTree : Tree :=
  { parent := fun b => match b with | 1 => 0 | 2 => 1 | 3 => 0 | 4 => 3 | 5 => 4 | 6 => 1 | _ => 0
    num := fun b => match b with | 1 => 1 | 2 => 2 | 3 => 1 | 4 => 2 | 5 => 3 | 6 => 2 | _ => 0
    epoch := fun _ => 0
    work := fun _ => 2
    nc := fun b => decide (b ≤ 6)
    ok := fun b => decide (b ≠ 4) }

def exOps : List Op :=
  [ .deliver 2 [], .deliver 5 [], .deliver 4 [], .verify, .deliver 1 [], .verify, .verify,
    .deliver 6 [], .verify, .deliver 3 [], .deliver 2 [], .verify, .verify, .verify, .verify, .expire ]

def exFinal : State := run exTree (init exTree) exOps

example : Quiescent exFinal ∧ exFinal.expiryFired = false ∧ exFinal.tip = 2 ∧ exFinal.tipTd = 6 ∧
    exFinal.pool = [] ∧ exFinal.td 4 = some 6 ∧ exFinal.ver 4 = false ∧ exFinal.invalid 5 = true ∧
    exFinal.td 6 = some 6 ∧ exFinal.ver 6 = false := by decide

/-- the hypotheses of `tip_heaviest_at_quiescence` hold for `exFinal`, for the tied chain ending in 6 -/
example : ChainIn exTree (fun x => exFinal.seen x = true) 6 ∧ TD exTree 6 6 := by
  refine ⟨.step (by decide) (by decide) (by decide) (by decide)
    (.step (by decide) (by decide) (by decide) (by decide) .genesis), ?_⟩
  exact TD.step (b := 6) (by decide) (TD.step (b := 1) (by decide) TD.genesis)

/-- a step that moves the tip (hypothesis of `tip_moves_only_if_strictly_heavier`) -/
example : (step exTree (run exTree (init exTree) (exOps.take 5)) .verify).1.tip ≠
    (run exTree (init exTree) (exOps.take 5)).tip := by decide

example : crashFree exOps := by decide

/-! ## A reachable state the code does not expect (the root of finding F7)

`delete_block` does not delete the ext row and a second queued copy of a block is verified from
memory. Block 1 (child of genesis, contextually invalid) is delivered, then block 2 (valid child of
genesis), then block 1 again, all before any verification: the first copy of 1 fails (heavier than
the tip) and is deleted; 2 becomes the tip; the second copy of 1 is now not heavier, so
`verify_block` takes the `else` branch: it writes an ext for block 1 — whose data is gone — and
`consume_unverified_blocks` clears its BLOCK_INVALID mark. The model reaches exactly this state
(`td 1 = some _`, `stored 1 = false`, not marked invalid), the real code too (harness, burst mode);
the real code then panics in `get_block(..).expect(..)` as soon as it needs block 1's data
(`delete_unverified_block`, `find_fork`). None of the C01 theorems needs `ext → stored`; this
witness records that it is NOT an invariant. -/
def dupTree : Tree :=
  { parent := fun _ => 0, num := fun b => if b = 0 then 0 else 1, epoch := fun _ => 0, work := fun _ => 2,
    nc := fun _ => true, ok := fun b => decide (b ≠ 1) }

theorem ext_without_block_data_reachable :
    ∃ ops, let s := run dupTree (init dupTree) ops
      Quiescent s ∧ s.td 1 = some 4 ∧ s.stored 1 = false ∧ s.invalid 1 = false ∧ s.ver 1 = false ∧
      s.tip = 2 ∧ ¬ FullyValid dupTree 1 :=
  ⟨[.deliver 1 [], .deliver 2 [], .deliver 1 [], .verify, .verify, .verify], by
    refine ⟨by decide, by decide, by decide, by decide, by decide, by decide, ?_⟩
    intro h
    have := (h.flags (by decide)).2
    revert this; decide⟩

end CkbVerif.C01
