/-
C10 over the COMBINED state — key-value rows + freezer FILES + crash cuts at file granularity.

`Model/FreezeSys.lean` composes the freeze pass of `Model/Freeze.lean` (rows, accessors of
`store.rs`) with the C09 model of the freezer (`Model/Freezer.lean`, `Model/FreezerTop.lean`: INDEX
entries, data files with rollover, the repair loop of `open`, `Freezer::freeze`'s append loop).  The
theorems below are about that one state, so "a crash anywhere in the freeze / wipe-out sequence
loses no main-chain block and every query is invariant" is ONE statement
(`freeze_with_files_crash_safe`) and not a statement about the abstract list of frozen blocks plus a
separate statement about files.

The write-order assumption is explicit: `CutKeepsSynced s il fl` — a crash may leave the INDEX file
and the head data file at ANY byte lengths (C09's `applyCut`), but not below what the last `sync_all`
made durable, and `FileStep.wipeBody` deletes rows only of blocks the files hold below that mark
(`Shared::freeze`: `freezer.freeze(..)` ends with `sync_all` before `wipe_out_frozen_data` runs).
Data files that were rolled over since the last `sync_all` are assumed complete (as in C09: older
data files are intact).
-/
import CkbVerif.Lemmas.FreezeSys
import CkbVerif.Lemmas.FreezeEq
import CkbVerif.Lemmas.FreezeCodec
import CkbVerif.Lemmas.FreezeStart
import CkbVerif.Props.C09
import CkbVerif.Props.C10
namespace CkbVerif.C10
open CkbVerif.Store CkbVerif.Freeze CkbVerif.Freezer CkbVerif.FreezeSys

/-! ### C10.F1 — the one theorem: queries invariant and no block lost, at every file-level crash point -/

/-- **C10 over rows + files, every crash point.**  Start in any combined state satisfying the
invariant (`SysInv`: the files are a consistent freezer holding `chain`, the rows satisfy the freezer
invariant, nothing at or above the synced mark was wiped).  Let the freezer thread and crashes do
ANY sequence of: `Freezer::freeze` on the files with any threshold and stop flag (= every prefix of
the appends), `sync_all`, deleting the body rows of a block the files hold below the synced mark,
deleting a side-chain block, and a crash that cuts INDEX and the head data file at ANY byte lengths
that respect the write order (`CutKeepsSynced`) followed by `Freezer::open` (`FileSteps`).  Then in
the state `t` reached:

* the invariant holds again (so the next pass continues from `freezer.number()` — `next_run_continues`),
  the synced mark never decreases and the synced part of the chain is still what the files hold;
* the chain view (live cells, number index, tx-info rows, epoch rows) is untouched;
* for EVERY main-chain block, every accessor — `get_block`, `get_packed_block`, the part accessors
  (`getPartS` = proposals / extension, projected to body, tx hashes, cellbase, uncles),
  `get_block_header`, `get_ancestor` — reading the real files through retrieve + decompress + decode,
  answers the block, in `t` exactly as in `s`; no `expect` fires. -/
theorem freeze_with_files_crash_safe (k : Codec) (ok : k.Ok) (s t : Sys) (chain : List Block)
    (h : SysInv k s chain) (st : FileSteps k s t) :
    (∃ chain', SysInv k t chain' ∧ chain'.take (s.synced - 1) = chain.take (s.synced - 1)) ∧
    s.synced ≤ t.synced ∧ t.rows.v = s.rows.v ∧
    ∀ id blk, OnMain s.rows id blk →
      (getBlockS k t id = .some blk ∧ getBlockS k s id = .some blk) ∧
      (getPackedS k t id = .some blk ∧ getPackedS k s id = .some blk) ∧
      (getPartS k t id = .some blk ∧ getPartS k s id = .some blk) ∧
      (getHeaderS t id = some blk ∧ getHeaderS s id = some blk) ∧
      (getAncestorS t blk.number = some blk ∧ getAncestorS s blk.number = some blk) ∧
      (getBodyS k t id = blk.txs ∧ getBodyS k s id = blk.txs) ∧
      (getTxsHashesS k t id = blk.txs.map (·.id) ∧ getTxsHashesS k s id = blk.txs.map (·.id)) ∧
      (getCellbaseS k t id = blk.txs.head? ∧ getCellbaseS k s id = blk.txs.head?) ∧
      (getUnclesS k t id = some blk.uncles ∧ getUnclesS k s id = some blk.uncles) := by
  obtain ⟨chain', hi, hv, hs, hp⟩ := fileSteps_inv ok h st
  refine ⟨⟨chain', hi, hp⟩, hs, hv, fun id blk hm => ?_⟩
  have hm' : OnMain t.rows id blk := (onMain_of_view hv id blk).mpr hm
  obtain ⟨b1, k1, p1, h1, a1⟩ := answers_of_sysInv ok hi id blk hm'
  obtain ⟨b2, k2, p2, h2, a2⟩ := answers_of_sysInv ok h id blk hm
  refine ⟨⟨b1, b2⟩, ⟨k1, k2⟩, ⟨p1, p2⟩, ⟨h1, h2⟩, ⟨a1, a2⟩, ?_, ?_, ?_, ?_⟩ <;>
    simp [getBodyS, getTxsHashesS, getCellbaseS, getUnclesS, p1, p2]

/-- the same for `get_transaction` / `get_transaction_info` / `get_transaction_with_info`: a
transaction committed in a main-chain block is answered with itself and its location, from the rows
or from the files, at every crash point -/
theorem transactions_invariant_with_files (k : Codec) (ok : k.Ok) (s t : Sys) (chain : List Block)
    (h : SysInv k s chain) (st : FileSteps k s t)
    (tx : Nat) (info : TxInfo) (blk : Block) (x : Tx) (hi : s.rows.v.m.txInfo tx = some info)
    (hm : OnMain s.rows info.blockId blk) (hn : info.number = blk.number)
    (hx : blk.txs[info.index]? = some x) :
    getTxS k t tx = .some (x, info) ∧ getTxS k s tx = .some (x, info) := by
  obtain ⟨chain', hi', hv, _, _⟩ := fileSteps_inv ok h st
  exact ⟨tx_of_sysInv ok hi' tx info blk x (by rw [hv]; exact hi)
    ((onMain_of_view hv _ blk).mpr hm) hn hx, tx_of_sysInv ok h tx info blk x hi hm hn hx⟩

/-- **a crash at ANY cut that respects the write order never makes `Freezer::open` fail and never
loses a synced block**: the re-opened freezer holds a prefix `chain.take n` of what it held with
`n ≥ synced - 1` (every durable item), and the combined invariant holds for it -/
theorem crash_reopens_and_keeps_synced (k : Codec) (ok : k.Ok) (s : Sys) (chain : List Block)
    (h : SysInv k s chain) (il : Nat) (fl : Option Nat) (hil : INDEX_ENTRY_SIZE ≤ il)
    (hcut : CutKeepsSynced s il fl) :
    ∃ t n, stepCrash k s il fl = some t ∧ s.synced - 1 ≤ n ∧ n ≤ chain.length ∧
      SysInv k t (chain.take n) ∧ t.rows = s.rows ∧ t.top.number = n + 1 := by
  obtain ⟨t, n, h1, h2, h3, h4, h5, _⟩ := stepCrash_inv ok h il fl hil hcut
  exact ⟨t, n, h1, h2, h3, h4, h5, by rw [top_number h4.files]; simp; omega⟩

/-! ### C10.F2 — the pass function (the order of the Rust code) and "the next run continues" -/

/-- `pass` — threshold, the append loop on the files, `sync_all`, the body batch, the side batch, in
the order of `Shared::freeze` — is a run of `FileStep`s, so `freeze_with_files_crash_safe` covers
it, every prefix of it, and every crash cut inside it -/
theorem pass_is_file_steps (k : Codec) (ok : k.Ok) (s : Sys) (chain : List Block) (h : SysInv k s chain)
    (stopped : Nat → Bool) : FileSteps k s (pass k s stopped).1 :=
  (pass_is_fileSteps ok h stopped).1

/-- **leaves a state from which the next run continues**: after ANY sequence of freezer steps and
crashes, a further pass is again a run of steps from the state reached, and it appends exactly the
main-chain blocks of the heights `freezer.number(), freezer.number()+1, …` of the re-opened freezer
(contiguous, none skipped), so that all of it again answers every query (`freeze_with_files_crash_safe`
applied to `s → pass t`) -/
theorem next_run_continues (k : Codec) (ok : k.Ok) (s t : Sys) (chain : List Block)
    (h : SysInv k s chain) (st : FileSteps k s t) (stopped : Nat → Bool) :
    FileSteps k s (pass k t stopped).1 ∧
    ∃ chain', SysInv k t chain' ∧ t.top.number = chain'.length + 1 ∧
      ∀ thr, thresholdAt t.rows t.top.number = .at thr →
        ∃ new, SysInv k (stepFreeze k t thr stopped).1 (chain' ++ new) ∧
          (pass k t stopped).1.top = (stepFreeze k t thr stopped).1.top ∧
          ∀ j b, new[j]? = some b → getUnfrozen t.rows (t.top.number + j) = some b := by
  obtain ⟨chain', hi, _⟩ := fileSteps_inv ok h st
  obtain ⟨hp, hq⟩ := pass_is_fileSteps ok hi stopped
  have hn := top_number hi.files
  refine ⟨FileSteps.trans st hp, chain', hi, hn, fun thr hthr => ?_⟩
  obtain ⟨new, h1, h2, h3, _⟩ := hq thr hthr
  exact ⟨new, h1, h2, fun j b hj => by rw [hn]; exact h3 j b hj⟩

/-! ### C10.F3 — what one pass moves and removes (the clauses of the property, about `pass`) -/

/-- **only blocks strictly older than the two-epoch threshold are moved, at most the per-run limit,
contiguous from the previous frozen height** — for `pass` on the files.  If a pass does anything,
the threshold `thr` was computed from the epoch rows: the current epoch number exceeds
`THRESHOLD_EPOCH` (= 2, generated from shared.rs), `thr` is at most the height `ln` of the last
block of epoch `cur - THRESHOLD_EPOCH` (the `last_block_hash_in_previous_epoch` of epoch
`cur + 1 - THRESHOLD_EPOCH`) and at most `freezer.number() + MAX_FREEZE_LIMIT` (= 30000, generated);
the files afterwards hold `chain ++ new` (nothing already frozen changes) where `new[j]` is the
main-chain block of height `freezer.number() + j` — contiguous from the previous frozen height, in
order — every new height is `< thr ≤ ln` (strictly older than the threshold block) and
`new.length ≤ MAX_FREEZE_LIMIT`. -/
theorem pass_moves_only_old_blocks (k : Codec) (ok : k.Ok) (s : Sys) (chain : List Block)
    (h : SysInv k s chain) (stopped : Nat → Bool) (thr : Nat)
    (ht : thresholdAt s.rows s.top.number = .at thr) :
    ∃ new, SysInv k (pass k s stopped).1 (chain ++ new) ∧
      s.top.number = chain.length + 1 ∧
      (∀ j b, new[j]? = some b → getUnfrozen s.rows (s.top.number + j) = some b ∧
        s.top.number + j < thr) ∧
      new.length ≤ MAX_FREEZE_LIMIT ∧
      ∃ ce idx e ln, s.rows.v.m.curEpoch = some ce ∧ THRESHOLD_EPOCH < ce.number ∧
        s.rows.v.m.epochNum (ce.number + 1 - THRESHOLD_EPOCH) = some idx ∧
        s.rows.v.r.epochExt idx = some e ∧ s.rows.v.m.rindex e.key = some ln ∧ thr ≤ ln := by
  obtain ⟨hsteps, hq⟩ := pass_is_fileSteps ok h stopped
  obtain ⟨new, hi1, htop, hget, hlen, _⟩ := hq thr ht
  obtain ⟨hb1, hb2⟩ := thresholdAt_bounds s.rows s.top.number thr ht
  have hn := top_number h.files
  -- the state after the whole pass: same files as after the append loop; the invariant follows
  -- from the steps, and the chain it holds is determined by the files
  obtain ⟨chain', hi', _⟩ := fileSteps_inv ok h hsteps
  have hfiles : FreezerTop.TopInv k.cfg (pass k s stopped).1.top ((chain ++ new).map (up k)) := by
    rw [htop]; exact hi1.files
  -- the ghost chain of the final state is `chain ++ new`: both are read back from the same files
  have hsame : chain' = chain ++ new := by
    apply List.ext_getElem?
    intro i
    have r1 := readFrozen_chain ok hi'.files (i + 1) (by omega)
    have r2 := readFrozen_chain ok hfiles (i + 1) (by omega)
    rw [r1] at r2
    simp only [Nat.add_sub_cancel] at r2
    cases h1 : chain'[i]? with
    | none =>
      cases h2 : (chain ++ new)[i]? with
      | none => rfl
      | some b => rw [h1, h2] at r2; cases r2
    | some a =>
      cases h2 : (chain ++ new)[i]? with
      | none => rw [h1, h2] at r2; cases r2
      | some b => rw [h1, h2] at r2; cases r2; rfl
  subst hsame
  refine ⟨new, hi', hn, fun j b hj => ⟨by rw [hn]; exact hget j b hj, ?_⟩, ?_, hb2⟩
  · have hjl : j < new.length := (List.getElem?_eq_some_iff.mp hj).1
    omega
  · omega

/-- **side-chain blocks at frozen heights are the only data removed**: a block whose header row is
gone after a pass was NOT on the main chain, and its height is one of the heights this pass froze
(`freezer.number()` before ≤ height < `freezer.number()` after); in particular a pass never removes
a main-chain header, and never a side block outside the newly frozen range. -/
theorem pass_removes_only_side_blocks_at_frozen_heights (k : Codec) (ok : k.Ok) (s : Sys)
    (chain : List Block) (h : SysInv k s chain) (stopped : Nat → Bool) (id : Nat)
    (hs : s.rows.hdr id = true) (ht : (pass k s stopped).1.rows.hdr id = false) :
    (∀ blk, ¬ OnMain s.rows id blk) ∧
    s.top.number ≤ numberOfId s.rows id ∧ numberOfId s.rows id < (pass k s stopped).1.top.number := by
  obtain ⟨hsteps, hq⟩ := pass_is_fileSteps ok h stopped
  -- main-chain headers survive every run of steps
  have hnot : ∀ blk, ¬ OnMain s.rows id blk := by
    intro blk hm
    obtain ⟨chain', hi', hv, _, _⟩ := fileSteps_inv ok h hsteps
    have := hi'.inv.hdrOk id blk ((onMain_of_view hv id blk).mpr hm)
    have e : (abs (pass k s stopped).1.rows chain').hdr id = (pass k s stopped).1.rows.hdr id := rfl
    rw [e, ht] at this
    cases this
  refine ⟨hnot, ?_⟩
  -- which pass removed something: it had a threshold and returned Ok
  cases hthr : thresholdAt s.rows s.top.number with
  | idle => simp [pass, hthr, hs] at ht
  | panic => simp [pass, hthr, hs] at ht
  | «at» thr =>
    obtain ⟨new, hi1, htop, hget, _, hrows⟩ := hq thr hthr
    have hn := top_number h.files
    have hn1 := top_number hi1.files
    cases hres : (pass k s stopped).2 with
    | idle => simp [pass, hthr] at hres; split at hres <;> cases hres
    | panic => simp [pass, hthr] at hres; split at hres <;> cases hres
    | err =>
      exfalso
      simp only [pass, hthr] at hres ht
      split at ht
      · simp [stepFreeze, hs] at ht
      · rename_i heq; rw [heq] at hres; cases hres
    | ok =>
      rw [hrows hres] at ht
      -- the header flag only changes in the side batch
      have hbodyfold : ∀ (ret : List (Nat × Nat × Nat)) (r : FS),
          (ret.foldl (fun r e => wipeBody r e.1) r).hdr = r.hdr := by
        intro ret
        induction ret with
        | nil => intro r; rfl
        | cons e rest ih => intro r; simp only [List.foldl_cons]; rw [ih]; rfl
      have hsidefold : ∀ (ids : List Nat) (r : FS), r.hdr id = true →
          (ids.foldl wipeSide r).hdr id = false → id ∈ ids := by
        intro ids
        induction ids with
        | nil => intro r h1 h2; simp only [List.foldl_nil] at h2; rw [h1] at h2; cases h2
        | cons x rest ih =>
          intro r h1 h2
          simp only [List.foldl_cons] at h2
          by_cases hx : id = x
          · simp [hx]
          · have : (wipeSide r x).hdr id = true := by simp [wipeSide, hx, h1]
            exact List.mem_cons_of_mem _ (ih _ this h2)
      have hmem := hsidefold _ _ (by rw [hbodyfold]; exact hs) ht
      simp only [sideOfRet, List.mem_filter, List.any_eq_true, Bool.and_eq_true, beq_iff_eq,
        bne_iff_ne] at hmem
      obtain ⟨_, e, he, hnum, _⟩ := hmem
      obtain ⟨j, tb, hj, rfl⟩ := entries_mem he
      have hjl : j < new.length := by
        have := (List.getElem?_eq_some_iff.mp hj).1
        simpa using this
      simp only at hnum
      rw [htop, hn1, hn, hnum]
      simp only [List.length_append]
      omega

/-! ### C10.F5 — the combined `pass` IS the abstract `freeze` (the function the driver answers with) -/

/-- **`pass` = `freeze`.**  In every combined state satisfying the invariant (the files hold `chain`),
one whole pass of `Shared::freeze` on rows + FILES in the order of the Rust code (threshold from the
epoch rows and `freezer.number()` read from the files, `Freezer::freeze`'s append loop on the files
with its `thr - number` iterations, `sync_all`, body batch and side batch computed from the RETURNED
MAP) and one `freeze` of the abstract model (`Model/Freeze.lean`, rows + list, its own loop with the
`n ≥ thr` test, side scan on the frozen blocks' own numbers) agree: same result code
(`ok / idle / err / panic`), same rows afterwards (header flags, body flags, NUMBER_HASH rows, chain
view — `abs` only replaces the unread `frozen` field), and the files afterwards hold exactly the
abstract model's list of frozen blocks.  So the driver's MODEL-SPLIT comparison of the two can never
fire on a state the invariant holds in; and every theorem of `Props/C10.lean` about `freeze` is
a theorem about `pass`. -/
theorem pass_eq_freeze (k : Codec) (s : Sys) (chain : List Block) (h : SysInv k s chain) :
    (pass k s FreezerTop.noStop).2 = (freeze (abs s.rows chain)).2 ∧
    abs (pass k s FreezerTop.noStop).1.rows (freeze (abs s.rows chain)).1.frozen
      = (freeze (abs s.rows chain)).1 ∧
    FreezerTop.TopInv k.cfg (pass k s FreezerTop.noStop).1.top
      ((freeze (abs s.rows chain)).1.frozen.map (up k)) :=
  pass_eq_freeze_core h

/-- consequently EVERY accessor answers EVERY id (main-chain blocks, side blocks — wiped or not —,
unknown hashes) and every transaction the same in the two models after a pass: the file-reading
accessors of the combined state (retrieve + decompress + decode, `expect`s as values) equal the
abstract accessors on the list -/
theorem pass_answers_eq_freeze_answers (k : Codec) (ok : k.Ok) (s : Sys) (chain : List Block)
    (h : SysInv k s chain) (id tx n : Nat) :
    getBlockS k (pass k s FreezerTop.noStop).1 id = getBlock (freeze (abs s.rows chain)).1 id ∧
    getPackedS k (pass k s FreezerTop.noStop).1 id = ofOpt (getPacked (freeze (abs s.rows chain)).1 id) ∧
    getPartS k (pass k s FreezerTop.noStop).1 id = ofOpt (getPart (freeze (abs s.rows chain)).1 id) ∧
    getHeaderS (pass k s FreezerTop.noStop).1 id = getHeader (freeze (abs s.rows chain)).1 id ∧
    getAncestorS (pass k s FreezerTop.noStop).1 n = getAncestor (freeze (abs s.rows chain)).1 n ∧
    getTxS k (pass k s FreezerTop.noStop).1 tx = ofOpt (getTx (freeze (abs s.rows chain)).1 tx) := by
  obtain ⟨_, heq, hfiles⟩ := pass_eq_freeze_core h
  have ha := agree_files ok hfiles
  generalize (pass k s FreezerTop.noStop).1 = p at heq hfiles ha ⊢
  generalize (freeze (abs s.rows chain)).1 = a at heq hfiles ha ⊢
  refine ⟨?_, ?_, ?_, ?_, ?_, ?_⟩
  · unfold getBlockS Sys.fz
    rw [getBlockG_agree ha]
    have e : getBlockG p.rows (fzOfList a.frozen) id
        = getBlockG (abs p.rows a.frozen) (fzOfList (abs p.rows a.frozen).frozen) id := rfl
    rw [e, getBlockG_list, heq]
  · unfold getPackedS Sys.fz
    rw [getPackedG_agree ha]
    have e : getPackedG p.rows (fzOfList a.frozen) id
        = getPackedG (abs p.rows a.frozen) (fzOfList (abs p.rows a.frozen).frozen) id := rfl
    rw [e, getPackedG_list, heq]
  · unfold getPartS Sys.fz
    rw [getPartG_agree ha]
    have e : getPartG p.rows (fzOfList a.frozen) id
        = getPartG (abs p.rows a.frozen) (fzOfList (abs p.rows a.frozen).frozen) id := rfl
    rw [e, getPartG_list, heq]
  · have e : getHeaderS p id = getHeader (abs p.rows a.frozen) id := rfl
    rw [e, heq]
  · have e : getAncestorS p n = getAncestor (abs p.rows a.frozen) n := rfl
    rw [e, heq]
  · unfold getTxS Sys.fz
    rw [getTxG_agree ha]
    have e : getTxG p.rows (fzOfList a.frozen) tx
        = getTxG (abs p.rows a.frozen) (fzOfList (abs p.rows a.frozen).frozen) tx := rfl
    rw [e, getTxG_list, heq]

/-- the same along a whole history: if the two models are in step (the files hold the abstract list,
same rows), they are in step after a pass — the induction step of "the driver's two models never
split" (chain-service steps act on the rows only, which both models share) -/
theorem pass_keeps_models_in_step (k : Codec) (ok : k.Ok) (s : Sys) (a : FS) (h : SysInv k s a.frozen)
    (hrows : abs s.rows a.frozen = a) :
    (pass k s FreezerTop.noStop).2 = (freeze a).2 ∧
    abs (pass k s FreezerTop.noStop).1.rows (freeze a).1.frozen = (freeze a).1 ∧
    ∃ chain', SysInv k (pass k s FreezerTop.noStop).1 chain' ∧ chain' = (freeze a).1.frozen := by
  obtain ⟨h1, h2, h3⟩ := pass_eq_freeze_core h
  rw [hrows] at h1 h2 h3
  refine ⟨h1, h2, ?_⟩
  obtain ⟨chain', hi, _⟩ := fileSteps_inv ok h (pass_is_fileSteps ok h FreezerTop.noStop).1
  refine ⟨chain', hi, ?_⟩
  -- both lists are what the same files hold
  apply List.ext_getElem?
  intro i
  have r1 := readFrozen_chain ok hi.files (i + 1) (by omega)
  have r2 := readFrozen_chain ok h3 (i + 1) (by omega)
  rw [r1] at r2
  simp only [Nat.add_sub_cancel] at r2
  cases e1 : chain'[i]? with
  | none =>
    cases e2 : (freeze a).1.frozen[i]? with
    | none => rfl
    | some b => rw [e1, e2] at r2; cases r2
  | some x =>
    cases e2 : (freeze a).1.frozen[i]? with
    | none => rw [e1, e2] at r2; cases r2
    | some b => rw [e1, e2] at r2; cases r2; rfl

/-! ### C10.F4 — chain-service steps interleaved, from a fresh node with an empty freezer directory -/

/-- combined states reachable from a fresh node: the rows of the replay of any well-formed chain,
`Freezer::open` on an empty directory; then any interleaving of freezer-thread steps, crashes at
any cut that respects the write order, and legal chain-service steps -/
inductive SysReach (k : Codec) : Sys → Prop
  | start (g : Block) (rest : List Block) (stored : List Nat) (top : FreezerTop.Top)
      (hg : Valid Main.empty Recs.empty g) (hc : ValidChain (init g) rest)
      (ho : FreezerTop.openTop k.cfg emptyDisk = some top) :
      SysReach k ⟨startState (replay (g :: rest)) stored, top, 1⟩
  | step {s t : Sys} : SysReach k s → SysStep k s t → SysReach k t

/-- the combined invariant is DERIVED for every reachable combined state -/
theorem sysInv_reachable (k : Codec) (ok : k.Ok) {s : Sys} (r : SysReach k s) : ∃ chain, SysInv k s chain := by
  induction r with
  | start g rest stored top hg hc ho =>
    obtain ⟨top', ho', hi⟩ := C09.open_top_empty k.cfg ok.cfg
    rw [ho] at ho'
    cases ho'
    have hinv : Inv (startState (replay (g :: rest)) stored) :=
      inv_start _ _ (storeOk_attachAll (storeOk_init g hg) hc)
    exact ⟨[], ⟨by simpa using hi, hinv, hinv, Nat.le_refl _, by simp⟩⟩
  | step _ st ih =>
    obtain ⟨chain, hi⟩ := ih
    exact sysStep_inv ok hi st

/-- **C10 in every reachable combined state**: whatever interleaving of chain-service steps,
freezer-thread steps and file-level crashes led to `s`, and whatever further freezer steps and
crashes lead on to `t`, every accessor answers every main-chain block of `s` with the block, read
from the rows or from the files -/
theorem queries_invariant_in_every_reachable_combined_state (k : Codec) (ok : k.Ok) (s t : Sys)
    (r : SysReach k s) (st : FileSteps k s t) (id : Nat) (blk : Block) (hm : OnMain s.rows id blk) :
    getBlockS k t id = .some blk ∧ getPackedS k t id = .some blk ∧ getPartS k t id = .some blk ∧
    getHeaderS t id = some blk ∧ getAncestorS t blk.number = some blk ∧ t.rows.v = s.rows.v := by
  obtain ⟨chain, hi⟩ := sysInv_reachable k ok r
  obtain ⟨_, _, hv, hq⟩ := freeze_with_files_crash_safe k ok s t chain hi st
  obtain ⟨⟨b, _⟩, ⟨p, _⟩, ⟨q, _⟩, ⟨hh, _⟩, ⟨a, _⟩, _⟩ := hq id blk hm
  exact ⟨b, p, q, hh, a, hv⟩

/-! ### non-vacuity (kernel-evaluated on the executable model with the concrete codec) -/

namespace FilesWitness
open CkbVerif.C10.Witness CkbVerif.FreezeSys.Demo

/-- a fresh freezer directory, opened -/
def top0 : FreezerTop.Top := (FreezerTop.openTop demoCodec.cfg emptyDisk).getD ⟨⟨1, 0, 0, []⟩, emptyDisk, none⟩
/-- the witness chain `g,1,2,3,4` of `Props/C10.lean` (tip in epoch 4) with a side block at height 1,
nothing frozen, an empty freezer -/
def y0 : Sys := ⟨s0, top0, 1⟩
/-- one whole pass on the files -/
def y1 : Sys := (pass demoCodec y0 noStopFlag).1
where noStopFlag : Nat → Bool := fun _ => false
end FilesWitness

open FilesWitness Witness FreezeSys.Demo in
/-- the pass on the witness chain freezes height 1 into the files (INDEX has two entries, block 1 is
read back from `blk000000` through decompress + decode), wipes block 1's rows and removes the side
block 11; every accessor still answers block 1 -/
example : (pass demoCodec y0 (fun _ => false)).2 = .ok ∧ y1.top.number = 2 ∧ y1.synced = 2 ∧
    y1.top.d.idx.length = 2 ∧ readFrozen demoCodec y1.top 1 = .some b1 ∧
    y1.rows.body 1 = false ∧ y1.rows.hdr 11 = false ∧ y1.rows.hdr 1 = true ∧
    getBlockS demoCodec y1 1 = .some b1 ∧ getPartS demoCodec y1 1 = .some b1 ∧
    getPackedS demoCodec y1 1 = .some b1 ∧ getBodyS demoCodec y1 1 = b1.txs := by
  decide +kernel

open FilesWitness Witness FreezeSys.Demo in
/-- a crash that cuts the INDEX inside the entry of the block being appended (13 of 24 bytes) with
the data written re-opens with nothing lost (number 1, rows intact, block 1 answered from the rows);
a cut after the complete entry keeps the item (number 2) -/
example :
    ((stepCrash demoCodec (stepFreeze demoCodec y0 2 (fun _ => false)).1 13 (some 100)).map
      fun t => (t.top.number, t.synced, getBlockS demoCodec t 1 == .some b1)) = some (1, 1, true) ∧
    ((stepCrash demoCodec (stepFreeze demoCodec y0 2 (fun _ => false)).1 24 (some 100)).map
      fun t => (t.top.number, t.synced, getBlockS demoCodec t 1 == .some b1)) = some (2, 2, true) := by
  decide +kernel

open FilesWitness FreezeSys.Demo in
/-- non-vacuity of `SysReach` / `SysInv` (the hypotheses of `freeze_with_files_crash_safe`): a fresh
node on the genesis block alone with a freshly opened, empty freezer directory is reachable, and
satisfies the combined invariant; so does every state any interleaving of steps leads to -/
example : SysReach demoCodec ⟨startState (replay [Witness.g]) [0], top0, 1⟩ ∧
    ∃ chain, SysInv demoCodec ⟨startState (replay [Witness.g]) [0], top0, 1⟩ chain := by
  have hr : SysReach demoCodec ⟨startState (replay [Witness.g]) [0], top0, 1⟩ :=
    SysReach.start Witness.g [] [0] top0
      ⟨by decide, fun _ _ => rfl, fun _ _ => rfl, rfl, rfl, fun _ _ => rfl,
       by intro o ho; simp [deadInputs, Witness.g, Witness.mk] at ho,
       Or.inl rfl, by decide, fun _ => rfl, Or.inl rfl, Or.inr ⟨by decide, rfl⟩⟩
      (ValidChain.nil _) (by
        obtain ⟨t, ht, _⟩ := C09.open_top_empty demoCodec.cfg demoCodec_ok.cfg
        have : top0 = t := by unfold top0; rw [ht]; rfl
        rw [this]; exact ht)
  exact ⟨hr, sysInv_reachable demoCodec demoCodec_ok hr⟩

open FilesWitness Witness FreezeSys.Demo in
/-- non-vacuity of `pass_eq_freeze` on the witness chain: the combined pass and the abstract pass both
return `ok`, freeze block 1, wipe its rows and remove the side block 11 (both answer `none` for it) -/
example : (pass demoCodec y0 FreezerTop.noStop).2 = (freeze s0).2 ∧ (freeze s0).2 = .ok ∧
    (freeze s0).1.frozen = [b1] ∧ (pass demoCodec y0 FreezerTop.noStop).1.top.number = 2 ∧
    getBlockS demoCodec (pass demoCodec y0 FreezerTop.noStop).1 11 = getBlock (freeze s0).1 11 ∧
    getBlock (freeze s0).1 11 = .none ∧ getBlock s0 11 ≠ .none ∧
    (pass demoCodec y0 FreezerTop.noStop).1.rows.stored = (freeze s0).1.stored := by
  decide +kernel

end CkbVerif.C10
