import CkbVerif.Model.Cache

/-!
# C14 — caches never change a verdict or an answer

Model: `Model/Cache.lean`.

* `cached_verdict_eq_uncached` — if every entry of the verification cache was produced by a full
  verification of the transaction with that witness hash (`Sound`), the cached path returns exactly
  what the full path returns in the *current* context: same verdict, same error class, same
  cycles and fee — because the only context-dependent check (since / maturity) is re-evaluated.
* `sound_preserved`, `run_with_cache_eq_run_without` — `Sound` is an invariant of every history of
  verifications and evictions (any LRU policy), so a node with a warm cache answers every
  verification of every history exactly like a node without a cache.
* `wrong_key_witness`, `limit_mismatch_witness` — the hypotheses matter: an entry filed under
  another transaction's hash, or produced under a larger cycle limit than the one in force, does
  change a verdict.
* `store_cache_transparent`, `guarded_read_transparent`, `coherent_preserved`,
  `guarded_run_eq_cold` — read-through caches over columns whose value is a function of the key
  (content-addressed: headers, uncles, proposals, extension by block hash; cell data by out-point):
  a present key reads the same through the cache as from the column, after any sequence of
  writes / deletes / reads / evictions; and a read that first consults an authoritative uncached
  presence bit (how the node uses cell data and headers of deleted blocks) equals the uncached
  read also for absent keys.
* `bare_read_stale_witness` (F6), `negative_cache_stale_witness` — the excluded points: a bare
  read of a deleted key answers from the cache; a cache that also stores "absent" answers keeps
  answering "absent" after the key is written.

Round 3 (classes behind the seeded regressions and the negative-caching defect):

* `keyed_cached_verdict_eq_uncached`, `keyed_sound_preserved`, `keyed_run_eq_cold` — the same
  refinement with the cache key as a parameter: it holds for **every** key that determines the
  context-free verdict (`KeyDetermines`; the witness hash does, being injective);
  `tx_hash_key_breaks_verdict` — a key that forgets the witnesses (`hash()`) does not: a history
  whose second block is accepted only because of the cache.
* `block_verdict_eq_uncached`, `block_sound_preserved`, `node_run_eq_cold` — block-level
  (`BlockTxsVerifier::verify`: one fetch, all results put, cycle sum) and node-level: over every
  sequence of context changes (reorganisations to any context), blocks, pool submissions, dry runs
  and evictions a node with a cache gives the answers of a node without one.
  `skip_time_relative_on_hit_breaks_verdict` — if the hit path does not re-run the time-relative
  checks, a reorganisation to a lower context makes the two nodes disagree.
* `bare_read_eq_col`, `present_preserved`, `bare_run_eq_cold` — a get-or-fill cache that files only
  positive answers answers **bare** reads like the column, for present and absent keys, over every
  interleaving of writes, reads (before and after the write) and evictions, and deletes of uncached
  keys; `negative_fill_PreFix_breaks_bare_run` — the pre-fix fill rule (file whatever the column
  said) does not, without any delete.
* `cells_run_eq_cold`, `have_cell_from_cache_breaks_liveness` — liveness is read from the uncached
  column and data only behind it: every history of creations, consumptions, loads, liveness and
  data queries is answered like a cache-free store; a `have_cell` with a cache fast path is not.
-/
namespace CkbVerif.C14
open CkbVerif.Cache

/-! ## verification cache -/

/-- every cached entry is what a full verification of that very transaction returns (in a context
where its time-relative checks pass) -/
def Sound (k : Content) (maxCycles : Nat) (c : VCache) : Prop :=
  ∀ w e, c.peek w = some e → full k maxCycles true w = .ok e

theorem full_of_ok_true {k : Content} {m : Nat} {w : Nat} {e : Completed} (h : full k m true w = .ok e)
    (tr : Bool) : full k m tr w = if !tr then .error .timeRelative else .ok e := by
  unfold full at h ⊢
  cases tr <;> simp_all

/-- **Cached verdict = uncached verdict**, including error class, cycles and fee. -/
theorem cached_verdict_eq_uncached {k : Content} {m : Nat} {c : VCache} (hs : Sound k m c)
    (tr : Bool) (w : Nat) : cached k m c tr w = full k m tr w := by
  unfold cached
  cases hp : c.peek w with
  | none => rfl
  | some e => simp only []; rw [full_of_ok_true (hs w e hp) tr]

theorem peek_filter (c : VCache) (w w' : Nat) :
    VCache.peek (c.filter (fun x => x.1 != w)) w' = if w' = w then none else c.peek w' := by
  unfold VCache.peek
  induction c with
  | nil => simp
  | cons x xs ih => grind

theorem peek_cons_filter (c : VCache) (w w' : Nat) (e : Completed) :
    VCache.peek ((w, e) :: c.filter (fun x => x.1 != w)) w' =
      if w' = w then some e else c.peek w' := by
  have h := peek_filter c w w'
  unfold VCache.peek at h ⊢
  grind

/-- `Sound` is preserved by every verification (the result is cached) and every eviction. -/
theorem sound_preserved {k : Content} {m : Nat} {c : VCache} (hs : Sound k m c) (op : VOp) :
    Sound k m (vstep k m c op).1 := by
  cases op with
  | verify w tr =>
    simp only [vstep]
    cases hr : cached k m c tr w with
    | error e => simpa using hs
    | ok e =>
      simp only []
      intro w' e' hp
      rw [peek_cons_filter] at hp
      by_cases h : w' = w
      · subst h
        simp at hp; subst hp
        rw [cached_verdict_eq_uncached hs] at hr
        unfold full at hr ⊢
        cases tr <;> simp_all
      · simp [h] at hp; exact hs w' e' hp
  | evict w =>
    simp only [vstep]
    intro w' e' hp
    rw [peek_filter] at hp
    by_cases h : w' = w
    · simp [h] at hp
    · simp [h] at hp; exact hs w' e' hp

/-- **A node with a (sound) cache answers every history like a node without one**, for every
history of verifications in arbitrary contexts and evictions under any policy. -/
theorem run_with_cache_eq_run_without {k : Content} {m : Nat} {c : VCache} (hs : Sound k m c)
    (ops : List VOp) : vrun k m c ops = vrunCold k m ops := by
  induction ops generalizing c with
  | nil => rfl
  | cons op ops ih =>
    have hs' := sound_preserved hs op
    cases op with
    | verify w tr =>
      simp only [vrun, vrunCold]
      rw [ih hs']
      simp [vstep, cached_verdict_eq_uncached hs]
      cases full k m tr w <;> rfl
    | evict w =>
      simp only [vrun, vrunCold]
      rw [ih hs']
      simp [vstep]

/-- the empty cache a node starts with is sound -/
theorem sound_nil (k : Content) (m : Nat) : Sound k m [] := by
  intro w e h; simp [VCache.peek] at h

theorem warm_eq_cold_from_start (k : Content) (m : Nat) (ops : List VOp) :
    vrun k m [] ops = vrunCold k m ops :=
  run_with_cache_eq_run_without (sound_nil k m) ops

/-- non-vacuity: a history in which the same transaction is verified in a passing context, then in
a context where it is immature (refused although cached), evicted, and verified again -/
def exK : Content := { capacityOk := fun w => w != 13, script := fun w => if w == 7 then none else some (100 * w), fee := fun w => some w }
example : vrun exK 1000 [] [.verify 3 true, .verify 3 false, .verify 3 true, .evict 3, .verify 3 true, .verify 7 true, .verify 13 true]
    = [some (.ok ⟨300, 3⟩), some (.error .timeRelative), some (.ok ⟨300, 3⟩), none, some (.ok ⟨300, 3⟩),
       some (.error .script), some (.error .capacity)] := by decide

/-- The key matters: an entry filed under the hash of a *different* transaction (e.g. a key that
ignores witnesses: 5 and 7 differ only in their witnesses and 7's script fails) flips a verdict. -/
theorem wrong_key_witness :
    cached exK 1000 [(7, ⟨500, 5⟩)] true 7 = .ok ⟨500, 5⟩ ∧ full exK 1000 true 7 = .error .script := by decide

/-- The limit matters: an entry produced under a larger cycle limit (a block's) is reused under a
smaller one (the pool's `max_tx_verify_cycles`) although a full verification would refuse it. -/
theorem limit_mismatch_witness :
    full exK 1000 true 9 = .ok ⟨900, 9⟩ ∧
    cached exK 500 [(9, ⟨900, 9⟩)] true 9 = .ok ⟨900, 9⟩ ∧ full exK 500 true 9 = .error .script := by decide

/-! ## store read caches -/

/-- the column and the cache hold, for a key, nothing but the key's content (content-addressed
data: the value is a function of the key) -/
structure Coherent {ν : Type} (content : Nat → ν) (s : Cached ν) : Prop where
  col : ∀ k v, s.col k = some v → v = content k
  cache : ∀ k v, (k, v) ∈ s.cache → v = content k

/-- writes store the key's content (an out-point's data, a hash's header …) -/
def WriteOk {ν : Type} (content : Nat → ν) : SOp ν → Prop
  | .write k v => v = content k
  | _ => True

theorem peek_content {ν : Type} {content : Nat → ν} {s : Cached ν} (h : Coherent content s) {k : Nat} {v : ν}
    (hp : s.peek k = some v) : v = content k := by
  unfold Cached.peek at hp
  cases hf : s.cache.find? (fun e => e.1 == k) with
  | none => simp [hf] at hp
  | some e =>
    simp [hf] at hp
    have hm := List.mem_of_find?_eq_some hf
    have hk := List.find?_some hf
    have : e.1 = k := by simpa using hk
    obtain ⟨a, b⟩ := e
    simp at this hp; subst this; subst hp
    exact h.cache a b hm

/-- **Present keys read the same through the cache as from the column.** -/
theorem store_cache_transparent {ν : Type} {content : Nat → ν} {s : Cached ν} (h : Coherent content s)
    {k : Nat} (hpres : s.col k ≠ none) : (s.read k).2 = s.col k := by
  unfold Cached.read
  cases hp : s.peek k with
  | some v =>
    cases hc : s.col k with
    | none => exact absurd hc hpres
    | some v' => simp [peek_content h hp, h.col k v' hc]
  | none =>
    cases hc : s.col k <;> simp

/-- **The node's access pattern**: a read guarded by an authoritative uncached presence bit equals
the uncached read, for present and absent keys alike. -/
theorem guarded_read_transparent {ν : Type} {content : Nat → ν} {s : Cached ν} (h : Coherent content s)
    (k : Nat) : guardedRead (s.col k).isSome s k = s.col k := by
  unfold guardedRead
  cases hc : s.col k with
  | none => simp
  | some v =>
    simp only [Option.isSome_some, if_true]
    rw [store_cache_transparent h (by simp [hc]), hc]

/-- coherence survives every write of content, delete, read (fill) and eviction -/
theorem coherent_preserved {ν : Type} {content : Nat → ν} {s : Cached ν} (h : Coherent content s)
    (op : SOp ν) (hw : WriteOk content op) : Coherent content (sstep s op).1 := by
  cases op with
  | write k v =>
    refine ⟨?_, h.cache⟩
    intro k' v' hc
    simp only [sstep] at hc
    by_cases hk : k' = k
    · simp [hk] at hc; subst hc; subst hk; exact hw
    · simp [hk] at hc; exact h.col k' v' hc
  | delete k =>
    refine ⟨?_, h.cache⟩
    intro k' v' hc
    simp only [sstep] at hc
    by_cases hk : k' = k
    · simp [hk] at hc
    · simp [hk] at hc; exact h.col k' v' hc
  | read k =>
    simp only [sstep, Cached.read]
    cases hp : s.peek k with
    | some v => exact h
    | none =>
      cases hc : s.col k with
      | none => exact h
      | some v =>
        refine ⟨h.col, ?_⟩
        intro k' v' hm
        simp only [List.mem_cons] at hm
        rcases hm with hm | hm
        · cases hm; exact h.col k v hc
        · exact h.cache k' v' hm
  | evict k =>
    refine ⟨h.col, ?_⟩
    intro k' v' hm
    simp only [sstep] at hm
    exact h.cache k' v' (List.mem_filter.mp hm).1

/-- answers of guarded reads along a history, with the cache -/
def runGuarded {ν : Type} : Cached ν → List (SOp ν) → List (Option (Option ν))
  | _, [] => []
  | s, .read k :: ops => some (guardedRead (s.col k).isSome s k) :: runGuarded (sstep s (.read k)).1 ops
  | s, op :: ops => none :: runGuarded (sstep s op).1 ops

/-- … and of a store without caches -/
def runCold {ν : Type} : (Nat → Option ν) → List (SOp ν) → List (Option (Option ν))
  | _, [] => []
  | col, .read k :: ops => some (col k) :: runCold col ops
  | col, .write k v :: ops => none :: runCold (fun x => if x = k then some v else col x) ops
  | col, .delete k :: ops => none :: runCold (fun x => if x = k then none else col x) ops
  | col, .evict _ :: ops => none :: runCold col ops

theorem read_col {ν : Type} (s : Cached ν) (k : Nat) : (sstep s (.read k)).1.col = s.col := by
  simp only [sstep, Cached.read]
  cases s.peek k <;> cases s.col k <;> rfl

/-- **Any history** of content writes, deletes, guarded reads and evictions is answered by the
cached store exactly as by the cache-free store. -/
theorem guarded_run_eq_cold {ν : Type} {content : Nat → ν} {s : Cached ν} (h : Coherent content s)
    (ops : List (SOp ν)) (hw : ∀ op ∈ ops, WriteOk content op) :
    runGuarded s ops = runCold s.col ops := by
  induction ops generalizing s with
  | nil => rfl
  | cons op ops ih =>
    have h' := coherent_preserved h op (hw op (by simp))
    have hw' : ∀ o ∈ ops, WriteOk content o := fun o ho => hw o (by simp [ho])
    cases op with
    | read k =>
      simp only [runGuarded, runCold]
      rw [guarded_read_transparent h, ih h' hw', read_col]
    | write k v => simp only [runGuarded, runCold]; rw [ih h' hw']; rfl
    | delete k => simp only [runGuarded, runCold]; rw [ih h' hw']; rfl
    | evict k => simp only [runGuarded, runCold]; rw [ih h' hw']; rfl

/-- the empty store is coherent -/
theorem coherent_empty {ν : Type} (content : Nat → ν) : Coherent content ⟨fun _ => none, []⟩ :=
  ⟨fun k v h => by simp at h, fun k v h => by simp at h⟩

example : runGuarded (⟨fun _ => none, []⟩ : Cached Nat) [.write 1 10, .read 1, .delete 1, .read 1, .write 1 10, .read 1, .evict 1, .read 2]
    = [none, some (some 10), none, some none, none, some (some 10), none, some none] := by decide

/-- **F6**: the bare accessor of a deleted key (a spent cell's data, the header of a deleted
invalid block) answers from the cache although the column is empty. -/
theorem bare_read_stale_witness :
    let s0 : Cached Nat := ⟨fun _ => none, []⟩
    let s1 := (sstep s0 (.write 1 10)).1
    let s2 := (sstep s1 (.read 1)).1
    let s3 := (sstep s2 (.delete 1)).1
    (s3.read 1).2 = some 10 ∧ s3.col 1 = none ∧ guardedRead (s3.col 1).isSome s3 1 = none := by decide

/-- a cache that also stores "absent" (`get_block_extension`, `get_block_txs_hashes`) keeps saying
"absent" after the key is written: such a column must not be read before it is written -/
theorem negative_cache_stale_witness :
    let col0 : Nat → Option Nat := fun _ => none
    let r0 := readNeg col0 [] 1
    let col1 : Nat → Option Nat := fun x => if x = 1 then some 10 else none
    (readNeg col1 r0.1 1).2 = none ∧ col1 1 = some 10 := by decide


/-! ## round 3: the key, blocks, a node over changing contexts -/

/-- entries found under `key w` are what a full verification of `w` returns -/
def SoundK (key : Nat → Nat) (k : Content) (m : Nat) (c : VCache) : Prop :=
  ∀ w e, c.peek (key w) = some e → full k m true w = .ok e

/-- the key determines the context-free verdict: transactions filed under one key verify alike -/
def KeyDetermines (key : Nat → Nat) (k : Content) (m : Nat) : Prop :=
  ∀ w w', key w = key w' → full k m true w = full k m true w'

/-- an injective key (the witness hash covers the whole transaction) determines everything -/
theorem keyDetermines_of_injective {key : Nat → Nat} (hi : ∀ w w', key w = key w' → w = w')
    (k : Content) (m : Nat) : KeyDetermines key k m := by
  intro w w' h; rw [hi w w' h]

/-- the code as written (`witness_hash()`) is the identity key -/
theorem cachedK_id (k : Content) (m : Nat) (c : VCache) (tr : Bool) (w : Nat) :
    cachedK id k m c tr w = cached k m c tr w := rfl

/-- **Cached verdict = uncached verdict for any key**, given the entries are sound under it. -/
theorem keyed_cached_verdict_eq_uncached {key : Nat → Nat} {k : Content} {m : Nat} {c : VCache}
    (hs : SoundK key k m c) (tr : Bool) (w : Nat) : cachedK key k m c tr w = full k m tr w := by
  unfold cachedK
  cases hp : c.peek (key w) with
  | none => rfl
  | some e => simp only []; rw [full_of_ok_true (hs w e hp) tr]

/-- soundness under the key survives every verification and eviction — provided the key
determines the context-free verdict, because a put under `key w` is later found by every `w'`
with the same key -/
theorem keyed_sound_preserved {key : Nat → Nat} {k : Content} {m : Nat} {c : VCache}
    (hk : KeyDetermines key k m) (hs : SoundK key k m c) (op : VOp) :
    SoundK key k m (vstepK key k m c op).1 := by
  cases op with
  | verify w tr =>
    simp only [vstepK]
    cases hr : cachedK key k m c tr w with
    | error e => simpa using hs
    | ok e =>
      simp only []
      intro w' e' hp
      rw [peek_cons_filter] at hp
      by_cases h : key w' = key w
      · simp [h] at hp; subst hp
        rw [keyed_cached_verdict_eq_uncached hs] at hr
        rw [hk w' w h]
        unfold full at hr ⊢
        cases tr <;> simp_all
      · simp [h] at hp; exact hs w' e' hp
  | evict w =>
    simp only [vstepK]
    intro w' e' hp
    rw [peek_filter] at hp
    by_cases h : key w' = key w
    · simp [h] at hp
    · simp [h] at hp; exact hs w' e' hp

/-- **Any history, any key that determines the context-free verdict**: cached run = cache-free run. -/
theorem keyed_run_eq_cold {key : Nat → Nat} {k : Content} {m : Nat} {c : VCache}
    (hk : KeyDetermines key k m) (hs : SoundK key k m c) (ops : List VOp) :
    vrunK key k m c ops = vrunCold k m ops := by
  induction ops generalizing c with
  | nil => rfl
  | cons op ops ih =>
    have hs' := keyed_sound_preserved hk hs op
    cases op with
    | verify w tr =>
      simp only [vrunK, vrunCold]
      rw [ih hs']
      simp [vstepK, keyed_cached_verdict_eq_uncached hs]
      cases full k m tr w <;> rfl
    | evict w =>
      simp only [vrunK, vrunCold]
      rw [ih hs']
      simp [vstepK]

theorem soundK_nil (key : Nat → Nat) (k : Content) (m : Nat) : SoundK key k m [] := by
  intro w e h; simp [VCache.peek] at h

/-- non-vacuity: the identity key (the witness hash) on the example content -/
example : vrunK id exK 1000 [] [.verify 5 true, .verify 7 true, .verify 5 false] = vrunCold exK 1000 [.verify 5 true, .verify 7 true, .verify 5 false] :=
  keyed_run_eq_cold (keyDetermines_of_injective (fun _ _ h => h) exK 1000) (soundK_nil id exK 1000) _

/-- the tx hash of the example: 5 and 7 are one transaction under two witness sets -/
def exTxHash (w : Nat) : Nat := if w = 7 then 5 else w

/-- **Keying by the tx hash breaks the property** (seed m1): branch A commits the transaction with
the passing witnesses (5), branch B the same tx hash with failing witnesses (7); with the cache the
second verification succeeds, without it the script error is reported. The key does not determine
the verdict, so `keyed_run_eq_cold` does not apply. -/
theorem tx_hash_key_breaks_verdict :
    vrunK exTxHash exK 1000 [] [.verify 5 true, .verify 7 true] = [some (.ok ⟨500, 5⟩), some (.ok ⟨500, 5⟩)] ∧
    vrunCold exK 1000 [.verify 5 true, .verify 7 true] = [some (.ok ⟨500, 5⟩), some (.error .script)] ∧
    ¬ KeyDetermines exTxHash exK 1000 := by
  refine ⟨by decide, by decide, ?_⟩
  intro h
  have := h 7 5 (by decide)
  revert this; decide

/-- **Skipping the time-relative checks on a hit breaks the property** (seed m2): verified while
mature, then again in a context where it is immature (after a reorganisation). -/
theorem skip_time_relative_on_hit_breaks_verdict :
    cachedNoTimeRel exK 1000 [(3, ⟨300, 3⟩)] false 3 = .ok ⟨300, 3⟩ ∧
    cached exK 1000 [(3, ⟨300, 3⟩)] false 3 = .error .timeRelative ∧
    full exK 1000 false 3 = .error .timeRelative ∧ Sound exK 1000 [(3, ⟨300, 3⟩)] := by
  refine ⟨by decide, by decide, by decide, ?_⟩
  intro w e h
  simp only [VCache.peek, List.find?] at h
  by_cases hw : w = 3
  · subst hw; simp at h; subst h; decide
  · have : ((3 : Nat) == w) = false := by simp; omega
    simp [this] at h

/-! ### blocks -/

theorem txResults_eq_cold {k : Content} {m : Nat} {c : VCache} (hs : Sound k m c) (txs : List (Nat × Bool)) :
    txResults k m c txs = txResults k m [] txs := by
  induction txs with
  | nil => rfl
  | cons t rest ih =>
    obtain ⟨w, tr⟩ := t
    simp only [txResults]
    rw [cached_verdict_eq_uncached hs, cached_verdict_eq_uncached (sound_nil k m), ih]

/-- every result of a successful block is what a full verification returns -/
theorem txResults_sound {k : Content} {m : Nat} (txs : List (Nat × Bool)) (rs : List (Nat × Completed))
    (h : txResults k m [] txs = .ok rs) : ∀ r ∈ rs, full k m true r.1 = .ok r.2 := by
  induction txs generalizing rs with
  | nil => simp [txResults] at h; subst h; simp
  | cons t rest ih =>
    obtain ⟨w, tr⟩ := t
    simp only [txResults] at h
    rw [cached_verdict_eq_uncached (sound_nil k m)] at h
    cases hf : full k m tr w with
    | error e => simp [hf] at h
    | ok r =>
      simp only [hf] at h
      cases hr : txResults k m [] rest with
      | error e => simp [hr] at h
      | ok rs' =>
        simp only [hr] at h
        cases h
        intro x hx
        simp only [List.mem_cons] at hx
        rcases hx with hx | hx
        · subst hx
          simp only
          unfold full at hf ⊢
          cases tr <;> simp_all
        · exact ih rs' hr x hx

theorem putAll_sound {k : Content} {m : Nat} (rs : List (Nat × Completed)) {c : VCache} (hs : Sound k m c)
    (hr : ∀ r ∈ rs, full k m true r.1 = .ok r.2) : Sound k m (putAll c rs) := by
  induction rs generalizing c with
  | nil => simpa [putAll] using hs
  | cons r rest ih =>
    simp only [putAll, List.foldl_cons]
    apply ih
    · intro w' e' hp
      rw [peek_cons_filter] at hp
      by_cases h : w' = r.1
      · subst h; simp at hp; subst hp; exact hr r (by simp)
      · simp [h] at hp; exact hs w' e' hp
    · intro x hx; exact hr x (by simp [hx])

/-- **A block is judged alike with and without the cache**: verdict, error class, per-transaction
cycles and fees (`BlockExt.{cycles, txs_fees}`), and the cycle-sum check. -/
theorem block_verdict_eq_uncached {k : Content} {m : Nat} {c : VCache} (hs : Sound k m c)
    (txs : List (Nat × Bool)) : (blockVerify k m c txs).2 = (blockVerify k m [] txs).2 := by
  unfold blockVerify
  rw [txResults_eq_cold hs]
  cases txResults k m [] txs with
  | error e => rfl
  | ok rs => simp only []; split <;> rfl

/-- … and what it puts into the cache keeps the cache sound -/
theorem block_sound_preserved {k : Content} {m : Nat} {c : VCache} (hs : Sound k m c)
    (txs : List (Nat × Bool)) : Sound k m (blockVerify k m c txs).1 := by
  unfold blockVerify
  rw [txResults_eq_cold hs]
  cases hr : txResults k m [] txs with
  | error e => exact hs
  | ok rs =>
    simp only []
    have := putAll_sound rs hs (txResults_sound txs rs hr)
    split <;> exact this

theorem nstep_sound {k : Content} {m : Nat} {since : Nat → Nat} {s : NodeS} (hs : Sound k m s.cache) (op : NOp) :
    Sound k m (nstep k m since s op).1.cache := by
  cases op with
  | reorg ctx => exact hs
  | block ws => exact block_sound_preserved hs _
  | submit w => exact sound_preserved hs (.verify w (mature since s.ctx w))
  | probe w => exact hs
  | evict w => exact sound_preserved hs (.evict w)

theorem nstep_ctx {k : Content} {m : Nat} {since : Nat → Nat} (s : NodeS) (op : NOp) :
    (nstep k m since s op).1.ctx = match op with | .reorg c => c | _ => s.ctx := by
  cases op <;> rfl

/-- **A node with a verification cache answers like a node without one**, over every sequence of
context changes (extensions and reorganisations to *any* context, in particular one with a lower
number / median time than the one an entry was produced in), blocks, pool submissions, dry runs
and evictions. -/
theorem node_run_eq_cold {k : Content} {m : Nat} {since : Nat → Nat} {s : NodeS} (hs : Sound k m s.cache)
    (ops : List NOp) : nrun k m since s ops = nrunCold k m since s.ctx ops := by
  induction ops generalizing s with
  | nil => rfl
  | cons op ops ih =>
    have hs' := nstep_sound (since := since) hs op
    have hc := nstep_ctx (k := k) (m := m) (since := since) s op
    cases op with
    | reorg ctx => simp only [nrun, nrunCold]; rw [ih hs']; simp [nstep]
    | block ws =>
      simp only [nrun, nrunCold]; rw [ih hs']
      simp only [nstep, block_verdict_eq_uncached hs]
    | submit w =>
      simp only [nrun, nrunCold]; rw [ih hs']
      simp only [nstep, cached_verdict_eq_uncached hs]
    | probe w =>
      simp only [nrun, nrunCold]; rw [ih hs']
      simp only [nstep, cached_verdict_eq_uncached hs]
    | evict w => simp only [nrun, nrunCold]; rw [ih hs']; simp [nstep]

/-- non-vacuity: transaction 3 carries `since = 10`; committed at context 12, the chain then
reorganises to context 8 where the pool refuses it although cached, a block committing it is
refused too, and it is accepted again at context 11; 7's script fails, 9 and 8 together exceed
the block's cycle limit -/
example : nrun exK 1000 (fun w => if w = 3 then 10 else 0) ⟨12, []⟩
      [.block [3], .reorg 8, .submit 3, .probe 3, .block [3], .reorg 11, .submit 3, .block [7], .block [9, 8], .evict 3, .probe 3]
    = [.blk (.ok [⟨300, 3⟩]), .none, .tx (.error .timeRelative), .tx (.error .timeRelative), .blk (.error (.tx .timeRelative)),
       .none, .tx (.ok ⟨300, 3⟩), .blk (.error (.tx .script)), .blk (.error .cycles), .none, .tx (.ok ⟨300, 3⟩)] := by decide

/-! ## round 3: store caches that file only positive answers -/

/-- every cached key is in the column (nothing outlives its row) -/
def Present {ν : Type} (s : Cached ν) : Prop := ∀ k v, s.peek k = some v → s.col k ≠ none

/-- **Bare reads** (no presence guard) through a positive-only cache equal the column, for present
*and absent* keys. -/
theorem bare_read_eq_col {ν : Type} {content : Nat → ν} {s : Cached ν} (h : Coherent content s)
    (hp : Present s) (k : Nat) : (s.read k).2 = s.col k := by
  cases hc : s.col k with
  | some v => exact hc ▸ store_cache_transparent h (by simp [hc])
  | none =>
    unfold Cached.read
    cases hk : s.peek k with
    | some v => exact absurd hc (hp k v hk)
    | none => simp [hc]

/-- what keeps `Present`: anything but the delete of a cached key (F6) -/
def BareOk {ν : Type} (s : Cached ν) : SOp ν → Prop
  | .delete k => s.peek k = none
  | _ => True

theorem peek_cons_ne {ν : Type} (s : Cached ν) (k k' : Nat) (v : ν) (h : k' ≠ k) :
    Cached.peek { s with cache := (k, v) :: s.cache } k' = s.peek k' := by
  unfold Cached.peek
  have : ((k == k') = false) := by simp; omega
  simp [List.find?, this]

theorem peek_cons_eq {ν : Type} (s : Cached ν) (k : Nat) (v : ν) :
    Cached.peek { s with cache := (k, v) :: s.cache } k = some v := by
  unfold Cached.peek
  simp [List.find?]

theorem peek_filter_store {ν : Type} (s : Cached ν) (k k' : Nat) :
    Cached.peek { s with cache := s.cache.filter (fun e => e.1 != k) } k' = if k' = k then none else s.peek k' := by
  unfold Cached.peek
  simp only
  induction s.cache with
  | nil => simp
  | cons x xs ih => grind

theorem present_preserved {ν : Type} {s : Cached ν} (hp : Present s) (op : SOp ν) (hb : BareOk s op) :
    Present (sstep s op).1 := by
  cases op with
  | write k v =>
    intro k' v' hk
    simp only [sstep] at hk ⊢
    by_cases h : k' = k
    · simp [h]
    · simp only [h, if_false]; exact hp k' v' hk
  | delete k =>
    intro k' v' hk
    simp only [sstep] at hk ⊢
    have hk' : s.peek k' = some v' := hk
    by_cases h : k' = k
    · subst h; simp only [BareOk] at hb; rw [hb] at hk'; cases hk'
    · simp only [h, if_false]; exact hp k' v' hk'
  | read k =>
    simp only [sstep, Cached.read]
    cases hk : s.peek k with
    | some v => exact hp
    | none =>
      cases hc : s.col k with
      | none => exact hp
      | some v =>
        intro k' v' hk'
        simp only at hk' ⊢
        by_cases h : k' = k
        · subst h; simp [hc]
        · rw [peek_cons_ne s k k' v h] at hk'; exact hp k' v' hk'
  | evict k =>
    intro k' v' hk
    simp only [sstep] at hk ⊢
    rw [peek_filter_store] at hk
    by_cases h : k' = k
    · simp [h] at hk
    · simp [h] at hk; exact hp k' v' hk

/-- the history is admissible for bare reads: content writes, and no delete of a key while it is cached -/
def BareHist {ν : Type} (content : Nat → ν) : Cached ν → List (SOp ν) → Prop
  | _, [] => True
  | s, op :: ops => WriteOk content op ∧ BareOk s op ∧ BareHist content (sstep s op).1 ops

theorem sstep_col {ν : Type} (s : Cached ν) (op : SOp ν) :
    (sstep s op).1.col = match op with
      | .write k v => fun x => if x = k then some v else s.col x
      | .delete k => fun x => if x = k then none else s.col x
      | _ => s.col := by
  cases op with
  | read k => exact read_col s k
  | _ => rfl

/-- **Every interleaving** of writes, reads (before the key exists and after), evictions and
deletes of uncached keys is answered by bare reads through a positive-only cache exactly as by
the column: a query issued before an insert never changes the answer after it. -/
theorem bare_run_eq_cold {ν : Type} {content : Nat → ν} {s : Cached ν} (h : Coherent content s)
    (hp : Present s) (ops : List (SOp ν)) (hh : BareHist content s ops) :
    runBare s ops = runCold s.col ops := by
  induction ops generalizing s with
  | nil => rfl
  | cons op ops ih =>
    obtain ⟨hw, hb, hrest⟩ := hh
    have h' := coherent_preserved h op hw
    have hp' := present_preserved hp op hb
    have hcol := sstep_col s op
    cases op with
    | read k =>
      simp only [runBare, runCold]
      rw [ih h' hp' hrest, hcol]
      simp only [sstep, bare_read_eq_col h hp]
    | write k v => simp only [runBare, runCold]; rw [ih h' hp' hrest, hcol]; rfl
    | delete k => simp only [runBare, runCold]; rw [ih h' hp' hrest, hcol]; rfl
    | evict k => simp only [runBare, runCold]; rw [ih h' hp' hrest, hcol]; rfl

theorem present_empty {ν : Type} : Present (⟨fun _ => none, []⟩ : Cached ν) := by
  intro k v h; simp [Cached.peek] at h

/-- non-vacuity: key 1 is read before it exists, written, read, evicted, read; key 2 is deleted
while uncached and read -/
example : runBare (⟨fun _ => none, []⟩ : Cached Nat) [.read 1, .write 1 10, .read 1, .evict 1, .read 1, .write 2 20, .delete 2, .read 2]
    = [some none, none, some (some 10), none, some (some 10), none, none, some none] := by decide
example : BareHist (fun k => 10 * k) (⟨fun _ => none, []⟩ : Cached Nat) [.read 1, .write 1 10, .read 1, .evict 1, .read 1, .write 2 20, .delete 2, .read 2] := by
  simp [BareHist, WriteOk, BareOk, sstep, Cached.read, Cached.peek]

/-- **The pre-fix fill rule breaks it** (`get_block_extension` / `get_block_txs_hashes` before
"store read caches must not keep a negative answer"): read before the write, write, read — no
delete, no eviction — and the cached store answers "absent" for a stored key. -/
theorem negative_fill_PreFix_breaks_bare_run :
    let ops : List (SOp Nat) := [.read 1, .write 1 10, .read 1]
    runBareNeg (⟨fun _ => none, []⟩ : NegCached Nat) ops = [some none, none, some none] ∧
    runCold (fun _ => none) ops = [some none, none, some (some 10)] ∧
    runBare (⟨fun _ => none, []⟩ : Cached Nat) ops = [some none, none, some (some 10)] ∧
    BareHist (fun k => 10 * k) (⟨fun _ => none, []⟩ : Cached Nat) ops := by
  refine ⟨by decide, by decide, by decide, ?_⟩
  simp [BareHist, WriteOk, BareOk]

/-! ## round 3: live cells -/

structure CellsInv {ν : Type} (content : Nat → ν) (s : Cells ν) : Prop where
  coh : Coherent content s.data
  /-- `insert_cells` writes the data rows together with the liveness row -/
  liveData : ∀ k, s.live k = true → s.data.col k ≠ none

def CreateOk {ν : Type} (content : Nat → ν) : LOp ν → Prop
  | .create k v => v = content k
  | _ => True

theorem cellsInv_preserved {ν : Type} {content : Nat → ν} {s : Cells ν} (h : CellsInv content s)
    (op : LOp ν) (hw : CreateOk content op) : CellsInv content (lstep s op).1 := by
  cases op with
  | create k v =>
    refine ⟨coherent_preserved h.coh (.write k v) hw, ?_⟩
    intro k' hl
    simp only [lstep, sstep] at hl ⊢
    by_cases hk : k' = k
    · simp [hk]
    · simp only [hk, if_false] at hl ⊢; exact h.liveData k' hl
  | consume k =>
    refine ⟨coherent_preserved h.coh (.delete k) trivial, ?_⟩
    intro k' hl
    simp only [lstep, sstep] at hl ⊢
    by_cases hk : k' = k
    · simp [hk] at hl
    · simp only [hk, if_false] at hl ⊢; exact h.liveData k' hl
  | haveCell k => exact h
  | getData k =>
    simp only [lstep]
    split
    · refine ⟨coherent_preserved h.coh (.read k) trivial, ?_⟩
      intro k' hl
      have := read_col s.data k
      simp only [sstep] at this
      simp only [this]; exact h.liveData k' hl
    · exact h
  | load k =>
    refine ⟨coherent_preserved h.coh (.read k) trivial, ?_⟩
    intro k' hl
    have := read_col s.data k
    simp only [sstep] at this
    simp only [lstep, this]; exact h.liveData k' hl
  | evict k =>
    refine ⟨coherent_preserved h.coh (.evict k) trivial, ?_⟩
    intro k' hl
    exact h.liveData k' hl

/-- **Liveness and guarded cell data are cache-independent** over every history of creations,
consumptions (attach / detach in any order), bare loads that only warm the cache (what script
verification does for cell deps), liveness queries, data queries and evictions. -/
theorem cells_run_eq_cold {ν : Type} {content : Nat → ν} {s : Cells ν} (h : CellsInv content s)
    (ops : List (LOp ν)) (hw : ∀ op ∈ ops, CreateOk content op) :
    lrun s ops = lrunCold s.live s.data.col ops := by
  induction ops generalizing s with
  | nil => rfl
  | cons op ops ih =>
    have h' := cellsInv_preserved h op (hw op (by simp))
    have hw' : ∀ o ∈ ops, CreateOk content o := fun o ho => hw o (by simp [ho])
    cases op with
    | create k v => simp only [lrun, lrunCold]; rw [ih h' hw']; rfl
    | consume k => simp only [lrun, lrunCold]; rw [ih h' hw']; rfl
    | haveCell k => simp only [lrun, lrunCold]; rw [ih h' hw']; rfl
    | getData k =>
      simp only [lrun, lrunCold]; rw [ih h' hw']
      have hc := read_col s.data k
      simp only [sstep] at hc
      by_cases hl : s.live k = true
      · simp only [lstep, hl, if_true, hc]
        rw [store_cache_transparent h.coh (h.liveData k hl)]
      · simp only [lstep, hl]; rfl
    | load k =>
      simp only [lrun, lrunCold]; rw [ih h' hw']
      have hc := read_col s.data k
      simp only [sstep] at hc
      simp only [lstep, hc]
    | evict k => simp only [lrun, lrunCold]; rw [ih h' hw']; rfl

theorem cellsInv_empty {ν : Type} (content : Nat → ν) : CellsInv content ⟨fun _ => false, ⟨fun _ => none, []⟩⟩ :=
  ⟨coherent_empty content, fun k h => by simp at h⟩

/-- non-vacuity: a cell is created, loaded as a cell dep, consumed; then it is dead and has no data
(although the cache still holds it); after the detach of the consuming block it is live again -/
example : lrun (⟨fun _ => false, ⟨fun _ => none, []⟩⟩ : Cells Nat)
      [.haveCell 1, .create 1 10, .load 1, .haveCell 1, .getData 1, .consume 1, .haveCell 1, .getData 1, .create 1 10, .getData 1]
    = [.live false, .none, .none, .live true, .data (some 10), .none, .live false, .data none, .none, .data (some 10)] := by decide

/-- **A `have_cell` answered from the data cache breaks liveness** (seed m3): created, loaded,
consumed — the column says dead, the fast path says live. -/
theorem have_cell_from_cache_breaks_liveness :
    let s0 : Cells Nat := ⟨fun _ => false, ⟨fun _ => none, []⟩⟩
    let s3 := (lstep (lstep (lstep s0 (.create 1 10)).1 (.load 1)).1 (.consume 1)).1
    haveCellFast s3 1 = true ∧ (lstep s3 (.haveCell 1)).2 = .live false ∧ s3.live 1 = false := by decide

/-! ## round 6: the verification switch (assume-valid) and the block cycle sum -/

theorem full_ok_shape {k : Content} {m : Nat} {w : Nat} {e : Completed} (h : full k m true w = .ok e) :
    ∃ cyc f, k.capacityOk w = true ∧ k.script w = some cyc ∧ cyc ≤ m ∧ k.fee w = some f ∧ e = ⟨cyc, f⟩ := by
  unfold full at h
  cases hc : k.capacityOk w <;> cases hsx : k.script w <;> cases hfx : k.fee w <;> simp_all
  all_goals (split at h <;> simp_all)
  all_goals omega


theorem fullSw_false (k : Content) (m : Nat) (tr : Bool) (w : Nat) : fullSw k m false tr w = full k m tr w := by
  unfold fullSw full; simp

theorem cachedSw_false (k : Content) (m : Nat) (c : VCache) (tr : Bool) (w : Nat) :
    cachedSw k m c false tr w = cached k m c tr w := by
  unfold cachedSw cached; rw [fullSw_false]; simp

theorem txResultsSw_false (k : Content) (m : Nat) (c : VCache) (txs : List (Nat × Bool)) :
    txResultsSw k m c false txs = txResults k m c txs := by
  induction txs with
  | nil => rfl
  | cons t rest ih => obtain ⟨w, tr⟩ := t; simp only [txResultsSw, txResults, cachedSw_false, ih]

/-- with the switch off `BlockTxsVerifier::verify` is the function the earlier theorems are about -/
theorem blockVerifySw_false (k : Content) (m : Nat) (c : VCache) (txs : List (Nat × Bool)) :
    blockVerifySw k m c false txs = blockVerify k m c txs := by
  unfold blockVerifySw blockVerify; rw [txResultsSw_false]; rfl

/-- **A block verified with scripts skipped leaves the verification cache as it was** (06109c6). -/
theorem skip_block_cache_unchanged (k : Content) (m : Nat) (c : VCache) (txs : List (Nat × Bool)) :
    (blockVerifySw k m c true txs).1 = c := by
  unfold blockVerifySw
  cases txResultsSw k m c true txs with
  | error e => rfl
  | ok rs => simp only []; split <;> rfl

/-- every block, with either switch, keeps the cache sound -/
theorem blockSw_sound_preserved {k : Content} {m : Nat} {c : VCache} (hs : Sound k m c) (skip : Bool)
    (txs : List (Nat × Bool)) : Sound k m (blockVerifySw k m c skip txs).1 := by
  cases skip with
  | true => rw [skip_block_cache_unchanged]; exact hs
  | false => rw [blockVerifySw_false]; exact block_sound_preserved hs txs

theorem nstepS_sound {k : Content} {m : Nat} {since : Nat → Nat} {s : NodeS} (hs : Sound k m s.cache) (op : NOpS) :
    Sound k m (nstepS k m since s op).1.cache := by
  cases op with
  | reorg ctx => exact hs
  | block skip ws => exact blockSw_sound_preserved hs skip _
  | submit w => exact sound_preserved hs (.verify w (mature since s.ctx w))
  | probe w => exact hs
  | evict w => exact sound_preserved hs (.evict w)

theorem nstepS_ctx {k : Content} {m : Nat} {since : Nat → Nat} (s : NodeS) (op : NOpS) :
    (nstepS k m since s op).1.ctx = match op with | .reorg c => c | _ => s.ctx := by
  cases op <;> rfl

/-- **Assume-valid blocks never change a later verdict**: over every history that interleaves
blocks verified with scripts skipped with fully verified blocks, pool submissions, dry runs,
reorganisations and evictions, every answer that involves running scripts is the answer of a node
without a verification cache. -/
theorem node_run_sw_eq_cold {k : Content} {m : Nat} {since : Nat → Nat} {s : NodeS} (hs : Sound k m s.cache)
    (ops : List NOpS) : nrunS k m since s ops = nrunSCold k m since s.ctx ops := by
  induction ops generalizing s with
  | nil => rfl
  | cons op ops ih =>
    have hs' := nstepS_sound (since := since) hs op
    have hc := nstepS_ctx (k := k) (m := m) (since := since) s op
    cases op with
    | reorg ctx => simp only [nrunS, nrunSCold]; rw [ih hs']; simp [nstepS]
    | block skip ws =>
      cases skip with
      | true => simp only [nrunS, nrunSCold]; rw [ih hs']; simp [nstepS]
      | false =>
        simp only [nrunS, nrunSCold]; rw [ih hs']
        simp only [nstepS, blockVerifySw_false, block_verdict_eq_uncached hs]
    | submit w =>
      simp only [nrunS, nrunSCold]; rw [ih hs']
      simp only [nstepS, cached_verdict_eq_uncached hs]
    | probe w =>
      simp only [nrunS, nrunSCold]; rw [ih hs']
      simp only [nstepS, cached_verdict_eq_uncached hs]
    | evict w => simp only [nrunS, nrunSCold]; rw [ih hs']; simp [nstepS]

/-- non-vacuity: 3 is committed by an assume-valid block (nothing cached), then fully verified on
another branch (real cycles), then an assume-valid block commits it again -/
example : nrunS exK 1000 (fun _ => 0) ⟨5, []⟩ [.block true [3], .block false [3], .block true [3], .probe 3]
    = [.none, .blk (.ok [⟨300, 3⟩]), .none, .tx (.ok ⟨300, 3⟩)] := by decide

/-- The fill rule matters (F32, the code before 06109c6): an assume-valid block that files its
`cycles = 0` results makes the next full verification of the same transaction skip its scripts. -/
theorem skip_fill_PreF32_poisons_cache :
    nrunSPreF32 exK 1000 (fun _ => 0) ⟨5, []⟩ [.block true [3], .block false [3], .block true [7], .block false [7]]
      ≠ nrunSCold exK 1000 (fun _ => 0) 5 [.block true [3], .block false [3], .block true [7], .block false [7]] := by
  decide

/-- **With scripts skipped the cached path answers exactly like the full path** (the code after
6d79679): verdict, error class, fee and the recorded cycles (0). -/
theorem skip_cached_eq_uncached {k : Content} {m : Nat} {c : VCache} (hs : Sound k m c) (tr : Bool) (w : Nat) :
    cachedSw k m c true tr w = fullSw k m true tr w := by
  unfold cachedSw
  cases hp : c.peek w with
  | none => rfl
  | some e =>
    obtain ⟨cyc, f, h1, h2, h3, h4, h5⟩ := full_ok_shape (hs w e hp)
    subst h5
    cases tr <;> simp [fullSw, h1, h4]

/-- the answer of an assume-valid block itself: per transaction the same verdict, error class and
**fee** as without a cache -/
theorem skip_cached_fee_eq_uncached {k : Content} {m : Nat} {c : VCache} (hs : Sound k m c) (tr : Bool) (w : Nat) :
    (cachedSw k m c true tr w).map (·.fee) = (fullSw k m true tr w).map (·.fee) := by
  rw [skip_cached_eq_uncached hs]

/-- the same statement for the code before 6d79679 (fees agreed, cycles did not) -/
theorem skip_cached_fee_eq_uncached_PreF34 {k : Content} {m : Nat} {c : VCache} (hs : Sound k m c) (tr : Bool) (w : Nat) :
    (cachedSwPreF34 k m c true tr w).map (·.fee) = (fullSw k m true tr w).map (·.fee) := by
  unfold cachedSwPreF34
  cases hp : c.peek w with
  | none => rfl
  | some e =>
    obtain ⟨cyc, f, h1, h2, h3, h4, h5⟩ := full_ok_shape (hs w e hp)
    subst h5
    cases tr <;> simp [fullSw, h1, h4, Except.map]

/-- F34, the code before 6d79679: the recorded **cycles** were the cached ones on a hit and 0 on a
miss, so with scripts skipped `BlockExt.cycles` of a node depended on its verification cache. -/
theorem skip_hit_reports_cached_cycles {k : Content} {m : Nat} {c : VCache} {w : Nat} {e : Completed}
    (hp : c.peek w = some e) : cachedSwPreF34 k m c true true w = .ok e := by
  unfold cachedSwPreF34; simp [hp]

/-- after 6d79679 a hit records zero cycles, whatever the entry says (no hypothesis on the cache) -/
theorem skip_hit_reports_zero_cycles {k : Content} {m : Nat} {c : VCache} {w : Nat} {e : Completed}
    (hp : c.peek w = some e) : cachedSw k m c true true w = .ok ⟨0, e.fee⟩ := by
  unfold cachedSw; simp [hp]

theorem skip_miss_reports_zero_cycles {k : Content} {m : Nat} {c : VCache} {w : Nat} {r : Completed}
    (hp : c.peek w = none) (h : cachedSw k m c true true w = .ok r) : r.cycles = 0 := by
  unfold cachedSw at h; simp only [hp] at h
  unfold fullSw at h
  simp at h
  split at h <;> simp_all
  split at h <;> simp_all
  cases h; rfl

/-- every per-transaction result of the skipped path carries zero cycles — for EVERY cache -/
theorem skip_result_zero_cycles {k : Content} {m : Nat} {c : VCache} {tr : Bool} {w : Nat} {r : Completed}
    (h : cachedSw k m c true tr w = .ok r) : r.cycles = 0 := by
  cases tr with
  | false =>
    unfold cachedSw fullSw at h
    cases hp : c.peek w <;> simp [hp] at h
  | true =>
    cases hp : c.peek w with
    | none => exact skip_miss_reports_zero_cycles hp h
    | some e => rw [skip_hit_reports_zero_cycles hp] at h; cases h; rfl

theorem skip_block_cycles_depend_on_cache_witness :
    Sound exK 1000 [(3, ⟨300, 3⟩)] ∧
    (blockVerifySwPreF34 exK 1000 [(3, ⟨300, 3⟩)] true [(3, true)]).2 = .ok [⟨300, 3⟩] ∧
    (blockVerifySwPreF34 exK 1000 [] true [(3, true)]).2 = .ok [⟨0, 3⟩] ∧
    (blockVerifySw exK 1000 [(3, ⟨300, 3⟩)] true [(3, true)]).2 = .ok [⟨0, 3⟩] ∧
    (blockVerifySw exK 1000 [] true [(3, true)]).2 = .ok [⟨0, 3⟩] := by
  refine ⟨?_, by decide, by decide, by decide, by decide⟩
  intro w e h
  simp only [VCache.peek, List.find?] at h
  by_cases hw : w = 3
  · subst hw; simp at h; subst h; decide
  · have : ((3 : Nat) == w) = false := by simp; omega
    simp [this] at h

theorem txResultsSw_skip_eq_cold {k : Content} {m : Nat} {c : VCache} (hs : Sound k m c) (txs : List (Nat × Bool)) :
    txResultsSw k m c true txs = txResultsSw k m [] true txs := by
  induction txs with
  | nil => rfl
  | cons t rest ih =>
    obtain ⟨w, tr⟩ := t
    simp only [txResultsSw]
    rw [skip_cached_eq_uncached hs, skip_cached_eq_uncached (sound_nil k m), ih]

/-- **The answer of an assume-valid block is independent of the cache** (6d79679): verdict, error
class, fees, the recorded per-transaction cycles and the cycle-sum check are those of a node
without a cache, for every sound cache and every block. -/
theorem skip_block_verdict_eq_uncached {k : Content} {m : Nat} {c : VCache} (hs : Sound k m c)
    (txs : List (Nat × Bool)) : (blockVerifySw k m c true txs).2 = (blockVerifySw k m [] true txs).2 := by
  unfold blockVerifySw
  rw [txResultsSw_skip_eq_cold hs]
  cases txResultsSw k m [] true txs with
  | error e => rfl
  | ok rs => simp only []; split <;> rfl

theorem txResultsSw_skip_zero {k : Content} {m : Nat} {c : VCache} (txs : List (Nat × Bool)) (rs : List (Nat × Completed))
    (h : txResultsSw k m c true txs = .ok rs) : ∀ r ∈ rs, r.2.cycles = 0 := by
  induction txs generalizing rs with
  | nil => simp [txResultsSw] at h; subst h; simp
  | cons t rest ih =>
    obtain ⟨w, tr⟩ := t
    simp only [txResultsSw] at h
    cases hf : cachedSw k m c true tr w with
    | error e => simp [hf] at h
    | ok r =>
      simp only [hf] at h
      cases hr : txResultsSw k m c true rest with
      | error e => simp [hr] at h
      | ok rs' =>
        simp only [hr] at h
        cases h
        intro x hx
        simp only [List.mem_cons] at hx
        rcases hx with hx | hx
        · subst hx; exact skip_result_zero_cycles hf
        · exact ih rs' hr x hx

theorem sum_zero_of_all_zero (l : List Nat) (h : ∀ x ∈ l, x = 0) : l.sum = 0 := by
  induction l with
  | nil => rfl
  | cons x xs ih =>
    simp only [List.sum_cons]
    have := h x (by simp)
    have := ih (fun y hy => h y (by simp [hy]))
    omega

/-- … all recorded cycles are zero and the block is never refused for its cycle sum — for EVERY
cache, sound or not, and every block -/
theorem skip_block_cycles_all_zero (k : Content) (m : Nat) (c : VCache) (txs : List (Nat × Bool)) :
    (blockVerifySw k m c true txs).2 ≠ .error .cycles ∧
    ∀ cs, (blockVerifySw k m c true txs).2 = .ok cs → ∀ x ∈ cs, x.cycles = 0 := by
  unfold blockVerifySw
  cases hr : txResultsSw k m c true txs with
  | error e => simp
  | ok rs =>
    have hz := txResultsSw_skip_zero txs rs hr
    have hsum : (rs.map (·.2.cycles)).sum = 0 := by
      apply sum_zero_of_all_zero
      intro x hx
      simp only [List.mem_map] at hx
      obtain ⟨r, hr', rfl⟩ := hx
      exact hz r hr'
    simp only [hsum]
    have : ¬ (0 > m) := by omega
    simp only [this, if_false]
    refine ⟨by simp, ?_⟩
    intro cs hcs x hx
    cases hcs
    simp only [List.mem_map] at hx
    obtain ⟨r, hr', rfl⟩ := hx
    exact hz r hr'

/-- **Every answer of every history equals the cache-free node's**, those of assume-valid blocks
included (6d79679). -/
theorem node_run_sw_all_eq_cold {k : Content} {m : Nat} {since : Nat → Nat} {s : NodeS} (hs : Sound k m s.cache)
    (ops : List NOpS) : nrunSAll k m since s ops = nrunSAllCold k m since s.ctx ops := by
  induction ops generalizing s with
  | nil => rfl
  | cons op ops ih =>
    have hs' := nstepS_sound (since := since) hs op
    have hc := nstepS_ctx (k := k) (m := m) (since := since) s op
    cases op with
    | reorg ctx => simp only [nrunSAll, nrunSAllCold]; rw [ih hs']; simp [nstepS]
    | block skip ws =>
      cases skip with
      | true =>
        simp only [nrunSAll, nrunSAllCold]; rw [ih hs']
        simp only [nstepS, skip_block_verdict_eq_uncached hs]
      | false =>
        simp only [nrunSAll, nrunSAllCold]; rw [ih hs']
        simp only [nstepS, blockVerifySw_false, block_verdict_eq_uncached hs]
    | submit w =>
      simp only [nrunSAll, nrunSAllCold]; rw [ih hs']
      simp only [nstepS, cached_verdict_eq_uncached hs]
    | probe w =>
      simp only [nrunSAll, nrunSAllCold]; rw [ih hs']
      simp only [nstepS, cached_verdict_eq_uncached hs]
    | evict w => simp only [nrunSAll, nrunSAllCold]; rw [ih hs']; simp [nstepS]

/-- non-vacuity: 3 is fully verified (cached, 300 cycles), then committed by an assume-valid block:
zero cycles recorded although the node holds the entry -/
example : nrunSAll exK 1000 (fun _ => 0) ⟨5, []⟩ [.block false [3], .block true [3], .block true [9, 8], .probe 3]
    = [.blk (.ok [⟨300, 3⟩]), .blk (.ok [⟨0, 3⟩]), .blk (.ok [⟨0, 9⟩, ⟨0, 8⟩]), .tx (.ok ⟨300, 3⟩)] := by decide

/-- a node without a cache never refuses an assume-valid block for its cycle sum -/
theorem skip_cold_results_zero_cycles {k : Content} {m : Nat} (txs : List (Nat × Bool)) (rs : List (Nat × Completed))
    (h : txResultsSw k m [] true txs = .ok rs) : ∀ r ∈ rs, r.2.cycles = 0 := by
  induction txs generalizing rs with
  | nil => simp [txResultsSw] at h; subst h; simp
  | cons t rest ih =>
    obtain ⟨w, tr⟩ := t
    simp only [txResultsSw] at h
    cases hf : cachedSw k m [] true tr w with
    | error e => simp [hf] at h
    | ok r =>
      simp only [hf] at h
      cases hr : txResultsSw k m [] true rest with
      | error e => simp [hr] at h
      | ok rs' =>
        simp only [hr] at h
        cases h
        intro x hx
        simp only [List.mem_cons] at hx
        rcases hx with hx | hx
        · subst hx
          cases tr with
          | false => unfold cachedSw fullSw at hf; simp [VCache.peek] at hf
          | true => exact skip_miss_reports_zero_cycles (c := []) (by simp [VCache.peek]) hf
        · exact ih rs' hr x hx

/-- The cycle sum is over **all** transactions of the block, hits included
(`block_verdict_eq_uncached` proves it for the code as written). A sum over the transactions whose
scripts ran in this call lets a warm cache lift `max_block_cycles`: 9 and 8 were verified one by one
(900 + 800 > 1000). -/
theorem miss_only_cycle_sum_breaks_block_verdict :
    Sound exK 1000 [(9, ⟨900, 9⟩), (8, ⟨800, 8⟩)] ∧
    (blockVerifyMissSum exK 1000 [(9, ⟨900, 9⟩), (8, ⟨800, 8⟩)] [(9, true), (8, true)]).2 = .ok [⟨900, 9⟩, ⟨800, 8⟩] ∧
    (blockVerify exK 1000 [] [(9, true), (8, true)]).2 = .error .cycles ∧
    (blockVerify exK 1000 [(9, ⟨900, 9⟩), (8, ⟨800, 8⟩)] [(9, true), (8, true)]).2 = .error .cycles := by
  refine ⟨?_, by decide, by decide, by decide⟩
  intro w e h
  simp only [VCache.peek, List.find?] at h
  by_cases hw : w = 9
  · subst hw; simp at h; subst h; decide
  · have h9 : ((9 : Nat) == w) = false := by simp; omega
    simp [h9] at h
    by_cases hw8 : w = 8
    · subst hw8; simp at h; subst h; decide
    · have h8 : ((8 : Nat) == w) = false := by simp; omega
      simp [h8] at h

/-- the boundary of the sum check: a block whose cycles add up to exactly the limit passes, one
cycle more does not — with and without the cache (instances of `block_verdict_eq_uncached`) -/
example : (blockVerify exK 1700 [(9, ⟨900, 9⟩)] [(9, true), (8, true)]).2 = .ok [⟨900, 9⟩, ⟨800, 8⟩] ∧
    (blockVerify exK 1699 [(9, ⟨900, 9⟩)] [(9, true), (8, true)]).2 = .error .cycles := by decide

/-! ## round 6: declared cycles (`submit_remote_tx`) -/

theorem cached_hit {k : Content} {d : Nat} {c : VCache} {w : Nat} {e : Completed} (hp : c.peek w = some e) (tr : Bool) :
    cached k d c tr w = if !tr then .error .timeRelative else .ok e := by
  unfold cached; rw [hp]

theorem cached_nil (k : Content) (d : Nat) (tr : Bool) (w : Nat) : cached k d [] tr w = full k d tr w := by
  unfold cached; rfl

theorem full_of_shape {k : Content} {w cyc f : Nat} (h1 : k.capacityOk w = true) (h2 : k.script w = some cyc)
    (h4 : k.fee w = some f) (d : Nat) :
    full k d true w = if cyc > d then .error .script else .ok ⟨cyc, f⟩ := by
  unfold full; simp [h1, h2, h4]

/-- **A relayed transaction is accepted with the cache iff it is accepted without**, with the same
cycles and fee, whatever cycles the peer declared and whatever limit the entry was produced under. -/
theorem declared_accept_eq_uncached {k : Content} {m : Nat} {c : VCache} (hs : Sound k m c)
    (declared : Nat) (tr : Bool) (w : Nat) (v : Completed) :
    processDeclared k c declared tr w = .ok v ↔ processDeclared k [] declared tr w = .ok v := by
  unfold processDeclared
  rw [cached_nil]
  cases hp : c.peek w with
  | none => unfold cached; rw [hp]
  | some e =>
    obtain ⟨cyc, f, h1, h2, h3, h4, h5⟩ := full_ok_shape (hs w e hp)
    subst h5
    rw [cached_hit hp]
    cases tr with
    | false => simp [full]
    | true =>
      rw [full_of_shape h1 h2 h4]
      by_cases hd : declared = cyc
      · subst hd; simp
      · by_cases hlt : cyc > declared
        · simp [hd, hlt]
        · simp [hd, hlt]

/-- … and every rejection has the same reason, except one: the peer declared FEWER cycles than the
transaction needs and the node holds an entry for it — the node with the entry answers
`DeclaredWrongCycles(declared, real)` (relay stays allowed), the node without runs the scripts under
the declared limit and answers `ExceededMaximumCycles` (a script error). Both refuse. -/
theorem declared_reject_reason {k : Content} {m : Nat} {c : VCache} (hs : Sound k m c)
    (declared : Nat) (tr : Bool) (w : Nat) :
    processDeclared k c declared tr w = processDeclared k [] declared tr w ∨
    (∃ e, c.peek w = some e ∧ tr = true ∧ declared < e.cycles ∧
      processDeclared k c declared tr w = .error (.declaredWrongCycles declared e.cycles) ∧
      processDeclared k [] declared tr w = .error (.verification .script)) := by
  cases hp : c.peek w with
  | none => left; unfold processDeclared; rw [cached_nil]; unfold cached; rw [hp]
  | some e =>
    obtain ⟨cyc, f, h1, h2, h3, h4, h5⟩ := full_ok_shape (hs w e hp)
    subst h5
    cases tr with
    | false => left; unfold processDeclared; rw [cached_nil, cached_hit hp]; simp [full]
    | true =>
      by_cases hlt : declared < cyc
      · right
        refine ⟨⟨cyc, f⟩, rfl, rfl, hlt, ?_, ?_⟩
        · unfold processDeclared; rw [cached_hit hp]
          have : declared ≠ cyc := by omega
          simp [this]
        · unfold processDeclared; rw [cached_nil, full_of_shape h1 h2 h4]
          have : cyc > declared := by omega
          simp [this]
      · left
        unfold processDeclared
        rw [cached_nil, cached_hit hp, full_of_shape h1 h2 h4]
        have : ¬ cyc > declared := by omega
        simp [this]

/-- the exception is real: 3 needs 300 cycles, the peer declares 200 -/
theorem declared_below_real_reason_depends_on_cache :
    processDeclared exK [(3, ⟨300, 3⟩)] 200 true 3 = .error (.declaredWrongCycles 200 300) ∧
    processDeclared exK [] 200 true 3 = .error (.verification .script) ∧
    processDeclared exK [(3, ⟨300, 3⟩)] 300 true 3 = .ok ⟨300, 3⟩ ∧
    processDeclared exK [] 300 true 3 = .ok ⟨300, 3⟩ ∧
    processDeclared exK [(3, ⟨300, 3⟩)] 400 true 3 = .error (.declaredWrongCycles 400 300) ∧
    processDeclared exK [] 400 true 3 = .error (.declaredWrongCycles 400 300) ∧
    processDeclared exK [(3, ⟨300, 3⟩)] 300 false 3 = .error (.verification .timeRelative) := by decide

end CkbVerif.C14
