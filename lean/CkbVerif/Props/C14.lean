import CkbVerif.Model.Cache

/-!
# C14 — caches never change a verdict or an answer

Model: `Model/Cache.lean`.

* `cached_verdict_eq_uncached` — if every entry of the verification cache was produced by a full
  verification of the transaction with that witness hash (`Sound`), the cached path returns exactly
  what the full path returns in the *current* context: same verdict, same error class, same
  cycles and fee — because the only context-dependent check (since / maturity) is re-evaluated.
* `sound_preserved`, `run_with_cache_eq_run_without` — `Sound` is an invariant of every history of
  verifications and evictions (any LRU policy), so a node with a warm cache answers every
  verification of every history exactly like a node without a cache.
* `wrong_key_witness`, `limit_mismatch_witness` — the hypotheses matter: an entry filed under
  another transaction's hash, or produced under a larger cycle limit than the one in force, does
  change a verdict.
* `store_cache_transparent`, `guarded_read_transparent`, `coherent_preserved`,
  `guarded_run_eq_cold` — read-through caches over columns whose value is a function of the key
  (content-addressed: headers, uncles, proposals, extension by block hash; cell data by out-point):
  a present key reads the same through the cache as from the column, after any sequence of
  writes / deletes / reads / evictions; and a read that first consults an authoritative uncached
  presence bit (how the node uses cell data and headers of deleted blocks) equals the uncached
  read also for absent keys.
* `bare_read_stale_witness` (F6), `negative_cache_stale_witness` — the excluded points: a bare
  read of a deleted key answers from the cache; a cache that also stores "absent" answers keeps
  answering "absent" after the key is written.
-/
namespace CkbVerif.C14
open CkbVerif.Cache

/-! ## verification cache -/

/-- every cached entry is what a full verification of that very transaction returns (in a context
where its time-relative checks pass) -/
def Sound (k : Content) (maxCycles : Nat) (c : VCache) : Prop :=
  ∀ w e, c.peek w = some e → full k maxCycles true w = .ok e

theorem full_of_ok_true {k : Content} {m : Nat} {w : Nat} {e : Completed} (h : full k m true w = .ok e)
    (tr : Bool) : full k m tr w = if !tr then .error .timeRelative else .ok e := by
  unfold full at h ⊢
  cases tr <;> simp_all

/-- **Cached verdict = uncached verdict**, including error class, cycles and fee. -/
theorem cached_verdict_eq_uncached {k : Content} {m : Nat} {c : VCache} (hs : Sound k m c)
    (tr : Bool) (w : Nat) : cached k m c tr w = full k m tr w := by
  unfold cached
  cases hp : c.peek w with
  | none => rfl
  | some e => simp only []; rw [full_of_ok_true (hs w e hp) tr]

theorem peek_filter (c : VCache) (w w' : Nat) :
    VCache.peek (c.filter (fun x => x.1 != w)) w' = if w' = w then none else c.peek w' := by
  unfold VCache.peek
  induction c with
  | nil => simp
  | cons x xs ih => grind

theorem peek_cons_filter (c : VCache) (w w' : Nat) (e : Completed) :
    VCache.peek ((w, e) :: c.filter (fun x => x.1 != w)) w' =
      if w' = w then some e else c.peek w' := by
  have h := peek_filter c w w'
  unfold VCache.peek at h ⊢
  grind

/-- `Sound` is preserved by every verification (the result is cached) and every eviction. -/
theorem sound_preserved {k : Content} {m : Nat} {c : VCache} (hs : Sound k m c) (op : VOp) :
    Sound k m (vstep k m c op).1 := by
  cases op with
  | verify w tr =>
    simp only [vstep]
    cases hr : cached k m c tr w with
    | error e => simpa using hs
    | ok e =>
      simp only []
      intro w' e' hp
      rw [peek_cons_filter] at hp
      by_cases h : w' = w
      · subst h
        simp at hp; subst hp
        rw [cached_verdict_eq_uncached hs] at hr
        unfold full at hr ⊢
        cases tr <;> simp_all
      · simp [h] at hp; exact hs w' e' hp
  | evict w =>
    simp only [vstep]
    intro w' e' hp
    rw [peek_filter] at hp
    by_cases h : w' = w
    · simp [h] at hp
    · simp [h] at hp; exact hs w' e' hp

/-- **A node with a (sound) cache answers every history like a node without one**, for every
history of verifications in arbitrary contexts and evictions under any policy. -/
theorem run_with_cache_eq_run_without {k : Content} {m : Nat} {c : VCache} (hs : Sound k m c)
    (ops : List VOp) : vrun k m c ops = vrunCold k m ops := by
  induction ops generalizing c with
  | nil => rfl
  | cons op ops ih =>
    have hs' := sound_preserved hs op
    cases op with
    | verify w tr =>
      simp only [vrun, vrunCold]
      rw [ih hs']
      simp [vstep, cached_verdict_eq_uncached hs]
      cases full k m tr w <;> rfl
    | evict w =>
      simp only [vrun, vrunCold]
      rw [ih hs']
      simp [vstep]

/-- the empty cache a node starts with is sound -/
theorem sound_nil (k : Content) (m : Nat) : Sound k m [] := by
  intro w e h; simp [VCache.peek] at h

theorem warm_eq_cold_from_start (k : Content) (m : Nat) (ops : List VOp) :
    vrun k m [] ops = vrunCold k m ops :=
  run_with_cache_eq_run_without (sound_nil k m) ops

/-- non-vacuity: a history in which the same transaction is verified in a passing context, then in
a context where it is immature (refused although cached), evicted, and verified again -/
def exK : Content := { capacityOk := fun w => w != 13, script := fun w => if w == 7 then none else some (100 * w), fee := fun w => some w }
example : vrun exK 1000 [] [.verify 3 true, .verify 3 false, .verify 3 true, .evict 3, .verify 3 true, .verify 7 true, .verify 13 true]
    = [some (.ok ⟨300, 3⟩), some (.error .timeRelative), some (.ok ⟨300, 3⟩), none, some (.ok ⟨300, 3⟩),
       some (.error .script), some (.error .capacity)] := by decide

/-- The key matters: an entry filed under the hash of a *different* transaction (e.g. a key that
ignores witnesses: 5 and 7 differ only in their witnesses and 7's script fails) flips a verdict. -/
theorem wrong_key_witness :
    cached exK 1000 [(7, ⟨500, 5⟩)] true 7 = .ok ⟨500, 5⟩ ∧ full exK 1000 true 7 = .error .script := by decide

/-- The limit matters: an entry produced under a larger cycle limit (a block's) is reused under a
smaller one (the pool's `max_tx_verify_cycles`) although a full verification would refuse it. -/
theorem limit_mismatch_witness :
    full exK 1000 true 9 = .ok ⟨900, 9⟩ ∧
    cached exK 500 [(9, ⟨900, 9⟩)] true 9 = .ok ⟨900, 9⟩ ∧ full exK 500 true 9 = .error .script := by decide

/-! ## store read caches -/

/-- the column and the cache hold, for a key, nothing but the key's content (content-addressed
data: the value is a function of the key) -/
structure Coherent {ν : Type} (content : Nat → ν) (s : Cached ν) : Prop where
  col : ∀ k v, s.col k = some v → v = content k
  cache : ∀ k v, (k, v) ∈ s.cache → v = content k

/-- writes store the key's content (an out-point's data, a hash's header …) -/
def WriteOk {ν : Type} (content : Nat → ν) : SOp ν → Prop
  | .write k v => v = content k
  | _ => True

theorem peek_content {ν : Type} {content : Nat → ν} {s : Cached ν} (h : Coherent content s) {k : Nat} {v : ν}
    (hp : s.peek k = some v) : v = content k := by
  unfold Cached.peek at hp
  cases hf : s.cache.find? (fun e => e.1 == k) with
  | none => simp [hf] at hp
  | some e =>
    simp [hf] at hp
    have hm := List.mem_of_find?_eq_some hf
    have hk := List.find?_some hf
    have : e.1 = k := by simpa using hk
    obtain ⟨a, b⟩ := e
    simp at this hp; subst this; subst hp
    exact h.cache a b hm

/-- **Present keys read the same through the cache as from the column.** -/
theorem store_cache_transparent {ν : Type} {content : Nat → ν} {s : Cached ν} (h : Coherent content s)
    {k : Nat} (hpres : s.col k ≠ none) : (s.read k).2 = s.col k := by
  unfold Cached.read
  cases hp : s.peek k with
  | some v =>
    cases hc : s.col k with
    | none => exact absurd hc hpres
    | some v' => simp [peek_content h hp, h.col k v' hc]
  | none =>
    cases hc : s.col k <;> simp

/-- **The node's access pattern**: a read guarded by an authoritative uncached presence bit equals
the uncached read, for present and absent keys alike. -/
theorem guarded_read_transparent {ν : Type} {content : Nat → ν} {s : Cached ν} (h : Coherent content s)
    (k : Nat) : guardedRead (s.col k).isSome s k = s.col k := by
  unfold guardedRead
  cases hc : s.col k with
  | none => simp
  | some v =>
    simp only [Option.isSome_some, if_true]
    rw [store_cache_transparent h (by simp [hc]), hc]

/-- coherence survives every write of content, delete, read (fill) and eviction -/
theorem coherent_preserved {ν : Type} {content : Nat → ν} {s : Cached ν} (h : Coherent content s)
    (op : SOp ν) (hw : WriteOk content op) : Coherent content (sstep s op).1 := by
  cases op with
  | write k v =>
    refine ⟨?_, h.cache⟩
    intro k' v' hc
    simp only [sstep] at hc
    by_cases hk : k' = k
    · simp [hk] at hc; subst hc; subst hk; exact hw
    · simp [hk] at hc; exact h.col k' v' hc
  | delete k =>
    refine ⟨?_, h.cache⟩
    intro k' v' hc
    simp only [sstep] at hc
    by_cases hk : k' = k
    · simp [hk] at hc
    · simp [hk] at hc; exact h.col k' v' hc
  | read k =>
    simp only [sstep, Cached.read]
    cases hp : s.peek k with
    | some v => exact h
    | none =>
      cases hc : s.col k with
      | none => exact h
      | some v =>
        refine ⟨h.col, ?_⟩
        intro k' v' hm
        simp only [List.mem_cons] at hm
        rcases hm with hm | hm
        · cases hm; exact h.col k v hc
        · exact h.cache k' v' hm
  | evict k =>
    refine ⟨h.col, ?_⟩
    intro k' v' hm
    simp only [sstep] at hm
    exact h.cache k' v' (List.mem_filter.mp hm).1

/-- answers of guarded reads along a history, with the cache -/
def runGuarded {ν : Type} : Cached ν → List (SOp ν) → List (Option (Option ν))
  | _, [] => []
  | s, .read k :: ops => some (guardedRead (s.col k).isSome s k) :: runGuarded (sstep s (.read k)).1 ops
  | s, op :: ops => none :: runGuarded (sstep s op).1 ops

/-- … and of a store without caches -/
def runCold {ν : Type} : (Nat → Option ν) → List (SOp ν) → List (Option (Option ν))
  | _, [] => []
  | col, .read k :: ops => some (col k) :: runCold col ops
  | col, .write k v :: ops => none :: runCold (fun x => if x = k then some v else col x) ops
  | col, .delete k :: ops => none :: runCold (fun x => if x = k then none else col x) ops
  | col, .evict _ :: ops => none :: runCold col ops

theorem read_col {ν : Type} (s : Cached ν) (k : Nat) : (sstep s (.read k)).1.col = s.col := by
  simp only [sstep, Cached.read]
  cases s.peek k <;> cases s.col k <;> rfl

/-- **Any history** of content writes, deletes, guarded reads and evictions is answered by the
cached store exactly as by the cache-free store. -/
theorem guarded_run_eq_cold {ν : Type} {content : Nat → ν} {s : Cached ν} (h : Coherent content s)
    (ops : List (SOp ν)) (hw : ∀ op ∈ ops, WriteOk content op) :
    runGuarded s ops = runCold s.col ops := by
  induction ops generalizing s with
  | nil => rfl
  | cons op ops ih =>
    have h' := coherent_preserved h op (hw op (by simp))
    have hw' : ∀ o ∈ ops, WriteOk content o := fun o ho => hw o (by simp [ho])
    cases op with
    | read k =>
      simp only [runGuarded, runCold]
      rw [guarded_read_transparent h, ih h' hw', read_col]
    | write k v => simp only [runGuarded, runCold]; rw [ih h' hw']; rfl
    | delete k => simp only [runGuarded, runCold]; rw [ih h' hw']; rfl
    | evict k => simp only [runGuarded, runCold]; rw [ih h' hw']; rfl

/-- the empty store is coherent -/
theorem coherent_empty {ν : Type} (content : Nat → ν) : Coherent content ⟨fun _ => none, []⟩ :=
  ⟨fun k v h => by simp at h, fun k v h => by simp at h⟩

example : runGuarded (⟨fun _ => none, []⟩ : Cached Nat) [.write 1 10, .read 1, .delete 1, .read 1, .write 1 10, .read 1, .evict 1, .read 2]
    = [none, some (some 10), none, some none, none, some (some 10), none, some none] := by decide

/-- **F6**: the bare accessor of a deleted key (a spent cell's data, the header of a deleted
invalid block) answers from the cache although the column is empty. -/
theorem bare_read_stale_witness :
    let s0 : Cached Nat := ⟨fun _ => none, []⟩
    let s1 := (sstep s0 (.write 1 10)).1
    let s2 := (sstep s1 (.read 1)).1
    let s3 := (sstep s2 (.delete 1)).1
    (s3.read 1).2 = some 10 ∧ s3.col 1 = none ∧ guardedRead (s3.col 1).isSome s3 1 = none := by decide

/-- a cache that also stores "absent" (`get_block_extension`, `get_block_txs_hashes`) keeps saying
"absent" after the key is written: such a column must not be read before it is written -/
theorem negative_cache_stale_witness :
    let col0 : Nat → Option Nat := fun _ => none
    let r0 := readNeg col0 [] 1
    let col1 : Nat → Option Nat := fun x => if x = 1 then some 10 else none
    (readNeg col1 r0.1 1).2 = none ∧ col1 1 = some 10 := by decide

end CkbVerif.C14
