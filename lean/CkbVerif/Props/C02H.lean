/-
C02, part 4 — two invariants over whole histories.

(1) The chain-root MMR column: for EVERY history of the MMR operations the chain service performs
(`ChainDB::init`; for a new best block `mmrAttach` over the attached list, whatever was detached;
nothing for a truncation, a side block or a refused block — exactly what `Store.processX` /
`Store.truncateX` do with the column) the column holds, below the tip's `mmr_size`, the MMR of the
CURRENT main chain and equals there the column a replay of that chain from nothing writes; no push
ever fails.  `processX` is shown to perform these operations on `find_fork`'s lists.

(2) "`ext.verified != None` is ancestor-closed" as a pipeline invariant: established by `init`,
preserved by every write the chain service makes to the ext column (reconcile over a parent-linked
attached list whose fork point is an ancestor of the verified tip; a side block's unverified ext; a
refused block; a truncation), and it discharges the `hclosed` hypothesis of `dirty_exts_aligned` /
`reconcile_zip_eq_reconcile`.  The step that WOULD break it is attaching a block whose parent is
not verified (decide witness).
-/
import CkbVerif.Props.C02V
import CkbVerif.Props.C02M
import CkbVerif.Lemmas.StoreClosed
namespace CkbVerif.C02
open CkbVerif.Store CkbVerif.MMR

/-! ### (1) the MMR column over whole histories -/

/-- the histories of the MMR column: `MmrHist g rest st` = "after some history the main chain is
`g :: rest` and the column is `st`".  A reorganisation / extension detaches any suffix `det` and
attaches any non-empty list `att` whose first block is a child of the fork point (number
`|g :: pre|`); the column is what `mmrAttach` returns — `step_best` has NO premise that the pushes
succeed: that is part of the theorem. -/
inductive MmrHist (g : Block) : List Block → MMR.Store Digest → Prop
  | init : MmrHist g [] (initX g).mmr
  | best {pre det : List Block} {st : MMR.Store Digest} (a : Block) (as : List Block) :
      MmrHist g (pre ++ det) st → a.number = (g :: pre).length →
      MmrHist g (pre ++ a :: as) ((mmrAttach st (a :: as)).getD st)
  | truncate {pre det : List Block} {st : MMR.Store Digest} :
      MmrHist g (pre ++ det) st → MmrHist g pre st

/-- **The MMR column invariant over every history.**  Whatever sequence of extensions,
reorganisations of any depth (to longer, equal or shorter chains) and truncations produced the main
chain `g :: rest` and the column `st`: the column holds every node of the MMR of `g :: rest` below
`leaf_index_to_mmr_size(|rest|)` (stale rows above it are unconstrained and never read), and it
equals there the column written by a replay of `g :: rest` from nothing. -/
theorem mmr_history_invariant (g : Block) (rest : List Block) (st : MMR.Store Digest)
    (h : MmrHist g rest st) :
    ColOk dmerge st (leaves (g :: rest)) ∧
    ∃ m, pushAll dmerge ⟨0, MMR.Store.empty⟩ (leaves (g :: rest)) = some m ∧
      ∀ q, q < leafIndexToMmrSize ((g :: rest).length - 1) → st q = m.store q := by
  have key : ColOk dmerge st (leaves (g :: rest)) := by
    induction h with
    | init => exact mmr_init_holds_genesis g
    | best a as _ hnum ih =>
      obtain ⟨st', hst', hc, -⟩ := mmr_attach_eq_replay _ g _ _ (a :: as) a as rfl hnum ih
      rw [hst']
      exact hc
    | @truncate pre det st0 _ ih =>
      have hsplit : leaves (g :: (pre ++ det)) = leaves (g :: pre) ++ leaves det := by simp [leaves]
      rw [hsplit] at ih
      exact ColOk_prefix dmerge _ _ (by simp [leaves]) ih
  refine ⟨key, ?_⟩
  have := mmr_column_is_replay_below_size dmerge st MMR.Store.empty (leaves (g :: rest)) (by simp [leaves]) key
  simpa [leaves] using this

/-- in every history every `reconcile_main_chain` finds a consistent MMR: no push fails -/
theorem mmr_history_never_inconsistent (g : Block) (pre det : List Block) (st : MMR.Store Digest)
    (a : Block) (as : List Block) (h : MmrHist g (pre ++ det) st) (hnum : a.number = (g :: pre).length) :
    ∃ st', mmrAttach st (a :: as) = some st' := by
  obtain ⟨st', hst', -, -⟩ := mmr_attach_eq_replay st g pre det (a :: as) a as rfl hnum
    (mmr_history_invariant g _ st h).1
  exact ⟨st', hst'⟩

/-- what `Store.processX` does with the column: nothing when the step is refused or the block is not
a new best block; `mmrAttach` over the attached list of `bestFork` (the lists `Store.process`
commits through) otherwise -/
theorem processX_column (bad : Nat → Bool) (x : XView) (b : Block) :
    ((processX bad x b).2 = false → (processX bad x b).1.mmr = x.mmr) ∧
    (bestFork x.v b = none → (processX bad x b).1.mmr = x.mmr) ∧
    (∀ det att, (processX bad x b).2 = true → bestFork x.v b = some (det, att) →
      mmrAttach x.mmr att = some (processX bad x b).1.mmr) ∧
    (truncateX x 0).mmr = x.mmr := by
  unfold processX
  cases hp : processV bad x.v b with
  | mk v' ok =>
    cases ok with
    | false => simp [truncateX]
    | true =>
      cases hf : bestFork x.v b with
      | none => simp [truncateX]
      | some p =>
        obtain ⟨det, att⟩ := p
        cases hm : mmrAttach x.mmr att with
        | none => simp only [hm]; simp [truncateX]
        | some st => simp only [hm]; simp [truncateX, hm]

/-- `bestFork` (the lists `processX` pushes to the MMR) are `find_fork`'s lists — same hypotheses
and same proof as `process_runs_find_fork` -/
theorem bestFork_runs_find_fork (v : View) (b : Block) (body : Nat → Block) (s : Fork.Store) (cur : Nat)
    (hpar : ∀ y, s.parent y = (body y).parent) (hnum : ∀ y, s.number y = (body y).number)
    (hb : body b.id = b) (wf : Fork.WF s cur b.id)
    (hidx : v.m.index = Fork.mainIndex s cur) (htip : v.m.tip = some (s.mainAt cur))
    (hanc : ∀ k, 1 ≤ k → k ≤ s.number b.id → v.r.bodies (Fork.anc s b.id k) = some (body (Fork.anc s b.id k)))
    (hmain : ∀ n, n ≤ cur → v.r.bodies (s.mainAt n) = some (body (s.mainAt n)))
    (hbest : (freshExt (insertBlock v.r b) b).td > tdOf (insertBlock v.r b) (v.m.tip.getD 0)) :
    bestFork v b = some ((Fork.findFork s cur b.id).detached.map body, (Fork.findFork s cur b.id).attached.map body) := by
  obtain ⟨c, d, sp⟩ := Fork.findFork_spec s cur b.id wf
  have hN : s.number b.id = b.number := by rw [hnum, hb]
  have hbod : ∀ y, v.r.bodies y = some (body y) → (recsBest v.r b).bodies y = some (body y) := by
    intro y hy
    rw [recsBest_bodies]
    by_cases hyb : y = b.id
    · subst hyb; simp [Store.upd, hb]
    · simp [Store.upd, hyb, hy]
  have hanc' : ∀ k, 1 ≤ k → k ≤ s.number b.id →
      (recsBest v.r b).bodies (Fork.anc s b.id k) = some (body (Fork.anc s b.id k)) :=
    fun k h1 h2 => hbod _ (hanc k h1 h2)
  have hmain' : ∀ n, n ≤ cur → (recsBest v.r b).bodies (s.mainAt n) = some (body (s.mainAt n)) :=
    fun n h => hbod _ (hmain n h)
  have hK1 : 1 ≤ s.number b.id - c := by have := sp.c_lt; omega
  have hwalk := walkBack_spec v.m (recsBest v.r b) body s cur b.id c hpar hnum wf.branch_num hidx hanc'
    sp.c_lt sp.c_le_cur sp.common sp.latest (s.number b.id - c - 1) 1 (Nat.le_refl _) (by omega)
    (b.number + 1) [] (by omega)
  have hp1 : Fork.anc s b.id 1 = b.parent := by show s.parent b.id = _; rw [hpar, hb]
  rw [hp1] at hwalk
  have htipn : numberOf (recsBest v.r b) (v.m.tip.getD 0) = cur := by
    rw [htip]
    simp only [Option.getD_some, numberOf, hmain' cur (Nat.le_refl _)]
    rw [← hnum]; exact wf.main_num cur (Nat.le_refl _)
  have hdet := mainBlocks_spec v.m (recsBest v.r b) body s cur hidx hmain' c (cur - c) (by have := sp.c_le_cur; omega)
  have hstep : bestFork v b = some
      (mainBlocks v.m (recsBest v.r b) c (cur - c),
       ((Fork.ancList s b.id (s.number b.id - c)).take (s.number b.id - c - 1)).map body ++ [] ++ [b]) := by
    unfold bestFork
    simp only [hbest, if_true]
    have hw : walkBack v.m (recsBest v.r b) (b.number + 1) b.parent [] = _ := hwalk
    simp only [recsBest] at hw htipn ⊢
    rw [hw]
    simp only [Option.getD_some, htipn]
  rw [hstep, hdet, sp.detached, sp.attached]
  congr 2
  obtain ⟨K, hK⟩ : ∃ K, s.number b.id - c = K + 1 := ⟨s.number b.id - c - 1, by omega⟩
  rw [hK]
  have : K + 1 - 1 = K := by omega
  rw [this, List.append_nil]
  have hlen : K < (Fork.ancList s b.id (K + 1)).length := by rw [Fork.ancList_length]; omega
  have h1 : Fork.ancList s b.id (K + 1) = (Fork.ancList s b.id (K + 1)).take K ++ [Fork.anc s b.id 0] := by
    have h2 := List.take_succ_eq_append_getElem hlen
    rw [ancList_getElem s b.id (K + 1) K hlen] at h2
    have e : K + 1 - 1 - K = 0 := by omega
    rw [e] at h2
    rw [← h2, List.take_of_length_le (by rw [Fork.ancList_length]; omega)]
  conv => rhs; rw [h1]
  simp [Fork.anc, hb]

/-- **The MMR column through the model's whole chain-service step.**  `Store.processX` on the replay
of any well-formed main chain `g :: rest` whose column holds that chain's MMR, for any stored new
block `b` of any branch with more accumulated work than the tip (the hypotheses of
`process_reorg_eq_replay`): if the step answers `Ok`, the column holds the MMR of the NEW main chain
— the parent path from genesis to `b` — so by `mmr_column_is_replay_below_size` it is, below the new
tip's size, the replay's column.  The attached list is computed by the step (`find_fork`), not
given.  Together with `mmr_history_invariant` (refused steps, side blocks and truncations do not
touch the column: `processX_column`) this is the invariant over whole `processX` / `truncateX`
histories. -/
theorem processX_mmr_eq_replay (bad : Nat → Bool) (body : Nat → Block) (g : Block) (rest : List Block)
    (b : Block) (r : Recs) (ver : Nat → Bool) (st : MMR.Store Digest)
    (htree : TreeWF body g rest b) (hwf : WellFormed g rest)
    (hext : RecsLe (replay (g :: rest)).r r)
    (hanc : ∀ k, 1 ≤ k → k ≤ b.number →
      r.bodies (Fork.anc (forkStore body (g :: rest) ver) b.id k) =
        some (body (Fork.anc (forkStore body (g :: rest) ver) b.id k)))
    (hbest : (freshExt (insertBlock r b) b).td > tdOf (insertBlock r b) ((replay (g :: rest)).m.tip.getD 0))
    (hcol : ColOk dmerge st (leaves (g :: rest)))
    (hok : (processX bad ⟨⟨(replay (g :: rest)).m, r⟩, st⟩ b).2 = true) :
    ColOk dmerge (processX bad ⟨⟨(replay (g :: rest)).m, r⟩, st⟩ b).1.mmr
      (leaves (pathTo (forkStore body (g :: rest) ver) body b.id)) := by
  have wf := treeWF_wf htree ver
  have hN : (forkStore body (g :: rest) ver).number b.id = b.number := by
    show (body b.id).number = _; rw [htree.tip_stored]
  have hnumS : ∀ y, (forkStore body (g :: rest) ver).number y = (body y).number := fun _ => rfl
  have hmain : ∀ n, n ≤ rest.length →
      r.bodies ((forkStore body (g :: rest) ver).mainAt n) = some (body ((forkStore body (g :: rest) ver).mainAt n)) := by
    intro n hn
    have hlt : n < (g :: rest).length := by simp; omega
    have hget : (g :: rest).getD n default = (g :: rest)[n] := by
      simp [List.getD, List.getElem?_eq_getElem hlt]
    show r.bodies ((g :: rest).getD n default).id = some (body ((g :: rest).getD n default).id)
    rw [hget, htree.stored _ (List.getElem_mem hlt)]
    exact hext.bodies _ _ (replay_bodies g rest hwf.2 _ (List.getElem_mem hlt))
  have hbf := bestFork_runs_find_fork ⟨(replay (g :: rest)).m, r⟩ b body
    (forkStore body (g :: rest) ver) rest.length (fun _ => rfl) (fun _ => rfl) htree.tip_stored wf
    (replay_index body g rest ver htree.chain_num) (replay_tip body g rest ver)
    (fun k h1 h2 => hanc k h1 (by rw [hN] at h2; exact h2)) hmain hbest
  obtain ⟨-, -, h3, -⟩ := processX_column bad ⟨⟨(replay (g :: rest)).m, r⟩, st⟩ b
  have hm := h3 _ _ hok hbf
  have hmainB : ((List.range' 0 (rest.length + 1)).map (forkStore body (g :: rest) ver).mainAt).map body = g :: rest :=
    map_body_main (chain := g :: rest) ver htree.stored
  generalize (processX bad ⟨⟨(replay (g :: rest)).m, r⟩, st⟩ b).1.mmr = stNew at hm ⊢
  generalize hs : forkStore body (g :: rest) ver = s at *
  obtain ⟨c, d, sp⟩ := Fork.findFork_spec s rest.length b.id wf
  have hcc := sp.c_le_cur
  have hcN := sp.c_lt
  have hbelow := Fork.common_below s rest.length b.id wf c hcc (by omega) sp.common
  have hK : s.number b.id - c ≤ s.number b.id := by omega
  have hlo : s.number b.id + 1 - (s.number b.id - c) = c + 1 := by omega
  generalize hfk : Fork.findFork s rest.length b.id = fk at *
  -- old and new main chain as lists of ids, with the common prefix explicit
  have hdetL : s.mainAt 0 :: (Fork.mainSeg s 1 c ++ fk.detached) = (List.range' 0 (rest.length + 1)).map s.mainAt := by
    rw [sp.detached]
    have h1 : s.mainAt 0 :: Fork.mainSeg s 1 c = Fork.mainSeg s 0 (c + 1) := (Fork.mainSeg_succ s 0 c).symm
    rw [← List.cons_append, h1]
    have h2 := Fork.mainSeg_append s 0 (c + 1) (rest.length - c)
    have e1 : 0 + (c + 1) = c + 1 := by omega
    have e2 : c + 1 + (rest.length - c) = rest.length + 1 := by omega
    rw [e1, e2] at h2
    exact h2
  have hattL : s.mainAt 0 :: (Fork.mainSeg s 1 c ++ fk.attached) =
      (List.range' 0 (s.number b.id + 1)).map (Fork.ancAt s b.id) := by
    rw [sp.attached, Fork.ancList_eq_map s b.id _ hK, hlo]
    have h1 : s.mainAt 0 :: Fork.mainSeg s 1 c = (List.range' 0 (c + 1)).map (Fork.ancAt s b.id) := by
      rw [← Fork.mainSeg_succ s 0 c]
      unfold Fork.mainSeg
      apply List.map_congr_left
      intro h hh
      rw [List.mem_range'_1] at hh
      exact (hbelow h (by omega)).symm
    rw [← List.cons_append, h1, ← List.map_append]
    have h2 : List.range' 0 (c + 1) ++ List.range' (c + 1) (s.number b.id - c) = List.range' 0 (s.number b.id + 1) := by
      have := @List.range'_append_1 0 (c + 1) (s.number b.id - c)
      have e1 : 0 + (c + 1) = c + 1 := by omega
      have e2 : c + 1 + (s.number b.id - c) = s.number b.id + 1 := by omega
      rw [e1, e2] at this
      exact this
    rw [h2]
  have hold : body (s.mainAt 0) :: ((Fork.mainSeg s 1 c).map body ++ fk.detached.map body) = g :: rest := by
    rw [← hmainB, ← hdetL]; simp
  have hg : body (s.mainAt 0) = g := (List.cons.inj hold).1
  have hrest : (Fork.mainSeg s 1 c).map body ++ fk.detached.map body = rest := (List.cons.inj hold).2
  have hnew : pathTo s body b.id = g :: ((Fork.mainSeg s 1 c).map body ++ fk.attached.map body) := by
    unfold pathTo
    have hc : (fun h => body (Fork.ancAt s b.id h)) = body ∘ Fork.ancAt s b.id := rfl
    rw [hc, ← List.map_map, ← hattL, ← hg]; simp
  -- the first attached block is the child of the fork point
  obtain ⟨K, hKe⟩ : ∃ K, s.number b.id - c = K + 1 := ⟨s.number b.id - c - 1, by omega⟩
  have hattc : fk.attached.map body = body (Fork.anc s b.id K) :: (Fork.ancList s b.id K).map body := by
    rw [sp.attached, hKe]; rfl
  have hnumA : (body (Fork.anc s b.id K)).number = (g :: (Fork.mainSeg s 1 c).map body).length := by
    rw [← hnumS, wf.branch_num K (by omega)]
    simp [Fork.mainSeg_length]
    omega
  rw [← hrest] at hcol
  obtain ⟨st', hst', hc', -⟩ := mmr_attach_eq_replay st g ((Fork.mainSeg s 1 c).map body) (fk.detached.map body)
    (fk.attached.map body) _ _ hattc hnumA hcol
  rw [hm] at hst'
  cases hst'
  rw [hnew]
  exact hc'

/-! ### (2) `verified != None` is ancestor-closed: a pipeline invariant -/

/-- **`reconcile_main_chain` keeps the invariant.**  On any view whose ext column is
ancestor-closed: attaching a parent-linked list `att` whose fork point `p` is verified, every block
of which has an ext row, leaves the ext column ancestor-closed, verifies every attached block and
un-verifies nothing. -/
theorem reconcile_keeps_verified_closed (par : Nat → Nat) : ∀ (att : List Block) (v : View) (p : Nat),
    VerClosed par v.r → Ver v.r p → LinkedP par p att → (∀ a ∈ att, (v.r.ext a.id).isSome) →
    VerClosed par (reconcile v att).r ∧ (∀ a ∈ att, Ver (reconcile v att).r a.id) ∧
      (∀ x, Ver v.r x → Ver (reconcile v att).r x) := by
  intro att
  induction att with
  | nil => intro v p hc _ _ _; exact ⟨hc, by simp, fun _ h => h⟩
  | cons a as ih =>
    intro v p hc hp hl hrows
    have hc1 : VerClosed par (reconcileOne v a).r := by
      intro x hx
      rcases ver_reconcileOne_inv v a x hx with h | h
      · exact ver_reconcileOne_mono v a _ (hc x h)
      · subst h
        rw [hl.1]
        exact ver_reconcileOne_mono v a _ hp
    have hself : Ver (reconcileOne v a).r a.id := ver_reconcileOne_self v a (hrows a (by simp))
    obtain ⟨g1, g2, g3⟩ := ih (reconcileOne v a) a.id hc1 hself hl.2
      (fun y hy => rows_reconcileOne v a _ (hrows y (List.mem_cons_of_mem _ hy)))
    refine ⟨g1, ?_, fun x hx => g3 x (ver_reconcileOne_mono v a x hx)⟩
    intro y hy
    rcases List.mem_cons.mp hy with rfl | hy
    · exact g3 _ hself
    · exact g2 y hy

/-- **The commit of a new best block keeps the pipeline invariant** (ext column ancestor-closed and
the tip verified): `rollback` writes no ext, `reconcile_main_chain` attaches `find_fork`'s
parent-linked list whose fork point is an ancestor of the (verified) old tip, and the new tip is the
last attached block. -/
theorem commit_keeps_verified_closed (par : Nat → Nat) (v : View) (b : Block) (det att : List Block)
    (t p k : Nat)
    (hc : VerClosed par v.r) (hvt : Ver v.r t)
    (hfork : iterPar par k t = p) (hl : LinkedP par p att)
    (hrows : ∀ a ∈ att, (v.r.ext a.id).isSome) (hlast : b ∈ att) :
    VerClosed par (commitBest v b det att).r ∧
    (commitBest v b det att).m.tip = some b.id ∧ Ver (commitBest v b det att).r b.id := by
  have hr : (commitBest v b det att).r = (reconcile (rollback v det.reverse) att).r := rfl
  have hp : Ver v.r p := by rw [← hfork]; exact ver_ancestors par v.r hc t hvt k
  have h0 := rollback_r v det.reverse
  obtain ⟨g1, g2, -⟩ := reconcile_keeps_verified_closed par att (rollback v det.reverse) p
    (by rw [h0]; exact hc) (by rw [h0]; exact hp) hl (by rw [h0]; exact hrows)
  refine ⟨by rw [hr]; exact g1, ?_, by rw [hr]; exact g2 b hlast⟩
  simp only [commitBest]
  split <;> rfl

/-- a side block (or any write of an UNVERIFIED ext for a block that is not verified), a refused
block (no ext write) and a truncation (no ext write; the new tip is an ancestor of the old one) keep
the invariant -/
theorem other_steps_keep_verified_closed (par : Nat → Nat) (r : Recs) (hc : VerClosed par r) :
    (∀ (r' : Recs) (y : Nat) (e : Ext), e.verified = none → ¬ Ver r y →
        r'.ext = upd r.ext y (some e) → VerClosed par r') ∧
    (∀ r' : Recs, r'.ext = r.ext → VerClosed par r') ∧
    (∀ t k, Ver r t → Ver r (iterPar par k t)) := by
  refine ⟨?_, ?_, fun t k ht => ver_ancestors par r hc t ht k⟩
  · intro r' y e he hny hext x ⟨ex, hx, hv⟩
    rw [hext] at hx
    by_cases hxy : x = y
    · subst hxy
      simp [upd] at hx
      subst hx
      exact absurd he hv
    · simp only [upd, hxy, if_false] at hx
      obtain ⟨e', he', hv'⟩ := hc x ⟨ex, hx, hv⟩
      refine ⟨e', ?_, hv'⟩
      rw [hext]
      by_cases hpy : par x = y
      · exfalso
        apply hny
        rw [← hpy]
        exact ⟨e', he', hv'⟩
      · simp [upd, hpy, he']
  · intro r' hext x ⟨ex, hx, hv⟩
    rw [hext] at hx
    obtain ⟨e', he', hv'⟩ := hc x ⟨ex, hx, hv⟩
    exact ⟨e', by rw [hext]; exact he', hv'⟩

/-- `ChainDB::init` establishes it (the genesis block is its own parent in the model) -/
theorem init_verified_closed (par : Nat → Nat) (g : Block) (hg : par g.id = g.id) :
    VerClosed par (init g).r ∧ Ver (init g).r g.id := by
  have hrow : ∀ x, (init g).r.ext x = if x = g.id then some ⟨some true, 0, 0, []⟩ else none := by
    intro x
    simp only [init, attachOne, attachOneR, putExt, upd]
    by_cases hx : x = g.id
    · simp [hx]
    · simp only [hx, if_false]
      by_cases hh : g.isHead = true <;>
        simp [hh, insertBlock, insertBlockEpoch, insertEpochExt, View.empty, Recs.empty]
  have hself : Ver (init g).r g.id := ⟨⟨some true, 0, 0, []⟩, by rw [hrow]; simp, by simp⟩
  refine ⟨?_, hself⟩
  intro x ⟨e, he, hv⟩
  rw [hrow] at he
  by_cases hx : x = g.id
  · subst hx
    rw [hg]
    exact hself
  · simp [hx] at he

/-- **The hypothesis of `dirty_exts_aligned` / `reconcile_zip_eq_reconcile` is discharged by the
invariant**: if the `find_fork` store reads `verified.is_none()` and parents off a record store
whose ext column is ancestor-closed, then "`verified != None`" is ancestor-closed along every
branch. -/
theorem verified_closed_discharges_hclosed (par : Nat → Nat) (r : Recs) (s : Fork.Store) (newTip : Nat)
    (hc : VerClosed par r) (hpar : ∀ y, s.parent y = par y)
    (hver : ∀ y, s.verNone y = false ↔ Ver r y) :
    ∀ j, 1 ≤ j → s.verNone (Fork.anc s newTip j) = false →
      s.verNone (Fork.anc s newTip (j + 1)) = false := by
  intro j _ h
  show s.verNone (s.parent (Fork.anc s newTip j)) = false
  rw [hpar]
  exact (hver _).mpr (hc _ ((hver _).mp h))

/-- `dirty_exts_aligned` with the pipeline invariant in place of its `hclosed` hypothesis -/
theorem dirty_exts_aligned_from_invariant (par : Nat → Nat) (r : Recs) (s : Fork.Store) (cur newTip : Nat)
    (wf : Fork.WF s cur newTip) (hnew : s.verNone newTip = true)
    (hc : VerClosed par r) (hpar : ∀ y, s.parent y = par y)
    (hver : ∀ y, s.verNone y = false ↔ Ver r y) :
    (Fork.findFork s cur newTip).dirtyExts = (Fork.findFork s cur newTip).attached.filter s.verNone ∧
    (∀ p ∈ (Fork.findFork s cur newTip).dirtyPairs, p.1 = p.2) ∧
    (∀ a ∈ (Fork.findFork s cur newTip).verifiedPrefix, s.verNone a = false) := by
  obtain ⟨h1, -, h3, -, h5, -⟩ := dirty_exts_aligned s cur newTip wf hnew
    (verified_closed_discharges_hclosed par r s newTip hc hpar hver)
  exact ⟨h1, h3, h5⟩

/-! witnesses -/

namespace ClosedExample
def par (x : Nat) : Nat := x - 1
def e (v : Option Bool) : Ext := ⟨v, 0, 0, []⟩
/-- blocks 0, 1 verified; 2, 3 stored unverified -/
def r0 : Recs := { Recs.empty with ext := fun x => if x ≤ 1 then some (e (some true)) else if x ≤ 3 then some (e none) else none }
def blk (x : Nat) : Block := MmrExample.blk x (x - 1) x
end ClosedExample

open ClosedExample in
/-- non-vacuity, and **the step that would break the invariant**: attaching block 3 alone, whose
parent 2 is not verified (a list that is not parent-linked from a verified fork point — what
`find_fork` can never return by `find_fork_lists`), leaves 3 verified above the unverified 2;
attaching `[2, 3]` from the verified fork point 1 keeps the column closed -/
theorem unlinked_attach_breaks_closed :
    LinkedP par 1 [blk 2, blk 3] ∧ ¬ LinkedP par 1 [blk 3] ∧
    ((reconcile ⟨Main.empty, r0⟩ [blk 3]).r.ext 3).map (·.verified) = some (some true) ∧
    ((reconcile ⟨Main.empty, r0⟩ [blk 3]).r.ext 2).map (·.verified) = some none ∧
    ((reconcile ⟨Main.empty, r0⟩ [blk 2, blk 3]).r.ext 2).map (·.verified) = some (some true) ∧
    ((reconcile ⟨Main.empty, r0⟩ [blk 2, blk 3]).r.ext 3).map (·.verified) = some (some true) := by
  refine ⟨⟨rfl, rfl, trivial⟩, fun h => absurd h.1 (by decide), ?_⟩
  decide

open MmrExample in
/-- non-vacuity of `mmr_history_invariant`: the history "init, then attach 1-2-3-4" -/
example : MmrHist g ([] ++ blk 1 0 1 :: main.tail)
    ((mmrAttach (initX g).mmr (blk 1 0 1 :: main.tail)).getD (initX g).mmr) :=
  MmrHist.best (pre := []) (det := []) (blk 1 0 1) main.tail MmrHist.init rfl

open ClosedExample in
/-- the hypotheses of `commit_keeps_verified_closed` are satisfiable: ext column `r0` (0, 1 verified;
2, 3 stored unverified) is ancestor-closed, the tip 1 is verified and is the fork point of `[2, 3]` -/
example : VerClosed par r0 ∧ Ver r0 1 ∧ iterPar par 0 1 = 1 ∧ LinkedP par 1 [blk 2, blk 3] ∧
    (∀ a ∈ [blk 2, blk 3], (r0.ext a.id).isSome) := by
  refine ⟨?_, ⟨e (some true), rfl, by simp [e]⟩, rfl, ⟨rfl, rfl, trivial⟩, by decide⟩
  intro x ⟨ex, he, hv⟩
  have hx : x ≤ 1 := by
    by_cases h : x ≤ 1
    · exact h
    · exfalso
      simp only [r0, Recs.empty, h, if_false] at he
      by_cases h3 : x ≤ 3
      · simp [h3] at he; subst he; exact hv rfl
      · simp [h3] at he
  refine ⟨e (some true), ?_, by simp [e]⟩
  have : par x ≤ 1 := by unfold par; omega
  simp [r0, Recs.empty, this]

end CkbVerif.C02
