import CkbVerif.Lemmas.ChainStatus
import CkbVerif.Props.C01Restart

/-!
# C01, continued — `get_block_status` in every reachable state, and "received" instead of "stored"

`Chain.getBlockStatus` (Model/ChainStatus.lean) is `Shared::get_block_status` as written: the in-memory
status-map entry SHADOWS the header map, which shadows the answer derived from the `BlockExt` row.
`Chain.blockStatus s` is its value in pipeline state `s` (ckb-chain alone: header map empty). The harness
compares the real function's answer for every declared block after every operation (`st=` field).

* `acceptable_eq_status`: the routing decision of `process_lonely_block` / `search_orphan_leaders` in the model
  is literally the code's `parent_is_pending_verify || parent_status.contains(BLOCK_STORED)`.
* `status_map_shadows_nothing`: in EVERY reachable state (restarts, expiry, duplicates, F7-style histories
  included; no hypothesis) a block with a status-map entry has no ext — the first branch of `get_block_status`
  never hides a `BLOCK_STORED` / `BLOCK_VALID` answer, so the answer is a function of (entry, ext) with
  disjoint cases: `status_answers`.
* `status_valid_sound`, `status_tip_valid`, `status_invalid_sound`: what an answer means.
* `getBlockStatus_unshadowed` / `getBlockStatus_shadow`: the shadowing order for arbitrary contents of the
  status map and the header map (sync layer present).
* `received_valid_stored`: along every history in which no orphan expiry removed anything (crashes and
  restarts allowed) every RECEIVED fully valid block has its data in the database; hence
  `tip_heaviest_after_restart_received`: the liveness clause across a restart for everything RECEIVED before
  the stop, not only for what was stored.
-/
namespace CkbVerif.C01
open CkbVerif.Chain CkbVerif.Gen.Chain

/-! ## The function -/

/-- the bit patterns of block_status.rs -/
theorem status_bits : Status.bits .unknown = 0 ∧ Status.bits .headerValid = 1 ∧ Status.bits .received = 3 ∧
    Status.bits .stored = 7 ∧ Status.bits .valid = 15 ∧ Status.bits .invalid = 4096 := by decide

/-- `contains(BLOCK_STORED)` holds exactly for `BLOCK_STORED` and `BLOCK_VALID` -/
theorem contains_stored_iff (a : Status) : a.contains .stored = true ↔ a = .stored ∨ a = .valid := by
  cases a <;> decide

/-- `blockStatus` spelled out: the chain-only specialisation of `get_block_status` -/
theorem blockStatus_eq (s : State) (b : Nat) :
    blockStatus s b =
      if s.invalid b then Status.invalid
      else match s.td b with
        | none => Status.unknown
        | some _ => if s.ver b then Status.valid else Status.stored := by
  unfold blockStatus getBlockStatus statusMap
  cases s.invalid b <;> cases s.td b <;> rfl

/-- the model's routing predicate is the code's expression
`parent_is_pending_verify || parent_status.contains(BlockStatus::BLOCK_STORED)` -/
theorem acceptable_eq_status (s : State) (p : Nat) :
    acceptable s p = (s.pending p || (blockStatus s p).contains .stored) := by
  rw [blockStatus_eq]
  unfold acceptable
  cases s.invalid p <;> cases s.td p <;> cases s.ver p <;> cases s.pending p <;>
    first | rfl | (simp only [Option.isSome]; decide)

/-- shadowing, first level: without a status-map entry and without a header-map entry the answer is the
ext's; -/
theorem getBlockStatus_unshadowed (smap : Nat → Option Status) (hmap : Nat → Bool) (td : Nat → Option Nat)
    (ver : Nat → Bool) (b : Nat) (h1 : smap b = none) (h2 : hmap b = false) :
    getBlockStatus smap hmap td ver b =
      match td b with
      | none => Status.unknown
      | some _ => if ver b then Status.valid else Status.stored := by
  unfold getBlockStatus; rw [h1]; simp only [h2]
  cases td b <;> rfl

/-- … a status-map entry wins over everything, a header-map entry over the ext -/
theorem getBlockStatus_shadow (smap : Nat → Option Status) (hmap : Nat → Bool) (td : Nat → Option Nat)
    (ver : Nat → Bool) (b : Nat) :
    (∀ st, smap b = some st → getBlockStatus smap hmap td ver b = st) ∧
    (smap b = none → hmap b = true → getBlockStatus smap hmap td ver b = Status.headerValid) := by
  refine ⟨fun st h => ?_, fun h1 h2 => ?_⟩
  · unfold getBlockStatus; rw [h]
  · unfold getBlockStatus; rw [h1]; simp [h2]

/-! ## The answers in every reachable state -/

/-- **status_map_shadows_nothing**: in every reachable state a block that has a status-map entry has no
ext (no hypothesis on expiry, duplicates or restarts) -/
theorem status_map_shadows_nothing (T : Tree) (s : State) (h : Reachable T s) (b : Nat)
    (he : (statusMap s b).isSome = true) : s.td b = none := by
  obtain ⟨ops, rfl⟩ := h
  have hs := safe_run ops _ (safe_init T)
  have hn := eni_run ops _ (safe_init T) (eni_init T)
  cases htd : (run T (init T) ops).td b with
  | none => rfl
  | some n =>
    have := hn b (by rw [htd]; rfl)
    unfold statusMap at he
    rw [this] at he
    simp at he

/-- **status_answers**: the answer for every block in every reachable state, as four disjoint cases -/
theorem status_answers (T : Tree) (s : State) (h : Reachable T s) (b : Nat) :
    (blockStatus s b = Status.invalid ↔ s.invalid b = true) ∧
    (blockStatus s b = Status.valid ↔ s.ver b = true) ∧
    (blockStatus s b = Status.stored ↔ (s.td b).isSome = true ∧ s.ver b = false) ∧
    (blockStatus s b = Status.unknown ↔ s.td b = none ∧ s.invalid b = false) ∧
    blockStatus s b ≠ Status.headerValid ∧ blockStatus s b ≠ Status.received := by
  have hshadow := status_map_shadows_nothing T s h b
  obtain ⟨ops, rfl⟩ := h
  have hs := safe_run ops _ (safe_init T)
  have hve := hs.verExt b
  rw [blockStatus_eq]
  unfold statusMap at hshadow
  generalize (run T (init T) ops).invalid b = i at *
  generalize (run T (init T) ops).ver b = v at *
  generalize (run T (init T) ops).td b = t at *
  cases i <;> cases v <;> cases t <;> simp_all

/-- an answer `BLOCK_VALID` is sound: the block is fully valid, its ext carries the true accumulated work,
which is at most the tip's -/
theorem status_valid_sound (T : Tree) (s : State) (h : Reachable T s) (b : Nat)
    (hv : blockStatus s b = Status.valid) :
    FullyValid T b ∧ ∃ n, s.td b = some n ∧ TD T b n ∧ n ≤ s.tipTd := by
  have hver := ((status_answers T s h b).2.1).mp hv
  have hi := inv_reachable T s h
  refine ⟨fullyValid_of_ver hi.safe b hver, ?_⟩
  obtain ⟨n, hn⟩ := Option.isSome_iff_exists.mp (hi.safe.verExt b hver)
  exact ⟨n, hn, hi.safe.tdTrue b n hn, hi.safe.tdLe b n hn⟩

/-- the tip's answer is `BLOCK_VALID`, the genesis block's too -/
theorem status_tip_valid (T : Tree) (s : State) (h : Reachable T s) :
    blockStatus s s.tip = Status.valid ∧ blockStatus s 0 = Status.valid := by
  have hi := inv_reachable T s h
  exact ⟨((status_answers T s h s.tip).2.1).mpr hi.safe.tipOk.2, ((status_answers T s h 0).2.1).mpr hi.safe.gen.1⟩

/-- an answer `BLOCK_INVALID` is sound as long as no orphan expiry fired since the last start: the block is
not fully valid (itself or an ancestor fails a verification stage) -/
theorem status_invalid_sound (T : Tree) (s : State) (h : Reachable T s) (hx : s.expiryFired = false) (b : Nat)
    (hv : blockStatus s b = Status.invalid) : ¬ FullyValid T b :=
  ((inv_reachable T s h).live hx).core.invNotFV b (((status_answers T s h b).1).mp hv)

/-- a stop of the process forgets the status map: a fresh process answers from the ext alone -/
theorem status_after_crash (s : State) (b : Nat) :
    blockStatus (crash s) b =
      match s.td b with
      | none => Status.unknown
      | some _ => if s.ver b then Status.valid else Status.stored := by
  rw [blockStatus_eq]; rfl

/-- non-vacuity on the example history of `Props/C01.lean`: all four answers occur -/
example : blockStatus exFinal 2 = Status.valid ∧ blockStatus exFinal 4 = Status.stored ∧
    blockStatus exFinal 5 = Status.invalid ∧ blockStatus exFinal 7 = Status.unknown ∧
    Reachable exTree exFinal := ⟨by decide, by decide, by decide, by decide, ⟨exOps, rfl⟩⟩

/-! ## Answers that never go back -/

theorem step_ext_ver_mono (T : Tree) (s : State) (op : Op) (b : Nat) :
    ((s.td b).isSome = true → ((step T s op).1.td b).isSome = true) ∧
    (s.ver b = true → (step T s op).1.ver b = true) := by
  cases op with
  | deliver x hint =>
    obtain ⟨h1, h2, _, _⟩ := deliver_sameChain T hint s x
    show (_ → ((deliver T hint s x).1.td b).isSome = true) ∧ (_ → (deliver T hint s x).1.ver b = true)
    rw [h1, h2]; exact ⟨id, id⟩
  | verify =>
    show (_ → ((verifyHead T s).1.td b).isSome = true) ∧ (_ → (verifyHead T s).1.ver b = true)
    have hact := verifyHead_act T s
    generalize verifyHead T s = r at hact ⊢
    cases hact with
    | empty _ => exact ⟨id, id⟩
    | fail x q _ _ => exact ⟨id, id⟩
    | known x q ptd _ _ _ _ _ => exact ⟨id, id⟩
    | side x q ptd _ _ _ _ =>
      refine ⟨fun h => ?_, id⟩
      show (upd s.td x (some (ptd + T.work x)) b).isSome = true
      by_cases hbx : b = x
      · subst hbx; simp
      · rw [upd_other _ _ hbx]; exact h
    | best x q ptd _ _ _ _ _ =>
      refine ⟨fun h => ?_, fun h => ?_⟩
      · show (upd s.td x (some (ptd + T.work x)) b).isSome = true
        by_cases hbx : b = x
        · subst hbx; simp
        · rw [upd_other _ _ hbx]; exact h
      · show (decide (b ∈ dirtyRun T s (T.par x) ++ [x]) || s.ver b) = true
        rw [h]; simp
  | expire =>
    obtain ⟨⟨h1, h2, _, _⟩, _, _⟩ := expire_frame T s
    show (_ → ((expire T s).td b).isSome = true) ∧ (_ → (expire T s).ver b = true)
    rw [h1, h2]; exact ⟨id, id⟩
  | crash => exact ⟨id, id⟩

/-- **status_valid_stable**: an answer `BLOCK_VALID` is never taken back — by no delivery, verification,
expiry, crash (the ext is persisted) — and **status_stored_stable**: a block that answers
`contains(BLOCK_STORED)` (stored or valid) does so for ever: it never falls back to `UNKNOWN` and is never
marked `BLOCK_INVALID`. -/
theorem status_valid_stable (T : Tree) (s : State) (h : Reachable T s) (op : Op) (b : Nat)
    (hv : blockStatus s b = Status.valid) : blockStatus (step T s op).1 b = Status.valid := by
  have h' : Reachable T (step T s op).1 := by
    obtain ⟨ops, rfl⟩ := h
    exact ⟨ops ++ [op], by rw [run_append]; rfl⟩
  exact ((status_answers T _ h' b).2.1).mpr
    ((step_ext_ver_mono T s op b).2 (((status_answers T s h b).2.1).mp hv))

theorem status_stored_stable (T : Tree) (s : State) (h : Reachable T s) (op : Op) (b : Nat)
    (hv : (blockStatus s b).contains Status.stored = true) :
    (blockStatus (step T s op).1 b).contains Status.stored = true := by
  have h' : Reachable T (step T s op).1 := by
    obtain ⟨ops, rfl⟩ := h
    exact ⟨ops ++ [op], by rw [run_append]; rfl⟩
  have hs := (inv_reachable T s h).safe
  have a := status_answers T s h b
  have a' := status_answers T _ h' b
  have hext : (s.td b).isSome = true := by
    rcases (contains_stored_iff _).mp hv with e | e
    · exact (a.2.2.1.mp e).1
    · exact hs.verExt b (a.2.1.mp e)
  have hext' := (step_ext_ver_mono T s op b).1 hext
  apply (contains_stored_iff _).mpr
  cases hver : (step T s op).1.ver b with
  | true => exact Or.inr (a'.2.1.mpr hver)
  | false => exact Or.inl (a'.2.2.1.mpr ⟨hext', hver⟩)

/-- the same facts for nodes that were stopped and started again -/
theorem status_answers_rreachable (T : Tree) (s : State) (h : RReachable T s) (b : Nat) :
    (blockStatus s b = Status.invalid ↔ s.invalid b = true) ∧
    (blockStatus s b = Status.valid ↔ s.ver b = true) ∧
    (blockStatus s b = Status.stored ↔ (s.td b).isSome = true ∧ s.ver b = false) ∧
    (blockStatus s b = Status.unknown ↔ s.td b = none ∧ s.invalid b = false) ∧
    blockStatus s b ≠ Status.headerValid ∧ blockStatus s b ≠ Status.received :=
  status_answers T s (rreachable_reachable T s h) b

/-! ## The sibling release order (`hint`)

`search_orphan_leaders` queues released siblings in hash-map iteration order; the model takes that order as
the input `hint`. It cannot be removed from the model: the order is OBSERVABLE in the exts
(`release_order_changes_exts`). What does not depend on it is the accumulated work of the tip once the
queue is drained (`release_order_irrelevant_for_work`). The harness reports the real order per operation
and the per-operation comparison of exts / BLOCK_INVALID marks / stored set checks the model against it. -/

theorem verifyHead_queue_tail (T : Tree) (s : State) : (verifyHead T s).1.queue = s.queue.tail := by
  have hact := verifyHead_act T s
  generalize verifyHead T s = r at hact ⊢
  cases hact with
  | empty h => rw [h]; rfl
  | fail b q hq _ => rw [hq]; rfl
  | known b q ptd hq _ _ _ _ => rw [hq]; rfl
  | side b q ptd hq _ _ _ => rw [hq]; rfl
  | best b q ptd hq _ _ _ _ => rw [hq]; rfl

/-- draining the queue is a run of `verify` steps and ends quiescent -/
theorem drain_spec (T : Tree) : ∀ (n : Nat) (s : State) (o : Out), s.queue.length ≤ n →
    ∃ k, (drain T n s o).1 = run T s (List.replicate k Op.verify) ∧ (drain T n s o).1.queue = [] := by
  intro n
  induction n with
  | zero =>
    intro s o h
    refine ⟨0, rfl, ?_⟩
    show s.queue = []
    exact List.eq_nil_of_length_eq_zero (Nat.le_zero.mp h)
  | succ n ih =>
    intro s o h
    cases hq : s.queue with
    | nil =>
      refine ⟨0, ?_, ?_⟩
      · simp only [drain, hq]; rfl
      · simp only [drain, hq]
    | cons b q =>
      have hlen : (verifyHead T s).1.queue.length ≤ n := by
        rw [verifyHead_queue_tail, hq]; rw [hq] at h; simpa using h
      obtain ⟨k, hk1, hk2⟩ := ih (verifyHead T s).1 (o ++ (verifyHead T s).2) hlen
      refine ⟨k + 1, ?_, ?_⟩
      · simp only [drain, hq]
        rw [hk1]; rfl
      · simp only [drain, hq]
        exact hk2

theorem delivered_replicate_verify : ∀ (k : Nat), delivered (List.replicate k Op.verify) = []
  | 0 => rfl
  | k + 1 => by rw [List.replicate_succ]; exact delivered_replicate_verify k

/-- a serialised delivery is a plain history: one `deliver`, then `verify` steps until quiescence -/
theorem deliverQ_run (T : Tree) (hint : List Nat) (s : State) (b : Nat) :
    ∃ k, (deliverQ T hint s b).1 = run T s (Op.deliver b hint :: List.replicate k Op.verify) ∧
      Quiescent (deliverQ T hint s b).1 := by
  obtain ⟨k, h1, h2⟩ := drain_spec T (deliver T hint s b).1.queue.length (deliver T hint s b).1
    (deliver T hint s b).2 (Nat.le_refl _)
  exact ⟨k, h1, h2⟩

/-- **release_order_irrelevant_for_work**: from any reachable state, the same block delivered with two
different sibling release orders (any two hints), the queue drained either way: the tips carry the same
accumulated work (as long as no orphan expiry removed anything) -/
theorem release_order_irrelevant_for_work (T : Tree) (ops : List Op) (b : Nat) (h1 h2 : List Nat)
    (hx1 : (deliverQ T h1 (run T (init T) ops) b).1.expiryFired = false)
    (hx2 : (deliverQ T h2 (run T (init T) ops) b).1.expiryFired = false) :
    (deliverQ T h1 (run T (init T) ops) b).1.tipTd = (deliverQ T h2 (run T (init T) ops) b).1.tipTd := by
  obtain ⟨k1, e1, q1⟩ := deliverQ_run T h1 (run T (init T) ops) b
  obtain ⟨k2, e2, q2⟩ := deliverQ_run T h2 (run T (init T) ops) b
  have hs0 : Inv T (run T (init T) ops) := inv_run' ops _ (inv_init' T)
  have hk0 : SeenOk (run T (init T) ops) := seenOk_run ops _ (seenOk_init T)
  have cf : ∀ (h : List Nat) (k : Nat), crashFree (Op.deliver b h :: List.replicate k Op.verify) := by
    intro h k op hop
    rcases List.mem_cons.mp hop with e | e
    · rw [e]; exact fun hh => Op.noConfusion hh
    · rw [List.eq_of_mem_replicate e]; exact fun hh => Op.noConfusion hh
  have seenEq : ∀ (h : List Nat) (k : Nat) (x : Nat),
      (run T (run T (init T) ops) (Op.deliver b h :: List.replicate k Op.verify)).seen x = true ↔
      ((run T (init T) ops).seen x = true ∨ (x ≠ 0 ∧ x = b)) := by
    intro h k x
    rw [seen_run T _ _ (cf h k) x]
    simp [delivered, delivered_replicate_verify]
  generalize deliverQ T h1 (run T (init T) ops) b = r1 at *
  generalize deliverQ T h2 (run T (init T) ops) b = r2 at *
  have i1 : Inv T r1.1 := by rw [e1]; exact inv_run' _ _ hs0
  have i2 : Inv T r2.1 := by rw [e2]; exact inv_run' _ _ hs0
  have k1' : SeenOk r1.1 := by rw [e1]; exact seenOk_run _ _ hk0
  have k2' : SeenOk r2.1 := by rw [e2]; exact seenOk_run _ _ hk0
  have s12 : ∀ x, r1.1.seen x = true → r2.1.seen x = true := by
    intro x hx; rw [e1] at hx; rw [e2]; exact (seenEq h2 k2 x).mpr ((seenEq h1 k1 x).mp hx)
  have s21 : ∀ x, r2.1.seen x = true → r1.1.seen x = true := by
    intro x hx; rw [e2] at hx; rw [e1]; exact (seenEq h1 k1 x).mpr ((seenEq h2 k2 x).mp hx)
  have c1 := (chainIn_of_ver i1.safe k1' _ i1.safe.tipOk.2).mono s12
  have c2 := (chainIn_of_ver i2.safe k2' _ i2.safe.tipOk.2).mono s21
  have t1 := i1.safe.tdTrue _ _ i1.safe.tipOk.1
  have t2 := i2.safe.tdTrue _ _ i2.safe.tipOk.1
  exact Nat.le_antisymm (tip_heaviest_at_quiescence T _ i2 q2 hx2 _ _ c1 t1)
    (tip_heaviest_at_quiescence T _ i1 q1 hx1 _ _ c2 t2)

/-- genesis 0 ← 1; 2 (fully valid) and 3 (contextually invalid) are children of 1 with equal work -/
def sibTree : Tree :=
  { parent := fun b => match b with | 2 => 1 | 3 => 1 | _ => 0
    num := fun b => match b with | 0 => 0 | 1 => 1 | _ => 2
    epoch := fun _ => 0
    work := fun _ => 2
    nc := fun _ => true
    ok := fun b => decide (b ≠ 3) }

/-- both siblings wait in the orphan pool for their parent -/
def sibPre : List Op := [.deliver 2 [], .deliver 3 []]

/-- **release_order_changes_exts**: the release order IS observable. Siblings 2 (valid) and 3 (contextually
invalid) wait for their parent 1; when 1 arrives, release order [2, 3] leaves block 3 stored with an
unverified ext (not heavier than the new tip 2: never verified), release order [3, 2] verifies 3 first: it
fails, is deleted and marked BLOCK_INVALID. Tip and accumulated work are the same. -/
theorem release_order_changes_exts :
    let s := run sibTree (init sibTree) sibPre
    let a := (deliverQ sibTree [2, 3] s 1).1
    let b := (deliverQ sibTree [3, 2] s 1).1
    a.td 3 = some 6 ∧ a.stored 3 = true ∧ a.invalid 3 = false ∧
    b.td 3 = none ∧ b.stored 3 = false ∧ b.invalid 3 = true ∧
    a.tip = 2 ∧ b.tip = 2 ∧ a.tipTd = 6 ∧ b.tipTd = 6 := by decide

/-- non-vacuity of `release_order_irrelevant_for_work` on that history -/
example : (deliverQ sibTree [2, 3] (run sibTree (init sibTree) sibPre) 1).1.expiryFired = false ∧
    (deliverQ sibTree [3, 2] (run sibTree (init sibTree) sibPre) 1).1.expiryFired = false := by decide

/-! ## Received fully valid blocks are stored -/

/-- **received_valid_stored**: along every history in which no orphan expiry removed anything (`QuietRun`:
expiry ticks that find nothing to remove, crashes, restarts, duplicates, any interleaving are allowed) every
block that was received (`seen`: delivered since the last start, or had an ext at the last start) and is
fully valid has its data in the database — whether it is verified, queued, or waiting in the orphan pool. -/
theorem received_valid_stored (T : Tree) (ops : List Op) (hq : QuietRun T (init T) ops) (b : Nat) (hb0 : b ≠ 0)
    (hseen : (run T (init T) ops).seen b = true) (hfv : FullyValid T b) :
    (run T (init T) ops).stored b = true :=
  ks_run ops _ (inv_init' T) (seenOk_init T) (ks_init T) hq b hb0 hseen hfv

/-- a history without any expiry tick is quiet -/
theorem quietRun_of_no_expire (T : Tree) : ∀ (ops : List Op) (s : State), s.expiryFired = false →
    (∀ op ∈ ops, op ≠ Op.expire) → QuietRun T s ops := by
  intro ops
  induction ops with
  | nil => intro s h _; exact h
  | cons op ops ih =>
    intro s h hne
    refine ⟨h, ih _ ?_ (fun o ho => hne o (List.mem_cons_of_mem _ ho))⟩
    cases op with
    | deliver b hint =>
      show (deliver T hint s b).1.expiryFired = false
      have : (deliver T hint s b).1.expiryFired = s.expiryFired := by
        unfold deliver
        by_cases hb : b = 0
        · simp [hb]
        · simp only [hb, if_false]
          by_cases hnc : T.nc b = true
          · simp only [hnc, Bool.not_true, Bool.false_eq_true, if_false]
            have e1 : ∀ (s0 : State) (x : Nat), (route T s0 x).1.expiryFired = s0.expiryFired := by
              intro s0 x
              have hact := route_act T s0 x
              generalize route T s0 x = r at hact ⊢
              cases hact <;> rfl
            have e2 : ∀ (s0 : State), (search T hint s0).1.expiryFired = s0.expiryFired := by
              intro s0
              unfold search
              refine foldl_preserves (stepPool T s0.pool) (fun acc => acc.1.expiryFired = s0.expiryFired) ?_ _ _ rfl
              intro acc c hacc
              have hact := stepPool_act T s0.pool acc c
              generalize stepPool T s0.pool acc c = r at hact ⊢
              cases hact <;> exact hacc
            rw [e2, e1]
          · have : T.nc b = false := by simpa using hnc
            simp only [this, Bool.not_false, if_true]
      rw [this]; exact h
    | verify =>
      show (verifyHead T s).1.expiryFired = false
      have : (verifyHead T s).1.expiryFired = s.expiryFired := by
        have hact := verifyHead_act T s
        generalize verifyHead T s = r at hact ⊢
        cases hact <;> rfl
      rw [this]; exact h
    | expire => exact absurd rfl (hne Op.expire List.mem_cons_self)
    | crash => rfl

/-- **tip_heaviest_after_restart_received** (the liveness clause for everything RECEIVED). `ops` is any
history (crashes and earlier restarts — `rreachable_reachable` — included) along which no orphan expiry
removed anything; the node is stopped in the state it leads to and started again; `more` runs crash-free
and ends quiescent without an expiry. Under the horizon hypothesis of `tip_heaviest_after_restart`, every
fully valid chain formable from the blocks RECEIVED before the stop (delivered, in whatever condition:
verified, stored with an ext, queued, pooled) and the blocks delivered afterwards has accumulated work at
most the tip's: nothing that was received needs to be delivered again. -/
theorem tip_heaviest_after_restart_received (T : Tree) (ops : List Op) (hquiet : QuietRun T (init T) ops)
    (mel : Nat) (order : List Nat) (more : List Op) (hcf : crashFree more)
    (hwin : ∀ x, (run T (init T) ops).stored x = true → (run T (init T) ops).td x = none → x ≠ 0 →
      InHorizon T mel order (run T (init T) ops) x)
    (hq : Quiescent (run T (restart T mel order (run T (init T) ops)).1 more))
    (hx : (run T (restart T mel order (run T (init T) ops)).1 more).expiryFired = false)
    (b n : Nat)
    (hc : ChainIn T (fun x => (run T (init T) ops).seen x = true ∨ x ∈ delivered more) b)
    (hn : TD T b n) : n ≤ (run T (restart T mel order (run T (init T) ops)).1 more).tipTd := by
  refine tip_heaviest_after_restart T _ (reachable_rreachable T _ ⟨ops, rfl⟩) mel order more hcf hwin hq hx b n
    (hc.mono_fv (fun x hx0 hD hfv => ?_)) hn
  rcases hD with h1 | h1
  · exact Or.inr (Or.inl (received_valid_stored T ops hquiet x hx0 h1 hfv))
  · exact Or.inr (Or.inr h1)

set_option maxRecDepth 4096 in
/-- non-vacuity: the witness history of `Props/C01Restart.lean` (orphans 11, 12 received before the stop,
only the missing block 10 delivered afterwards) is quiet, and blocks 11 and 12 are received, not verified -/
example : QuietRun m3Tree (init m3Tree) m3Pre ∧ m3Stop.seen 12 = true ∧ m3Stop.td 12 = none ∧
    m3Stop.stored 12 = true :=
  ⟨quietRun_of_no_expire m3Tree m3Pre _ rfl (by decide), by decide +kernel, by decide +kernel, by decide +kernel⟩

end CkbVerif.C01
