/-
C02 — stored chain state and every snapshot equal a replay of the main chain.

Theorems about `Model/Store.lean` (the column writes of `store/src/cell.rs`,
`store/src/transaction.rs` and `chain/src/verify.rs`, in the code's order).  All statements are for
every view / every block / every chain (induction), under the well-formedness that block
verification enforces (`Valid`, `ValidChain`, `WellFormed`).  `find_fork` itself (how the node
computes `det` / `att` / `dirty_exts`) is modelled in `Model/Fork.lean` and proved correct in the
last section (`find_fork_lists`, `find_fork_new_main`, `dirty_exts_aligned`); the corollary
`reorg_via_find_fork_eq_replay` restates `reorg_eq_replay` with the lists computed by `find_fork`.

The epoch-number row (`COLUMN_EPOCH[number]`) is part of the proved view since the repair of
finding F9 (/repo commit e69f9a7): `attach_block` / `detach_block` maintain it.  The pre-repair
behaviour is kept as `Store.PreFix` with its regression witness `epoch_number_row_not_replay_prefix`.
The META current-epoch row is a function of the main chain since the repair of finding F12 (/repo
commit 1f10d03: it is also written when more than one block is attached):
`current_epoch_follows_main_chain`, `current_epoch_after_truncate_extend`; the pre-repair behaviour
is kept as `Store.PreF12` with its regression witness `current_epoch_stale_after_truncate_prefix`.
-/
import CkbVerif.Lemmas.StoreInv
import CkbVerif.Lemmas.Reconcile
namespace CkbVerif.C02
open CkbVerif.Store

/-- a chain `g :: rest` every block of which could be attached in turn -/
def WellFormed (g : Block) (rest : List Block) : Prop :=
  Valid Main.empty Recs.empty g ∧ ValidChain (init g) rest

/-! ### helper facts (kept here because they are about `replay`) -/

theorem attachAll_append (v : View) (as bs : List Block) :
    attachAll v (as ++ bs) = attachAll (attachAll v as) bs := by
  induction as generalizing v with
  | nil => rfl
  | cons a as ih => simp [attachAll, ih]

theorem replay_append (g : Block) (pre bs : List Block) :
    replay (g :: (pre ++ bs)) = attachAll (replay (g :: pre)) bs := by
  simp [replay, attachAll_append]

theorem validChain_append {v : View} {as bs : List Block} (h : ValidChain v (as ++ bs)) :
    ValidChain v as ∧ ValidChain (attachAll v as) bs := by
  induction as generalizing v with
  | nil => exact ⟨ValidChain.nil v, h⟩
  | cons a as ih =>
    cases h with
    | cons ha hrest =>
      obtain ⟨h1, h2⟩ := ih hrest
      exact ⟨ValidChain.cons ha h1, h2⟩

theorem cellsConsistent_init (g : Block) (hg : Valid Main.empty Recs.empty g) :
    CellsConsistent (init g).m (init g).r := by
  have h0 : CellsConsistent Main.empty Recs.empty := by
    intro o row h; simp [Main.empty] at h
  have := cellsConsistent_attachOne Main.empty Recs.empty g h0 hg
  intro o row h
  obtain ⟨info, blk, tx, out, h1, h2, h3, h4, h5⟩ := this o row h
  exact ⟨info, blk, tx, out, h1, h2, h3, h4, h5⟩

theorem cellsConsistent_replay (g : Block) (rest : List Block) (h : WellFormed g rest) :
    CellsConsistent (replay (g :: rest)).m (replay (g :: rest)).r :=
  cellsConsistent_attachAll (cellsConsistent_init g h.1) h.2

/-- the cell / tx-info / index / uncles / epoch-number writes of a list of blocks, without tip and
current epoch; `ef` is the epoch `attach_block` finds for a block -/
def attachAllM (ef : Block → Option EpochRec) (m : Main) : List Block → Main
  | [] => m
  | b :: bs => attachAllM ef (attachCell (attach m (ef b) b) b) bs

theorem attachAllM_withTC (ef) (m : Main) (t c) (bs : List Block) :
    attachAllM ef (m.withTC t c) bs = (attachAllM ef m bs).withTC t c := by
  induction bs generalizing m with
  | nil => rfl
  | cons b bs ih =>
    simp only [attachAllM]
    have : attachCell (attach (m.withTC t c) (ef b) b) b = (attachCell (attach m (ef b) b) b).withTC t c := by
      simp only [attachCell]
      have h : attach (m.withTC t c) (ef b) b = (attach m (ef b) b).withTC t c := rfl
      rw [h, insertCells_withTC, deleteCells_withTC]
    rw [this, ih]

theorem epochOf_reconcileOne (v : View) (b : Block) (id : Nat) :
    epochOf (reconcileOne v b).r id = epochOf v.r id := by
  simp only [reconcileOne]
  split
  · split <;> rfl
  · rfl

theorem reconcile_m (v : View) (bs : List Block) :
    (reconcile v bs).m = attachAllM (fun b => epochOf v.r b.id) v.m bs := by
  induction bs generalizing v with
  | nil => rfl
  | cons b bs ih =>
    simp only [reconcile, attachAllM]
    rw [ih]
    have : (fun x : Block => epochOf (reconcileOne v b).r x.id) = fun x => epochOf v.r x.id := by
      funext x; exact epochOf_reconcileOne v b x.id
    rw [this]
    rfl

/-- looking the epoch up through the records (`attach_block`) and writing it for epoch heads only
(the reference store) are the same number-row write when the record is the block's own epoch -/
theorem attachAllM_congr (ef : Block → Option EpochRec) (m : Main) (bs : List Block)
    (h : ∀ a ∈ bs, ef a = some a.epochRec ∧ (a.isHead = true ↔ a.epochRec.start = a.number)) :
    attachAllM ef m bs = attachAllM headEpoch m bs := by
  induction bs generalizing m with
  | nil => rfl
  | cons b bs ih =>
    simp only [attachAllM]
    have hb := h b (by simp)
    have : attach m (ef b) b = attach m (headEpoch b) b := by
      have he : attachEpochNum m.epochNum (ef b) b = attachEpochNum m.epochNum (headEpoch b) b := by
        rw [hb.1]
        unfold attachEpochNum headEpoch
        by_cases hh : b.isHead = true
        · simp [hh]
        · have : ¬ b.epochRec.start = b.number := fun hs => hh (hb.2.mpr hs)
          simp [hh, this]
      simp only [attach, he]
    rw [this]
    exact ih _ (fun a ha => h a (List.mem_cons_of_mem _ ha))

theorem attachAll_m (v : View) (bs : List Block) (b : Block) (hl : bs.getLast? = some b) :
    (attachAll v bs).m = (attachAllM headEpoch v.m bs).withTC (some b.id) (some b.epochRec) := by
  induction bs generalizing v with
  | nil => simp at hl
  | cons a as ih =>
    cases as with
    | nil =>
      simp at hl; subst hl
      rfl
    | cons a2 as2 =>
      have hl' : (a2 :: as2).getLast? = some b := by simpa [List.getLast?_cons_cons] using hl
      simp only [attachAll, attachAllM] at ih ⊢
      rw [ih (attachOne v a) hl']
      show (attachAllM headEpoch (attachCell (attach (attachOneM v.m a) (headEpoch a2) a2) a2) as2).withTC _ _ = _
      rw [attachOneM_eq]
      have := attachAllM_withTC headEpoch (attachCell (attach v.m (headEpoch a) a) a) (some a.id) (some a.epochRec) (a2 :: as2)
      simp only [attachAllM] at this
      rw [this]
      rfl

/-! ### C02.1 — undo is exact -/

/-- `detach_block` + `detach_block_cell` of the block that was just attached restore the live-cell
columns, the tx-info column, both index directions and the uncle index exactly, for every view and
every block that verification would accept on it — including cells created and spent inside the
block, and with the tx-info rows deleted *before* the spent cells are rebuilt through them. -/
theorem detach_attach_cell (m : Main) (r r' : Recs) (b : Block)
    (hc : CellsConsistent m r) (hv : Valid m r b)
    (hext : ∀ id blk, r.bodies id = some blk → r'.bodies id = some blk) :
    detachCell (detach (attachCell (attach m (headEpoch b) b) b) (some b.epochRec) b) r' b = m :=
  detach_attach m r r' b (headEpoch b) (some b.epochRec) hc hv hext (epochNum_undo hv)

/-- the consistency invariant that makes the undo exact holds on every replayed chain -/
theorem replay_cells_consistent (g : Block) (rest : List Block) (h : WellFormed g rest) :
    CellsConsistent (replay (g :: rest)).m (replay (g :: rest)).r :=
  cellsConsistent_replay g rest h

/-! ### C02.2 — reorganisation of any depth = replay of the new main chain -/

/-- What `verify_block` commits for a new best block (`rollback` of `det` newest first, then
`reconcile_main_chain` over `att`, tip, conditional current-epoch write), started from a store whose
view is the replay of `g :: pre ++ det`, is the replay of `g :: pre ++ att` — for every fork point,
every depth, every content of the two branches (re-committed transactions, cells created on the
detached branch and spent on it, …).  `r'` is the node's record store (it may hold any number of
side-chain blocks).  `hcur` is the condition under which the code's `if new_epoch ||
fork.has_detached() || attached.len() > 1` is enough: its last disjunct is needed only for a
plain extension of the tip by one block inside an epoch, where it is epoch continuity (the block's
epoch is its parent's) — see `current_epoch_follows_main_chain`, which discharges it. -/
theorem reorg_eq_replay (g : Block) (pre det att : List Block) (b : Block) (r' : Recs)
    (hwf : WellFormed g (pre ++ det))
    (hlast : att.getLast? = some b)
    (hext : RecsLe (replay (g :: (pre ++ det))).r r')
    (hatt : ∀ a ∈ att, epochOf r' a.id = some a.epochRec ∧ (a.isHead = true ↔ a.epochRec.start = a.number))
    (hcur : b.isHead = true ∨ det ≠ [] ∨ att.length > 1 ∨ (replay (g :: pre)).m.curEpoch = some b.epochRec) :
    (commitBest ⟨(replay (g :: (pre ++ det))).m, r'⟩ b det att).m = (replay (g :: (pre ++ att))).m := by
  obtain ⟨hpre, hdet⟩ := validChain_append hwf.2
  have hcV : CellsConsistent (replay (g :: pre)).m (replay (g :: pre)).r :=
    cellsConsistent_replay g pre ⟨hwf.1, hpre⟩
  rw [replay_append] at hext ⊢
  rw [replay_append g pre att]
  have hdet' : ValidChain (replay (g :: pre)) det := hdet
  generalize replay (g :: pre) = V at *
  have hrb := rollback_attachAll V det hcV hdet' r' hext (attachAll V det).m.tip (attachAll V det).m.curEpoch
  have heta : (attachAll V det).m.withTC (attachAll V det).m.tip (attachAll V det).m.curEpoch = (attachAll V det).m := rfl
  rw [heta] at hrb
  simp only [commitBest]
  have hrr : (rollback ⟨(attachAll V det).m, r'⟩ det.reverse).r = r' := by simp
  rw [reconcile_m, hrr, hrb, attachAllM_withTC, attachAll_m V att b hlast,
    attachAllM_congr (fun b => epochOf r' b.id) V.m att hatt]
  by_cases hcond : (b.isHead || !det.isEmpty || decide (att.length > 1)) = true
  · simp only [hcond, if_true]; rfl
  · simp only [hcond]
    have hb : b.isHead = false := by
      cases h : b.isHead <;> simp_all
    have hd : det = [] := by
      cases det with
      | nil => rfl
      | cons d ds => simp [hb] at hcond
    have hl : ¬ att.length > 1 := by
      intro hgt
      apply hcond
      simp [hgt]
    subst hd
    rcases hcur with h | h | h | h
    · rw [hb] at h; cases h
    · exact absurd rfl h
    · exact absurd h hl
    · simp only [attachAll] at *
      apply Main.ext' <;> try rfl
      exact h

/-- extension of the tip is the special case `det = []`, `att = [b]`: the chain service's commit is
the replay step (this is `attachAll from genesis = replay`, one block at a time) -/
theorem attach_replay (g : Block) (pre : List Block) (b : Block) (r' : Recs)
    (hwf : WellFormed g pre)
    (hext : RecsLe (replay (g :: pre)).r r')
    (hb : epochOf r' b.id = some b.epochRec ∧ (b.isHead = true ↔ b.epochRec.start = b.number))
    (hcur : b.isHead = true ∨ (replay (g :: pre)).m.curEpoch = some b.epochRec) :
    (commitBest ⟨(replay (g :: pre)).m, r'⟩ b [] [b]).m = (replay (g :: (pre ++ [b]))).m := by
  have := reorg_eq_replay g pre [] [b] b r' (by simpa using hwf) rfl (by simpa using hext)
    (by intro a ha; simp at ha; subst ha; exact hb)
    (by rcases hcur with h | h; exact Or.inl h; exact Or.inr (Or.inr (Or.inr h)))
  simpa using this

/-- the current-epoch row of a replayed chain is the epoch of its last block -/
theorem replay_curEpoch (g : Block) (pre : List Block) (l : Block) (hl : (g :: pre).getLast? = some l) :
    (replay (g :: pre)).m.curEpoch = some l.epochRec := by
  cases pre with
  | nil =>
    simp at hl; subst hl; rfl
  | cons p ps =>
    have hl' : (p :: ps).getLast? = some l := by simpa [List.getLast?_cons_cons] using hl
    simp only [replay]
    rw [attachAll_m (init g) (p :: ps) l hl']
    rfl

/-- **The stored current epoch follows the main chain** (since the repair of finding F12).  For
every commit of a new best block — extension, reorganisation of any depth, or the re-attachment of
several blocks after a truncation — the whole view *including the META current-epoch row* is the
replay of the new main chain, and that row is the new tip's epoch.  The only thing assumed about
epochs is continuity for a plain one-block extension inside an epoch (`hcont`: a block that does
not open an epoch has its parent's epoch record — a consensus rule, C07); the `hcur` side
condition of `reorg_eq_replay` is discharged. -/
theorem current_epoch_follows_main_chain (g : Block) (pre det att : List Block) (b : Block) (r' : Recs)
    (hwf : WellFormed g (pre ++ det))
    (hlast : att.getLast? = some b)
    (hext : RecsLe (replay (g :: (pre ++ det))).r r')
    (hatt : ∀ a ∈ att, epochOf r' a.id = some a.epochRec ∧ (a.isHead = true ↔ a.epochRec.start = a.number))
    (hcont : b.isHead = false → det = [] → att = [b] →
      ∀ p, (g :: pre).getLast? = some p → p.epochRec = b.epochRec) :
    (commitBest ⟨(replay (g :: (pre ++ det))).m, r'⟩ b det att).m = (replay (g :: (pre ++ att))).m ∧
    (commitBest ⟨(replay (g :: (pre ++ det))).m, r'⟩ b det att).m.curEpoch = some b.epochRec := by
  have hcur : b.isHead = true ∨ det ≠ [] ∨ att.length > 1 ∨ (replay (g :: pre)).m.curEpoch = some b.epochRec := by
    by_cases h1 : b.isHead = true
    · exact Or.inl h1
    by_cases h2 : det = []
    · by_cases h3 : att.length > 1
      · exact Or.inr (Or.inr (Or.inl h3))
      · refine Or.inr (Or.inr (Or.inr ?_))
        have hatt1 : att = [b] := by
          cases att with
          | nil => simp at hlast
          | cons a as =>
            cases as with
            | nil => simp at hlast; rw [hlast]
            | cons a2 as2 => simp at h3
        have hb : b.isHead = false := by cases h : b.isHead <;> simp_all
        obtain ⟨p, hp⟩ : ∃ p, (g :: pre).getLast? = some p := by
          cases h : (g :: pre).getLast? with
          | none => simp at h
          | some p => exact ⟨p, rfl⟩
        rw [replay_curEpoch g pre p hp, hcont hb h2 hatt1 p hp]
    · exact Or.inr (Or.inl h2)
  have h := reorg_eq_replay g pre det att b r' hwf hlast hext hatt hcur
  refine ⟨h, ?_⟩
  rw [h]
  apply replay_curEpoch
  cases att with
  | nil => simp at hlast
  | cons a as =>
    have : (g :: (pre ++ a :: as)).getLast? = (a :: as).getLast? := by
      rw [← List.cons_append, List.getLast?_append]
      simp [hlast]
    rw [this, hlast]

/-- a block that is not a new best block leaves the whole main-chain view untouched
(side-chain insertion) -/
theorem side_block_keeps_view (v : View) (b : Block)
    (h : ¬ (freshExt (insertBlock v.r b) b).td > tdOf (insertBlock v.r b) (v.m.tip.getD 0)) :
    (process v b).m = v.m := by
  simp only [process]
  simp [h]

/-! ### C02.3 — truncation -/

theorem truncate_eq_replay (g : Block) (pre det : List Block) (r' : Recs) (target : Nat)
    (hwf : WellFormed g (pre ++ det))
    (hext : RecsLe (replay (g :: (pre ++ det))).r r')
    (htip : (replay (g :: pre)).m.tip = some target)
    (hep : (match r'.blockEpoch target with | some k => r'.epochExt k | none => none)
            = (replay (g :: pre)).m.curEpoch) :
    (truncateWith ⟨(replay (g :: (pre ++ det))).m, r'⟩ target det).m = (replay (g :: pre)).m := by
  obtain ⟨hpre, hdet⟩ := validChain_append hwf.2
  have hcV : CellsConsistent (replay (g :: pre)).m (replay (g :: pre)).r :=
    cellsConsistent_replay g pre ⟨hwf.1, hpre⟩
  rw [replay_append] at hext ⊢
  have hdet' : ValidChain (replay (g :: pre)) det := hdet
  generalize replay (g :: pre) = V at *
  have hrb := rollback_attachAll V det hcV hdet' r' hext (attachAll V det).m.tip (attachAll V det).m.curEpoch
  have heta : (attachAll V det).m.withTC (attachAll V det).m.tip (attachAll V det).m.curEpoch = (attachAll V det).m := rfl
  rw [heta] at hrb
  simp only [truncateWith]
  rw [hrb]
  apply Main.ext' <;> try rfl
  · exact htip.symm
  · exact hep

/-! ### C02.4 — snapshots are values -/

/-- the published snapshots, oldest first -/
def publish (h : List View) (v : View) : List View := h ++ [v]

/-- publishing the state of a later commit never changes what an earlier snapshot reads: snapshot
`k` stays the state committed at step `k` (which, by `reorg_eq_replay` / `truncate_eq_replay`, is the
replay of the main chain at that commit) -/
theorem snapshot_is_commit_state (h : List View) (v : View) (k : Nat) (hk : k < h.length) :
    (publish h v)[k]? = h[k]? := by
  simp [publish, List.getElem?_append_left hk]

/-! ### witnesses: finding F9 before / after its repair, and the row the code still does not keep
equal to the replay (F12) -/

namespace Witness
def ZERO : Nat := 99
def cb (id : Nat) : Tx := { id := id, inputs := [], outputs := [] }
def e0 : EpochRec := ⟨0, 0, 3, ZERO⟩
def g : Block := { id := 0, parent := 0, number := 0, epoch := ⟨0, 0, 0⟩, txs := [{ id := 0, inputs := [], outputs := [⟨8, 0⟩] }], uncles := [], isHead := true, epochRec := e0 }
def b1 : Block := { id := 1, parent := 0, number := 1, epoch := ⟨0, 1, 3⟩, txs := [cb 1001], uncles := [], isHead := false, epochRec := e0 }
def b2 : Block := { id := 2, parent := 1, number := 2, epoch := ⟨0, 2, 3⟩, txs := [cb 1002], uncles := [], isHead := false, epochRec := e0 }
def b3 : Block := { id := 3, parent := 2, number := 3, epoch := ⟨1, 0, 3⟩, txs := [cb 1003], uncles := [], isHead := true, epochRec := ⟨1, 3, 3, 2⟩ }
def b4 : Block := { id := 4, parent := 3, number := 4, epoch := ⟨1, 1, 3⟩, txs := [cb 1004], uncles := [], isHead := false, epochRec := ⟨1, 3, 3, 2⟩ }
/-- fork: 1 ← 5 ← 6; block 6 opens epoch 1 on the fork and stays lighter than block 4 -/
def b5 : Block := { id := 5, parent := 1, number := 2, epoch := ⟨0, 2, 3⟩, txs := [cb 1002], uncles := [], isHead := false, epochRec := e0 }
def b6 : Block := { id := 6, parent := 5, number := 3, epoch := ⟨1, 0, 3⟩, txs := [cb 1003], uncles := [], isHead := true, epochRec := ⟨1, 3, 3, 5⟩ }
/-- extends block 4 (after the truncation to block 2) -/
def b7 : Block := { id := 7, parent := 4, number := 5, epoch := ⟨1, 2, 3⟩, txs := [cb 1005], uncles := [], isHead := false, epochRec := ⟨1, 3, 3, 2⟩ }

def main4 : View := process (process (process (process (init g) b1) b2) b3) b4
def afterFork : View := process (process main4 b5) b6
/-- the same history with the pre-repair number-row behaviour -/
def main4Pre : View := PreFix.process (PreFix.process (PreFix.process (PreFix.process (init g) b1) b2) b3) b4
def afterForkPre : View := PreFix.process (PreFix.process main4Pre b5) b6
/-- reorg from `g,1,2,3,4` to the fork `g,1,5,6,8,9` (which opened epoch 1 with block 6) -/
def b8 : Block := { id := 8, parent := 6, number := 4, epoch := ⟨1, 1, 3⟩, txs := [cb 1004], uncles := [], isHead := false, epochRec := ⟨1, 3, 3, 5⟩ }
def b9 : Block := { id := 9, parent := 8, number := 5, epoch := ⟨1, 2, 3⟩, txs := [cb 1005], uncles := [], isHead := false, epochRec := ⟨1, 3, 3, 5⟩ }
def afterReorg : View := process (process afterFork b8) b9
def afterTruncExtend : View := process (truncate main4 2) b7
/-- the same history with the pre-repair current-epoch write condition (finding F12) -/
def afterTruncExtendPre : View := PreF12.process (truncate main4 2) b7
end Witness

open Witness in
/-- **F9, before the repair (regression witness about `Store.PreFix`).** After the lighter fork
`1 ← 5 ← 6` crossed the epoch boundary, the main chain is still `g,1,2,3,4` (tip 4) but the
epoch-number row of epoch 1 named the fork's index (block 5), whereas the replay of the main chain
has block 2. -/
theorem epoch_number_row_not_replay_prefix :
    afterForkPre.m.tip = some 4 ∧ afterForkPre.m.index 3 = some 3 ∧
    afterForkPre.m.epochNum 1 = some 5 ∧ (replay [g, b1, b2, b3, b4]).m.epochNum 1 = some 2 := by
  decide

open Witness in
/-- **F9, after the repair.** On the same history the row still names the main chain's epoch
(block 2); when the fork later overtakes (`g,1,5,6,8,9`) the row follows it (block 5), and a
truncation back below the boundary removes it — in each case exactly the replay's row (this is an
instance of `reorg_eq_replay` / `truncate_eq_replay`, whose view now contains the row). -/
theorem epoch_number_row_follows_main_chain :
    afterFork.m.tip = some 4 ∧ afterFork.m.epochNum 1 = some 2 ∧
    afterReorg.m.tip = some 9 ∧ afterReorg.m.epochNum 1 = some 5 ∧
    (replay [g, b1, b5, b6, b8, b9]).m.epochNum 1 = some 5 ∧
    (truncate afterReorg 5).m.tip = some 5 ∧ (truncate afterReorg 5).m.epochNum 1 = none ∧
    (replay [g, b1, b5]).m.epochNum 1 = none := by
  decide

open Witness in
/-- **F12, before the repair (regression witness about `Store.PreF12`).** `truncate` to block 2
(epoch 0), then block 7 on top of the cut-off block 4: blocks 3, 4 are re-attached across the epoch
boundary with nothing detached and a tip that is not an epoch head, so with the old condition
`new_epoch || fork.has_detached()` the current-epoch row stayed at epoch 0 while the replay of
`g,1,2,3,4,7` has epoch 1.  (Every other column equalled the replay.) -/
theorem current_epoch_stale_after_truncate_prefix :
    afterTruncExtendPre.m.tip = some 7 ∧
    afterTruncExtendPre.m.curEpoch = some ⟨0, 0, 3, 99⟩ ∧
    (replay [g, b1, b2, b3, b4, b7]).m.curEpoch = some ⟨1, 3, 3, 2⟩ := by
  decide

open Witness in
/-- **F12, after the repair** (`|| fork.attached_blocks().len() > 1`, /repo commit 1f10d03): on the
same history three blocks are attached at once, the row is rewritten and equals the replay's (an
instance of `current_epoch_follows_main_chain`). -/
theorem current_epoch_after_truncate_extend :
    afterTruncExtend.m.tip = some 7 ∧
    afterTruncExtend.m.curEpoch = some ⟨1, 3, 3, 2⟩ ∧
    (replay [g, b1, b2, b3, b4, b7]).m.curEpoch = some ⟨1, 3, 3, 2⟩ ∧
    afterTruncExtend.m.index 5 = some 7 ∧ afterTruncExtend.m.epochNum 1 = some 2 := by
  decide

/-! ### non-vacuity: the hypotheses are satisfiable by a chain with a spend and a reorg -/

namespace Example
/-- genesis with one spendable cell; block 1 spends it (tx 5) and tx 6 spends tx 5's output in the
same block; block 2 is a sibling of block 1 re-committing tx 5 only -/
def g : Block := { id := 0, parent := 0, number := 0, epoch := ⟨0, 0, 0⟩, txs := [{ id := 0, inputs := [], outputs := [⟨8, 0⟩] }], uncles := [], isHead := true, epochRec := ⟨0, 0, 9, 99⟩ }
def t5 : Tx := { id := 5, inputs := [⟨0, 0⟩], outputs := [⟨8, 5⟩, ⟨8, 5⟩], fee := 1 }
def t6 : Tx := { id := 6, inputs := [⟨5, 1⟩], outputs := [⟨8, 6⟩], fee := 1 }
def b1 : Block := { id := 1, parent := 0, number := 1, epoch := ⟨0, 1, 9⟩, txs := [Witness.cb 1001, t5, t6], uncles := [], isHead := false, epochRec := ⟨0, 0, 9, 99⟩ }
def b2 : Block := { id := 2, parent := 0, number := 1, epoch := ⟨0, 1, 9⟩, txs := [Witness.cb 1001, t5], uncles := [], isHead := false, epochRec := ⟨0, 0, 9, 99⟩ }
end Example

open Example in
/-- on this concrete history the reorg from `g,1` to `g,2` computed by the model is the replay of
`g,2` on every column that is printed, and block 1's in-block create-and-spend left nothing behind -/
example :
    let v := commitBest ⟨(replay [g, b1]).m, (replay [g, b1]).r⟩ b2 [b1] [b2]
    v.m.cells ⟨5, 0⟩ = (replay [g, b2]).m.cells ⟨5, 0⟩ ∧ v.m.cells ⟨5, 1⟩ = (replay [g, b2]).m.cells ⟨5, 1⟩ ∧
    v.m.cells ⟨6, 0⟩ = none ∧ v.m.cells ⟨0, 0⟩ = none ∧ v.m.txInfo 6 = none ∧
    v.m.txInfo 5 = some ⟨2, 1, 1, ⟨0, 1, 9⟩⟩ ∧ (replay [g, b1]).m.cells ⟨5, 1⟩ = none ∧
    (replay [g, b1]).m.cells ⟨6, 0⟩ ≠ none := by
  decide

open Example in
/-- the well-formedness hypotheses are satisfiable: `g, b1` (a spend of a genesis cell and an
in-block create-and-spend) is a well-formed chain … -/
example : WellFormed g [b1] := by
  have cells_init : ∀ o : OutPoint, (init g).m.cells o =
      if o = ⟨0, 0⟩ then some (mkRow 0 0 ⟨0, 0, 0⟩ 0 ⟨8, 0⟩) else none := by
    intro o
    simp [init, attachOne, attachOneM, attachCell, attach, blockCells, outCells, insertCells, deleteCells,
      deadInputs, upd, g, Main.empty, View.empty]
  refine ⟨⟨by decide, ?_, ?_, rfl, rfl, ?_, ?_, Or.inl rfl, by decide, fun _ => rfl, Or.inl rfl, Or.inr ⟨rfl, rfl⟩⟩,
    ValidChain.cons ⟨by decide, ?_, ?_, by decide, by decide, ?_, ?_, Or.inl (by decide), by decide,
      (fun h => by cases h), Or.inl (by decide), Or.inl (by decide)⟩ (ValidChain.nil _)⟩
  · intro t _; rfl
  · intro o _; rfl
  · intro u hu; simp [g] at hu
  · intro o ho; simp [deadInputs, g] at ho
  · intro t ht
    simp [txIds, b1, Witness.cb, t5, t6] at ht
    rcases ht with rfl | rfl | rfl <;> decide
  · intro o ho
    simp [txIds, b1, Witness.cb, t5, t6] at ho
    rw [cells_init]
    have : o ≠ ⟨0, 0⟩ := by
      intro h; subst h; simp at ho
    simp [this]
  · intro u hu; simp [b1] at hu
  · intro o ho
    simp [deadInputs, b1, Witness.cb, t5, t6] at ho
    rcases ho with rfl | rfl
    · left; rw [cells_init]; simp
    · right; decide

open Example in
/-- … and `reorg_eq_replay` applies to it: the reorg from `g,b1` to the sibling `g,b2` is the replay
of `g,b2` (whole view, as functions) -/
example (hwf : WellFormed g [b1]) (r' : Recs) (hle : RecsLe (replay [g, b1]).r r')
    (hrec : epochOf r' 2 = some b2.epochRec) :
    (commitBest ⟨(replay [g, b1]).m, r'⟩ b2 [b1] [b2]).m = (replay [g, b2]).m :=
  reorg_eq_replay g [] [b1] [b2] b2 r' hwf rfl hle
    (by intro a ha; simp at ha; subst ha; exact ⟨hrec, by decide⟩) (Or.inr (Or.inl (by simp)))


/-! ### C02.5 — `find_fork` computes the right lists

`Model/Fork.lean` follows `find_fork` / `alignment_fork` / `find_fork_until_latest_common`
statement by statement.  `Fork.WF s cur newTip` is what the code's `expect`s assume: the new tip is
not genesis, numbers decrease by one along its parent path down to the genesis block, the main
chain `s.mainAt 0 ..= cur` is parent-linked and numbered.  `Fork.ancAt s x h` is the ancestor of
`x` at height `h`. -/

/-- **(a)** In all three alignment cases (new tip lower / equal / higher than the current tip — the
statement does not distinguish them) there is a height `c` which is that of the *latest common
ancestor* (`ancAt c = main[c]`, and no higher proper ancestor of the new tip is on the main chain),
and `find_fork` returns `detached = main[c+1 ..= cur]` and `attached =` the ancestors of the new
tip at heights `c+1 ..= number newTip` (the new tip last), both ascending, both parent-linked
starting at the common ancestor, with consecutive numbers; in particular `is_sorted_assert`
cannot fire. -/
theorem find_fork_lists (s : Fork.Store) (cur newTip : Nat) (wf : Fork.WF s cur newTip) :
    ∃ c, c ≤ cur ∧ c < s.number newTip ∧
      Fork.ancAt s newTip c = s.mainAt c ∧
      (∀ h, c < h → h ≤ cur → h < s.number newTip → Fork.ancAt s newTip h ≠ s.mainAt h) ∧
      (Fork.findFork s cur newTip).detached = (List.range' (c + 1) (cur - c)).map s.mainAt ∧
      (Fork.findFork s cur newTip).attached =
        (List.range' (c + 1) (s.number newTip - c)).map (Fork.ancAt s newTip) ∧
      Fork.Linked s (s.mainAt c) (Fork.findFork s cur newTip).detached ∧
      Fork.Linked s (s.mainAt c) (Fork.findFork s cur newTip).attached ∧
      (Fork.findFork s cur newTip).detached.map s.number = List.range' (c + 1) (cur - c) ∧
      (Fork.findFork s cur newTip).attached.map s.number = List.range' (c + 1) (s.number newTip - c) ∧
      (Fork.findFork s cur newTip).isSorted s = true := by
  obtain ⟨c, d, sp⟩ := Fork.findFork_spec s cur newTip wf
  have hK : s.number newTip - c ≤ s.number newTip := by omega
  have hlo : s.number newTip + 1 - (s.number newTip - c) = c + 1 := by have := sp.c_lt; omega
  have hnumA : (Fork.findFork s cur newTip).attached.map s.number = List.range' (c + 1) (s.number newTip - c) := by
    rw [sp.attached, Fork.ancList_numbers s newTip _ wf.branch_num hK, hlo]
  have hnumD : (Fork.findFork s cur newTip).detached.map s.number = List.range' (c + 1) (cur - c) := by
    rw [sp.detached]
    exact Fork.mainSeg_numbers s cur wf.main_num (c + 1) (cur - c) (by have := sp.c_le_cur; omega)
  refine ⟨c, sp.c_le_cur, sp.c_lt, sp.common, sp.latest, sp.detached, ?_, ?_, ?_, hnumD, hnumA, ?_⟩
  · rw [sp.attached, Fork.ancList_eq_map s newTip _ hK, hlo]
  · rw [sp.detached]
    exact Fork.linked_mainSeg s cur wf.main_link c (cur - c) (by have := sp.c_le_cur; omega)
  · rw [sp.attached, ← sp.common]
    exact Fork.linked_ancList s newTip _
  · simp only [Fork.ForkChanges.isSorted, Bool.and_eq_true]
    exact ⟨Fork.sortedByKey_of_range _ _ _ _ hnumA, Fork.sortedByKey_of_range _ _ _ _ hnumD⟩

/-- the ordinary case: a new tip whose parent is the current tip — nothing is detached and the
new tip alone is attached (with its own ext as the only dirty ext) -/
theorem find_fork_extension (s : Fork.Store) (cur newTip : Nat) (wf : Fork.WF s cur newTip)
    (hpar : s.parent newTip = s.mainAt cur) (hnum : s.number newTip = cur + 1) :
    Fork.findFork s cur newTip = { attached := [newTip], detached := [], dirtyExts := [newTip] } := by
  obtain ⟨c, d, sp⟩ := Fork.findFork_spec s cur newTip wf
  have hc : c = cur := by
    by_cases h : c < cur
    · exfalso
      apply sp.latest cur h (Nat.le_refl _) (by omega)
      unfold Fork.ancAt
      have : s.number newTip - cur = 1 := by omega
      rw [this]
      exact hpar
    · have := sp.c_le_cur; omega
  subst hc
  have hK : s.number newTip - c = 1 := by omega
  have hd : d = 1 := by have := sp.d_pos; have := sp.d_le; omega
  have h1 := sp.attached
  have h2 := sp.detached
  have h3 := sp.dirty
  rw [hK] at h1
  rw [hd] at h3
  have h0 : c - c = 0 := by omega
  rw [h0] at h2
  generalize Fork.findFork s c newTip = fk at *
  cases fk
  simp only at h1 h2 h3
  subst h1 h2 h3
  rfl

/-- **(b)** The lists satisfy the hypotheses of `reorg_eq_replay`: there is a common prefix `pre`
with `genesis :: pre ++ detached = ` the old main chain and `genesis :: pre ++ attached = ` the
parent path from genesis to the new tip; and on the number → hash index, deleting the detached
blocks newest first (`rollback`) and writing the attached ones oldest first
(`reconcile_main_chain`) turns the old main chain's index into exactly that parent path. -/
theorem find_fork_new_main (s : Fork.Store) (cur newTip : Nat) (wf : Fork.WF s cur newTip) :
    (∃ pre,
      s.mainAt 0 :: (pre ++ (Fork.findFork s cur newTip).detached) = (List.range' 0 (cur + 1)).map s.mainAt ∧
      s.mainAt 0 :: (pre ++ (Fork.findFork s cur newTip).attached) =
        (List.range' 0 (s.number newTip + 1)).map (Fork.ancAt s newTip)) ∧
    Fork.applyFork s (Fork.mainIndex s cur) (Fork.findFork s cur newTip) =
      Fork.branchIndex s newTip (s.number newTip) := by
  obtain ⟨c, d, sp⟩ := Fork.findFork_spec s cur newTip wf
  have hcc := sp.c_le_cur
  have hcN := sp.c_lt
  have hbelow := Fork.common_below s cur newTip wf c hcc (by omega) sp.common
  have hK : s.number newTip - c ≤ s.number newTip := by omega
  have hlo : s.number newTip + 1 - (s.number newTip - c) = c + 1 := by omega
  refine ⟨⟨Fork.mainSeg s 1 c, ?_, ?_⟩, ?_⟩
  · rw [sp.detached]
    have h1 : s.mainAt 0 :: Fork.mainSeg s 1 c = Fork.mainSeg s 0 (c + 1) := (Fork.mainSeg_succ s 0 c).symm
    rw [← List.cons_append, h1]
    have h2 := Fork.mainSeg_append s 0 (c + 1) (cur - c)
    have e1 : 0 + (c + 1) = c + 1 := by omega
    have e2 : c + 1 + (cur - c) = cur + 1 := by omega
    rw [e1, e2] at h2
    exact h2
  · rw [sp.attached, Fork.ancList_eq_map s newTip _ hK, hlo]
    have h1 : s.mainAt 0 :: Fork.mainSeg s 1 c = (List.range' 0 (c + 1)).map (Fork.ancAt s newTip) := by
      rw [← Fork.mainSeg_succ s 0 c]
      unfold Fork.mainSeg
      apply List.map_congr_left
      intro h hh
      rw [List.mem_range'_1] at hh
      exact (hbelow h (by omega)).symm
    rw [← List.cons_append, h1, ← List.map_append]
    have h2 : List.range' 0 (c + 1) ++ List.range' (c + 1) (s.number newTip - c) = List.range' 0 (s.number newTip + 1) := by
      have := @List.range'_append_1 0 (c + 1) (s.number newTip - c)
      have e1 : 0 + (c + 1) = c + 1 := by omega
      have e2 : c + 1 + (s.number newTip - c) = s.number newTip + 1 := by omega
      rw [e1, e2] at this
      exact this
    rw [h2]
  · unfold Fork.applyFork
    rw [sp.detached, sp.attached]
    have h1 := Fork.rollbackIndex_mainSeg s cur wf.main_num c (cur - c) (by omega)
    have e1 : c + (cur - c) = cur := by omega
    rw [e1] at h1
    rw [h1]
    have h2 : Fork.mainIndex s c = Fork.branchIndex s newTip (s.number newTip - (s.number newTip - c)) := by
      funext n
      have e2 : s.number newTip - (s.number newTip - c) = c := by omega
      simp only [Fork.mainIndex, Fork.branchIndex, e2]
      by_cases hn : n ≤ c
      · simp [hn, hbelow n hn]
      · simp [hn]
    rw [h2]
    exact Fork.attachIndex_ancList s newTip wf.branch_num _ hK

/-- **(c), structural half — holds with no assumption on the `verified` flags.**  `dirty_exts` is a
suffix of `attached_blocks`: `attached = attached.take verified_len ++ dirty_exts`, the usize
subtraction of `verified_len` does not underflow, and
`dirty_exts.zip(attached.skip(verified_len))` pairs every collected ext with the block it was read
for (its OWN block).  It consists of the new tip's ext and the exts of the new tip's nearest
ancestors read with `verified == None`, stopping at the first ancestor whose ext is verified. -/
theorem dirty_exts_suffix (s : Fork.Store) (cur newTip : Nat) (wf : Fork.WF s cur newTip) :
    (Fork.findFork s cur newTip).dirtyExts.length ≤ (Fork.findFork s cur newTip).attached.length ∧
    1 ≤ (Fork.findFork s cur newTip).dirtyExts.length ∧
    (Fork.findFork s cur newTip).dirtyExts =
      (Fork.findFork s cur newTip).attached.drop (Fork.findFork s cur newTip).verifiedLen ∧
    (Fork.findFork s cur newTip).attached =
      (Fork.findFork s cur newTip).verifiedPrefix ++ (Fork.findFork s cur newTip).dirtyExts ∧
    (Fork.findFork s cur newTip).dirtyPairs =
      (Fork.findFork s cur newTip).dirtyExts.map (fun x => (x, x)) ∧
    (∀ a ∈ (Fork.findFork s cur newTip).dirtyExts, a = newTip ∨ s.verNone a = true) := by
  obtain ⟨c, d, sp⟩ := Fork.findFork_spec s cur newTip wf
  have hlenA : (Fork.findFork s cur newTip).attached.length = s.number newTip - c := by
    rw [sp.attached, Fork.ancList_length]
  have hlenD : (Fork.findFork s cur newTip).dirtyExts.length = d := by
    rw [sp.dirty, Fork.ancList_length]
  have hv : (Fork.findFork s cur newTip).verifiedLen = s.number newTip - c - d := by
    simp only [Fork.ForkChanges.verifiedLen, hlenA, hlenD]
  have hdrop : (Fork.findFork s cur newTip).dirtyExts =
      (Fork.findFork s cur newTip).attached.drop (Fork.findFork s cur newTip).verifiedLen := by
    rw [hv, sp.attached, sp.dirty, Fork.ancList_drop s newTip d _ sp.d_le]
  refine ⟨by rw [hlenA, hlenD]; exact sp.d_le, by rw [hlenD]; exact sp.d_pos, hdrop, ?_, ?_, ?_⟩
  · simp only [Fork.ForkChanges.verifiedPrefix]
    rw [hdrop]
    exact (List.take_append_drop _ _).symm
  · simp only [Fork.ForkChanges.dirtyPairs]
    rw [← hdrop]
    exact Fork.zip_self _
  · intro a ha
    rw [sp.dirty, Fork.mem_ancList] at ha
    obtain ⟨j, hj, rfl⟩ := ha
    by_cases h0 : j = 0
    · subst h0; exact Or.inl rfl
    · exact Or.inr (sp.dirty_none j (by omega) hj)

/-- **(c)** Under the pipeline's invariant that "`ext.verified ≠ None`" is ancestor-closed along
the new branch (C01 proves it: a block is verified only after its parent), and with the new tip's
own ext unverified (it is the ext `verify_block` has just built), `dirty_exts` is *exactly* the
list of attached blocks whose ext is unverified, in ascending order; it equals the suffix
`attached.drop verified_len`, every `(ext, block)` pair of
`dirty_exts.zip(attached.skip(verified_len))` is an ext with ITS OWN block, the blocks
re-attached without verification (`attached.take verified_len`) all have a verified ext, and so
every attached block is handled exactly once, by the right loop. -/
theorem dirty_exts_aligned (s : Fork.Store) (cur newTip : Nat) (wf : Fork.WF s cur newTip)
    (hnew : s.verNone newTip = true)
    (hclosed : ∀ j, 1 ≤ j → s.verNone (Fork.anc s newTip j) = false →
      s.verNone (Fork.anc s newTip (j + 1)) = false) :
    (Fork.findFork s cur newTip).dirtyExts = (Fork.findFork s cur newTip).attached.filter s.verNone ∧
    (Fork.findFork s cur newTip).dirtyExts =
      (Fork.findFork s cur newTip).attached.drop (Fork.findFork s cur newTip).verifiedLen ∧
    (∀ p ∈ (Fork.findFork s cur newTip).dirtyPairs, p.1 = p.2) ∧
    (Fork.findFork s cur newTip).dirtyPairs.map (·.2) = (Fork.findFork s cur newTip).attached.filter s.verNone ∧
    (∀ a ∈ (Fork.findFork s cur newTip).verifiedPrefix, s.verNone a = false) ∧
    Fork.sortedByKey s.number (Fork.findFork s cur newTip).dirtyExts = true := by
  obtain ⟨hlen, hpos, hdrop, happ, hpairs, hmem⟩ := dirty_exts_suffix s cur newTip wf
  obtain ⟨c, d, sp⟩ := Fork.findFork_spec s cur newTip wf
  have htrue : ∀ j, j < d → s.verNone (Fork.anc s newTip j) = true := by
    intro j hj
    by_cases h0 : j = 0
    · subst h0; exact hnew
    · exact sp.dirty_none j (by omega) hj
  have hfalse : ∀ j, d ≤ j → j < s.number newTip - c → s.verNone (Fork.anc s newTip j) = false := by
    intro j h1 h2
    rcases sp.dirty_stop with h | ⟨_, h⟩
    · omega
    · exact Fork.closed_from s newTip d hclosed sp.d_pos h j h1
  have hfilter : (Fork.findFork s cur newTip).dirtyExts = (Fork.findFork s cur newTip).attached.filter s.verNone := by
    rw [sp.attached, sp.dirty, Fork.filter_ancList s newTip d htrue _ hfalse sp.d_le]
  refine ⟨hfilter, hdrop, ?_, ?_, ?_, ?_⟩
  · intro p hp
    rw [hpairs, List.mem_map] at hp
    obtain ⟨a, _, rfl⟩ := hp
    rfl
  · rw [← hfilter, hpairs, List.map_map]
    exact List.map_id _
  · intro a ha
    -- `a` is in the prefix, hence not in the filtered suffix, hence verified
    simp only [Fork.ForkChanges.verifiedPrefix] at ha
    have hv : (Fork.findFork s cur newTip).verifiedLen = s.number newTip - c - d := by
      simp only [Fork.ForkChanges.verifiedLen, sp.attached, sp.dirty, Fork.ancList_length]
    rw [hv, sp.attached] at ha
    obtain ⟨i, hi, hget⟩ := List.mem_iff_getElem.mp ha
    rw [List.length_take, Fork.ancList_length] at hi
    rw [List.getElem_take] at hget
    -- element `i` of `ancList K` is `anc (K-1-i)`
    have hidx : ∀ (K i : Nat) (h : i < (Fork.ancList s newTip K).length),
        (Fork.ancList s newTip K)[i] = Fork.anc s newTip (K - 1 - i) := by
      intro K
      induction K with
      | zero => intro i h; simp [Fork.ancList] at h
      | succ K ih =>
        intro i h
        cases i with
        | zero => simp [Fork.ancList]
        | succ i =>
          simp only [Fork.ancList, List.getElem_cons_succ]
          rw [ih i (by simpa [Fork.ancList] using h)]
          congr 1
          have : i < K := by simpa [Fork.ancList, Fork.ancList_length] using h
          omega
    rw [hidx] at hget
    rw [← hget]
    exact hfalse _ (by omega) (by omega)
  · rw [sp.dirty]
    exact Fork.sortedByKey_of_range _ _ _ _
      (Fork.ancList_numbers s newTip d wf.branch_num (by have := sp.d_le; omega))

/-! #### the same statements on a concrete tree: non-vacuity, the three alignment cases, and the
`push_back` mutation

```
main chain  0 ← 1 ← 2 ← 3                 (cur = 3)
side branch     1 ← 4 ← 5 ← 6 ← 7 ← 8     (numbers 2 … 6; 4, 5 verified, 6, 7, 8 not)
``` -/
namespace ForkExample

def s : Fork.Store where
  parent := fun x => match x with
    | 1 => 0 | 2 => 1 | 3 => 2 | 4 => 1 | 5 => 4 | 6 => 5 | 7 => 6 | 8 => 7 | _ => 0
  number := fun x => match x with
    | 0 => 0 | 1 => 1 | 2 => 2 | 3 => 3 | 4 => 2 | 5 => 3 | 6 => 4 | 7 => 5 | 8 => 6 | _ => 0
  mainAt := fun n => n
  verNone := fun x => x ≥ 6

/-- `alignment_fork`'s else-branch with `dirty_exts.push_back(ext)` instead of `push_front(ext)` -/
def alignUpBack (s : Fork.Store) (cur : Nat) : Nat → Fork.ForkChanges → Fork.GlobalIndex →
    Fork.ForkChanges × Fork.GlobalIndex
  | 0, f, i => (f, i)
  | fuel + 1, f, i =>
    if i.number > cur then
      let (f, i) :=
        if i.unseen then
          if s.verNone i.hash then ({ f with dirtyExts := f.dirtyExts ++ [i.hash] }, i)
          else (f, { i with unseen := false })
        else (f, i)
      alignUpBack s cur fuel { f with attached := i.hash :: f.attached } (i.forward (s.parent i.hash))
    else (f, i)

/-- `find_fork` over the mutated `alignment_fork` -/
def findForkBack (s : Fork.Store) (cur newTip : Nat) : Fork.ForkChanges :=
  let n := s.number newTip
  let f : Fork.ForkChanges := { dirtyExts := [newTip], attached := [newTip], detached := [] }
  let i : Fork.GlobalIndex := ⟨n - 1, s.parent newTip, true⟩
  let (f, i) := if n ≤ cur then (Fork.alignDown s f n (cur + 1 - n), i) else alignUpBack s cur i.number f i
  (Fork.untilCommon s i.number f i).1

end ForkExample

open ForkExample in
/-- the well-formedness hypotheses are satisfiable, for a new tip lower (4), equal (5) and higher
(8) than the current tip -/
example : Fork.WF s 3 4 ∧ Fork.WF s 3 5 ∧ Fork.WF s 3 8 := by
  refine ⟨⟨?_, ?_, ?_, ?_, ?_⟩, ⟨?_, ?_, ?_, ?_, ?_⟩, ⟨?_, ?_, ?_, ?_, ?_⟩⟩ <;> decide

open ForkExample in
/-- … and the model computes, in the three alignment cases, the lists of `find_fork_lists`
(common ancestor 1) and the aligned dirty exts of `dirty_exts_aligned` -/
example :
    Fork.findFork s 3 4 = { attached := [4], detached := [2, 3], dirtyExts := [4] } ∧
    Fork.findFork s 3 5 = { attached := [4, 5], detached := [2, 3], dirtyExts := [5] } ∧
    Fork.findFork s 3 8 = { attached := [4, 5, 6, 7, 8], detached := [2, 3], dirtyExts := [6, 7, 8] } ∧
    (Fork.findFork s 3 8).verifiedLen = 2 ∧
    (Fork.findFork s 3 8).dirtyPairs = [(6, 6), (7, 7), (8, 8)] ∧
    Fork.applyFork s (Fork.mainIndex s 3) (Fork.findFork s 3 8) 3 = some 5 ∧
    Fork.applyFork s (Fork.mainIndex s 3) (Fork.findFork s 3 4) 3 = none := by
  decide

open ForkExample in
/-- the hypotheses of `dirty_exts_aligned` hold on the example -/
example : s.verNone 8 = true ∧
    ∀ j, 1 ≤ j → s.verNone (Fork.anc s 8 j) = false → s.verNone (Fork.anc s 8 (j + 1)) = false := by
  refine ⟨by decide, ?_⟩
  intro j hj h
  have h6 : ∀ t, Fork.anc s 8 (6 + t) = 0 := by
    intro t
    induction t with
    | zero => decide
    | succ t ih => show s.parent (Fork.anc s 8 (6 + t)) = 0; rw [ih]; decide
  by_cases hj4 : j + 1 < 6
  · have : j = 1 ∨ j = 2 ∨ j = 3 ∨ j = 4 := by omega
    rcases this with rfl | rfl | rfl | rfl <;> revert h <;> decide
  · obtain ⟨t, ht⟩ : ∃ t, j + 1 = 6 + t := ⟨j + 1 - 6, by omega⟩
    rw [ht, h6]; decide

open ForkExample in
/-- **Mutation witness.**  Pushing the ext to the *other end* in `alignment_fork`'s else-branch
(`push_back` instead of `push_front`) leaves `attached`, `detached` and `verified_len` unchanged
but breaks the alignment: `reconcile_main_chain` would then store block 6's verification result
in the ext (total difficulty, uncle count) of block 8 and vice versa. -/
theorem dirty_push_back_misaligns :
    (findForkBack s 3 8).attached = (Fork.findFork s 3 8).attached ∧
    (findForkBack s 3 8).detached = (Fork.findFork s 3 8).detached ∧
    (findForkBack s 3 8).verifiedLen = (Fork.findFork s 3 8).verifiedLen ∧
    (findForkBack s 3 8).dirtyPairs = [(8, 6), (7, 7), (6, 8)] ∧
    (Fork.findFork s 3 8).dirtyPairs = [(6, 6), (7, 7), (8, 8)] := by
  decide

/-! ### C02.7 — `reconcile_main_chain`'s position-based ext handling writes the right records -/

/-- **The per-block verification records after a reorganisation.**  `reconcile_main_chain` does not
look at a block's ext to decide what to do with it: it attaches `attached.take verified_len` as
they are and pairs the rest with `dirty_exts` *by position* (`Model/Reconcile.lean`, `reconcileZip`).
On the lists `find_fork` returns — under the pipeline invariant of `dirty_exts_aligned`, and with
`extOf x` the ext row of block `x` as stored when `find_fork` ran (`verified == None` exactly for
the blocks the `find_fork` store calls unverified) — this is the same view *and the same record
store* as deciding block by block on the block's own stored ext (`Store.reconcile`, which is what
`reorg_eq_replay` and the `store` stream are about): every block gets `insert_ok_ext` applied to ITS
OWN ext (accumulated difficulty, uncle count), exactly once, and verified blocks keep theirs. -/
theorem reconcile_zip_eq_reconcile (s : Fork.Store) (cur newTip : Nat) (wf : Fork.WF s cur newTip)
    (hnew : s.verNone newTip = true)
    (hclosed : ∀ j, 1 ≤ j → s.verNone (Fork.anc s newTip j) = false →
      s.verNone (Fork.anc s newTip (j + 1)) = false)
    (v : View) (body : Nat → Block) (extOf : Nat → Ext)
    (hid : ∀ x ∈ (Fork.findFork s cur newTip).attached, (body x).id = x)
    (hr : ∀ x ∈ (Fork.findFork s cur newTip).attached,
      v.r.ext x = some (extOf x) ∧ ((extOf x).verified = none ↔ s.verNone x = true)) :
    reconcileZip v ((Fork.findFork s cur newTip).attached.map body)
        ((Fork.findFork s cur newTip).dirtyExts.map extOf)
      = reconcile v ((Fork.findFork s cur newTip).attached.map body) := by
  obtain ⟨_, _, _, happ, _, _⟩ := dirty_exts_suffix s cur newTip wf
  obtain ⟨hfilter, _, _, _, hprefix, _⟩ := dirty_exts_aligned s cur newTip wf hnew hclosed
  obtain ⟨c, d, sp⟩ := Fork.findFork_spec s cur newTip wf
  generalize Fork.findFork s cur newTip = fk at *
  have hpm : ∀ x ∈ fk.verifiedPrefix, x ∈ fk.attached := by
    intro x hx; rw [happ]; exact List.mem_append_left _ hx
  have hdm : ∀ x ∈ fk.dirtyExts, x ∈ fk.attached := by
    intro x hx; rw [happ]; exact List.mem_append_right _ hx
  have hdv : ∀ x ∈ fk.dirtyExts, s.verNone x = true := by
    intro x hx; rw [hfilter] at hx; exact (List.mem_filter.mp hx).2
  -- the (ext, block) pairs of the second loop
  let ps : List (Ext × Block) := fk.dirtyExts.map (fun x => (extOf x, body x))
  have hps2 : ps.map (·.2) = fk.dirtyExts.map body := by simp [ps, List.map_map, Function.comp_def]
  have hps1 : ps.map (·.1) = fk.dirtyExts.map extOf := by simp [ps, List.map_map, Function.comp_def]
  have hblocks : fk.attached.map body = fk.verifiedPrefix.map body ++ ps.map (·.2) := by
    rw [hps2, ← List.map_append, ← happ]
  rw [hblocks, ← hps1]
  apply reconcileZip_eq
  · intro a ha
    obtain ⟨x, hx, rfl⟩ := List.mem_map.mp ha
    right
    have hxa := hpm x hx
    rw [hid x hxa]
    refine ⟨extOf x, (hr x hxa).1, ?_⟩
    intro hnone
    have := (hr x hxa).2.mp hnone
    rw [hprefix x hx] at this
    cases this
  · intro p hp
    obtain ⟨x, hx, rfl⟩ := List.mem_map.mp hp
    have hxa := hdm x hx
    show v.r.ext (body x).id = some (extOf x) ∧ (extOf x).verified = none
    rw [hid x hxa]
    exact ⟨(hr x hxa).1, (hr x hxa).2.mpr (hdv x hx)⟩
  · have hids : ps.map (·.2.id) = fk.dirtyExts := by
      simp only [ps, List.map_map, Function.comp_def]
      calc List.map (fun x => (body x).id) fk.dirtyExts = List.map id fk.dirtyExts :=
            List.map_congr_left (fun x hx => hid x (hdm x hx))
        _ = fk.dirtyExts := List.map_id _
    rw [hids, sp.dirty]
    exact ancList_pairwise_ne s newTip wf.branch_num d (by have := sp.d_le; omega)

namespace ForkExample
/-- blocks of the example tree as store blocks (no transactions) and their stored exts: total
difficulty = number, blocks 6, 7, 8 unverified -/
def blk (x : Nat) : Block :=
  { id := x, parent := s.parent x, number := s.number x, epoch := ⟨0, s.number x, 100⟩, txs := [], uncles := [],
    isHead := false, epochRec := ⟨0, 0, 100, 99⟩ }
def extOf (x : Nat) : Ext := ⟨if x ≥ 6 then none else some true, s.number x, 0, []⟩
def view0 : View := ⟨Main.empty, { Recs.empty with ext := fun x => if x ≤ 8 then some (extOf x) else none }⟩
end ForkExample

open ForkExample in
/-- non-vacuity of `reconcile_zip_eq_reconcile`, and what the `push_back` mutation of
`dirty_push_back_misaligns` does to the records: with the aligned list every block's record keeps
its own accumulated difficulty (4, 5, 6 for blocks 6, 7, 8); with the reversed `dirty_exts` blocks 6
and 8 swap theirs -/
example :
    let fk := Fork.findFork s 3 8
    let good := reconcileZip view0 (fk.attached.map blk) (fk.dirtyExts.map extOf)
    let bad := reconcileZip view0 ((findForkBack s 3 8).attached.map blk) ((findForkBack s 3 8).dirtyExts.map extOf)
    (good.r.ext 6).map (·.td) = some 4 ∧ (good.r.ext 8).map (·.td) = some 6 ∧
    (good.r.ext 6).map (·.verified) = some (some true) ∧ (good.r.ext 5).map (·.td) = some 3 ∧
    (reconcile view0 (fk.attached.map blk)).r.ext 6 = good.r.ext 6 ∧
    (bad.r.ext 6).map (·.td) = some 6 ∧ (bad.r.ext 8).map (·.td) = some 4 ∧ good.m.index 4 = bad.m.index 4 := by
  decide

/-! ### C02.6 — the reorganisation theorem with `find_fork`'s lists computed, not given -/

/-! `forkStore body chain ver` (the store `find_fork` sees, read off a block tree), `pathTo` (the
parent path from genesis, as blocks) and `TreeWF` (the tree's well-formedness) are defined in
`Lemmas/ForkStore.lean`. -/

/-- **`reorg_eq_replay` with nothing given but the tree, the old main chain and the new tip.**
For every block tree `body`, every main chain `g :: rest` in it that could be attached block by
block, and every stored new tip `b` (any branch, lower / equal / higher than the current tip):
what `verify_block` commits when it runs the *computed* `find_fork` and then rolls back
`detached` newest first and reconciles `attached` oldest first is exactly the replay of the
parent path from genesis to `b`.  (`hext`, `hatt`, `hcur` are `reorg_eq_replay`'s hypotheses on the
record store and on the current-epoch row, stated over the branch; `hcur` is the code's
`new_epoch || fork.has_detached() || attached.len() > 1`; its last disjunct is epoch continuity for a
one-block extension, see `current_epoch_follows_main_chain`.) -/
theorem reorg_via_find_fork_eq_replay (body : Nat → Block) (g : Block) (rest : List Block) (b : Block)
    (r' : Recs) (ver : Nat → Bool)
    (htree : TreeWF body g rest b)
    (hwf : WellFormed g rest)
    (hext : RecsLe (replay (g :: rest)).r r')
    (hatt : ∀ k, k ≤ b.number →
      let a := body (Fork.anc (forkStore body (g :: rest) ver) b.id k)
      epochOf r' a.id = some a.epochRec ∧ (a.isHead = true ↔ a.epochRec.start = a.number))
    (hcur : b.isHead = true ∨
      (Fork.findFork (forkStore body (g :: rest) ver) rest.length b.id).detached ≠ [] ∨
      (Fork.findFork (forkStore body (g :: rest) ver) rest.length b.id).attached.length > 1 ∨
      (replay (g :: rest)).m.curEpoch = some b.epochRec) :
    (commitBest ⟨(replay (g :: rest)).m, r'⟩ b
        ((Fork.findFork (forkStore body (g :: rest) ver) rest.length b.id).detached.map body)
        ((Fork.findFork (forkStore body (g :: rest) ver) rest.length b.id).attached.map body)).m
      = (replay (pathTo (forkStore body (g :: rest) ver) body b.id)).m := by
  have wf := treeWF_wf htree ver
  generalize hs : forkStore body (g :: rest) ver = s at *
  obtain ⟨⟨pre, hdet, hattl⟩, _⟩ := find_fork_new_main s rest.length b.id wf
  obtain ⟨c, d, sp⟩ := Fork.findFork_spec s rest.length b.id wf
  generalize hfk : Fork.findFork s rest.length b.id = fk at *
  -- the old main chain, as blocks
  have hmain : ((List.range' 0 (rest.length + 1)).map s.mainAt).map body = g :: rest := by
    rw [← hs]
    exact map_body_main (chain := g :: rest) ver htree.stored
  have hold : body (s.mainAt 0) :: (pre.map body ++ fk.detached.map body) = g :: rest := by
    rw [← hmain, ← hdet]; simp
  have hg : body (s.mainAt 0) = g := (List.cons.inj hold).1
  have hrest : pre.map body ++ fk.detached.map body = rest := (List.cons.inj hold).2
  -- the new main chain, as blocks
  have hnew : pathTo s body b.id = g :: (pre.map body ++ fk.attached.map body) := by
    unfold pathTo
    have hc : (fun h => body (Fork.ancAt s b.id h)) = body ∘ Fork.ancAt s b.id := rfl
    rw [hc, ← List.map_map, ← hattl, ← hg]; simp
  -- the new tip is the last attached block
  have hlast : (fk.attached.map body).getLast? = some b := by
    rw [sp.attached]
    obtain ⟨K, hK⟩ : ∃ K, s.number b.id - c = K + 1 := ⟨s.number b.id - c - 1, by have := sp.c_lt; omega⟩
    rw [hK]
    have : ∀ K, (Fork.ancList s b.id (K + 1)).getLast? = some b.id := by
      intro K
      induction K with
      | zero => rfl
      | succ K ih =>
        show (Fork.anc s b.id (K + 1) :: (Fork.anc s b.id K :: Fork.ancList s b.id K)).getLast? = _
        rw [List.getLast?_cons_cons]; exact ih
    rw [List.getLast?_map, this K]
    simp [htree.tip_stored]
  rw [hnew]
  have key := reorg_eq_replay g (pre.map body) (fk.detached.map body) (fk.attached.map body) b r'
    (by rw [hrest]; exact hwf) hlast (by rw [hrest]; exact hext) ?_ ?_
  · rw [hrest] at key; exact key
  · intro a ha
    rw [sp.attached, List.mem_map] at ha
    obtain ⟨x, hx, rfl⟩ := ha
    rw [Fork.mem_ancList] at hx
    obtain ⟨j, hj, rfl⟩ := hx
    have hN : s.number b.id = b.number := by rw [← hs]; show (body b.id).number = _; rw [htree.tip_stored]
    have := hatt j (by have := sp.c_lt; omega)
    exact this
  · rcases hcur with h | h | h | h
    · exact Or.inl h
    · refine Or.inr (Or.inl ?_)
      intro hnil
      exact h (List.map_eq_nil_iff.mp hnil)
    · exact Or.inr (Or.inr (Or.inl (by rw [List.length_map]; exact h)))
    · by_cases hnil : fk.detached = []
      · refine Or.inr (Or.inr (Or.inr ?_))
        have : pre.map body = rest := by rw [← hrest, hnil]; simp
        rw [this]; exact h
      · refine Or.inr (Or.inl ?_)
        intro hn
        exact hnil (List.map_eq_nil_iff.mp hn)


/-- **The chain-service step of the model, end to end.**  `Store.process` (the function the `store`
stream is compared with after every block; it finds the fork with its own inlined walk) on the
replay of any well-formed main chain `g :: rest`, for any stored new block `b` of any branch of
the tree that has more accumulated work than the tip: the committed view is the replay of the
parent path from genesis to `b`.  No detached / attached list is an input any more: `process` is
shown to commit through `Fork.findFork`'s lists (`process_eq_commitBest_findFork`), which are
correct by `find_fork_lists` / `find_fork_new_main`.  `hnew`: the rows written for `b` itself
(body, block → epoch, epoch record) do not overwrite different rows (records are per hash). -/
theorem process_reorg_eq_replay (body : Nat → Block) (g : Block) (rest : List Block) (b : Block)
    (r : Recs) (ver : Nat → Bool)
    (htree : TreeWF body g rest b)
    (hwf : WellFormed g rest)
    (hext : RecsLe (replay (g :: rest)).r r)
    (hanc : ∀ k, 1 ≤ k → k ≤ b.number →
      r.bodies (Fork.anc (forkStore body (g :: rest) ver) b.id k) =
        some (body (Fork.anc (forkStore body (g :: rest) ver) b.id k)))
    (hbest : (freshExt (insertBlock r b) b).td > tdOf (insertBlock r b) ((replay (g :: rest)).m.tip.getD 0))
    (hnew : RecsLe r (recsBest r b))
    (hatt : ∀ k, k ≤ b.number →
      let a := body (Fork.anc (forkStore body (g :: rest) ver) b.id k)
      epochOf (recsBest r b) a.id = some a.epochRec ∧ (a.isHead = true ↔ a.epochRec.start = a.number))
    (hcur : b.isHead = true ∨
      (Fork.findFork (forkStore body (g :: rest) ver) rest.length b.id).detached ≠ [] ∨
      (Fork.findFork (forkStore body (g :: rest) ver) rest.length b.id).attached.length > 1 ∨
      (replay (g :: rest)).m.curEpoch = some b.epochRec) :
    (process ⟨(replay (g :: rest)).m, r⟩ b).m
      = (replay (pathTo (forkStore body (g :: rest) ver) body b.id)).m := by
  have wf := treeWF_wf htree ver
  have hN : (forkStore body (g :: rest) ver).number b.id = b.number := by
    show (body b.id).number = _; rw [htree.tip_stored]
  have hmain : ∀ n, n ≤ rest.length →
      r.bodies ((forkStore body (g :: rest) ver).mainAt n) = some (body ((forkStore body (g :: rest) ver).mainAt n)) := by
    intro n hn
    have hlt : n < (g :: rest).length := by simp; omega
    have hget : (g :: rest).getD n default = (g :: rest)[n] := by
      simp [List.getD, List.getElem?_eq_getElem hlt]
    show r.bodies ((g :: rest).getD n default).id = some (body ((g :: rest).getD n default).id)
    rw [hget, htree.stored _ (List.getElem_mem hlt)]
    exact hext.bodies _ _ (replay_bodies g rest hwf.2 _ (List.getElem_mem hlt))
  have hstep := process_eq_commitBest_findFork ⟨(replay (g :: rest)).m, r⟩ b body
    (forkStore body (g :: rest) ver) rest.length (fun _ => rfl) (fun _ => rfl) htree.tip_stored wf
    (replay_index body g rest ver htree.chain_num) (replay_tip body g rest ver)
    (fun k h1 h2 => hanc k h1 (by rw [hN] at h2; exact h2)) hmain hbest
  rw [hstep]
  exact reorg_via_find_fork_eq_replay body g rest b (recsBest r b) ver htree hwf
    (RecsLe.trans hext hnew) hatt hcur


/-- the link used above, restated as a property theorem: on a view whose index / tip are the main
chain and whose records hold the tree, `Store.process` commits a new best block through exactly
the lists of the statement-by-statement `find_fork` model -/
theorem process_runs_find_fork (v : View) (b : Block) (body : Nat → Block) (s : Fork.Store) (cur : Nat)
    (hpar : ∀ y, s.parent y = (body y).parent) (hnum : ∀ y, s.number y = (body y).number)
    (hb : body b.id = b) (wf : Fork.WF s cur b.id)
    (hidx : v.m.index = Fork.mainIndex s cur) (htip : v.m.tip = some (s.mainAt cur))
    (hanc : ∀ k, 1 ≤ k → k ≤ s.number b.id → v.r.bodies (Fork.anc s b.id k) = some (body (Fork.anc s b.id k)))
    (hmain : ∀ n, n ≤ cur → v.r.bodies (s.mainAt n) = some (body (s.mainAt n)))
    (hbest : (freshExt (insertBlock v.r b) b).td > tdOf (insertBlock v.r b) (v.m.tip.getD 0)) :
    process v b = commitBest ⟨v.m, recsBest v.r b⟩ b
      ((Fork.findFork s cur b.id).detached.map body) ((Fork.findFork s cur b.id).attached.map body) :=
  process_eq_commitBest_findFork v b body s cur hpar hnum hb wf hidx htip hanc hmain hbest

namespace Example
/-- a child of the sibling block 2: the branch `g, b2, b3` is heavier than the main chain `g, b1` -/
def b3 : Block := { id := 3, parent := 2, number := 2, epoch := ⟨0, 2, 9⟩, txs := [Witness.cb 1002], uncles := [], isHead := false, epochRec := ⟨0, 0, 9, 99⟩ }
end Example

open Example in
/-- non-vacuity of `process_reorg_eq_replay` / `process_runs_find_fork`: with block 2 stored as a
side block (`process` of it leaves the view untouched), block 3 is a new best block, and the step
commits the replay of `g, b2, b3` (tip, index, the cells of the re-committed transaction 5, nothing
left of block 1's transaction 6) -/
example :
    let v1 := process (replay [g, b1]) b2
    let v := process v1 b3
    v1.m.tip = some 1 ∧
    (freshExt (insertBlock v1.r b3) b3).td > tdOf (insertBlock v1.r b3) (v1.m.tip.getD 0) ∧
    v.m.tip = some 3 ∧ v.m.index 1 = some 2 ∧ v.m.index 2 = some 3 ∧ v.m.rindex 1 = none ∧
    v.m.cells ⟨6, 0⟩ = none ∧ v.m.txInfo 6 = none ∧
    v.m.cells ⟨5, 0⟩ = (replay [g, b2, b3]).m.cells ⟨5, 0⟩ ∧
    v.m.cells ⟨5, 1⟩ = (replay [g, b2, b3]).m.cells ⟨5, 1⟩ ∧
    v.m.curEpoch = (replay [g, b2, b3]).m.curEpoch := by
  decide

/-- **Truncation with the detached list computed.**  `truncate(target)` for the main-chain block of
height `k` (`make_fork_for_truncate` lists the main chain above it through the number → hash index;
the model's `Store.truncate` does the same walk): on the replay of any well-formed chain the result
is the replay of its first `k + 1` blocks.  (`hep`: the block → epoch index of the target names the
target's epoch record, as in `truncate_eq_replay`.) -/
theorem truncate_via_index_eq_replay (body : Nat → Block) (g : Block) (rest : List Block) (r : Recs) (k : Nat)
    (hk : k ≤ rest.length)
    (hstored : ∀ blk ∈ g :: rest, body blk.id = blk)
    (hnum : ∀ n (h : n < (g :: rest).length), ((g :: rest)[n]).number = n)
    (hwf : WellFormed g rest)
    (hext : RecsLe (replay (g :: rest)).r r)
    (hep : (match r.blockEpoch ((g :: rest).getD k default).id with | some e => r.epochExt e | none => none)
            = (replay (g :: rest.take k)).m.curEpoch) :
    (truncate ⟨(replay (g :: rest)).m, r⟩ ((g :: rest).getD k default).id).m = (replay (g :: rest.take k)).m := by
  let s := forkStore body (g :: rest) (fun _ => false)
  have hidx := replay_index body g rest (fun _ => false) hnum
  have htipR := replay_tip body g rest (fun _ => false)
  have hbod : ∀ n, n ≤ rest.length → r.bodies (s.mainAt n) = some (body (s.mainAt n)) := by
    intro n hn
    have hlt : n < (g :: rest).length := by simp; omega
    have hget : (g :: rest).getD n default = (g :: rest)[n] := by
      simp [List.getD, List.getElem?_eq_getElem hlt]
    show r.bodies ((g :: rest).getD n default).id = some (body ((g :: rest).getD n default).id)
    rw [hget, hstored _ (List.getElem_mem hlt)]
    exact hext.bodies _ _ (replay_bodies g rest hwf.2 _ (List.getElem_mem hlt))
  have hnumOf : ∀ n, n ≤ rest.length → numberOf r (s.mainAt n) = n := by
    intro n hn
    have hlt : n < (g :: rest).length := by simp; omega
    have hget : (g :: rest).getD n default = (g :: rest)[n] := by
      simp [List.getD, List.getElem?_eq_getElem hlt]
    simp only [numberOf, hbod n hn]
    show (body ((g :: rest).getD n default).id).number = n
    rw [hget, hstored _ (List.getElem_mem hlt)]
    exact hnum n hlt
  -- the chain as blocks, split at height k
  have hmainB := map_body_main (chain := g :: rest) (fun _ => false) hstored
  have hsplit : (Fork.mainSeg s 0 (k + 1)).map body ++ (Fork.mainSeg s (k + 1) (rest.length - k)).map body = g :: rest := by
    rw [← List.map_append]
    have := Fork.mainSeg_append s 0 (k + 1) (rest.length - k)
    have e1 : 0 + (k + 1) = k + 1 := by omega
    have e2 : k + 1 + (rest.length - k) = rest.length + 1 := by omega
    rw [e1, e2] at this
    rw [this]
    exact hmainB
  have hdet : (Fork.mainSeg s (k + 1) (rest.length - k)).map body = rest.drop k := by
    have h1 := congrArg (List.drop (k + 1)) hsplit
    rw [List.drop_left' (by simp [Fork.mainSeg_length])] at h1
    simpa using h1
  have hmb := mainBlocks_spec (replay (g :: rest)).m r body s rest.length hidx hbod k (rest.length - k) (by omega)
  -- unfold `truncate`
  have htr : truncate ⟨(replay (g :: rest)).m, r⟩ (s.mainAt k) =
      truncateWith ⟨(replay (g :: rest)).m, r⟩ (s.mainAt k) (rest.drop k) := by
    simp only [truncate, htipR, Option.getD_some]
    show truncateWith _ _ (mainBlocks (replay (g :: rest)).m r (numberOf r (s.mainAt k))
      (numberOf r (s.mainAt rest.length) - numberOf r (s.mainAt k))) = _
    rw [hnumOf rest.length (Nat.le_refl _), hnumOf k hk, hmb, hdet]
  show (truncate ⟨(replay (g :: rest)).m, r⟩ (s.mainAt k)).m = _
  rw [htr]
  have hrest : rest.take k ++ rest.drop k = rest := List.take_append_drop k rest
  have hwf' : WellFormed g (rest.take k ++ rest.drop k) := by rw [hrest]; exact hwf
  have hext' : RecsLe (replay (g :: (rest.take k ++ rest.drop k))).r r := by rw [hrest]; exact hext
  have htip' : (replay (g :: rest.take k)).m.tip = some (s.mainAt k) := by
    rw [replay_tip body g (rest.take k) (fun _ => false)]
    show some ((g :: rest.take k).getD (rest.take k).length default).id = some ((g :: rest).getD k default).id
    have hl : (rest.take k).length = k := by simp; omega
    rw [hl]
    cases k with
    | zero => rfl
    | succ k =>
      simp only [List.getD, List.getElem?_cons_succ]
      rw [List.getElem?_take]
      simp
  have := truncate_eq_replay g (rest.take k) (rest.drop k) r (s.mainAt k) hwf' hext' htip' hep
  rw [hrest] at this
  exact this

open Witness in
/-- non-vacuity of `truncate_via_index_eq_replay` (k = 2 on the five-block chain of the witnesses):
the hypothesis on the target's epoch record holds and the columns are the replay's -/
example :
    let v := replay [g, b1, b2, b3, b4]
    (match v.r.blockEpoch ([g, b1, b2, b3, b4].getD 2 default).id with | some e => v.r.epochExt e | none => none)
      = (replay (g :: [b1, b2, b3, b4].take 2)).m.curEpoch ∧
    (truncate v 2).m.tip = some 2 ∧ (truncate v 2).m.index 3 = none ∧ (truncate v 2).m.index 2 = some 2 ∧
    (truncate v 2).m.epochNum 1 = none ∧ (truncate v 2).m.curEpoch = (replay [g, b1, b2]).m.curEpoch := by
  decide

namespace Example
/-- the block tree of the example: genesis, block 1 and its sibling block 2 -/
def body (x : Nat) : Block := match x with | 1 => b1 | 2 => b2 | _ => g
end Example

open Example in
/-- the tree hypotheses are satisfiable: main chain `g, b1`, new tip the sibling `b2` … -/
example : TreeWF body g [b1] b2 := by
  refine ⟨?_, rfl, ?_, ?_, by decide, ?_, by decide⟩
  · intro blk h
    simp only [List.mem_cons, List.not_mem_nil, or_false] at h
    rcases h with rfl | rfl <;> rfl
  · intro n h
    have : n = 0 ∨ n = 1 := by simp at h; omega
    rcases this with rfl | rfl <;> rfl
  · intro n h
    have : n = 0 := by simp at h; omega
    subst this; rfl
  · intro k hk
    have : k = 0 ∨ k = 1 := by have : b2.number = 1 := rfl; omega
    rcases this with rfl | rfl <;> rfl

open Example in
/-- … the computed `find_fork` detaches block 1 and attaches block 2 (all exts but the new tip's
verified), the parent path to the new tip is `g, b2` … -/
example :
    Fork.findFork (forkStore body [g, b1] (fun x => x == 2)) 1 2 =
      { attached := [2], detached := [1], dirtyExts := [2] } ∧
    pathTo (forkStore body [g, b1] (fun x => x == 2)) body 2 = [g, b2] := by
  decide

open Example in
/-- … and `reorg_via_find_fork_eq_replay` applies: the commit computed through `find_fork` is the
replay of `g, b2` -/
example (hwf : WellFormed g [b1]) (htree : TreeWF body g [b1] b2) (r' : Recs)
    (hle : RecsLe (replay [g, b1]).r r')
    (hrec : epochOf r' 2 = some b2.epochRec) (hrec0 : epochOf r' 0 = some g.epochRec) :
    (commitBest ⟨(replay [g, b1]).m, r'⟩ b2
        ((Fork.findFork (forkStore body [g, b1] (fun x => x == 2)) 1 2).detached.map body)
        ((Fork.findFork (forkStore body [g, b1] (fun x => x == 2)) 1 2).attached.map body)).m
      = (replay [g, b2]).m := by
  have h := reorg_via_find_fork_eq_replay body g [b1] b2 r' (fun x => x == 2) htree hwf hle
    (by
      intro k hk
      have : k = 0 ∨ k = 1 := by have : b2.number = 1 := rfl; omega
      rcases this with rfl | rfl
      · exact ⟨hrec, by decide⟩
      · exact ⟨hrec0, by decide⟩)
    (Or.inr (Or.inl (by decide)))
  have hp : pathTo (forkStore body [g, b1] (fun x => x == 2)) body 2 = [g, b2] := by decide
  have hid : b2.id = 2 := rfl
  have hl : [b1].length = 1 := rfl
  rw [hid, hl, hp] at h
  exact h

end CkbVerif.C02
