/-
C02 — stored chain state and every snapshot equal a replay of the main chain.

Theorems about `Model/Store.lean` (the column writes of `store/src/cell.rs`,
`store/src/transaction.rs` and `chain/src/verify.rs`, in the code's order).  All statements are for
every view / every block / every chain (induction), under the well-formedness that block
verification enforces (`Valid`, `ValidChain`, `WellFormed`).  `find_fork` itself (how the node
computes `det` / `att`) is tied by the correspondence run, not proved here.

The epoch-number row (`COLUMN_EPOCH[number]`) is part of the proved view since the repair of
finding F9 (/repo commit e69f9a7): `attach_block` / `detach_block` maintain it.  The pre-repair
behaviour is kept as `Store.PreFix` with its regression witness `epoch_number_row_not_replay_prefix`.
One row is still *not* a function of the main chain in the code as written; the model mirrors the
code and the witness is kept: `current_epoch_stale_after_truncate` (finding F12).
-/
import CkbVerif.Lemmas.StoreInv
namespace CkbVerif.C02
open CkbVerif.Store

/-- a chain `g :: rest` every block of which could be attached in turn -/
def WellFormed (g : Block) (rest : List Block) : Prop :=
  Valid Main.empty Recs.empty g ∧ ValidChain (init g) rest

/-! ### helper facts (kept here because they are about `replay`) -/

theorem attachAll_append (v : View) (as bs : List Block) :
    attachAll v (as ++ bs) = attachAll (attachAll v as) bs := by
  induction as generalizing v with
  | nil => rfl
  | cons a as ih => simp [attachAll, ih]

theorem replay_append (g : Block) (pre bs : List Block) :
    replay (g :: (pre ++ bs)) = attachAll (replay (g :: pre)) bs := by
  simp [replay, attachAll_append]

theorem validChain_append {v : View} {as bs : List Block} (h : ValidChain v (as ++ bs)) :
    ValidChain v as ∧ ValidChain (attachAll v as) bs := by
  induction as generalizing v with
  | nil => exact ⟨ValidChain.nil v, h⟩
  | cons a as ih =>
    cases h with
    | cons ha hrest =>
      obtain ⟨h1, h2⟩ := ih hrest
      exact ⟨ValidChain.cons ha h1, h2⟩

theorem cellsConsistent_init (g : Block) (hg : Valid Main.empty Recs.empty g) :
    CellsConsistent (init g).m (init g).r := by
  have h0 : CellsConsistent Main.empty Recs.empty := by
    intro o row h; simp [Main.empty] at h
  have := cellsConsistent_attachOne Main.empty Recs.empty g h0 hg
  intro o row h
  obtain ⟨info, blk, tx, out, h1, h2, h3, h4, h5⟩ := this o row h
  exact ⟨info, blk, tx, out, h1, h2, h3, h4, h5⟩

theorem cellsConsistent_replay (g : Block) (rest : List Block) (h : WellFormed g rest) :
    CellsConsistent (replay (g :: rest)).m (replay (g :: rest)).r :=
  cellsConsistent_attachAll (cellsConsistent_init g h.1) h.2

/-- the cell / tx-info / index / uncles / epoch-number writes of a list of blocks, without tip and
current epoch; `ef` is the epoch `attach_block` finds for a block -/
def attachAllM (ef : Block → Option EpochRec) (m : Main) : List Block → Main
  | [] => m
  | b :: bs => attachAllM ef (attachCell (attach m (ef b) b) b) bs

theorem attachAllM_withTC (ef) (m : Main) (t c) (bs : List Block) :
    attachAllM ef (m.withTC t c) bs = (attachAllM ef m bs).withTC t c := by
  induction bs generalizing m with
  | nil => rfl
  | cons b bs ih =>
    simp only [attachAllM]
    have : attachCell (attach (m.withTC t c) (ef b) b) b = (attachCell (attach m (ef b) b) b).withTC t c := by
      simp only [attachCell]
      have h : attach (m.withTC t c) (ef b) b = (attach m (ef b) b).withTC t c := rfl
      rw [h, insertCells_withTC, deleteCells_withTC]
    rw [this, ih]

theorem epochOf_reconcileOne (v : View) (b : Block) (id : Nat) :
    epochOf (reconcileOne v b).r id = epochOf v.r id := by
  simp only [reconcileOne]
  split
  · split <;> rfl
  · rfl

theorem reconcile_m (v : View) (bs : List Block) :
    (reconcile v bs).m = attachAllM (fun b => epochOf v.r b.id) v.m bs := by
  induction bs generalizing v with
  | nil => rfl
  | cons b bs ih =>
    simp only [reconcile, attachAllM]
    rw [ih]
    have : (fun x : Block => epochOf (reconcileOne v b).r x.id) = fun x => epochOf v.r x.id := by
      funext x; exact epochOf_reconcileOne v b x.id
    rw [this]
    rfl

/-- looking the epoch up through the records (`attach_block`) and writing it for epoch heads only
(the reference store) are the same number-row write when the record is the block's own epoch -/
theorem attachAllM_congr (ef : Block → Option EpochRec) (m : Main) (bs : List Block)
    (h : ∀ a ∈ bs, ef a = some a.epochRec ∧ (a.isHead = true ↔ a.epochRec.start = a.number)) :
    attachAllM ef m bs = attachAllM headEpoch m bs := by
  induction bs generalizing m with
  | nil => rfl
  | cons b bs ih =>
    simp only [attachAllM]
    have hb := h b (by simp)
    have : attach m (ef b) b = attach m (headEpoch b) b := by
      have he : attachEpochNum m.epochNum (ef b) b = attachEpochNum m.epochNum (headEpoch b) b := by
        rw [hb.1]
        unfold attachEpochNum headEpoch
        by_cases hh : b.isHead = true
        · simp [hh]
        · have : ¬ b.epochRec.start = b.number := fun hs => hh (hb.2.mpr hs)
          simp [hh, this]
      simp only [attach, he]
    rw [this]
    exact ih _ (fun a ha => h a (List.mem_cons_of_mem _ ha))

theorem attachAll_m (v : View) (bs : List Block) (b : Block) (hl : bs.getLast? = some b) :
    (attachAll v bs).m = (attachAllM headEpoch v.m bs).withTC (some b.id) (some b.epochRec) := by
  induction bs generalizing v with
  | nil => simp at hl
  | cons a as ih =>
    cases as with
    | nil =>
      simp at hl; subst hl
      rfl
    | cons a2 as2 =>
      have hl' : (a2 :: as2).getLast? = some b := by simpa [List.getLast?_cons_cons] using hl
      simp only [attachAll, attachAllM] at ih ⊢
      rw [ih (attachOne v a) hl']
      show (attachAllM headEpoch (attachCell (attach (attachOneM v.m a) (headEpoch a2) a2) a2) as2).withTC _ _ = _
      rw [attachOneM_eq]
      have := attachAllM_withTC headEpoch (attachCell (attach v.m (headEpoch a) a) a) (some a.id) (some a.epochRec) (a2 :: as2)
      simp only [attachAllM] at this
      rw [this]
      rfl

/-! ### C02.1 — undo is exact -/

/-- `detach_block` + `detach_block_cell` of the block that was just attached restore the live-cell
columns, the tx-info column, both index directions and the uncle index exactly, for every view and
every block that verification would accept on it — including cells created and spent inside the
block, and with the tx-info rows deleted *before* the spent cells are rebuilt through them. -/
theorem detach_attach_cell (m : Main) (r r' : Recs) (b : Block)
    (hc : CellsConsistent m r) (hv : Valid m r b)
    (hext : ∀ id blk, r.bodies id = some blk → r'.bodies id = some blk) :
    detachCell (detach (attachCell (attach m (headEpoch b) b) b) (some b.epochRec) b) r' b = m :=
  detach_attach m r r' b (headEpoch b) (some b.epochRec) hc hv hext (epochNum_undo hv)

/-- the consistency invariant that makes the undo exact holds on every replayed chain -/
theorem replay_cells_consistent (g : Block) (rest : List Block) (h : WellFormed g rest) :
    CellsConsistent (replay (g :: rest)).m (replay (g :: rest)).r :=
  cellsConsistent_replay g rest h

/-! ### C02.2 — reorganisation of any depth = replay of the new main chain -/

/-- What `verify_block` commits for a new best block (`rollback` of `det` newest first, then
`reconcile_main_chain` over `att`, tip, conditional current-epoch write), started from a store whose
view is the replay of `g :: pre ++ det`, is the replay of `g :: pre ++ att` — for every fork point,
every depth, every content of the two branches (re-committed transactions, cells created on the
detached branch and spent on it, …).  `r'` is the node's record store (it may hold any number of
side-chain blocks).  `hcur` is the condition under which the code's `if new_epoch ||
fork.has_detached()` is enough; it always holds without `truncate` (then `det = []` means the block
extends the tip inside its epoch). -/
theorem reorg_eq_replay (g : Block) (pre det att : List Block) (b : Block) (r' : Recs)
    (hwf : WellFormed g (pre ++ det))
    (hlast : att.getLast? = some b)
    (hext : RecsLe (replay (g :: (pre ++ det))).r r')
    (hatt : ∀ a ∈ att, epochOf r' a.id = some a.epochRec ∧ (a.isHead = true ↔ a.epochRec.start = a.number))
    (hcur : b.isHead = true ∨ det ≠ [] ∨ (replay (g :: pre)).m.curEpoch = some b.epochRec) :
    (commitBest ⟨(replay (g :: (pre ++ det))).m, r'⟩ b det att).m = (replay (g :: (pre ++ att))).m := by
  obtain ⟨hpre, hdet⟩ := validChain_append hwf.2
  have hcV : CellsConsistent (replay (g :: pre)).m (replay (g :: pre)).r :=
    cellsConsistent_replay g pre ⟨hwf.1, hpre⟩
  rw [replay_append] at hext ⊢
  rw [replay_append g pre att]
  have hdet' : ValidChain (replay (g :: pre)) det := hdet
  generalize replay (g :: pre) = V at *
  have hrb := rollback_attachAll V det hcV hdet' r' hext (attachAll V det).m.tip (attachAll V det).m.curEpoch
  have heta : (attachAll V det).m.withTC (attachAll V det).m.tip (attachAll V det).m.curEpoch = (attachAll V det).m := rfl
  rw [heta] at hrb
  simp only [commitBest]
  have hrr : (rollback ⟨(attachAll V det).m, r'⟩ det.reverse).r = r' := by simp
  rw [reconcile_m, hrr, hrb, attachAllM_withTC, attachAll_m V att b hlast,
    attachAllM_congr (fun b => epochOf r' b.id) V.m att hatt]
  by_cases hcond : (b.isHead || !det.isEmpty) = true
  · simp only [hcond, if_true]; rfl
  · simp only [hcond]
    have hb : b.isHead = false := by
      cases h : b.isHead <;> simp_all
    have hd : det = [] := by
      cases det with
      | nil => rfl
      | cons d ds => simp [hb] at hcond
    subst hd
    rcases hcur with h | h | h
    · rw [hb] at h; cases h
    · exact absurd rfl h
    · simp only [attachAll] at *
      apply Main.ext' <;> try rfl
      exact h

/-- extension of the tip is the special case `det = []`, `att = [b]`: the chain service's commit is
the replay step (this is `attachAll from genesis = replay`, one block at a time) -/
theorem attach_replay (g : Block) (pre : List Block) (b : Block) (r' : Recs)
    (hwf : WellFormed g pre)
    (hext : RecsLe (replay (g :: pre)).r r')
    (hb : epochOf r' b.id = some b.epochRec ∧ (b.isHead = true ↔ b.epochRec.start = b.number))
    (hcur : b.isHead = true ∨ (replay (g :: pre)).m.curEpoch = some b.epochRec) :
    (commitBest ⟨(replay (g :: pre)).m, r'⟩ b [] [b]).m = (replay (g :: (pre ++ [b]))).m := by
  have := reorg_eq_replay g pre [] [b] b r' (by simpa using hwf) rfl (by simpa using hext)
    (by intro a ha; simp at ha; subst ha; exact hb)
    (by rcases hcur with h | h; exact Or.inl h; exact Or.inr (Or.inr h))
  simpa using this

/-- a block that is not a new best block leaves the whole main-chain view untouched
(side-chain insertion) -/
theorem side_block_keeps_view (v : View) (b : Block)
    (h : ¬ (freshExt (insertBlock v.r b) b).td > tdOf (insertBlock v.r b) (v.m.tip.getD 0)) :
    (process v b).m = v.m := by
  simp only [process]
  simp [h]

/-! ### C02.3 — truncation -/

theorem truncate_eq_replay (g : Block) (pre det : List Block) (r' : Recs) (target : Nat)
    (hwf : WellFormed g (pre ++ det))
    (hext : RecsLe (replay (g :: (pre ++ det))).r r')
    (htip : (replay (g :: pre)).m.tip = some target)
    (hep : (match r'.blockEpoch target with | some k => r'.epochExt k | none => none)
            = (replay (g :: pre)).m.curEpoch) :
    (truncateWith ⟨(replay (g :: (pre ++ det))).m, r'⟩ target det).m = (replay (g :: pre)).m := by
  obtain ⟨hpre, hdet⟩ := validChain_append hwf.2
  have hcV : CellsConsistent (replay (g :: pre)).m (replay (g :: pre)).r :=
    cellsConsistent_replay g pre ⟨hwf.1, hpre⟩
  rw [replay_append] at hext ⊢
  have hdet' : ValidChain (replay (g :: pre)) det := hdet
  generalize replay (g :: pre) = V at *
  have hrb := rollback_attachAll V det hcV hdet' r' hext (attachAll V det).m.tip (attachAll V det).m.curEpoch
  have heta : (attachAll V det).m.withTC (attachAll V det).m.tip (attachAll V det).m.curEpoch = (attachAll V det).m := rfl
  rw [heta] at hrb
  simp only [truncateWith]
  rw [hrb]
  apply Main.ext' <;> try rfl
  · exact htip.symm
  · exact hep

/-! ### C02.4 — snapshots are values -/

/-- the published snapshots, oldest first -/
def publish (h : List View) (v : View) : List View := h ++ [v]

/-- publishing the state of a later commit never changes what an earlier snapshot reads: snapshot
`k` stays the state committed at step `k` (which, by `reorg_eq_replay` / `truncate_eq_replay`, is the
replay of the main chain at that commit) -/
theorem snapshot_is_commit_state (h : List View) (v : View) (k : Nat) (hk : k < h.length) :
    (publish h v)[k]? = h[k]? := by
  simp [publish, List.getElem?_append_left hk]

/-! ### witnesses: finding F9 before / after its repair, and the row the code still does not keep
equal to the replay (F12) -/

namespace Witness
def ZERO : Nat := 99
def cb (id : Nat) : Tx := { id := id, inputs := [], outputs := [] }
def e0 : EpochRec := ⟨0, 0, 3, ZERO⟩
def g : Block := { id := 0, parent := 0, number := 0, epoch := ⟨0, 0, 0⟩, txs := [{ id := 0, inputs := [], outputs := [⟨8, 0⟩] }], uncles := [], isHead := true, epochRec := e0 }
def b1 : Block := { id := 1, parent := 0, number := 1, epoch := ⟨0, 1, 3⟩, txs := [cb 1001], uncles := [], isHead := false, epochRec := e0 }
def b2 : Block := { id := 2, parent := 1, number := 2, epoch := ⟨0, 2, 3⟩, txs := [cb 1002], uncles := [], isHead := false, epochRec := e0 }
def b3 : Block := { id := 3, parent := 2, number := 3, epoch := ⟨1, 0, 3⟩, txs := [cb 1003], uncles := [], isHead := true, epochRec := ⟨1, 3, 3, 2⟩ }
def b4 : Block := { id := 4, parent := 3, number := 4, epoch := ⟨1, 1, 3⟩, txs := [cb 1004], uncles := [], isHead := false, epochRec := ⟨1, 3, 3, 2⟩ }
/-- fork: 1 ← 5 ← 6; block 6 opens epoch 1 on the fork and stays lighter than block 4 -/
def b5 : Block := { id := 5, parent := 1, number := 2, epoch := ⟨0, 2, 3⟩, txs := [cb 1002], uncles := [], isHead := false, epochRec := e0 }
def b6 : Block := { id := 6, parent := 5, number := 3, epoch := ⟨1, 0, 3⟩, txs := [cb 1003], uncles := [], isHead := true, epochRec := ⟨1, 3, 3, 5⟩ }
/-- extends block 4 (after the truncation to block 2) -/
def b7 : Block := { id := 7, parent := 4, number := 5, epoch := ⟨1, 2, 3⟩, txs := [cb 1005], uncles := [], isHead := false, epochRec := ⟨1, 3, 3, 2⟩ }

def main4 : View := process (process (process (process (init g) b1) b2) b3) b4
def afterFork : View := process (process main4 b5) b6
/-- the same history with the pre-repair number-row behaviour -/
def main4Pre : View := PreFix.process (PreFix.process (PreFix.process (PreFix.process (init g) b1) b2) b3) b4
def afterForkPre : View := PreFix.process (PreFix.process main4Pre b5) b6
/-- reorg from `g,1,2,3,4` to the fork `g,1,5,6,8,9` (which opened epoch 1 with block 6) -/
def b8 : Block := { id := 8, parent := 6, number := 4, epoch := ⟨1, 1, 3⟩, txs := [cb 1004], uncles := [], isHead := false, epochRec := ⟨1, 3, 3, 5⟩ }
def b9 : Block := { id := 9, parent := 8, number := 5, epoch := ⟨1, 2, 3⟩, txs := [cb 1005], uncles := [], isHead := false, epochRec := ⟨1, 3, 3, 5⟩ }
def afterReorg : View := process (process afterFork b8) b9
def afterTruncExtend : View := process (truncate main4 2) b7
end Witness

open Witness in
/-- **F9, before the repair (regression witness about `Store.PreFix`).** After the lighter fork
`1 ← 5 ← 6` crossed the epoch boundary, the main chain is still `g,1,2,3,4` (tip 4) but the
epoch-number row of epoch 1 named the fork's index (block 5), whereas the replay of the main chain
has block 2. -/
theorem epoch_number_row_not_replay_prefix :
    afterForkPre.m.tip = some 4 ∧ afterForkPre.m.index 3 = some 3 ∧
    afterForkPre.m.epochNum 1 = some 5 ∧ (replay [g, b1, b2, b3, b4]).m.epochNum 1 = some 2 := by
  decide

open Witness in
/-- **F9, after the repair.** On the same history the row still names the main chain's epoch
(block 2); when the fork later overtakes (`g,1,5,6,8,9`) the row follows it (block 5), and a
truncation back below the boundary removes it — in each case exactly the replay's row (this is an
instance of `reorg_eq_replay` / `truncate_eq_replay`, whose view now contains the row). -/
theorem epoch_number_row_follows_main_chain :
    afterFork.m.tip = some 4 ∧ afterFork.m.epochNum 1 = some 2 ∧
    afterReorg.m.tip = some 9 ∧ afterReorg.m.epochNum 1 = some 5 ∧
    (replay [g, b1, b5, b6, b8, b9]).m.epochNum 1 = some 5 ∧
    (truncate afterReorg 5).m.tip = some 5 ∧ (truncate afterReorg 5).m.epochNum 1 = none ∧
    (replay [g, b1, b5]).m.epochNum 1 = none := by
  decide

open Witness in
/-- **F12.** `truncate` to block 2 (epoch 0), then block 7 on top of the cut-off block 4: blocks 3, 4
are re-attached across the epoch boundary with nothing detached and a tip that is not an epoch head,
so the current-epoch row stays at epoch 0 while the replay of `g,1,2,3,4,7` has epoch 1.  (Every
other column equals the replay; this is exactly the case excluded by `hcur` in `reorg_eq_replay`.) -/
theorem current_epoch_stale_after_truncate :
    afterTruncExtend.m.tip = some 7 ∧
    afterTruncExtend.m.curEpoch = some ⟨0, 0, 3, 99⟩ ∧
    (replay [g, b1, b2, b3, b4, b7]).m.curEpoch = some ⟨1, 3, 3, 2⟩ := by
  decide

/-! ### non-vacuity: the hypotheses are satisfiable by a chain with a spend and a reorg -/

namespace Example
/-- genesis with one spendable cell; block 1 spends it (tx 5) and tx 6 spends tx 5's output in the
same block; block 2 is a sibling of block 1 re-committing tx 5 only -/
def g : Block := { id := 0, parent := 0, number := 0, epoch := ⟨0, 0, 0⟩, txs := [{ id := 0, inputs := [], outputs := [⟨8, 0⟩] }], uncles := [], isHead := true, epochRec := ⟨0, 0, 9, 99⟩ }
def t5 : Tx := { id := 5, inputs := [⟨0, 0⟩], outputs := [⟨8, 5⟩, ⟨8, 5⟩], fee := 1 }
def t6 : Tx := { id := 6, inputs := [⟨5, 1⟩], outputs := [⟨8, 6⟩], fee := 1 }
def b1 : Block := { id := 1, parent := 0, number := 1, epoch := ⟨0, 1, 9⟩, txs := [Witness.cb 1001, t5, t6], uncles := [], isHead := false, epochRec := ⟨0, 0, 9, 99⟩ }
def b2 : Block := { id := 2, parent := 0, number := 1, epoch := ⟨0, 1, 9⟩, txs := [Witness.cb 1001, t5], uncles := [], isHead := false, epochRec := ⟨0, 0, 9, 99⟩ }
end Example

open Example in
/-- on this concrete history the reorg from `g,1` to `g,2` computed by the model is the replay of
`g,2` on every column that is printed, and block 1's in-block create-and-spend left nothing behind -/
example :
    let v := commitBest ⟨(replay [g, b1]).m, (replay [g, b1]).r⟩ b2 [b1] [b2]
    v.m.cells ⟨5, 0⟩ = (replay [g, b2]).m.cells ⟨5, 0⟩ ∧ v.m.cells ⟨5, 1⟩ = (replay [g, b2]).m.cells ⟨5, 1⟩ ∧
    v.m.cells ⟨6, 0⟩ = none ∧ v.m.cells ⟨0, 0⟩ = none ∧ v.m.txInfo 6 = none ∧
    v.m.txInfo 5 = some ⟨2, 1, 1, ⟨0, 1, 9⟩⟩ ∧ (replay [g, b1]).m.cells ⟨5, 1⟩ = none ∧
    (replay [g, b1]).m.cells ⟨6, 0⟩ ≠ none := by
  decide

open Example in
/-- the well-formedness hypotheses are satisfiable: `g, b1` (a spend of a genesis cell and an
in-block create-and-spend) is a well-formed chain … -/
example : WellFormed g [b1] := by
  have cells_init : ∀ o : OutPoint, (init g).m.cells o =
      if o = ⟨0, 0⟩ then some (mkRow 0 0 ⟨0, 0, 0⟩ 0 ⟨8, 0⟩) else none := by
    intro o
    simp [init, attachOne, attachOneM, attachCell, attach, blockCells, outCells, insertCells, deleteCells,
      deadInputs, upd, g, Main.empty, View.empty]
  refine ⟨⟨by decide, ?_, ?_, rfl, rfl, ?_, ?_, Or.inl rfl, by decide, fun _ => rfl, Or.inl rfl, Or.inr ⟨rfl, rfl⟩⟩,
    ValidChain.cons ⟨by decide, ?_, ?_, by decide, by decide, ?_, ?_, Or.inl (by decide), by decide,
      (fun h => by cases h), Or.inl (by decide), Or.inl (by decide)⟩ (ValidChain.nil _)⟩
  · intro t _; rfl
  · intro o _; rfl
  · intro u hu; simp [g] at hu
  · intro o ho; simp [deadInputs, g] at ho
  · intro t ht
    simp [txIds, b1, Witness.cb, t5, t6] at ht
    rcases ht with rfl | rfl | rfl <;> decide
  · intro o ho
    simp [txIds, b1, Witness.cb, t5, t6] at ho
    rw [cells_init]
    have : o ≠ ⟨0, 0⟩ := by
      intro h; subst h; simp at ho
    simp [this]
  · intro u hu; simp [b1] at hu
  · intro o ho
    simp [deadInputs, b1, Witness.cb, t5, t6] at ho
    rcases ho with rfl | rfl
    · left; rw [cells_init]; simp
    · right; decide

open Example in
/-- … and `reorg_eq_replay` applies to it: the reorg from `g,b1` to the sibling `g,b2` is the replay
of `g,b2` (whole view, as functions) -/
example (hwf : WellFormed g [b1]) (r' : Recs) (hle : RecsLe (replay [g, b1]).r r')
    (hrec : epochOf r' 2 = some b2.epochRec) :
    (commitBest ⟨(replay [g, b1]).m, r'⟩ b2 [b1] [b2]).m = (replay [g, b2]).m :=
  reorg_eq_replay g [] [b1] [b2] b2 r' hwf rfl hle
    (by intro a ha; simp at ha; subst ha; exact ⟨hrec, by decide⟩) (Or.inr (Or.inl (by simp)))

end CkbVerif.C02
