/-
C10 with the store's read caches (`StoreCache`) in front of the accessors: `Model/FreezeCache.lean`.

The freezer pass deletes rows (`delete_block_body`, `delete_block`) and never touches a cache, so
after a pass the caches may hold parts of blocks whose rows are gone.  The theorems say exactly what
that can and cannot change:

* nothing about a main-chain block, whatever the caches hold (every content = every LRU eviction
  history, every set of earlier reads), at every crash prefix of a pass;
* for a side block wiped by the pass, `get_block(hash)` is a function of which caches still hold it:
  nothing / a PANIC (`expect("block uncles must be stored")`) / a block WITHOUT transactions — the
  exact table, with kernel-evaluated witnesses on the pass of `Props/C10.lean`'s witness chain.
-/
import CkbVerif.Lemmas.FreezeCache
import CkbVerif.Props.C10
namespace CkbVerif.C10
open CkbVerif.Store CkbVerif.Freeze CkbVerif.FreezeCache

/-- **the read caches cannot change an answer about a main-chain block.**  In every state
satisfying the freezer invariant (every reachable state, every crash prefix of a pass:
`inv_reachable`, `inv_steps`), for EVERY content `c` of the five caches, every cached accessor —
`get_block_header`, `get_block`, `get_block_body`, `get_block_txs_hashes`, `get_cellbase`,
`get_block_uncles`, `get_block_proposal_txs_ids`, `get_block_extension`, `get_packed_block` —
answers a main-chain block with the whole block: warm = cold = the block. -/
theorem caches_cannot_change_main_chain_answers (s : FS) (h : Inv s) (c : Caches) (id : Nat) (blk : Block)
    (hm : OnMain s id blk) :
    (hdrC s c id).1 = some blk ∧ (blockC s c id).1 = .some ⟨blk, blk.txs, true⟩ ∧
    (bodyC s c id).1 = blk.txs ∧ (txhC s c id).1 = blk.txs.map (·.id) ∧
    (cellbaseC s c id).1 = blk.txs.head? ∧ (unclesC s c id).1 = some blk ∧
    (proposalsC s c id).1 = some blk ∧ (extC s c id).1 = some blk ∧
    (packedC s c id).1 = some ⟨blk, blk.txs, true⟩ :=
  ⟨hdrC_main s h c id blk hm, blockC_main s h c id blk hm, bodyC_main s h c id blk hm,
   txhC_main s h c id blk hm, cellbaseC_main s h c id blk hm, unclesC_main s h c id blk hm,
   proposalsC_main s h c id blk hm, extC_main s h c id blk hm, packedC_main s h c id blk hm⟩

/-- the same across a pass: caches primed BEFORE the pass (content `c`, any) and used after ANY
prefix of its micro-steps (= any crash point; content `c'`, any — e.g. `c` itself: entries outlive
the wiped rows) give the answers they gave before -/
theorem warm_queries_invariant_under_freeze (s t : FS) (h : Inv s) (st : Steps s t) (c c' : Caches)
    (id : Nat) (blk : Block) (hm : OnMain s id blk) :
    (blockC t c' id).1 = (blockC s c id).1 ∧ (hdrC t c' id).1 = (hdrC s c id).1 ∧
    (bodyC t c' id).1 = (bodyC s c id).1 ∧ (txhC t c' id).1 = (txhC s c id).1 ∧
    (cellbaseC t c' id).1 = (cellbaseC s c id).1 ∧ (unclesC t c' id).1 = (unclesC s c id).1 ∧
    (proposalsC t c' id).1 = (proposalsC s c id).1 ∧ (extC t c' id).1 = (extC s c id).1 ∧
    (packedC t c' id).1 = (packedC s c id).1 := by
  have ht := inv_steps h st
  have hm' : OnMain t id blk := (onMain_steps st id blk).mpr hm
  obtain ⟨a1, a2, a3, a4, a5, a6, a7, a8, a9⟩ := caches_cannot_change_main_chain_answers s h c id blk hm
  obtain ⟨b1, b2, b3, b4, b5, b6, b7, b8, b9⟩ := caches_cannot_change_main_chain_answers t ht c' id blk hm'
  exact ⟨by rw [a2, b2], by rw [a1, b1], by rw [a3, b3], by rw [a4, b4], by rw [a5, b5],
    by rw [a6, b6], by rw [a7, b7], by rw [a8, b8], by rw [a9, b9]⟩

/-- **`get_block(hash)` of a side block the pass has wiped — the exact table.**  Its header row and
body rows are gone and the freezer's item of its height is another block (`Wiped`).  Then the answer
depends only on which caches still hold the block: no cached header → `None` (the cold answer);
cached header but uncles or proposals not cached → PANIC (`expect("block uncles must be stored")` /
`expect("block proposal_ids must be stored")`); header, uncles and proposals cached → `Some` of a
block with the header but NO transactions (and the extension only if that is cached too).  The
caches are left unchanged (nothing is learnt, nothing is invalidated). -/
theorem warm_get_block_of_wiped_side_block (s : FS) (id : Nat) (blk : Block) (w : Wiped s id blk)
    (c : Caches) :
    blockC s c id =
      (if !c.hdr.contains id then .none
       else if c.unc.contains id && c.prop.contains id then .some ⟨blk, [], c.ext.contains id⟩
       else .panic, c) :=
  blockC_wiped w c

/-- the part accessors of a wiped side block answer from their own cache only -/
theorem warm_parts_of_wiped_side_block (s : FS) (id : Nat) (blk : Block) (w : Wiped s id blk)
    (c : Caches) :
    hdrC s c id = (if c.hdr.contains id then some blk else none, c) ∧
    unclesC s c id = (if c.unc.contains id then some blk else none, c) ∧
    proposalsC s c id = (if c.prop.contains id then some blk else none, c) ∧
    extC s c id = (if c.ext.contains id then some blk else none, c) ∧
    bodyC s c id = ([], c) :=
  ⟨hdrC_wiped w c, unclesC_wiped w c, proposalsC_wiped w c, extC_wiped w c, bodyC_wiped w c⟩

open Witness in
/-- non-vacuity and WITNESSES on the executable model (the pass on the witness chain wipes the side
block 11 at height 1): with cold caches `get_block(11)` is `None`; with only its header cached (any
`get_block_header(11)` before the pass) it PANICS; with header, uncles and proposals cached it
returns block 11 WITHOUT its transactions (`s1.txs ≠ []`); before the pass every variant answered
the whole block; and the main-chain block 1 answers the whole block whatever is cached -/
example :
    Wiped afterPass 11 s1 ∧ s1.txs ≠ [] ∧
    (blockC afterPass {} 11).1 = .none ∧
    (blockC afterPass { hdr := [11] } 11).1 = .panic ∧
    (blockC afterPass { hdr := [11], unc := [11] } 11).1 = .panic ∧
    (blockC afterPass { hdr := [11], unc := [11], prop := [11] } 11).1 = .some ⟨s1, [], false⟩ ∧
    (blockC s0 {} 11).1 = .some ⟨s1, s1.txs, true⟩ ∧
    (blockC s0 { hdr := [11] } 11).1 = .some ⟨s1, s1.txs, true⟩ ∧
    (blockC afterPass { hdr := [1], unc := [1] } 1).1 = .some ⟨b1, b1.txs, true⟩ ∧
    (blockC afterPass {} 1).1 = .some ⟨b1, b1.txs, true⟩ := by
  refine ⟨⟨by decide +kernel, by decide +kernel, by decide +kernel, by decide +kernel⟩, ?_⟩
  decide +kernel

end CkbVerif.C10
