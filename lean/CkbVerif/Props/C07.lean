import CkbVerif.Lemmas.Epoch

/-!
# C07 — epoch length, difficulty and per-block issuance arithmetic stay within spec

Theorems about `CkbVerif.Epoch` (Model/Epoch.lean), the executable model of
`Consensus::next_epoch_ext`, `EpochExt::block_reward`, `secondary_block_issuance`,
`primary_epoch_reward`, `EpochNumberWithFraction`, the compact-target conversions and
`EaglesongPowEngine::verify`.  `nextEpochExt … = some o` means: the Rust function returns (no
panic); every statement is for all inputs (no range restriction beyond the stated hypotheses).
-/
namespace CkbVerif.C07
open CkbVerif.Arith CkbVerif.Epoch CkbVerif.Gen.Epoch

/-! ## next epoch length -/

/-- The next epoch's length lies within the consensus bounds and within a factor `TAU` (= 2) of the
previous length.  Hypothesis: the previous length is itself within the consensus bounds (the genesis
length is a configuration input; afterwards this theorem maintains it). -/
theorem next_len_bounds {P : Params} {e o : EpochExt} {hn hc u ms : Nat}
    (h : nextEpochExt P e hn hc u ms = some o)
    (hL : MIN_EPOCH_LENGTH ≤ e.length ∧ e.length ≤ MAX_EPOCH_LENGTH) :
    MIN_EPOCH_LENGTH ≤ o.length ∧ o.length ≤ MAX_EPOCH_LENGTH ∧
      e.length / TAU ≤ o.length ∧ o.length ≤ e.length * TAU := by
  obtain ⟨adj, lor, L', bound, den, nd, R, _, _, h3, _, _, _, _, _, _, _, ho⟩ := nextEpochExt_some h
  have : o.length = L' := by rw [ho]
  rw [this]
  apply nextLength_bounds h3
  · have := hL.1; simp only [TAU]; omega
  · have := hL.2; simp only [TAU]; omega

/-- Weaker hypothesis version: it suffices that `MIN ≤ TAU·L` and `L/TAU ≤ MAX`. -/
theorem next_len_bounds_weak {P : Params} {e o : EpochExt} {hn hc u ms : Nat}
    (h : nextEpochExt P e hn hc u ms = some o)
    (hlo : MIN_EPOCH_LENGTH ≤ e.length * TAU) (hhi : e.length / TAU ≤ MAX_EPOCH_LENGTH) :
    MIN_EPOCH_LENGTH ≤ o.length ∧ o.length ≤ MAX_EPOCH_LENGTH ∧
      e.length / TAU ≤ o.length ∧ o.length ≤ e.length * TAU := by
  obtain ⟨adj, lor, L', bound, den, nd, R, _, _, h3, _, _, _, _, _, _, _, ho⟩ := nextEpochExt_some h
  have : o.length = L' := by rw [ho]
  rw [this]
  exact nextLength_bounds h3 hlo hhi

/-- hypotheses satisfiable: the mainnet genesis epoch (length 1000, 25 uncles, 4 h) -/
example : ∃ o, nextEpochExt { T := 14400, initial := 191780821917808, halving := 8760 }
    { number := 0, base := 191780821917, rem := 808, prevHR := 0x1000, start := 0, length := 1000, compact := 0x1a08a8b1 }
    999 0x1a08a8b1 25 14400000 = some o ∧ o.length = 1000 := by
  refine ⟨_, rfl, ?_⟩; decide +kernel

/-! ## hash-rate estimate -/

/-- The adjusted hash-rate estimate stored in the next epoch is the raw estimate
`difficulty·(L + uncles) / max(ms/1000, 1)` clamped to `[prev/TAU, prev·TAU]` (no clamp when the
previous estimate is 0), and at least 1. -/
theorem hash_rate_eq_formula {P : Params} {e o : EpochExt} {hn hc u ms : Nat}
    (h : nextEpochExt P e hn hc u ms = some o) :
    o.prevHR = max (clampSpec (compactToDifficulty hc * (e.length + u) / durationSecs ms) e.prevHR) 1 := by
  obtain ⟨adj, lor, L', bound, den, nd, R, h1, _, _, _, _, _, _, _, _, _, ho⟩ := nextEpochExt_some h
  have : o.prevHR = adj := by rw [ho]
  rw [this]
  exact (adjustedHashRate_some h1).2

/-- `hash_rate_clamped`: within a factor `TAU` of the previous estimate, never zero. -/
theorem hash_rate_clamped {P : Params} {e o : EpochExt} {hn hc u ms : Nat}
    (h : nextEpochExt P e hn hc u ms = some o) :
    1 ≤ o.prevHR ∧ (e.prevHR ≠ 0 → e.prevHR / TAU ≤ o.prevHR ∧ o.prevHR ≤ e.prevHR * TAU) := by
  rw [hash_rate_eq_formula h]
  refine ⟨by omega, fun hp => ?_⟩
  unfold clampSpec
  simp only [hp, if_false, TAU]
  omega

/-! ## block rewards inside an epoch -/

/-- Primary: the `L` blocks of an epoch receive `base + 1` (the first `rem` blocks) or `base`, and the
sum is exactly `base·L + rem` — the epoch reward. -/
theorem rewards_sum_to_epoch_reward (e : EpochExt) (hr : e.rem ≤ e.length)
    (h2 : e.start + e.rem < U64) (h3 : e.base + 1 < U64) :
    ∃ f : Nat → Nat, (∀ i, blockReward e (e.start + i) = some (f i)) ∧
      ((List.range e.length).map f).sum = e.base * e.length + e.rem := by
  refine ⟨fun i => e.base + if i < e.rem then 1 else 0, fun i => blockReward_eq e i h2 h3, ?_⟩
  rw [sum_indicator]; omega

example : ∃ e : EpochExt, e.rem ≤ e.length ∧ e.start + e.rem < U64 ∧ e.base + 1 < U64 ∧ e.rem ≠ 0 :=
  ⟨{ number := 0, base := 191780821917, rem := 808, prevHR := 0, start := 5, length := 1000, compact := 0 }, by decide⟩

/-- Secondary: per-block issuance over an epoch sums exactly to the epoch's secondary issuance. -/
theorem secondary_issuance_sums_to_epoch_issuance (e : EpochExt) (S : Nat) (hL : e.length ≠ 0)
    (h2 : e.start + e.length ≤ U64) (h3 : S / e.length + 1 < U64) :
    ∃ f : Nat → Nat, (∀ i, secondaryBlockIssuance e (e.start + i) S = some (f i)) ∧
      ((List.range e.length).map f).sum = S := by
  have hm : S % e.length < e.length := Nat.mod_lt _ (Nat.pos_of_ne_zero hL)
  refine ⟨fun i => S / e.length + if i < S % e.length then 1 else 0, fun i => ?_, ?_⟩
  · unfold secondaryBlockIssuance safeAdd chk64 chk divChk modChk
    have : e.start + S % e.length < U64 := by omega
    simp [hL, this, h3]
    split <;> simp_all <;> omega
  · rw [sum_indicator]
    have := Nat.div_add_mod S e.length
    rw [Nat.mul_comm] at this
    omega

/-- The rewards of the epoch produced by `next_epoch_ext` sum exactly to the scheduled primary
issuance `R` of that epoch (`primaryRewardOfNext`). -/
theorem next_epoch_rewards_sum {P : Params} {e o : EpochExt} {hn hc u ms : Nat}
    (h : nextEpochExt P e hn hc u ms = some o) (hinit : P.initial < U64) :
    ∃ R, primaryRewardOfNext P e = some R ∧ o.base * o.length + o.rem = R ∧ o.rem < o.length ∧
      primaryReward o = some R := by
  obtain ⟨adj, lor, L', bound, den, nd, R, _, _, _, _, _, h6, hL', _, _, _, ho⟩ := nextEpochExt_some h
  have hb : o.base = R / L' := by rw [ho]
  have hr : o.rem = R % L' := by rw [ho]
  have hl : o.length = L' := by rw [ho]
  have hsum : o.base * o.length + o.rem = R := by
    rw [hb, hr, hl, Nat.mul_comm]; exact Nat.div_add_mod R L'
  have hR : R < U64 := by
    obtain ⟨_, h6' | h6'⟩ := primaryRewardOfNext_some h6
    · exact (primaryReward_some h6'.2).1
    · obtain ⟨_, _, hh⟩ := primaryEpochReward_some h6'.2
      have := Nat.div_le_self P.initial (2 ^ ((e.number + 1) / P.halving))
      omega
  refine ⟨R, h6, hsum, ?_, ?_⟩
  · rw [hr, hl]; exact Nat.mod_lt _ (Nat.pos_of_ne_zero hL')
  · unfold primaryReward chk64 chk
    have : o.base * o.length < U64 := by omega
    simp [this, hsum, hR]

end CkbVerif.C07
