import CkbVerif.Lemmas.EpochNext
import CkbVerif.Lemmas.EpochCompact
import CkbVerif.Lemmas.EpochChain
import CkbVerif.Lemmas.EpochCtx
import CkbVerif.Lemmas.EpochU256

/-!
# C07 — epoch length, difficulty and per-block issuance arithmetic stay within spec

Theorems about `CkbVerif.Epoch` (Model/Epoch.lean), the executable model of
`Consensus::next_epoch_ext`, `EpochExt::block_reward`, `secondary_block_issuance`,
`primary_epoch_reward`, `EpochNumberWithFraction`, the compact-target conversions and
`EaglesongPowEngine::verify`.  `nextEpochExt … = some o` means: the Rust function returns (no
panic); every statement is for all inputs (no range restriction beyond the stated hypotheses).
-/
namespace CkbVerif.C07
open CkbVerif.Arith CkbVerif.Epoch CkbVerif.Gen.Epoch

/-! ## next epoch length -/

/-- The next epoch's length lies within the consensus bounds and within a factor `TAU` (= 2) of the
previous length.  Hypothesis: the previous length is itself within the consensus bounds (the genesis
length is a configuration input; afterwards this theorem maintains it). -/
theorem next_len_bounds {P : Params} {e o : EpochExt} {hn hc u ms : Nat}
    (h : nextEpochExt P e hn hc u ms = some o)
    (hL : MIN_EPOCH_LENGTH ≤ e.length ∧ e.length ≤ MAX_EPOCH_LENGTH) :
    MIN_EPOCH_LENGTH ≤ o.length ∧ o.length ≤ MAX_EPOCH_LENGTH ∧
      e.length / TAU ≤ o.length ∧ o.length ≤ e.length * TAU := by
  obtain ⟨adj, lor, L', bound, den, nd, R, _, _, h3, _, _, _, _, _, _, _, ho⟩ := nextEpochExt_some h
  have : o.length = L' := by rw [ho]
  rw [this]
  apply nextLength_bounds h3
  · have := hL.1; simp only [TAU]; omega
  · have := hL.2; simp only [TAU]; omega

/-- Weaker hypothesis version: it suffices that `MIN ≤ TAU·L` and `L/TAU ≤ MAX`. -/
theorem next_len_bounds_weak {P : Params} {e o : EpochExt} {hn hc u ms : Nat}
    (h : nextEpochExt P e hn hc u ms = some o)
    (hlo : MIN_EPOCH_LENGTH ≤ e.length * TAU) (hhi : e.length / TAU ≤ MAX_EPOCH_LENGTH) :
    MIN_EPOCH_LENGTH ≤ o.length ∧ o.length ≤ MAX_EPOCH_LENGTH ∧
      e.length / TAU ≤ o.length ∧ o.length ≤ e.length * TAU := by
  obtain ⟨adj, lor, L', bound, den, nd, R, _, _, h3, _, _, _, _, _, _, _, ho⟩ := nextEpochExt_some h
  have : o.length = L' := by rw [ho]
  rw [this]
  exact nextLength_bounds h3 hlo hhi

/-- hypotheses satisfiable: the mainnet genesis epoch (length 1000, 25 uncles, 4 h) -/
example : ∃ o, nextEpochExt { T := 14400, initial := 191780821917808, halving := 8760 }
    { number := 0, base := 191780821917, rem := 808, prevHR := 0x1000, start := 0, length := 1000, compact := 0x1a08a8b1 }
    999 0x1a08a8b1 25 14400000 = some o ∧ o.length = 1000 := by
  refine ⟨_, rfl, ?_⟩; decide +kernel


/-! ## next epoch length and difficulty equal the RFC formulas -/

theorem durationSecs_pos (ms : Nat) : 0 < durationSecs ms := by unfold durationSecs; omega

/-- The next length is the closed formula `lengthSpec`: `min(MAX, TAU·L)` without uncles, else
`⌊o_ideal (1+o_i) L_ideal L / (o_i (1+o_ideal) D)⌋` (low 64 bits) clamped to
`[max(MIN, L/TAU), min(MAX, TAU·L)]`, where `o_i = uncles/L`, `D = max(ms/1000, 1)`. -/
theorem next_len_eq_formula {P : Params} {e o : EpochExt} {hn hc u ms : Nat}
    (h : nextEpochExt P e hn hc u ms = some o) (hort : 0 < P.ortD) :
    o.length = (lengthSpec P e.length u (durationSecs ms)).1 := by
  obtain ⟨adj, lor, L', bound, den, nd, R, _, h2, h3, _, _, _, _, _, _, _, ho⟩ := nextEpochExt_some h
  have := nextLength_spec (Rep.new h2) hort (durationSecs_pos ms) h3
  rw [ho, ← this]

/-- `next_diff_eq_formula`: the compact target of the next epoch encodes
`max 1 ⌊HR_adj · L_ideal / ((1 + o) · L')⌋`, with the orphan rate `o = p/q` chosen per branch as in
the RFC (`orphanSpec`): 0 without uncles, `o_ideal` when the length estimate was not bounded (or the
re-estimate is non-positive), else the re-estimated rate for the bounded length. -/
theorem next_diff_eq_formula {P : Params} {e o : EpochExt} {hn hc u ms : Nat}
    (h : nextEpochExt P e hn hc u ms = some o) (hort : 0 < P.ortD) :
    ∃ nd p q, difficultyToCompact nd = some o.compact ∧
      (p, q) = orphanSpec P e.length u (durationSecs ms) o.length (lengthSpec P e.length u (durationSecs ms)).2 ∧
      0 < q ∧ nd = max 1 (o.prevHR * P.T * q / ((p + q) * o.length)) := by
  obtain ⟨adj, lor, L', bound, den, nd, R, _, h2, h3, h4, h5, _, hL', _, _, h10, ho⟩ := nextEpochExt_some h
  have hlor := Rep.new h2
  have hls := nextLength_spec hlor hort (durationSecs_pos ms) h3
  have hb : bound = (lengthSpec P e.length u (durationSecs ms)).2 := by rw [← hls]
  have hol : o.length = L' := by rw [ho]
  have hoh : o.prevHR = adj := by rw [ho]
  have hden := diffDenominator_spec hlor hort (durationSecs_pos ms) (Nat.pos_of_ne_zero hL') h4
  have hnd := nextDiff_spec hden (Nat.pos_of_ne_zero hL') h5
  refine ⟨nd, (orphanSpec P e.length u (durationSecs ms) L' bound).1,
    (orphanSpec P e.length u (durationSecs ms) L' bound).2, h10, ?_, orphanSpec_pos hort, ?_⟩
  · rw [hol, ← hb]
  · rw [hol, hoh]; exact hnd

/-- `next_diff_pos`: the next difficulty is never zero. -/
theorem next_diff_pos {P : Params} {e o : EpochExt} {hn hc u ms : Nat}
    (h : nextEpochExt P e hn hc u ms = some o) (hort : 0 < P.ortD) :
    ∃ nd, 1 ≤ nd ∧ difficultyToCompact nd = some o.compact := by
  obtain ⟨nd, p, q, h1, _, _, h3⟩ := next_diff_eq_formula h hort
  exact ⟨nd, by omega, h1⟩

/-- mainnet parameters satisfy the hypothesis -/
example : 0 < ({ T := 14400, initial := 191780821917808, halving := 8760 } : Params).ortD := by decide

/-! ## hash-rate estimate -/

/-- The adjusted hash-rate estimate stored in the next epoch is the raw estimate
`difficulty·(L + uncles) / max(ms/1000, 1)` clamped to `[prev/TAU, prev·TAU]` (no clamp when the
previous estimate is 0), and at least 1. -/
theorem hash_rate_eq_formula {P : Params} {e o : EpochExt} {hn hc u ms : Nat}
    (h : nextEpochExt P e hn hc u ms = some o) :
    o.prevHR = max (clampSpec (compactToDifficulty hc * (e.length + u) / durationSecs ms) e.prevHR) 1 := by
  obtain ⟨adj, lor, L', bound, den, nd, R, h1, _, _, _, _, _, _, _, _, _, ho⟩ := nextEpochExt_some h
  have : o.prevHR = adj := by rw [ho]
  rw [this]
  exact (adjustedHashRate_some h1).2

/-- `hash_rate_clamped`: within a factor `TAU` of the previous estimate, never zero. -/
theorem hash_rate_clamped {P : Params} {e o : EpochExt} {hn hc u ms : Nat}
    (h : nextEpochExt P e hn hc u ms = some o) :
    1 ≤ o.prevHR ∧ (e.prevHR ≠ 0 → e.prevHR / TAU ≤ o.prevHR ∧ o.prevHR ≤ e.prevHR * TAU) := by
  rw [hash_rate_eq_formula h]
  refine ⟨by omega, fun hp => ?_⟩
  unfold clampSpec
  simp only [hp, if_false, TAU]
  omega

/-! ## block rewards inside an epoch -/

/-- Primary: the `L` blocks of an epoch receive `base + 1` (the first `rem` blocks) or `base`, and the
sum is exactly `base·L + rem` — the epoch reward. -/
theorem rewards_sum_to_epoch_reward (e : EpochExt) (hr : e.rem ≤ e.length)
    (h2 : e.start + e.rem < U64) (h3 : e.base + 1 < U64) :
    ∃ f : Nat → Nat, (∀ i, blockReward e (e.start + i) = some (f i)) ∧
      ((List.range e.length).map f).sum = e.base * e.length + e.rem := by
  refine ⟨fun i => e.base + if i < e.rem then 1 else 0, fun i => blockReward_eq e i h2 h3, ?_⟩
  rw [sum_indicator]; omega

example : ∃ e : EpochExt, e.rem ≤ e.length ∧ e.start + e.rem < U64 ∧ e.base + 1 < U64 ∧ e.rem ≠ 0 :=
  ⟨{ number := 0, base := 191780821917, rem := 808, prevHR := 0, start := 5, length := 1000, compact := 0 }, by decide⟩

/-- Secondary: per-block issuance over an epoch sums exactly to the epoch's secondary issuance. -/
theorem secondary_issuance_sums_to_epoch_issuance (e : EpochExt) (S : Nat) (hL : e.length ≠ 0)
    (h2 : e.start + e.length ≤ U64) (h3 : S / e.length + 1 < U64) :
    ∃ f : Nat → Nat, (∀ i, secondaryBlockIssuance e (e.start + i) S = some (f i)) ∧
      ((List.range e.length).map f).sum = S := by
  have hm : S % e.length < e.length := Nat.mod_lt _ (Nat.pos_of_ne_zero hL)
  refine ⟨fun i => S / e.length + if i < S % e.length then 1 else 0, fun i => ?_, ?_⟩
  · unfold secondaryBlockIssuance safeAdd chk64 chk divChk modChk
    have : e.start + S % e.length < U64 := by omega
    simp [hL, this, h3]
    split <;> simp_all
  · rw [sum_indicator]
    have := Nat.div_add_mod S e.length
    rw [Nat.mul_comm] at this
    omega

/-- The rewards of the epoch produced by `next_epoch_ext` sum exactly to the scheduled primary
issuance `R` of that epoch (`primaryRewardOfNext`). -/
theorem next_epoch_rewards_sum {P : Params} {e o : EpochExt} {hn hc u ms : Nat}
    (h : nextEpochExt P e hn hc u ms = some o) (hinit : P.initial < U64) :
    ∃ R, primaryRewardOfNext P e = some R ∧ o.base * o.length + o.rem = R ∧ o.rem < o.length ∧
      primaryReward o = some R := by
  obtain ⟨adj, lor, L', bound, den, nd, R, _, _, _, _, _, h6, hL', _, _, _, ho⟩ := nextEpochExt_some h
  have hb : o.base = R / L' := by rw [ho]
  have hr : o.rem = R % L' := by rw [ho]
  have hl : o.length = L' := by rw [ho]
  have hsum : o.base * o.length + o.rem = R := by
    rw [hb, hr, hl, Nat.mul_comm]; exact Nat.div_add_mod R L'
  have hR : R < U64 := by
    obtain ⟨_, h6' | h6'⟩ := primaryRewardOfNext_some h6
    · exact (primaryReward_some h6'.2).1
    · obtain ⟨_, _, hh⟩ := primaryEpochReward_some h6'.2
      have := Nat.div_le_self P.initial (2 ^ ((e.number + 1) / P.halving))
      omega
  refine ⟨R, h6, hsum, ?_, ?_⟩
  · rw [hr, hl]; exact Nat.mod_lt _ (Nat.pos_of_ne_zero hL')
  · unfold primaryReward chk64 chk
    have : o.base * o.length < U64 := by omega
    simp [this, hsum, hR]


/-- dev-chain arm (`permanent_difficulty`): constant length `⌈T / MIN_BLOCK_INTERVAL⌉`, target and
hash-rate estimate unchanged, and the epoch still hands out exactly the scheduled reward. -/
theorem permanent_arm_rewards_sum {P : Params} {e o : EpochExt} {hn : Nat}
    (h : nextEpochExtPermanent P e hn = some o) :
    ∃ R, primaryRewardOfNext P e = some R ∧ o.base * o.length + o.rem = R ∧ o.rem < o.length ∧
      o.length = (P.T + MIN_BLOCK_INTERVAL - 1) / MIN_BLOCK_INTERVAL ∧ o.compact = e.compact ∧
      o.prevHR = e.prevHR ∧ o.number = e.number + 1 := by
  unfold nextEpochExtPermanent at h
  simp only [Option.bind_eq_bind, Option.bind_eq_some_iff, chk64, chk_eq_some, divChk_eq_some, modChk_eq_some] at h
  obtain ⟨R, hR, base, ⟨hL, hb⟩, rem, ⟨_, hr⟩, number, ⟨_, hnum⟩, start, ⟨_, hs⟩, ho⟩ := h
  injection ho with ho; subst ho
  refine ⟨R, hR, ?_, ?_, rfl, rfl, rfl, hnum⟩
  · show base * _ + rem = R
    rw [hb, hr, Nat.mul_comm]; exact Nat.div_add_mod R _
  · show rem < _
    rw [hr]; exact Nat.mod_lt _ (Nat.pos_of_ne_zero hL)

/-- `build_genesis_epoch_ext`: the genesis epoch distributes exactly the configured epoch reward and
starts the hash-rate estimate at `difficulty·(L + ⌊L·o⌋)/T`. -/
theorem genesis_epoch_rewards_sum {R compact L T on od : Nat} {o : EpochExt}
    (h : genesisEpochExt R compact L T on od = some o) :
    o.base * o.length + o.rem = R ∧ o.rem < o.length ∧ o.length = L ∧ o.number = 0 ∧
      o.prevHR = compactToDifficulty compact * (L + L * on / od) / T := by
  unfold genesisEpochExt at h
  simp only [Option.bind_eq_bind, Option.bind_eq_some_iff] at h
  obtain ⟨base, h1, rem, h2, x, h3, oc, h4, blocks, h5, prod, h6, hr2, h7, ho⟩ := h
  simp only [chk64, chk256, chk_eq_some] at h3 h5 h6
  rw [divChk_eq_some] at h1 h4 h7
  rw [modChk_eq_some] at h2
  obtain ⟨hL, hb⟩ := h1
  obtain ⟨_, hr⟩ := h2
  obtain ⟨_, hx⟩ := h3
  obtain ⟨_, hoc⟩ := h4
  obtain ⟨_, hbl⟩ := h5
  obtain ⟨_, hp⟩ := h6
  obtain ⟨_, hhr⟩ := h7
  injection ho with ho; subst ho
  refine ⟨?_, ?_, rfl, rfl, ?_⟩
  · show base * L + rem = R
    rw [hb, hr, Nat.mul_comm]; exact Nat.div_add_mod R _
  · show rem < L
    rw [hr]; exact Nat.mod_lt _ (Nat.pos_of_ne_zero hL)
  · show hr2 = _
    rw [hhr, hp, hbl, hoc, hx]

example : ∃ o, genesisEpochExt 191780821917808 0x1a08a8b1 1000 14400 1 40 = some o ∧ o.prevHR = 0x21abc6d475102 := by
  refine ⟨_, rfl, ?_⟩; decide +kernel

/-! ## halving -/

/-- `halving_on_schedule`: one halving interval later the scheduled epoch reward is exactly half
(floor), for every epoch number. -/
theorem halving_on_schedule (P : Params) (n : Nat) (hh : P.halving ≠ 0) (hlt : n / P.halving + 1 < 64) :
    primaryEpochReward P n = some (P.initial / 2 ^ (n / P.halving)) ∧
    primaryEpochReward P (n + P.halving) = some (P.initial / 2 ^ (n / P.halving) / 2) := by
  have hd : (n + P.halving) / P.halving = n / P.halving + 1 := Nat.add_div_right n (Nat.pos_of_ne_zero hh)
  rw [primaryEpochReward_eq n hh (by omega), primaryEpochReward_eq (n + P.halving) hh (by omega), hd,
    Nat.pow_succ, Nat.div_div_eq_div_mul]
  exact ⟨rfl, rfl⟩

/-- inside a halving interval the scheduled reward does not change -/
theorem reward_constant_inside_interval (P : Params) (n : Nat) (hh : P.halving ≠ 0)
    (hm : (n + 1) % P.halving ≠ 0) : primaryEpochReward P (n + 1) = primaryEpochReward P n := by
  unfold primaryEpochReward divChk
  simp only [hh, if_false, succ_div_of_not_dvd hh hm]

/-- `next_epoch_ext` keeps the invariant "the epoch's total primary reward is the scheduled one for
its number" (the genesis epoch is built with it): halving happens exactly at multiples of the interval. -/
theorem next_epoch_reward_on_schedule {P : Params} {e o : EpochExt} {hn hc u ms : Nat}
    (h : nextEpochExt P e hn hc u ms = some o) (hinit : P.initial < U64) (hh : P.halving ≠ 0)
    (hinv : primaryReward e = primaryEpochReward P e.number) :
    o.number = e.number + 1 ∧ primaryReward o = primaryEpochReward P o.number := by
  obtain ⟨R, h1, _, _, h4⟩ := next_epoch_rewards_sum h hinit
  obtain ⟨_, _, _, _, _, _, _, _, _, _, _, _, _, _, _, _, _, ho⟩ := nextEpochExt_some h
  have hnum : o.number = e.number + 1 := by rw [ho]
  refine ⟨hnum, ?_⟩
  rw [h4, hnum]
  obtain ⟨_, ⟨hm, hr⟩ | ⟨hm, hr⟩⟩ := primaryRewardOfNext_some h1
  · have : (e.number + 1) % P.halving ≠ 0 := by
      unfold isMultipleOf at hm; simp [hh] at hm; exact hm
    rw [reward_constant_inside_interval P e.number hh this, ← hinv, hr]
  · exact hr.symm

example : primaryEpochReward { T := 14400, initial := 191780821917808, halving := 8760 } 8760
    = some (191780821917808 / 2) := by decide +kernel

/-! ## epoch number with fraction: round trip, successor relation, gap-free sequences -/

/-- `new_unchecked` followed by the accessors returns the fields (fields within their bit widths). -/
theorem epoch_fraction_roundtrip {n i l : Nat} (hn : n < 2 ^ EPOCH_NUMBER_BITS) (hi : i < 2 ^ EPOCH_INDEX_BITS)
    (hl : l < 2 ^ EPOCH_LENGTH_BITS) :
    enfNumber (enfPack n i l) = n ∧ enfIndex (enfPack n i l) = i ∧ enfLength (enfPack n i l) = l :=
  enf_roundtrip hn hi hl

/-- every 56-bit full value is the packing of its own fields (the encoding is injective on fields) -/
theorem epoch_fraction_pack_unpack {v : Nat}
    (hv : v < 2 ^ (EPOCH_NUMBER_BITS + EPOCH_INDEX_BITS + EPOCH_LENGTH_BITS)) :
    enfPack (enfNumber v) (enfIndex v) (enfLength v) = v :=
  enf_pack_unpack hv

/-- `EpochVerifier` accepts `header` after a non-genesis `parent` iff the header's epoch field is
well formed and is the *next position*: same epoch, index + 1, same length — or, when the parent is
the last block of its epoch, the next epoch number at index 0. -/
theorem epoch_successor_iff_next_position (parent header : Nat) (hg : enfIsGenesis parent = false) :
    epochVerify parent header = .ok ↔
      (0 < enfLength header ∧ enfIndex header < enfLength header) ∧
      (if enfIndex parent + 1 = enfLength parent
        then enfNumber header = enfNumber parent + 1 ∧ enfIndex header = 0
        else enfNumber header = enfNumber parent ∧ enfIndex header = enfIndex parent + 1 ∧
             enfLength header = enfLength parent) := by
  rw [epochVerify_ok_iff, hg, ← enfIsSuccessorOf_iff]
  unfold enfIsWellFormed
  simp

/-- `epochs_gap_free`: along any chain of headers accepted by `EpochVerifier` (no genesis-marker
parents), starting at a well-formed position `(n, i, l)`, the `k`-th descendant is at `(n, i + k, l)`
for as long as `i + k < l`, and the block after the epoch's last one is at `(n + 1, 0, _)`:
no position is skipped or repeated. -/
theorem epochs_gap_free (f : Nat → Nat)
    (hstep : ∀ k, epochVerify (f k) (f (k + 1)) = .ok) (hng : ∀ k, enfIsGenesis (f k) = false) :
    (∀ k, enfIndex (f 0) + k < enfLength (f 0) →
      enfNumber (f k) = enfNumber (f 0) ∧ enfIndex (f k) = enfIndex (f 0) + k ∧
        enfLength (f k) = enfLength (f 0)) ∧
    (∀ k, enfIndex (f 0) + k = enfLength (f 0) →
      enfNumber (f k) = enfNumber (f 0) + 1 ∧ enfIndex (f k) = 0 ∨ k = 0) := by
  have within : ∀ k, enfIndex (f 0) + k < enfLength (f 0) →
      enfNumber (f k) = enfNumber (f 0) ∧ enfIndex (f k) = enfIndex (f 0) + k ∧
        enfLength (f k) = enfLength (f 0) := by
    intro k
    induction k with
    | zero => intro _; simp
    | succ k ih =>
      intro hk
      obtain ⟨h1, h2, h3⟩ := ih (by omega)
      have hs := (epoch_successor_iff_next_position (f k) (f (k + 1)) (hng k)).mp (hstep k)
      have hne : ¬ (enfIndex (f k) + 1 = enfLength (f k)) := by omega
      simp only [hne, if_false] at hs
      omega
  refine ⟨within, fun k hk => ?_⟩
  cases k with
  | zero => right; rfl
  | succ k =>
    left
    obtain ⟨h1, h2, h3⟩ := within k (by omega)
    have hs := (epoch_successor_iff_next_position (f k) (f (k + 1)) (hng k)).mp (hstep k)
    have he : enfIndex (f k) + 1 = enfLength (f k) := by omega
    simp only [he, if_true] at hs
    omega

/-- the hypotheses are satisfiable: positions 5(2/4), 5(3/4), 6(0/7) -/
example : epochVerify (enfPack 5 2 4) (enfPack 5 3 4) = .ok ∧ epochVerify (enfPack 5 3 4) (enfPack 6 0 7) = .ok ∧
    epochVerify (enfPack 5 3 4) (enfPack 5 4 4) = .malformed ∧ epochVerify (enfPack 5 2 4) (enfPack 6 0 7) = .nonContinuous := by
  decide +kernel



/-! ## epoch fields along a chain built from `EpochExt`s

The contextual `EpochVerifier` forces `header.epoch() = epoch_ext.number_with_fraction(number)`; the
two theorems below show that the positions so obtained — inside one epoch, and across the boundary to
the epoch computed by `next_epoch_ext` — are accepted by the non-contextual `EpochVerifier`
(`is_well_formed` + `is_successor_of`), i.e. consecutive blocks' epoch fields are gap-free. -/

theorem numberWithFraction_eq {e : EpochExt} {i : Nat} :
    numberWithFraction e (e.start + i) = some (enfPack e.number i e.length) := by
  unfold numberWithFraction subChk
  simp

/-- inside an epoch, the positions reported for consecutive block numbers are accepted by the
(non-contextual) `EpochVerifier` -/
theorem epoch_fields_consecutive_within (e : EpochExt) (i : Nat)
    (hn : e.number < 2 ^ EPOCH_NUMBER_BITS) (hl : e.length < 2 ^ EPOCH_LENGTH_BITS) (hi : i + 1 < e.length) :
    ∃ a b, numberWithFraction e (e.start + i) = some a ∧ numberWithFraction e (e.start + (i + 1)) = some b ∧
      epochVerify a b = .ok := by
  refine ⟨_, _, numberWithFraction_eq, numberWithFraction_eq, ?_⟩
  have hib : i < 2 ^ EPOCH_INDEX_BITS ∧ i + 1 < 2 ^ EPOCH_INDEX_BITS := by
    simp only [EPOCH_INDEX_BITS, EPOCH_LENGTH_BITS] at *; omega
  obtain ⟨a1, a2, a3⟩ := enf_roundtrip hn hib.1 hl
  obtain ⟨b1, b2, b3⟩ := enf_roundtrip hn hib.2 hl
  have hg : enfIsGenesis (enfPack e.number i e.length) = false := by
    unfold enfIsGenesis; rw [a3]; simp; omega
  rw [epoch_successor_iff_next_position _ _ hg, a1, a2, a3, b1, b2, b3]
  have : ¬ (i + 1 = e.length) := by omega
  simp only [this, if_false]
  exact ⟨⟨by omega, hi⟩, trivial, trivial, trivial⟩

/-- across an epoch boundary: the last block of epoch `e` and the first block of the epoch computed by
`next_epoch_ext` carry consecutive epoch fields -/
theorem epoch_fields_consecutive_across {P : Params} {e o : EpochExt} {hc u ms : Nat}
    (h : nextEpochExt P e (e.start + (e.length - 1)) hc u ms = some o)
    (hL : MIN_EPOCH_LENGTH ≤ e.length ∧ e.length ≤ MAX_EPOCH_LENGTH)
    (hn : e.number + 1 < 2 ^ EPOCH_NUMBER_BITS) :
    ∃ a b, numberWithFraction e (e.start + (e.length - 1)) = some a ∧
      numberWithFraction o (e.start + (e.length - 1) + 1) = some b ∧ epochVerify a b = .ok := by
  obtain ⟨h1, h2, _, _⟩ := next_len_bounds h hL
  obtain ⟨_, _, _, _, _, _, _, _, _, _, _, _, _, _, _, _, _, ho⟩ := nextEpochExt_some h
  have hnum : o.number = e.number + 1 := by rw [ho]
  have hst : o.start = e.start + (e.length - 1) + 1 := by rw [ho]
  have hmin : MIN_EPOCH_LENGTH = 300 := by decide
  have hmax : MAX_EPOCH_LENGTH = 1800 := by decide
  have hb : numberWithFraction o (e.start + (e.length - 1) + 1) = some (enfPack o.number 0 o.length) := by
    have := numberWithFraction_eq (e := o) (i := 0)
    rw [hst] at this; simpa using this
  refine ⟨_, _, numberWithFraction_eq, hb, ?_⟩
  simp only [EPOCH_NUMBER_BITS] at *
  obtain ⟨a1, a2, a3⟩ := enf_roundtrip (n := e.number) (i := e.length - 1) (l := e.length)
    (by simp only [EPOCH_NUMBER_BITS]; omega) (by simp only [EPOCH_INDEX_BITS]; omega) (by simp only [EPOCH_LENGTH_BITS]; omega)
  obtain ⟨b1, b2, b3⟩ := enf_roundtrip (n := o.number) (i := 0) (l := o.length)
    (by simp only [EPOCH_NUMBER_BITS]; omega) (by simp only [EPOCH_INDEX_BITS]; omega) (by simp only [EPOCH_LENGTH_BITS]; omega)
  have hg : enfIsGenesis (enfPack e.number (e.length - 1) e.length) = false := by
    unfold enfIsGenesis; rw [a3]; simp; omega
  rw [epoch_successor_iff_next_position _ _ hg, a1, a2, a3, b1, b2, b3]
  have : e.length - 1 + 1 = e.length := by omega
  simp only [this, if_true]
  exact ⟨⟨by omega, by omega⟩, hnum, trivial⟩


/-! ## whole-chain view (what a node computes for every block; tied by the `node` stream)

`chainStep s ts u`: the block appended to tip `s` gets the tip's epoch, or — when the tip is the
last block of its epoch — the epoch `next_epoch_ext` computes from the statistics `get_block_epoch`
collects (uncles and milliseconds since the previous epoch's last block). -/

/-- One block: the tip stays inside its epoch (`ChainInv`), the demanded epoch field is the next
position after the tip's and is accepted by `EpochVerifier`; a new epoch starts exactly after the
epoch's last block and is `next_epoch_ext` of the statistics of the finished epoch. -/
theorem chain_step_epoch_rule {s s' : ChainSt} {ts u field compact : Nat} {head : Bool}
    (h : chainStep s ts u = some (s', field, compact, head)) (inv : ChainInv s)
    (hnum : s.cur.number + 1 < 2 ^ 24) :
    ChainInv s' ∧ s'.tipNumber = s.tipNumber + 1 ∧ field = tipField s' ∧ compact = s'.cur.compact ∧
      epochVerify (tipField s) field = .ok ∧
      (head = false → s'.cur = s.cur) ∧
      (head = true → s.tipNumber + 1 = s.cur.start + s.cur.length ∧
        nextEpochExt s.P s.cur s.tipNumber s.cur.compact (s.tu - s.lastEndTU) (s.tipTs - s.lastEndTs) = some s'.cur) :=
  chainStep_spec h inv hnum

/-- `chain_epoch_fields_gap_free`: along ANY chain the whole-chain view produces (any timestamps and
uncle counts, any number of epochs, lengths from 1 to MAX), consecutive blocks' epoch fields are
consecutive positions accepted by `EpochVerifier`. -/
theorem chain_epoch_fields_gap_free (s : ChainSt) (bs : List (Nat × Nat)) (fs : List Nat)
    (inv : ChainInv s) (hn : s.cur.number + bs.length < 2 ^ 24) (h : chainFields s bs = some fs) :
    allConsecutive (tipField s) fs :=
  chainFields_consecutive bs s fs inv hn h

/-- a 2-block genesis epoch followed by a 4-block epoch: fields 0(1/2), 1(0/4), 1(1/4) -/
example : chainFields
    { P := { T := 16, initial := 1000, halving := 3 },
      cur := { number := 0, base := 500, rem := 0, prevHR := 1, start := 0, length := 2, compact := 0x20010000 },
      lastEndTs := 0, lastEndTU := 0, tu := 0, tipNumber := 0, tipTs := 0 }
    [(8000, 0), (16000, 0), (24000, 0)] = some [enfPack 0 1 2, enfPack 1 0 4, enfPack 1 1 4] := by
  decide +kernel

/-! ## compact target / difficulty conversions

What is true of the code (and what is not): `target_to_compact` keeps the top three *bytes* of the
target (17–24 significant bits), so `compact_to_target ∘ target_to_compact` is the truncation
`truncTarget` (not the identity); it never sets the overflow flag; a compact whose mantissa is not
normalised (e.g. `0x04000001`) does not re-encode to itself, which is why the round trip is stated from
the target side. -/

/-- `compact_roundtrip`: decoding the encoding of any 256-bit target gives the target with the bits
below its top three bytes cleared, without overflow flag; this value is `≤` the target, non-zero for
a non-zero target, and differs from it by at most a `2^-16` fraction. -/
theorem compact_roundtrip {t : Nat} (ht : t < U256) :
    compactToTarget (targetToCompact t) = (truncTarget t, false) ∧
      truncTarget t ≤ t ∧ (t ≠ 0 → truncTarget t ≠ 0) ∧ (t - truncTarget t) * 2 ^ 16 ≤ t :=
  ⟨compact_roundtrip_target ht, truncTarget_le t, truncTarget_pos, truncTarget_precision t⟩

/-- the canonical encoding is a fixed point: encoding the re-decoded target gives the same target again -/
theorem compact_roundtrip_idempotent {t : Nat} (ht : t < U256) :
    compactToTarget (targetToCompact (truncTarget t)) = (truncTarget (truncTarget t), false) :=
  compact_roundtrip_target (Nat.lt_of_le_of_lt (truncTarget_le t) ht)

/-- `compact_monotone`: target → compact → target is monotone. -/
theorem compact_monotone {t1 t2 : Nat} (h : t1 ≤ t2) (ht : t2 < U256) :
    (compactToTarget (targetToCompact t1)).1 ≤ (compactToTarget (targetToCompact t2)).1 := by
  rw [(compact_roundtrip ht).1, (compact_roundtrip (Nat.lt_of_le_of_lt h ht)).1]
  exact truncTarget_mono h

/-- `target_difficulty_antitone`: a larger (non-zero) target is a smaller or equal difficulty. -/
theorem target_difficulty_antitone {t1 t2 : Nat} (h0 : t1 ≠ 0) (h : t1 ≤ t2) (ht : t2 < U256) :
    ∃ d1 d2, targetToDifficulty t1 = some d1 ∧ targetToDifficulty t2 = some d2 ∧ d2 ≤ d1 :=
  ⟨_, _, targetToDifficulty_eq h0, targetToDifficulty_eq (by omega), recip256_antitone h0 h ht⟩

/-- `compact_of_diff_nonzero`: a difficulty `≥ 1` never round-trips through the compact form to 0,
and never decreases (the target is rounded down). -/
theorem compact_of_diff_nonzero {d : Nat} (h0 : d ≠ 0) (hd : d < U256) :
    ∃ c, difficultyToCompact d = some c ∧ 1 ≤ compactToDifficulty c ∧ d ≤ compactToDifficulty c :=
  difficulty_roundtrip h0 hd

/-- The compact target produced by `next_epoch_ext` never decodes to difficulty zero, and decodes to
at least the difficulty given by the formula of `next_diff_eq_formula`. -/
theorem next_compact_difficulty_pos {P : Params} {e o : EpochExt} {hn hc u ms : Nat}
    (h : nextEpochExt P e hn hc u ms = some o) : 1 ≤ compactToDifficulty o.compact := by
  obtain ⟨adj, lor, L', bound, den, nd, R, _, _, _, _, h5, _, _, _, _, h10, _⟩ := nextEpochExt_some h
  have hlt := nextDiff_lt h5
  have h0 : nd ≠ 0 := by
    intro h0; subst h0
    unfold difficultyToCompact difficultyToTarget divChk at h10; simp at h10
  obtain ⟨c, hc1, hc2, _⟩ := difficulty_roundtrip h0 hlt
  rw [h10] at hc1; injection hc1 with hc1; rw [hc1]; exact hc2

example : compactToDifficulty 0x1a08a8b1 = 0x1d90959b540e32 ∧ targetToCompact (2 ^ 255) = 0x20800000 ∧
    compactToTarget 0x04000001 = (0x100, false) ∧ targetToCompact 0x100 = 0x02010000 := by decide +kernel


/-! ## epoch statistics handed to `next_epoch_ext` (`EpochProvider::get_block_epoch`)

**Finding (class `epoch-duration-underflow-panics`).**  The statistics are differences of stored
values computed with checked `u64` arithmetic.  `total_uncles_count` is monotone along a chain, but
timestamps are not: the only lower bound on a block's timestamp is the median of the previous 37.
`block_epoch_stats_defined` states the hypothesis under which the statistics exist,
`epoch_duration_underflow_panics` that the code panics outside it, and
`timestamp_rule_allows_epoch_end_before_previous_epoch_end` exhibits a chain of timestamps accepted
by the median rule in which a 300-block epoch ends before the previous epoch ended (on mainnet this
needs a majority of stale timestamps over a whole epoch; it is replayed on the real
`HeaderVerifier` + `get_block_epoch` by the `header` stream, corpus/C07/header-epoch-duration-underflow.ops). -/

/-- for the tail block of an epoch the statistics are the plain differences, provided the epoch's last
block is not older than the previous epoch's last block -/
theorem block_epoch_stats_defined {hn start len tuH tuP tsH tsP : Nat}
    (hlen : 1 ≤ start + len) (hlt : start + len < U64) (htail : hn = start + len - 1)
    (hu : tuP ≤ tuH) (ht : tsP ≤ tsH) :
    getBlockEpoch hn start len tuH tuP tsH tsP = some (some (tuH - tuP, tsH - tsP)) := by
  unfold getBlockEpoch chk64 chk subChk
  simp [hlt, hlen, htail, hu, ht]

/-- outside that hypothesis `get_block_epoch` (hence `next_epoch_ext`) panics — for *every* such input -/
theorem epoch_duration_underflow_panics {hn start len tuH tuP tsH tsP : Nat}
    (htail : hn = start + len - 1) (ht : tsH < tsP) :
    getBlockEpoch hn start len tuH tuP tsH tsP = none := by
  unfold getBlockEpoch chk64 chk subChk
  have : ¬ (tsP ≤ tsH) := by omega
  by_cases h1 : start + len < U64 <;> by_cases h2 : 1 ≤ start + len <;> by_cases h3 : tuP ≤ tuH <;>
    simp [h1, h2, h3, htail, this]

/-- timestamps (oldest first) of 338 blocks: blocks 0..36 one millisecond apart, block 37 (the last of an
epoch) far ahead, blocks 38..337 (a whole 300-block epoch) continuing one millisecond apart -/
def decreasingEpochEndChain : List Nat := (List.range 37).map (· + 1) ++ [1000000] ++ (List.range 300).map (· + 38)

/-- the median-of-37 timestamp rule does not exclude it -/
theorem timestamp_rule_allows_epoch_end_before_previous_epoch_end :
    chainTimestampsOk 37 [] decreasingEpochEndChain = true ∧ decreasingEpochEndChain.length = 338 ∧
      decreasingEpochEndChain.getD 37 0 = 1000000 ∧ decreasingEpochEndChain.getD 337 0 = 337 := by
  decide +kernel

/-! ## proof of work -/

/-- `pow_accept_iff_le_target`: a header is accepted iff its compact target decodes to a non-zero,
non-overflowing target and the digest does not exceed it. -/
theorem pow_accept_iff_le_target (compact digest : Nat) :
    powVerify compact digest = true ↔
      (compactToTarget compact).1 ≠ 0 ∧ (compactToTarget compact).2 = false ∧
        digest ≤ (compactToTarget compact).1 :=
  pow_accept_iff compact digest

example : powVerify 0x20800000 (2 ^ 255) = true ∧ powVerify 0x20800000 (2 ^ 255 + 1) = false ∧
    powVerify 0x21000001 0 = false ∧ powVerify 0x01000000 0 = false := by decide +kernel

/-- `HeaderVerifier` (PoW, parent, number, epoch stages) accepts a header iff the digest does not
exceed a valid target, the parent is known, the number is the parent's + 1 and the epoch field is the
next position after the parent's. -/
theorem header_accept_iff (compact digest : Nat) (known : Bool) (pn hn pe he : Nat) (hpn : pn + 1 < U64) :
    headerVerify compact digest known pn hn pe he = some .ok ↔
      powVerify compact digest = true ∧ known = true ∧ hn = pn + 1 ∧ epochVerify pe he = .ok := by
  unfold headerVerify chk64 chk
  cases hp : powVerify compact digest <;> cases known <;> simp [hpn]
  by_cases hnum : hn = pn + 1
  · cases he' : epochVerify pe he <;> simp [hnum]
  · cases he' : epochVerify pe he <;> simp [hnum]

/-! ## contextual `EpochVerifier` (what a node demands of every block it connects)

`ContextualBlockVerifier::verify` runs `EpochVerifier::new(&next_epoch_ext(parent).epoch(), block)`
first; `chainVerify s f c` is its answer for a child of the tip `s` carrying epoch field `f` and compact
target `c` (tied by the `nv` lines of the `node` stream: rejected variants of real blocks, with the
`EpochError` variant compared). -/

/-- accepted iff the block number is inside/after the epoch start, the header's epoch field (the full
u64) is `number_with_fraction(number)` and the compact target is the epoch's -/
theorem ctx_epoch_accept_iff (e : EpochExt) (n f c : Nat) :
    ctxEpochVerify e n f c = some .ok ↔
      e.start ≤ n ∧ f = enfPack e.number (n - e.start) e.length ∧ c = e.compact :=
  ctxEpochVerify_ok_iff e n f c

/-- the order of the two checks: `TargetMismatch` is only reported for a correct epoch field, a wrong
epoch field is always `NumberMismatch` (whatever the target) -/
theorem ctx_epoch_number_checked_first (e : EpochExt) (n f c : Nat) (hs : e.start ≤ n) :
    (ctxEpochVerify e n f c = some .numberMismatch ↔ f ≠ enfPack e.number (n - e.start) e.length) ∧
    (ctxEpochVerify e n f c = some .targetMismatch ↔
      f = enfPack e.number (n - e.start) e.length ∧ c ≠ e.compact) := by
  have hf : numberWithFraction e n = some (enfPack e.number (n - e.start) e.length) := by
    unfold numberWithFraction subChk; simp [hs]
  rw [ctxEpochVerify_of_field hf]
  by_cases h1 : f = enfPack e.number (n - e.start) e.length
  · by_cases h2 : e.compact = c
    · simp [h1, h2]
    · have : ¬ (c = e.compact) := fun h => h2 h.symm
      simp [h1, h2, this]
  · simp [h1]

/-- For every chain state: the contextual verifier accepts EXACTLY ONE (epoch field, compact target)
pair for the next block — the one the whole-chain view computes (`chainStep`), whatever the new
block's own timestamp and uncles. -/
theorem chain_verify_accepts_exactly_chain_step {s s' : ChainSt} {ts u field compact : Nat} {head : Bool}
    (h : chainStep s ts u = some (s', field, compact, head)) (f c : Nat) :
    chainVerify s f c = some .ok ↔ f = field ∧ c = compact := by
  obtain ⟨e, he, hf, hc, _, _, _⟩ := chainStep_some h
  unfold chainVerify
  rw [he]
  simp only [Option.bind_eq_bind, Option.bind_some]
  rw [ctxEpochVerify_of_field hf, hc]
  by_cases h1 : f = field
  · by_cases h2 : e.compact = c
    · simp [h1, h2]
    · have : ¬ (c = e.compact) := fun h => h2 h.symm
      simp [h1, h2, this]
  · simp [h1]

/-- Conversely a block the contextual verifier accepts IS a step of the whole-chain view (for any
timestamp / uncle count of the new block) … -/
theorem chain_verify_ok_is_chain_step {s : ChainSt} {f c : Nat} (h : chainVerify s f c = some .ok)
    (ts u : Nat) : ∃ s' head, chainStep s ts u = some (s', f, c, head) := by
  unfold chainVerify at h
  simp only [Option.bind_eq_bind, Option.bind_eq_some_iff] at h
  obtain ⟨⟨e, hd⟩, he, hv⟩ := h
  obtain ⟨hs, hf, hc⟩ := (ctxEpochVerify_ok_iff e _ f c).mp hv
  have hnf : numberWithFraction e (s.tipNumber + 1) = some f := by
    unfold numberWithFraction subChk; simp [hs, hf]
  unfold chainStep
  rw [he]
  simp only [Option.bind_eq_bind, Option.bind_some, hnf, hc]
  exact ⟨_, _, rfl⟩

/-- … hence its epoch field is the next position after the tip's, accepted by the non-contextual
`EpochVerifier` too: consecutive blocks connected by a node carry gap-free epoch fields. -/
theorem ctx_accepted_child_is_next_position {s : ChainSt} {f c : Nat} (inv : ChainInv s)
    (hnum : s.cur.number + 1 < 2 ^ 24) (h : chainVerify s f c = some .ok) :
    epochVerify (tipField s) f = .ok := by
  obtain ⟨s', head, hstep⟩ := chain_verify_ok_is_chain_step h 0 0
  exact (chainStep_spec hstep inv hnum).2.2.2.2.1

/-- a 2-block genesis epoch: after block 1 the only accepted child is 1(0/4) with the new target -/
def exampleTip : ChainSt :=
  { P := { T := 16, initial := 1000, halving := 3 },
    cur := { number := 0, base := 500, rem := 0, prevHR := 1, start := 0, length := 2, compact := 0x20010000 },
    lastEndTs := 0, lastEndTU := 0, tu := 0, tipNumber := 1, tipTs := 8000 }

example : chainVerify exampleTip (enfPack 1 0 4) 538968064 = some .ok ∧
    chainVerify exampleTip (enfPack 1 0 2) 538968064 = some .numberMismatch ∧
    chainVerify exampleTip (enfPack 1 0 2) 0x20010000 = some .numberMismatch ∧
    chainVerify exampleTip (enfPack 1 0 4) 0x20010000 = some .targetMismatch := by
  decide +kernel

/-! ## primary rewards along a whole chain -/

/-- one block keeps the reward invariant: the epoch of the new tip hands out exactly the scheduled
primary reward of its number (halving at multiples of the interval), remainder below its length -/
theorem chain_step_rewards_on_schedule {s s' : ChainSt} {ts u field compact : Nat} {head : Bool}
    (h : chainStep s ts u = some (s', field, compact, head)) (inv : ChainInv s)
    (hnum : s.cur.number + 1 < 2 ^ 24) (hinit : s.P.initial < U64) (hh : s.P.halving ≠ 0)
    (hr : RewardInv s) : RewardInv s' ∧ s'.P = s.P := by
  obtain ⟨_, _, _, _, hP, _, _⟩ := chainStep_some h
  obtain ⟨_, _, _, _, _, hnh, hhd⟩ := chainStep_spec h inv hnum
  refine ⟨?_, hP⟩
  unfold RewardInv
  rw [hP]
  cases head with
  | false => rw [hnh rfl]; exact hr
  | true =>
    obtain ⟨_, hne⟩ := hhd rfl
    obtain ⟨_, h2⟩ := next_epoch_reward_on_schedule hne hinit hh hr.1
    obtain ⟨R, _, _, h3, _⟩ := next_epoch_rewards_sum hne hinit
    exact ⟨h2, h3⟩

/-- `chain_rewards_on_schedule`: along ANY chain of the whole-chain view (any timestamps, uncle
counts, number of epochs and epoch lengths) starting from an epoch that hands out its scheduled reward
(the genesis epoch is built so), every epoch reached hands out the scheduled primary reward of its
number. -/
theorem chain_rewards_on_schedule (bs : List (Nat × Nat)) :
    ∀ (s s' : ChainSt), ChainInv s → RewardInv s → s.cur.number + bs.length < 2 ^ 24 →
      s.P.initial < U64 → s.P.halving ≠ 0 → chainRun s bs = some s' →
      ChainInv s' ∧ RewardInv s' ∧ s'.P = s.P := by
  induction bs with
  | nil => intro s s' inv hr _ _ _ h; simp [chainRun] at h; subst h; exact ⟨inv, hr, rfl⟩
  | cons b rest ih =>
    intro s s' inv hr hn hinit hh h
    obtain ⟨ts, u⟩ := b
    simp only [chainRun, Option.bind_eq_bind, Option.bind_eq_some_iff] at h
    obtain ⟨⟨s1, f, c, hd⟩, hstep, hrest⟩ := h
    simp only [List.length_cons] at hn
    obtain ⟨inv1, _, _, _, _, hnh, hhd⟩ := chainStep_spec hstep inv (by omega)
    obtain ⟨hr1, hP1⟩ := chain_step_rewards_on_schedule hstep inv (by omega) hinit hh hr
    have hnum1 : s1.cur.number + rest.length < 2 ^ 24 := by
      cases hd with
      | false => rw [hnh rfl]; omega
      | true =>
        obtain ⟨_, hne⟩ := hhd rfl
        obtain ⟨_, _, _, _, _, _, _, _, _, _, _, _, _, _, _, _, _, ho⟩ := nextEpochExt_some hne
        have : s1.cur.number = s.cur.number + 1 := by rw [ho]
        omega
    obtain ⟨a, b, c⟩ := ih s1 s' inv1 hr1 hnum1 (by rw [hP1]; exact hinit) (by rw [hP1]; exact hh) hrest
    exact ⟨a, b, by rw [c, hP1]⟩

/-- … and its blocks' rewards (`block_reward(number)`: `base + 1` for the first `rem` blocks, then
`base`) sum over the whole epoch — for EVERY epoch length the chain reaches — to exactly
`initial >> (number / halving_interval)`. -/
theorem chain_epoch_block_rewards_sum {s s' : ChainSt} {bs : List (Nat × Nat)}
    (inv : ChainInv s) (hr : RewardInv s) (hn : s.cur.number + bs.length < 2 ^ 24)
    (hinit : s.P.initial + 1 < U64) (hh : s.P.halving ≠ 0) (h : chainRun s bs = some s')
    (hstart : s'.cur.start + s'.cur.length ≤ U64) (h64 : s'.cur.number / s.P.halving < 64) :
    ∃ f : Nat → Nat, (∀ i, blockReward s'.cur (s'.cur.start + i) = some (f i)) ∧
      ((List.range s'.cur.length).map f).sum = s.P.initial / 2 ^ (s'.cur.number / s.P.halving) := by
  obtain ⟨_, ⟨hr1, hr2⟩, hP⟩ := chain_rewards_on_schedule bs s s' inv hr hn (by omega) hh h
  rw [hP] at hr1
  rw [primaryEpochReward_eq _ hh h64] at hr1
  have hpr := hr1
  obtain ⟨hRlt, hR⟩ := primaryReward_some hpr
  have hRle : s.P.initial / 2 ^ (s'.cur.number / s.P.halving) ≤ s.P.initial := Nat.div_le_self _ _
  have hL : 1 ≤ s'.cur.length := by omega
  have hb : s'.cur.base ≤ s.P.initial / 2 ^ (s'.cur.number / s.P.halving) := by
    rw [hR]
    have : s'.cur.base * 1 ≤ s'.cur.base * s'.cur.length := Nat.mul_le_mul_left _ hL
    omega
  obtain ⟨f, hf, hsum⟩ := rewards_sum_to_epoch_reward s'.cur (by omega) (by omega) (by omega)
  exact ⟨f, hf, by rw [hsum, ← hR]⟩


/-- `chain_epoch_secondary_sum`: along ANY chain of the whole-chain view, for every epoch reached —
whatever its length — the per-block secondary issuance (`S / L`, one more shannon for the first
`S % L` blocks) sums over the whole epoch to exactly the consensus' `secondary_epoch_reward` `S`. -/
theorem chain_epoch_secondary_sum {s s' : ChainSt} {bs : List (Nat × Nat)} (S : Nat)
    (inv : ChainInv s) (hr : RewardInv s) (hn : s.cur.number + bs.length < 2 ^ 24)
    (hinit : s.P.initial < U64) (hh : s.P.halving ≠ 0) (h : chainRun s bs = some s')
    (hstart : s'.cur.start + s'.cur.length ≤ U64) (hS : S + 1 < U64) :
    ∃ f : Nat → Nat, (∀ i, secondaryBlockIssuance s'.cur (s'.cur.start + i) S = some (f i)) ∧
      ((List.range s'.cur.length).map f).sum = S := by
  obtain ⟨⟨i1, i2, _⟩, _, _⟩ := chain_rewards_on_schedule bs s s' inv hr hn hinit hh h
  have hL : s'.cur.length ≠ 0 := by omega
  have hdiv : S / s'.cur.length ≤ S := Nat.div_le_self _ _
  exact secondary_issuance_sums_to_epoch_issuance s'.cur S hL hstart (by omega)

/-! ## the numext `U256` layer and the compact encoding on its canonical range

`Model/EpochU256.lean` states what each `U256` operation used by the difficulty / epoch code computes
(tied operation by operation: `u…` lines of the `epoch` stream) and models `U256::gcd` as written
(Stein's algorithm). -/

/-- `U256::gcd` — strip the common factors of two, then the subtract-and-shift loop — computes the
mathematical gcd for all 256-bit arguments, never exhausting its iteration bound: the `Nat.gcd` in the
model's `RationalU256` reductions (which decide when a product overflows) is what the code computes. -/
theorem u256_gcd_is_gcd {a b : Nat} (ha : a < U256) : U256.gcd a b = Nat.gcd a b :=
  U256.gcd_eq_nat_gcd ha

example : U256.gcd (2 ^ 200 * 12) (2 ^ 100 * 18) = 2 ^ 101 * 3 := by
  rw [u256_gcd_is_gcd (by decide)]; decide +kernel

/-- `*` returns exactly the product or panics; `<<` then `>>` by the same amount gives the value back
iff nothing was shifted out -/
theorem u256_mul_exact (a b r : Nat) : U256.mul a b = some r ↔ a * b < U256 ∧ r = a * b := by
  unfold U256.mul chk256; exact chk_eq_some

theorem u256_shl_shr (a k : Nat) (h : a * 2 ^ k < U256) : U256.shr (U256.shl a k) k = a := by
  unfold U256.shr U256.shl
  rw [Nat.mod_eq_of_lt h]
  exact Nat.mul_div_cancel _ (Nat.pow_pos (by decide))

/-- `compact_canonical_roundtrip`: on the canonical range (byte length `e` in 1..32, top mantissa
byte non-zero, no mantissa bits that decoding drops) `target_to_compact ∘ compact_to_target` is the
identity, without overflow flag; the decoded target has exactly `e` bytes. -/
theorem compact_canonical_roundtrip {m e : Nat} (h : CanonicalCompact m e) :
    targetToCompact (compactToTarget (m + e * 2 ^ 24)).1 = m + e * 2 ^ 24 ∧
      (compactToTarget (m + e * 2 ^ 24)).2 = false ∧
      2 ^ (8 * (e - 1)) ≤ (compactToTarget (m + e * 2 ^ 24)).1 ∧
      (compactToTarget (m + e * 2 ^ 24)).1 < 2 ^ (8 * e) := by
  obtain ⟨hd, hlo, hhi⟩ := canonical_target_bounds h
  exact ⟨canonical_roundtrip h, by rw [hd], hlo, hhi⟩

/-- the canonical range is exactly the image: every compact `target_to_compact` emits for a non-zero
256-bit target is canonical (so the two round trips make the encoding a bijection between canonical
compacts and 3-byte-truncated targets) -/
theorem target_to_compact_is_canonical {t : Nat} (ht : t < U256) (h0 : t ≠ 0) :
    ∃ m e, targetToCompact t = m + e * 2 ^ 24 ∧ CanonicalCompact m e :=
  targetToCompact_canonical ht h0

/-- `compact ↔ target` monotone: on canonical compacts the numeric order of the 32-bit compact values
is the order of the targets, strictly. -/
theorem compact_canonical_order {m1 e1 m2 e2 : Nat} (c1 : CanonicalCompact m1 e1) (c2 : CanonicalCompact m2 e2) :
    (m1 + e1 * 2 ^ 24 ≤ m2 + e2 * 2 ^ 24 ↔
      (compactToTarget (m1 + e1 * 2 ^ 24)).1 ≤ (compactToTarget (m2 + e2 * 2 ^ 24)).1) ∧
    (m1 + e1 * 2 ^ 24 < m2 + e2 * 2 ^ 24 ↔
      (compactToTarget (m1 + e1 * 2 ^ 24)).1 < (compactToTarget (m2 + e2 * 2 ^ 24)).1) := by
  have inj : ∀ {ma ea mb eb : Nat}, CanonicalCompact ma ea → CanonicalCompact mb eb →
      (compactToTarget (ma + ea * 2 ^ 24)).1 = (compactToTarget (mb + eb * 2 ^ 24)).1 →
      ma + ea * 2 ^ 24 = mb + eb * 2 ^ 24 := by
    intro ma ea mb eb ca cb heq
    rw [← canonical_roundtrip ca, ← canonical_roundtrip cb, heq]
  constructor
  · constructor
    · exact canonical_mono c1 c2
    · intro ht
      by_cases hc : m1 + e1 * 2 ^ 24 ≤ m2 + e2 * 2 ^ 24
      · exact hc
      · have := canonical_mono c2 c1 (by omega)
        have := inj c1 c2 (by omega)
        omega
  · constructor
    · intro hlt
      have hle := canonical_mono c1 c2 (by omega)
      by_cases heq : (compactToTarget (m1 + e1 * 2 ^ 24)).1 = (compactToTarget (m2 + e2 * 2 ^ 24)).1
      · have := inj c1 c2 heq; omega
      · omega
    · intro ht
      by_cases hc : m2 + e2 * 2 ^ 24 ≤ m1 + e1 * 2 ^ 24
      · have := canonical_mono c2 c1 hc; omega
      · omega

/-- the mainnet genesis compact target is canonical -/
example : CanonicalCompact 0x08a8b1 0x1a ∧ 0x08a8b1 + 0x1a * 2 ^ 24 = 0x1a08a8b1 := by
  unfold CanonicalCompact; decide


end CkbVerif.C07
