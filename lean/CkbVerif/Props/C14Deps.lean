import CkbVerif.Model.Cache
import CkbVerif.Gen.Cache

/-!
# C14, round 6 — the `SYSTEM_CELL` cache never changes a resolution

Model: `Model/Cache.lean`, section "SYSTEM_CELL" (`util/types/src/core/cell.rs`
`resolve_transaction_deps_with_system_cell_cache`, `resolve_transaction_dep`, `ResolvedTransaction::check`).

* `sys_dep_eq_provider`, `sys_resolve_eq_provider` — if every entry of the map is what the cell
  provider answers **now** (`SysCoherent`: the keyed out-point is live and not consumed earlier in
  the block, a group's members are the parsed data of the group cell and are live), resolving the
  cell deps of any transaction with the map gives exactly the result of resolving them through the
  provider: same resolved cell deps in the same order, same dep groups, same remaining budget, same
  error (`OverMaxDepExpansionLimit` included) — for every dep list, every budget, every mix of
  system / other code deps and groups.
* `sys_check_ok_iff` — `ResolvedTransaction::check` (liveness re-check of the deps) accepts with the
  map iff it accepts without, for every resolved transaction, if the cells named by the map are live.
* the hypotheses matter: `sys_group_one_slot_breaks_limit` (a cached group charged one slot instead
  of one per member accepts a transaction the provider path refuses at the limit),
  `spent_system_cell_breaks_resolution` (a system cell that is consumed keeps resolving from the
  map: the map is sound only because the genesis system cells are unspendable),
  `sys_key_without_dep_type_breaks_resolution` (the key must include the dep type).
-/
namespace CkbVerif.C14
open CkbVerif.Cache

/-- every entry of the `SYSTEM_CELL` map is what the provider would answer in the current state -/
def SysCoherent (sys : SysMap) (seen : List Nat) (p : Prov) : Prop :=
  ∀ d e, sys.get d = some e →
    match e with
    | .cell op => d.group = false ∧ op = d.op ∧ resolveCell seen p op = .ok ()
    | .group g ms => d.group = true ∧ g = d.op ∧ resolveCell seen p g = .ok () ∧
        p.members g = some ms ∧ resolveAll seen p ms = .ok ()

/-- one cell dep: the map's answer is the provider's answer, budget accounting included -/
theorem sys_dep_eq_provider {sys : SysMap} {seen : List Nat} {p : Prov} (h : SysCoherent sys seen p)
    (r : Resolved) (d : Dep) : resolveDepSys sys seen p r d = resolveDep seen p r d := by
  unfold resolveDepSys resolveDepSysG
  cases hg : sys.get d with
  | none => rfl
  | some e =>
    have hc := h d e hg
    cases e with
    | cell op =>
      obtain ⟨h1, h2, h3⟩ := hc
      subst h2
      simp only [resolveDep, h1, h3]
      simp
    | group g ms =>
      obtain ⟨h1, h2, h3, h4, h5⟩ := hc
      subst h2
      simp only [resolveDep, h1, h3, h4, h5]
      simp

theorem resolveDepsFrom_congr {f g : Resolved → Dep → Except DepErr Resolved} (h : ∀ r d, f r d = g r d)
    (r : Resolved) (ds : List Dep) : resolveDepsFrom f r ds = resolveDepsFrom g r ds := by
  induction ds generalizing r with
  | nil => rfl
  | cons d ds ih =>
    simp only [resolveDepsFrom, h]
    cases g r d with
    | error e => rfl
    | ok r' => exact ih r'

/-- **Resolution with the `SYSTEM_CELL` map = resolution through the cell provider**, for every
transaction (dep list), every expansion budget, and whether or not the map is initialised. -/
theorem sys_resolve_eq_provider {sys : SysMap} {seen : List Nat} {p : Prov} (h : SysCoherent sys seen p)
    (limit : Nat) (deps : List Dep) :
    resolveDeps limit (some sys) seen p deps = resolveDeps limit none seen p deps := by
  unfold resolveDeps
  exact resolveDepsFrom_congr (sys_dep_eq_provider h) _ deps

/-- non-vacuity: a chain state, a coherent map (two code cells, one group of two members), and a
transaction mixing system and other deps; budget 5 is exactly enough (2 + 1 + 1 + 1), 4 is not -/
def exProv : Prov :=
  { status := fun op => if op ≤ 20 then .live else if op = 30 then .dead else .unknown
    members := fun op => if op = 10 then some [1, 3] else if op = 11 then some [4, 5, 6] else none }
def exSys : SysMap := [(⟨1, false⟩, .cell 1), (⟨2, false⟩, .cell 2), (⟨10, true⟩, .group 10 [1, 3])]

theorem exSys_coherent : SysCoherent exSys [] exProv := by
  intro d e h
  simp only [exSys, SysMap.get, List.find?] at h
  obtain ⟨op, grp⟩ := d
  by_cases h1 : (⟨1, false⟩ : Dep) = ⟨op, grp⟩
  · cases h1; simp at h; subst h; decide
  · have e1 : ((⟨1, false⟩ : Dep) == ⟨op, grp⟩) = false := by simpa using h1
    simp only [e1] at h
    by_cases h2 : (⟨2, false⟩ : Dep) = ⟨op, grp⟩
    · cases h2; simp at h; subst h; decide
    · have e2 : ((⟨2, false⟩ : Dep) == ⟨op, grp⟩) = false := by simpa using h2
      simp only [e2] at h
      by_cases h3 : (⟨10, true⟩ : Dep) = ⟨op, grp⟩
      · cases h3; simp at h; subst h; decide
      · have e3 : ((⟨10, true⟩ : Dep) == ⟨op, grp⟩) = false := by simpa using h3
        simp [e3] at h

example : resolveDeps 5 (some exSys) [] exProv [⟨10, true⟩, ⟨2, false⟩, ⟨7, false⟩, ⟨1, false⟩]
      = .ok ⟨[1, 3, 2, 7, 1], [10], 0⟩ ∧
    resolveDeps 4 (some exSys) [] exProv [⟨10, true⟩, ⟨2, false⟩, ⟨7, false⟩, ⟨1, false⟩] = .error .overMax ∧
    resolveDeps 4 none [] exProv [⟨10, true⟩, ⟨2, false⟩, ⟨7, false⟩, ⟨1, false⟩] = .error .overMax ∧
    resolveDeps 9 (some exSys) [] exProv [⟨11, true⟩, ⟨10, true⟩, ⟨30, false⟩] = .error (.dead 30) ∧
    resolveDeps 9 (some exSys) [] exProv [⟨12, true⟩] = .error (.invalidGroup 12) := by decide

/-- The budget charge matters: a cached group charged ONE slot (instead of one per member) resolves
a transaction that the provider path refuses with `OverMaxDepExpansionLimit`. -/
theorem sys_group_one_slot_breaks_limit :
    resolveDepsFrom (resolveDepSysG (fun _ => 1) exSys [] exProv) ⟨[], [], 3⟩ [⟨10, true⟩, ⟨7, false⟩, ⟨8, false⟩]
      = .ok ⟨[1, 3, 7, 8], [10], 0⟩ ∧
    resolveDeps 3 none [] exProv [⟨10, true⟩, ⟨7, false⟩, ⟨8, false⟩] = .error .overMax ∧
    resolveDeps 3 (some exSys) [] exProv [⟨10, true⟩, ⟨7, false⟩, ⟨8, false⟩] = .error .overMax := by decide

/-- Coherence matters: the map is filled once at start-up and never updated. If a system cell is
consumed later (here cell 2 is dead; or it was spent earlier in the same block), the map keeps
resolving it while the provider path refuses the transaction. -/
theorem spent_system_cell_breaks_resolution :
    let p : Prov := { exProv with status := fun op => if op = 2 then .dead else exProv.status op }
    resolveDeps 9 (some exSys) [] p [⟨2, false⟩] = .ok ⟨[2], [], 8⟩ ∧
    resolveDeps 9 none [] p [⟨2, false⟩] = .error (.dead 2) ∧
    resolveDeps 9 (some exSys) [2] exProv [⟨2, false⟩] = .ok ⟨[2], [], 8⟩ ∧
    resolveDeps 9 none [2] exProv [⟨2, false⟩] = .error (.dead 2) := by decide

/-- The key is the whole `CellDep` (out-point AND dep type): a map looked up by out-point alone
answers the code dep on the group cell's out-point with the group's members. -/
theorem sys_key_without_dep_type_breaks_resolution :
    let sysOp : SysMap := [(⟨10, false⟩, .group 10 [1, 3])]   -- what a lookup ignoring the dep type finds for ⟨10, code⟩
    resolveDeps 9 (some sysOp) [] exProv [⟨10, false⟩] = .ok ⟨[1, 3], [10], 7⟩ ∧
    resolveDeps 9 none [] exProv [⟨10, false⟩] = .ok ⟨[10], [], 8⟩ := by decide

/-- source tie (translator, `gen/Cache.json`): the expressions of /repo the model follows — what each
path charges for a dep group, the block's cycle sum, when a block's results are cached, and what
the hit arm records with scripts skipped (6d79679) -/
theorem source_expressions_are_the_modelled_ones :
    Gen.Cache.SYS_GROUP_SLOTS = "cell_deps.len()" ∧
    Gen.Cache.PROVIDER_GROUP_SLOTS = "sub_out_points.len()" ∧
    Gen.Cache.BLOCK_CYCLE_SUM = "ret.iter().map(|(_, cache_entry)| cache_entry.cycles).sum()" ∧
    Gen.Cache.BLOCK_CACHE_FILL_GUARD = "!ret.is_empty() && !skip_script_verify" ∧
    Gen.Cache.BLOCK_SKIP_HIT_CYCLES = "0" ∧
    Gen.Cache.BLOCK_SKIP_HIT_FEE = "completed.fee" ∧
    Gen.Cache.BLOCK_FETCH_KEY = "rtx.transaction.witness_hash()" ∧
    Gen.Cache.BLOCK_LOOKUP_KEY = "tx.transaction.witness_hash()" ∧
    Gen.Cache.POOL_FETCH_KEY = "tx.witness_hash()" ∧
    Gen.Cache.BLOCK_HIT_VERIFIER = "TimeRelativeTransactionVerifier::new" ∧
    Gen.Cache.POOL_HIT_VERIFIER = "TimeRelativeTransactionVerifier::new" ∧
    Gen.Cache.HAVE_CELL_BODY = "self.get(COLUMN_CELL, &key).is_some()" ∧
    Gen.Cache.GET_CELL_FIRST_READ = "self.get(COLUMN_CELL, &key)" := by decide

/-! ### `ResolvedTransaction::check` -/

/-- the cells the map names are live -/
def SysLive (sys : SysMap) (p : Prov) : Prop :=
  ∀ d e, sys.get d = some e →
    match e with
    | .cell _ => p.status d.op = .live
    | .group _ ms => p.status d.op = .live ∧ ∀ x ∈ ms, p.status x = .live

theorem checkAll_ok_iff (p : Prov) (l : List Nat) : checkAll p l = .ok () ↔ ∀ x ∈ l, p.status x = .live := by
  induction l with
  | nil => simp [checkAll]
  | cons x xs ih =>
    simp only [checkAll, checkCell, List.mem_cons, forall_eq_or_imp]
    cases hx : p.status x <;> simp [ih]

/-- **The liveness re-check accepts with the map iff it accepts without**, for every resolved
transaction: what the map lets the check skip is live. -/
theorem sys_check_ok_iff {sys : SysMap} {p : Prov} (h : SysLive sys p) (r : Resolved) :
    checkDeps (some sys) p r = .ok () ↔ checkDeps none p r = .ok () := by
  simp only [checkDeps, checkAll_ok_iff, List.mem_append, List.mem_filter]
  constructor
  · intro hl x hx
    rcases hx with hx | hx
    · -- a resolved cell dep: checked, or a system code cell, or a member of a system group
      by_cases hc : (sys.get ⟨x, false⟩).isNone = true
      · by_cases hm : (sysMembers sys r.depGroups).contains x = true
        · simp only [sysMembers, List.contains_iff_mem, List.mem_flatMap] at hm
          obtain ⟨g, _, hxg⟩ := hm
          cases hg : sys.get ⟨g, true⟩ with
          | none => simp [hg] at hxg
          | some e =>
            cases e with
            | cell op => simp [hg] at hxg
            | group g' ms =>
              simp only [hg] at hxg
              exact (h ⟨g, true⟩ _ hg).2 x hxg
        · exact hl x (Or.inr ⟨hx, by simp only [List.contains_iff_mem] at hm; simp [hc, hm]⟩)
      · cases he : sys.get ⟨x, false⟩ with
        | none => simp [he] at hc
        | some e =>
          have := h ⟨x, false⟩ e he
          cases e with
          | cell op => exact this
          | group g ms => exact this.1
    · -- a resolved dep group: checked, or a system group
      cases hg : sys.get ⟨x, true⟩ with
      | none => exact hl x (Or.inl ⟨hx, by simp [hg]⟩)
      | some e =>
        cases e with
        | cell op => exact hl x (Or.inl ⟨hx, by simp [hg]⟩)
        | group g ms => exact (h ⟨x, true⟩ _ hg).1
  · intro hl x hx
    rcases hx with ⟨hx, _⟩ | ⟨hx, _⟩
    · exact hl x (Or.inr hx)
    · exact hl x (Or.inl hx)

example : SysLive exSys exProv := by
  intro d e h
  have hc := exSys_coherent d e h
  cases e with
  | cell op =>
    obtain ⟨_, h2, h3⟩ := hc
    subst h2
    simp only [resolveCell] at h3
    cases hs : exProv.status d.op <;> simp_all
  | group g ms =>
    obtain ⟨_, h2, _, _, _⟩ := hc
    subst h2
    simp only [exSys, SysMap.get, List.find?] at h
    obtain ⟨op, grp⟩ := d
    by_cases h1 : (⟨1, false⟩ : Dep) = ⟨op, grp⟩
    · cases h1; simp at h
    · have e1 : ((⟨1, false⟩ : Dep) == ⟨op, grp⟩) = false := by simpa using h1
      simp only [e1] at h
      by_cases h2 : (⟨2, false⟩ : Dep) = ⟨op, grp⟩
      · cases h2; simp at h
      · have e2 : ((⟨2, false⟩ : Dep) == ⟨op, grp⟩) = false := by simpa using h2
        simp only [e2] at h
        by_cases h3 : (⟨10, true⟩ : Dep) = ⟨op, grp⟩
        · cases h3; simp at h; subst h; decide
        · have e3 : ((⟨10, true⟩ : Dep) == ⟨op, grp⟩) = false := by simpa using h3
          simp [e3] at h

end CkbVerif.C14
