import CkbVerif.Model.ChainSync
import CkbVerif.Props.C01Status

/-!
# C01, continued — the sync layer's status-map / HeaderMap writes as extra operations

Model: `Chain.XState`, `Chain.xstep` (Model/ChainSync.lean): the pipeline state plus `BLOCK_RECEIVED` entries
and HeaderMap membership, the operations `headerValid h` / `markReceived h` with the guards of the sync code,
and the chain operations' own writes to the two maps.

`process_lonely_block` and `search_orphan_leader` read `get_block_status(parent)`, in which a status-map or
HeaderMap entry SHADOWS the ext. So the routing is unaffected by the sync layer's entries exactly as long as
no entry sits on a block that has an ext:
* `unshadowed_xstep` / `unshadowed_reachable`: with the sync code's guards (`insert_valid_header` only for an
  `UNKNOWN` block, `new_block_received` only for a `HEADER_VALID` block without entry) that is an invariant of
  every mixed history — the chain code removes both entries in the very step that writes the ext;
* `routing_unaffected`: in every such state the two reads of the routing code (`acceptableX`, `invalidX`)
  equal the chain-only model's (`acceptable`, `invalid`), for every parent;
* `xrun_st` / `tip_unaffected`: the pipeline component of a mixed history is the plain history of its chain
  operations, so tip, total difficulty, exts — and every theorem of Props/C01*.lean — are unaffected;
* `raw_marks_shadow_routing`: the exact counterexample class without the guards: an entry written onto a
  block that HAS an ext and is not pending (verified parent) makes `contains(BLOCK_STORED)` false — the code
  would hold a child of a verified block in the orphan pool.
-/
namespace CkbVerif.C01
open CkbVerif.Chain CkbVerif.Gen.Chain

/-- no sync-layer entry sits on a block that has an ext -/
def Unshadowed (x : XState) : Prop := ∀ b, (x.recv b = true ∨ x.hdr b = true) → x.st.td b = none

theorem xstep_st (T : Tree) (x : XState) (op : XOp) :
    (xstep T x op).st = match op with
      | .chain o => (step T x.st o).1
      | _ => x.st := by
  cases op with
  | chain o => cases o <;> rfl
  | headerValid h =>
    show (if statusX x h = Status.unknown then ({ x with hdr := upd x.hdr h true } : XState) else x).st = x.st
    split <;> rfl
  | markReceived h =>
    show (if statusX x h = Status.headerValid then ({ x with recv := upd x.recv h true } : XState) else x).st = x.st
    split <;> rfl

/-- the pipeline component of a mixed history is the plain history of its chain operations -/
theorem xrun_st (T : Tree) : ∀ (ops : List XOp) (x : XState), (xrun T x ops).st = run T x.st (chainOps ops) := by
  intro ops
  induction ops with
  | nil => intro x; rfl
  | cons op ops ih =>
    intro x
    show (xrun T (xstep T x op) ops).st = _
    rw [ih, xstep_st]
    cases op <;> rfl

/-- in an unshadowed state the routing code's two reads are the chain-only model's -/
theorem routing_reads_eq (x : XState) (h : Unshadowed x) (p : Nat) :
    acceptableX x p = acceptable x.st p ∧ invalidX x p = x.st.invalid p := by
  have hp := h p
  rw [acceptable_eq_status, blockStatus_eq]
  unfold acceptableX invalidX statusX getBlockStatus statusMapX
  cases hi : x.st.invalid p <;> cases hr : x.recv p <;> cases hh : x.hdr p <;> cases ht : x.st.td p <;>
    cases hv : x.st.ver p <;> cases hpd : x.st.pending p <;>
    first
      | (rw [hr, hh, ht] at hp; simp at hp; done)
      | exact ⟨rfl, rfl⟩
      | (constructor <;> first | rfl | decide)

theorem and_true_left {a b : Bool} (h : (a && b) = true) : a = true := by
  cases a <;> simp_all

/-- **unshadowed_xstep**: every operation of a mixed history keeps `Unshadowed` -/
theorem unshadowed_xstep (T : Tree) (x : XState) (hs : Safe T x.st) (h : Unshadowed x) (op : XOp) :
    Unshadowed (xstep T x op) := by
  cases op with
  | headerValid hh =>
    show Unshadowed (if statusX x hh = Status.unknown then ({ x with hdr := upd x.hdr hh true } : XState) else x)
    split
    · rename_i hu
      intro b hb
      show x.st.td b = none
      by_cases hbh : b = hh
      · subst hbh
        cases htd : x.st.td b with
        | none => rfl
        | some n =>
          exfalso
          unfold statusX getBlockStatus statusMapX at hu
          cases hi : x.st.invalid b <;> cases hr : x.recv b <;> cases hd : x.hdr b <;> cases hv : x.st.ver b <;>
            simp [hi, hr, hd, hv, htd] at hu
      · rcases hb with hb | hb
        · exact h b (Or.inl hb)
        · change upd x.hdr hh true b = true at hb
          rw [upd_other _ _ hbh] at hb; exact h b (Or.inr hb)
    · exact h
  | markReceived hh =>
    show Unshadowed (if statusX x hh = Status.headerValid then ({ x with recv := upd x.recv hh true } : XState) else x)
    split
    · rename_i hu
      intro b hb
      show x.st.td b = none
      by_cases hbh : b = hh
      · subst hbh
        have hd : x.hdr b = true := by
          unfold statusX getBlockStatus statusMapX at hu
          cases hi : x.st.invalid b <;> cases hr : x.recv b <;> cases hd : x.hdr b <;>
            cases ht : x.st.td b <;> cases hv : x.st.ver b <;> simp [hi, hr, hd, hv, ht] at hu ⊢
        exact h b (Or.inr hd)
      · rcases hb with hb | hb
        · change upd x.recv hh true b = true at hb
          rw [upd_other _ _ hbh] at hb; exact h b (Or.inl hb)
        · exact h b (Or.inr hb)
    · exact h
  | chain o =>
    cases o with
    | crash => intro b hb; simp [xstep] at hb
    | expire =>
      intro b hb
      show (expire T x.st).td b = none
      rw [(expire_frame T x.st).1.1]
      rcases hb with hb | hb
      · exact h b (Or.inl (and_true_left hb))
      · exact h b (Or.inr (and_true_left hb))
    | deliver b0 hint =>
      intro b hb
      show (deliver T hint x.st b0).1.td b = none
      rw [(deliver_sameChain T hint x.st b0).1]
      rcases hb with hb | hb
      · exact h b (Or.inl (and_true_left (and_true_left hb)))
      · exact h b (Or.inr (and_true_left hb))
    | verify =>
      intro b hb
      have hold : x.recv b = true ∨ x.hdr b = true := by
        rcases hb with hb | hb
        · exact Or.inl (and_true_left (and_true_left hb))
        · exact Or.inr (and_true_left hb)
      have hnok : b ∉ okIds (verifyHead T x.st).2 := by
        rcases hb with hb | hb
        · change (x.recv b && !decide (b ∈ okIds (verifyHead T x.st).2) &&
            !decide (b ∈ errIds (verifyHead T x.st).2)) = true at hb
          simp only [Bool.and_eq_true, Bool.not_eq_true', decide_eq_false_iff_not] at hb
          exact hb.1.2
        · change (x.hdr b && !decide (b ∈ okIds (verifyHead T x.st).2)) = true at hb
          simp only [Bool.and_eq_true, Bool.not_eq_true', decide_eq_false_iff_not] at hb
          exact hb.2
      show (verifyHead T x.st).1.td b = none
      have hact := verifyHead_act T x.st
      generalize verifyHead T x.st = r at hact hnok ⊢
      cases hact with
      | empty _ => exact h b hold
      | fail b0 q _ _ => exact h b hold
      | known b0 q ptd _ _ _ _ _ => exact h b hold
      | side b0 q ptd hq _ _ _ =>
        have hb0 : b0 ≠ 0 := (hs.queueNc b0 (by rw [hq]; exact List.mem_cons_self)).1
        show upd x.st.td b0 (some (ptd + T.work b0)) b = none
        by_cases hbb : b = b0
        · subst hbb; exact absurd (by simp [okIds, verifyDone, hb0]) hnok
        · rw [upd_other _ _ hbb]; exact h b hold
      | best b0 q ptd hq _ _ _ _ =>
        have hb0 : b0 ≠ 0 := (hs.queueNc b0 (by rw [hq]; exact List.mem_cons_self)).1
        show upd x.st.td b0 (some (ptd + T.work b0)) b = none
        by_cases hbb : b = b0
        · subst hbb; exact absurd (by simp [okIds, verifyDone, hb0]) hnok
        · rw [upd_other _ _ hbb]; exact h b hold

theorem safe_xstep (T : Tree) (x : XState) (hs : Safe T x.st) (op : XOp) : Safe T (xstep T x op).st := by
  rw [xstep_st]
  cases op with
  | chain o => exact safe_step hs o
  | headerValid _ => exact hs
  | markReceived _ => exact hs

/-- **unshadowed_reachable**: in every state of every mixed history (deliveries, verifications, expiry,
crashes, `headerValid` / `markReceived` in any order and number) no sync-layer entry sits on a block with
an ext -/
theorem unshadowed_reachable (T : Tree) : ∀ (ops : List XOp) (x : XState), Safe T x.st → Unshadowed x →
    Unshadowed (xrun T x ops) := by
  intro ops
  induction ops with
  | nil => intro x _ h; exact h
  | cons op ops ih => intro x hs h; exact ih _ (safe_xstep T x hs op) (unshadowed_xstep T x hs h op)

theorem unshadowed_init (T : Tree) : Unshadowed (xinit T) := by
  intro b hb; simp [xinit] at hb

/-- **routing_unaffected**: in every state of every mixed history the routing code's reads through
`get_block_status` (with the sync layer's entries shadowing) equal the chain-only model's, for every block -/
theorem routing_unaffected (T : Tree) (ops : List XOp) (p : Nat) :
    acceptableX (xrun T (xinit T) ops) p = acceptable (xrun T (xinit T) ops).st p ∧
    invalidX (xrun T (xinit T) ops) p = (xrun T (xinit T) ops).st.invalid p :=
  routing_reads_eq _ (unshadowed_reachable T ops _ (safe_init T) (unshadowed_init T)) p

/-- **tip_unaffected**: tip, total difficulty and the whole pipeline state of a mixed history are those of
the plain history of its chain operations (so it is `Reachable` and every C01 theorem applies) -/
theorem tip_unaffected (T : Tree) (ops : List XOp) :
    (xrun T (xinit T) ops).st = run T (init T) (chainOps ops) ∧ Reachable T (xrun T (xinit T) ops).st :=
  ⟨xrun_st T ops _, ⟨chainOps ops, xrun_st T ops _⟩⟩

/-- block 1 delivered and verified (the tip), then a header entry and a received mark for the not yet
delivered block 2, then 2 delivered and verified: both entries are gone -/
def syncOps : List XOp :=
  [.chain (.deliver 1 []), .chain .verify, .headerValid 2, .markReceived 2, .headerValid 1, .markReceived 1]

/-- non-vacuity: the guarded operations do write (block 2 answers `BLOCK_RECEIVED`), and refuse to write onto
the verified block 1 (it keeps answering `BLOCK_VALID`); a later verification of 2 removes its entries -/
example : statusX (xrun sibTree (xinit sibTree) syncOps) 2 = Status.received ∧
    statusX (xrun sibTree (xinit sibTree) syncOps) 1 = Status.valid ∧
    (xrun sibTree (xinit sibTree) syncOps).hdr 2 = true ∧
    statusX (xrun sibTree (xinit sibTree) (syncOps ++ [.chain (.deliver 2 []), .chain .verify])) 2 = Status.valid ∧
    (xrun sibTree (xinit sibTree) (syncOps ++ [.chain (.deliver 2 []), .chain .verify])).hdr 2 = false := by
  decide

/-- **raw_marks_shadow_routing**: the exact counterexample class. The same writes WITHOUT the sync code's
guards, onto the verified, not pending block 1: `get_block_status` answers `BLOCK_RECEIVED` / `HEADER_VALID`,
`contains(BLOCK_STORED)` is false although the chain-only predicate is true — a child of the verified tip
would be held in the orphan pool. -/
theorem raw_marks_shadow_routing :
    let x := xrun sibTree (xinit sibTree) [.chain (.deliver 1 []), .chain .verify]
    x.st.tip = 1 ∧ acceptable x.st 1 = true ∧
    statusX (rawReceived x 1) 1 = Status.received ∧ acceptableX (rawReceived x 1) 1 = false ∧
    statusX (rawHeader x 1) 1 = Status.headerValid ∧ acceptableX (rawHeader x 1) 1 = false ∧
    ¬ Unshadowed (rawReceived x 1) := by
  refine ⟨by decide, by decide, by decide, by decide, by decide, by decide, ?_⟩
  intro h
  have := h 1 (Or.inl (by decide))
  revert this; decide

end CkbVerif.C01
