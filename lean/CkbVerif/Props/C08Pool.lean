import CkbVerif.Model.PoolReload

/-!
# C08 (tx-pool part) — the persisted pool across a restart

Model: `Model/PoolReload.lean` (`persisted.rs` save / load, `load_persisted_data` = `submit_local_tx`
in file order on an empty pool). Proved (all unbounded):
* `reload_no_resurrection` — only transactions of the file come back;
* `reload_valid` — whatever the file holds (stale, reordered, written by an older process, the chain
  reorganised since): every reloaded transaction spends only live cells of the CURRENT tip or outputs
  of reloaded transactions that came before it, and no two spend the same cell (`PoolOK`);
* `reload_inputs_live_or_reloaded`, `reload_no_double_spend` — the two consequences the harness
  oracle `pool-reload-invalid` evaluates on the real pool: every input of a reloaded transaction is a live
  cell of the current tip or an output of an EARLIER reloaded transaction; no cell is spent twice;
* `reload_complete_of_admissible` — if every transaction of the file is acceptable on top of the ones
  BEFORE it (parents first, inputs still live, no conflicts), nothing is lost: `reload live file = file`;
* `reload_idempotent` — a file written in the pool's insertion order reloads completely
  (`reload live (reload live f) = reload live f`); in particular a clean stop directly followed by a
  restart on an unchanged chain keeps every transaction IF the file is in insertion order;
* `no_removal_no_loss` — the slab of the multi-index map modelled (`Slab`, LIFO vacant list, pending
  transactions drained in ascending slot order): a process that only ever submitted writes its pool in
  insertion order and the next process reloads all of it;
* `slot_reuse_loses_child` — kernel-evaluated on that model of the code as written: ONE removal before
  a child is submitted makes the file list the child first and the restart lose it;
* `child_before_parent_is_lost` — kernel-evaluated witness that the hypothesis is needed: a file that
  lists a child before its parent loses the child although both are valid (the code's
  `drain_all_transactions` orders proposed transactions by `TxSelector`, but pending and gap ones by
  the slot order of the multi-index map, which is not an insertion order once a slot has been reused).
-/
namespace CkbVerif.C08
open CkbVerif.Store CkbVerif.PoolReload

theorem submit_sub (live : OutPoint → Bool) (pool : List PTx) (t x : PTx) (h : x ∈ submit live pool t) :
    x ∈ pool ∨ x = t := by
  unfold submit at h
  split at h
  · rcases List.mem_append.mp h with h | h
    · exact Or.inl h
    · exact Or.inr (by simpa using h)
  · exact Or.inl h

theorem foldl_submit_sub (live : OutPoint → Bool) (file acc : List PTx) (x : PTx)
    (h : x ∈ file.foldl (submit live) acc) : x ∈ acc ∨ x ∈ file := by
  induction file generalizing acc with
  | nil => exact Or.inl h
  | cons t rest ih =>
    rcases ih (submit live acc t) h with h | h
    · rcases submit_sub live acc t x h with h | h
      · exact Or.inl h
      · exact Or.inr (by rw [h]; exact List.mem_cons_self)
    · exact Or.inr (List.mem_cons_of_mem _ h)

/-- **No resurrection**: every reloaded transaction is a transaction of the file. -/
theorem reload_no_resurrection (live : OutPoint → Bool) (file : List PTx) (x : PTx)
    (h : x ∈ reload live file) : x ∈ file := by
  rcases foldl_submit_sub live file [] x h with h | h
  · cases h
  · exact h

theorem admissible_snoc (live : OutPoint → Bool) (pre xs : List PTx) (t : PTx) :
    Admissible live pre (xs ++ [t]) ↔ Admissible live pre xs ∧ accepts live (pre ++ xs) t = true := by
  induction xs generalizing pre with
  | nil => simp [Admissible]
  | cons x xs ih =>
    simp only [List.cons_append, Admissible]
    rw [ih (pre ++ [x])]
    simp [and_assoc]

/-- a pool in insertion order every transaction of which was acceptable when it came: it spends only
live cells or outputs of earlier pool transactions, nothing is spent twice, no id twice -/
def PoolOK (live : OutPoint → Bool) (pool : List PTx) : Prop := Admissible live [] pool

theorem poolOK_submit (live : OutPoint → Bool) (pool : List PTx) (t : PTx) (h : PoolOK live pool) :
    PoolOK live (submit live pool t) := by
  unfold submit
  split
  · next ha => exact (admissible_snoc live [] pool t).mpr ⟨h, by simpa using ha⟩
  · exact h

theorem poolOK_foldl (live : OutPoint → Bool) (file acc : List PTx) (h : PoolOK live acc) :
    PoolOK live (file.foldl (submit live) acc) := by
  induction file generalizing acc with
  | nil => exact h
  | cons t rest ih => exact ih _ (poolOK_submit live acc t h)

/-- **Whatever the file holds, the reloaded pool is valid against the CURRENT tip**: a stale file, a
file of an older process, a chain that was reorganised in between — every reloaded transaction was
acceptable on top of the reloaded ones before it. -/
theorem reload_valid (live : OutPoint → Bool) (file : List PTx) : PoolOK live (reload live file) :=
  poolOK_foldl live file [] trivial

theorem foldl_submit_of_admissible (live : OutPoint → Bool) (file acc : List PTx)
    (h : Admissible live acc file) : file.foldl (submit live) acc = acc ++ file := by
  induction file generalizing acc with
  | nil => simp
  | cons t rest ih =>
    obtain ⟨ha, hr⟩ := h
    simp only [List.foldl_cons]
    have : submit live acc t = acc ++ [t] := by simp [submit, ha]
    rw [this, ih _ hr]
    simp

/-- **Nothing is lost from a file in an admissible order** (parents before children, inputs still
live, no conflicts). -/
theorem reload_complete_of_admissible (live : OutPoint → Bool) (file : List PTx)
    (h : Admissible live [] file) : reload live file = file := by
  have := foldl_submit_of_admissible live file [] h
  simpa [reload] using this

/-- **A file in the pool's insertion order reloads completely**: reloading what a reload produced
changes nothing. So a clean stop directly followed by a restart on the unchanged chain would keep
every transaction if `save_into_file` wrote the pool in insertion order. -/
theorem reload_idempotent (live : OutPoint → Bool) (file : List PTx) :
    reload live (reload live file) = reload live file :=
  reload_complete_of_admissible live _ (reload_valid live file)

/-- the same for any pool built by submissions: saved in insertion order it comes back whole -/
theorem submitted_pool_reloads (live : OutPoint → Bool) (txs : List PTx) :
    reload live (txs.foldl (submit live) []) = txs.foldl (submit live) [] :=
  reload_complete_of_admissible live _ (poolOK_foldl live txs [] trivial)

/-- what `Admissible` says about one member: it was acceptable on top of the members before it -/
theorem admissible_mem (live : OutPoint → Bool) (acc pool : List PTx) (h : Admissible live acc pool)
    (t : PTx) (ht : t ∈ pool) : ∃ pre post, pool = pre ++ t :: post ∧ accepts live (acc ++ pre) t = true := by
  induction pool generalizing acc with
  | nil => cases ht
  | cons x rest ih =>
    obtain ⟨hx, hr⟩ := h
    rcases List.mem_cons.mp ht with rfl | ht
    · exact ⟨[], rest, rfl, by simpa using hx⟩
    · obtain ⟨pre, post, he, ha⟩ := ih (acc ++ [x]) hr ht
      exact ⟨x :: pre, post, by rw [he]; rfl, by simpa [List.append_assoc] using ha⟩

/-- **Every input of a reloaded transaction is a live cell of the current tip or an output of a reloaded
transaction that came before it** (the formal content of the oracle `pool-reload-invalid`): a transaction
of a stale file whose input was spent on the chain in the meantime, or whose parent did not come back,
is not in the reloaded pool. -/
theorem reload_inputs_live_or_reloaded (live : OutPoint → Bool) (file : List PTx) (t : PTx)
    (ht : t ∈ reload live file) (o : OutPoint) (ho : o ∈ t.inputs) :
    live o = true ∨ ∃ p ∈ reload live file, p.id = o.tx ∧ o.idx < p.nout := by
  obtain ⟨pre, post, he, ha⟩ := admissible_mem live [] _ (reload_valid live file) t ht
  simp only [accepts, List.nil_append, Bool.and_eq_true, List.all_eq_true] at ha
  have := (ha.2 o ho).1
  rcases Bool.or_eq_true _ _ |>.mp this with h | h
  · exact Or.inl h
  · right
    simp only [createdBy, List.any_eq_true, Bool.and_eq_true, beq_iff_eq, decide_eq_true_eq] at h
    obtain ⟨p, hp, hid, hlt⟩ := h
    exact ⟨p, by rw [he]; exact List.mem_append_left _ hp, hid, hlt⟩

/-- **No cell is spent twice by the reloaded pool.** -/
theorem reload_no_double_spend (live : OutPoint → Bool) (file : List PTx) (pre post : List PTx) (t : PTx)
    (he : reload live file = pre ++ t :: post) (o : OutPoint) (ho : o ∈ t.inputs) :
    ∀ p ∈ pre, o ∉ p.inputs := by
  have hv := reload_valid live file
  rw [he] at hv
  have hsn : Admissible live [] (pre ++ [t]) := by
    have : pre ++ t :: post = (pre ++ [t]) ++ post := by simp
    rw [this] at hv
    clear he this
    -- a prefix of an admissible list is admissible
    have pref : ∀ (acc xs ys : List PTx), Admissible live acc (xs ++ ys) → Admissible live acc xs := by
      intro acc xs
      induction xs generalizing acc with
      | nil => intro _ _; trivial
      | cons x xs ih => intro ys h; exact ⟨h.1, ih (acc ++ [x]) ys h.2⟩
    exact pref [] _ post hv
  have ha := ((admissible_snoc live [] pre t).mp hsn).2
  simp only [accepts, List.nil_append, Bool.and_eq_true, List.all_eq_true] at ha
  have hs := (ha.2 o ho).2
  intro p hp hin
  simp only [spentBy, Bool.not_eq_true', List.any_eq_false, decide_eq_true_eq] at hs
  exact hs p hp hin

def admissibleDec (live : OutPoint → Bool) : (acc file : List PTx) → Decidable (Admissible live acc file)
  | _, [] => isTrue trivial
  | acc, t :: rest =>
    match admissibleDec live (acc ++ [t]) rest with
    | isTrue h => if ha : accepts live acc t = true then isTrue ⟨ha, h⟩ else isFalse fun x => ha x.1
    | isFalse h => isFalse fun x => h x.2

instance (live : OutPoint → Bool) (acc file : List PTx) : Decidable (Admissible live acc file) :=
  admissibleDec live acc file
instance (live : OutPoint → Bool) (pool : List PTx) : Decidable (PoolOK live pool) :=
  admissibleDec live [] pool

namespace PoolExample
def live : OutPoint → Bool := fun o => o.tx == 1 && o.idx < 4
/-- the parent spends a live cell, the child spends the parent's output -/
def parent : PTx := ⟨10, [⟨1, 0⟩], 1⟩
def child : PTx := ⟨11, [⟨10, 0⟩], 1⟩
def other : PTx := ⟨12, [⟨1, 1⟩], 2⟩
end PoolExample

open PoolExample in
/-- **The order hypothesis is needed (and the code does not establish it)**: the pool {parent, child}
written child first loses the child — `submit_local_tx` refuses it (its input is unknown when it is
read, a local transaction is not parked as an orphan) and `load_persisted_data` counts it as stale —
although parent first reloads both. -/
theorem child_before_parent_is_lost :
    reload live [child, parent] = [parent] ∧ reload live [parent, child] = [parent, child] ∧
    PoolOK live [parent, child] ∧ reload live [other, child, parent] = [other, parent] := by
  decide

open PoolExample in
/-- non-vacuity: an admissible file with a chain of two and an independent transaction; removal of
the parent takes the child along; a dead input (cell ⟨1, 9⟩ is not live) is refused -/
example : Admissible live [] [parent, other, child] ∧
    removeTx [parent, other, child] 10 = [other] ∧
    reload live [⟨13, [⟨1, 9⟩], 1⟩, other] = [other] ∧
    reload live [other, ⟨14, [⟨1, 1⟩], 1⟩] = [other] := by
  decide

/-! ## the order of the file (`drain_all_transactions` over the slab of the multi-index map) -/

theorem filterMap_id_map_some (l : List PTx) : (l.map some).filterMap id = l := by
  induction l with
  | nil => rfl
  | cons a l ih => simp [ih]

/-- submissions only: no slot is ever vacant and the slots are the pool in insertion order -/
theorem submit_only_slab (live : OutPoint → Bool) (txs : List PTx) (s : SPool)
    (h : s.slab.free = [] ∧ s.slab.slots = s.pool.map some) :
    (srun live s (txs.map POp.sub)).slab.free = [] ∧
    (srun live s (txs.map POp.sub)).slab.slots = (srun live s (txs.map POp.sub)).pool.map some ∧
    (srun live s (txs.map POp.sub)).pool = txs.foldl (submit live) s.pool := by
  induction txs generalizing s with
  | nil => exact ⟨h.1, h.2, rfl⟩
  | cons t rest ih =>
    simp only [List.map_cons, srun, List.foldl_cons]
    have hs : sstep live s (.sub t) = (if accepts live s.pool t then ⟨s.pool ++ [t], s.slab.insert t⟩ else s) := rfl
    by_cases ha : accepts live s.pool t = true
    · have h1 : sstep live s (.sub t) = ⟨s.pool ++ [t], s.slab.insert t⟩ := by rw [hs]; simp [ha]
      have hins : s.slab.insert t = ⟨s.slab.slots ++ [some t], []⟩ := by
        unfold Slab.insert; rw [h.1]
      have := ih ⟨s.pool ++ [t], s.slab.insert t⟩ (by rw [hins]; simp [h.2])
      rw [h1]
      have hsub : submit live s.pool t = s.pool ++ [t] := by simp [submit, ha]
      rw [hsub]
      exact this
    · have h1 : sstep live s (.sub t) = s := by rw [hs]; simp [ha]
      have hsub : submit live s.pool t = s.pool := by simp [submit, ha]
      rw [h1, hsub]
      exact ih s h

/-- **No removal, no loss.** A process that only ever submitted transactions (no removal, no commit, no
replacement, no expiry since it started with an empty pool) writes its pool in insertion order, and the
next process reloads every transaction of it on the unchanged chain. -/
theorem no_removal_no_loss (live : OutPoint → Bool) (txs : List PTx) :
    (srun live SPool.empty (txs.map POp.sub)).file = (srun live SPool.empty (txs.map POp.sub)).pool ∧
    reload live (srun live SPool.empty (txs.map POp.sub)).file = (srun live SPool.empty (txs.map POp.sub)).pool := by
  obtain ⟨_, h2, h3⟩ := submit_only_slab live txs SPool.empty ⟨rfl, rfl⟩
  have hf : (srun live SPool.empty (txs.map POp.sub)).file = (srun live SPool.empty (txs.map POp.sub)).pool := by
    unfold SPool.file Slab.drain
    rw [h2, filterMap_id_map_some]
  refine ⟨hf, ?_⟩
  rw [hf, h3]
  exact submitted_pool_reloads live txs

open PoolExample in
/-- **One removal is enough (the code as written loses a valid transaction across a clean restart).**
X and the parent are submitted, X is removed (any removal: committed, replaced, expired, `remove_transaction`),
the child is submitted and takes X's slot: the pool is {parent, child}, the file lists the child first, and
the next process — on the unchanged chain — gets the parent only. -/
theorem slot_reuse_loses_child :
    let s := srun live SPool.empty [.sub other, .sub parent, .rem 12, .sub child]
    s.pool = [parent, child] ∧ PoolOK live s.pool ∧ s.file = [child, parent] ∧ reload live s.file = [parent] := by
  decide

end CkbVerif.C08
