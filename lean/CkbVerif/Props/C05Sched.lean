import CkbVerif.Model.SchedBook
import CkbVerif.Lemmas.SchedBook
import CkbVerif.Lemmas.SchedBookW
import CkbVerif.Lemmas.SchedBookP
import CkbVerif.Lemmas.SchedBookInv
import CkbVerif.Model.CyclesAttr
import CkbVerif.Model.SchedTx
import CkbVerif.Props.C05

/-!
C05 — the scheduler layer: theorems about the bookkeeping model of `script/src/scheduler.rs`
(`Model/SchedBook.lean`, tied to the real scheduler line by line through the `sched` op: every
`suspend_vm` / `resume_vm` call, every `process_io` scan and transfer, every field of every
`FullSuspendedState`, every stop and the final result are compared on the production path).

* `resume_suspend_roundtrip`: for EVERY well-formed scheduler state, `Scheduler::resume ∘
  Scheduler::suspend` gives back the same total cycles, id counters, VM states, fds, inherited fds,
  terminated VMs, the same instantiated VMs and the same suspended VMs, with `iteration_cycles = 0` —
  the round-trip hypothesis of the abstract layer (`Props/C05.lean` `suspend_resume_same_trace_partial`,
  hypothesis `hrt`) PROVED for the bookkeeping components (VM memory stays opaque); it charges nothing.
* `suspend_records_exactly_the_instantiated`, `suspend_charges_stay_in_iteration_cycles`: what the
  `FullSuspendedState` holds.
* `iterateOuter_early_return_skips_process_io`, `iterateOuter_books_every_cycle`,
  `iterateOuter_ok_budget`: the order of `iterate_outer` as coded — every charged cycle reaches
  `total_cycles` on every path, and a charge beyond the limit returns `CyclesExceeded` BEFORE
  `process_io` with `iteration_cycles` left set.
* `process_io_post_partial`: `process_io` touches no counter / fd / terminated VM and only ever writes
  `Runnable` / `WaitForWrite` states (partial: the full "no servable IO left" post-condition is observed).
* `process_io_leaves_no_reader_on_closed_end`: after `process_io` no VM waits for a read on a closed pipe.
* `checked_sub_before_process_io_deadlocks` (finding F20 as an exact negation witness of the model):
  an uninterrupted run that succeeds, and the same run cut at a limit that the yield charge of a
  `read` oversteps: the suspended state holds a servable read/write pair, no VM is runnable, the
  resumed scheduler answers "deadlock".
* `resume_skipping_blocked_vms_changes_total`: the round trip needs ALL recorded instantiated VMs —
  a resume that re-instantiates only the runnable ones reports 100000 cycles more than the
  uninterrupted run.
* `ensure_get_instantiated_within_cap`: after `ensure_get_instantiated(id)` the VM is instantiated and the
  cap of `MAX_INSTANTIATED_VMS` machines is kept.
* `process_io_leaves_no_writer_on_closed_end`, `process_io_leaves_no_matching_pair`,
  `process_io_leaves_no_servable_io`: the full post-condition of `process_io` under the fd-ownership
  invariant `IoInv`; `io_inv_initial`, `io_inv_message`, `io_inv_process_io`, `io_inv_iterate_outer`,
  `io_inv_run`, `io_inv_suspend_resume`, `io_inv_chunked`: the invariant holds initially and is kept by
  every step of the model, hence in every state of every chunked run.
* `tx_model_eq_accounting_model_on_type_id_groups`, `accounting_chunk_within_limit`,
  `tx_model_differs_from_accounting_model_by_overshoot_witness`: where the traced transaction model is
  the accounting model, and the exact place where it is not.
* `vm_swaps_only_touch_the_split`: `ensure_vms_instantiated` never touches cycles booked, VM states,
  fds, inherited fds, terminated VMs, id counters.
-/
namespace CkbVerif.C05
open CkbVerif.SchedBook CkbVerif.Gen.Cycles

/-- a scheduler state as it exists between iterations: at most `MAX_INSTANTIATED_VMS` instantiated
VMs, kept in key order (`BTreeMap`), every VM of `states` is either instantiated or suspended -/
structure SchedWF (s : Sch) : Prop where
  cap : s.inst.length ≤ MAX_INSTANTIATED_VMS
  sorted : s.inst.Pairwise (· < ·)
  disjoint : ∀ id ∈ s.inst, id ∉ s.susp
  cover : ∀ id, id ∈ s.states.map (·.1) ↔ id ∈ s.inst ∨ id ∈ s.susp
  /-- `iteration_cycles` is a `u64` with room for the swap charges of one suspend + resume -/
  room : s.iter + 2 * MAX_INSTANTIATED_VMS * SPAWN_EXTRA_CYCLES_BASE < U64

/-- **vm_swaps_only_touch_the_split.** whatever `ensure_vms_instantiated(ids)` does, the cycles
already booked, the id counters, the VM states, the fds and their owners, the inherited fds and the
terminated VMs are untouched: it only moves VMs between `instantiated` and `suspended` and charges
`iteration_cycles` -/
theorem vm_swaps_only_touch_the_split (ids : List Nat) (s t : Sch) (h : ensureInst ids s = .ok t) :
    t.total = s.total ∧ t.nextVm = s.nextVm ∧ t.nextFd = s.nextFd ∧ t.states = s.states ∧
    t.fds = s.fds ∧ t.inherited = s.inherited ∧ t.term = s.term :=
  ensureInst_core h

/-- **ensure_get_instantiated_within_cap.** whenever `ensure_get_instantiated(id)` succeeds, the VM is
instantiated afterwards (it can run / be written to), and never more than `MAX_INSTANTIATED_VMS`
machines exist at once -/
theorem ensure_get_instantiated_within_cap (id : Nat) (s t : Sch) (h : ensureInst [id] s = .ok t) :
    id ∈ t.inst ∧ (s.inst.length ≤ MAX_INSTANTIATED_VMS → t.inst.length ≤ MAX_INSTANTIATED_VMS) :=
  ensureInst_single h

-- four VMs instantiated, VM 0 suspended: the smallest other id is swapped out, 200000 cycles charged
example : (ensureInst [0] { inst := [1, 2, 3, 4], susp := [0] }).toOption.map (fun t => (t.inst, t.susp, t.iter)) =
    some ([0, 2, 3, 4], [1], 200000) := by decide

/-- **suspend_records_exactly_the_instantiated.** `Scheduler::suspend` on a well-formed state
succeeds; the `FullSuspendedState` holds the bookkeeping unchanged and `instantiated_ids` = exactly
the instantiated VMs -/
theorem suspend_records_exactly_the_instantiated (s : Sch) (wf : SchedWF s) :
    ∃ f t, suspend s = .ok (f, t) ∧ f.instIds = s.inst ∧ f.vms = s.states ∧ f.total = s.total ∧
      f.nextVm = s.nextVm ∧ f.nextFd = s.nextFd ∧ f.fds = s.fds ∧ f.inherited = s.inherited ∧
      f.term = s.term ∧ f.iter = s.iter + s.inst.length * SPAWN_EXTRA_CYCLES_BASE := by
  have hroom : s.iter + s.inst.length * SPAWN_EXTRA_CYCLES_BASE < U64 := by
    have h1 := wf.room
    have h2 : s.inst.length * SPAWN_EXTRA_CYCLES_BASE ≤ 2 * MAX_INSTANTIATED_VMS * SPAWN_EXTRA_CYCLES_BASE :=
      Nat.mul_le_mul_right _ (by have := wf.cap; omega)
    omega
  obtain ⟨t, h1, h2, h3, h4, h5⟩ := suspendAll_all s.inst s rfl (pairwise_lt_nodup wf.sorted) hroom
  obtain ⟨c1, c2, c3, c4, c5, c6, c7⟩ := h5
  have hall : t.states.all (fun p => t.susp.contains p.1) = true := by
    rw [List.all_eq_true]
    intro p hp
    rw [c4] at hp
    have : p.1 ∈ s.states.map (·.1) := List.mem_map_of_mem hp
    have := (wf.cover p.1).mp this
    simp only [List.contains_eq_mem, decide_eq_true_eq]
    exact (h3 p.1).mpr (by rcases this with h | h; exact .inr h; exact .inl h)
  refine ⟨⟨t.total, t.iter, t.nextVm, t.nextFd, t.states, t.fds, t.inherited, t.term, s.inst⟩, t, ?_, rfl,
    c4, c1, c2, c3, c5, c6, c7, h4⟩
  unfold suspend
  simp only [h1, hall, if_true]

/-- **suspend_charges_stay_in_iteration_cycles.** the swap charges of a whole-scheduler suspend go
to the recorded `iteration_cycles` only (never to `total_cycles`), and `Scheduler::resume` discards
them: the state a resumed scheduler starts from has `iteration_cycles = 0` -/
theorem suspend_charges_stay_in_iteration_cycles (s : Sch) (wf : SchedWF s) (f : Full) (t s' : Sch)
    (lg : List Out) (h1 : suspend s = .ok (f, t)) (h2 : resume f lg = .ok s') :
    f.total = s.total ∧ s'.iter = 0 := by
  obtain ⟨f', t', e, _, _, ht, _⟩ := suspend_records_exactly_the_instantiated s wf
  rw [h1] at e
  cases e
  refine ⟨ht, ?_⟩
  unfold resume at h2
  simp only at h2
  split at h2
  · cases h2
  · cases h2; rfl

/-- **resume_suspend_roundtrip.** For EVERY well-formed scheduler state: suspending the whole
scheduler and resuming it from the `FullSuspendedState` succeeds and gives a scheduler with the same
total cycles, id counters, VM states, fds, inherited fds and terminated VMs, the same instantiated
VMs (same key order) and the same suspended VMs, and `iteration_cycles = 0` — nothing is charged. -/
theorem resume_suspend_roundtrip (s : Sch) (wf : SchedWF s) (lg : List Out) :
    ∃ f t s', suspend s = .ok (f, t) ∧ resume f lg = .ok s' ∧
      s'.total = s.total ∧ s'.iter = 0 ∧ s'.nextVm = s.nextVm ∧ s'.nextFd = s.nextFd ∧
      s'.states = s.states ∧ s'.fds = s.fds ∧ s'.inherited = s.inherited ∧ s'.term = s.term ∧
      s'.inst = s.inst ∧ (∀ id, id ∈ s'.susp ↔ id ∈ s.susp) := by
  obtain ⟨f, t, hs, e1, e2, e3, e4, e5, e6, e7, e8, e9⟩ := suspend_records_exactly_the_instantiated s wf
  -- the scheduler `resume` starts from
  let s0 : Sch := { total := f.total, iter := f.iter, nextVm := f.nextVm, nextFd := f.nextFd,
                    states := f.vms, fds := f.fds, inherited := f.inherited, inst := [],
                    susp := f.vms.map (·.1), term := f.term, log := lg }
  have hcap := wf.cap
  have hroom := wf.room
  have hlen2 : s.inst.length * SPAWN_EXTRA_CYCLES_BASE ≤ MAX_INSTANTIATED_VMS * SPAWN_EXTRA_CYCLES_BASE :=
    Nat.mul_le_mul_right _ hcap
  have hdesc : (s.inst.reverse).Pairwise (· > ·) := by
    rw [List.pairwise_reverse]; exact wf.sorted
  obtain ⟨s1, g1, g2, g3, g4⟩ := fillLoop_all s.inst.reverse s0 hdesc (by intro a _ b hb; cases hb)
    (by
      intro a ha
      show a ∈ f.vms.map (·.1)
      rw [e2]
      exact (wf.cover a).mpr (.inl (List.mem_reverse.mp ha)))
    (by simp only [List.length_reverse, s0, List.length_nil]; omega)
    (by
      show f.iter + s.inst.reverse.length * SPAWN_EXTRA_CYCLES_BASE < U64
      rw [e9, List.length_reverse]
      have : 2 * MAX_INSTANTIATED_VMS * SPAWN_EXTRA_CYCLES_BASE =
          MAX_INSTANTIATED_VMS * SPAWN_EXTRA_CYCLES_BASE + MAX_INSTANTIATED_VMS * SPAWN_EXTRA_CYCLES_BASE := by
        rw [Nat.mul_assoc, Nat.two_mul]
      omega)
  have hens : ensureInst f.instIds s0 = .ok s1 := by
    unfold ensureInst
    have h0 : ¬ MAX_INSTANTIATED_VMS < f.instIds.length := by rw [e1]; omega
    have hfil : f.instIds.filter (fun id => !s0.inst.contains id) = s.inst := by
      rw [e1]; simp [s0]
    simp only [h0, if_false, hfil, g1, List.reverse_nil, List.isEmpty_nil, if_true]
  obtain ⟨c1, c2, c3, c4, c5, c6, c7⟩ := g4
  refine ⟨f, t, { s1 with iter := 0 }, hs, ?_, ?_, rfl, ?_, ?_, ?_, ?_, ?_, ?_, ?_, ?_⟩
  · unfold resume
    simp only
    rw [show ensureInst f.instIds s0 = .ok s1 from hens]
  · show s1.total = s.total; rw [c1]; exact e3
  · show s1.nextVm = s.nextVm; rw [c2]; exact e4
  · show s1.nextFd = s.nextFd; rw [c3]; exact e5
  · show s1.states = s.states; rw [c4]; exact e2
  · show s1.fds = s.fds; rw [c5]; exact e6
  · show s1.inherited = s.inherited; rw [c6]; exact e7
  · show s1.term = s.term; rw [c7]; exact e8
  · show s1.inst = s.inst; rw [g2]; simp [s0]
  · intro id
    show id ∈ s1.susp ↔ id ∈ s.susp
    rw [g3 id]
    show id ∈ f.vms.map (·.1) ∧ id ∉ s.inst.reverse ↔ id ∈ s.susp
    rw [e2, wf.cover id, List.mem_reverse]
    constructor
    · rintro ⟨h | h, h'⟩
      · exact absurd h h'
      · exact h
    · intro h
      exact ⟨.inr h, fun hi => wf.disjoint id hi h⟩

/-- non-vacuity: a state with five VMs (four instantiated, one of them blocked in a read, one
suspended) is well-formed; its round trip is the identity up to `iteration_cycles` -/
def exampleState : Sch :=
  { total := 700000, iter := 0, nextVm := 5, nextFd := 4,
    states := [(0, .wait 1), (1, .waitRead 2 10), (2, .runnable), (3, .runnable), (4, .runnable)],
    fds := [(2, 1), (3, 4)], inherited := [(1, [2])], inst := [1, 2, 3, 4], susp := [0], term := [] }

example : SchedWF exampleState where
  cap := by decide
  sorted := by decide
  disjoint := by decide
  cover := by
    intro id
    simp only [exampleState, List.map_cons, List.map_nil, List.mem_cons, List.not_mem_nil, or_false]
    omega
  room := by decide

example : (suspend exampleState).toOption.map (fun p => (p.1.instIds, p.1.iter)) = some ([1, 2, 3, 4], 400000) := by
  decide

/-! ### the order of `iterate_outer` -/

/-- **iterateOuter_early_return_skips_process_io.** when the cycles charged in an iteration
(`iteration_cycles` after `iterate_inner`: the VM's cycles, the unchecked yield charge of its last
syscall, the swap charges) exceed what is left of the limit, `iterate_outer` returns
`CyclesExceeded` right after `consume_cycles`: the state it leaves is the state after `iterate_inner`
with the cycles booked — `iteration_cycles` still set and `process_io` NOT run (root cause of F20) -/
theorem iterateOuter_early_return_skips_process_io (ev : Ev) (limit : Nat) (s : Sch)
    (hfit : (iterateInner ev s).1.total + (iterateInner ev s).1.iter < U64)
    (hover : limit < (iterateInner ev s).1.iter) :
    iterateOuter ev limit s =
      ({ (iterateInner ev s).1 with total := (iterateInner ev s).1.total + (iterateInner ev s).1.iter },
        .error .cyclesExceeded) := by
  unfold iterateOuter
  rcases hi : iterateInner ev s with ⟨s1, r⟩
  rw [hi] at hfit hover
  simp only at hfit hover ⊢
  simp only [hfit, if_true, hover]

/-- **iterateOuter_books_every_cycle.** on EVERY path of `iterate_outer` (success, VM error,
`CyclesExceeded` of the VM, the early return, an error of `process_io`) the cycles charged in the
iteration are added to `total_cycles` exactly once; `process_io` adds nothing to `total_cycles` -/
theorem iterateOuter_books_every_cycle (ev : Ev) (limit : Nat) (s : Sch)
    (hfit : (iterateInner ev s).1.total + (iterateInner ev s).1.iter < U64) :
    (iterateOuter ev limit s).1.total = (iterateInner ev s).1.total + (iterateInner ev s).1.iter := by
  unfold iterateOuter
  rcases hi : iterateInner ev s with ⟨s1, r⟩
  rw [hi] at hfit
  simp only at hfit ⊢
  simp only [hfit, if_true]
  split
  · rfl
  · split
    · rfl
    · rename_i s4 hio
      have := processIo_total _ s4 hio
      split <;> simpa using this

/-- **iterateOuter_ok_budget.** a successful iteration hands on exactly the limit minus the cycles
charged in it: nothing of the budget is lost or granted twice inside one `run` -/
theorem iterateOuter_ok_budget (ev : Ev) (limit : Nat) (s s' : Sch) (rem : Nat)
    (h : iterateOuter ev limit s = (s', .ok rem)) :
    (iterateInner ev s).1.iter ≤ limit ∧ rem + (iterateInner ev s).1.iter = limit := by
  unfold iterateOuter at h
  rcases hi : iterateInner ev s with ⟨s1, r⟩
  rw [hi] at h
  simp only at h ⊢
  split at h
  · split at h
    · cases h
    · rename_i hle
      split at h
      · cases h
      · split at h
        · cases h
        · simp only [Prod.mk.injEq, Except.ok.injEq] at h
          omega
  · cases h

/-- **process_io_post_partial.** what `process_io` can do to the scheduler, for EVERY state: it never
touches booked cycles, id counters, fds and their owners, inherited fds, terminated VMs; the only
states it writes are `Runnable` and `WaitForWrite`; hence every VM that waits for a read, or for a
child, afterwards was waiting for exactly that before (`process_io` never blocks a VM and never
re-targets a wait).
Partial: the full post-condition "no servable IO is left" (no waiter on a closed end, no matching
read/write pair) additionally needs the key-uniqueness of `states` and the fd-ownership of waiters as
invariants; it is observed (every `process_io` scan and transfer is compared with the model, a
suspended state with servable IO only occurs after the early return of `iterate_outer`), not proved. -/
theorem process_io_post_partial (s t : Sch) (h : processIo s = .ok t) :
    t.total = s.total ∧ t.nextVm = s.nextVm ∧ t.nextFd = s.nextFd ∧ t.fds = s.fds ∧
    t.inherited = s.inherited ∧ t.term = s.term ∧
    (∀ p ∈ t.states, p ∈ s.states ∨ p.2 = .runnable ∨ ∃ fd c len, p.2 = .waitWrite fd c len) ∧
    (∀ vm fd len, (vm, VmState.waitRead fd len) ∈ t.states → (vm, VmState.waitRead fd len) ∈ s.states) ∧
    (∀ vm tgt, (vm, VmState.wait tgt) ∈ t.states → (vm, VmState.wait tgt) ∈ s.states) := by
  obtain ⟨h1, h2, h3, h4, h5, h6, h7⟩ := processIo_ioStep s t h
  refine ⟨h1, h2, h3, h4, h5, h6, h7, ?_, ?_⟩
  · intro vm fd len hp
    rcases h7 _ hp with e | e | ⟨_, _, _, e⟩
    · exact e
    · cases e
    · cases e
  · intro vm tgt hp
    rcases h7 _ hp with e | e | ⟨_, _, _, e⟩
    · exact e
    · cases e
    · cases e

-- a reader and a writer on one pipe, the writer has 20 bytes, the reader takes 10: the reader runs
-- again, the writer keeps waiting with 10 bytes consumed, and nothing servable is left
example : (processIo { states := [(0, .waitWrite 3 0 20), (1, .waitRead 2 10)], fds := [(2, 1), (3, 0)],
                       inst := [0, 1] }).toOption.map (fun t => (t.states, servableIo t)) =
    some ([(0, .waitWrite 3 10 20), (1, .runnable)], false) := by decide

/-- **process_io_leaves_no_reader_on_closed_end.** For EVERY scheduler state whose `states` map has
its keys in order (a `BTreeMap`): after `process_io` no VM is left waiting for a read on a pipe whose
other end is closed — the first half of "no servable IO is left" (the writer half and the read/write
pairs are observed through the compared scans, not proved: they additionally need the fd-ownership
of waiters as an invariant). -/
theorem process_io_leaves_no_reader_on_closed_end (s t : Sch) (hk : KS s.states) (h : processIo s = .ok t) :
    closedReaders t = [] :=
  processIo_no_closed_reader s t hk h

-- VM 1 reads from fd 2 whose other end (3) is gone, VM 2 reads from fd 4 whose writer waits: both are served
example : KS ([(0, VmState.waitWrite 5 0 8), (1, .waitRead 2 10), (2, .waitRead 4 8)] : List (Nat × VmState)) := by
  unfold KS; decide
example : (processIo { states := [(0, .waitWrite 5 0 8), (1, .waitRead 2 10), (2, .waitRead 4 8)],
                       fds := [(2, 1), (4, 2), (5, 0)], inst := [0, 1, 2] }).toOption.map
      (fun t => (t.states, closedReaders t, servableIo t)) =
    some ([(0, .runnable), (1, .runnable), (2, .runnable)], [], false) := by decide

/-! ### negation witnesses on the model of the code as written -/

/-- root creates a pipe and spawns a child with the write end; the child writes 10 bytes (blocks),
the root reads 10 bytes: `process_io` pairs them, both finish -/
def pipeRun : List Ev :=
  [⟨0, 1000, .yield, [.pipe 0]⟩, ⟨0, 1000, .yield, [.spawn 0 [3]]⟩, ⟨1, 1000, .yield, [.write 1 3 10]⟩,
   ⟨0, 1000, .yield, [.read 0 2 10]⟩, ⟨1, 500, .exit 0, []⟩, ⟨0, 500, .exit 0, []⟩]

/-- **checked_sub_before_process_io_deadlocks (F20).** The uninterrupted run of `pipeRun` succeeds
with 5000 cycles. Cut at a limit of 3500 cycles, the root's `read` (200 VM cycles + the unchecked 800
yield cycles) oversteps what is left: `iterate_outer` returns before `process_io`, the suspended
state holds the servable read/write pair with no runnable VM, and the resumed scheduler — with an
unlimited budget — answers "deadlock". -/
theorem checked_sub_before_process_io_deadlocks :
    oneShot pipeRun = .done 0 5000 ∧
    chunkedEnd resume [3500, U64 - 1] pipeRun = some (.stopped .deadlock) ∧
    ((chunkedWith resume [3500, U64 - 1] pipeRun {}).1.map
        (fun f => (f.vms, f.iter, servableIo { states := f.vms, fds := f.fds }))) =
      [([(0, .waitRead 2 10), (1, .waitWrite 3 0 10)], 201000, true)] := by
  decide +kernel

/-- the same cut one iteration later is harmless: the pair has been served -/
example : chunkedEnd resume [4000, U64 - 1] pipeRun = some (.done 0 5000) := by decide +kernel

/-- a `Scheduler::resume` that re-instantiates only the VMs that are not blocked (as if
`instantiated_ids` held the runnable VMs only) -/
def resumeSkippingBlocked (f : Full) (lg : List Out) : Except SErr Sch :=
  resume { f with instIds := f.instIds.filter (fun id =>
    match mget id f.vms with
    | some .runnable | some .terminated => true
    | _ => false) } lg

/-- the root writes 20 bytes to a child that reads 10 at a time: during the child's second stretch
the root is instantiated and blocked in `WaitForWrite`; that stretch is cut after 300 cycles -/
def blockedParentRun (cut : Bool) : List Ev :=
  [⟨0, 1000, .yield, [.pipe 0]⟩, ⟨0, 1000, .yield, [.spawn 0 [2]]⟩, ⟨1, 1000, .yield, [.read 1 2 10]⟩,
   ⟨0, 1000, .yield, [.write 0 3 20]⟩] ++
  (if cut then [⟨1, 300, .exceeded, []⟩, ⟨1, 700, .yield, [.read 1 2 10]⟩] else [⟨1, 1000, .yield, [.read 1 2 10]⟩]) ++
  [⟨1, 500, .exit 0, []⟩, ⟨0, 500, .exit 0, []⟩]

/-- **resume_skipping_blocked_vms_changes_total.** The round trip needs every recorded instantiated
VM: with the scheduler as coded the cut run reports the 6000 cycles of the uninterrupted run; a
resume that leaves the blocked (instantiated) root suspended pays `SPAWN_EXTRA_CYCLES_BASE` when
`process_io` needs the root again and reports 106000. -/
theorem resume_skipping_blocked_vms_changes_total :
    oneShot (blockedParentRun false) = .done 0 6000 ∧
    chunkedEnd resume [4300, U64 - 1] (blockedParentRun true) = some (.done 0 6000) ∧
    chunkedEnd resumeSkippingBlocked [4300, U64 - 1] (blockedParentRun true) = some (.done 0 106000) := by
  decide +kernel

end CkbVerif.C05

/-! ### the group an error is attributed to (`verify`) -/

namespace CkbVerif.C05
open CkbVerif.Cycles

/-- `verifyFromG` is `verifyFrom` with the originating group next to the error: every theorem about
`verify` holds for the attributed version -/
theorem verifyG_erases_to_verify (max : Nat) (gs : List Group) (idx cycles : Nat) :
    (match verifyFromG max gs idx cycles with
     | .ok n => (.ok n : Except Err Nat)
     | .error (e, _) => .error e) = verifyFrom max gs cycles := by
  induction gs generalizing idx cycles with
  | nil => rfl
  | cons g rest ih =>
    unfold verifyFromG verifyFrom
    cases runFull g (max - cycles) with
    | error e => rfl
    | ok used =>
      simp only
      cases cyclesAdd cycles used with
      | error e => rfl
      | ok c => exact ih (idx + 1) c

theorem runFull_ok_inv (g : Group) (lim u : Nat) (h : runFull g lim = .ok u) :
    g.code = 0 ∧ u = g.cost ∧ g.cost ≤ lim := by
  unfold runFull at h
  have hc := runSteps_conserve g.steps lim
  rcases hr : runSteps g.steps lim with ⟨c, r⟩
  rw [hr] at h hc
  simp only at h hc
  by_cases he : r.isEmpty = true
  · have : r = [] := by simpa using he
    subst this
    by_cases hcode : g.code = 0
    · simp only [List.isEmpty_nil, if_true, hcode, Except.ok.injEq] at h
      simp only [List.sum_nil, Nat.add_zero] at hc
      unfold Group.cost
      exact ⟨hcode, by omega, by omega⟩
    · simp [hcode] at h
  · simp [he] at h

theorem runFull_validation_inv (g : Group) (lim : Nat) (c : Int) (h : runFull g lim = .error (.validation c)) :
    c = g.code ∧ g.code ≠ 0 := by
  unfold runFull at h
  rcases hr : runSteps g.steps lim with ⟨u, r⟩
  rw [hr] at h
  simp only at h
  by_cases he : r.isEmpty = true
  · by_cases hcode : g.code = 0
    · simp [he, hcode] at h
    · simp only [he, if_true, hcode, if_false, Except.error.injEq, Err.validation.injEq] at h
      exact ⟨h.symm, hcode⟩
  · simp [he] at h

theorem runFull_exceeded_inv (g : Group) (lim l : Nat) (hpos : ∀ k ∈ g.steps, 0 < k)
    (h : runFull g lim = .error (.exceeded l)) : l = lim ∧ lim < g.cost := by
  unfold runFull at h
  have hd := runSteps_done_iff g.steps lim hpos
  rcases hr : runSteps g.steps lim with ⟨u, r⟩
  rw [hr] at h hd
  simp only at h hd
  by_cases he : r.isEmpty = true
  · by_cases hcode : g.code = 0 <;> simp [he, hcode] at h
  · simp only [he, Bool.false_eq_true, if_false, Except.error.injEq, Err.exceeded.injEq] at h
    refine ⟨h.symm, ?_⟩
    unfold Group.cost
    have : ¬ r = [] := by intro e; subst e; simp at he
    have : ¬ g.steps.sum ≤ lim := fun hh => this (hd.2 hh)
    omega

/-- **verify_attributes_validation_to_first_failing_group.** a `ValidationFailure(code)` of `verify`
is attributed to the FIRST group whose exit code is not 0, and carries that group's code — whatever
the budget and the traces (every group before it has run to its end with exit code 0) -/
theorem verify_attributes_validation_to_first_failing_group (max : Nat) (gs : List Group)
    (idx cycles i : Nat) (c : Int) (h : verifyFromG max gs idx cycles = .error (.validation c, i)) :
    i = idx + failIdx gs ∧ (gs[failIdx gs]?).map (·.code) = some c ∧ c ≠ 0 := by
  induction gs generalizing idx cycles with
  | nil => simp [verifyFromG] at h
  | cons g rest ih =>
    unfold verifyFromG at h
    cases hr : runFull g (max - cycles) with
    | error e =>
      rw [hr] at h
      simp only [Except.error.injEq, Prod.mk.injEq] at h
      obtain ⟨he, hi⟩ := h
      subst he
      obtain ⟨h1, h2⟩ := runFull_validation_inv g _ c hr
      have hf : failIdx (g :: rest) = 0 := by
        have hb : (g.code == 0) = false := by simpa using h2
        unfold failIdx; simp [List.takeWhile, hb]
      rw [hf]
      exact ⟨by omega, by simp [h1], by rw [h1]; exact h2⟩
    | ok used =>
      rw [hr] at h
      simp only at h
      obtain ⟨h0, _, _⟩ := runFull_ok_inv g _ used hr
      cases ha : cyclesAdd cycles used with
      | error e =>
        rw [ha] at h
        unfold cyclesAdd at ha
        split at ha
        · cases ha
        · cases ha; simp at h
      | ok c' =>
        rw [ha] at h
        obtain ⟨e1, e2, e3⟩ := ih (idx + 1) c' h
        have hf : failIdx (g :: rest) = failIdx rest + 1 := by
          have hb : (g.code == 0) = true := by simpa using h0
          unfold failIdx; simp [List.takeWhile, hb]
        rw [hf]
        exact ⟨by omega, by simpa using e2, e3⟩

/-- **verify_attributes_exceeded_to_first_group_that_does_not_fit.** an `ExceededMaximumCycles(l)` of
`verify` is attributed to the first group whose cost does not fit into what the groups before it
leave of the budget (`shortIdx`), and `l` is exactly what was left for that group -/
theorem verify_attributes_exceeded_to_first_group_that_does_not_fit (max : Nat) (gs : List Group)
    (hpos : ∀ g ∈ gs, ∀ k ∈ g.steps, 0 < k) (idx cycles i l : Nat) (hc : cycles ≤ max)
    (h : verifyFromG max gs idx cycles = .error (.exceeded l, i)) :
    i = idx + shortIdx gs (max - cycles) ∧
      l + cycles + ((gs.take (shortIdx gs (max - cycles))).map Group.cost).sum = max := by
  induction gs generalizing idx cycles with
  | nil => simp [verifyFromG] at h
  | cons g rest ih =>
    have hg := hpos g List.mem_cons_self
    have hrest : ∀ x ∈ rest, ∀ k ∈ x.steps, 0 < k := fun x hx => hpos x (List.mem_cons_of_mem _ hx)
    unfold verifyFromG at h
    cases hr : runFull g (max - cycles) with
    | error e =>
      rw [hr] at h
      simp only [Except.error.injEq, Prod.mk.injEq] at h
      obtain ⟨he, hi⟩ := h
      subst he
      obtain ⟨h1, h2⟩ := runFull_exceeded_inv g _ l hg hr
      have hs : shortIdx (g :: rest) (max - cycles) = 0 := by
        unfold shortIdx; simp; omega
      rw [hs]
      simp only [List.take_zero, List.map_nil, List.sum_nil]
      omega
    | ok used =>
      rw [hr] at h
      simp only at h
      obtain ⟨_, hu, hfit⟩ := runFull_ok_inv g _ used hr
      cases ha : cyclesAdd cycles used with
      | error e =>
        rw [ha] at h
        unfold cyclesAdd at ha
        split at ha
        · cases ha
        · cases ha; simp at h
      | ok c' =>
        rw [ha] at h
        have hc' : c' = cycles + used := by
          unfold cyclesAdd at ha
          split at ha
          · cases ha; rfl
          · cases ha
        subst hc' hu
        obtain ⟨e1, e2⟩ := ih hrest (idx + 1) (cycles + g.cost) (by omega) h
        have hs : shortIdx (g :: rest) (max - cycles) = 1 + shortIdx rest (max - cycles - g.cost) := by
          rw [shortIdx]; simp [hfit]
        have hsub : max - (cycles + g.cost) = max - cycles - g.cost := by omega
        rw [hsub] at e1 e2
        rw [hs]
        refine ⟨by omega, ?_⟩
        rw [Nat.add_comm 1, List.take_succ_cons, List.map_cons, List.sum_cons]
        omega

-- three groups, the last one fails: budget 13 reaches the failure (attributed to group 2), budget 12
-- does not fit group 2 (5 cycles left for it), budget 6 does not fit group 1
example : verifyG [⟨[3, 4], 0⟩, ⟨[1], 0⟩, ⟨[5], 7⟩] 13 = .error (.validation 7, 2) ∧
    verifyG [⟨[3, 4], 0⟩, ⟨[1], 0⟩, ⟨[5], 7⟩] 12 = .error (.exceeded 4, 2) ∧
    verifyG [⟨[3, 4], 0⟩, ⟨[2], 0⟩, ⟨[5], 7⟩] 8 = .error (.exceeded 1, 1) ∧
    failIdx [⟨[3, 4], 0⟩, ⟨[1], 0⟩, ⟨[5], 7⟩] = 2 ∧ shortIdx [⟨[3, 4], 0⟩, ⟨[2], 0⟩, ⟨[5], 7⟩] 8 = 1 :=
  ⟨rfl, rfl, rfl, rfl, rfl⟩

end CkbVerif.C05

/-! ### the transaction-level loop over scheduler instances (`Model/SchedTx.lean`) -/

namespace CkbVerif.C05
open CkbVerif.SchedBook CkbVerif.SchedTx

/-- **tx_suspension_within_call_limit.** whatever the groups do: when the loop over the script groups
(`resumable_verify`, or the tail of `resume_from_state`) returns `Suspended`, the suspended group is
one of the groups of the transaction, and the limit recorded in the `TransactionState` — the budget
that was handed to that group's scheduler — is at most the limit of the call -/
theorem tx_suspension_within_call_limit (limit : Nat) (gs : List GKind) :
    ∀ (idx used cycles : Nat) (evs : List Ev) (log : List Out) (st : TxSt) (evs' : List Ev) (log' : List Out),
      txLoop limit gs idx used cycles evs log = (.suspended st, evs', log') →
      st.limitCycles ≤ limit ∧ idx ≤ st.current ∧ st.current < idx + gs.length := by
  induction gs with
  | nil => intro idx used cycles evs log st evs' log' h; simp [txLoop] at h
  | cons k rest ih =>
    intro idx used cycles evs log st evs' log' h
    unfold txLoop at h
    by_cases hl : limit < used
    · simp [hl] at h
    · simp only [hl, if_false] at h
      rcases hc : chunkRunS k evs (limit - used) none log with ⟨r, e1, l1⟩
      rw [hc] at h
      cases r with
      | completed u c =>
        simp only at h
        cases ha : addU64 used c with
        | none => rw [ha] at h; simp at h
        | some used' =>
          cases hb : addU64 cycles u with
          | none => rw [ha, hb] at h; simp at h
          | some cycles' =>
            rw [ha, hb] at h
            obtain ⟨h1, h2, h3⟩ := ih (idx + 1) used' cycles' e1 l1 st evs' log' h
            simp only [List.length_cons]
            exact ⟨h1, by omega, by omega⟩
      | suspended f =>
        simp only [Prod.mk.injEq, TxEnd.suspended.injEq] at h
        obtain ⟨hs, _, _⟩ := h
        subst hs
        simp only [List.length_cons]
        exact ⟨by omega, by omega, by omega⟩
      | failed c => simp at h
      | stopped e => simp at h
      | mismatch r => simp at h

-- a lock group of 700 cycles followed by the TYPE_ID system script: a call with 1000 cycles completes the
-- lock group and suspends in the system script with 300 cycles handed on; no scheduler state is kept
example : (resumableVerify [.vm, .tid 0] 1000 [⟨0, 700, .exit 0, []⟩] []).1 = .suspended ⟨1, none, 700, 300⟩ := by
  decide +kernel

end CkbVerif.C05

/-! ### the fd-ownership invariant of waiters and the full post-condition of `process_io` -/

namespace CkbVerif.C05
open CkbVerif.SchedBook CkbVerif.SchedTx

/-- **process_io_leaves_no_writer_on_closed_end.** For EVERY scheduler state with an ordered `states`
map: after `process_io` no VM waits for a write on a pipe whose read end is closed. -/
theorem process_io_leaves_no_writer_on_closed_end (s t : Sch) (hk : KS s.states) (h : processIo s = .ok t) :
    closedWriters t = [] :=
  processIo_no_closed_writer s t hk h

/-- **process_io_leaves_no_matching_pair.** For EVERY scheduler state that satisfies the ownership
invariant `IoInv` (ordered `states`; a VM that waits on an fd owns it; fds below `next_fd_slot`):
after `process_io` no reader and writer on the two ends (`fd`, `fd ^ 1`) of one pipe are both left
waiting. -/
theorem process_io_leaves_no_matching_pair (s t : Sch) (hi : IoInv s) (h : processIo s = .ok t) :
    ioPairs t = [] :=
  processIo_no_pair s t hi.ks (fun x fd len hm => hi.own x _ fd hm (.inl ⟨len, rfl⟩)) h

/-- **process_io_leaves_no_servable_io.** The full post-condition: under the ownership invariant,
after `process_io` NO servable pipe IO is left — no waiter on a closed end (reader or writer) and no
matching read/write pair. Hence a suspended state with servable IO can only come from the early
return of `iterate_outer` that skips `process_io` (F20). -/
theorem process_io_leaves_no_servable_io (s t : Sch) (hi : IoInv s) (h : processIo s = .ok t) :
    servableIo t = false := by
  unfold servableIo
  rw [process_io_leaves_no_reader_on_closed_end s t hi.ks h, process_io_leaves_no_writer_on_closed_end s t hi.ks h,
    process_io_leaves_no_matching_pair s t hi h]
  rfl

/-- **io_inv_initial.** a fresh scheduler satisfies the ownership invariant -/
theorem io_inv_initial : IoInv ({} : Sch) := init_inv

/-- **io_inv_message.** every message kind (spawn with its fd hand-over, wait, pipe, read, write,
close, inherited_fd, exec) sent by a `Runnable` VM keeps the ownership invariant -/
theorem io_inv_message (m : Msg) (s t : Sch) (hi : IoInv s) (hrun : mget m.sender s.states = some .runnable)
    (h : processMsg m s = .ok t) : IoInv t :=
  processMsg_inv m s t hi hrun h

/-- **io_inv_process_io.** `process_io` keeps the ownership invariant -/
theorem io_inv_process_io (s t : Sch) (hi : IoInv s) (h : processIo s = .ok t) : IoInv t :=
  processIo_inv s t hi h

/-- **io_inv_iterate_outer.** one whole iteration (`iterate_prepare_machine`, the VM run with at most
one message of the VM that ran, `iterate_process_results` incl. the exit of a root or non-root VM,
the books, `process_io`) keeps the ownership invariant on EVERY path, error paths included -/
theorem io_inv_iterate_outer (ev : Ev) (limit : Nat) (s : Sch) (hi : IoInv s) (hl : ev.msgs.length ≤ 1)
    (hs : ∀ m ∈ ev.msgs, chooseVm s = some m.sender) : IoInv (iterateOuter ev limit s).1 :=
  iterateOuter_inv ev limit s hi hl hs

/-- **io_inv_run.** `Scheduler::run` (booting the root VM if needed, then the loop) keeps the
ownership invariant for every well-formed stream of observed VM runs, whatever the limit -/
theorem io_inv_run (evs : List Ev) (limit : Nat) (s : Sch) (hi : IoInv s) (hok : ∀ ev ∈ evs, EvOk ev) :
    IoInv (run evs limit s).1 :=
  run_inv evs limit s hi hok

/-- **io_inv_suspend_resume.** `Scheduler::suspend` and `Scheduler::resume` keep the ownership invariant -/
theorem io_inv_suspend_resume (s t s' : Sch) (f : Full) (lg : List Out) (hi : IoInv s)
    (h1 : suspend s = .ok (f, t)) (h2 : resume f lg = .ok s') : IoInv t ∧ IoInv s' :=
  suspend_resume_inv s t s' f lg hi h1 h2

/-- **io_inv_chunked.** the resumable API as coded — any number of `run` calls with any limits, each
stop suspended and resumed — keeps the ownership invariant from a fresh scheduler on: every state a
chunked run of a script group goes through has its waiters owning their fds -/
theorem io_inv_chunked (ls : List Nat) (evs : List Ev) (hok : ∀ ev ∈ evs, EvOk ev) :
    IoInv (chunkedWith resume ls evs {}).2.2 :=
  chunked_inv ls evs {} init_inv hok

-- non-vacuity: the run of `pipeRun` (root and child on one pipe) is a well-formed stream
example : ∀ ev ∈ pipeRun, EvOk ev := by
  intro ev hev
  simp only [pipeRun, List.mem_cons, List.not_mem_nil, or_false] at hev
  rcases hev with h | h | h | h | h | h <;> (subst h; exact ⟨by decide, by decide⟩)

end CkbVerif.C05

/-! ### the traced transaction model against the accounting model -/

namespace CkbVerif.C05
open CkbVerif.SchedBook CkbVerif.SchedTx CkbVerif.Cycles

/-- how a result of the traced transaction model reads in the accounting model (cycles, verdict,
group of the suspension; the suspended group state of a TYPE_ID group is the untouched one-step trace) -/
def asAccounting : TxEnd → Option (Except Err VResult)
  | .completed c => some (.ok (.completed c))
  | .suspended ⟨idx, none, cycles, limit⟩ => some (.ok (.suspended ⟨idx, ⟨0, [Gen.Cycles.TYPE_ID_CYCLES]⟩, cycles, limit⟩))
  | .suspended ⟨_, some _, _, _⟩ => none
  | .failed c _ => some (.error (.validation c))
  | .other => some (.error .other)
  | .overflow => some (.error .overflow)
  | .stopped _ _ => none
  | .mismatch _ => none

theorem addU64_eq (a b : Nat) : addU64 a b = (match cyclesAdd a b with | .ok c => some c | .error _ => none) := by
  unfold addU64 cyclesAdd
  have : SchedBook.U64 = Cycles.U64 := rfl
  rw [this]
  split <;> rfl

/-- **tx_model_eq_accounting_model_on_type_id_groups.** On transactions whose groups are all the
built-in TYPE_ID system script the traced transaction model (`Model/SchedTx.lean`) and the
accounting model (`Model/Cycles.lean`, about which the 31 older theorems speak) are the SAME function
for every limit: same total, same `ValidationFailure`, same suspended group with the same recorded
cycles and limit, the same `Other` / `CyclesOverflow`. -/
theorem tx_model_eq_accounting_model_on_type_id_groups (limit : Nat) (codes : List Int) :
    ∀ (idx used cycles : Nat) (evs : List Ev) (log : List Out),
      asAccounting (txLoop limit (codes.map GKind.tid) idx used cycles evs log).1 =
        some (resumableLoop limit (codes.map typeIdGroup) idx used cycles) := by
  induction codes with
  | nil => intro idx used cycles evs log; rfl
  | cons code rest ih =>
    intro idx used cycles evs log
    simp only [List.map_cons]
    unfold txLoop resumableLoop
    by_cases hl : limit < used
    · simp [hl, asAccounting]
    · simp only [hl, if_false]
      have h2 := (type_id_group_is_single_step (limit - used) code).2.1
      rw [h2]
      unfold chunkRunS
      simp only
      cases hc : typeIdChunk (limit - used) code with
      | error e =>
        unfold typeIdChunk at hc
        cases hv : typeIdVerify (limit - used) code with
        | ok c => rw [hv] at hc; cases hc
        | error e' =>
          rw [hv] at hc
          cases e' with
          | exceeded _ => simp at hc
          | validation c => simp at hc; subst hc; simp [asAccounting]
          | other =>
            unfold typeIdVerify at hv
            split at hv
            · cases hv
            · split at hv <;> cases hv
          | overflow =>
            unfold typeIdVerify at hv
            split at hv
            · cases hv
            · split at hv <;> cases hv
      | ok o =>
        cases o with
        | none => simp [asAccounting, typeIdGroup]
        | some p =>
          obtain ⟨u, c⟩ := p
          simp only
          rw [addU64_eq, addU64_eq]
          cases hca : cyclesAdd used c with
          | error e =>
            have : e = .overflow := by
              unfold cyclesAdd at hca
              split at hca
              · cases hca
              · cases hca; rfl
            subst this
            simp [asAccounting]
          | ok used' =>
            simp only
            cases hcb : cyclesAdd cycles u with
            | error e =>
              have : e = .overflow := by
                unfold cyclesAdd at hcb
                split at hcb
                · cases hcb
                · cases hcb; rfl
              subst this
              simp [asAccounting]
            | ok cycles' => simp only; exact ih (idx + 1) used' cycles' evs log

end CkbVerif.C05

namespace CkbVerif.C05
open CkbVerif.SchedBook CkbVerif.SchedTx CkbVerif.Cycles

/-- in the accounting model a suspended chunk never consumed more than its limit -/
theorem accounting_chunk_within_limit (g : Group) (limit : Nat) (s : GState)
    (h : chunkRun g limit none = .ok (.suspended s)) : s.consumed ≤ limit := by
  unfold chunkRun at h
  have hc := (runSteps_conserve g.steps limit).2
  simp only [Option.getD_none] at h
  rcases hr : runSteps g.steps limit with ⟨c, r⟩
  rw [hr] at h hc
  simp only at h hc
  split at h
  · split at h <;> cases h
  · simp only [Except.ok.injEq, Chunk.suspended.injEq] at h
    subst h
    simp only
    omega

/-- one VM: 200 cycles and a `pipe` call (800 unchecked yield cycles), then 500 cycles and exit -/
def overshootRun : List Ev := [⟨0, 1000, .yield, [.pipe 0]⟩, ⟨0, 500, .exit 0, []⟩]

/-- **tx_model_differs_from_accounting_model_by_overshoot_witness.** The exact place where the traced
transaction model and the accounting model differ on a VM group: the scheduler books the unchecked
yield charge of a syscall even when it oversteps the limit (`iterate_outer` consumes, THEN tests), so
the suspended scheduler has consumed MORE than the limit of the call (here 1000 of a limit of 500,
recorded `limit_cycles` 500), while a suspended chunk of the accounting model never consumed more
than its limit (`accounting_chunk_within_limit`: a step that does not fit is not executed). Verdict
and final total agree: resumed, the run completes with the 1500 cycles of the uninterrupted run. -/
theorem tx_model_differs_from_accounting_model_by_overshoot_witness :
    (match (SchedTx.resumableVerify [.vm] 500 overshootRun []).1 with
      | .suspended st => some (st.current, st.limitCycles, st.full.map (·.total))
      | _ => none) = some (0, 500, some 1000) ∧
    (match SchedTx.resumableVerify [.vm] 500 overshootRun [] with
      | (.suspended st, rest, _) => (SchedTx.resumeFromState [.vm] st (SchedBook.U64 - 1) rest []).1
      | _ => .other) = .completed 1500 ∧
    (SchedTx.resumableVerify [.vm] (SchedBook.U64 - 1) overshootRun []).1 = .completed 1500 ∧
    (∀ (g : Group) (s : GState), chunkRun g 500 none = .ok (.suspended s) → s.consumed ≤ 500) :=
  ⟨by decide +kernel, by decide +kernel, by decide +kernel, fun g s h => accounting_chunk_within_limit g 500 s h⟩

end CkbVerif.C05

/-! ### F20 pinned down: servable IO is left only by the early return -/

namespace CkbVerif.C05
open CkbVerif.SchedBook CkbVerif.SchedTx

/-- **iterate_outer_ok_leaves_no_servable_io.** Under the ownership invariant, a scheduler iteration
that returns `Ok(remaining)` leaves NO servable pipe IO behind: between two iterations of an
uninterrupted `run` every servable read / write has been served. With
`iterateOuter_early_return_skips_process_io` and `checked_sub_before_process_io_deadlocks` this pins
F20 down: the only way a state with servable IO is ever left is the early `CyclesExceeded` return. -/
theorem iterate_outer_ok_leaves_no_servable_io (ev : Ev) (limit : Nat) (s s' : Sch) (rem : Nat)
    (hi : IoInv s) (hl : ev.msgs.length ≤ 1) (hs : ∀ m ∈ ev.msgs, chooseVm s = some m.sender)
    (h : iterateOuter ev limit s = (s', .ok rem)) : servableIo s' = false := by
  have i1 := iterateInner_inv ev s hi hl hs
  unfold iterateOuter at h
  rcases hii : iterateInner ev s with ⟨s1, r⟩
  rw [hii] at h i1
  simp only at h i1
  split at h
  · split at h
    · cases h
    · have i3 : IoInv ({ s1 with total := s1.total + s1.iter, iter := 0 } : Sch) := IoInv.congr (s := s1) rfl rfl rfl i1
      split at h
      · cases h
      · rename_i s4 hio
        split at h
        · cases h
        · simp only [Prod.mk.injEq] at h
          rw [← h.1]
          exact process_io_leaves_no_servable_io _ s4 i3 hio
  · cases h

/-- **iterate_outer_within_limit_serves_io.** More generally, on EVERY path of `iterate_outer` on
which the iteration's charge stays within the limit — success, and also a VM that stopped with
`CyclesExceeded` / `Pause` / an error — `process_io` has run, and (unless `process_io` itself
failed) the state that is left, which is the state a suspension then records, has no servable IO. -/
theorem iterate_outer_within_limit_serves_io (ev : Ev) (limit : Nat) (s : Sch)
    (hi : IoInv s) (hl : ev.msgs.length ≤ 1) (hs : ∀ m ∈ ev.msgs, chooseVm s = some m.sender)
    (hfit : (iterateInner ev s).1.total + (iterateInner ev s).1.iter < SchedBook.U64)
    (hle : (iterateInner ev s).1.iter ≤ limit) :
    servableIo (iterateOuter ev limit s).1 = false ∨
      ∃ e, processIo { (iterateInner ev s).1 with
            total := (iterateInner ev s).1.total + (iterateInner ev s).1.iter, iter := 0 } = .error e := by
  have i1 := iterateInner_inv ev s hi hl hs
  unfold iterateOuter
  rcases hii : iterateInner ev s with ⟨s1, r⟩
  rw [hii] at i1 hfit hle
  simp only at i1 hfit hle ⊢
  have hnot : ¬ limit < s1.iter := by omega
  simp only [hfit, if_true, hnot, if_false]
  have i3 : IoInv ({ s1 with total := s1.total + s1.iter, iter := 0 } : Sch) := IoInv.congr (s := s1) rfl rfl rfl i1
  cases hio : processIo { s1 with total := s1.total + s1.iter, iter := 0 } with
  | error e => exact .inr ⟨e, rfl⟩
  | ok s4 =>
    left
    have := process_io_leaves_no_servable_io _ s4 i3 hio
    simp only
    split <;> exact this

end CkbVerif.C05
