import CkbVerif.Lemmas.Window

/-!
# C20 — the node's proposal view equals the on-chain proposal window, also after restart

Model: `CkbVerif/Model/Window.lean` (`ProposalTable::finalize`, `update_proposal_table` +
`reload_proposal_table` + `finalize` as run by `verify_block`/`truncate`, `init_proposal_table`,
`TwoPhaseCommitVerifier`'s walk). A main chain is a `List Ids` (element `n` = own + uncles' proposal
ids of block `n`). The spec side:

* `InSet w chain x` — `x` is proposed in a non-genesis main-chain block `n` with
  `w.close ≤ chain.length − n ≤ w.far` (distance to the next block, whose number is `chain.length`);
* `InGap w chain x` — the same with distance `< w.close`.

Everything is parametric in the window, under `WinOk w : 1 ≤ w.close ≤ w.far`; the generated
consensus default satisfies it (`default_window_ok`). `ChainOk` = the chain is non-empty and the
genesis block carries no proposal ids (true of every chain spec; the last `example` shows the view
and the verifier differ without it — the code inserts block 0 at start-up and the verifier stops
at genesis).
-/
namespace CkbVerif.C20
open CkbVerif.Window

/-- States reachable by the node: first start on a genesis-only store, then any sequence of
main-chain changes (extension, reorganisation of any depth to a branch of any length, truncation)
and restarts. -/
inductive Reach (w : Win) : Node → Prop
  | boot : Reach w (init w [[]])
  | switch {s : Node} (common : Nat) (branch : List Ids) :
      Reach w s → common < s.chain.length → Reach w (switch w s common branch).1
  | restart {s : Node} : Reach w s → Reach w (init w s.chain)

/-- The window constants regenerated from `spec/src/consensus.rs` are admissible. -/
theorem default_window_ok : WinOk defaultWin := by
  constructor <;> decide

/-- `finalize` at the tip of `chain`, on a table that is accurate for the main chain and covers
the last `w.far` blocks, returns exactly the window: `set` = ids at distance `w.close..w.far`,
`gap` = ids closer than `w.close`; including the short-chain branch and saturating bounds. -/
theorem view_eq_window {w : Win} (hw : WinOk w) {chain : List Ids} (hc : ChainOk chain)
    {t : Table} (hacc : Acc chain t) (hcov : Cov w chain t) (origin : View) :
    (∀ x, x ∈ (finalize w t origin (chain.length - 1)).2.2.set ↔ InSet w chain x) ∧
    (∀ x, x ∈ (finalize w t origin (chain.length - 1)).2.2.gap ↔ InGap w chain x) :=
  (finalize_spec hw hc hacc hcov origin).2.2

/-- The table invariant is preserved by every main-chain change: remove detached, insert attached,
`reload_proposal_table`'s range, `finalize`'s `split_off`. -/
theorem table_inv_step {w : Win} (hw : WinOk w) {s : Node} (h : Inv w s) {common : Nat}
    (hcommon : common < s.chain.length) (branch : List Ids) :
    Inv w (switch w s common branch).1 :=
  h.switch hw hcommon branch

/-- … and established by the start-up reconstruction from any stored chain. -/
theorem table_inv_init {w : Win} (hw : WinOk w) {chain : List Ids} (hc : ChainOk chain) :
    Inv w (init w chain) :=
  Inv.init hw hc

/-- The invariant holds in every reachable state (induction over the operation sequence). -/
theorem reach_inv {w : Win} (hw : WinOk w) {s : Node} (h : Reach w s) : Inv w s := by
  induction h with
  | boot => exact Inv.init hw ⟨by decide, by decide⟩
  | switch common branch _ hc ih => exact ih.switch hw hc branch
  | restart _ ih => exact Inv.init hw ih.chain

/-- **Headline.** In every reachable state the node's view is exactly the on-chain window. -/
theorem view_eq_window_reach {w : Win} (hw : WinOk w) {s : Node} (h : Reach w s) :
    (∀ x, x ∈ s.view.set ↔ InSet w s.chain x) ∧ (∀ x, x ∈ s.view.gap ↔ InGap w s.chain x) :=
  (reach_inv hw h).view

/-- The ids handed to the pool as `detached_proposal_id` are exactly those that were committable
before the change and are no longer committable after it. -/
theorem removed_eq_left_window {w : Win} (hw : WinOk w) {s : Node} (h : Reach w s) {common : Nat}
    (hcommon : common < s.chain.length) (branch : List Ids) (x : Nat) :
    x ∈ (switch w s common branch).2 ↔
      InSet w s.chain x ∧ ¬ InSet w (switch w s common branch).1.chain x := by
  have hold := (reach_inv hw h).view.1
  have hnew := (reach_inv hw (Reach.switch common branch h hcommon)).view.1
  have : x ∈ (switch w s common branch).2 ↔
      x ∈ s.view.set ∧ x ∉ (switch w s common branch).1.view.set := by
    simp only [CkbVerif.Window.switch]
    exact finalize_removed
  rw [this, hold x, hnew x]

/-- The view rebuilt from the store at start-up equals the incrementally maintained one, at every
reachable state (so a restart at any height is invisible). -/
theorem init_eq_incremental {w : Win} (hw : WinOk w) {s : Node} (h : Reach w s) :
    (∀ x, x ∈ (init w s.chain).view.set ↔ x ∈ s.view.set) ∧
    (∀ x, x ∈ (init w s.chain).view.gap ↔ x ∈ s.view.gap) := by
  have a := (reach_inv hw h).view
  have b : ViewOk w s.chain (init w s.chain).view := (reach_inv hw (Reach.restart h)).view
  exact ⟨fun x => by rw [a.1 x, b.1 x], fun x => by rw [a.2 x, b.2 x]⟩

/-- The view's `set` is exactly the id set `TwoPhaseCommitVerifier` collects for the next block. -/
theorem view_agrees_with_verifier {w : Win} (hw : WinOk w) {s : Node} (h : Reach w s) (x : Nat) :
    x ∈ verifierIds w s.chain s.chain.length ↔ x ∈ s.view.set := by
  rw [mem_verifierIds hw, (reach_inv hw h).view.1 x]

/-- … hence the verifier accepts the commitments of block `tip+1` iff all are in the view's `set`. -/
theorem commit_rule_eq_view {w : Win} (hw : WinOk w) {s : Node} (h : Reach w s) (committed : Ids) :
    commitOk w s.chain s.chain.length committed = true ↔ ∀ x ∈ committed, x ∈ s.view.set := by
  simp only [commitOk, List.all_eq_true, List.contains_eq_mem, decide_eq_true_eq]
  constructor
  · intro hh x hx; exact (view_agrees_with_verifier hw h x).mp (hh x hx)
  · intro hh x hx; exact (view_agrees_with_verifier hw h x).mpr (hh x hx)

/-! ## non-vacuity: concrete reachable states with non-trivial views -/

/-- window (1,2); chain g,[1],[2,3],[4]; then a reorg to g,[1],[5],[6],[7]; then truncate to 2. -/
def exNode : Node :=
  let s0 := init ⟨1, 2⟩ [[]]
  let s1 := (switch ⟨1, 2⟩ s0 0 [[1]]).1
  let s2 := (switch ⟨1, 2⟩ s1 1 [[2, 3]]).1
  (switch ⟨1, 2⟩ s2 2 [[4]]).1

theorem exNode_reach : Reach ⟨1, 2⟩ exNode :=
  .switch 2 [[4]] (.switch 1 [[2, 3]] (.switch 0 [[1]] .boot (by decide)) (by decide)) (by decide)

example : exNode.view.set = [4, 2, 3] ∧ exNode.view.gap = [] := by decide
example : (switch ⟨1, 2⟩ exNode 1 [[5], [6], [7]]).1.view.set = [7, 6] := by decide
example : (switch ⟨1, 2⟩ exNode 1 [[5], [6], [7]]).2 = [4, 2, 3] := by decide
example : (switch ⟨1, 2⟩ exNode 2 []).1.view.set = [2, 3, 1] := by decide
example : (init ⟨1, 2⟩ exNode.chain).view.set = [4, 2, 3] := by decide
example : InSet ⟨1, 2⟩ exNode.chain 4 := ⟨3, by decide, by decide, by decide, by decide, by decide⟩
example : WinOk ⟨1, 2⟩ := ⟨by decide, by decide⟩
/-- default window (2,10), short chain: everything is still in the gap -/
example : (init defaultWin [[], [1]]).view.gap = [1] ∧ (init defaultWin [[], [1]]).view.set = [] := by decide
example : (init defaultWin [[], [1], [2]]).view.gap = [2] ∧ (init defaultWin [[], [1], [2]]).view.set = [1] := by decide

/-- Why `ChainOk.genesis` is needed: with a proposal in the genesis block the start-up view offers
it as committable while the verifier (which stops at genesis) would reject it. -/
example : (init defaultWin [[7], [1], [2]]).view.set = [1, 7] ∧ verifierIds defaultWin [[7], [1], [2]] 3 = [1] := by decide

end CkbVerif.C20
