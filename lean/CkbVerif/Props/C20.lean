import CkbVerif.Lemmas.Window
import CkbVerif.Lemmas.WindowConsumers

/-!
# C20 — the node's proposal view equals the on-chain proposal window, also after restart

Model: `CkbVerif/Model/Window.lean` (`ProposalTable::finalize`, `update_proposal_table` +
`reload_proposal_table` + `finalize` as run by `verify_block`/`truncate`, `init_proposal_table`,
`TwoPhaseCommitVerifier`'s walk). A main chain is a `List Ids` (element `n` = own + uncles' proposal
ids of block `n`). The spec side:

* `InSet w chain x` — `x` is proposed in a non-genesis main-chain block `n` with
  `w.close ≤ chain.length − n ≤ w.far` (distance to the next block, whose number is `chain.length`);
* `InGap w chain x` — the same with distance `< w.close`.

The consumers of the view are in `CkbVerif/Model/WindowConsumers.lean`: `txStatus` (`get_tx_status`
of the tx-pool: `set` first, then `gap`, else fresh), `stageAfter` (the per-entry stage move of
`_update_tx_pool_for_reorg`), and three variants used only as decided witnesses (`txStatusGapFirst`,
`switchSkip`, `verifierIdsFromParent`).

Everything is parametric in the window, under `WinOk w : 1 ≤ w.close ≤ w.far`; the generated
consensus default satisfies it (`default_window_ok`). `ChainOk` = the chain is non-empty and the
genesis block carries no proposal ids (true of every chain spec; the last `example` shows the view
and the verifier differ without it — the code inserts block 0 at start-up and the verifier stops
at genesis).
-/
namespace CkbVerif.C20
open CkbVerif.Window

/-- States reachable by the node: first start on a genesis-only store, then any sequence of
main-chain changes (extension, reorganisation of any depth to a branch of any length, truncation)
and restarts. -/
inductive Reach (w : Win) : Node → Prop
  | boot : Reach w (init w [[]])
  | switch {s : Node} (common : Nat) (branch : List Ids) :
      Reach w s → common < s.chain.length → Reach w (switch w s common branch).1
  | restart {s : Node} : Reach w s → Reach w (init w s.chain)

/-- The window constants regenerated from `spec/src/consensus.rs` are admissible. -/
theorem default_window_ok : WinOk defaultWin := by
  constructor <;> decide

/-- `finalize` at the tip of `chain`, on a table that is accurate for the main chain and covers
the last `w.far` blocks, returns exactly the window: `set` = ids at distance `w.close..w.far`,
`gap` = ids closer than `w.close`; including the short-chain branch and saturating bounds. -/
theorem view_eq_window {w : Win} (hw : WinOk w) {chain : List Ids} (hc : ChainOk chain)
    {t : Table} (hacc : Acc chain t) (hcov : Cov w chain t) (origin : View) :
    (∀ x, x ∈ (finalize w t origin (chain.length - 1)).2.2.set ↔ InSet w chain x) ∧
    (∀ x, x ∈ (finalize w t origin (chain.length - 1)).2.2.gap ↔ InGap w chain x) :=
  (finalize_spec hw hc hacc hcov origin).2.2

/-- The table invariant is preserved by every main-chain change: remove detached, insert attached,
`reload_proposal_table`'s range, `finalize`'s `split_off`. -/
theorem table_inv_step {w : Win} (hw : WinOk w) {s : Node} (h : Inv w s) {common : Nat}
    (hcommon : common < s.chain.length) (branch : List Ids) :
    Inv w (switch w s common branch).1 :=
  h.switch hw hcommon branch

/-- … and established by the start-up reconstruction from any stored chain. -/
theorem table_inv_init {w : Win} (hw : WinOk w) {chain : List Ids} (hc : ChainOk chain) :
    Inv w (init w chain) :=
  Inv.init hw hc

/-- The invariant holds in every reachable state (induction over the operation sequence). -/
theorem reach_inv {w : Win} (hw : WinOk w) {s : Node} (h : Reach w s) : Inv w s := by
  induction h with
  | boot => exact Inv.init hw ⟨by decide, by decide⟩
  | switch common branch _ hc ih => exact ih.switch hw hc branch
  | restart _ ih => exact Inv.init hw ih.chain

/-- **Headline.** In every reachable state the node's view is exactly the on-chain window. -/
theorem view_eq_window_reach {w : Win} (hw : WinOk w) {s : Node} (h : Reach w s) :
    (∀ x, x ∈ s.view.set ↔ InSet w s.chain x) ∧ (∀ x, x ∈ s.view.gap ↔ InGap w s.chain x) :=
  (reach_inv hw h).view

/-- The ids handed to the pool as `detached_proposal_id` are exactly those that were committable
before the change and are no longer committable after it. -/
theorem removed_eq_left_window {w : Win} (hw : WinOk w) {s : Node} (h : Reach w s) {common : Nat}
    (hcommon : common < s.chain.length) (branch : List Ids) (x : Nat) :
    x ∈ (switch w s common branch).2 ↔
      InSet w s.chain x ∧ ¬ InSet w (switch w s common branch).1.chain x := by
  have hold := (reach_inv hw h).view.1
  have hnew := (reach_inv hw (Reach.switch common branch h hcommon)).view.1
  have : x ∈ (switch w s common branch).2 ↔
      x ∈ s.view.set ∧ x ∉ (switch w s common branch).1.view.set := by
    simp only [CkbVerif.Window.switch]
    exact finalize_removed
  rw [this, hold x, hnew x]

/-- The view rebuilt from the store at start-up equals the incrementally maintained one, at every
reachable state (so a restart at any height is invisible). -/
theorem init_eq_incremental {w : Win} (hw : WinOk w) {s : Node} (h : Reach w s) :
    (∀ x, x ∈ (init w s.chain).view.set ↔ x ∈ s.view.set) ∧
    (∀ x, x ∈ (init w s.chain).view.gap ↔ x ∈ s.view.gap) := by
  have a := (reach_inv hw h).view
  have b : ViewOk w s.chain (init w s.chain).view := (reach_inv hw (Reach.restart h)).view
  exact ⟨fun x => by rw [a.1 x, b.1 x], fun x => by rw [a.2 x, b.2 x]⟩

/-- The view's `set` is exactly the id set `TwoPhaseCommitVerifier` collects for the next block. -/
theorem view_agrees_with_verifier {w : Win} (hw : WinOk w) {s : Node} (h : Reach w s) (x : Nat) :
    x ∈ verifierIds w s.chain s.chain.length ↔ x ∈ s.view.set := by
  rw [mem_verifierIds hw, (reach_inv hw h).view.1 x]

/-- … hence the verifier accepts the commitments of block `tip+1` iff all are in the view's `set`. -/
theorem commit_rule_eq_view {w : Win} (hw : WinOk w) {s : Node} (h : Reach w s) (committed : Ids) :
    commitOk w s.chain s.chain.length committed = true ↔ ∀ x ∈ committed, x ∈ s.view.set := by
  simp only [commitOk, List.all_eq_true, List.contains_eq_mem, decide_eq_true_eq]
  constructor
  · intro hh x hx; exact (view_agrees_with_verifier hw h x).mp (hh x hx)
  · intro hh x hx; exact (view_agrees_with_verifier hw h x).mpr (hh x hx)

/-! ## non-vacuity: concrete reachable states with non-trivial views -/

/-- window (1,2); chain g,[1],[2,3],[4]; then a reorg to g,[1],[5],[6],[7]; then truncate to 2. -/
def exNode : Node :=
  let s0 := init ⟨1, 2⟩ [[]]
  let s1 := (switch ⟨1, 2⟩ s0 0 [[1]]).1
  let s2 := (switch ⟨1, 2⟩ s1 1 [[2, 3]]).1
  (switch ⟨1, 2⟩ s2 2 [[4]]).1

theorem exNode_reach : Reach ⟨1, 2⟩ exNode :=
  .switch 2 [[4]] (.switch 1 [[2, 3]] (.switch 0 [[1]] .boot (by decide)) (by decide)) (by decide)

example : exNode.view.set = [4, 2, 3] ∧ exNode.view.gap = [] := by decide
example : (switch ⟨1, 2⟩ exNode 1 [[5], [6], [7]]).1.view.set = [7, 6] := by decide
example : (switch ⟨1, 2⟩ exNode 1 [[5], [6], [7]]).2 = [4, 2, 3] := by decide
example : (switch ⟨1, 2⟩ exNode 2 []).1.view.set = [2, 3, 1] := by decide
example : (init ⟨1, 2⟩ exNode.chain).view.set = [4, 2, 3] := by decide
example : InSet ⟨1, 2⟩ exNode.chain 4 := ⟨3, by decide, by decide, by decide, by decide, by decide⟩
example : WinOk ⟨1, 2⟩ := ⟨by decide, by decide⟩
/-- default window (2,10), short chain: everything is still in the gap -/
example : (init defaultWin [[], [1]]).view.gap = [1] ∧ (init defaultWin [[], [1]]).view.set = [] := by decide
example : (init defaultWin [[], [1], [2]]).view.gap = [2] ∧ (init defaultWin [[], [1], [2]]).view.set = [1] := by decide

/-! ## the consumers of the view

`get_tx_status` (tx-pool/src/process.rs) files a transaction by the view: `set` first, then `gap`,
else fresh (`Window.txStatus`, as coded). `_update_tx_pool_for_reorg` moves the pooled entries
(`Window.stageAfter`). Both are tied by the node stream family `pool`. -/

/-- A transaction is filed Proposed (committable in the next block: staged, packaged into the block
template) exactly when its id is proposed at distance `w_close..w_far`, also when it is proposed AGAIN
closer than `w_close` (an id in both parts of the view is Proposed). -/
theorem status_proposed_iff_in_set {w : Win} (hw : WinOk w) {s : Node} (h : Reach w s) (x : Nat) :
    txStatus s.view x = .proposed ↔ InSet w s.chain x := by
  rw [txStatus_proposed_iff, (reach_inv hw h).view.1 x]

/-- … Gap exactly when it is proposed closer than `w_close` and nowhere in the committable part … -/
theorem status_gap_iff {w : Win} (hw : WinOk w) {s : Node} (h : Reach w s) (x : Nat) :
    txStatus s.view x = .gap ↔ InGap w s.chain x ∧ ¬ InSet w s.chain x := by
  rw [txStatus_gap_iff, (reach_inv hw h).view.1 x, (reach_inv hw h).view.2 x]

/-- … and fresh (pending) exactly when it is in no part of the window. -/
theorem status_fresh_iff {w : Win} (hw : WinOk w) {s : Node} (h : Reach w s) (x : Nat) :
    txStatus s.view x = .fresh ↔ ¬ InSet w s.chain x ∧ ¬ InGap w s.chain x := by
  rw [txStatus_fresh_iff, (reach_inv hw h).view.1 x, (reach_inv hw h).view.2 x]

/-- The pool and the block verifier agree: a transaction is filed Proposed iff the commit verifier
accepts a next block that commits it. -/
theorem status_proposed_iff_verifier_accepts {w : Win} (hw : WinOk w) {s : Node} (h : Reach w s)
    (x : Nat) :
    txStatus s.view x = .proposed ↔ commitOk w s.chain s.chain.length [x] = true := by
  rw [txStatus_proposed_iff, commit_rule_eq_view hw h]
  simp

/-- With the two tests of `get_tx_status` swapped, a re-proposed id (in `set` and in `gap`) is filed
Gap although it is committable (window (2,4); 7 proposed in blocks 1 and 3, next block 4). -/
theorem status_gap_first_misfiles :
    ∃ s, Reach ⟨2, 4⟩ s ∧ InSet ⟨2, 4⟩ s.chain 7 ∧ txStatus s.view 7 = .proposed ∧
      txStatusGapFirst s.view 7 = .gap :=
  ⟨(switch ⟨2, 4⟩ (init ⟨2, 4⟩ [[]]) 0 [[7], [], [7]]).1, .switch 0 _ .boot (by decide),
    ⟨1, by decide, by decide, by decide, by decide, by decide⟩, by decide, by decide⟩

/-- The pool's stage move on a main-chain change (`_update_tx_pool_for_reorg`, mine mode): an entry
whose stage before agreed with the old view on "Proposed" is Proposed afterwards exactly when its id
is committable on the new chain; in particular the entries moved back from Proposed are exactly
those whose ids left the window (`removed_eq_left_window`). -/
theorem stage_after_proposed_iff_in_set {w : Win} (hw : WinOk w) {s : Node} (h : Reach w s)
    {common : Nat} (hcommon : common < s.chain.length) (branch : List Ids) (st : Stage) (x : Nat)
    (hst : st = .proposed → InSet w s.chain x) :
    stageAfter (switch w s common branch).2 (switch w s common branch).1.view st x = .proposed ↔
      InSet w (switch w s common branch).1.chain x := by
  have hold := (reach_inv hw h).view.1
  have hnew := (reach_inv hw (Reach.switch common branch h hcommon)).view.1
  rw [← hnew x]
  apply stageAfter_proposed_iff (old := s.view)
  · simp only [CkbVerif.Window.switch]
    exact finalize_removed
  · intro e; exact (hold x).mpr (hst e)

/-! ## switch-back reorganisations (A → B → A')

`Window.switch w s common branch` takes ALL attached blocks in `branch`, whether they are new or were
attached (and verified) before: `update_proposal_table` inserts a row for each of them
(`fork.attached_blocks()`, not only the `fork.verified_len()..` suffix). So `Reach` already contains
every switch-back; the statements below make it explicit. -/

/-- Leaving the chain at `common` for any branch `b` and coming back (the old blocks above `common`
re-attached, then `ext`) restores the chain, extended by `ext`. -/
theorem switch_back_chain_eq {w : Win} {s : Node} {common : Nat} (hcommon : common < s.chain.length)
    (b ext : List Ids) :
    (switch w (switch w s common b).1 common (s.chain.drop (common + 1) ++ ext)).1.chain =
      s.chain ++ ext := by
  simp only [switch_chain]
  exact switch_back_chain hcommon b ext

/-- After A → B → A' the view is exactly the window of the restored chain `A ++ ext`: the ids of the
re-attached (previously verified) blocks are back in `set` / `gap`. -/
theorem switch_back_view {w : Win} (hw : WinOk w) {s : Node} (h : Reach w s) {common : Nat}
    (hcommon : common < s.chain.length) (b ext : List Ids) :
    let s' := (switch w (switch w s common b).1 common (s.chain.drop (common + 1) ++ ext)).1
    (∀ x, x ∈ s'.view.set ↔ InSet w (s.chain ++ ext) x) ∧
    (∀ x, x ∈ s'.view.gap ↔ InGap w (s.chain ++ ext) x) := by
  intro s'
  have hb : Reach w (switch w s common b).1 := .switch common b h hcommon
  have hc2 : common < (switch w s common b).1.chain.length := by
    rw [switch_chain, newChain_length hcommon]; omega
  have hr : Reach w s' := .switch common _ hb hc2
  have hv := view_eq_window_reach hw hr
  have hce : s'.chain = s.chain ++ ext := switch_back_chain_eq hcommon b ext
  rw [hce] at hv
  exact hv

/-- … hence the same as if the node had never left A (`switch` at the old tip with `ext`), and the
same as the view rebuilt at start-up from the restored chain. -/
theorem switch_back_eq_never_left {w : Win} (hw : WinOk w) {s : Node} (h : Reach w s) {common : Nat}
    (hcommon : common < s.chain.length) (b ext : List Ids) (x : Nat) :
    let s' := (switch w (switch w s common b).1 common (s.chain.drop (common + 1) ++ ext)).1
    (x ∈ s'.view.set ↔ x ∈ (switch w s (s.chain.length - 1) ext).1.view.set) ∧
    (x ∈ s'.view.gap ↔ x ∈ (switch w s (s.chain.length - 1) ext).1.view.gap) ∧
    (x ∈ s'.view.set ↔ x ∈ (init w (s.chain ++ ext)).view.set) ∧
    (x ∈ s'.view.gap ↔ x ∈ (init w (s.chain ++ ext)).view.gap) := by
  intro s'
  have hpos := (reach_inv hw h).chain.pos
  have hback := switch_back_view hw h hcommon b ext
  have hd : Reach w (switch w s (s.chain.length - 1) ext).1 := .switch _ ext h (by omega)
  have hdv := view_eq_window_reach hw hd
  have hdc : (switch w s (s.chain.length - 1) ext).1.chain = s.chain ++ ext := by
    rw [switch_chain]
    have : s.chain.length - 1 + 1 = s.chain.length := by omega
    rw [this, List.take_length]
  rw [hdc] at hdv
  have hr : Reach w s' := by
    have hb : Reach w (switch w s common b).1 := .switch common b h hcommon
    have hc2 : common < (switch w s common b).1.chain.length := by
      rw [switch_chain, newChain_length hcommon]; omega
    exact .switch common _ hb hc2
  have hi := init_eq_incremental hw hr
  have hce : s'.chain = s.chain ++ ext := switch_back_chain_eq hcommon b ext
  rw [hce] at hi
  exact ⟨by rw [hback.1 x, hdv.1 x], by rw [hback.2 x, hdv.2 x], (hi.1 x).symm, (hi.2 x).symm⟩

/-- A variant of `update_proposal_table` that skips the first `fork.verified_len()` attached blocks
loses their rows: window (1,5), main chain g,[9],[1],[2]; branch [3],[4],[5] from block 1 takes over;
the switch-back re-attaches [1],[2] (verified before) and attaches [6],[7]. The code as written has
1 and 2 in the committable set again, the variant has lost them — and a restart would bring them
back, so the variant's incremental view and the start-up view differ. -/
theorem skip_verified_loses_rows :
    let w : Win := ⟨1, 5⟩
    let sA := (switch w (init w [[]]) 0 [[9], [1], [2]]).1
    let sB := (switch w sA 1 [[3], [4], [5]]).1
    (switch w sB 1 [[1], [2], [6], [7]]).1.view.set = [9, 7, 6, 2, 1] ∧
    (switchSkip w sB 1 [[1], [2], [6], [7]] 2).1.view.set = [9, 7, 6] ∧
    (init w (switchSkip w sB 1 [[1], [2], [6], [7]] 2).1.chain).view.set = [7, 6, 2, 1, 9] := by
  decide

/-- A variant of the verifier's walk whose far end is computed from the parent's number accepts a
commitment at distance `w_far + 1`, one block after the view dropped the id (window (2,4), id 7
proposed in block 1, next block 6): the view and the variant disagree; the walk as coded agrees
(`view_agrees_with_verifier`). On a chain shorter than `w_far + 1` both clamp at genesis and the
difference is invisible. -/
theorem verifier_from_parent_disagrees :
    let w : Win := ⟨2, 4⟩
    let s := (switch w (init w [[]]) 0 [[7], [], [], [], []]).1
    s.view.set = [] ∧ verifierIds w s.chain s.chain.length = [] ∧
    verifierIdsFromParent w s.chain s.chain.length = [7] := by
  decide

/-! non-vacuity of the consumer / switch-back statements -/
example : txStatus exNode.view 4 = .proposed ∧ txStatus exNode.view 1 = .fresh := by decide
example : txStatus (switch ⟨2, 4⟩ (init ⟨2, 4⟩ [[]]) 0 [[7], [], [8]]).1.view 8 = .gap := by decide
example : stageAfter (switch ⟨1, 2⟩ exNode 1 [[5], [6], [7]]).2
    (switch ⟨1, 2⟩ exNode 1 [[5], [6], [7]]).1.view .proposed 4 = .pending := by decide
example : stageAfter (switch ⟨1, 2⟩ exNode 1 [[5], [6], [7]]).2
    (switch ⟨1, 2⟩ exNode 1 [[5], [6], [7]]).1.view .pending 7 = .proposed := by decide
/-- switch-back on `exNode` (chain g,[1],[2,3],[4]): B = [5],[6],[7] from block 1, back with ext [8] -/
example : (switch ⟨1, 2⟩ (switch ⟨1, 2⟩ exNode 1 [[5], [6], [7]]).1 1
    (exNode.chain.drop 2 ++ [[8]])).1.chain = [[], [1], [2, 3], [4], [8]] := by decide
example : (switch ⟨1, 2⟩ (switch ⟨1, 2⟩ exNode 1 [[5], [6], [7]]).1 1
    (exNode.chain.drop 2 ++ [[8]])).1.view.set = [8, 4] := by decide

/-- Why `ChainOk.genesis` is needed: with a proposal in the genesis block the start-up view offers
it as committable while the verifier (which stops at genesis) would reject it. -/
example : (init defaultWin [[7], [1], [2]]).view.set = [1, 7] ∧ verifierIds defaultWin [[7], [1], [2]] 3 = [1] := by decide

end CkbVerif.C20
