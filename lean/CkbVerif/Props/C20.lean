import CkbVerif.Lemmas.Window
import CkbVerif.Lemmas.WindowConsumers
import CkbVerif.Lemmas.WindowPool
import CkbVerif.Lemmas.WindowBlocks
import CkbVerif.Lemmas.WindowTable

/-!
# C20 — the node's proposal view equals the on-chain proposal window, also after restart

Model: `CkbVerif/Model/Window.lean` (`ProposalTable::finalize`, `update_proposal_table` +
`reload_proposal_table` + `finalize` as run by `verify_block`/`truncate`, `init_proposal_table`,
`TwoPhaseCommitVerifier`'s walk). A main chain is a `List Ids` (element `n` = own + uncles' proposal
ids of block `n`). The spec side:

* `InSet w chain x` — `x` is proposed in a non-genesis main-chain block `n` with
  `w.close ≤ chain.length − n ≤ w.far` (distance to the next block, whose number is `chain.length`);
* `InGap w chain x` — the same with distance `< w.close`.

The consumers of the view are in `CkbVerif/Model/WindowConsumers.lean`: `txStatus` (`get_tx_status`
of the tx-pool: `set` first, then `gap`, else fresh), `stageAfter` (the per-entry stage move of
`_update_tx_pool_for_reorg`), and three variants used only as decided witnesses (`txStatusGapFirst`,
`switchSkip`, `verifierIdsFromParent`).

`CkbVerif/Model/WindowPool.lean` has the whole-pool transition (`poolSubmit` = `_submit_entry`,
`poolReorg` = `update_tx_pool_for_reorg`, `pswitch` = a main-chain change with the pool notified) and
`CkbVerif/Model/WindowBlocks.lean` blocks with embedded uncles (`Blk.unionIds` =
`BlockView::union_proposal_ids`, `Blk.gatherIds` = the two-store-column loops of `init_proposal_table`
and of the commit verifier).

Everything is parametric in the window, under `WinOk w : 1 ≤ w.close ≤ w.far`; the generated
consensus default satisfies it (`default_window_ok`). `ChainOk` = the chain is non-empty and the
genesis block carries no proposal ids (true of every chain spec; the last `example` shows the view
and the verifier differ without it — the code inserts block 0 at start-up and the verifier stops
at genesis).
-/
namespace CkbVerif.C20
open CkbVerif.Window

/-- States reachable by the node: first start on a genesis-only store, then any sequence of
main-chain changes (extension, reorganisation of any depth to a branch of any length, truncation)
and restarts. -/
inductive Reach (w : Win) : Node → Prop
  | boot : Reach w (init w [[]])
  | switch {s : Node} (common : Nat) (branch : List Ids) :
      Reach w s → common < s.chain.length → Reach w (switch w s common branch).1
  | restart {s : Node} : Reach w s → Reach w (init w s.chain)

/-- The window constants regenerated from `spec/src/consensus.rs` are admissible. -/
theorem default_window_ok : WinOk defaultWin := by
  constructor <;> decide

/-- `finalize` at the tip of `chain`, on a table that is accurate for the main chain and covers
the last `w.far` blocks, returns exactly the window: `set` = ids at distance `w.close..w.far`,
`gap` = ids closer than `w.close`; including the short-chain branch and saturating bounds. -/
theorem view_eq_window {w : Win} (hw : WinOk w) {chain : List Ids} (hc : ChainOk chain)
    {t : Table} (hacc : Acc chain t) (hcov : Cov w chain t) (origin : View) :
    (∀ x, x ∈ (finalize w t origin (chain.length - 1)).2.2.set ↔ InSet w chain x) ∧
    (∀ x, x ∈ (finalize w t origin (chain.length - 1)).2.2.gap ↔ InGap w chain x) :=
  (finalize_spec hw hc hacc hcov origin).2.2

/-- The table invariant is preserved by every main-chain change: remove detached, insert attached,
`reload_proposal_table`'s range, `finalize`'s `split_off`. -/
theorem table_inv_step {w : Win} (hw : WinOk w) {s : Node} (h : Inv w s) {common : Nat}
    (hcommon : common < s.chain.length) (branch : List Ids) :
    Inv w (switch w s common branch).1 :=
  h.switch hw hcommon branch

/-- … and established by the start-up reconstruction from any stored chain. -/
theorem table_inv_init {w : Win} (hw : WinOk w) {chain : List Ids} (hc : ChainOk chain) :
    Inv w (init w chain) :=
  Inv.init hw hc

/-- The invariant holds in every reachable state (induction over the operation sequence). -/
theorem reach_inv {w : Win} (hw : WinOk w) {s : Node} (h : Reach w s) : Inv w s := by
  induction h with
  | boot => exact Inv.init hw ⟨by decide, by decide⟩
  | switch common branch _ hc ih => exact ih.switch hw hc branch
  | restart _ ih => exact Inv.init hw ih.chain

/-- **Headline.** In every reachable state the node's view is exactly the on-chain window. -/
theorem view_eq_window_reach {w : Win} (hw : WinOk w) {s : Node} (h : Reach w s) :
    (∀ x, x ∈ s.view.set ↔ InSet w s.chain x) ∧ (∀ x, x ∈ s.view.gap ↔ InGap w s.chain x) :=
  (reach_inv hw h).view

/-- The ids handed to the pool as `detached_proposal_id` are exactly those that were committable
before the change and are no longer committable after it. -/
theorem removed_eq_left_window {w : Win} (hw : WinOk w) {s : Node} (h : Reach w s) {common : Nat}
    (hcommon : common < s.chain.length) (branch : List Ids) (x : Nat) :
    x ∈ (switch w s common branch).2 ↔
      InSet w s.chain x ∧ ¬ InSet w (switch w s common branch).1.chain x := by
  have hold := (reach_inv hw h).view.1
  have hnew := (reach_inv hw (Reach.switch common branch h hcommon)).view.1
  have : x ∈ (switch w s common branch).2 ↔
      x ∈ s.view.set ∧ x ∉ (switch w s common branch).1.view.set := by
    simp only [CkbVerif.Window.switch]
    exact finalize_removed
  rw [this, hold x, hnew x]

/-- The view rebuilt from the store at start-up equals the incrementally maintained one, at every
reachable state (so a restart at any height is invisible). -/
theorem init_eq_incremental {w : Win} (hw : WinOk w) {s : Node} (h : Reach w s) :
    (∀ x, x ∈ (init w s.chain).view.set ↔ x ∈ s.view.set) ∧
    (∀ x, x ∈ (init w s.chain).view.gap ↔ x ∈ s.view.gap) := by
  have a := (reach_inv hw h).view
  have b : ViewOk w s.chain (init w s.chain).view := (reach_inv hw (Reach.restart h)).view
  exact ⟨fun x => by rw [a.1 x, b.1 x], fun x => by rw [a.2 x, b.2 x]⟩

/-- The view's `set` is exactly the id set `TwoPhaseCommitVerifier` collects for the next block. -/
theorem view_agrees_with_verifier {w : Win} (hw : WinOk w) {s : Node} (h : Reach w s) (x : Nat) :
    x ∈ verifierIds w s.chain s.chain.length ↔ x ∈ s.view.set := by
  rw [mem_verifierIds hw, (reach_inv hw h).view.1 x]

/-- … hence the verifier accepts the commitments of block `tip+1` iff all are in the view's `set`. -/
theorem commit_rule_eq_view {w : Win} (hw : WinOk w) {s : Node} (h : Reach w s) (committed : Ids) :
    commitOk w s.chain s.chain.length committed = true ↔ ∀ x ∈ committed, x ∈ s.view.set := by
  simp only [commitOk, List.all_eq_true, List.contains_eq_mem, decide_eq_true_eq]
  constructor
  · intro hh x hx; exact (view_agrees_with_verifier hw h x).mp (hh x hx)
  · intro hh x hx; exact (view_agrees_with_verifier hw h x).mpr (hh x hx)

/-! ## non-vacuity: concrete reachable states with non-trivial views -/

/-- window (1,2); chain g,[1],[2,3],[4]; then a reorg to g,[1],[5],[6],[7]; then truncate to 2. -/
def exNode : Node :=
  let s0 := init ⟨1, 2⟩ [[]]
  let s1 := (switch ⟨1, 2⟩ s0 0 [[1]]).1
  let s2 := (switch ⟨1, 2⟩ s1 1 [[2, 3]]).1
  (switch ⟨1, 2⟩ s2 2 [[4]]).1

theorem exNode_reach : Reach ⟨1, 2⟩ exNode :=
  .switch 2 [[4]] (.switch 1 [[2, 3]] (.switch 0 [[1]] .boot (by decide)) (by decide)) (by decide)

example : exNode.view.set = [4, 2, 3] ∧ exNode.view.gap = [] := by decide
example : (switch ⟨1, 2⟩ exNode 1 [[5], [6], [7]]).1.view.set = [7, 6] := by decide
example : (switch ⟨1, 2⟩ exNode 1 [[5], [6], [7]]).2 = [4, 2, 3] := by decide
example : (switch ⟨1, 2⟩ exNode 2 []).1.view.set = [2, 3, 1] := by decide
example : (init ⟨1, 2⟩ exNode.chain).view.set = [4, 2, 3] := by decide
example : InSet ⟨1, 2⟩ exNode.chain 4 := ⟨3, by decide, by decide, by decide, by decide, by decide⟩
example : WinOk ⟨1, 2⟩ := ⟨by decide, by decide⟩
/-- default window (2,10), short chain: everything is still in the gap -/
example : (init defaultWin [[], [1]]).view.gap = [1] ∧ (init defaultWin [[], [1]]).view.set = [] := by decide
example : (init defaultWin [[], [1], [2]]).view.gap = [2] ∧ (init defaultWin [[], [1], [2]]).view.set = [1] := by decide

/-! ## the consumers of the view

`get_tx_status` (tx-pool/src/process.rs) files a transaction by the view: `set` first, then `gap`,
else fresh (`Window.txStatus`, as coded). `_update_tx_pool_for_reorg` moves the pooled entries
(`Window.stageAfter`). Both are tied by the node stream family `pool`. -/

/-- A transaction is filed Proposed (committable in the next block: staged, packaged into the block
template) exactly when its id is proposed at distance `w_close..w_far`, also when it is proposed AGAIN
closer than `w_close` (an id in both parts of the view is Proposed). -/
theorem status_proposed_iff_in_set {w : Win} (hw : WinOk w) {s : Node} (h : Reach w s) (x : Nat) :
    txStatus s.view x = .proposed ↔ InSet w s.chain x := by
  rw [txStatus_proposed_iff, (reach_inv hw h).view.1 x]

/-- … Gap exactly when it is proposed closer than `w_close` and nowhere in the committable part … -/
theorem status_gap_iff {w : Win} (hw : WinOk w) {s : Node} (h : Reach w s) (x : Nat) :
    txStatus s.view x = .gap ↔ InGap w s.chain x ∧ ¬ InSet w s.chain x := by
  rw [txStatus_gap_iff, (reach_inv hw h).view.1 x, (reach_inv hw h).view.2 x]

/-- … and fresh (pending) exactly when it is in no part of the window. -/
theorem status_fresh_iff {w : Win} (hw : WinOk w) {s : Node} (h : Reach w s) (x : Nat) :
    txStatus s.view x = .fresh ↔ ¬ InSet w s.chain x ∧ ¬ InGap w s.chain x := by
  rw [txStatus_fresh_iff, (reach_inv hw h).view.1 x, (reach_inv hw h).view.2 x]

/-- The pool and the block verifier agree: a transaction is filed Proposed iff the commit verifier
accepts a next block that commits it. -/
theorem status_proposed_iff_verifier_accepts {w : Win} (hw : WinOk w) {s : Node} (h : Reach w s)
    (x : Nat) :
    txStatus s.view x = .proposed ↔ commitOk w s.chain s.chain.length [x] = true := by
  rw [txStatus_proposed_iff, commit_rule_eq_view hw h]
  simp

/-- With the two tests of `get_tx_status` swapped, a re-proposed id (in `set` and in `gap`) is filed
Gap although it is committable (window (2,4); 7 proposed in blocks 1 and 3, next block 4). -/
theorem status_gap_first_misfiles :
    ∃ s, Reach ⟨2, 4⟩ s ∧ InSet ⟨2, 4⟩ s.chain 7 ∧ txStatus s.view 7 = .proposed ∧
      txStatusGapFirst s.view 7 = .gap :=
  ⟨(switch ⟨2, 4⟩ (init ⟨2, 4⟩ [[]]) 0 [[7], [], [7]]).1, .switch 0 _ .boot (by decide),
    ⟨1, by decide, by decide, by decide, by decide, by decide⟩, by decide, by decide⟩

/-- The pool's stage move on a main-chain change (`_update_tx_pool_for_reorg`, mine mode): an entry
whose stage before agreed with the old view on "Proposed" is Proposed afterwards exactly when its id
is committable on the new chain; in particular the entries moved back from Proposed are exactly
those whose ids left the window (`removed_eq_left_window`). -/
theorem stage_after_proposed_iff_in_set {w : Win} (hw : WinOk w) {s : Node} (h : Reach w s)
    {common : Nat} (hcommon : common < s.chain.length) (branch : List Ids) (st : Stage) (x : Nat)
    (hst : st = .proposed → InSet w s.chain x) :
    stageAfter (switch w s common branch).2 (switch w s common branch).1.view st x = .proposed ↔
      InSet w (switch w s common branch).1.chain x := by
  have hold := (reach_inv hw h).view.1
  have hnew := (reach_inv hw (Reach.switch common branch h hcommon)).view.1
  rw [← hnew x]
  apply stageAfter_proposed_iff (old := s.view)
  · simp only [CkbVerif.Window.switch]
    exact finalize_removed
  · intro e; exact (hold x).mpr (hst e)

/-! ## switch-back reorganisations (A → B → A')

`Window.switch w s common branch` takes ALL attached blocks in `branch`, whether they are new or were
attached (and verified) before: `update_proposal_table` inserts a row for each of them
(`fork.attached_blocks()`, not only the `fork.verified_len()..` suffix). So `Reach` already contains
every switch-back; the statements below make it explicit. -/

/-- Leaving the chain at `common` for any branch `b` and coming back (the old blocks above `common`
re-attached, then `ext`) restores the chain, extended by `ext`. -/
theorem switch_back_chain_eq {w : Win} {s : Node} {common : Nat} (hcommon : common < s.chain.length)
    (b ext : List Ids) :
    (switch w (switch w s common b).1 common (s.chain.drop (common + 1) ++ ext)).1.chain =
      s.chain ++ ext := by
  simp only [switch_chain]
  exact switch_back_chain hcommon b ext

/-- After A → B → A' the view is exactly the window of the restored chain `A ++ ext`: the ids of the
re-attached (previously verified) blocks are back in `set` / `gap`. -/
theorem switch_back_view {w : Win} (hw : WinOk w) {s : Node} (h : Reach w s) {common : Nat}
    (hcommon : common < s.chain.length) (b ext : List Ids) :
    let s' := (switch w (switch w s common b).1 common (s.chain.drop (common + 1) ++ ext)).1
    (∀ x, x ∈ s'.view.set ↔ InSet w (s.chain ++ ext) x) ∧
    (∀ x, x ∈ s'.view.gap ↔ InGap w (s.chain ++ ext) x) := by
  intro s'
  have hb : Reach w (switch w s common b).1 := .switch common b h hcommon
  have hc2 : common < (switch w s common b).1.chain.length := by
    rw [switch_chain, newChain_length hcommon]; omega
  have hr : Reach w s' := .switch common _ hb hc2
  have hv := view_eq_window_reach hw hr
  have hce : s'.chain = s.chain ++ ext := switch_back_chain_eq hcommon b ext
  rw [hce] at hv
  exact hv

/-- … hence the same as if the node had never left A (`switch` at the old tip with `ext`), and the
same as the view rebuilt at start-up from the restored chain. -/
theorem switch_back_eq_never_left {w : Win} (hw : WinOk w) {s : Node} (h : Reach w s) {common : Nat}
    (hcommon : common < s.chain.length) (b ext : List Ids) (x : Nat) :
    let s' := (switch w (switch w s common b).1 common (s.chain.drop (common + 1) ++ ext)).1
    (x ∈ s'.view.set ↔ x ∈ (switch w s (s.chain.length - 1) ext).1.view.set) ∧
    (x ∈ s'.view.gap ↔ x ∈ (switch w s (s.chain.length - 1) ext).1.view.gap) ∧
    (x ∈ s'.view.set ↔ x ∈ (init w (s.chain ++ ext)).view.set) ∧
    (x ∈ s'.view.gap ↔ x ∈ (init w (s.chain ++ ext)).view.gap) := by
  intro s'
  have hpos := (reach_inv hw h).chain.pos
  have hback := switch_back_view hw h hcommon b ext
  have hd : Reach w (switch w s (s.chain.length - 1) ext).1 := .switch _ ext h (by omega)
  have hdv := view_eq_window_reach hw hd
  have hdc : (switch w s (s.chain.length - 1) ext).1.chain = s.chain ++ ext := by
    rw [switch_chain]
    have : s.chain.length - 1 + 1 = s.chain.length := by omega
    rw [this, List.take_length]
  rw [hdc] at hdv
  have hr : Reach w s' := by
    have hb : Reach w (switch w s common b).1 := .switch common b h hcommon
    have hc2 : common < (switch w s common b).1.chain.length := by
      rw [switch_chain, newChain_length hcommon]; omega
    exact .switch common _ hb hc2
  have hi := init_eq_incremental hw hr
  have hce : s'.chain = s.chain ++ ext := switch_back_chain_eq hcommon b ext
  rw [hce] at hi
  exact ⟨by rw [hback.1 x, hdv.1 x], by rw [hback.2 x, hdv.2 x], (hi.1 x).symm, (hi.2 x).symm⟩

/-- Heavier-but-shorter branches: `Reach.switch` takes a branch of ANY length, so a reorganisation
that moves the tip to a LOWER block number (fewer attached than detached blocks;
`reload_proposal_table` with `new_tip < old tip`, `finalize` at a lower number) is covered by all the
statements about `Reach`. Explicitly: the chain gets shorter and the view is exactly the window of the shorter
chain. -/
theorem switch_to_shorter_view {w : Win} (hw : WinOk w) {s : Node} (h : Reach w s) {common : Nat}
    (hcommon : common < s.chain.length) (branch : List Ids)
    (hshorter : common + 1 + branch.length < s.chain.length) :
    let s' := (switch w s common branch).1
    s'.chain.length < s.chain.length ∧
    (∀ x, x ∈ s'.view.set ↔ InSet w (s.chain.take (common + 1) ++ branch) x) ∧
    (∀ x, x ∈ s'.view.gap ↔ InGap w (s.chain.take (common + 1) ++ branch) x) := by
  intro s'
  have hv := view_eq_window_reach hw (Reach.switch common branch h hcommon)
  refine ⟨?_, hv.1, hv.2⟩
  show (s.chain.take (common + 1) ++ branch).length < s.chain.length
  rw [newChain_length hcommon]; exact hshorter

/-- window (1,2), chain g,[1],[2,3],[4] (tip 3): a one-block branch from block 1 (tip 2) takes over -/
example : (switch ⟨1, 2⟩ exNode 1 [[5]]).1.chain.length = 3 ∧
    (switch ⟨1, 2⟩ exNode 1 [[5]]).1.view.set = [1, 5] ∧ (switch ⟨1, 2⟩ exNode 1 [[5]]).2 = [4, 2, 3] := by
  decide

/-- A variant of `update_proposal_table` that skips the first `fork.verified_len()` attached blocks
loses their rows: window (1,5), main chain g,[9],[1],[2]; branch [3],[4],[5] from block 1 takes over;
the switch-back re-attaches [1],[2] (verified before) and attaches [6],[7]. The code as written has
1 and 2 in the committable set again, the variant has lost them — and a restart would bring them
back, so the variant's incremental view and the start-up view differ. -/
theorem skip_verified_loses_rows :
    let w : Win := ⟨1, 5⟩
    let sA := (switch w (init w [[]]) 0 [[9], [1], [2]]).1
    let sB := (switch w sA 1 [[3], [4], [5]]).1
    (switch w sB 1 [[1], [2], [6], [7]]).1.view.set = [9, 7, 6, 2, 1] ∧
    (switchSkip w sB 1 [[1], [2], [6], [7]] 2).1.view.set = [9, 7, 6] ∧
    (init w (switchSkip w sB 1 [[1], [2], [6], [7]] 2).1.chain).view.set = [7, 6, 2, 1, 9] := by
  decide

/-- A variant of the verifier's walk whose far end is computed from the parent's number accepts a
commitment at distance `w_far + 1`, one block after the view dropped the id (window (2,4), id 7
proposed in block 1, next block 6): the view and the variant disagree; the walk as coded agrees
(`view_agrees_with_verifier`). On a chain shorter than `w_far + 1` both clamp at genesis and the
difference is invisible. -/
theorem verifier_from_parent_disagrees :
    let w : Win := ⟨2, 4⟩
    let s := (switch w (init w [[]]) 0 [[7], [], [], [], []]).1
    s.view.set = [] ∧ verifierIds w s.chain s.chain.length = [] ∧
    verifierIdsFromParent w s.chain s.chain.length = [7] := by
  decide

/-! non-vacuity of the consumer / switch-back statements -/
example : txStatus exNode.view 4 = .proposed ∧ txStatus exNode.view 1 = .fresh := by decide
example : txStatus (switch ⟨2, 4⟩ (init ⟨2, 4⟩ [[]]) 0 [[7], [], [8]]).1.view 8 = .gap := by decide
example : stageAfter (switch ⟨1, 2⟩ exNode 1 [[5], [6], [7]]).2
    (switch ⟨1, 2⟩ exNode 1 [[5], [6], [7]]).1.view .proposed 4 = .pending := by decide
example : stageAfter (switch ⟨1, 2⟩ exNode 1 [[5], [6], [7]]).2
    (switch ⟨1, 2⟩ exNode 1 [[5], [6], [7]]).1.view .pending 7 = .proposed := by decide
/-- switch-back on `exNode` (chain g,[1],[2,3],[4]): B = [5],[6],[7] from block 1, back with ext [8] -/
example : (switch ⟨1, 2⟩ (switch ⟨1, 2⟩ exNode 1 [[5], [6], [7]]).1 1
    (exNode.chain.drop 2 ++ [[8]])).1.chain = [[], [1], [2, 3], [4], [8]] := by decide
example : (switch ⟨1, 2⟩ (switch ⟨1, 2⟩ exNode 1 [[5], [6], [7]]).1 1
    (exNode.chain.drop 2 ++ [[8]])).1.view.set = [8, 4] := by decide

/-! ## every window size: the saturating region near genesis and windows that reach past genesis

`finalize` computes `candidate − w_far` and `candidate − w_close` with `saturating_sub`, takes the
`candidate ≤ w_close` branch on short chains, and `init_proposal_table` starts at
`tip.saturating_sub(w_far)`. The headline theorems hold for every `1 ≤ w_close ≤ w_far` and every
chain length; the statements below spell out what they mean where the arithmetic saturates. -/

/-- While the next block's number is at most `w_close` (the `candidate_number <= closest` branch of
`finalize`) nothing is committable and EVERY proposal id of the non-genesis main chain is in the gap,
in every reachable state — also after a truncation down into this region and after a restart. -/
theorem view_below_close {w : Win} (hw : WinOk w) {s : Node} (h : Reach w s)
    (hshort : s.chain.length ≤ w.close) (x : Nat) :
    x ∉ s.view.set ∧ (x ∈ s.view.gap ↔ ∃ n, 1 ≤ n ∧ n < s.chain.length ∧ x ∈ idsAt s.chain n) := by
  have hv := view_eq_window_reach hw h
  constructor
  · rw [hv.1 x]
    rintro ⟨n, h1, h2, h3, _⟩; omega
  · rw [hv.2 x]
    constructor
    · rintro ⟨n, h1, h2, _, hx⟩; exact ⟨n, h1, h2, hx⟩
    · rintro ⟨n, h1, h2, hx⟩; exact ⟨n, h1, h2, by omega, hx⟩

/-- While the window still reaches down to block 1 (`candidate − w_far` saturates: the next block's
number is at most `w_far`, in particular whenever `w_far ≥ tip + 1`) the committable set is the ids
of ALL non-genesis blocks up to `candidate − w_close`: nothing has expired yet. -/
theorem view_far_reaches_genesis {w : Win} (hw : WinOk w) {s : Node} (h : Reach w s)
    (hfar : s.chain.length ≤ w.far) (x : Nat) :
    x ∈ s.view.set ↔ ∃ n, 1 ≤ n ∧ n + w.close ≤ s.chain.length ∧ x ∈ idsAt s.chain n := by
  rw [(view_eq_window_reach hw h).1 x]
  have := hw.close_pos
  constructor
  · rintro ⟨n, h1, _, h3, _, hx⟩; exact ⟨n, h1, h3, hx⟩
  · rintro ⟨n, h1, h3, hx⟩; exact ⟨n, h1, by omega, h3, by omega, hx⟩

/-- … hence an extension that keeps the next block's number within `w_far` reports no dropped id
(`detached_proposal_id` is empty): expiry starts exactly when the chain outgrows the window. -/
theorem no_expiry_while_far_reaches_genesis {w : Win} (hw : WinOk w) {s : Node} (h : Reach w s)
    (ext : List Ids) (hfar : s.chain.length + ext.length ≤ w.far) (x : Nat) :
    x ∉ (switch w s (s.chain.length - 1) ext).2 := by
  have hpos := (reach_inv hw h).chain.pos
  have hc : s.chain.length - 1 < s.chain.length := by omega
  rw [removed_eq_left_window hw h hc]
  rintro ⟨⟨n, h1, h2, h3, h4, hx⟩, hnot⟩
  apply hnot
  have hce : (switch w s (s.chain.length - 1) ext).1.chain = s.chain ++ ext := by
    rw [switch_chain]
    have : s.chain.length - 1 + 1 = s.chain.length := by omega
    rw [this, List.take_length]
  rw [hce]
  refine ⟨n, h1, by simp; omega, by simp; omega, by simp; omega, ?_⟩
  simp only [idsAt, List.getD_eq_getElem?_getD] at hx ⊢
  rw [List.getElem?_append_left h2]
  exact hx

/-- The table the chain service keeps holds only rows of the current main chain inside the window
(plus possibly the genesis row, which start-up inserts while `tip ≤ w_far`): a row's number `n` is
below the next block's number and within `w_far` of it. Together with `reach_inv` (rows are accurate,
the window is covered) the table is exactly the window's rows in every reachable state. -/
theorem table_rows_in_window {w : Win} (hw : WinOk w) {s : Node} (h : Reach w s) {n : Nat} {ids : Ids}
    (hm : (n, ids) ∈ s.table) :
    n < s.chain.length ∧ (n = 0 ∨ s.chain.length ≤ n + w.far) ∧ idsAt s.chain n = ids := by
  have hacc := (reach_inv hw h).acc n ids hm
  have hlt : n < s.chain.length := by
    rcases Nat.lt_or_ge n s.chain.length with h' | h'
    · exact h'
    · rw [List.getElem?_eq_none h'] at hacc; cases hacc
  refine ⟨hlt, ?_, idsAt_of_getElem? hacc⟩
  -- the table of every reachable state is the result of `finalize` at its tip
  have key : ∀ (t : Table) (o : View) (L : Nat), 0 < L → (n, ids) ∈ (finalize w t o (L - 1)).1 →
      n = 0 ∨ L ≤ n + w.far := by
    intro t o L hL hmem
    have := (mem_finalize_table.mp hmem).2
    simp only at this
    omega
  cases h with
  | boot => exact key _ {} ([[]] : List Ids).length (by decide) hm
  | switch common branch hs hc =>
    rename_i s0
    have hlen := newChain_length hc branch
    have hL : (switch w s0 common branch).1.chain.length = common + 1 + branch.length := by
      rw [switch_chain]; exact hlen
    rw [hL]
    have := key (updateTable w s0.table (s0.chain.length - 1) common branch
      (s0.chain.take (common + 1) ++ branch)) s0.view (common + 1 + branch.length) (by omega)
    apply this
    have e : common + 1 + branch.length - 1 = common + branch.length := by omega
    rw [e]
    exact hm
  | restart hs =>
    rename_i s0
    have hpos := (reach_inv hw hs).chain.pos
    exact key _ {} _ hpos hm

/-- Block numbers occur at most once in the table of every reachable state (the association list
behaves like the `BTreeMap`). -/
theorem table_keys_nodup {w : Win} {s : Node} (h : Reach w s) : (Table.keys s.table).Nodup := by
  induction h with
  | boot => exact nodup_init
  | switch common branch _ _ ih => exact nodup_switch ih
  | restart _ _ => exact nodup_init

/-- **Memory bound.** The table never holds more than `w_far + 1` rows, whatever the history
(`finalize`'s `split_off`, the removal of detached rows and the reload range together keep it inside
the window: `table_rows_in_window`, `table_keys_nodup`). -/
theorem table_size_le {w : Win} (hw : WinOk w) {s : Node} (h : Reach w s) :
    s.table.length ≤ w.far + 1 := by
  have hk := table_keys_nodup h
  have hlen : s.table.length = (Table.keys s.table).length := by simp [Table.keys]
  rw [hlen]
  have h1 := length_le_filter_ne_succ 0 hk
  have h2 : ((Table.keys s.table).filter (fun x => x != 0)).length ≤ w.far := by
    apply length_le_of_nodup_interval w.far (s.chain.length - w.far)
    · exact List.Nodup.sublist List.filter_sublist hk
    · intro x hx
      rw [List.mem_filter] at hx
      have hne : x ≠ 0 := by simpa using hx.2
      simp only [Table.keys, List.mem_map] at hx
      obtain ⟨⟨⟨n, ids⟩, hm, rfl⟩, _⟩ := hx
      have := table_rows_in_window hw h hm
      simp only at hne ⊢
      omega
  omega

example : exNode.table.length = 2 ∧ Table.keys exNode.table = [3, 2] := by decide

/-! ## the tx-pool as a consumer: the whole-pool stage transition, for every view delta

`Window.poolReorg` is `update_tx_pool_for_reorg` (remove committed, `remove_by_detached_proposal`,
the mine-mode moves, `readd_detached_tx`), `Window.pswitch` is a main-chain change with the pool
notified, `Window.psubmit` a submission (`Model/WindowPool.lean`). `PReach` = node and pool together
through any sequence of submissions and main-chain changes (reorganisations of any depth, to longer
or shorter branches, with any committed transactions). -/

inductive PReach (w : Win) : PNode → Prop
  | boot : PReach w (pboot w)
  | submit {s : PNode} (x : Nat) : PReach w s → PReach w (psubmit s x)
  | switch {s : PNode} (common : Nat) (branch bcommits : List Ids) :
      PReach w s → common < s.node.chain.length → PReach w (pswitch w s common branch bcommits)

/-- what the property asks of a pooled entry: Proposed exactly when its id is committable in the
next block, and never Pending while its id is in the gap part. (A Gap entry outside the window is
possible in the code as written — `pool_stale_gap_reachable` — and is C12's finding, not C20's.) -/
def StageOk (w : Win) (chain : List Ids) (e : Nat × Stage) : Prop :=
  (e.2 = .proposed ↔ InSet w chain e.1) ∧ (e.2 = .pending → ¬ InGap w chain e.1)

theorem preach_node {w : Win} {s : PNode} (h : PReach w s) : Reach w s.node := by
  induction h with
  | boot => exact .boot
  | submit x _ ih => exact ih
  | switch common branch bcommits _ hc ih => exact .switch common branch ih hc

/-- A submission is filed exactly by the on-chain window: Proposed iff committable, Gap iff only in
the gap part, Pending iff in neither (`_submit_entry` ∘ `get_tx_status`). -/
theorem submit_stage_exact {w : Win} (hw : WinOk w) {s : Node} (h : Reach w s) (x : Nat) :
    ((txStatus s.view x).stage = .proposed ↔ InSet w s.chain x) ∧
    ((txStatus s.view x).stage = .gap ↔ InGap w s.chain x ∧ ¬ InSet w s.chain x) ∧
    ((txStatus s.view x).stage = .pending ↔ ¬ InSet w s.chain x ∧ ¬ InGap w s.chain x) := by
  have hv := (reach_inv hw h).view
  refine ⟨?_, ?_, ?_⟩
  · rw [submit_stage_proposed_iff, hv.1 x]
  · rw [submit_stage_gap_iff, hv.1 x, hv.2 x]
  · rw [submit_stage_pending_iff, hv.1 x, hv.2 x]

/-- **The per-entry stage transition function, for every view delta** (any reachable state, any
main-chain change): the stage after `_update_tx_pool_for_reorg` as a function of the stage before and
of the id's membership in the old and new on-chain windows. Proposed iff committable on the new
chain; Gap iff not committable and (in the new gap part, or it was Gap and not committable before);
Pending iff in neither part of the new window and not a Gap entry that stays. -/
theorem stage_after_exact {w : Win} (hw : WinOk w) {s : Node} (h : Reach w s)
    {common : Nat} (hcommon : common < s.chain.length) (branch : List Ids) (st : Stage) (x : Nat)
    (hst : st = .proposed → InSet w s.chain x) :
    let s' := (switch w s common branch).1
    let st' := stageAfter (switch w s common branch).2 s'.view st x
    (st' = .proposed ↔ InSet w s'.chain x) ∧
    (st' = .gap ↔ ¬ InSet w s'.chain x ∧ (InGap w s'.chain x ∨ (st = .gap ∧ ¬ InSet w s.chain x))) ∧
    (st' = .pending ↔ ¬ InSet w s'.chain x ∧ ¬ InGap w s'.chain x ∧ (st = .gap → InSet w s.chain x)) := by
  intro s' st'
  have hold := (reach_inv hw h).view.1
  have hnew := (reach_inv hw (Reach.switch common branch h hcommon)).view
  have hrem : x ∈ (switch w s common branch).2 ↔ x ∈ s.view.set ∧ x ∉ s'.view.set := by
    simp only [s', CkbVerif.Window.switch]
    exact finalize_removed
  have hst' : st = .proposed → x ∈ s.view.set := fun e => (hold x).mpr (hst e)
  refine ⟨?_, ?_, ?_⟩
  · rw [← hnew.1 x]; exact stageAfter_proposed_iff hrem hst'
  · rw [← hnew.1 x, ← hnew.2 x, ← hold x]; exact stageAfter_gap_iff hrem hst'
  · rw [← hnew.1 x, ← hnew.2 x, ← hold x]; exact stageAfter_pending_iff hrem hst'

/-- **Pool invariant.** Through every sequence of submissions and main-chain changes, every pooled
entry is staged Proposed exactly when its id is committable in the next block, and is never left
Pending while its id is in the gap part. -/
theorem pool_ok_reach {w : Win} (hw : WinOk w) {s : PNode} (h : PReach w s) :
    ∀ e ∈ s.pool, StageOk w s.node.chain e := by
  induction h with
  | boot => intro e he; cases he
  | submit x hs ih =>
    rename_i s0
    intro e he
    rcases mem_poolSubmit.mp he with h1 | ⟨_, h1⟩
    · exact ih e h1
    · subst h1
      have := submit_stage_exact hw (preach_node hs) x
      exact ⟨this.1, fun hp => (this.2.2.mp hp).2⟩
  | switch common branch bcommits hs hc ih =>
    rename_i s0
    intro e he
    have hr := preach_node hs
    have hr' : Reach w (switch w s0.node common branch).1 := .switch common branch hr hc
    rcases mem_poolReorg he with ⟨st, hm, _, hst⟩ | ⟨_, _, hst⟩
    · have hok := ih (e.1, st) hm
      have := stage_after_exact hw hr hc branch st e.1 (fun hp => hok.1.mp hp)
      simp only at this
      show (e.2 = .proposed ↔ InSet w (switch w s0.node common branch).1.chain e.1) ∧
        (e.2 = .pending → ¬ InGap w (switch w s0.node common branch).1.chain e.1)
      rw [hst]
      exact ⟨this.1, fun hp => (this.2.2.mp hp).2.1⟩
    · have := submit_stage_exact hw hr' e.1
      show (e.2 = .proposed ↔ InSet w (switch w s0.node common branch).1.chain e.1) ∧
        (e.2 = .pending → ¬ InGap w (switch w s0.node common branch).1.chain e.1)
      rw [hst]
      exact ⟨this.1, fun hp => (this.2.2.mp hp).2⟩

/-- … so what the block template may package (pooled entries staged Proposed) is exactly the pooled
ids of the on-chain committable window, in every reachable state of node and pool. -/
theorem template_eq_pooled_window {w : Win} (hw : WinOk w) {s : PNode} (h : PReach w s) (x : Nat) :
    x ∈ s.pool.proposedIds ↔ s.pool.has x = true ∧ InSet w s.node.chain x := by
  have hok := pool_ok_reach hw h
  simp only [PoolSt.proposedIds, List.mem_map, List.mem_filter, beq_iff_eq]
  constructor
  · rintro ⟨⟨y, st⟩, ⟨hm, hp⟩, rfl⟩
    exact ⟨PoolSt.has_iff.mpr ⟨st, hm⟩, (hok _ hm).1.mp hp⟩
  · rintro ⟨hh, hin⟩
    obtain ⟨st, hm⟩ := PoolSt.has_iff.mp hh
    exact ⟨(x, st), ⟨hm, (hok _ hm).1.mpr hin⟩, rfl⟩

/-- Pooled ids stay distinct (a duplicate submission and a re-admission of a pooled id are refused). -/
theorem pool_ids_nodup {w : Win} {s : PNode} (h : PReach w s) : s.pool.ids.Nodup := by
  induction h with
  | boot => exact List.nodup_nil
  | submit x _ ih => exact nodup_poolSubmit ih
  | switch common branch bcommits _ _ ih => exact nodup_poolReorg ih

/-- Which ids are pooled after a main-chain change: the old ones not committed by the attached
blocks, and the transactions of detached blocks that the attached blocks do not commit again. -/
theorem pool_ids_after_switch {w : Win} (s : PNode) (common : Nat) (branch bcommits : List Ids) (x : Nat) :
    (pswitch w s common branch bcommits).pool.has x = true ↔
      x ∉ bcommits.flatten ∧ (s.pool.has x = true ∨ x ∈ (s.commits.drop (common + 1)).flatten) := by
  simp only [pswitch]
  exact has_poolReorg

/-- The code as written can leave a Gap entry whose id is in NO part of the window (window (2,4):
id 7 proposed in block 3 of branch A, submitted → Gap; a reorganisation from block 2 to a branch that
never proposes 7): `StageOk` still holds (it is not Proposed and not Pending-in-gap), the entry is
simply stale. This is exactly the second alternative of `stage_after_exact`'s Gap clause. -/
theorem pool_stale_gap_reachable :
    ∃ s, PReach ⟨2, 4⟩ s ∧ (7, Stage.gap) ∈ s.pool ∧ ¬ InSet ⟨2, 4⟩ s.node.chain 7 ∧
      ¬ InGap ⟨2, 4⟩ s.node.chain 7 := by
  refine ⟨pswitch ⟨2, 4⟩ (psubmit (pswitch ⟨2, 4⟩ (pboot ⟨2, 4⟩) 0 [[1], [2], [7]] [[], [], []]) 7)
    2 [[3], [4]] [[], []], ?_, by decide, ?_, ?_⟩
  · exact .switch 2 _ _ (.submit 7 (.switch 0 _ _ .boot (by decide))) (by decide)
  · rintro ⟨n, h1, h2, _, _, hx⟩
    have : n < 5 := h2
    have h7 : ∀ m, m < 5 → 7 ∉ idsAt [[], [1], [2], [3], [4]] m := by decide
    exact h7 n this hx
  · rintro ⟨n, h1, h2, _, hx⟩
    have : n < 5 := h2
    have h7 : ∀ m, m < 5 → 7 ∉ idsAt [[], [1], [2], [3], [4]] m := by decide
    exact h7 n this hx

/-! non-vacuity of the pool statements: a reachable node + pool with all three stages, a commit, a
re-admission after a reorganisation, and an entry moved back from Proposed -/
def exPool : PNode :=
  let w : Win := ⟨2, 4⟩
  let s1 := pswitch w (pboot w) 0 [[1], [2], [3]] [[], [], []]
  let s2 := psubmit (psubmit (psubmit (psubmit s1 1) 2) 3) 9
  -- block 4 commits 1 (proposed in block 1: distance 3) and proposes 9
  pswitch w s2 3 [[9]] [[1]]

theorem exPool_reach : PReach ⟨2, 4⟩ exPool :=
  .switch 3 _ _ (.submit 9 (.submit 3 (.submit 2 (.submit 1 (.switch 0 _ _ .boot (by decide)))))) (by decide)

example : exPool.pool = [(2, .proposed), (3, .proposed), (9, .gap)] := by decide
/-- a reorganisation from block 2 to a branch that proposes nothing: 1 is re-admitted (Pending), 2 stays
committable (block 2, distance 3), 3 goes back to Pending, 9 stays Gap (stale) -/
example : (pswitch ⟨2, 4⟩ exPool 2 [[], [], []] [[], [], []]).pool =
    [(2, .proposed), (3, .pending), (9, .gap), (1, .pending)] := by decide
example : (pswitch ⟨2, 4⟩ exPool 2 [[], [], []] [[], [], []]).pool.proposedIds = [2] := by decide
example : ∀ x, x ∉ (switch defaultWin (init defaultWin [[], [1], [2]]) 2 [[3], [4]]).2 := by decide

/-! ## blocks with embedded uncles: the three gathering loops

`update_proposal_table` / `reload_proposal_table` take `BlockView::union_proposal_ids` (own proposals
chained with every uncle's), `init_proposal_table` and `TwoPhaseCommitVerifier` each read the two
store columns (`get_block_proposal_txs_ids`, `get_block_uncles`) and `extend` a set
(`Model/WindowBlocks.lean`: `Blk.unionIds`, `Blk.gatherIds`, `initB`, `switchB`, `verifierIdsB`). -/

/-- The two ways of gathering a block's proposal ids give the same set: an id proposed ONLY in an
embedded uncle counts in all three places, an id proposed by the block and by its uncle counts once. -/
theorem gather_eq_union (b : Blk) (x : Nat) : x ∈ b.gatherIds ↔ x ∈ b.unionIds := by
  rw [Blk.mem_gatherIds, Blk.mem_unionIds]

/-- Start-up on any stored chain of blocks (rows gathered from the two store columns) yields exactly
the window over the blocks' `union_proposal_ids`. -/
theorem initB_view_eq_window {w : Win} (hw : WinOk w) (bc : List Blk)
    (hc : ChainOk (bc.map Blk.unionIds)) :
    (∀ x, x ∈ (initB w bc).view.set ↔ InSet w (bc.map Blk.unionIds) x) ∧
    (∀ x, x ∈ (initB w bc).view.gap ↔ InGap w (bc.map Blk.unionIds) x) := by
  have hs := sameIds_gather_union bc
  have hv := (Inv.init hw (ChainOk.congr hs hc)).view
  exact ⟨fun x => by rw [← InSet.congr hs]; exact hv.1 x, fun x => by rw [← InGap.congr hs]; exact hv.2 x⟩

/-- … so a restart is invisible also at block level: the view rebuilt from the stored blocks equals the
view maintained incrementally from the delivered blocks' `union_proposal_ids`, in every reachable
state. -/
theorem restartB_eq_incremental {w : Win} (hw : WinOk w) {s : Node} (h : Reach w s) (bc : List Blk)
    (hs : s.chain = bc.map Blk.unionIds) :
    (∀ x, x ∈ (initB w bc).view.set ↔ x ∈ s.view.set) ∧
    (∀ x, x ∈ (initB w bc).view.gap ↔ x ∈ s.view.gap) := by
  have hv := view_eq_window_reach hw h
  have hc : ChainOk (bc.map Blk.unionIds) := hs ▸ (reach_inv hw h).chain
  have hi := initB_view_eq_window hw bc hc
  rw [hs] at hv
  exact ⟨fun x => by rw [hi.1 x, hv.1 x], fun x => by rw [hi.2 x, hv.2 x]⟩

/-- The commit verifier's own gathering over the stored blocks collects exactly the committable window
of the `union_proposal_ids` chain — hence exactly the view's `set` (`restartB_eq_incremental`,
`view_eq_window_reach`). -/
theorem verifierB_eq_window {w : Win} (hw : WinOk w) (bc : List Blk) (x : Nat) :
    x ∈ verifierIdsB w bc bc.length ↔ InSet w (bc.map Blk.unionIds) x := by
  have hl : bc.length = (bc.map Blk.gatherIds).length := by simp
  unfold verifierIdsB
  rw [hl, mem_verifierIds hw, InSet.congr (sameIds_gather_union bc)]

/-- Counted once across overlapping windows: an id that is still proposed at a committable distance
on the new chain (by another block, by an uncle, by a re-proposal) is NOT reported as dropped, however
many of its other proposals left the window. -/
theorem removed_not_while_still_proposed {w : Win} (hw : WinOk w) {s : Node} (h : Reach w s)
    {common : Nat} (hcommon : common < s.chain.length) (branch : List Ids) (x : Nat)
    (hstill : InSet w (switch w s common branch).1.chain x) : x ∉ (switch w s common branch).2 := by
  rw [removed_eq_left_window hw h hcommon]
  exact fun hh => hh.2 hstill

/-! non-vacuity: 7 is proposed only in an uncle of block 1, 8 by block 2 and by its uncle -/
def exBlocks : List Blk := [{}, { own := [1], uncles := [[7]] }, { own := [8], uncles := [[8], [9]] }, {}]
example : (initB ⟨2, 4⟩ exBlocks).view.set = [8, 8, 9, 1, 7] := by decide
example : (switchB ⟨2, 4⟩ (init ⟨2, 4⟩ [[]]) 0 exBlocks.tail).1.view.set = [8, 8, 9, 1, 7] := by decide
example : verifierIdsB ⟨2, 4⟩ exBlocks 4 = [8, 8, 9, 1, 7] := by decide
example : ChainOk (exBlocks.map Blk.unionIds) := ⟨by decide, by decide⟩

/-- Why `ChainOk.genesis` is needed: with a proposal in the genesis block the start-up view offers
it as committable while the verifier (which stops at genesis) would reject it. -/
example : (init defaultWin [[7], [1], [2]]).view.set = [1, 7] ∧ verifierIds defaultWin [[7], [1], [2]] 3 = [1] := by decide

end CkbVerif.C20
