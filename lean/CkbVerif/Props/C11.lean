/-
C11 — the transaction pool's contents and bookkeeping are always mutually consistent.

Model: `CkbVerif/Model/Pool.lean` (PoolMap + the TxPool-level operations, as the code is; the repairs
are switches of `Cfg`: `fixF2`, `fixPanic` — both in /repo — and the candidate repairs `fixF3`, `fixMid`,
not in /repo).  `Op` / `step` / `run`: all ten operations (add, rm, rmd, set, commit, hdr, limit, expire,
detach, submit), defined in `Lemmas/PoolLift.lean`.

PROVED for ALL operation sequences (induction over the history; every state, every configuration):
  * `pool_inv_step_partial` / `pool_inv_run_partial`: `PoolInvP` = `EdgeOK` ∧ `LimitOK` ∧ `AggInv` is an
    invariant.  Spelled out by the corollaries
      - `no_double_spend_after_any_history`      no two pooled transactions spend the same cell;
                                                 `edges.inputs` = the pooled inputs, as a function;
      - `counts_and_totals_after_any_history`    pending / gap / proposed counters and total size / cycles;
      - `links_after_any_history`                link keys = pooled ids, parents and children converse to
                                                 each other, both ends of every link pooled;
      - `ancestor_limit_after_clean_history`     ancestors_count ≤ max_ancestors_count   (clean histories);
      - `aggregates_after_clean_history_partial` all eight aggregates = recomputation from the links, for
                                                 the repaired remove_entry_and_descendants (the code in /repo),
                                                 on clean histories;
      - `derived_links_after_any_history`        a link ⇔ an actual spend / dependency between two pooled
                                                 transactions; `edges.deps` = the pooled cell deps;
      - `calcAnc_is_reachability`                the closure the pool computes is graph reachability.
    "clean history" = the ghost flag `ghostBad` of the final state is false, i.e. neither of the two
    remaining bad patterns occurred: an entry inserted while one of its children is pooled (F3), or
    `remove_entry` of an entry with both pooled ancestors and pooled descendants (remove-between).
    `commit` is included: `resolve_conflict` strips the input edge before it removes the entry; at the
    edge level removals commute with the strip and the strip is the identity once the owner is gone
    (`Lemmas/PoolEdge.lean`, `strip_then_remove`).
  * `rbf_admit_iff`, `rbf_fee_rule`, `rbf_no_coexistence`: the replacement rule and its effect.
  * replacement accounting (helper lemmas: `Lemmas/PoolRbf.lean`):
      - `replacedSet_spec`                  the replaced set = conflicts ∪ their pooled descendants, every id once;
      - `rbf_admit_iff_distinct_ids`        admission ⇔ structural rules ∧ Σ (fees of the replaced, BY ID) + increment ≤ fee;
      - `rbf_sound_all_clauses`             every clause of `check_rbf` in plain ∀-form (rules 2 and 5 — also as
                                            |replacedSet| ≤ MAX_REPLACEMENT_CANDIDATES —, ancestors, inputs, cell deps);
      - `minReplaceFeeOf_spec`              `min_replace_fee` of a pooled entry: itself + pooled descendants, each once;
      - `rbf_submit_preserves_inv`          a submission with replacement preserves `PoolInvP`;
      - `rbf_replaced_are_gone` (`_ok`)     after a submission that passed the admission test no replaced
                                            transaction (conflict OR descendant) is pooled;
      - `process_rbf_txs_eq`, `process_rbf_removes_only_replaced`   `process_rbf` removes exactly the replaced set;
      - `process_rbf_fee_split`             total fee before = total fee after `process_rbf` + replaced fees;
      - `rbf_total_fee_grows`               an admitted replacement within the ancestor limit (no eviction inside
                                            `add_entry`: explicit hypothesis) raises the pool's total fee by at least
                                            min_rbf_rate · size / 1000.
  * the class of histories on which the aggregates are exact:
      - `expire_never_taints`, `taint_free_ops`   rmd / set / hdr / limit / repaired expire never set the ghost flag;
      - `rm_taints_iff_between`, `commit_taints_iff_between`   `remove_entry` / `remove_committed_tx` set it iff the
                                            entry is pooled between pooled ancestors and pooled descendants;
      - `add_without_pooled_children_never_taints` (`_sharp`: on actual outputs), `add_taints_iff_children`
                                            add / submit of a transaction without pooled children never set it;
                                            `add_entry` sets it iff the new entry ends up with children;
      - `links_acyclic_after_clean_history` on clean histories no transaction is its own ancestor in the link map;
      - `detach_never_taints`               `remove_by_detached_proposal` never sets the flag on a clean pool
                                            (repaired code): the removed entries are re-inserted in the order of
                                            their — exact — `ancestors_count`, parents before children;
      - `aggregates_exact_on_clean_ops`     for the code in /repo (`fixF2`): every history all of whose operations are
                                            `CleanOp` in the state they are applied to ends with all eight aggregates
                                            exact and `ancestors_count ≤ max_ancestors_count`.  `CleanOp s op` is a
                                            decidable condition on the operation's arguments and the current state:
                                            rm / commit: the id is not pooled between pooled ancestors and descendants;
                                            add / submit: no pooled transaction references an actual output of the new
                                            one; rmd / set / hdr / limit / expire / detach: no condition.
PROVED by concrete witnesses (kernel evaluation on 3-transaction histories, each replayed on the real code:
corpus/C11/*.ops): the aggregates clause is FALSE on histories with the two patterns — `f3_*`, `mid_*` —
and was false for the unrepaired code — `f2_witness`; `add_entry` could panic — `panic_witness`;
`*_repaired_witness`: the same histories under the corresponding repair are consistent;
`dedup_by_fee_undercounts_witness`: de-duplicating the replaced fees by FEE (a `HashSet<Capacity>`) undercounts;
`expire_prefix_witness`: `remove_expired` before /repo 3724ae4 left orphans and wrong aggregates, the repaired
one does not; `commit_between_witness`: `remove_committed_tx` of a transaction with a pooled (cell-ref) parent and
pooled children is the remaining production source of remove-between, repaired `remove_entry_and_descendants` or not.

NOT proved (correspondence run + independent oracle only):
  * `edges.header_deps` = the pooled header deps (the header-dep map is in the model and in the tie, not in
    the invariant);
  * the aggregates and the limit on histories with the two patterns (false there: the witnesses), and
    the aggregates for the candidate repairs `fixF3` / `fixMid` (witnesses + correspondence only).
The full target statement (kept for reference):
  theorem pool_inv_step (s : Pool) (op : Op) : PoolInv s → PoolInv (step s op)
    where PoolInv s := InputsOK s ∧ links = derivedLinks ∧ (∀ e, e.anc = recomputeAnc s e ∧ e.desc = recomputeDesc s e)
                       ∧ CountsOK s ∧ (∀ e, e.anc.count ≤ s.cfg.maxAnc) ∧ EdgesOK s
  It is false as stated for the code as it is (F3, remove-between).
-/
import CkbVerif.Lemmas.PoolEdge
import CkbVerif.Lemmas.PoolLimit
import CkbVerif.Lemmas.PoolLinks
import CkbVerif.Lemmas.PoolAgg
import CkbVerif.Lemmas.PoolDerived
import CkbVerif.Lemmas.PoolRbf
import CkbVerif.Lemmas.PoolHdeps
import CkbVerif.Lemmas.PoolEvict
import CkbVerif.Lemmas.PoolF33
namespace CkbVerif.C11
open CkbVerif.Pool

/-! `Op`, `step`, `run`, `empty` are defined in `Lemmas/PoolLift.lean` (all ten operations of the model,
`commit` included). -/

/-- The proved part of the pool invariant:
    * `EdgeOK (edge s)`: `edges.inputs` lists exactly the inputs of the pooled transactions and is a function
      (no two pooled transactions spend the same cell), ids are unique, the three per-status counters equal the
      number of entries of that status, `total_tx_size` / `total_tx_cycles` equal the sums over the entries;
    * `LimitOK s`: if neither bad pattern occurred in the history (`ghostBad = false`), every entry's
      `ancestors_count` is at most `max_ancestors_count`;
    * `LinksOK s`: the link map's keys are exactly the pooled ids, parents / children lists are duplicate-free
      and converse to each other (every link joins two pooled transactions), and every id that
      `edges.deps` / `edges.inputs` names as user of an out-point is pooled and references that out-point;
    * the aggregates clause inside `AggInv s`: for the repaired `remove_entry_and_descendants`
      (`cfg.fixF2`, the code in /repo since 77bbef6) and as long as neither bad pattern occurred
      (`ghostBad = false`), all eight aggregates of every entry equal the recomputation from the links;
    * `DerivedOK s`: `p` is linked as a parent of `c` only if `c` references an out-point of `p` or consumes
      a cell `p` uses as a cell dep, every reference to an actual output of a pooled transaction is a link,
      and `edges.deps` records every cell dep of every pooled transaction. -/
def PoolInvP (s : Pool) : Prop := EdgeOK (edge s) ∧ LimitOK s ∧ AggInv s ∧ DerivedOK s

theorem linksOK_empty (c : Cfg) (chain : List Nat) : LinksOK (empty c chain) :=
  ⟨List.nodup_nil, List.nodup_nil, fun _ _ h => (by cases h), fun _ h => (by cases h),
    ⟨List.nodup_nil, fun _ _ => ⟨fun h => (by cases h), fun h => (by cases h)⟩, fun _ => List.nodup_nil, fun _ => List.nodup_nil⟩,
    fun _ => ⟨fun h => (by cases h), fun ⟨⟨_, h, _⟩, _⟩ => (by cases h)⟩⟩

theorem poolInvP_empty (c : Cfg) (chain : List Nat) : PoolInvP (empty c chain) :=
  ⟨edgeOK_empty c chain, (fun _ _ h => (by cases h)), ⟨linksOK_empty c chain, fun _ _ _ h => (by cases h)⟩,
    ⟨fun _ h => (by cases h), fun _ h => (by cases h), fun _ h => (by cases h)⟩⟩

/-- PARTIAL (see the header): every one of the ten operations — `commit` with its two-phase
    `resolve_conflict` included — preserves `PoolInvP`, from every state, for every configuration
    (code as written or any combination of the repairs). -/
theorem pool_inv_step_partial (s : Pool) (op : Op) (h : PoolInvP s) : PoolInvP (step s op) :=
  ⟨edgeOK_step s op h.1, limitOK_closed.step s op h.2.1, aggInv_closed.step s op h.2.2.1,
    (p4_closed.step s op ⟨h.1, h.2.2.1.1, h.2.2.2⟩).2.2⟩

theorem pool_inv_run_partial (c : Cfg) (chain : List Nat) (ops : List Op) : PoolInvP (run (empty c chain) ops) := by
  suffices ∀ s, PoolInvP s → PoolInvP (run s ops) from this _ (poolInvP_empty c chain)
  induction ops with
  | nil => exact fun _ h => h
  | cons op l ih => exact fun s h => ih _ (pool_inv_step_partial s op h)

/-- After ANY history, no two pooled transactions spend the same cell. -/
theorem no_double_spend_after_any_history (c : Cfg) (chain : List Nat) (ops : List Op)
    (a b : Entry) (ha : a ∈ (run (empty c chain) ops).entries) (hb : b ∈ (run (empty c chain) ops).entries)
    (o : OutPt) (oa : o ∈ a.tx.inputs) (ob : o ∈ b.tx.inputs) : a.tx = b.tx :=
  (pool_inv_run_partial c chain ops).1.inputsOK.no_double_spend
    (List.mem_map.mpr ⟨a, ha, rfl⟩) (List.mem_map.mpr ⟨b, hb, rfl⟩) oa ob

/-- After ANY history the per-status counts and the totals match the entries. -/
theorem counts_and_totals_after_any_history (c : Cfg) (chain : List Nat) (ops : List Op) :
    let s := run (empty c chain) ops
    s.pending = (s.entries.filter (·.status = .pending)).length ∧
    s.gap = (s.entries.filter (·.status = .gap)).length ∧
    s.proposed = (s.entries.filter (·.status = .proposed)).length ∧
    s.totalSize = (s.entries.map (·.tx.size)).sum ∧ s.totalCycles = (s.entries.map (·.tx.cycles)).sum := by
  intro s
  have h := (pool_inv_run_partial c chain ops).1
  have hc : ∀ st, cntSt st (edge s).cores = (s.entries.filter (·.status = st)).length := by
    intro st
    simp only [cntSt, edge, List.map_map]
    induction s.entries with
    | nil => rfl
    | cons e l ih =>
      simp only [List.map_cons, List.sum_cons, List.filter_cons, Function.comp]
      rw [ih]
      by_cases hs : e.status = st
      · have : (Entry.core e).2.1 = st := hs
        simp [hs, this]; omega
      · have : ¬ (Entry.core e).2.1 = st := hs
        simp [hs, this]
  refine ⟨h.cP.trans (hc _), h.cG.trans (hc _), h.cR.trans (hc _), ?_, ?_⟩
  · have := h.size; simp only [edge, List.map_map] at this; exact this
  · have := h.cycles; simp only [edge, List.map_map] at this; exact this

/-- On every history in which neither bad pattern occurred, the maintained `ancestors_count` of every
    entry respects `max_ancestors_count`. -/
theorem ancestor_limit_after_clean_history (c : Cfg) (chain : List Nat) (ops : List Op)
    (hclean : (run (empty c chain) ops).ghostBad = false) :
    ∀ e ∈ (run (empty c chain) ops).entries, e.anc.count ≤ (run (empty c chain) ops).cfg.maxAnc :=
  (pool_inv_run_partial c chain ops).2.1 hclean

/-- After ANY history: a transaction has a link entry iff it is pooled, `p` is listed as a parent of `c`
    iff `c` is listed as a child of `p`, and both ends of every link are pooled. -/
theorem links_after_any_history (c : Cfg) (chain : List Nat) (ops : List Op) :
    let s := run (empty c chain) ops
    (∀ id, id ∈ keys s.links ↔ ∃ e ∈ s.entries, e.tx.id = id) ∧
    (∀ p c, p ∈ parentsOf s.links c ↔ c ∈ childrenOf s.links p) ∧
    (∀ p c, p ∈ parentsOf s.links c → (∃ e ∈ s.entries, e.tx.id = p) ∧ (∃ e ∈ s.entries, e.tx.id = c)) := by
  intro s
  have h := (pool_inv_run_partial c chain ops).2.2.1.1
  have hk : ∀ id, id ∈ keys s.links ↔ ∃ e ∈ s.entries, e.tx.id = id := by
    intro id
    rw [h.keysEq id]
    simp only [txs, List.mem_map, List.not_mem_nil, not_false_eq_true, and_true]
    constructor
    · rintro ⟨t, ⟨e, he, rfl⟩, hid⟩; exact ⟨e, he, hid⟩
    · rintro ⟨e, he, hid⟩; exact ⟨e.tx, ⟨e, he, rfl⟩, hid⟩
  refine ⟨hk, h.struct.sym, fun p c hp => ?_⟩
  obtain ⟨a, b⟩ := h.struct.parent_key hp
  exact ⟨(hk p).mp a, (hk c).mp b⟩

/-- THE LINKS CLAUSE, derived direction, after ANY history: a parent/child link between two pooled transactions
    corresponds to an actual reference (`c` spends or depends on an out-point of `p`, or consumes a cell that
    `p` only references), and vice versa every reference to an actual output of a pooled transaction is a
    link; `edges.deps` lists exactly the cell deps of the pooled transactions. -/
theorem derived_links_after_any_history (c : Cfg) (chain : List Nat) (ops : List Op) :
    let s := run (empty c chain) ops
    (∀ tp ∈ txs s, ∀ tc ∈ txs s, tp.id ∈ parentsOf s.links tc.id → refsTx tp tc ∨ consumesDep tp tc) ∧
    (∀ tp ∈ txs s, ∀ tc ∈ txs s, spendsOut tp tc → tp.id ∈ parentsOf s.links tc.id) ∧
    (∀ o id, id ∈ depUsers s o ↔ ∃ t ∈ txs s, t.id = id ∧ o ∈ t.deps) := by
  intro s
  have h := pool_inv_run_partial c chain ops
  refine ⟨h.2.2.2.sound, h.2.2.2.complete, fun o id => ⟨h.2.2.1.1.depOwn o id, ?_⟩⟩
  rintro ⟨t, ht, rfl, ho⟩
  exact h.2.2.2.depRecd t ht o ho (by simp)

/-- the configuration is never changed by an operation -/
theorem cfg_after_any_history (c : Cfg) (chain : List Nat) (ops : List Op) : (run (empty c chain) ops).cfg = c :=
  (cfg_closed c).run _ ops rfl

/-- THE AGGREGATES CLAUSE for the code as it is in /repo (repaired `remove_entry_and_descendants`), on every
    history in which neither remaining bad pattern occurred (`ghostBad` stays false: no entry was inserted
    while one of its children was pooled, no `remove_entry` hit an entry with both pooled ancestors and
    pooled descendants): the ancestors and descendants aggregates (count, size, cycles, fee) of every
    entry equal the recomputation from the current links.  PARTIAL with respect to the property: the two
    patterns are excluded by hypothesis (they are the known findings F3 and remove-between). -/
theorem aggregates_after_clean_history_partial (c : Cfg) (hfix : c.fixF2 = true) (chain : List Nat) (ops : List Op)
    (hclean : (run (empty c chain) ops).ghostBad = false) :
    ∀ e ∈ (run (empty c chain) ops).entries,
      e.anc = recomputeAnc (run (empty c chain) ops) e ∧ e.desc = recomputeDesc (run (empty c chain) ops) e :=
  (pool_inv_run_partial c chain ops).2.2.1.2 (by rw [cfg_after_any_history]; exact hfix) hclean

/-- the closure the model computes (`calc_ancestors`) is the set of nodes reachable along parent links,
    after any history -/
theorem calcAnc_is_reachability (c : Cfg) (chain : List Nat) (ops : List Op) (x y : Nat) :
    y ∈ calcAnc (run (empty c chain) ops).links x ↔ Anc (run (empty c chain) ops).links x y :=
  mem_calcAnc (pool_inv_run_partial c chain ops).2.2.1.1.struct x y

/-! ## the header-deps map (`edges.header_deps`) -/

theorem hdepOK_empty (c : Cfg) (chain : List Nat) : HdepOK (empty c chain) :=
  ⟨List.nodup_nil, fun _ h => (by cases h), fun _ h => (by cases h)⟩

/-- THE HEADER-DEPS CLAUSE, after ANY history (all ten operations, every configuration): `edges.header_deps`
    has one row per key, and `(id, hs)` is a row iff a pooled transaction `id` has exactly the header deps
    `hs` and `hs` is not empty (`record_entry_edges` inserts a row only for a transaction with header deps,
    `remove_entry_edges` drops the row of the removed id). -/
theorem header_deps_after_any_history (c : Cfg) (chain : List Nat) (ops : List Op) :
    let s := run (empty c chain) ops
    (s.hdeps.map (·.1)).Nodup ∧
    (∀ id hs, (id, hs) ∈ s.hdeps ↔ ∃ t ∈ txs s, t.id = id ∧ t.hdeps = hs ∧ hs ≠ []) := by
  intro s
  have h : HdepOK s := hdepOK_closed.run (empty c chain) ops (hdepOK_empty c chain)
  exact ⟨h.keys, h.row_iff⟩

/-- every operation preserves the header-deps clause, from every state -/
theorem header_deps_step (s : Pool) (op : Op) (h : HdepOK s) : HdepOK (step s op) :=
  hdepOK_closed.step s op h

/-- `resolve_conflict_header_dep` (what a reorg that detaches headers triggers), from ANY reachable state:
    afterwards no pooled transaction depends on one of the detached headers, and nothing new is pooled. -/
theorem hdr_conflict_clears_after_any_history (c : Cfg) (chain : List Nat) (ops : List Op) (hs : List Nat) :
    let s := run (empty c chain) ops
    (∀ t ∈ txs (step s (.hdr hs)), ∀ x ∈ t.hdeps, x ∉ hs) ∧ (∀ t ∈ txs (step s (.hdr hs)), t ∈ txs s) := by
  intro s
  have h : HdepOK s := hdepOK_closed.run (empty c chain) ops (hdepOK_empty c chain)
  have hL : LinksOK s := (pool_inv_run_partial c chain ops).2.2.1.1
  exact ⟨resolveHeaders_clears h hL hs, resolveHeaders_shrinks hL hs⟩

/-! ## concrete histories -/

def tx10 : Tx := { id := 10, inputs := [⟨0, 0⟩], deps := [], hdeps := [], nout := 1, size := 100, cycles := 0, fee := 100 }
def tx11 : Tx := { id := 11, inputs := [⟨10, 0⟩], deps := [], hdeps := [], nout := 1, size := 110, cycles := 0, fee := 110 }
def tx12 : Tx := { id := 12, inputs := [⟨11, 0⟩], deps := [], hdeps := [], nout := 1, size := 120, cycles := 0, fee := 120 }
def cfg0 : Cfg := { maxAnc := 25, maxSize := 1000000, minFeeRate := 1000, minRbfRate := 1500, expiry := 3600000 }

/-- the aggregates clause as a decidable check: every entry's eight aggregates equal the recomputation -/
def aggOK (s : Pool) : Bool := s.entries.all fun e => e.anc = recomputeAnc s e ∧ e.desc = recomputeDesc s e
def descOf (s : Pool) (id : Nat) : Option W := (getEntry s id).map (·.desc)
def ancOf (s : Pool) (id : Nat) : Option W := (getEntry s id).map (·.anc)

def chainOps : List Op := [.add tx10 .pending 1, .add tx11 .pending 2, .add tx12 .pending 3]

/-- non-vacuity of the invariant theorem and of `aggOK`: a chain of three is consistent -/
example : aggOK (run (empty cfg0 [0]) chainOps) = true ∧ (run (empty cfg0 [0]) chainOps).entries.length = 3 := by
  decide +kernel

/-- non-vacuity of `aggregates_after_clean_history_partial`: a history with insertions, a removal with
    descendants below a surviving parent, a root removal and a status change is clean -/
example :
    let s := run (empty { cfg0 with fixF2 := true } [0]) (chainOps ++ [.set 12 .proposed, .rmd 12, .rm 10])
    s.ghostBad = false ∧ s.cfg.fixF2 = true ∧ s.entries.length = 1 ∧ aggOK s = true := by
  decide +kernel

/-- F2 (corpus/C11/f2-remove-with-descendants.ops): tx10 -> tx11 -> tx12, remove tx11 with descendants:
    tx10 keeps descendants_count = 3 although it is alone in the pool. -/
theorem f2_witness :
    let s := run (empty cfg0 [0]) (chainOps ++ [.rmd 11])
    aggOK s = false ∧ descOf s 10 = some ⟨3, 330, 0, 330⟩ ∧ s.entries.length = 1 := by
  decide +kernel

/-- the same history under the repaired `remove_entry_and_descendants` is consistent -/
theorem f2_repaired_witness :
    let s := run (empty { cfg0 with fixF2 := true } [0]) (chainOps ++ [.rmd 11])
    aggOK s = true ∧ descOf s 10 = some ⟨1, 100, 0, 100⟩ := by
  decide +kernel

/-- F3 (corpus/C11/f3-parent-after-children.ops): child first, then its parent: the parent's descendants
    aggregate counts only itself while the links say it has a child. -/
theorem f3_witness :
    let s := run (empty cfg0 [0]) [.add tx11 .pending 1, .add tx10 .pending 2]
    aggOK s = false ∧ descOf s 10 = some ⟨1, 100, 0, 100⟩ ∧ childrenOf s.links 10 = [11] := by
  decide +kernel

/-- F3, ancestors side (corpus/C11/f3-grandparent-ancestors.ops): pooled in the order 10, 12, 11:
    tx12's ancestors aggregate misses tx10 (count 2 instead of 3). -/
theorem f3_ancestors_witness :
    let s := run (empty cfg0 [0]) [.add tx10 .pending 1, .add tx12 .pending 2, .add tx11 .pending 3]
    aggOK s = false ∧ ancOf s 12 = some ⟨2, 230, 0, 230⟩ ∧ (calcAnc s.links 12).length = 2 := by
  decide +kernel

/-- F3 defeats the ancestor limit: with max_ancestors_count = 2 the same order leaves tx12 with two
    pooled ancestors (three transactions in its package). -/
theorem f3_limit_witness :
    let s := run (empty { cfg0 with maxAnc := 2 } [0]) [.add tx10 .pending 1, .add tx12 .pending 2, .add tx11 .pending 3]
    (calcAnc s.links 12).length + 1 = 3 ∧ s.cfg.maxAnc = 2 ∧ s.entries.length = 3 := by
  decide +kernel

/-- remove_entry of a transaction between a pooled ancestor and a pooled descendant
    (corpus/C11/mid-remove-entry.ops; `remove_expired` does this in slab order, corpus/C11/expire-order.ops):
    tx10 keeps tx12 as a descendant and tx12 keeps tx10 as an ancestor although they are no longer linked. -/
theorem mid_witness :
    let s := run (empty cfg0 [0]) (chainOps ++ [.rm 11])
    aggOK s = false ∧ descOf s 10 = some ⟨2, 220, 0, 220⟩ ∧ ancOf s 12 = some ⟨2, 220, 0, 220⟩
      ∧ calcDesc s.links 10 = [] ∧ calcAnc s.links 12 = [] := by
  decide +kernel

/-- the F3 histories under the proposed repair of `record_entry_descendants` (work/C11-fix-F3.diff) are consistent -/
theorem f3_repaired_witness :
    let c := { cfg0 with fixF3 := true }
    aggOK (run (empty c [0]) [.add tx11 .pending 1, .add tx10 .pending 2]) = true ∧
    aggOK (run (empty c [0]) [.add tx10 .pending 1, .add tx12 .pending 2, .add tx11 .pending 3]) = true := by
  decide +kernel

/-- the remove-between history under the proposed repair of `remove_entry` (work/C11-fix-mid.diff) is consistent -/
theorem mid_repaired_witness :
    let s := run (empty { cfg0 with fixMid := true } [0]) (chainOps ++ [.rm 11])
    aggOK s = true ∧ descOf s 10 = some ⟨1, 100, 0, 100⟩ ∧ ancOf s 12 = some ⟨1, 120, 0, 120⟩ := by
  decide +kernel

def txA : Tx := { id := 10, inputs := [⟨0, 0⟩], deps := [⟨0, 4⟩], hdeps := [], nout := 1, size := 100, cycles := 0, fee := 100 }
def txT : Tx := { id := 12, inputs := [⟨0, 4⟩, ⟨11, 0⟩], deps := [], hdeps := [], nout := 1, size := 120, cycles := 0, fee := 120 }

/-- `PoolMap::add_entry` panics (corpus/C11/panic-evicted-parent.ops): tx A references cell 0:4 as a cell
    dep, tx11 is A's child, T consumes 0:4 and an output of tx11, max_ancestors_count = 2: the eviction
    path removes A together with tx11, tx11 stays in `parents`, `get_by_id_checked` fails. -/
theorem panic_witness :
    let s := run (empty { cfg0 with maxAnc := 2 } [0]) [.add txA .pending 1, .add tx11 .pending 2]
    (addEntry s txT .pending 3).2 = .panic := by
  decide +kernel

/-- the same submission under the repaired `check_and_record_ancestors` (work/C11-fix-panic.diff) is
    rejected (`ExceededMaximumAncestorsCount`) after the eviction, and the pool stays consistent -/
theorem panic_repaired_witness :
    let s := run (empty { cfg0 with maxAnc := 2, fixPanic := true } [0]) [.add txA .pending 1, .add tx11 .pending 2]
    (addEntry s txT .pending 3).2 = .rejAnc ∧ aggOK (addEntry s txT .pending 3).1 = true := by
  decide +kernel

def txH1 : Tx := { id := 60, inputs := [⟨1, 0⟩], deps := [], hdeps := [7, 8], nout := 1, size := 100, cycles := 0, fee := 100 }
def txH2 : Tx := { id := 61, inputs := [⟨60, 0⟩], deps := [], hdeps := [], nout := 1, size := 100, cycles := 0, fee := 100 }
def txH3 : Tx := { id := 62, inputs := [⟨1, 1⟩], deps := [], hdeps := [9], nout := 1, size := 100, cycles := 0, fee := 100 }

/-- non-vacuity of the header-deps theorems: rows exist only for the transactions with header deps; detaching
    header 8 removes tx60 AND its child tx61 (which has no header dep itself), tx62 (header 9) stays -/
example :
    let s := run (empty cfg0 [0, 1]) [.add txH1 .pending 1, .add txH2 .pending 2, .add txH3 .pending 3, .add tx10 .pending 4]
    s.hdeps = [(60, [7, 8]), (62, [9])] ∧ (txs (step s (.hdr [8]))).map (·.id) = [62, 10] ∧
      (step s (.hdr [8])).hdeps = [(62, [9])] := by
  decide +kernel

/-! ## replacement (RBF) -/

/-- the transactions a replacement removes: the conflicting ones and their pooled descendants -/
def replacedSet (s : Pool) (t : Tx) : List Nat :=
  dedup (conflictIds s t ++ (dedup ((conflictIds s t).map (calcDesc s.links) |>.flatMap id)).filter
    fun d => (getEntry s d).isSome)

/-- the structural rules of `check_rbf` (rules 2 and 5, and the cell-dep rule) -/
def RbfStruct (s : Pool) (t : Tx) : Prop :=
  let conflicts := conflictIds s t
  let cinputs := (conflicts.filterMap (getEntry s)).flatMap fun (e : Entry) => e.tx.inputs
  let descs := conflicts.map fun c => calcDesc s.links c
  let alldIn := (dedup (descs.flatMap id)).filter fun d => (getEntry s d).isSome
  (¬ t.inputs.any (fun pt => pt ∉ cinputs ∧ pt.tx ∉ s.chain)) ∧
  (¬ descs.foldl (fun n d => n + d.length + 1) 0 > Gen.Pool.MAX_REPLACEMENT_CANDIDATES) ∧
  (¬ descs.any (fun d => d.any (· ∈ calcAnc s.links t.id))) ∧
  (¬ t.inputs.any (fun pt => pt.tx ∈ alldIn)) ∧
  (¬ t.deps.any (fun pt => pt.tx ∈ dedup (conflicts ++ alldIn)))

/-- `check_rbf` admits a conflicting transaction iff the structural rules hold and its fee is at least the
    sum of the fees of everything it replaces plus `min_rbf_rate * size / 1000`. -/
theorem rbf_admit_iff (s : Pool) (t : Tx) (hc : conflictIds s t ≠ []) :
    checkRbf s t = .ok (conflictIds s t) ↔
      RbfStruct s t ∧ minReplaceFee s (replacedSet s t) t.size ≤ t.fee := by
  unfold checkRbf RbfStruct replacedSet
  simp only [List.isEmpty_iff, hc, if_false]
  constructor
  · intro h
    split at h <;> try (cases h; done)
    split at h <;> try (cases h; done)
    split at h <;> try (cases h; done)
    split at h <;> try (cases h; done)
    split at h <;> try (cases h; done)
    split at h <;> try (cases h; done)
    rename_i h1 h2 h3 h4 h5 h6
    exact ⟨⟨h1, h2, h3, h4, h5⟩, Nat.le_of_not_lt h6⟩
  · rintro ⟨⟨h1, h2, h3, h4, h5⟩, h6⟩
    rw [if_neg h1, if_neg h2, if_neg h3, if_neg h4, if_neg h5, if_neg (Nat.not_lt.mpr h6)]

/-- `check_rbf` never answers with a different conflict set, and never admits below the fee rule. -/
theorem rbf_fee_rule (s : Pool) (t : Tx) (c : List Nat) (h : checkRbf s t = .ok c) (hc : conflictIds s t ≠ []) :
    c = conflictIds s t ∧ minReplaceFee s (replacedSet s t) t.size ≤ t.fee := by
  have hc' : c = conflictIds s t := by
    unfold checkRbf at h
    simp only [List.isEmpty_iff, hc, if_false] at h
    split at h <;> try (cases h; done)
    split at h <;> try (cases h; done)
    split at h <;> try (cases h; done)
    split at h <;> try (cases h; done)
    split at h <;> try (cases h; done)
    split at h <;> try (cases h; done)
    injection h with h; exact h.symm
  subst hc'
  exact ⟨rfl, ((rbf_admit_iff s t hc).mp h).2⟩

/-- `min_replace_fee` is the plain sum of the replaced fees plus the increment -/
theorem minReplaceFee_eq (s : Pool) (ids : List Nat) (size : Nat) :
    minReplaceFee s ids size = ((ids.filterMap (getEntry s)).map (·.tx.fee)).sum + s.cfg.minRbfRate * size / Gen.Pool.KW := by
  unfold minReplaceFee rateFee
  congr 1
  generalize ids.filterMap (getEntry s) = l
  suffices ∀ n, l.foldl (fun acc e => acc + e.tx.fee) n = n + (l.map (·.tx.fee)).sum by simpa using this 0
  induction l with
  | nil => intro n; simp
  | cons a l ih => intro n; simp only [List.foldl_cons, List.map_cons, List.sum_cons]; rw [ih]; omega

/-- After a submission — admitted, replaced, rejected or evicted again — a pooled transaction that shares
    an input with the submitted one IS the submitted one: the replaced and the replacing transaction
    never coexist (from any state reachable by the modelled operations). -/
theorem rbf_no_coexistence (s : Pool) (h : InputsOK s) (t : Tx) (st : Status) (ts : Nat)
    (a b : Entry) (ha : a ∈ (submit s t st ts).1.entries) (hb : b ∈ (submit s t st ts).1.entries)
    (hat : a.tx.id = t.id) (o : OutPt) (oa : o ∈ a.tx.inputs) (ob : o ∈ b.tx.inputs) : b.tx.id = t.id := by
  have := (inputsOK_submit h t st ts).no_double_spend
    (List.mem_map.mpr ⟨a, ha, rfl⟩) (List.mem_map.mpr ⟨b, hb, rfl⟩) oa ob
  rw [← this]; exact hat

def tx20 : Tx := { id := 20, inputs := [⟨0, 0⟩], deps := [], hdeps := [], nout := 1, size := 200, cycles := 0, fee := 509 }
def tx21 : Tx := { id := 21, inputs := [⟨0, 0⟩], deps := [], hdeps := [], nout := 1, size := 200, cycles := 0, fee := 510 }

/-- the fee boundary (corpus/C11/rbf-replace.ops): replacing tx10 (fee 100) and its child tx11 (fee 110)
    with a 200-byte transaction at min_rbf_rate 1500 needs 100 + 110 + 300 = 510: 509 is refused, 510 is
    admitted and afterwards tx10 and tx11 are gone. -/
example :
    let s := run (empty cfg0 [0]) [.add tx10 .pending 1, .add tx11 .pending 2]
    checkRbf s tx20 = .fee ∧ checkRbf s tx21 = .ok [10] ∧
      ((submit s tx21 .pending 3).1.entries.map (·.tx.id)) = [21] := by
  decide +kernel

/-! ## replacement accounting (A1–A7) -/

/-- A1. The replaced set is the conflicts together with their pooled descendants, every id ONCE. -/
theorem replacedSet_spec (s : Pool) (t : Tx) :
    (replacedSet s t).Nodup ∧ ∀ x, x ∈ replacedSet s t ↔
      (x ∈ conflictIds s t ∨ ∃ c ∈ conflictIds s t, x ∈ calcDesc s.links c ∧ (getEntry s x).isSome) := by
  refine ⟨nodup_dedup _, fun x => ?_⟩
  unfold replacedSet
  rw [mem_dedup, List.mem_append, List.mem_filter, mem_dedup, List.mem_flatMap]
  constructor
  · rintro (h | ⟨⟨l, hl, hx⟩, hp⟩)
    · exact Or.inl h
    · obtain ⟨c, hc, rfl⟩ := List.mem_map.mp hl
      exact Or.inr ⟨c, hc, hx, hp⟩
  · rintro (h | ⟨c, hc, hx, hp⟩)
    · exact Or.inl h
    · exact Or.inr ⟨⟨_, List.mem_map.mpr ⟨c, hc, rfl⟩, hx⟩, hp⟩

/-- non-vacuity of `replacedSet_spec`: replacing tx10 in the chain of three replaces all three, each once -/
example : replacedSet (run (empty cfg0 [0]) chainOps) tx21 = [10, 11, 12] := by decide +kernel

/-- A2. `check_rbf` admits iff the structural rules hold and the fee covers the sum, over the replaced
    transactions counted BY ID (two replaced transactions paying the same fee are both counted, a descendant
    shared by two conflicts once: `replacedSet_spec`), plus the increment. -/
theorem rbf_admit_iff_distinct_ids (s : Pool) (t : Tx) (hc : conflictIds s t ≠ []) :
    checkRbf s t = .ok (conflictIds s t) ↔
      RbfStruct s t ∧ (((replacedSet s t).filterMap (getEntry s)).map (·.tx.fee)).sum
        + s.cfg.minRbfRate * t.size / Gen.Pool.KW ≤ t.fee := by
  rw [rbf_admit_iff s t hc, minReplaceFee_eq]

/-- non-vacuity of `rbf_admit_iff_distinct_ids` (and of A3): a conflicting transaction that is admitted -/
example :
    let s := run (empty cfg0 [0]) [.add tx10 .pending 1, .add tx11 .pending 2]
    conflictIds s tx21 ≠ [] ∧ checkRbf s tx21 = .ok (conflictIds s tx21) := by
  decide +kernel

/-- A3. Everything `check_rbf` checks, as plain statements: an admitted conflicting transaction
    (1) is answered with the conflict set, (2) pays the replaced fees (by id) plus the increment,
    (3) spends only inputs of the pooled conflicting transactions or outputs of chain transactions (rule 2),
    (4) replaces at most `MAX_REPLACEMENT_CANDIDATES` transactions, counted as the code counts
    (Σ over the conflicts of descendants + 1) and hence as a set (rule 5),
    (5) has no descendant of a conflict among its pooled ancestors, (6) spends no output of a pooled
    descendant of a conflict, (7) has no cell dep on an output of a replaced transaction. -/
theorem rbf_sound_all_clauses (s : Pool) (t : Tx) (c : List Nat) (h : checkRbf s t = .ok c) (hc : conflictIds s t ≠ []) :
    c = conflictIds s t ∧
    (((replacedSet s t).filterMap (getEntry s)).map (·.tx.fee)).sum + s.cfg.minRbfRate * t.size / Gen.Pool.KW ≤ t.fee ∧
    (∀ pt ∈ t.inputs, (∃ cid ∈ conflictIds s t, ∃ e, getEntry s cid = some e ∧ pt ∈ e.tx.inputs) ∨ pt.tx ∈ s.chain) ∧
    ((conflictIds s t).map fun cid => (calcDesc s.links cid).length + 1).sum ≤ Gen.Pool.MAX_REPLACEMENT_CANDIDATES ∧
    (replacedSet s t).length ≤ Gen.Pool.MAX_REPLACEMENT_CANDIDATES ∧
    (∀ cid ∈ conflictIds s t, ∀ d ∈ calcDesc s.links cid, d ∉ calcAnc s.links t.id) ∧
    (∀ pt ∈ t.inputs, ∀ cid ∈ conflictIds s t, ∀ d ∈ calcDesc s.links cid, (getEntry s d).isSome → pt.tx ≠ d) ∧
    (∀ pt ∈ t.deps, pt.tx ∉ replacedSet s t) := by
  obtain ⟨hceq, hfee⟩ := rbf_fee_rule s t c h hc
  subst hceq
  obtain ⟨⟨h1, h2, h3, h4, h5⟩, _⟩ := (rbf_admit_iff s t hc).mp h
  rw [minReplaceFee_eq] at hfee
  have hsum : ((conflictIds s t).map fun cid => (calcDesc s.links cid).length + 1).sum ≤ Gen.Pool.MAX_REPLACEMENT_CANDIDATES := by
    have := foldl_len_eq ((conflictIds s t).map fun c => calcDesc s.links c) 0
    simp only [List.map_map, Nat.zero_add] at this
    have h2' := Nat.le_of_not_gt h2
    rw [this] at h2'
    exact h2'
  refine ⟨rfl, hfee, ?_, hsum, ?_, ?_, ?_, ?_⟩
  · intro pt hpt
    by_cases hch : pt.tx ∈ s.chain
    · exact Or.inr hch
    · left
      have hin : pt ∈ ((conflictIds s t).filterMap (getEntry s)).flatMap fun (e : Entry) => e.tx.inputs := by
        apply Classical.byContradiction
        intro hn
        exact h1 (List.any_eq_true.mpr ⟨pt, hpt, decide_eq_true ⟨hn, hch⟩⟩)
      obtain ⟨e, he, hpe⟩ := List.mem_flatMap.mp hin
      obtain ⟨cid, hcid, hg⟩ := List.mem_filterMap.mp he
      exact ⟨cid, hcid, e, hg, hpe⟩
  · have h0 := sum_len_succ ((conflictIds s t).map fun c => calcDesc s.links c)
    simp only [List.map_map, List.length_map] at h0
    have hs' : ((conflictIds s t).map fun cid => (calcDesc s.links cid).length + 1).sum
        = (((conflictIds s t).map fun c => calcDesc s.links c).map fun d => d.length + 1).sum := by
      rw [List.map_map]; rfl
    have hlen : (replacedSet s t).length ≤ (conflictIds s t).length
        + ((((conflictIds s t).map fun c => calcDesc s.links c).flatMap id).length) := by
      unfold replacedSet
      refine Nat.le_trans (length_dedup_le _) ?_
      rw [List.length_append]
      apply Nat.add_le_add_left
      exact Nat.le_trans (List.length_filter_le _ _) (length_dedup_le _)
    rw [length_flatMap_id] at hlen
    rw [hs'] at hsum
    rw [sum_len_succ, List.length_map] at hsum
    omega
  · intro cid hcid d hd hanc
    apply h3
    exact List.any_eq_true.mpr ⟨calcDesc s.links cid, List.mem_map.mpr ⟨cid, hcid, rfl⟩,
      List.any_eq_true.mpr ⟨d, hd, by simpa using hanc⟩⟩
  · intro pt hpt cid hcid d hd hp heq
    apply h4
    refine List.any_eq_true.mpr ⟨pt, hpt, ?_⟩
    simp only [decide_eq_true_eq]
    rw [heq]
    exact List.mem_filter.mpr ⟨(mem_dedup _ d).mpr (List.mem_flatMap.mpr ⟨_, List.mem_map.mpr ⟨cid, hcid, rfl⟩, hd⟩), hp⟩
  · intro pt hpt hin
    apply h5
    exact List.any_eq_true.mpr ⟨pt, hpt, decide_eq_true hin⟩

/-- A4. `min_replace_fee` of a pooled entry (what `get_transaction` reports): the fees of the entry and its
    pooled descendants, every id once, plus the increment for the entry's own size. -/
theorem minReplaceFeeOf_spec (s : Pool) (id : Nat) (e : Entry) (hen : enableRbf s.cfg = true)
    (hg : getEntry s id = some e) :
    ∃ L : List Nat, L.Nodup ∧
      (∀ x, x ∈ L ↔ x = id ∨ (x ∈ calcDesc s.links id ∧ (getEntry s x).isSome)) ∧
      minReplaceFeeOf s id =
        some (((L.filterMap (getEntry s)).map (·.tx.fee)).sum + s.cfg.minRbfRate * e.tx.size / Gen.Pool.KW) := by
  refine ⟨dedup (id :: (calcDesc s.links id).filter fun d => (getEntry s d).isSome), nodup_dedup _, fun x => ?_, ?_⟩
  · rw [mem_dedup, List.mem_cons, List.mem_filter]
  · unfold minReplaceFeeOf
    rw [if_pos hen, hg]
    simp only
    rw [minReplaceFee_eq]

/-- non-vacuity of `minReplaceFeeOf_spec`: tx10 with child and grandchild: 100 + 110 + 120 + 1500·100/1000 -/
example :
    let s := run (empty cfg0 [0]) chainOps
    enableRbf s.cfg = true ∧ (getEntry s 10).isSome ∧ minReplaceFeeOf s 10 = some 480 := by
  decide +kernel

/-- the seeded regression of `calculate_min_replace_fee`: the replaced fees collected into a `HashSet<Capacity>`,
    i.e. de-duplicated BY FEE instead of by id -/
def minReplaceFeeDedupByFee (s : Pool) (ids : List Nat) (size : Nat) : Nat :=
  ((dedup ((ids.filterMap (getEntry s)).map (·.tx.fee))).foldl (· + ·) 0) + rateFee s.cfg.minRbfRate size

def txRA : Tx := { id := 30, inputs := [⟨0, 0⟩], deps := [], hdeps := [], nout := 1, size := 400, cycles := 0, fee := 1000 }
def txRB : Tx := { id := 31, inputs := [⟨30, 0⟩], deps := [], hdeps := [], nout := 1, size := 300, cycles := 0, fee := 1000 }
def txRT (fee : Nat) : Tx := { id := 32, inputs := [⟨0, 0⟩], deps := [], hdeps := [], nout := 1, size := 500, cycles := 0, fee := fee }

/-- A5. De-duplicating by fee is wrong: A (fee 1000) and its child B (fee 1000 as well) are both replaced
    by T (500 bytes, min_rbf_rate 1500): the rule demands 1000 + 1000 + 750 = 2750, the by-fee variant
    would demand 1750; `check_rbf` refuses 2749 and admits 2750. -/
theorem dedup_by_fee_undercounts_witness :
    let s := run (empty cfg0 [0]) [.add txRA .pending 1, .add txRB .pending 2]
    replacedSet s (txRT 2749) = [30, 31] ∧
    minReplaceFeeDedupByFee s (replacedSet s (txRT 2749)) (txRT 2749).size = 1750 ∧
    minReplaceFee s (replacedSet s (txRT 2749)) (txRT 2749).size = 2750 ∧
    checkRbf s (txRT 2749) = .fee ∧ checkRbf s (txRT 2750) = .ok [30] := by
  decide +kernel

/-- a pooled id has an entry -/
theorem getEntry_isSome_of_pooled {s : Pool} {x : Nat} (h : ∃ t ∈ txs s, t.id = x) : (getEntry s x).isSome := by
  cases hg : getEntry s x with
  | some e => rfl
  | none =>
    obtain ⟨t, ht, hid⟩ := h
    exact absurd hid (getEntry_none hg t ht)

/-- with consistent links the replaced set is the union of what `remove_entry_and_descendants` removes for
    the conflicts (`rmdIds`), taken in the state before the replacement -/
theorem mem_replacedSet_iff_rmd {s : Pool} (hL : LinksOK s) (t : Tx) (x : Nat) :
    x ∈ replacedSet s t ↔ x ∈ (conflictIds s t).flatMap (rmdIds s) := by
  rw [(replacedSet_spec s t).2 x, List.mem_flatMap]
  constructor
  · rintro (h | ⟨c, hc, hx, _⟩)
    · exact ⟨x, h, List.mem_cons_self⟩
    · refine ⟨c, hc, ?_⟩
      by_cases e : x = c
      · rw [e]; exact List.mem_cons_self
      · exact List.mem_cons_of_mem _ (List.mem_filter.mpr ⟨hx, by simpa using e⟩)
  · rintro ⟨c, hc, hm⟩
    rcases List.mem_cons.mp hm with e | hm
    · rw [e]; exact Or.inl hc
    · have hx := (List.mem_filter.mp hm).1
      refine Or.inr ⟨c, hc, hx, ?_⟩
      have hanc := (desc_iff_anc hL.struct c x).mp ((mem_calcDesc hL.struct c x).mp hx)
      have hkey : x ∈ keys s.links := by
        apply Classical.byContradiction
        intro hn
        obtain ⟨p, hp, _⟩ := hanc
        rw [parentsOf_nil_of_not_key hn] at hp; cases hp
      exact getEntry_isSome_of_pooled ((hL.keysEq x).mp hkey).1

/-- A6. A submission — with or without replacement — preserves the pool invariant. -/
theorem rbf_submit_preserves_inv (s : Pool) (h : PoolInvP s) (t : Tx) (st : Status) (ts : Nat) :
    PoolInvP (submit s t st ts).1 :=
  pool_inv_step_partial s (.submit t st ts) h

/-- A7 (i), both directions: `process_rbf` removes exactly the replaced set — a pooled transaction outside
    it survives, one inside it does not. -/
theorem process_rbf_txs_eq (s : Pool) (h : PoolInvP s) (t : Tx) :
    txs (processRbf s (conflictIds s t)).1 = (txs s).filter (·.id ∉ replacedSet s t) := by
  rw [(processRbf_txs _ s h.2.2.1.1).2]
  apply List.filter_congr
  intro x _
  have := mem_replacedSet_iff_rmd h.2.2.1.1 t x.id
  by_cases h1 : x.id ∈ replacedSet s t
  · have h2 := this.mp h1; simp [h1, h2]
  · have h2 : x.id ∉ (conflictIds s t).flatMap (rmdIds s) := fun a => h1 (this.mpr a)
    simp [h1, h2]

theorem process_rbf_removes_only_replaced (s : Pool) (h : PoolInvP s) (t : Tx) :
    ∀ x ∈ txs s, x.id ∉ replacedSet s t → x ∈ txs (processRbf s (conflictIds s t)).1 := by
  intro x hx hn
  rw [process_rbf_txs_eq s h t]
  exact List.mem_filter.mpr ⟨hx, by simpa using hn⟩

/-- non-vacuity: an unrelated pooled transaction survives the replacement of tx10 and tx11 -/
example :
    PoolInvP (run (empty cfg0 [0, 1]) [.add tx10 .pending 1, .add tx11 .pending 2,
      .add { tx10 with id := 40, inputs := [⟨1, 0⟩] } .pending 3]) ∧
    (let s := run (empty cfg0 [0, 1]) [.add tx10 .pending 1, .add tx11 .pending 2,
      .add { tx10 with id := 40, inputs := [⟨1, 0⟩] } .pending 3]
     replacedSet s tx21 = [10, 11] ∧ (txs (processRbf s (conflictIds s tx21)).1).map (·.id) = [40]) :=
  ⟨pool_inv_run_partial _ _ _, by decide +kernel⟩

/-- A6. After a submission that passed the admission test (result `.ok`, `.full`, or a failed `add_entry`
    after the replacement — everything but `.rbf _` / `.dead`), no replaced transaction is pooled, except
    possibly the submitted id itself (a re-submission of a pooled id). Conflicts AND their descendants. -/
theorem rbf_replaced_are_gone (s : Pool) (h : PoolInvP s) (t : Tx) (st : Status) (ts : Nat)
    (hres : ∀ r, (submit s t st ts).2 ≠ .rbf r) (hdead : (submit s t st ts).2 ≠ .dead) :
    ∀ x ∈ replacedSet s t, x ≠ t.id → getEntry (submit s t st ts).1 x = none := by
  intro x hx hne
  have hs1 := process_rbf_txs_eq s h t
  have key : ∀ y ∈ txs (addEntry (processRbf s (conflictIds s t)).1 t st ts).1, y.id ≠ x := by
    intro y hy hid
    rcases addEntry_txs_sub _ t st ts y hy with a | a
    · rw [hs1] at a
      have := (List.mem_filter.mp a).2
      simp only [decide_eq_true_eq] at this
      exact this (by rw [hid]; exact hx)
    · rw [a] at hid; exact hne hid.symm
  rcases submit_eq s t st ts with he | ⟨r, he⟩ | he
  · exact absurd (by rw [he]) hdead
  · exact absurd (by rw [he]) (hres r)
  · rw [he]
    cases hg : getEntry (submitTail s (conflictIds s t) t st ts).1 x with
    | none => rfl
    | some e =>
      exfalso
      obtain ⟨hmem, hid⟩ := getEntry_some hg
      have hmt : e.tx ∈ txs (submitTail s (conflictIds s t) t st ts).1 := List.mem_map.mpr ⟨e, hmem, rfl⟩
      rcases submitTail_cases s (conflictIds s t) t st ts with ⟨_, _, hst, _⟩ | ⟨_, hst⟩
      · rw [hst] at hmt
        exact key _ ((limitSize_shrinks _).2 _ hmt) hid
      · rw [hst] at hmt
        exact key _ hmt hid

/-- the hypothesis form of the task statement: result `.ok` or `.full` -/
theorem rbf_replaced_are_gone_ok (s : Pool) (h : PoolInvP s) (t : Tx) (st : Status) (ts : Nat)
    (hres : (∃ r ev lim, (submit s t st ts).2 = .ok r ev lim) ∨ (∃ r ev lim, (submit s t st ts).2 = .full r ev lim)) :
    ∀ x ∈ replacedSet s t, x ≠ t.id → getEntry (submit s t st ts).1 x = none := by
  apply rbf_replaced_are_gone s h t st ts
  · intro r hr
    rcases hres with ⟨a, b, c, h1⟩ | ⟨a, b, c, h1⟩ <;> (rw [h1] at hr; cases hr)
  · intro hr
    rcases hres with ⟨a, b, c, h1⟩ | ⟨a, b, c, h1⟩ <;> (rw [h1] at hr; cases hr)

/-- non-vacuity of `rbf_replaced_are_gone`: an admitted replacement of a parent and its child -/
example :
    PoolInvP (run (empty cfg0 [0]) [.add tx10 .pending 1, .add tx11 .pending 2]) ∧
    (let s := run (empty cfg0 [0]) [.add tx10 .pending 1, .add tx11 .pending 2]
     replacedSet s tx21 = [10, 11] ∧
      (match (submit s tx21 .pending 3).2 with | .ok r _ _ => r | _ => []) = [10, 11]) :=
  ⟨pool_inv_run_partial _ _ _, by decide +kernel⟩

/-- the total fee of the pool -/
def poolFee (s : Pool) : Nat := (s.entries.map (·.tx.fee)).sum

theorem poolFee_txs (s : Pool) : poolFee s = ((txs s).map (·.fee)).sum := by
  simp only [poolFee, txs, List.map_map]; rfl

/-- A7 (ii). `process_rbf` takes exactly the replaced fees out of the pool: total before = total after +
    the fees of the replaced transactions, each once. -/
theorem process_rbf_fee_split (s : Pool) (h : PoolInvP s) (t : Tx) :
    poolFee (processRbf s (conflictIds s t)).1 + (((replacedSet s t).filterMap (getEntry s)).map (·.tx.fee)).sum
      = poolFee s := by
  have hids : (s.entries.map (·.tx.id)).Nodup := by
    have := h.2.2.1.1.ids
    simp only [txs, List.map_map] at this
    exact this
  have := sum_split (·.tx.fee) s.entries hids (replacedSet s t) (replacedSet_spec s t).1
  rw [← filterMap_getEntry_eq] at this
  rw [poolFee_txs, process_rbf_txs_eq s h t, poolFee, ← this]
  congr 2
  simp only [txs, List.filter_map, List.map_map]
  rfl

/-- A7 (iii). An admitted replacement whose `add_entry` stays within the ancestor limit (so that
    `check_and_record_ancestors` evicts nothing: hypothesis `hlim`, on the state after `process_rbf`) raises
    the total fee of the pool by at least `min_rbf_rate · size / 1000`. -/
theorem rbf_total_fee_grows (s : Pool) (h : PoolInvP s) (t : Tx) (st : Status) (ts : Nat) (c : List Nat)
    (hadm : checkRbf s t = .ok c) (hc : conflictIds s t ≠ []) (s2 : Pool) (ev : List Nat)
    (hadd : addEntry (processRbf s c).1 t st ts = (s2, .ok ev))
    (hlim : (txAncestors (processRbf s c).1 t).1.length + 1 ≤ (processRbf s c).1.cfg.maxAnc) :
    poolFee s2 ≥ poolFee s + rateFee s.cfg.minRbfRate t.size := by
  obtain ⟨hceq, hfee⟩ := rbf_fee_rule s t c hadm hc
  subst hceq
  rw [minReplaceFee_eq] at hfee
  have h1 := process_rbf_fee_split s h t
  obtain ⟨h2, _⟩ := addEntry_ok_within_limit _ t st ts s2 ev hadd hlim
  have h3 : poolFee s2 = poolFee (processRbf s (conflictIds s t)).1 + t.fee := by
    rw [poolFee_txs, h2, poolFee_txs]; simp
  unfold rateFee
  omega

/-- non-vacuity of `rbf_total_fee_grows`: tx21 (fee 510) replaces tx10 and tx11 (fees 100 + 110) -/
example :
    PoolInvP (run (empty cfg0 [0]) [.add tx10 .pending 1, .add tx11 .pending 2]) ∧
    let s := run (empty cfg0 [0]) [.add tx10 .pending 1, .add tx11 .pending 2]
    checkRbf s tx21 = .ok [10] ∧ conflictIds s tx21 ≠ [] ∧
    (addEntry (processRbf s [10]).1 tx21 .pending 3).2 = .ok [] ∧
    (txAncestors (processRbf s [10]).1 tx21).1.length + 1 ≤ (processRbf s [10]).1.cfg.maxAnc ∧
    poolFee s = 210 ∧ poolFee (addEntry (processRbf s [10]).1 tx21 .pending 3).1 = 510 :=
  ⟨pool_inv_run_partial _ _ _, by decide +kernel⟩

/-! ## the class of histories on which the aggregates are exact (B1–B6)

The ghost flag `ghostBad` is set by exactly two code paths: `record_entry_descendants` when it finds pooled
children of the entry being inserted (F3), and `remove_entry` of an entry that has pooled ancestors and
pooled descendants.  The theorems below say which operations can reach those paths. -/

/-- the configuration of /repo: repaired `remove_entry_and_descendants` -/
def cfgR : Cfg := { cfg0 with fixF2 := true }

/-- B1. The repaired `remove_expired` (every expired id leaves with its descendants) never sets the flag. -/
theorem expire_never_taints (s : Pool) (h : LinksOK s) (order : List Nat) :
    (removeExpired s order).ghostBad = s.ghostBad :=
  (gp_removeExpired s.ghostBad order s ⟨h, rfl⟩).2

/-- the operations that never set the flag, whatever their arguments -/
def TaintFree : Op → Prop
  | .rmd _ | .set _ _ | .hdr _ | .limit | .expire _ => True
  | _ => False

/-- B2. `remove_entry_and_descendants`, `set_entry`, `resolve_conflict_header_dep`, `limit_size` and the
    repaired `remove_expired` never set the flag. -/
theorem taint_free_ops (s : Pool) (h : PoolInvP s) (op : Op) (hop : TaintFree op) :
    (step s op).ghostBad = s.ghostBad := by
  have hL : LinksOK s := h.2.2.1.1
  cases op with
  | rmd id => exact removeWithDesc_ghostBad hL id
  | set id st => exact setEntry_ghostBad s id st
  | hdr hs => exact (gp_foldRmd s.ghostBad _ s [] ⟨hL, rfl⟩).2
  | limit => exact (gp_limitLoop s.ghostBad _ s [] ⟨hL, rfl⟩).2
  | expire order => exact expire_never_taints s hL order
  | add _ _ _ => cases hop
  | rm _ => cases hop
  | commit _ => cases hop
  | detach _ => cases hop
  | submit _ _ _ => cases hop

/-- B3. `remove_entry` sets the flag iff the entry is pooled and has both pooled ancestors and pooled
    descendants. -/
theorem rm_taints_iff_between (s : Pool) (id : Nat) :
    (step s (.rm id)).ghostBad = (s.ghostBad || ((getEntry s id).isSome && isBetween s.links id)) :=
  removeEntry_ghostBad_iff s id

/-- B3 for `remove_committed_tx`: only its `remove_entry` of the committed transaction can set the flag
    (the `resolve_conflict` part removes with descendants). -/
theorem commit_taints_iff_between (s : Pool) (h : PoolInvP s) (t : Tx) :
    (step s (.commit t)).ghostBad = (s.ghostBad || ((getEntry s t.id).isSome && isBetween s.links t.id)) :=
  commitTx_ghostBad h.2.2.1.1 t

/-- no pooled transaction references an ACTUAL output of `t` (index below `t.nout`: what
    `record_entry_descendants` looks up), and `t` does not reference one of its own outputs -/
def NoPooledChildren (s : Pool) (t : Tx) : Prop :=
  (∀ x ∈ txs s, ∀ o ∈ x.inputs ++ x.deps, o ∉ outputs t) ∧ (∀ o ∈ t.inputs ++ t.deps, o ∉ outputs t)

instance (s : Pool) (t : Tx) : Decidable (NoPooledChildren s t) := by
  unfold NoPooledChildren; exact inferInstance

/-- B4, sharp form. Inserting — by `add_entry` or by a submission, replacement and evictions included — a
    transaction none of whose actual outputs is referenced from the pool never sets the flag. -/
theorem add_without_pooled_children_never_taints_sharp (s : Pool) (h : PoolInvP s) (t : Tx) (st : Status) (ts : Nat)
    (hno : NoPooledChildren s t) :
    (step s (.add t st ts)).ghostBad = s.ghostBad ∧ (step s (.submit t st ts)).ghostBad = s.ghostBad :=
  ⟨addEntry_ghostBad_of_no_children h.2.2.1.1 t st ts hno.1 hno.2,
    submit_ghostBad_of_no_children h.2.2.1.1 t st ts hno.1 hno.2⟩

/-- B4. No pooled transaction references the id of `t` at all (and `t` does not reference itself): the
    insertion / submission never sets the flag. -/
theorem add_without_pooled_children_never_taints (s : Pool) (h : PoolInvP s) (t : Tx) (st : Status) (ts : Nat)
    (hno : ∀ x ∈ txs s, ∀ o ∈ x.inputs ++ x.deps, o.tx ≠ t.id) (hself : ∀ o ∈ t.inputs ++ t.deps, o.tx ≠ t.id) :
    (step s (.add t st ts)).ghostBad = s.ghostBad ∧ (step s (.submit t st ts)).ghostBad = s.ghostBad :=
  add_without_pooled_children_never_taints_sharp s h t st ts
    ⟨fun x hx o ho hm => hno x hx o ho ((mem_outputs t o).mp hm).1, fun o ho hm => hself o ho ((mem_outputs t o).mp hm).1⟩

/-- B4, exact form. `add_entry` sets the flag iff it succeeds and the new entry ends up with children in
    the link map (`record_entry_descendants` found pooled users of its outputs: F3). -/
theorem add_taints_iff_children (s : Pool) (h : PoolInvP s) (t : Tx) (st : Status) (ts : Nat) :
    (step s (.add t st ts)).ghostBad =
      (s.ghostBad || (addOk (addEntry s t st ts).2 && !(childrenOf (step s (.add t st ts)).links t.id).isEmpty)) :=
  addEntry_ghostBad_iff h.2.2.1.1 t st ts

/-- non-vacuity of `add_taints_iff_children`: both values occur (child before parent / parent before child) -/
example :
    (step (run (empty cfgR [0]) [.add tx11 .pending 1]) (.add tx10 .pending 2)).ghostBad = true ∧
    (step (run (empty cfgR [0]) [.add tx10 .pending 1]) (.add tx11 .pending 2)).ghostBad = false := by
  decide +kernel

/-- On clean histories the link graph is acyclic (a new entry is linked below pooled parents only, unless
    `record_entry_descendants` found children, which sets the flag). -/
theorem links_acyclic_after_clean_history (c : Cfg) (chain : List Nat) (ops : List Op)
    (hclean : (run (empty c chain) ops).ghostBad = false) (y : Nat) : ¬ Anc (run (empty c chain) ops).links y y :=
  (acycInv_closed.run (empty c chain) ops ⟨linksOK_empty c chain, fun _ y ⟨_, hp, _⟩ => by cases hp⟩).2 hclean y

/-- B5 for `remove_by_detached_proposal`, the code in /repo (`fixF2`): on a clean pool with acyclic links it
    never sets the flag — the removed entries come back in the order of their `ancestors_count`, which is
    exact on a clean pool, so parents are re-inserted before their children. -/
theorem detach_never_taints (s : Pool) (h : PoolInvP s) (hac : AcycInv s) (hfix : s.cfg.fixF2 = true)
    (hg : s.ghostBad = false) (ids : List Nat) : (step s (.detach ids)).ghostBad = false :=
  detach_ghost ids s ⟨⟨⟨h.1, h.2.2.1.1, h.2.2.2⟩, h.2.2.1⟩, hac, hfix⟩ hg

/-- non-vacuity of `detach_never_taints`: a clean pool in which a proposed transaction with two descendants
    is detached; all hypotheses hold and the detach is effective (three entries come back as pending) -/
example :
    PoolInvP (run (empty cfgR [0]) (chainOps ++ [.set 10 .proposed])) ∧
    AcycInv (run (empty cfgR [0]) (chainOps ++ [.set 10 .proposed])) ∧
    (let s := run (empty cfgR [0]) (chainOps ++ [.set 10 .proposed])
     s.cfg.fixF2 = true ∧ s.ghostBad = false ∧ s.entries.map (·.status) = [.proposed, .pending, .pending] ∧
      (step s (.detach [10])).entries.map (fun e => (e.tx.id, e.status)) = [(10, .pending), (11, .pending), (12, .pending)]) :=
  ⟨pool_inv_run_partial _ _ _,
    acycInv_closed.run _ _ ⟨linksOK_empty _ _, fun _ y ⟨_, hp, _⟩ => by cases hp⟩, by decide +kernel⟩

/-- B5. The operations that keep a clean pool clean, as a condition on the operation's arguments and the
    state it is applied to: a removal / commit of an entry that is not between pooled ancestors and
    descendants, an insertion / submission of a transaction without pooled children; every
    `remove_entry_and_descendants`, `set_entry`, header-dep resolution, `limit_size`, repaired
    `remove_expired` and `remove_by_detached_proposal` is clean. -/
def CleanOp (s : Pool) : Op → Prop
  | .add t _ _ => NoPooledChildren s t
  | .submit t _ _ => NoPooledChildren s t
  | .rm id => ((getEntry s id).isSome && isBetween s.links id) = false
  | .commit t => ((getEntry s t.id).isSome && isBetween s.links t.id) = false
  | .rmd _ => True
  | .set _ _ => True
  | .hdr _ => True
  | .limit => True
  | .expire _ => True
  | .detach _ => True

instance (s : Pool) : (op : Op) → Decidable (CleanOp s op)
  | .add t _ _ => inferInstanceAs (Decidable (NoPooledChildren s t))
  | .submit t _ _ => inferInstanceAs (Decidable (NoPooledChildren s t))
  | .rm id => inferInstanceAs (Decidable (((getEntry s id).isSome && isBetween s.links id) = false))
  | .commit t => inferInstanceAs (Decidable (((getEntry s t.id).isSome && isBetween s.links t.id) = false))
  | .rmd _ => isTrue trivial
  | .set _ _ => isTrue trivial
  | .hdr _ => isTrue trivial
  | .limit => isTrue trivial
  | .expire _ => isTrue trivial
  | .detach _ => isTrue trivial

/-- every operation of the history is clean in the state it is applied to -/
def CleanRun (s : Pool) : List Op → Prop
  | [] => True
  | op :: l => CleanOp s op ∧ CleanRun (step s op) l

instance cleanRunDecidable : (s : Pool) → (ops : List Op) → Decidable (CleanRun s ops)
  | _, [] => isTrue trivial
  | s, op :: l => @instDecidableAnd _ _ _ (cleanRunDecidable (step s op) l)

/-- a clean operation keeps a clean pool clean (`detach`: for the repaired `remove_entry_and_descendants`) -/
theorem cleanOp_keeps_clean (s : Pool) (h : PoolInvP s) (hac : AcycInv s) (hfix : s.cfg.fixF2 = true)
    (hg : s.ghostBad = false) (op : Op) (hop : CleanOp s op) :
    (step s op).ghostBad = false := by
  cases op with
  | add t st ts => exact ((add_without_pooled_children_never_taints_sharp s h t st ts hop).1).trans hg
  | submit t st ts => exact ((add_without_pooled_children_never_taints_sharp s h t st ts hop).2).trans hg
  | rm id =>
    rw [rm_taints_iff_between, hg]
    have : ((getEntry s id).isSome && isBetween s.links id) = false := hop
    rw [this]; rfl
  | commit t =>
    rw [commit_taints_iff_between s h, hg]
    have : ((getEntry s t.id).isSome && isBetween s.links t.id) = false := hop
    rw [this]; rfl
  | rmd id => exact (taint_free_ops s h (.rmd id) trivial).trans hg
  | set id st => exact (taint_free_ops s h (.set id st) trivial).trans hg
  | hdr hs => exact (taint_free_ops s h (.hdr hs) trivial).trans hg
  | limit => exact (taint_free_ops s h .limit trivial).trans hg
  | expire o => exact (taint_free_ops s h (.expire o) trivial).trans hg
  | detach ids => exact detach_never_taints s h hac hfix hg ids

theorem cleanRun_ghostBad (ops : List Op) (s : Pool) (h : PoolInvP s) (hac : AcycInv s) (hfix : s.cfg.fixF2 = true)
    (hg : s.ghostBad = false) (hrun : CleanRun s ops) : (run s ops).ghostBad = false := by
  induction ops generalizing s with
  | nil => exact hg
  | cons op l ih =>
    exact ih (step s op) (pool_inv_step_partial s op h) (acycInv_closed.step s op hac)
      (by rw [(cfg_closed s.cfg).step s op rfl]; exact hfix)
      (cleanOp_keeps_clean s h hac hfix hg op hrun.1) hrun.2

/-- B5. THE AGGREGATES CLAUSE on the class of clean histories, for the code in /repo (repaired
    `remove_entry_and_descendants`, repaired `remove_expired`): if every operation of a history from the
    empty pool is `CleanOp` in the state it is applied to, then in the final state all eight aggregates of
    every entry equal the recomputation from the links, and `ancestors_count ≤ max_ancestors_count`. -/
theorem aggregates_exact_on_clean_ops (c : Cfg) (hfix : c.fixF2 = true) (chain : List Nat) (ops : List Op)
    (hclean : CleanRun (empty c chain) ops) :
    (run (empty c chain) ops).ghostBad = false ∧
    ∀ e ∈ (run (empty c chain) ops).entries,
      e.anc = recomputeAnc (run (empty c chain) ops) e ∧ e.desc = recomputeDesc (run (empty c chain) ops) e ∧
      e.anc.count ≤ (run (empty c chain) ops).cfg.maxAnc := by
  have hg := cleanRun_ghostBad ops (empty c chain) (poolInvP_empty c chain)
    ⟨linksOK_empty c chain, fun _ y ⟨_, hp, _⟩ => by cases hp⟩ hfix rfl hclean
  refine ⟨hg, fun e he => ?_⟩
  obtain ⟨a, b⟩ := aggregates_after_clean_history_partial c hfix chain ops hg e he
  exact ⟨a, b, ancestor_limit_after_clean_history c chain ops hg e he⟩

/-- non-vacuity of B1–B5: a history with insertions, status changes, a detach of a proposed transaction
    with two descendants (all three come back as pending, in order), removals at the ends of a chain, an
    expiry in the middle of a chain, `limit_size`, a header-dep resolution, a replacement and a commit is a
    clean run; the invariant holds (so `expire_never_taints`, `taint_free_ops`,
    `add_without_pooled_children_never_taints`, `detach_never_taints` apply to its states), and the
    conclusion is observed -/
example :
    let ops := chainOps ++ [.set 10 .proposed, .set 11 .gap, .detach [10], .set 12 .proposed, .rmd 12, .rm 10,
      .add tx12 .pending 4, .expire [11], .limit, .hdr [3], .add tx10 .pending 5, .submit tx21 .pending 9, .commit tx21]
    PoolInvP (run (empty cfgR [0]) ops) ∧
    (cfgR.fixF2 = true ∧ CleanRun (empty cfgR [0]) ops ∧ NoPooledChildren (run (empty cfgR [0]) chainOps) tx21 ∧
      aggOK (run (empty cfgR [0]) ops) = true ∧
      (run (empty cfgR [0]) (chainOps ++ [.set 10 .proposed, .set 11 .gap, .detach [10]])).entries.map
        (fun e => (e.tx.id, e.status, e.anc.count)) = [(10, .pending, 1), (11, .pending, 2), (12, .pending, 3)]) :=
  ⟨pool_inv_run_partial _ _ _, by decide +kernel⟩

/-- non-vacuity of `rm_taints_iff_between` / `commit_taints_iff_between`: both values occur -/
example :
    (step (run (empty cfgR [0]) chainOps) (.rm 11)).ghostBad = true ∧
    (step (run (empty cfgR [0]) chainOps) (.rm 10)).ghostBad = false ∧
    (step (run (empty cfgR [0]) chainOps) (.commit tx10)).ghostBad = false := by
  decide +kernel

/-- B6. `remove_expired` before /repo 3724ae4 (`remove_entry` of the expired ids only): expiry of tx11
    between tx10 and tx12 leaves tx12 pooled although the transaction of its input is gone, the aggregates
    wrong and the flag set; the repaired `remove_expired` on the same input leaves tx10 alone, consistent. -/
theorem expire_prefix_witness :
    let s := run (empty cfgR [0]) chainOps
    (aggOK (removeExpiredPreF5 s [11]) = false ∧ (removeExpiredPreF5 s [11]).entries.map (·.tx.id) = [10, 12] ∧
      getEntry (removeExpiredPreF5 s [11]) 11 = none ∧ (removeExpiredPreF5 s [11]).ghostBad = true) ∧
    (aggOK (removeExpired s [11]) = true ∧ (removeExpired s [11]).entries.map (·.tx.id) = [10] ∧
      (removeExpired s [11]).ghostBad = false) := by
  decide +kernel

def txP : Tx := { id := 50, inputs := [⟨1, 0⟩], deps := [⟨0, 0⟩], hdeps := [], nout := 1, size := 150, cycles := 0, fee := 150 }

/-- B6. The remaining production source of remove-between, with the repaired `remove_entry_and_descendants`:
    `remove_committed_tx` of a transaction that has a pooled parent and pooled children.
    (1) tx11 committed while tx10 and tx12 are pooled; (2) the parent is a CELL-REF parent: pooled P (id 50)
    uses cell 0:0 as a cell dep, tx10 consumes 0:0 (so P is linked as tx10's parent) and has the pooled child
    tx11; committing tx10 first `remove_entry`s it between P and tx11, then `resolve_conflict` removes P:
    tx11 stays with `ancestors_count = 2` (itself and P's stale weight) alone in the pool. -/
theorem commit_between_witness :
    (let s := run (empty cfgR [0]) chainOps
     (commitTx s tx11).1.ghostBad = true ∧ aggOK (commitTx s tx11).1 = false ∧ s.ghostBad = false ∧ aggOK s = true) ∧
    (let s := run (empty cfgR [0, 1]) [.add txP .pending 1, .add tx10 .pending 2, .add tx11 .pending 3]
     s.ghostBad = false ∧ aggOK s = true ∧ parentsOf s.links 10 = [50] ∧
     (commitTx s tx10).1.ghostBad = true ∧ aggOK (commitTx s tx10).1 = false ∧
     (commitTx s tx10).1.entries.map (·.tx.id) = [11] ∧ ancOf (commitTx s tx10).1 11 = some ⟨2, 260, 0, 260⟩) := by
  decide +kernel

/-! ## round 5: replacement WITH evictions, `limit_size` order, `check_and_record_ancestors` limits, block update

Helper lemmas: `Lemmas/PoolEvict.lean`. -/

theorem poolFee_eq' (s : Pool) : poolFee s = poolFee' s := rfl

/-- the fees `check_rbf` charges (`replacedSet`, Props) are the fees of what `process_rbf` removes
    (`rbfRemoved`, Lemmas): both complete the pool's total fee after `process_rbf` to the total before -/
theorem replaced_fees_eq (s : Pool) (h : PoolInvP s) (t : Tx) :
    (((replacedSet s t).filterMap (getEntry s)).map (·.tx.fee)).sum
      = (((rbfRemoved s (conflictIds s t)).filterMap (getEntry s)).map (·.tx.fee)).sum := by
  have h1 := process_rbf_fee_split s h t
  have h2 := processRbf_fee_split' s h.1 h.2.2.1.1 (conflictIds s t)
  rw [poolFee_eq', poolFee_eq'] at h1
  omega

/-- A7 (iii), EXACT, no hypothesis on evictions: for an admitted replacement whose `add_entry` succeeds with
    the evicted list `ev` (the cell-ref parents `check_and_record_ancestors` threw out to get under
    `max_ancestors_count`, with their descendants),
      total fee after + replaced fees + evicted fees = total fee before + fee of the replacement,
    every fee looked up in the state before the submission, every id counted once (`ev` is duplicate-free,
    pooled before, and disjoint from the replaced set). -/
theorem rbf_total_fee_exact (s : Pool) (h : PoolInvP s) (t : Tx) (st : Status) (ts : Nat) (c : List Nat)
    (hadm : checkRbf s t = .ok c) (hc : conflictIds s t ≠ []) (s2 : Pool) (ev : List Nat)
    (hadd : addEntry (processRbf s c).1 t st ts = (s2, .ok ev)) :
    ev.Nodup ∧ (∀ y ∈ ev, (getEntry s y).isSome ∧ y ∉ replacedSet s t) ∧
    poolFee s2 + (((replacedSet s t).filterMap (getEntry s)).map (·.tx.fee)).sum
      + ((ev.filterMap (getEntry s)).map (·.tx.fee)).sum = poolFee s + t.fee := by
  obtain ⟨hceq, _⟩ := rbf_fee_rule s t c hadm hc
  subst hceq
  have hx := rbf_fee_exact' s h.1 h.2.2.1.1 t st ts (conflictIds s t) s2 ev hadd
  have hn := (addEntry_txs_exact _ t st ts s2 ev hadd).1
  have hd := rbf_evicted_not_replaced s h.2.2.1.1 t st ts (conflictIds s t) s2 ev hadd
  refine ⟨hn, fun y hy => ⟨(hd y hy).1, fun hr => (hd y hy).2 ?_⟩, ?_⟩
  · -- replacedSet and rbfRemoved have the same members
    have := (mem_replacedSet_iff_rmd h.2.2.1.1 t y).mp hr
    unfold rbfRemoved
    exact (mem_dedup _ y).mpr this
  · rw [replaced_fees_eq s h t, poolFee_eq', poolFee_eq']; exact hx

/-- WHEN the total fee can drop: an admitted replacement lowers the pool's total fee iff its fee is smaller
    than the replaced fees plus the EVICTED fees.  Since `check_rbf` demands the replaced fees plus the
    increment, a drop needs evictions worth more than the surplus over the replaced fees
    (`rbf_total_fee_grows_unless_evicted`); without evictions it is impossible (`rbf_total_fee_grows`). -/
theorem rbf_total_fee_drops_iff (s : Pool) (h : PoolInvP s) (t : Tx) (st : Status) (ts : Nat) (c : List Nat)
    (hadm : checkRbf s t = .ok c) (hc : conflictIds s t ≠ []) (s2 : Pool) (ev : List Nat)
    (hadd : addEntry (processRbf s c).1 t st ts = (s2, .ok ev)) :
    poolFee s2 < poolFee s ↔
      t.fee < (((replacedSet s t).filterMap (getEntry s)).map (·.tx.fee)).sum
        + ((ev.filterMap (getEntry s)).map (·.tx.fee)).sum := by
  have := (rbf_total_fee_exact s h t st ts c hadm hc s2 ev hadd).2.2
  omega

/-- `rbf_total_fee_grows` without its no-eviction hypothesis: total fee after + evicted fees ≥ total fee
    before + `min_rbf_rate · size / 1000`. -/
theorem rbf_total_fee_grows_unless_evicted (s : Pool) (h : PoolInvP s) (t : Tx) (st : Status) (ts : Nat) (c : List Nat)
    (hadm : checkRbf s t = .ok c) (hc : conflictIds s t ≠ []) (s2 : Pool) (ev : List Nat)
    (hadd : addEntry (processRbf s c).1 t st ts = (s2, .ok ev)) :
    poolFee s2 + ((ev.filterMap (getEntry s)).map (·.tx.fee)).sum ≥ poolFee s + rateFee s.cfg.minRbfRate t.size := by
  have h1 := (rbf_total_fee_exact s h t st ts c hadm hc s2 ev hadd).2.2
  have h2 := (rbf_fee_rule s t c hadm hc).2
  rw [minReplaceFee_eq] at h2
  unfold rateFee
  omega

/-- WITNESS (kernel-evaluated; `Lemmas/PoolEvict.lean` `evS`, `evT`): max_ancestors_count = 2, RBF on; pooled
    Q (fee 200) -> P (fee 100000, uses chain cell 0:2 as a CELL DEP) and A (fee 100, spends 0:0).  T (fee 300)
    spends 0:0 and 0:2: it conflicts with A only, `check_rbf` asks for 100 + 150 = 250 and admits it;
    `add_entry` then counts three ancestors (P, Q and itself), evicts the cell-ref parent P, and succeeds:
    the submission answers ok, replaced [10], evicted [20]; the pool's total fee falls from 100300 to 500. -/
theorem rbf_fee_drop_with_eviction_witness :
    poolFee evS = 100300 ∧ checkRbf evS evT = .ok [10] ∧ evS.ghostBad = false ∧
    (match (submit evS evT .pending 4).2 with | .ok r e l => (r, e, l) | _ => ([], [], [])) = ([10], [20], []) ∧
    poolFee (submit evS evT .pending 4).1 = 500 ∧ (submit evS evT .pending 4).1.entries.map (·.tx.id) = [19, 30] := by
  decide +kernel

/-- non-vacuity of `rbf_total_fee_exact` / `_drops_iff` on the witness: all hypotheses hold, `ev = [20]` -/
example :
    PoolInvP evS ∧
    (checkRbf evS evT = .ok [10] ∧ conflictIds evS evT ≠ [] ∧
     (addEntry (processRbf evS [10]).1 evT .pending 4).2 = .ok [20] ∧ replacedSet evS evT = [10]) :=
  ⟨pool_inv_run_partial _ _ _, by decide +kernel⟩

/-! ### `limit_size` -/

/-- `next_evict_entry(status)`: the victim is pooled with that status and has the MINIMUM evict key
    (fee rate, then descendants_count, then timestamp — `EvictKey::cmp`) among the entries of that status;
    `None` iff no entry has the status. -/
theorem next_evict_is_minimum (s : Pool) (st : Status) :
    (∀ id, nextEvict s st = some id → ∃ e ∈ s.entries, e.tx.id = id ∧ e.status = st ∧
      ∀ x ∈ s.entries, x.status = st → keyLt (evictKey x) (evictKey e) = false) ∧
    (nextEvict s st = none ↔ ∀ x ∈ s.entries, x.status ≠ st) :=
  ⟨fun id h => nextEvict_min s st id h, nextEvict_none_iff s st⟩

/-- `limit_size`, one round: nothing happens while the pool fits; otherwise the victim is the minimum-key
    Pending entry, if there is no Pending entry the minimum-key Gap entry, else the minimum-key Proposed one;
    it leaves with its descendants and the loop continues.  (`limitVictim_spec` spells the preference out.) -/
theorem limit_size_round (f : Nat) (s : Pool) (ev : List Nat) :
    limitLoop (f + 1) s ev =
      if s.totalSize > s.cfg.maxSize then
        match limitVictim s with
        | some id => limitLoop f (removeWithDesc s id).1 (ev ++ idsOf (removeWithDesc s id).2)
        | none => (s, ev)
      else (s, ev) :=
  limitSize_victim_order f s ev

theorem limit_size_victim_preference (s : Pool) (id : Nat) :
    limitVictim s = some id ↔
      nextEvict s .pending = some id ∨
      (nextEvict s .pending = none ∧ nextEvict s .gap = some id) ∨
      (nextEvict s .pending = none ∧ nextEvict s .gap = none ∧ nextEvict s .proposed = some id) :=
  limitVictim_spec s id

/-- `limit_size` after ANY history: it is the identity on a pool that fits, and its result always fits
    (`total_tx_size ≤ max_tx_pool_size`: the fuel of the model's loop is always enough, i.e. the Rust `while`
    loop terminates with the bound established). -/
theorem limit_size_fits_after_any_history (c : Cfg) (chain : List Nat) (ops : List Op) :
    let s := run (empty c chain) ops
    (s.totalSize ≤ s.cfg.maxSize → limitSize s = (s, [])) ∧ (limitSize s).1.totalSize ≤ s.cfg.maxSize :=
  ⟨limitSize_noop _, limitSize_fits _ (pool_inv_run_partial c chain ops).1⟩

/-- non-vacuity: with a 250-byte limit the cheapest entry (tx 10: lowest fee rate) leaves first and alone -/
example : (limitSize evS250).2 = [10] ∧ (limitSize evS250).1.totalSize = 200 ∧ evS250.totalSize = 300 := by
  decide +kernel

/-! ### `check_and_record_ancestors` -/

/-- `add_entry` answers `ExceededMaximumAncestorsCount` exactly when the transaction is new, conflict-free and
    (a) even without its cell-ref parents it has more than `max_ancestors_count` ancestors (itself included), or
    (b) — code in /repo, `fixPanic` — the eviction of cell-ref parents took another parent with it. -/
theorem add_rejects_ancestors_iff (s : Pool) (t : Tx) (st : Status) (ts : Nat) :
    (addEntry s t st ts).2 = .rejAnc ↔
      (getEntry s t.id).isNone ∧ conflictIds s t = [] ∧ t.inputs.Nodup ∧
      (s.cfg.maxAnc < (txAncestors s t).1.length + 1 - (txAncestors s t).2.2.length ∨
        (s.cfg.maxAnc < (txAncestors s t).1.length + 1 ∧ s.cfg.fixPanic = true ∧
          ((evictRun s t).2.2.1.any fun p => (getEntry (evictRun s t).1 p).isNone) = true)) :=
  addEntry_rejAnc_iff_gen s t st ts

/-- the eviction loop stops as soon as the count fits: it removes exactly the first
    `min |candidates| (count − max_ancestors_count)` candidates (in evict-key order) with their descendants,
    and exactly those leave the parent set; within the limit nothing is evicted. -/
theorem evict_loop_is_minimal (cands : List Nat) (s : Pool) (cnt : Nat) (parents ev : List Nat) :
    (evictLoop cands s cnt parents ev).2.1 = cnt - min cands.length (cnt - s.cfg.maxAnc) ∧
    (evictLoop cands s cnt parents ev).2.2.1 = parents.filter (· ∉ cands.take (min cands.length (cnt - s.cfg.maxAnc))) :=
  ⟨evictLoop_stops cands s cnt parents ev, evictLoop_parents_take cands s cnt parents ev⟩

theorem add_within_limit_evicts_nothing (s : Pool) (t : Tx) (st : Status) (ts : Nat) (s2 : Pool) (ev : List Nat)
    (hadd : addEntry s t st ts = (s2, .ok ev)) (hlim : (txAncestors s t).1.length + 1 ≤ s.cfg.maxAnc) : ev = [] :=
  addEntry_no_evict_within_limit s t st ts s2 ev hadd hlim

/-- what `add_entry` does to the set of pooled transactions, exactly: the evicted ids (duplicate-free, all
    pooled before) leave, the new transaction is appended -/
theorem add_entry_txs_exact (s1 : Pool) (t : Tx) (st : Status) (ts : Nat) (s2 : Pool) (ev : List Nat)
    (hadd : addEntry s1 t st ts = (s2, .ok ev)) :
    ev.Nodup ∧ (∀ y ∈ ev, (getEntry s1 y).isSome) ∧ txs s2 = (txs s1).filter (·.id ∉ ev) ++ [t] :=
  addEntry_txs_exact s1 t st ts s2 ev hadd

/-- non-vacuity of `add_rejects_ancestors_iff` (a grandchild beyond the limit) -/
example : (addEntry evS evB .pending 9).2 = .rejAnc ∧ (addEntry evS evA .pending 9).2 = .dup := by decide +kernel

/-! ### the block update (`_update_tx_pool_for_reorg`, attached blocks) -/

/-- a predicate closed under the core operations and blind to the `chain` field is closed under the block update -/
theorem coreClosed_updateForBlock {P : Pool → Prop} (hP : CoreClosed P)
    (hchain : ∀ (s : Pool) (ch : List Nat), P s → P { s with chain := ch })
    (s : Pool) (committed : List Tx) (dh dp g p : List Nat) (now : Nat) (hs : P s) :
    P (updateForBlock s committed dh dp g p now) := by
  unfold Pool.updateForBlock
  simp only
  have h1 := hchain s (s.chain ++ committed.map (·.id)) hs
  have h2 : ∀ (l : List Tx) (x : Pool), P x → P (l.foldl (fun s t => (commitTx s t).1) x) := by
    intro l
    induction l with
    | nil => exact fun _ h => h
    | cons a l ih => exact fun x hx => ih _ (hP.step x (.commit a) hx)
  have h3 := h2 committed _ h1
  generalize committed.foldl (fun s t => (commitTx s t).1) { s with chain := s.chain ++ committed.map (·.id) } = s3 at h3
  have h4 : P (if dh.isEmpty then s3 else (resolveHeaders s3 dh).1) := by
    split
    · exact h3
    · exact hP.step s3 (.hdr dh) h3
  generalize (if dh.isEmpty then s3 else (resolveHeaders s3 dh).1) = s4 at h4
  have h5 : P (detachProposals s4 dp) := hP.step s4 (.detach dp) h4
  generalize detachProposals s4 dp = s5 at h5
  have hset : ∀ (l : List Nat) (st : Status) (x : Pool), P x → P (l.foldl (fun s id => setEntry s id st) x) := by
    intro l st
    induction l with
    | nil => exact fun _ h => h
    | cons a l ih => exact fun x hx => ih _ (hP.set x a st hx)
  have h6 : P (promote s5 g p) := by
    unfold Pool.promote
    exact hset _ _ _ (hset _ _ _ h5)
  generalize promote s5 g p = s6 at h6
  have h7 : P (removeExpired s6 (expiredIds s6 now)) := hP.step s6 (.expire (expiredIds s6 now)) h6
  exact hP.step _ .limit h7

/-- THE BLOCK UPDATE PRESERVES THE INVARIANT: from any state satisfying the proved pool invariant and the
    header-deps clause, `_update_tx_pool_for_reorg` for attached blocks (commits incl. transactions that were
    never pooled, detached proposals, status promotion, expiry, `limit_size`) re-establishes both, and the
    result fits `max_tx_pool_size`. -/
theorem block_update_preserves_inv (s : Pool) (h : PoolInvP s) (hh : HdepOK s)
    (committed : List Tx) (dh dp g p : List Nat) (now : Nat) :
    PoolInvP (updateForBlock s committed dh dp g p now) ∧ HdepOK (updateForBlock s committed dh dp g p now) := by
  have hc : CoreClosed (fun s => (P4 s ∧ LimitOK s ∧ AggInv s) ∧ HdepOK s) :=
    (p4_closed.and (limitOK_closed.and aggInv_closed)).and hdepOK_closed
  have hblind : ∀ (s : Pool) (ch : List Nat), ((P4 s ∧ LimitOK s ∧ AggInv s) ∧ HdepOK s) →
      ((P4 { s with chain := ch } ∧ LimitOK { s with chain := ch } ∧ AggInv { s with chain := ch }) ∧ HdepOK { s with chain := ch }) := by
    intro s ch hs
    have hL : LinksOK { s with chain := ch } := hs.1.1.2.1.congr rfl rfl rfl rfl
    exact ⟨⟨⟨hs.1.1.1, hL, hs.1.1.2.2.congr rfl rfl rfl⟩, hs.1.2.1,
      ⟨hL, fun a b => aggOK_congr rfl rfl (hs.1.2.2.2 a b)⟩⟩, ⟨hs.2.keys, hs.2.own, hs.2.recd⟩⟩
  have := coreClosed_updateForBlock hc hblind s committed dh dp g p now
    ⟨⟨⟨h.1, h.2.2.1.1, h.2.2.2⟩, h.2.1, h.2.2.1⟩, hh⟩
  exact ⟨⟨this.1.1.1, this.1.2.1, this.1.2.2, this.1.1.2.2⟩, this.2⟩

/-- non-vacuity of `block_update_preserves_inv`: tx10 committed, tx11 promoted to proposed, tx12 to gap -/
example :
    let s := run (empty cfgR [0]) chainOps
    (updateForBlock s [tx10] [] [] [12] [11] 5).entries.map (fun e => (e.tx.id, e.status)) = [(11, .proposed), (12, .gap)] ∧
    (updateForBlock s [tx10] [] [] [12] [11] 5).chain = [0, 10] := by
  decide +kernel

/-! ### a pooled transaction can lose an input parent inside `add_entry` (found by the node-level stream) -/

def txOQ : Tx := { id := 100, inputs := [⟨1, 0⟩], deps := [⟨0, 0⟩], hdeps := [], nout := 1, size := 250, cycles := 537, fee := 2000 }
def txOP : Tx := { id := 101, inputs := [⟨100, 0⟩], deps := [⟨0, 0⟩, ⟨2, 0⟩], hdeps := [], nout := 1, size := 287, cycles := 537, fee := 3000 }
def txOT : Tx := { id := 102, inputs := [⟨101, 0⟩, ⟨2, 0⟩], deps := [⟨0, 0⟩], hdeps := [], nout := 1, size := 294, cycles := 537, fee := 4000 }

/-- WITNESS (corpus/C11/node-evicted-cell-ref-parent-is-input-parent.ops, replayed on a real node through
    `submit_local_tx`): max_ancestors_count = 2, the code in /repo (`fixF2`, `fixPanic`).  Q(100) -> P(101), P uses chain
    cell 2:0 as a cell dep; T(102) spends P's output 101:0 AND consumes 2:0.  `check_and_record_ancestors` counts
    3 > 2 ancestors, evicts the cell-ref parent P — which is also an INPUT parent of T —, removes it from `parents`
    (so the post-eviction check does not see it) and admits T: afterwards `edges.inputs` maps 101:0 to the pooled
    T although transaction 101 is neither pooled nor on the chain; T has no parent link and `ancestors_count = 1`.
    All proved clauses (no double spend, edges, links between POOLED transactions, aggregates) hold in that state:
    the defect is outside them — the pool's content is no longer resolvable against chain + pool. -/
theorem evicted_input_parent_orphan_witness :
    let s := run (empty { cfg0 with maxAnc := 2, fixF2 := true, fixPanic := true } [0, 1, 2, 3, 4])
      [.submit txOQ .pending 1, .submit txOP .pending 2]
    s.entries.map (·.tx.id) = [100, 101] ∧
    (match (submit s txOT .pending 3).2 with | .ok r e l => (r, e, l) | _ => ([], [], [0])) = ([], [101], []) ∧
    (submit s txOT .pending 3).1.entries.map (·.tx.id) = [100, 102] ∧
    inputUser (submit s txOT .pending 3).1 ⟨101, 0⟩ = some 102 ∧
    getEntry (submit s txOT .pending 3).1 101 = none ∧ 101 ∉ (submit s txOT .pending 3).1.chain ∧
    parentsOf (submit s txOT .pending 3).1.links 102 = [] ∧ ancOf (submit s txOT .pending 3).1 102 = some ⟨1, 294, 537, 4000⟩ ∧
    (submit s txOT .pending 3).1.ghostBad = false ∧ aggOK (submit s txOT .pending 3).1 = true := by
  decide +kernel

/-! ### the repaired ancestor-limit eviction (/repo 10e306f, F33; `Cfg.fixF33`, the code of /repo) -/

/-- The witness above is a statement about `check_and_record_ancestors` as it was BEFORE /repo 10e306f
    (`fixF33 = false`).  In the repaired code the candidates of the ancestor-limit eviction exclude every
    pooled transaction whose output the new entry spends or references, in every state: -/
theorem eviction_candidates_exclude_needed_parents (s : Pool) (t : Tx) (h33 : s.cfg.fixF33 = true) :
    ∀ c ∈ evictCands s t, c ∉ neededIds t := by
  intro c hc
  unfold evictCands at hc
  obtain ⟨x, hx, rfl⟩ := List.mem_map.mp hc
  exact cellRef_not_needed s t h33 _ (by simpa using (List.mem_filter.mp hx).2)

/-- Repaired code (`fixF33`, `fixPanic`: /repo 10e306f and b7267ec), every state with consistent links (every
    reachable state: `links_ok_reachable`), every transaction: when `add_entry` admits `t`, none of the evicted
    transactions is a pooled creator of an out-point `t` spends or references — neither as a candidate (excluded
    up front) nor as a descendant of an evicted candidate (then the post-eviction parent check refuses `t`) —,
    and every such creator is still pooled afterwards: an admitted entry never loses an input parent inside
    `add_entry`. -/
theorem repaired_add_entry_keeps_input_parents (s : Pool) (hL : LinksOK s) (t : Tx) (st : Status) (ts : Nat)
    (s2 : Pool) (ev : List Nat) (h33 : s.cfg.fixF33 = true) (hP : s.cfg.fixPanic = true)
    (hadd : addEntry s t st ts = (s2, .ok ev)) :
    ∀ p ∈ neededIds t, (getEntry s p).isSome → p ∉ ev ∧ ∃ x ∈ txs s2, x.id = p := by
  intro p hn hp
  have hmem := (mem_idsOf_iff s p).mpr hp
  rw [idsOf_eq_txs] at hmem
  obtain ⟨x, hx, hxp⟩ := List.mem_map.mp hmem
  have hkey : hasLink s.links p = true := by
    have := (pooled_iff_key hL p).mpr ⟨x, hx, hxp⟩
    unfold hasLink keys at *
    simp only [List.any_eq_true, decide_eq_true_eq, List.mem_map] at this ⊢
    obtain ⟨kl, a, b⟩ := this
    exact ⟨kl, a, b⟩
  have hnot := addEntry_keeps_needed s t st ts s2 ev h33 hP hadd p hn hkey
  refine ⟨hnot, x, ?_, hxp⟩
  rw [(addEntry_txs_exact s t st ts s2 ev hadd).2.2]
  exact List.mem_append.mpr (Or.inl (List.mem_filter.mpr ⟨hx, by simpa [hxp] using hnot⟩))

/-- the history of `evicted_input_parent_orphan_witness` on the repaired code (replayed on the real node by
    corpus/C11/node-evicted-cell-ref-parent-is-input-parent.ops): P is no candidate, the limit cannot be met,
    T is refused with `ExceededMaximumAncestorsCount` and the pool is unchanged.  Non-vacuity of the two
    theorems above: a reachable state over the limit with a needed cell-ref parent. -/
theorem evicted_input_parent_repaired :
    let s := run (empty { cfg0 with maxAnc := 2, fixF2 := true, fixPanic := true, fixF33 := true } [0, 1, 2, 3, 4])
      [.submit txOQ .pending 1, .submit txOP .pending 2]
    s.entries.map (·.tx.id) = [100, 101] ∧ 101 ∈ neededIds txOT ∧ evictCands s txOT = [] ∧
    (match (submit s txOT .pending 3).2 with | .ok _ _ _ => 0 | .add .rejAnc => 1 | _ => 2) = 1 ∧
    (submit s txOT .pending 3).1.entries.map (·.tx.id) = [100, 101] := by
  decide +kernel

/-- non-vacuity of `repaired_add_entry_keeps_input_parents` with a real eviction on the repaired code:
    Q(19) <- P(20, cell dep on the chain cell 0:2); T(31) consumes 0:2 and is over the limit of 2 only through the
    cell-ref parent P, whose outputs T does not use: P is a candidate, is evicted, and T is admitted. -/
example :
    let s := run (empty { evCfg with fixF2 := true, fixPanic := true, fixF33 := true } [0]) [.add evQ .pending 1, .add evP .pending 2]
    let t : Tx := { id := 31, inputs := [⟨0, 2⟩], deps := [], hdeps := [], nout := 1, size := 100, cycles := 0, fee := 300 }
    s.cfg.fixF33 = true ∧ s.cfg.fixPanic = true ∧ neededIds t = [0] ∧ evictCands s t = [20] ∧
    (addEntry s t .pending 9).2 = .ok [20] ∧ idsOf (addEntry s t .pending 9).1.entries = [19, 31] := by
  decide +kernel

end CkbVerif.C11
