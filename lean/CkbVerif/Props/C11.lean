/-
C11 — the transaction pool's contents and bookkeeping are always mutually consistent.

Model: `CkbVerif/Model/Pool.lean` (PoolMap + the TxPool-level operations, as the code is; the repairs
are switches of `Cfg`: `fixF2`, `fixPanic` — both in /repo — and the candidate repairs `fixF3`, `fixMid`,
not in /repo).  `Op` / `step` / `run`: all ten operations (add, rm, rmd, set, commit, hdr, limit, expire,
detach, submit), defined in `Lemmas/PoolLift.lean`.

PROVED for ALL operation sequences (induction over the history; every state, every configuration):
  * `pool_inv_step_partial` / `pool_inv_run_partial`: `PoolInvP` = `EdgeOK` ∧ `LimitOK` ∧ `AggInv` is an
    invariant.  Spelled out by the corollaries
      - `no_double_spend_after_any_history`      no two pooled transactions spend the same cell;
                                                 `edges.inputs` = the pooled inputs, as a function;
      - `counts_and_totals_after_any_history`    pending / gap / proposed counters and total size / cycles;
      - `links_after_any_history`                link keys = pooled ids, parents and children converse to
                                                 each other, both ends of every link pooled;
      - `ancestor_limit_after_clean_history`     ancestors_count ≤ max_ancestors_count   (clean histories);
      - `aggregates_after_clean_history_partial` all eight aggregates = recomputation from the links, for
                                                 the repaired remove_entry_and_descendants (the code in /repo),
                                                 on clean histories;
      - `derived_links_after_any_history`        a link ⇔ an actual spend / dependency between two pooled
                                                 transactions; `edges.deps` = the pooled cell deps;
      - `calcAnc_is_reachability`                the closure the pool computes is graph reachability.
    "clean history" = the ghost flag `ghostBad` of the final state is false, i.e. neither of the two
    remaining bad patterns occurred: an entry inserted while one of its children is pooled (F3), or
    `remove_entry` of an entry with both pooled ancestors and pooled descendants (remove-between).
    `commit` is included: `resolve_conflict` strips the input edge before it removes the entry; at the
    edge level removals commute with the strip and the strip is the identity once the owner is gone
    (`Lemmas/PoolEdge.lean`, `strip_then_remove`).
  * `rbf_admit_iff`, `rbf_fee_rule`, `rbf_no_coexistence`: the replacement rule and its effect.
PROVED by concrete witnesses (kernel evaluation on 3-transaction histories, each replayed on the real code:
corpus/C11/*.ops): the aggregates clause is FALSE on histories with the two patterns — `f3_*`, `mid_*` —
and was false for the unrepaired code — `f2_witness`; `add_entry` could panic — `panic_witness`;
`*_repaired_witness`: the same histories under the corresponding repair are consistent.

NOT proved (correspondence run + independent oracle only):
  * `edges.header_deps` = the pooled header deps (the header-dep map is in the model and in the tie, not in
    the invariant);
  * the aggregates and the limit on histories with the two patterns (false there: the witnesses), and
    the aggregates for the candidate repairs `fixF3` / `fixMid` (witnesses + correspondence only).
The full target statement (kept for reference):
  theorem pool_inv_step (s : Pool) (op : Op) : PoolInv s → PoolInv (step s op)
    where PoolInv s := InputsOK s ∧ links = derivedLinks ∧ (∀ e, e.anc = recomputeAnc s e ∧ e.desc = recomputeDesc s e)
                       ∧ CountsOK s ∧ (∀ e, e.anc.count ≤ s.cfg.maxAnc) ∧ EdgesOK s
  It is false as stated for the code as it is (F3, remove-between).
-/
import CkbVerif.Lemmas.PoolEdge
import CkbVerif.Lemmas.PoolLimit
import CkbVerif.Lemmas.PoolLinks
import CkbVerif.Lemmas.PoolAgg
import CkbVerif.Lemmas.PoolDerived
namespace CkbVerif.C11
open CkbVerif.Pool

/-! `Op`, `step`, `run`, `empty` are defined in `Lemmas/PoolLift.lean` (all ten operations of the model,
`commit` included). -/

/-- The proved part of the pool invariant:
    * `EdgeOK (edge s)`: `edges.inputs` lists exactly the inputs of the pooled transactions and is a function
      (no two pooled transactions spend the same cell), ids are unique, the three per-status counters equal the
      number of entries of that status, `total_tx_size` / `total_tx_cycles` equal the sums over the entries;
    * `LimitOK s`: if neither bad pattern occurred in the history (`ghostBad = false`), every entry's
      `ancestors_count` is at most `max_ancestors_count`;
    * `LinksOK s`: the link map's keys are exactly the pooled ids, parents / children lists are duplicate-free
      and converse to each other (every link joins two pooled transactions), and every id that
      `edges.deps` / `edges.inputs` names as user of an out-point is pooled and references that out-point;
    * the aggregates clause inside `AggInv s`: for the repaired `remove_entry_and_descendants`
      (`cfg.fixF2`, the code in /repo since 77bbef6) and as long as neither bad pattern occurred
      (`ghostBad = false`), all eight aggregates of every entry equal the recomputation from the links;
    * `DerivedOK s`: `p` is linked as a parent of `c` only if `c` references an out-point of `p` or consumes
      a cell `p` uses as a cell dep, every reference to an actual output of a pooled transaction is a link,
      and `edges.deps` records every cell dep of every pooled transaction. -/
def PoolInvP (s : Pool) : Prop := EdgeOK (edge s) ∧ LimitOK s ∧ AggInv s ∧ DerivedOK s

theorem linksOK_empty (c : Cfg) (chain : List Nat) : LinksOK (empty c chain) :=
  ⟨List.nodup_nil, List.nodup_nil, fun _ _ h => (by cases h), fun _ h => (by cases h),
    ⟨List.nodup_nil, fun _ _ => ⟨fun h => (by cases h), fun h => (by cases h)⟩, fun _ => List.nodup_nil, fun _ => List.nodup_nil⟩,
    fun _ => ⟨fun h => (by cases h), fun ⟨⟨_, h, _⟩, _⟩ => (by cases h)⟩⟩

theorem poolInvP_empty (c : Cfg) (chain : List Nat) : PoolInvP (empty c chain) :=
  ⟨edgeOK_empty c chain, (fun _ _ h => (by cases h)), ⟨linksOK_empty c chain, fun _ _ _ h => (by cases h)⟩,
    ⟨fun _ h => (by cases h), fun _ h => (by cases h), fun _ h => (by cases h)⟩⟩

/-- PARTIAL (see the header): every one of the ten operations — `commit` with its two-phase
    `resolve_conflict` included — preserves `PoolInvP`, from every state, for every configuration
    (code as written or any combination of the repairs). -/
theorem pool_inv_step_partial (s : Pool) (op : Op) (h : PoolInvP s) : PoolInvP (step s op) :=
  ⟨edgeOK_step s op h.1, limitOK_closed.step s op h.2.1, aggInv_closed.step s op h.2.2.1,
    (p4_closed.step s op ⟨h.1, h.2.2.1.1, h.2.2.2⟩).2.2⟩

theorem pool_inv_run_partial (c : Cfg) (chain : List Nat) (ops : List Op) : PoolInvP (run (empty c chain) ops) := by
  suffices ∀ s, PoolInvP s → PoolInvP (run s ops) from this _ (poolInvP_empty c chain)
  induction ops with
  | nil => exact fun _ h => h
  | cons op l ih => exact fun s h => ih _ (pool_inv_step_partial s op h)

/-- After ANY history, no two pooled transactions spend the same cell. -/
theorem no_double_spend_after_any_history (c : Cfg) (chain : List Nat) (ops : List Op)
    (a b : Entry) (ha : a ∈ (run (empty c chain) ops).entries) (hb : b ∈ (run (empty c chain) ops).entries)
    (o : OutPt) (oa : o ∈ a.tx.inputs) (ob : o ∈ b.tx.inputs) : a.tx = b.tx :=
  (pool_inv_run_partial c chain ops).1.inputsOK.no_double_spend
    (List.mem_map.mpr ⟨a, ha, rfl⟩) (List.mem_map.mpr ⟨b, hb, rfl⟩) oa ob

/-- After ANY history the per-status counts and the totals match the entries. -/
theorem counts_and_totals_after_any_history (c : Cfg) (chain : List Nat) (ops : List Op) :
    let s := run (empty c chain) ops
    s.pending = (s.entries.filter (·.status = .pending)).length ∧
    s.gap = (s.entries.filter (·.status = .gap)).length ∧
    s.proposed = (s.entries.filter (·.status = .proposed)).length ∧
    s.totalSize = (s.entries.map (·.tx.size)).sum ∧ s.totalCycles = (s.entries.map (·.tx.cycles)).sum := by
  intro s
  have h := (pool_inv_run_partial c chain ops).1
  have hc : ∀ st, cntSt st (edge s).cores = (s.entries.filter (·.status = st)).length := by
    intro st
    simp only [cntSt, edge, List.map_map]
    induction s.entries with
    | nil => rfl
    | cons e l ih =>
      simp only [List.map_cons, List.sum_cons, List.filter_cons, Function.comp]
      rw [ih]
      by_cases hs : e.status = st
      · have : (Entry.core e).2.1 = st := hs
        simp [hs, this]; omega
      · have : ¬ (Entry.core e).2.1 = st := hs
        simp [hs, this]
  refine ⟨h.cP.trans (hc _), h.cG.trans (hc _), h.cR.trans (hc _), ?_, ?_⟩
  · have := h.size; simp only [edge, List.map_map] at this; exact this
  · have := h.cycles; simp only [edge, List.map_map] at this; exact this

/-- On every history in which neither bad pattern occurred, the maintained `ancestors_count` of every
    entry respects `max_ancestors_count`. -/
theorem ancestor_limit_after_clean_history (c : Cfg) (chain : List Nat) (ops : List Op)
    (hclean : (run (empty c chain) ops).ghostBad = false) :
    ∀ e ∈ (run (empty c chain) ops).entries, e.anc.count ≤ (run (empty c chain) ops).cfg.maxAnc :=
  (pool_inv_run_partial c chain ops).2.1 hclean

/-- After ANY history: a transaction has a link entry iff it is pooled, `p` is listed as a parent of `c`
    iff `c` is listed as a child of `p`, and both ends of every link are pooled. -/
theorem links_after_any_history (c : Cfg) (chain : List Nat) (ops : List Op) :
    let s := run (empty c chain) ops
    (∀ id, id ∈ keys s.links ↔ ∃ e ∈ s.entries, e.tx.id = id) ∧
    (∀ p c, p ∈ parentsOf s.links c ↔ c ∈ childrenOf s.links p) ∧
    (∀ p c, p ∈ parentsOf s.links c → (∃ e ∈ s.entries, e.tx.id = p) ∧ (∃ e ∈ s.entries, e.tx.id = c)) := by
  intro s
  have h := (pool_inv_run_partial c chain ops).2.2.1.1
  have hk : ∀ id, id ∈ keys s.links ↔ ∃ e ∈ s.entries, e.tx.id = id := by
    intro id
    rw [h.keysEq id]
    simp only [txs, List.mem_map, List.not_mem_nil, not_false_eq_true, and_true]
    constructor
    · rintro ⟨t, ⟨e, he, rfl⟩, hid⟩; exact ⟨e, he, hid⟩
    · rintro ⟨e, he, hid⟩; exact ⟨e.tx, ⟨e, he, rfl⟩, hid⟩
  refine ⟨hk, h.struct.sym, fun p c hp => ?_⟩
  obtain ⟨a, b⟩ := h.struct.parent_key hp
  exact ⟨(hk p).mp a, (hk c).mp b⟩

/-- THE LINKS CLAUSE, derived direction, after ANY history: a parent/child link between two pooled transactions
    corresponds to an actual reference (`c` spends or depends on an out-point of `p`, or consumes a cell that
    `p` only references), and vice versa every reference to an actual output of a pooled transaction is a
    link; `edges.deps` lists exactly the cell deps of the pooled transactions. -/
theorem derived_links_after_any_history (c : Cfg) (chain : List Nat) (ops : List Op) :
    let s := run (empty c chain) ops
    (∀ tp ∈ txs s, ∀ tc ∈ txs s, tp.id ∈ parentsOf s.links tc.id → refsTx tp tc ∨ consumesDep tp tc) ∧
    (∀ tp ∈ txs s, ∀ tc ∈ txs s, spendsOut tp tc → tp.id ∈ parentsOf s.links tc.id) ∧
    (∀ o id, id ∈ depUsers s o ↔ ∃ t ∈ txs s, t.id = id ∧ o ∈ t.deps) := by
  intro s
  have h := pool_inv_run_partial c chain ops
  refine ⟨h.2.2.2.sound, h.2.2.2.complete, fun o id => ⟨h.2.2.1.1.depOwn o id, ?_⟩⟩
  rintro ⟨t, ht, rfl, ho⟩
  exact h.2.2.2.depRecd t ht o ho (by simp)

/-- the configuration is never changed by an operation -/
theorem cfg_after_any_history (c : Cfg) (chain : List Nat) (ops : List Op) : (run (empty c chain) ops).cfg = c :=
  (cfg_closed c).run _ ops rfl

/-- THE AGGREGATES CLAUSE for the code as it is in /repo (repaired `remove_entry_and_descendants`), on every
    history in which neither remaining bad pattern occurred (`ghostBad` stays false: no entry was inserted
    while one of its children was pooled, no `remove_entry` hit an entry with both pooled ancestors and
    pooled descendants): the ancestors and descendants aggregates (count, size, cycles, fee) of every
    entry equal the recomputation from the current links.  PARTIAL with respect to the property: the two
    patterns are excluded by hypothesis (they are the known findings F3 and remove-between). -/
theorem aggregates_after_clean_history_partial (c : Cfg) (hfix : c.fixF2 = true) (chain : List Nat) (ops : List Op)
    (hclean : (run (empty c chain) ops).ghostBad = false) :
    ∀ e ∈ (run (empty c chain) ops).entries,
      e.anc = recomputeAnc (run (empty c chain) ops) e ∧ e.desc = recomputeDesc (run (empty c chain) ops) e :=
  (pool_inv_run_partial c chain ops).2.2.1.2 (by rw [cfg_after_any_history]; exact hfix) hclean

/-- the closure the model computes (`calc_ancestors`) is the set of nodes reachable along parent links,
    after any history -/
theorem calcAnc_is_reachability (c : Cfg) (chain : List Nat) (ops : List Op) (x y : Nat) :
    y ∈ calcAnc (run (empty c chain) ops).links x ↔ Anc (run (empty c chain) ops).links x y :=
  mem_calcAnc (pool_inv_run_partial c chain ops).2.2.1.1.struct x y

/-! ## concrete histories -/

def tx10 : Tx := { id := 10, inputs := [⟨0, 0⟩], deps := [], hdeps := [], nout := 1, size := 100, cycles := 0, fee := 100 }
def tx11 : Tx := { id := 11, inputs := [⟨10, 0⟩], deps := [], hdeps := [], nout := 1, size := 110, cycles := 0, fee := 110 }
def tx12 : Tx := { id := 12, inputs := [⟨11, 0⟩], deps := [], hdeps := [], nout := 1, size := 120, cycles := 0, fee := 120 }
def cfg0 : Cfg := { maxAnc := 25, maxSize := 1000000, minFeeRate := 1000, minRbfRate := 1500, expiry := 3600000 }

/-- the aggregates clause as a decidable check: every entry's eight aggregates equal the recomputation -/
def aggOK (s : Pool) : Bool := s.entries.all fun e => e.anc = recomputeAnc s e ∧ e.desc = recomputeDesc s e
def descOf (s : Pool) (id : Nat) : Option W := (getEntry s id).map (·.desc)
def ancOf (s : Pool) (id : Nat) : Option W := (getEntry s id).map (·.anc)

def chainOps : List Op := [.add tx10 .pending 1, .add tx11 .pending 2, .add tx12 .pending 3]

/-- non-vacuity of the invariant theorem and of `aggOK`: a chain of three is consistent -/
example : aggOK (run (empty cfg0 [0]) chainOps) = true ∧ (run (empty cfg0 [0]) chainOps).entries.length = 3 := by
  decide +kernel

/-- non-vacuity of `aggregates_after_clean_history_partial`: a history with insertions, a removal with
    descendants below a surviving parent, a root removal and a status change is clean -/
example :
    let s := run (empty { cfg0 with fixF2 := true } [0]) (chainOps ++ [.set 12 .proposed, .rmd 12, .rm 10])
    s.ghostBad = false ∧ s.cfg.fixF2 = true ∧ s.entries.length = 1 ∧ aggOK s = true := by
  decide +kernel

/-- F2 (corpus/C11/f2-remove-with-descendants.ops): tx10 -> tx11 -> tx12, remove tx11 with descendants:
    tx10 keeps descendants_count = 3 although it is alone in the pool. -/
theorem f2_witness :
    let s := run (empty cfg0 [0]) (chainOps ++ [.rmd 11])
    aggOK s = false ∧ descOf s 10 = some ⟨3, 330, 0, 330⟩ ∧ s.entries.length = 1 := by
  decide +kernel

/-- the same history under the repaired `remove_entry_and_descendants` is consistent -/
theorem f2_repaired_witness :
    let s := run (empty { cfg0 with fixF2 := true } [0]) (chainOps ++ [.rmd 11])
    aggOK s = true ∧ descOf s 10 = some ⟨1, 100, 0, 100⟩ := by
  decide +kernel

/-- F3 (corpus/C11/f3-parent-after-children.ops): child first, then its parent: the parent's descendants
    aggregate counts only itself while the links say it has a child. -/
theorem f3_witness :
    let s := run (empty cfg0 [0]) [.add tx11 .pending 1, .add tx10 .pending 2]
    aggOK s = false ∧ descOf s 10 = some ⟨1, 100, 0, 100⟩ ∧ childrenOf s.links 10 = [11] := by
  decide +kernel

/-- F3, ancestors side (corpus/C11/f3-grandparent-ancestors.ops): pooled in the order 10, 12, 11:
    tx12's ancestors aggregate misses tx10 (count 2 instead of 3). -/
theorem f3_ancestors_witness :
    let s := run (empty cfg0 [0]) [.add tx10 .pending 1, .add tx12 .pending 2, .add tx11 .pending 3]
    aggOK s = false ∧ ancOf s 12 = some ⟨2, 230, 0, 230⟩ ∧ (calcAnc s.links 12).length = 2 := by
  decide +kernel

/-- F3 defeats the ancestor limit: with max_ancestors_count = 2 the same order leaves tx12 with two
    pooled ancestors (three transactions in its package). -/
theorem f3_limit_witness :
    let s := run (empty { cfg0 with maxAnc := 2 } [0]) [.add tx10 .pending 1, .add tx12 .pending 2, .add tx11 .pending 3]
    (calcAnc s.links 12).length + 1 = 3 ∧ s.cfg.maxAnc = 2 ∧ s.entries.length = 3 := by
  decide +kernel

/-- remove_entry of a transaction between a pooled ancestor and a pooled descendant
    (corpus/C11/mid-remove-entry.ops; `remove_expired` does this in slab order, corpus/C11/expire-order.ops):
    tx10 keeps tx12 as a descendant and tx12 keeps tx10 as an ancestor although they are no longer linked. -/
theorem mid_witness :
    let s := run (empty cfg0 [0]) (chainOps ++ [.rm 11])
    aggOK s = false ∧ descOf s 10 = some ⟨2, 220, 0, 220⟩ ∧ ancOf s 12 = some ⟨2, 220, 0, 220⟩
      ∧ calcDesc s.links 10 = [] ∧ calcAnc s.links 12 = [] := by
  decide +kernel

/-- the F3 histories under the proposed repair of `record_entry_descendants` (work/C11-fix-F3.diff) are consistent -/
theorem f3_repaired_witness :
    let c := { cfg0 with fixF3 := true }
    aggOK (run (empty c [0]) [.add tx11 .pending 1, .add tx10 .pending 2]) = true ∧
    aggOK (run (empty c [0]) [.add tx10 .pending 1, .add tx12 .pending 2, .add tx11 .pending 3]) = true := by
  decide +kernel

/-- the remove-between history under the proposed repair of `remove_entry` (work/C11-fix-mid.diff) is consistent -/
theorem mid_repaired_witness :
    let s := run (empty { cfg0 with fixMid := true } [0]) (chainOps ++ [.rm 11])
    aggOK s = true ∧ descOf s 10 = some ⟨1, 100, 0, 100⟩ ∧ ancOf s 12 = some ⟨1, 120, 0, 120⟩ := by
  decide +kernel

def txA : Tx := { id := 10, inputs := [⟨0, 0⟩], deps := [⟨0, 4⟩], hdeps := [], nout := 1, size := 100, cycles := 0, fee := 100 }
def txT : Tx := { id := 12, inputs := [⟨0, 4⟩, ⟨11, 0⟩], deps := [], hdeps := [], nout := 1, size := 120, cycles := 0, fee := 120 }

/-- `PoolMap::add_entry` panics (corpus/C11/panic-evicted-parent.ops): tx A references cell 0:4 as a cell
    dep, tx11 is A's child, T consumes 0:4 and an output of tx11, max_ancestors_count = 2: the eviction
    path removes A together with tx11, tx11 stays in `parents`, `get_by_id_checked` fails. -/
theorem panic_witness :
    let s := run (empty { cfg0 with maxAnc := 2 } [0]) [.add txA .pending 1, .add tx11 .pending 2]
    (addEntry s txT .pending 3).2 = .panic := by
  decide +kernel

/-- the same submission under the repaired `check_and_record_ancestors` (work/C11-fix-panic.diff) is
    rejected (`ExceededMaximumAncestorsCount`) after the eviction, and the pool stays consistent -/
theorem panic_repaired_witness :
    let s := run (empty { cfg0 with maxAnc := 2, fixPanic := true } [0]) [.add txA .pending 1, .add tx11 .pending 2]
    (addEntry s txT .pending 3).2 = .rejAnc ∧ aggOK (addEntry s txT .pending 3).1 = true := by
  decide +kernel

/-! ## replacement (RBF) -/

/-- the transactions a replacement removes: the conflicting ones and their pooled descendants -/
def replacedSet (s : Pool) (t : Tx) : List Nat :=
  dedup (conflictIds s t ++ (dedup ((conflictIds s t).map (calcDesc s.links) |>.flatMap id)).filter
    fun d => (getEntry s d).isSome)

/-- the structural rules of `check_rbf` (rules 2 and 5, and the cell-dep rule) -/
def RbfStruct (s : Pool) (t : Tx) : Prop :=
  let conflicts := conflictIds s t
  let cinputs := (conflicts.filterMap (getEntry s)).flatMap fun (e : Entry) => e.tx.inputs
  let descs := conflicts.map fun c => calcDesc s.links c
  let alldIn := (dedup (descs.flatMap id)).filter fun d => (getEntry s d).isSome
  (¬ t.inputs.any (fun pt => pt ∉ cinputs ∧ pt.tx ∉ s.chain)) ∧
  (¬ descs.foldl (fun n d => n + d.length + 1) 0 > Gen.Pool.MAX_REPLACEMENT_CANDIDATES) ∧
  (¬ descs.any (fun d => d.any (· ∈ calcAnc s.links t.id))) ∧
  (¬ t.inputs.any (fun pt => pt.tx ∈ alldIn)) ∧
  (¬ t.deps.any (fun pt => pt.tx ∈ dedup (conflicts ++ alldIn)))

/-- `check_rbf` admits a conflicting transaction iff the structural rules hold and its fee is at least the
    sum of the fees of everything it replaces plus `min_rbf_rate * size / 1000`. -/
theorem rbf_admit_iff (s : Pool) (t : Tx) (hc : conflictIds s t ≠ []) :
    checkRbf s t = .ok (conflictIds s t) ↔
      RbfStruct s t ∧ minReplaceFee s (replacedSet s t) t.size ≤ t.fee := by
  unfold checkRbf RbfStruct replacedSet
  simp only [List.isEmpty_iff, hc, if_false]
  constructor
  · intro h
    split at h <;> try (cases h; done)
    split at h <;> try (cases h; done)
    split at h <;> try (cases h; done)
    split at h <;> try (cases h; done)
    split at h <;> try (cases h; done)
    split at h <;> try (cases h; done)
    rename_i h1 h2 h3 h4 h5 h6
    exact ⟨⟨h1, h2, h3, h4, h5⟩, Nat.le_of_not_lt h6⟩
  · rintro ⟨⟨h1, h2, h3, h4, h5⟩, h6⟩
    rw [if_neg h1, if_neg h2, if_neg h3, if_neg h4, if_neg h5, if_neg (Nat.not_lt.mpr h6)]

/-- `check_rbf` never answers with a different conflict set, and never admits below the fee rule. -/
theorem rbf_fee_rule (s : Pool) (t : Tx) (c : List Nat) (h : checkRbf s t = .ok c) (hc : conflictIds s t ≠ []) :
    c = conflictIds s t ∧ minReplaceFee s (replacedSet s t) t.size ≤ t.fee := by
  have hc' : c = conflictIds s t := by
    unfold checkRbf at h
    simp only [List.isEmpty_iff, hc, if_false] at h
    split at h <;> try (cases h; done)
    split at h <;> try (cases h; done)
    split at h <;> try (cases h; done)
    split at h <;> try (cases h; done)
    split at h <;> try (cases h; done)
    split at h <;> try (cases h; done)
    injection h with h; exact h.symm
  subst hc'
  exact ⟨rfl, ((rbf_admit_iff s t hc).mp h).2⟩

/-- `min_replace_fee` is the plain sum of the replaced fees plus the increment -/
theorem minReplaceFee_eq (s : Pool) (ids : List Nat) (size : Nat) :
    minReplaceFee s ids size = ((ids.filterMap (getEntry s)).map (·.tx.fee)).sum + s.cfg.minRbfRate * size / Gen.Pool.KW := by
  unfold minReplaceFee rateFee
  congr 1
  generalize ids.filterMap (getEntry s) = l
  suffices ∀ n, l.foldl (fun acc e => acc + e.tx.fee) n = n + (l.map (·.tx.fee)).sum by simpa using this 0
  induction l with
  | nil => intro n; simp
  | cons a l ih => intro n; simp only [List.foldl_cons, List.map_cons, List.sum_cons]; rw [ih]; omega

/-- After a submission — admitted, replaced, rejected or evicted again — a pooled transaction that shares
    an input with the submitted one IS the submitted one: the replaced and the replacing transaction
    never coexist (from any state reachable by the modelled operations). -/
theorem rbf_no_coexistence (s : Pool) (h : InputsOK s) (t : Tx) (st : Status) (ts : Nat)
    (a b : Entry) (ha : a ∈ (submit s t st ts).1.entries) (hb : b ∈ (submit s t st ts).1.entries)
    (hat : a.tx.id = t.id) (o : OutPt) (oa : o ∈ a.tx.inputs) (ob : o ∈ b.tx.inputs) : b.tx.id = t.id := by
  have := (inputsOK_submit h t st ts).no_double_spend
    (List.mem_map.mpr ⟨a, ha, rfl⟩) (List.mem_map.mpr ⟨b, hb, rfl⟩) oa ob
  rw [← this]; exact hat

def tx20 : Tx := { id := 20, inputs := [⟨0, 0⟩], deps := [], hdeps := [], nout := 1, size := 200, cycles := 0, fee := 509 }
def tx21 : Tx := { id := 21, inputs := [⟨0, 0⟩], deps := [], hdeps := [], nout := 1, size := 200, cycles := 0, fee := 510 }

/-- the fee boundary (corpus/C11/rbf-replace.ops): replacing tx10 (fee 100) and its child tx11 (fee 110)
    with a 200-byte transaction at min_rbf_rate 1500 needs 100 + 110 + 300 = 510: 509 is refused, 510 is
    admitted and afterwards tx10 and tx11 are gone. -/
example :
    let s := run (empty cfg0 [0]) [.add tx10 .pending 1, .add tx11 .pending 2]
    checkRbf s tx20 = .fee ∧ checkRbf s tx21 = .ok [10] ∧
      ((submit s tx21 .pending 3).1.entries.map (·.tx.id)) = [21] := by
  decide +kernel

end CkbVerif.C11
