import CkbVerif.Lemmas.MoleculeAccess
import CkbVerif.Gen.Schemas
/-!
# C16 — bytes from peers can be rejected but never crash the node or forge a block

(a) `verified_accessors_in_bounds_*`: for every schema, once `verify` (the generated
`Reader::verify(slice, compatible)`) has accepted a byte string, every header read and every slice
computed by the generated accessors (`tableField`, `dynItem`, `fixItem`, `structField`, union /
option inner) lies inside the buffer, and the sub-slice handed to the nested reader is itself
verified — so the statement composes along any accessor path. This is about the layout
arithmetic; absence of panics in the Rust accessors themselves is the correspondence sweep under
`catch_unwind` (a fuzz result), see checks/C16.json.
-/
namespace CkbVerif.C16
open CkbVerif.Molecule

/-- table field accessor `i` (strict or compatible mode, with or without extra fields) -/
theorem verified_accessors_in_bounds_table (c : Bool) (f : Schema) (fs : List Schema) (bs : Bytes)
    (h : verify c (.table (f :: fs)) bs = true) (i : Nat) (hi : i < (f :: fs).length) :
    (tableField (f :: fs).length i bs).safe bs ∧
    verify c ((f :: fs).getD i .byte)
      (slice bs (tableField (f :: fs).length i bs).start (tableField (f :: fs).length i bs).stop) = true := by
  simp only [verify] at h
  split at h
  · simp at h
  · rename_i offs ho
    simp only [Bool.and_eq_true] at h
    obtain ⟨hfc, hvl⟩ := h
    obtain ⟨k, hk1, hlen, hhdr, h8, hnum, hfcnt, hlast, hget, hstep, hle⟩ := dynHeader_offsets bs offs ho
    generalize hn : (f :: fs).length = n at *
    have hnk : n ≤ k := by
      simp only [fieldCountOk, Bool.and_eq_true, decide_eq_true_eq] at hfc
      omega
    obtain ⟨b, hb, hvb⟩ := verifyL_get c (f :: fs) (slices bs offs) i hvl (by omega)
    rw [slices_get bs offs i (by omega)] at hb
    simp only [Option.some.injEq] at hb
    have hse : (tableField n i bs).start = offs.getD i 0 ∧ (tableField n i bs).stop = offs.getD (i + 1) 0 ∧
        (∀ p ∈ (tableField n i bs).reads, p + 4 ≤ bs.length) := by
      have e4 : 4 * (i + 1) + 4 = 4 * (i + 1 + 1) := by omega
      unfold tableField
      simp only [e4]
      split
      · rename_i h1
        refine ⟨(hget i (by omega)).symm, ?_, ?_⟩
        · rw [hget (i + 1) (by omega)]
        · intro p hp
          simp only [List.mem_cons, List.mem_nil_iff, or_false] at hp
          omega
      · split
        · rename_i h1 h2
          rw [hfcnt] at h2
          refine ⟨(hget i (by omega)).symm, ?_, ?_⟩
          · rw [hget (i + 1) (by omega)]
          · intro p hp
            simp only [List.mem_cons, List.mem_nil_iff, or_false] at hp
            omega
        · rename_i h1 h2
          rw [hfcnt] at h2
          have hkn : k = n := by
            apply Classical.byContradiction
            intro hc; exact h2 hc
          have hin : i + 1 = k := by omega
          refine ⟨(hget i (by omega)).symm, ?_, ?_⟩
          · rw [hin, hlast]
          · intro p hp
            simp only [List.mem_cons, List.mem_nil_iff, or_false] at hp
            omega
    obtain ⟨hs, he, hr⟩ := hse
    refine ⟨⟨hr, ?_, ?_⟩, ?_⟩
    · rw [hs, he]; exact hstep i (by omega)
    · rw [he]; exact hle (i + 1) (by omega)
    · rw [hs, he, hb]; exact hvb

/-- dynvec `get(i)` for `i < len()` -/
theorem verified_accessors_in_bounds_dynvec (c : Bool) (it : Schema) (bs : Bytes)
    (h : verify c (.dynvec it) bs = true) (i : Nat) (hi : i < fieldCount bs) :
    (dynItem i bs).safe bs ∧ verify c it (slice bs (dynItem i bs).start (dynItem i bs).stop) = true := by
  simp only [verify] at h
  split at h
  · rename_i he
    simp only [isEmptyDyn, Bool.and_eq_true, beq_iff_eq] at he
    simp [fieldCount, he.2] at hi
  · split at h
    · simp at h
    · rename_i offs ho
      obtain ⟨k, hk1, hlen, hhdr, h8, hnum, hfcnt, hlast, hget, hstep, hle⟩ := dynHeader_offsets bs offs ho
      rw [hfcnt] at hi
      have hall := List.all_eq_true.mp h
      have hsl := slices_get bs offs i (by omega)
      have hmem : slice bs (offs.getD i 0) (offs.getD (i + 1) 0) ∈ slices bs offs :=
        List.mem_of_getElem? hsl
      have hv := hall _ hmem
      have hse : (dynItem i bs).start = offs.getD i 0 ∧ (dynItem i bs).stop = offs.getD (i + 1) 0 ∧
          (∀ p ∈ (dynItem i bs).reads, p + 4 ≤ bs.length) := by
        have e1 : 4 * (1 + i) = 4 * (i + 1) := by omega
        have e4 : 4 * (i + 1) + 4 = 4 * (i + 1 + 1) := by omega
        unfold dynItem
        simp only [hfcnt, e1, e4]
        split
        · rename_i h1
          have hin : i + 1 = k := by omega
          refine ⟨?_, ?_, ?_⟩
          · rw [hget i hi]
          · rw [hin, hlast]
          · intro p hp
            simp only [List.mem_cons, List.mem_nil_iff, or_false] at hp
            omega
        · rename_i h1
          refine ⟨?_, ?_, ?_⟩
          · rw [hget i hi]
          · rw [hget (i + 1) (by omega)]
          · intro p hp
            simp only [List.mem_cons, List.mem_nil_iff, or_false] at hp
            omega
      obtain ⟨hs, he, hr⟩ := hse
      refine ⟨⟨hr, ?_, ?_⟩, ?_⟩
      · rw [hs, he]; exact hstep i hi
      · rw [he]; exact hle (i + 1) (by omega)
      · rw [hs, he]; exact hv

/-- fixvec `get(i)` for `i < item_count()` -/
theorem verified_accessors_in_bounds_fixvec (c : Bool) (it : Schema) (bs : Bytes) (hw : wf (.fixvec it) = true)
    (h : verify c (.fixvec it) bs = true) (i : Nat) (hi : i < num bs) :
    (fixItem (size it) i bs).safe bs ∧
    verify c it (slice bs (fixItem (size it) i bs).start (fixItem (size it) i bs).stop) = true := by
  simp only [verify, Bool.and_eq_true, decide_eq_true_eq, beq_iff_eq] at h
  simp only [wf, Bool.and_eq_true] at hw
  have hmul : size it * (i + 1) ≤ size it * num bs := Nat.mul_le_mul_left _ (by omega)
  rw [Nat.mul_succ] at hmul
  have hstop : 4 + size it * i + size it ≤ bs.length := by omega
  refine ⟨⟨?_, ?_, ?_⟩, ?_⟩
  · intro p hp
    simp only [fixItem, List.mem_cons, List.mem_nil_iff, or_false] at hp
    omega
  · simp [fixItem]
  · simpa [fixItem] using hstop
  · rw [verify_eq_decode c it _ hw.2, fixed_decode c it _ hw.1 hw.2]
    simp only [fixItem, beq_iff_eq]
    rw [slice_length _ _ _ hstop]
    omega

/-- union `to_enum()`: the id read and the inner slice `&slice[4..]` -/
theorem verified_accessors_in_bounds_union (c : Bool) (ids : List Nat) (its : List Schema) (bs : Bytes)
    (h : verify c (.union ids its) bs = true) :
    4 ≤ bs.length ∧ verifyU c ids its (num bs) (bs.drop 4) = true := by
  simpa [verify] using h

/-- option `to_opt()`: the whole slice is the inner reader's slice when non-empty -/
theorem verified_accessors_in_bounds_option (c : Bool) (it : Schema) (bs : Bytes)
    (h : verify c (.option it) bs = true) (hne : bs ≠ []) : verify c it bs = true := by
  simp only [verify, Bool.or_eq_true] at h
  cases h with
  | inl he => exact absurd (List.isEmpty_iff.mp he) hne
  | inr hv => exact hv

/-- fixed-size types (byte / array / struct): the static field / item offsets end at `TOTAL_SIZE` -/
theorem verified_accessors_in_bounds_struct (c : Bool) (fs : List Schema) (bs : Bytes)
    (h : verify c (.struct fs) bs = true) (i : Nat) (hi : i < fs.length) :
    sizeL (fs.take i) + size (fs.getD i .byte) ≤ bs.length := by
  simp only [verify, beq_iff_eq] at h
  rw [h]
  clear h
  induction fs generalizing i with
  | nil => simp at hi
  | cons f fs ih =>
    cases i with
    | zero => simp [sizeL]
    | succ i =>
      have := ih i (by simpa using hi)
      simp only [List.take_succ_cons, sizeL, List.getD_cons_succ]
      omega

/-- the zero-field table (`table InIBD {}`) in compatible mode accepts slices whose `field_count()`
accessor would read past the end: the model's `fieldCount` reads position 4 of a 5-byte slice.
(This is the one place where "verified ⇒ every accessor in bounds" is false for the generated
code; it is unreachable for the sync protocol because non-`SendBlock` messages are re-verified in
strict mode — see `Compact.gate`.) -/
theorem empty_table_compat_field_count_out_of_bounds :
    verify true (.table []) [5, 0, 0, 0, 9] = true ∧ ¬ (4 + 4 ≤ ([5, 0, 0, 0, 9] : Bytes).length) := by
  decide +kernel

/-! non-vacuity -/
example : verify true (.table [.byte, .fixvec .byte]) [18, 0, 0, 0, 12, 0, 0, 0, 13, 0, 0, 0, 5, 1, 0, 0, 0, 9] = true := by
  decide +kernel
example : (tableField 2 1 [18, 0, 0, 0, 12, 0, 0, 0, 13, 0, 0, 0, 5, 1, 0, 0, 0, 9]).start = 13 ∧
    (tableField 2 1 [18, 0, 0, 0, 12, 0, 0, 0, 13, 0, 0, 0, 5, 1, 0, 0, 0, 9]).stop = 18 := by decide +kernel

end CkbVerif.C16
