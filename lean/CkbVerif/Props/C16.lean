import CkbVerif.Lemmas.MoleculeAccess
import CkbVerif.Lemmas.Compact
import CkbVerif.Lemmas.Frame
import CkbVerif.Lemmas.Exchange
import CkbVerif.Lemmas.Alert
import CkbVerif.Lemmas.UnclePos
import CkbVerif.Model.LightGuards
import CkbVerif.Model.Frame
import CkbVerif.Gen.Schemas
/-!
# C16 — bytes from peers can be rejected but never crash the node or forge a block

(a) `verified_accessors_in_bounds_*`: for every schema, once `verify` (the generated
`Reader::verify(slice, compatible)`) has accepted a byte string, every header read and every slice
computed by the generated accessors (`tableField`, `dynItem`, `fixItem`, `structField`, union /
option inner) lies inside the buffer, and the sub-slice handed to the nested reader is itself
verified — so the statement composes along any accessor path. This is about the layout
arithmetic; absence of panics in the Rust accessors themselves is the correspondence sweep under
`catch_unwind` (a fuzz result), see checks/C16.json.
-/
namespace CkbVerif.C16
open CkbVerif.Molecule

/-- table field accessor `i` (strict or compatible mode, with or without extra fields) -/
theorem verified_accessors_in_bounds_table (c : Bool) (f : Schema) (fs : List Schema) (bs : Bytes)
    (h : verify c (.table (f :: fs)) bs = true) (i : Nat) (hi : i < (f :: fs).length) :
    (tableField (f :: fs).length i bs).safe bs ∧
    verify c ((f :: fs).getD i .byte)
      (slice bs (tableField (f :: fs).length i bs).start (tableField (f :: fs).length i bs).stop) = true := by
  simp only [verify] at h
  split at h
  · simp at h
  · rename_i offs ho
    simp only [Bool.and_eq_true] at h
    obtain ⟨hfc, hvl⟩ := h
    obtain ⟨k, hk1, hlen, hhdr, h8, hnum, hfcnt, hlast, hget, hstep, hle⟩ := dynHeader_offsets bs offs ho
    generalize hn : (f :: fs).length = n at *
    have hnk : n ≤ k := by
      simp only [fieldCountOk, Bool.and_eq_true, decide_eq_true_eq] at hfc
      omega
    obtain ⟨b, hb, hvb⟩ := verifyL_get c (f :: fs) (slices bs offs) i hvl (by omega)
    rw [slices_get bs offs i (by omega)] at hb
    simp only [Option.some.injEq] at hb
    have hse : (tableField n i bs).start = offs.getD i 0 ∧ (tableField n i bs).stop = offs.getD (i + 1) 0 ∧
        (∀ p ∈ (tableField n i bs).reads, p + 4 ≤ bs.length) := by
      have e4 : 4 * (i + 1) + 4 = 4 * (i + 1 + 1) := by omega
      unfold tableField
      simp only [e4]
      split
      · rename_i h1
        refine ⟨(hget i (by omega)).symm, ?_, ?_⟩
        · rw [hget (i + 1) (by omega)]
        · intro p hp
          simp only [List.mem_cons, List.mem_nil_iff, or_false] at hp
          omega
      · split
        · rename_i h1 h2
          rw [hfcnt] at h2
          refine ⟨(hget i (by omega)).symm, ?_, ?_⟩
          · rw [hget (i + 1) (by omega)]
          · intro p hp
            simp only [List.mem_cons, List.mem_nil_iff, or_false] at hp
            omega
        · rename_i h1 h2
          rw [hfcnt] at h2
          have hkn : k = n := by
            apply Classical.byContradiction
            intro hc; exact h2 hc
          have hin : i + 1 = k := by omega
          refine ⟨(hget i (by omega)).symm, ?_, ?_⟩
          · rw [hin, hlast]
          · intro p hp
            simp only [List.mem_cons, List.mem_nil_iff, or_false] at hp
            omega
    obtain ⟨hs, he, hr⟩ := hse
    refine ⟨⟨hr, ?_, ?_⟩, ?_⟩
    · rw [hs, he]; exact hstep i (by omega)
    · rw [he]; exact hle (i + 1) (by omega)
    · rw [hs, he, hb]; exact hvb

/-- dynvec `get(i)` for `i < len()` -/
theorem verified_accessors_in_bounds_dynvec (c : Bool) (it : Schema) (bs : Bytes)
    (h : verify c (.dynvec it) bs = true) (i : Nat) (hi : i < fieldCount bs) :
    (dynItem i bs).safe bs ∧ verify c it (slice bs (dynItem i bs).start (dynItem i bs).stop) = true := by
  simp only [verify] at h
  split at h
  · rename_i he
    simp only [isEmptyDyn, Bool.and_eq_true, beq_iff_eq] at he
    simp [fieldCount, he.2] at hi
  · split at h
    · simp at h
    · rename_i offs ho
      obtain ⟨k, hk1, hlen, hhdr, h8, hnum, hfcnt, hlast, hget, hstep, hle⟩ := dynHeader_offsets bs offs ho
      rw [hfcnt] at hi
      have hall := List.all_eq_true.mp h
      have hsl := slices_get bs offs i (by omega)
      have hmem : slice bs (offs.getD i 0) (offs.getD (i + 1) 0) ∈ slices bs offs :=
        List.mem_of_getElem? hsl
      have hv := hall _ hmem
      have hse : (dynItem i bs).start = offs.getD i 0 ∧ (dynItem i bs).stop = offs.getD (i + 1) 0 ∧
          (∀ p ∈ (dynItem i bs).reads, p + 4 ≤ bs.length) := by
        have e1 : 4 * (1 + i) = 4 * (i + 1) := by omega
        have e4 : 4 * (i + 1) + 4 = 4 * (i + 1 + 1) := by omega
        unfold dynItem
        simp only [hfcnt, e1, e4]
        split
        · rename_i h1
          have hin : i + 1 = k := by omega
          refine ⟨?_, ?_, ?_⟩
          · rw [hget i hi]
          · rw [hin, hlast]
          · intro p hp
            simp only [List.mem_cons, List.mem_nil_iff, or_false] at hp
            omega
        · rename_i h1
          refine ⟨?_, ?_, ?_⟩
          · rw [hget i hi]
          · rw [hget (i + 1) (by omega)]
          · intro p hp
            simp only [List.mem_cons, List.mem_nil_iff, or_false] at hp
            omega
      obtain ⟨hs, he, hr⟩ := hse
      refine ⟨⟨hr, ?_, ?_⟩, ?_⟩
      · rw [hs, he]; exact hstep i hi
      · rw [he]; exact hle (i + 1) (by omega)
      · rw [hs, he]; exact hv

/-- fixvec `get(i)` for `i < item_count()` -/
theorem verified_accessors_in_bounds_fixvec (c : Bool) (it : Schema) (bs : Bytes) (hw : wf (.fixvec it) = true)
    (h : verify c (.fixvec it) bs = true) (i : Nat) (hi : i < num bs) :
    (fixItem (size it) i bs).safe bs ∧
    verify c it (slice bs (fixItem (size it) i bs).start (fixItem (size it) i bs).stop) = true := by
  simp only [verify, Bool.and_eq_true, decide_eq_true_eq, beq_iff_eq] at h
  simp only [wf, Bool.and_eq_true] at hw
  have hmul : size it * (i + 1) ≤ size it * num bs := Nat.mul_le_mul_left _ (by omega)
  rw [Nat.mul_succ] at hmul
  have hstop : 4 + size it * i + size it ≤ bs.length := by omega
  refine ⟨⟨?_, ?_, ?_⟩, ?_⟩
  · intro p hp
    simp only [fixItem, List.mem_cons, List.mem_nil_iff, or_false] at hp
    omega
  · simp [fixItem]
  · simpa [fixItem] using hstop
  · rw [verify_eq_decode c it _ hw.2, fixed_decode c it _ hw.1 hw.2]
    simp only [fixItem, beq_iff_eq]
    rw [slice_length _ _ _ hstop]
    omega

/-- union `to_enum()`: the id read and the inner slice `&slice[4..]` -/
theorem verified_accessors_in_bounds_union (c : Bool) (ids : List Nat) (its : List Schema) (bs : Bytes)
    (h : verify c (.union ids its) bs = true) :
    4 ≤ bs.length ∧ verifyU c ids its (num bs) (bs.drop 4) = true := by
  simpa [verify] using h

/-- option `to_opt()`: the whole slice is the inner reader's slice when non-empty -/
theorem verified_accessors_in_bounds_option (c : Bool) (it : Schema) (bs : Bytes)
    (h : verify c (.option it) bs = true) (hne : bs ≠ []) : verify c it bs = true := by
  simp only [verify, Bool.or_eq_true] at h
  cases h with
  | inl he => exact absurd (List.isEmpty_iff.mp he) hne
  | inr hv => exact hv

/-- fixed-size types (byte / array / struct): the static field / item offsets end at `TOTAL_SIZE` -/
theorem verified_accessors_in_bounds_struct (c : Bool) (fs : List Schema) (bs : Bytes)
    (h : verify c (.struct fs) bs = true) (i : Nat) (hi : i < fs.length) :
    sizeL (fs.take i) + size (fs.getD i .byte) ≤ bs.length := by
  simp only [verify, beq_iff_eq] at h
  rw [h]
  clear h
  induction fs generalizing i with
  | nil => simp at hi
  | cons f fs ih =>
    cases i with
    | zero => simp [sizeL]
    | succ i =>
      have := ih i (by simpa using hi)
      simp only [List.take_succ_cons, sizeL, List.getD_cons_succ]
      omega

/-- the zero-field table (`table InIBD {}`) in compatible mode accepts slices whose `field_count()`
accessor would read past the end: the model's `fieldCount` reads position 4 of a 5-byte slice.
(This is the one place where "verified ⇒ every accessor in bounds" is false for the generated
code; it is unreachable for the sync protocol because non-`SendBlock` messages are re-verified in
strict mode — see `Compact.gate`.) -/
theorem empty_table_compat_field_count_out_of_bounds :
    verify true (.table []) [5, 0, 0, 0, 9] = true ∧ ¬ (4 + 4 ≤ ([5, 0, 0, 0, 9] : Bytes).length) := by
  decide +kernel

/-! non-vacuity -/
example : verify true (.table [.byte, .fixvec .byte]) [18, 0, 0, 0, 12, 0, 0, 0, 13, 0, 0, 0, 5, 1, 0, 0, 0, 9] = true := by
  decide +kernel
example : (tableField 2 1 [18, 0, 0, 0, 12, 0, 0, 0, 13, 0, 0, 0, 5, 1, 0, 0, 0, 9]).start = 13 ∧
    (tableField 2 1 [18, 0, 0, 0, 12, 0, 0, 0, 13, 0, 0, 0, 5, 1, 0, 0, 0, 9]).stop = 18 := by decide +kernel

/-! ## (a') the extension slot (F16): `extra_field(0)` / `extension()` -/

open CkbVerif.Compact in
/-- on a table accepted in compatible mode, `extra_field(index)` reads and slices inside the buffer -/
theorem extension_accessor_in_bounds (f : Schema) (fs : List Schema) (bs : Bytes) (index : Nat)
    (h : verify true (.table (f :: fs)) bs = true) (a : Access)
    (ha : extraFieldAccess (f :: fs).length index bs = some a) : a.safe bs := by
  simp only [verify] at h
  split at h
  · simp at h
  · rename_i offs ho
    obtain ⟨k, hk1, hlen, hhdr, h8, hnum, hfcnt, hlast, hget, hstep, hle⟩ := dynHeader_offsets bs offs ho
    generalize (f :: fs).length = n at *
    unfold extraFieldAccess at ha
    simp only [hfcnt] at ha
    split at ha
    · rename_i hc
      have e1 : (1 + n + index) * 4 = 4 * (n + index + 1) := by omega
      have e2 : (1 + n + index) * 4 + 4 = 4 * (n + index + 1 + 1) := by omega
      split at ha
      · rename_i hlastf
        simp only [Option.some.injEq] at ha
        subst ha
        refine ⟨?_, ?_, Nat.le_refl _⟩
        · intro p hp
          simp only [List.mem_cons, List.mem_nil_iff, or_false] at hp
          omega
        · show num (bs.drop ((1 + n + index) * 4)) ≤ bs.length
          rw [e1, ← hget (n + index) (by omega)]
          exact hle (n + index) (by omega)
      · rename_i hnl
        simp only [Option.some.injEq] at ha
        subst ha
        refine ⟨?_, ?_, ?_⟩
        · intro p hp
          simp only [List.mem_cons, List.mem_nil_iff, or_false] at hp
          omega
        · show num (bs.drop ((1 + n + index) * 4)) ≤ num (bs.drop ((1 + n + index) * 4 + 4))
          have e3 : 4 * (n + index + 1) + 4 = 4 * (n + index + 1 + 1) := by omega
          rw [e1, e3, ← hget (n + index) (by omega), ← hget (n + index + 1) (by omega)]
          exact hstep (n + index) (by omega)
        · show num (bs.drop ((1 + n + index) * 4 + 4)) ≤ bs.length
          rw [e2, ← hget (n + index + 1) (by omega)]
          exact hle (n + index + 1) (by omega)
    · simp at ha

open CkbVerif.Compact in
/-- `extension()` is total and yields only strictly valid `Bytes` (a malformed extra field is `none`) -/
theorem extension_total_and_valid (n : Nat) (bs d : Bytes) (h : extensionOf n bs = some d) :
    verify false CkbVerif.Gen.Schemas.S.Bytes d = true := by
  unfold extensionOf at h
  split at h
  · simp only at h
    split at h
    · rename_i hv
      simp only [Option.some.injEq] at h
      subst h
      exact hv
    · simp at h
  · simp at h

/-! ## (c) compact-block reconstruction -/

section Reconstruct
open CkbVerif.Compact

variable (h : Hashes) (cb : CB) (received : List Tx) (pool : Nat → Option Tx) (src : Nat → UncleSrc) (fromPeer : List Nat)

/-- If reconstruction yields a block, it is the block the compact header commits to: same header
(hence same hash — with F19 repaired this is unconditional), its transaction list is the slot
layout of the compact block with every slot resolved (prefilled entries verbatim, every other
position a transaction that was looked up under the short id listed for it), the recomputed
transactions root / proposals hash / extra hash equal the header's, proposals and extension are
the compact block's, and no uncle is missing. -/
theorem reconstruct_sound (b : Block) (hr : reconstruct h cb received pool src fromPeer = .block b) :
    b.header = cb.header ∧
    h.root b.txs = cb.header.txRoot ∧ h.phash b.proposals = cb.header.proposalsHash ∧
    h.ehash b.uncles b.extension = cb.header.extraHash ∧
    b.proposals = cb.proposals ∧ b.extension = cb.extension ∧
    b.txs.map some = (layout cb).map (resolve (txsMap cb received pool)) ∧
    unclesGo src fromPeer cb.uncles 0 = some (b.uncles, []) := by
  unfold reconstruct at hr
  simp only at hr
  split at hr
  · simp at hr
  · rename_i uncles mu hu
    split at hr
    · rename_i txs hall
      split at hr
      · split at hr <;> simp at hr
      · split at hr
        · simp at hr
        · rename_i hroot hhd
          simp only [Result.block.injEq] at hr
          subst hr
          have hhd' : resetHeader h cb.header txs cb.proposals uncles cb.extension = cb.header := by
            apply Classical.byContradiction
            intro hc; exact hhd hc
          have hf := congrArg Header.txRoot hhd'
          have hp := congrArg Header.proposalsHash hhd'
          have he := congrArg Header.extraHash hhd'
          simp only [resetHeader] at hf hp he
          exact ⟨hhd', hf, hp, he, rfl, rfl, allSome_map_some _ _ hall, hu⟩
    · simp at hr

/-- every transaction placed at a short-id position carries exactly that short id
(the pool is assumed to answer a short id only with a transaction of that short id) -/
theorem reconstruct_short_positions (b : Block) (hpool : ∀ sid t, pool sid = some t → t.sid = sid)
    (hr : reconstruct h cb received pool src fromPeer = .block b) (i : Nat) (sid : Nat)
    (hs : (layout cb)[i]? = some (.short sid)) : ∃ t, b.txs[i]? = some t ∧ t.sid = sid := by
  have hmap := (reconstruct_sound h cb received pool src fromPeer b hr).2.2.2.2.2.2.1
  have h1 : (b.txs.map some)[i]? = ((layout cb).map (resolve (txsMap cb received pool)))[i]? := by rw [hmap]
  simp only [List.getElem?_map, hs, Option.map_some, resolve] at h1
  cases hb : b.txs[i]? with
  | none => simp [hb] at h1
  | some t =>
    simp only [hb, Option.map_some, Option.some.injEq] at h1
    exact ⟨t, rfl, txsMap_sid cb received pool hpool sid t h1.symm⟩

/-- … and prefilled positions carry the prefilled transaction itself -/
theorem reconstruct_prefilled_positions (b : Block)
    (hr : reconstruct h cb received pool src fromPeer = .block b) (i : Nat) (t : Tx)
    (hs : (layout cb)[i]? = some (.pre t)) : b.txs[i]? = some t := by
  have hmap := (reconstruct_sound h cb received pool src fromPeer b hr).2.2.2.2.2.2.1
  have h1 : (b.txs.map some)[i]? = ((layout cb).map (resolve (txsMap cb received pool)))[i]? := by rw [hmap]
  simp only [List.getElem?_map, hs, Option.map_some, resolve] at h1
  cases hb : b.txs[i]? with
  | none => simp [hb] at h1
  | some t' => simpa [hb] using h1

/-- a prefilled transaction sits at the index it declares, provided the indexes can be honoured
(`fits`: ascending, each gap coverable by the remaining short ids — what `PrefilledVerifier`
establishes; the implication `cbVerify cb = none → fits …` itself is not proved here, it is tied
by the correspondence run) -/
theorem reconstruct_prefilled_at_index (b : Block) (hf : fits cb.prefilled cb.shortIds.length 0)
    (hr : reconstruct h cb received pool src fromPeer = .block b) (idx : Nat) (t : Tx)
    (hm : (idx, t) ∈ cb.prefilled) : b.txs[idx]? = some t := by
  have := (layoutGo_pre_at cb.prefilled cb.shortIds 0 hf idx t hm).2
  exact reconstruct_prefilled_positions h cb received pool src fromPeer b hr idx t (by simpa [layout] using this)

example : fits [(0, (⟨1, 1⟩ : Tx)), (2, ⟨3, 3⟩)] 2 0 := by simp [fits]

/-- what `CompactBlockVerifier::verify` accepts can always be laid out: first prefilled index 0,
last index below `txs_len`, strictly increasing indexes imply that every prefilled index is at or
after the number of transactions pushed so far and that enough short ids are left for the gap
before it.  (This was the hypothesis `fits` of `reconstruct_prefilled_at_index`.) -/
theorem cbVerify_implies_fits (hv : cbVerify cb = none) : fits cb.prefilled cb.shortIds.length 0 :=
  cbVerify_fits cb hv

/-- `reconstruct_prefilled_at_index` without a separate hypothesis: in a block rebuilt from a
compact block that passed `CompactBlockVerifier`, every prefilled transaction sits at the index it
declares -/
theorem reconstruct_prefilled_at_index_verified (b : Block) (hv : cbVerify cb = none)
    (hr : reconstruct h cb received pool src fromPeer = .block b) (idx : Nat) (t : Tx)
    (hm : (idx, t) ∈ cb.prefilled) : b.txs[idx]? = some t :=
  reconstruct_prefilled_at_index h cb received pool src fromPeer b (cbVerify_fits cb hv) hr idx t hm

/-- the `usize` subtraction `index - block_transactions.len()` in the "fill transactions gap" loop
of `reconstruct_block` never underflows on a compact block accepted by `CompactBlockVerifier`
(whatever the short ids, received transactions and pool are: the loop does not look at them) -/
theorem reconstruct_gap_no_underflow (hv : cbVerify cb = none) :
    (gapsChecked cb.prefilled cb.shortIds 0).isSome = true :=
  gapsChecked_of_fits _ _ _ (cbVerify_fits cb hv)

/-- … and the strictness of the order check is what this rests on: with `idx0 > idx1` in place of
`idx0 >= idx1` (equal neighbours tolerated) a compact block with two prefilled transactions at
index 0 passes every other check, and the second subtraction is `0 - 1` -/
theorem loose_order_check_underflows :
    ∃ cb : CB, cbVerifyLoose cb = none ∧ gapsChecked cb.prefilled cb.shortIds 0 = none ∧
      cbVerify cb = some .outOfOrder :=
  ⟨CB.mk default [5] [(0, ⟨1, 1⟩), (1, ⟨2, 2⟩), (1, ⟨3, 3⟩)] [] [] none, by decide⟩

example : cbVerify (CB.mk default [5, 6] [(0, ⟨1, 1⟩), (2, ⟨2, 2⟩)] [] [] none) = none ∧
    gapsChecked [(0, (⟨1, 1⟩ : Tx)), (2, ⟨2, 2⟩)] [5, 6] 0 = some [0, 1] := by decide

/-- whatever the prefilled indexes are, the body layout uses every listed short id exactly once, in
the listed order, and every prefilled transaction exactly once, in the listed order: no short id is
swallowed or repeated by the gap filling -/
theorem layout_uses_every_short_id_and_prefilled_once :
    (layout cb).filterMap Slot.sid? = cb.shortIds ∧
    (layout cb).filterMap Slot.pre? = cb.prefilled.map (·.2) :=
  ⟨layoutGo_shorts _ _ _, layoutGo_pres _ _ _⟩

/-- with a collision-free transactions root the result cannot be any other body than the one the
header commits to: never a different block -/
theorem reconstruct_forge_free (b : Block) (committed : List Tx)
    (hinj : ∀ l1 l2, h.root l1 = h.root l2 → l1 = l2) (hc : h.root committed = cb.header.txRoot)
    (hr : reconstruct h cb received pool src fromPeer = .block b) : b.txs = committed ∧ b.header = cb.header := by
  have hs := reconstruct_sound h cb received pool src fromPeer b hr
  exact ⟨hinj _ _ (hs.2.1.trans hc.symm), hs.1⟩

/-- the missing report lists exactly the positions whose short id could not be resolved -/
theorem reconstruct_missing_precise (ixs us : List Nat)
    (hr : reconstruct h cb received pool src fromPeer = .missing ixs us) (i : Nat) :
    i ∈ ixs ↔ ∃ sid, (layout cb)[i]? = some (.short sid) ∧ txsMap cb received pool sid = none := by
  unfold reconstruct at hr
  simp only at hr
  split at hr
  · simp at hr
  · split at hr
    · split at hr
      · split at hr <;> simp at hr
      · split at hr <;> simp at hr
    · simp only [Result.missing.injEq] at hr
      rw [← hr.1, mem_noneIndexes]
      simp only [Nat.zero_add, Nat.sub_zero, Nat.zero_le, true_and, List.getElem?_map]
      constructor
      · intro hm
        cases hl : (layout cb)[i]? with
        | none => simp [hl] at hm
        | some slot =>
          cases slot with
          | pre t => simp [hl, resolve] at hm
          | short sid =>
            refine ⟨sid, rfl, ?_⟩
            simpa [hl, resolve] using hm
      · rintro ⟨sid, hl, hn⟩
        simp [hl, resolve, hn]

/-- the layout has one slot per transaction of the block, whatever the prefilled indexes are -/
theorem layout_length : (layout cb).length = txsLen cb := by
  unfold layout txsLen
  exact layoutGo_length _ _ _

/-- non-vacuity: a compact block with a prefilled cellbase and one short id, the transaction received -/
example :
    let hs : Hashes := { root := fun l => (l.map (·.id)).sum + 100 * l.length, phash := fun l => l.length, ehash := fun l _ => l.length }
    let cb : CB := { header := { txRoot := hs.root [⟨1, 1⟩, ⟨2, 2⟩], proposalsHash := 0, extraHash := 0, other := 7 },
                     shortIds := [2], prefilled := [(0, ⟨1, 1⟩)], uncles := [], proposals := [], extension := none }
    cbVerify cb = none ∧
    reconstruct hs cb [⟨2, 2⟩] (fun _ => none) (fun _ => .missing) [] =
      .block { header := cb.header, uncles := [], txs := [⟨1, 1⟩, ⟨2, 2⟩], proposals := [], extension := none } ∧
    reconstruct hs cb [] (fun _ => none) (fun _ => .missing) [] = .missing [1] [] := by decide +kernel

end Reconstruct

/-! ## (b) network frames -/

section Frames
open CkbVerif.Frame CkbVerif.Gen.Codec

/-- whatever `decompress` returns for a compressed frame is at most `MAX_UNCOMPRESSED_LEN` long, and
for an uncompressed frame it is the frame without its flag byte (decoder contract: exactly the
declared length or an error) -/
theorem decompress_bounded (bs : Frame.Bytes) (n : Nat) (ho : outputLen (decompressDecision bs) = some n) :
    n ≤ MAX_UNCOMPRESSED_LEN ∨ n + 1 = bs.length := by
  unfold decompressDecision at ho
  split at ho
  · simp [outputLen] at ho
  · rename_i b rest
    split at ho
    · split at ho
      · split at ho
        · simp [outputLen] at ho
        · rename_i hn
          simp only [outputLen, Option.some.injEq] at ho
          left; omega
      · simp [outputLen] at ho
    · simp only [outputLen, Option.some.injEq] at ho
      right; simp [← ho]

/-- `compress` takes the snappy branch exactly above the threshold -/
theorem compress_threshold (len : Nat) : compressTaken len = true ↔ COMPRESSION_SIZE_THRESHOLD ≤ len := by
  simp [compressTaken]; omega

example : outputLen (decompressDecision [0x80, 0x03, 0x08, 0x61, 0x62, 0x63]) = some 3 := by decide +kernel
example : outputLen (decompressDecision [0x80, 0x81, 0x80, 0x80, 0x04, 0x00]) = none := by decide +kernel

/-! ### the production path: `LengthDelimitedCodecWithCompress` -/

/-- The production decoder takes the same decision as the stand-alone helper `decompress` on every
frame of at least two bytes (the two are separate copies of the same tests in
`network/src/compress.rs`; shorter frames are refused by the codec only). -/
theorem codec_decision_agrees_with_helper (d : Frame.Bytes) (hd : DECODE_MIN_FRAME_LEN ≤ d.length) :
    (match frameItem d with
     | none => Decision.err
     | some (.raw p) => Decision.raw p
     | some (.snappy n _) => Decision.snappy n) = decompressDecision d := by
  unfold frameItem decompressDecision
  have : ¬ d.length < DECODE_MIN_FRAME_LEN := by omega
  simp only [this, if_false]
  cases d with
  | nil => rfl
  | cons b rest =>
    simp only
    cases hf : compressFlag b with
    | false => simp
    | true =>
      simp only [if_true]
      cases hl : decompressLen rest with
      | none => rfl
      | some n =>
        simp only
        by_cases hn : n > MAX_UNCOMPRESSED_LEN <;> simp [hn]

/-- `decode_output_bounded`: whatever chunks of whatever bytes a peer sends on a connection, every
buffer the decoder hands to the protocol handler is at most `MAX_UNCOMPRESSED_LEN` long when it
came out of the snappy decoder (whatever that decoder wrote: the buffer is the `zeroed(len)` one),
and shorter than `max_frame_length` when it was sent uncompressed; and the decoder never waits for
(reserves buffer space for) a frame longer than `max_frame_length`. -/
theorem decode_output_bounded (snap : Frame.Bytes → Option Frame.Bytes) (cfg : Cfg) (chunks : List Frame.Bytes) :
    (∀ i ∈ (feedAll cfg Conn.init chunks).items, ∀ out, finish snap i = some out →
      out.length ≤ MAX_UNCOMPRESSED_LEN ∨ out.length + 1 ≤ cfg.maxFrame) ∧
    (∀ n buf, (feedAll cfg Conn.init chunks).state = .pending (.data n) buf → n ≤ cfg.maxFrame) := by
  have hok := feedAll_ok cfg Conn.init chunks ⟨by simp [Conn.init], by simp [Conn.init, endOk, stOk]⟩
  refine ⟨fun i hi out ho => finish_bounded snap cfg i out (hok.1 i hi) ho, ?_⟩
  intro n buf hs
  have := hok.2
  rw [hs] at this
  exact this

/-- for the sync and relay protocols as configured (`max_frame_length` 2 MiB / 4 MiB, both below the
8 MiB bound) nothing longer than `MAX_UNCOMPRESSED_LEN` ever reaches `Synchronizer::received` /
`Relayer::received` -/
theorem decode_output_bounded_sync_relay (snap : Frame.Bytes → Option Frame.Bytes) (cfg : Cfg)
    (hc : cfg.maxFrame = SYNC_MAX_FRAME_LENGTH ∨ cfg.maxFrame = RELAY_MAX_FRAME_LENGTH) (chunks : List Frame.Bytes)
    (i : Item) (hi : i ∈ (feedAll cfg Conn.init chunks).items) (out : Frame.Bytes) (ho : finish snap i = some out) :
    out.length ≤ MAX_UNCOMPRESSED_LEN := by
  have := (decode_output_bounded snap cfg chunks).1 i hi out ho
  have h1 : SYNC_MAX_FRAME_LENGTH ≤ MAX_UNCOMPRESSED_LEN := by decide
  have h2 : RELAY_MAX_FRAME_LENGTH ≤ MAX_UNCOMPRESSED_LEN := by decide
  rcases hc with hc | hc <;> omega

/-- `decode_chunking_independent`: the decoder is stateful (`Head | Data(n)` plus the unconsumed
buffer), but the sequence of frames delivered — and whether and where the stream fails — depends
only on the byte stream, not on how the transport cuts it into reads. -/
theorem decode_chunking_independent (cfg : Cfg) (chunks1 chunks2 : List Frame.Bytes)
    (h : chunks1.flatten = chunks2.flatten) :
    feedAll cfg Conn.init chunks1 = feedAll cfg Conn.init chunks2 := by
  have key : ∀ chunks : List Frame.Bytes, feedAll cfg Conn.init chunks = feed cfg Conn.init chunks.flatten := by
    intro chunks
    rcases feedAll_eq_feed_flatten cfg Conn.init chunks with h1 | ⟨h1, h2⟩
    · exact h1
    · subst h1
      rw [h2]
      exact (feed_nil_init cfg).symm
  rw [key, key, h]

/-- `codec_roundtrip`: what `encode` writes for a non-empty payload, `decode` gives back — with
compression enabled or not, whatever follows in the buffer, leaving the decoder in its initial
state.  Hypotheses: `snap (comp d) = some d` (snappy decompress ∘ compress = id) and the snappy
header of `comp d` announces `d.length`; the payload is at most `MAX_UNCOMPRESSED_LEN` long (a
longer one that compresses below `max_frame_length` is sent and then refused by the receiver);
`max_frame_length` fits the 4-byte length field.  `encode` itself succeeds for every payload
shorter than `max_frame_length` (`encode_accepts`). -/
theorem codec_roundtrip (comp : Frame.Bytes → Frame.Bytes) (snap : Frame.Bytes → Option Frame.Bytes)
    (hsnap : ∀ d, snap (comp d) = some d) (hhdr : ∀ d, decompressLen (comp d) = some d.length)
    (cfg : Cfg) (hmax : cfg.maxFrame < 4294967296) (data w rest : Frame.Bytes)
    (hne : data ≠ []) (hlen : data.length ≤ MAX_UNCOMPRESSED_LEN) (he : Frame.encode comp cfg data = some w) :
    ∃ i, decodeCall cfg .head (w ++ rest) = (.item i, .head, rest) ∧ finish snap i = some data := by
  -- what `process` wrote: head, flag, body
  have hproc : ∀ (body : Frame.Bytes) (flag : Nat) (i : Item), encProcess cfg body flag = some w →
      frameItem (UInt8.ofNat flag :: body) = some i → decodeCall cfg .head (w ++ rest) = (.item i, .head, rest) := by
    intro body flag i hp hf
    unfold encProcess at hp
    split at hp
    · simp at hp
    · rename_i hle
      simp only [Option.some.injEq] at hp
      subst hp
      have hb : be32 (be32enc (body.length + 1) ++ (UInt8.ofNat flag :: body ++ rest)) = body.length + 1 :=
        be32_enc _ _ (by omega)
      have hl : ldDecode cfg.maxFrame .head (be32enc (body.length + 1) ++ UInt8.ofNat flag :: body ++ rest) =
          (.frame (UInt8.ofNat flag :: body), .head, rest) := by
        have e : be32enc (body.length + 1) ++ UInt8.ofNat flag :: body ++ rest =
            be32enc (body.length + 1) ++ (UInt8.ofNat flag :: body ++ rest) := by simp
        rw [e]
        have hlen4 : (be32enc (body.length + 1)).length = HEAD_LEN := rfl
        have hnl : ¬ (be32enc (body.length + 1) ++ (UInt8.ofNat flag :: body ++ rest)).length < HEAD_LEN := by
          simp only [List.length_append, hlen4]; omega
        have hnm : ¬ body.length + 1 > cfg.maxFrame := by omega
        simp only [ldDecode, hnl, if_false, hb, hnm]
        rw [List.drop_append_of_le_length (by rw [hlen4]; exact Nat.le_refl _), ← hlen4, List.drop_length, List.nil_append]
        have hnl2 : ¬ (UInt8.ofNat flag :: body ++ rest).length < body.length + 1 := by
          simp only [List.cons_append, List.length_cons, List.length_append]; omega
        simp only [ldData, hnl2, if_false]
        have e2 : UInt8.ofNat flag :: body ++ rest = (UInt8.ofNat flag :: body) ++ rest := rfl
        have e3 : body.length + 1 = (UInt8.ofNat flag :: body).length := rfl
        rw [e2, e3, List.take_left', List.drop_left']
        · rfl
        · rfl
      have hemp : (be32enc (body.length + 1) ++ UInt8.ofNat flag :: body ++ rest).isEmpty = false := by simp [be32enc]
      unfold decodeCall
      rw [hemp, hl]
      simp [hf]
  have hraw : ∀ body : Frame.Bytes, body ≠ [] → frameItem (UInt8.ofNat UNCOMPRESS_FLAG :: body) = some (.raw body) := by
    intro body hb
    have : ¬ (UInt8.ofNat UNCOMPRESS_FLAG :: body).length < DECODE_MIN_FRAME_LEN := by
      cases body with
      | nil => exact absurd rfl hb
      | cons x xs => simp [DECODE_MIN_FRAME_LEN]
    have h2 : DECODE_MIN_FRAME_LEN ≤ body.length + 1 := by simpa using this
    have hflag : compressFlag (UInt8.ofNat UNCOMPRESS_FLAG) = false := by decide
    simp [frameItem, h2, hflag]
  unfold Frame.encode at he
  split at he
  · simp only at he
    split at he
    · exact ⟨.raw data, hproc data _ _ he (hraw data hne), rfl⟩
    · rename_i hcond hlt
      refine ⟨.snappy data.length (comp data), hproc (comp data) _ _ he ?_, ?_⟩
      · have hcne : comp data ≠ [] := by
          intro hc
          have := hhdr data
          rw [hc] at this
          simp only [decompressLen, List.isEmpty_nil, if_true, Option.some.injEq] at this
          simp only [Bool.and_eq_true, decide_eq_true_eq] at hcond
          omega
        have : ¬ (UInt8.ofNat COMPRESS_FLAG :: comp data).length < DECODE_MIN_FRAME_LEN := by
          cases hcd : comp data with
          | nil => exact absurd hcd hcne
          | cons x xs => simp [DECODE_MIN_FRAME_LEN]
        have h2 : DECODE_MIN_FRAME_LEN ≤ (comp data).length + 1 := by simpa using this
        have hflag : compressFlag (UInt8.ofNat COMPRESS_FLAG) = true := by decide
        have hnb : ¬ data.length > MAX_UNCOMPRESSED_LEN := by omega
        simp [frameItem, h2, hflag, hhdr data, hnb]
      · simp [finish, hsnap data, fitTo_self]
  · exact ⟨.raw data, hproc data _ _ he (hraw data hne), rfl⟩

/-- `encode` accepts every payload shorter than `max_frame_length` (the compressed form is only
chosen when it is strictly shorter) -/
theorem encode_accepts (comp : Frame.Bytes → Frame.Bytes) (cfg : Cfg) (data : Frame.Bytes)
    (h : data.length + 1 ≤ cfg.maxFrame) : (Frame.encode comp cfg data).isSome = true := by
  unfold Frame.encode
  split
  · simp only
    split
    · have : ¬ data.length + 1 > cfg.maxFrame := by omega
      simp [encProcess, this]
    · rename_i hlt
      have : ¬ (comp data).length + 1 > cfg.maxFrame := by omega
      simp [encProcess, this]
  · have : ¬ data.length + 1 > cfg.maxFrame := by omega
    simp [encProcess, this]

/-- the round trip does NOT hold for the empty payload: `encode` writes the one-byte frame
`00 00 00 01 00`, which `decode` refuses (`data.len() < 2`).  No CKB protocol message is empty (a
molecule union is at least four bytes), so this is a property of the codec, not a reachable
rejection. -/
theorem codec_roundtrip_fails_on_empty_payload (comp : Frame.Bytes → Frame.Bytes) (c : Bool) :
    Frame.encode comp ⟨1024, c⟩ [] = some [0, 0, 0, 1, 0] ∧
    (decodeCall ⟨1024, c⟩ .head [0, 0, 0, 1, 0]).1 matches .err := by
  cases c <;> exact ⟨by rfl, by decide⟩

/-! non-vacuity: two frames cut into three reads, the second one compressed; a lying header -/
example : feedAll ⟨2097152, true⟩ Conn.init [[0, 0, 0, 3, 0], [7, 8, 0, 0, 0, 6, 0x80, 3], [8, 0x61, 0x62, 0x63, 0, 0]] =
    ⟨[.raw [7, 8], .snappy 3 [3, 8, 0x61, 0x62, 0x63]], .pending .head [0, 0]⟩ := by decide +kernel
example : (feedAll ⟨2097152, true⟩ Conn.init [[0, 0, 0, 7, 0x80, 0x81, 0x80, 0x80, 0x04, 0, 0]]).state matches .err := by
  decide +kernel
example : (feedAll ⟨2097152, true⟩ Conn.init [[0, 0x20, 0, 1]]).state matches .err := by decide +kernel
example : (feedAll ⟨2097152, true⟩ Conn.init [[0, 0x20, 0, 0]]).state matches .pending (.data 2097152) [] := by decide +kernel
example : Frame.encode (fun d => d) ⟨2097152, true⟩ [9, 9] = some [0, 0, 0, 3, 0, 9, 9] := by decide +kernel

end Frames

/-! ### (d) the BlockTransactions exchange: "verifier ok ⇒ the consumer's indexing is total"

`BlockTransactionsProcess::execute` runs `BlockTransactionsVerifier::verify` and
`BlockUnclesVerifier::verify` on the pending compact block and the indexes that were requested,
then `reconstruct_block`, which indexes `received_uncles` by position without looking again. -/
section Exchange
open CkbVerif.Compact

variable (h : Hashes) (cb : CB) (received : List Tx) (pool : Nat → Option Tx) (src : Nat → UncleSrc) (fromPeer : List Nat)

/-- `block_short_ids.get(index)` is never `None` when every requested index is below `txs_len` of
the compact block the verifier is run on: neither the `.expect("should never outbound")` of the
code before /repo 804c7e9 (`oobPanics = true`) nor the status that replaced it is reached -/
theorem btx_verify_total_of_indexes_in_range (oobPanics : Bool) (idx : List Nat) (txs : List Tx)
    (hi : ∀ i ∈ idx, i < txsLen cb) :
    btxVerifyWith oobPanics cb idx txs ≠ .panic ∧
    btxVerifyWith oobPanics cb idx txs = btxVerifyWith false cb idx txs := by
  have hs := missingShortIds_isSome (blockShortIds cb) idx (by simpa [blockShortIds_length] using hi)
  unfold btxVerifyWith
  cases hm : missingShortIds (blockShortIds cb) idx with
  | none => simp [hm] at hs
  | some l =>
    simp only
    refine ⟨?_, trivial⟩
    split
    · simp
    · split <;> simp

/-- … and before /repo 804c7e9 it did panic as soon as one requested index was at or past
`txs_len` (the indexes were the only thing protecting that `expect`) -/
theorem btx_verify_prefix_panics_of_index_out_of_range (idx : List Nat) (txs : List Tx) (i : Nat) (hi : i ∈ idx)
    (ho : txsLen cb ≤ i) : btxVerifyPreFix cb idx txs = .panic := by
  unfold btxVerifyPreFix btxVerifyWith
  rw [missingShortIds_none_of_oob (blockShortIds cb) idx i hi (by simpa [blockShortIds_length] using ho)]
  rfl

/-- since /repo 804c7e9 the verifier answers a status for every list of indexes -/
theorem btx_verify_never_panics_since_fix (idx : List Nat) (txs : List Tx) :
    btxVerifyWith false cb idx txs ≠ .panic := by
  unfold btxVerifyWith
  split
  · simp
  · split
    · simp
    · split <;> simp

/-- the indexes `reconstruct_block` reports as missing lie below `txs_len` of the compact block it
was run on -/
theorem reconstruct_missing_indexes_in_range (ixs us : List Nat)
    (hr : reconstruct h cb received pool src fromPeer = .missing ixs us) : ∀ i ∈ ixs, i < txsLen cb := by
  intro i hi
  obtain ⟨sid, hl, _⟩ := (reconstruct_missing_precise h cb received pool src fromPeer ixs us hr i).mp hi
  have hlen := layout_length cb
  have : i < (layout cb).length := by
    rcases List.getElem?_eq_some_iff.mp hl with ⟨hlt, _⟩
    exact hlt
  omega

/-- `short_id_indexes()` (requested after a collision) lie below `txs_len` -/
theorem short_id_indexes_in_range : ∀ i ∈ shortIdIndexes cb, i < txsLen cb := by
  intro i hi
  unfold shortIdIndexes at hi
  have := (List.mem_filter.mp hi).1
  simpa using this

/-- hence: on the SAME compact block that produced the request, even the verifier before /repo
804c7e9 never reached its `expect`, whatever the peer answered — the defect needed a second
compact block for the same header -/
theorem btx_verify_total_on_own_request (ixs us : List Nat) (txs : List Tx)
    (hr : reconstruct h cb received pool src fromPeer = .missing ixs us) : btxVerifyPreFix cb ixs txs ≠ .panic :=
  (btx_verify_total_of_indexes_in_range cb true ixs txs (reconstruct_missing_indexes_in_range h cb received pool src fromPeer ixs us hr)).1

example : btxVerifyPreFix (CB.mk default [5, 6] [(0, ⟨1, 1⟩)] [] [] none) [1, 2] [⟨5, 5⟩, ⟨6, 6⟩] = .ok ∧
    btxVerifyPreFix (CB.mk default [5, 6] [(0, ⟨1, 1⟩)] [] [] none) [1, 2] [⟨5, 5⟩] = .lengthUnmatched ∧
    btxVerifyPreFix (CB.mk default [5, 6] [(0, ⟨1, 1⟩)] [] [] none) [1, 2] [⟨6, 6⟩, ⟨5, 5⟩] = .shortIdsUnmatched ∧
    btxVerifyWith false (CB.mk default [5, 6] [(0, ⟨1, 1⟩)] [] [] none) [1, 3] [⟨5, 5⟩] = .lengthUnmatched := by decide

/-- WITNESS (the code before /repo 804c7e9, found by stream `recv`): the pending table keeps the FIRST
compact block announced for a header hash but records a later peer's missing indexes, computed on
that peer's own compact block of the same header.  Two compact blocks with the same header, both
accepted by `CompactBlockVerifier`; the indexes `reconstruct_block` reports for the second one make
`BlockTransactionsVerifier::verify` on the first one reach its `expect` -/
theorem pending_variant_indexes_out_of_bounds :
    ∃ cbA cbB : CB, cbA.header = cbB.header ∧ cbVerify cbA = none ∧ cbVerify cbB = none ∧
      ∃ ixs us, reconstruct h cbB [] (fun _ => none) (fun _ => .missing) [] = .missing ixs us ∧
        ∀ txs, btxVerifyPreFix cbA ixs txs = .panic := by
  refine ⟨CB.mk default [9] [(0, ⟨1, 1⟩)] [] [] none, CB.mk default [5, 6] [(0, ⟨1, 1⟩)] [] [] none, rfl, by decide, by decide,
    [1, 2], [], ?_, ?_⟩
  · rfl
  · intro txs
    exact btx_verify_prefix_panics_of_index_out_of_range _ [1, 2] txs 2 (by simp) (by decide)

/-- `BlockUnclesVerifier::verify` with the `return` (since /repo c09cedb): once it says ok, the uncle loop
of `reconstruct_block` finds a received uncle at every position it asks for
(`received_uncles.get(position).expect("have checked the indexes")` is total), for every list of
requested indexes — sorted or not, in range or not, repeated or not -/
theorem uncles_take_total_of_fixed_verify (uncles idx recv : List Nat)
    (hv : unclesVerifyFixed uncles idx recv = true) : (unclesTake idx recv uncles 0 0).isSome = true := by
  rw [unclesTake_isSome_iff]
  left
  unfold unclesVerifyFixed at hv
  simp only [Bool.and_eq_true, beq_iff_eq] at hv
  have hl := hv.1
  rw [expectedUncles_length] at hl
  have := peerCount_le idx uncles.length uncles.length (Nat.le_refl _)
  simp only [Nat.sub_self] at this
  have hz : idx.countP (fun j => decide (j < 0)) = 0 := by simp
  omega

/-- WITNESS (the code before /repo c09cedb, found by stream `recv`): without the `return`, the
verifier accepts an answer with fewer uncles than requested and `reconstruct_block` indexes
`received_uncles` out of range (its `expect` fails): one unknown uncle requested, none sent -/
theorem uncles_verifier_prefix_admits_panic :
    ∃ uncles idx recv : List Nat, unclesVerifyPreFix uncles idx recv = true ∧
      unclesTake idx recv uncles 0 0 = none ∧ unclesVerifyFixed uncles idx recv = false :=
  ⟨[500], [0], [], by decide⟩

/-- UNCLE-POSITION BINDING: for a request whose indexes are strictly increasing and in range, an
answer `BlockUnclesVerifier` accepts makes the uncles loop of `reconstruct_block` put at every
requested index `i` exactly the uncle the compact block lists at `i` (the `position` counter of the
loop and the order of `received_uncles` cannot drift apart) -/
theorem uncle_position_binding (uncles idx recv : List Nat) (hs : idx.Pairwise (· < ·))
    (hin : ∀ i ∈ idx, i < uncles.length) (hv : unclesVerifyFixed uncles idx recv = true)
    (pairs : List (Nat × Nat)) (ht : unclesTake idx recv uncles 0 0 = some pairs) :
    ∀ p ∈ pairs, uncles[p.1]? = some p.2 := by
  unfold unclesVerifyFixed at hv
  simp only [Bool.and_eq_true, beq_iff_eq] at hv
  have hr : recv = idx.filterMap (fun i => uncles[i]?) := (zipAllEq_eq _ _ hv.1 hv.2).symm
  subst hr
  have h0 : below idx 0 = 0 := by simp [below]
  exact unclesTake_binds uncles idx hs hin uncles 0 pairs (by rw [h0]; exact ht)

/-- … and the node's own request satisfies the hypothesis: the missing-uncle indexes
`reconstruct_block` reports (which `CompactBlockProcess` sends as `uncle_indexes` and keeps as the
expected ones) are strictly increasing and below the number of uncles -/
theorem reconstruct_missing_uncles_sorted_in_range (h : Hashes) (cb : CB) (received : List Tx)
    (pool : Nat → Option Tx) (src : Nat → UncleSrc) (fromPeer : List Nat) (txs us : List Nat)
    (hm : reconstruct h cb received pool src fromPeer = .missing txs us) :
    us.Pairwise (· < ·) ∧ ∀ j ∈ us, j < cb.uncles.length := by
  unfold reconstruct at hm
  cases hg : unclesGo src fromPeer cb.uncles 0 with
  | none => simp [hg] at hm
  | some r =>
    obtain ⟨a, b⟩ := unclesGo_missing_sorted src fromPeer cb.uncles 0 r hg
    simp only [hg] at hm
    have hus : us = r.2 := by
      split at hm
      · split at hm
        · split at hm <;> simp at hm
        · split at hm <;> simp at hm
      · simp only [Result.missing.injEq] at hm
        exact hm.2.symm
    subst hus
    exact ⟨a, fun j hj => by have := b j hj; omega⟩

/-- WITNESS: the hypothesis "strictly increasing" is needed — for the request `[1, 0]` the verifier
accepts the uncles in the requested order and the loop (which walks the compact block's order) puts
uncle 1 at index 0; the block-hash comparison of /repo f15aab0 (`reconstruct_sound`) is what refuses
the resulting block -/
theorem uncle_position_unsorted_request_mixes_up :
    ∃ uncles idx recv pairs, unclesVerifyFixed uncles idx recv = true ∧
      unclesTake idx recv uncles 0 0 = some pairs ∧ ∃ p ∈ pairs, uncles[p.1]? ≠ some p.2 :=
  ⟨[500, 501], [1, 0], [501, 500], [(0, 501), (1, 500)], by decide, by decide, (0, 501), by decide, by decide⟩

example : unclesVerifyFixed [500, 501, 502] [0, 2] [500, 502] = true ∧
    unclesTake [0, 2] [500, 502] [500, 501, 502] 0 0 = some [(0, 500), (2, 502)] := by decide

/-- the two verifiers differ only in the length check: on answers of the requested length they agree -/
theorem uncles_verifiers_agree_on_equal_length (uncles idx recv : List Nat)
    (hl : (expectedUncles uncles idx).length = recv.length) :
    unclesVerifyPreFix uncles idx recv = unclesVerifyFixed uncles idx recv := by
  simp [unclesVerifyPreFix, unclesVerifyFixed, hl]

example : unclesVerifyFixed [500, 501] [0, 1] [500, 501] = true ∧
    unclesTake [0, 1] [500, 501] [500, 501] 0 0 = some [(0, 500), (1, 501)] ∧
    unclesVerifyFixed [500, 501] [0, 1] [500] = false ∧ unclesVerifyPreFix [500, 501] [0, 1] [500] = true := by decide

end Exchange

/-! ### (e) the frame codec: an accepted compressed frame has a declared length within the bound -/
section CodecBound
open CkbVerif.Frame CkbVerif.Gen.Codec

/-- `LengthDelimitedCodecWithCompress::decode` hands a compressed frame to the snappy decoder only
with the length the snappy header declares, and only if that length is at most
`MAX_UNCOMPRESSED_LEN` (the buffer `BytesMut::zeroed(len)` is allocated after this test) -/
theorem accepted_frame_declared_length_bounded (d : Frame.Bytes) (n : Nat) (body : Frame.Bytes)
    (ha : frameItem d = some (.snappy n body)) :
    n ≤ MAX_UNCOMPRESSED_LEN ∧ decompressLen body = some n := by
  unfold frameItem at ha
  split at ha
  · simp at ha
  · cases d with
    | nil => simp at ha
    | cons b rest =>
      simp only at ha
      split at ha
      · cases hl : decompressLen rest with
        | none => simp [hl] at ha
        | some m =>
          simp only [hl] at ha
          split at ha
          · simp at ha
          · simp only [Option.some.injEq, Item.snappy.injEq] at ha
            obtain ⟨rfl, rfl⟩ := ha
            exact ⟨by omega, hl⟩
      · simp at ha

/-- the decision with the bound tested on the WIRE length of the frame instead of the declared
length (NOT the code: the seeded variant) -/
def frameItemWireBound (data : Frame.Bytes) : Option Item :=
  if data.length < DECODE_MIN_FRAME_LEN then none else
  match data with
  | [] => none
  | b :: rest =>
    if compressFlag b then
      match decompressLen rest with
      | some n => if data.length > MAX_UNCOMPRESSED_LEN then none else some (.snappy n rest)
      | none => none
    else some (.raw rest)

/-- WITNESS: with the bound on the wire length a 7-byte frame announcing 4 GiB - 1 is accepted (and a
buffer of that size allocated) -/
theorem wire_length_bound_admits_oversize :
    ∃ d : Frame.Bytes, d.length = 7 ∧ ∃ n body, frameItemWireBound d = some (.snappy n body) ∧
      MAX_UNCOMPRESSED_LEN < n ∧ frameItem d = none :=
  ⟨[0x80, 0xff, 0xff, 0xff, 0xff, 0x0f, 0x00], rfl, 4294967295, [0xff, 0xff, 0xff, 0xff, 0x0f, 0x00], by decide +kernel⟩

example : frameItem [0x80, 0x03, 0x08, 0x61, 0x62, 0x63] = some (.snappy 3 [0x03, 0x08, 0x61, 0x62, 0x63]) := by decide +kernel

end CodecBound

/-! ### (f) discovery: the compatible-mode extra field is read only after a second verification -/
section Discovery
open CkbVerif.Proto CkbVerif.Gen.Schemas

/-- `DiscoveryMessage::decode`: whenever the 4th field of a `GetNodes` table is read as
`required_flags`, it is exactly 8 bytes long (`Uint64 -> u64` copies it into a `[u8; 8]`): the
outer compatible-mode verification does not look at extra fields, `GetNodes2::from_compatible_slice`
does -/
theorem disc_flags_read_eight_bytes (bs f : Bytes) (hr : discFlagsRead true bs = some f) : f.length = 8 := by
  unfold discFlagsRead at hr
  split at hr
  · simp at hr
  · dsimp only at hr
    generalize (fld bs 0).drop 4 = inner at hr
    split at hr
    · split at hr
      · simp at hr
      · rename_i hv
        simp only [Bool.true_and, Bool.not_eq_true', Bool.not_eq_false] at hv
        simp only [Option.some.injEq] at hr
        subst hr
        -- verify true GetNodes2 inner: the 4th slice is a verified Uint64
        have hv' : verify true (.table [S.Uint32, S.Uint32, S.PortOpt, S.Uint64]) inner = true := by
          simpa [S.GetNodes2] using hv
        unfold verify at hv'
        simp only at hv'
        cases hd : dynHeader inner with
        | none => simp [hd] at hv'
        | some offs =>
          simp only [hd, Bool.and_eq_true] at hv'
          obtain ⟨b, hb, hvb⟩ := verifyL_get true _ _ 3 hv'.2 (by simp)
          have : fld inner 3 = b := by
            simp [fld, tableFieldBytes, hd, hb]
          rw [this]
          have hvb' : verify true (.array .byte 8) b = true := by simpa [S.Uint64] using hvb
          simpa [verify, size] using hvb'
    · simp at hr

/-- WITNESS (the seeded variant, `GetNodes2Reader::new_unchecked`): a message the outer
verification accepts whose 4th field is 3 bytes long — the code refuses it, the unchecked read
hands 3 bytes to the 8-byte copy -/
theorem disc_unchecked_flags_read_not_eight_bytes :
    ∃ bs f : Bytes, discFlagsRead false bs = some f ∧ f.length = 3 ∧ discFlagsRead true bs = none ∧
      discDecode bs = .none :=
  ⟨[43, 0, 0, 0, 8, 0, 0, 0, 0, 0, 0, 0, 31, 0, 0, 0, 20, 0, 0, 0, 24, 0, 0, 0, 28, 0, 0, 0, 28, 0, 0, 0,
    0, 0, 0, 0, 3, 0, 0, 0, 255, 255, 255], [255, 255, 255], by decide +kernel⟩

example : discDecode [48, 0, 0, 0, 8, 0, 0, 0, 0, 0, 0, 0, 36, 0, 0, 0, 20, 0, 0, 0, 24, 0, 0, 0, 28, 0, 0, 0, 28, 0, 0, 0,
    0, 0, 0, 0, 3, 0, 0, 0, 3, 0, 0, 0, 0, 0, 0, 0] = .getNodes 0 3 none 3 := by decide +kernel

end Discovery

/-! ### (g) light-client requests: arithmetic on peer-supplied numbers stays in range

`u64` / `usize` arithmetic with overflow checks (the release profile): `none` = the operation
panics.  Each pair is the code before the repair (witness: a peer-supplied value that panics) and
since (total for every value a peer can send). -/
section LightArithmetic
open CkbVerif.Proto CkbVerif.Gen.Codec

/-- the "too many samples" test of `GetLastStateProofProcess::execute` (since /repo d5fb657) never
overflows, for every `last_n_blocks` a `Uint64` can carry and every number of difficulties a
message can carry (anything up to `u64::MAX - 2 * LIMIT`), and it says exactly what it is meant to -/
theorem too_many_samples_total (nd lastN : Nat) (hn : nd + 2 * GET_LAST_STATE_PROOF_LIMIT ≤ U64_MAX) :
    tooManySamples nd lastN = some (decide (lastN > GET_LAST_STATE_PROOF_LIMIT ∨ nd + lastN * 2 > GET_LAST_STATE_PROOF_LIMIT)) := by
  unfold tooManySamples
  by_cases hl : lastN > GET_LAST_STATE_PROOF_LIMIT
  · simp [hl]
  · have h1 : lastN * 2 ≤ U64_MAX := by
      have : GET_LAST_STATE_PROOF_LIMIT ≤ U64_MAX := by decide
      omega
    have h2 : nd + lastN * 2 ≤ U64_MAX := by omega
    simp [hl, tooManySamplesPreFix, ckMul, ckAdd, h1, h2]

/-- WITNESS (before /repo d5fb657): `last_n_blocks = 2^63` overflows the multiplication,
`2^63 - 1` with two difficulties the addition — in the check meant to refuse oversized requests -/
theorem too_many_samples_prefix_overflows :
    tooManySamplesPreFix 0 9223372036854775808 = none ∧ tooManySamplesPreFix 2 9223372036854775807 = none ∧
    tooManySamples 0 9223372036854775808 = some true ∧ tooManySamples 2 9223372036854775807 = some true := by
  decide

example : tooManySamples 0 500 = some false ∧ tooManySamples 1 500 = some true ∧ tooManySamplesPreFix 1000 0 = some false := by decide

/-- `last_block_number - start_block_number` (since /repo 54aa098) is computed only when it cannot
underflow; a start number above the last block is refused -/
theorem span_total (last start : Nat) :
    span last start = some (if start > last then none else some (last - start)) := by
  unfold span ckSub
  by_cases hs : start > last
  · simp [hs]
  · have : start ≤ last := by omega
    simp [hs, this]

/-- WITNESS (before /repo 54aa098): `start_number = last + 1` underflows -/
theorem span_prefix_underflows : spanPreFix 12 13 = none ∧ span 12 13 = some none := by decide

/-- `chain_root_mmr(last_block.number() - 1)` in `reply_proof` (since /repo edc6fe7) is computed only
for a non-genesis last block -/
theorem parent_root_leaf_total (n : Nat) :
    parentRootLeaf n = some (if n = 0 then none else some (n - 1)) := by
  unfold parentRootLeaf ckSub
  by_cases hz : n = 0
  · simp [hz]
  · have : 1 ≤ n := by omega
    simp [hz, this]

/-- WITNESS (before /repo edc6fe7): the genesis block as last block underflows -/
theorem parent_root_leaf_prefix_underflows : parentRootLeafPreFix 0 = none ∧ parentRootLeaf 0 = some none := by decide

/-- the guards of `GetLastStateProofProcess::execute` in front of the sampling (`Model/LightGuards.lean`)
never hit an arithmetic panic, for every chain and every message (the number of difficulties a
message can carry is far below `u64::MAX - 2 * LIMIT`) -/
theorem glsp_guards_total (chain : List Bytes) (bs : Bytes)
    (hn : CkbVerif.Molecule.num (fld (bs.drop 4) 5) + 2 * GET_LAST_STATE_PROOF_LIMIT ≤ U64_MAX) :
    glspGuards chain bs ≠ none := by
  unfold glspGuards
  simp only
  rw [too_many_samples_total _ _ hn]
  generalize decide (leNat (fld (bs.drop 4) 3) > GET_LAST_STATE_PROOF_LIMIT ∨
    CkbVerif.Molecule.num (fld (bs.drop 4) 5) + leNat (fld (bs.drop 4) 3) * 2 > GET_LAST_STATE_PROOF_LIMIT) = b
  cases b with
  | true => simp
  | false =>
    simp only
    cases chain.findIdx? (· == fld (bs.drop 4) 0) with
    | none => simp
    | some n =>
      simp only [span_total]
      by_cases hs : leNat (fld (bs.drop 4) 2) > n
      · simp [hs]
      · simp only [hs, if_false]
        split
        · simp
        · split <;> simp

/-- what "every guard passed" means: the last block is the main-chain block of that number, the start
number is not above it, the difficulties are strictly increasing and all below the boundary, and
the request is within the sample limit -/
theorem glsp_proceed_sound (chain : List Bytes) (bs : Bytes) (l : Nat)
    (h : glspGuards chain bs = some (.proceed l)) :
    chain[l]? = some (fld (bs.drop 4) 0) ∧ leNat (fld (bs.drop 4) 2) ≤ l ∧
    strictlyIncreasing (u256Items (fld (bs.drop 4) 5)) = true ∧
    lastAtLeast (u256Items (fld (bs.drop 4) 5)) (leNat (fld (bs.drop 4) 4)) = false ∧
    tooManySamples (CkbVerif.Molecule.num (fld (bs.drop 4) 5)) (leNat (fld (bs.drop 4) 3)) = some false := by
  unfold glspGuards at h
  simp only at h
  cases htm : tooManySamples (CkbVerif.Molecule.num (fld (bs.drop 4) 5)) (leNat (fld (bs.drop 4) 3)) with
  | none => simp [htm] at h
  | some b =>
    cases b with
    | true => simp [htm] at h
    | false =>
      simp only [htm] at h
      cases hidx : chain.findIdx? (· == fld (bs.drop 4) 0) with
      | none => simp [hidx] at h
      | some n =>
        simp only [hidx, span_total] at h
        by_cases hs : leNat (fld (bs.drop 4) 2) > n
        · simp [hs] at h
        · simp only [hs, if_false] at h
          by_cases hsort : strictlyIncreasing (u256Items (fld (bs.drop 4) 5)) = true
          · simp only [hsort, Bool.not_true, Bool.false_eq_true, if_false] at h
            by_cases hb : lastAtLeast (u256Items (fld (bs.drop 4) 5)) (leNat (fld (bs.drop 4) 4)) = true
            · simp [hb] at h
            · have hbf : lastAtLeast (u256Items (fld (bs.drop 4) 5)) (leNat (fld (bs.drop 4) 4)) = false := by simpa using hb
              simp only [hbf, Bool.false_eq_true, if_false, Option.some.injEq, Glsp.proceed.injEq] at h
              subst h
              refine ⟨?_, by omega, hsort, by simpa using hb, rfl⟩
              obtain ⟨hlt, heq, _⟩ := List.findIdx?_eq_some_iff_getElem.mp hidx
              rw [List.getElem?_eq_getElem hlt]
              simpa using heq
          · simp [hsort] at h

example : glspGuards [[1], [2], [3]] [] = some .tipState := by decide

end LightArithmetic

/-! ### (h) alert messages: the signature threshold as a decision, the handler's effects

`Model/Alert.lean` follows `AlertRelayer::received`, `Verifier::verify_signatures`,
`verify_m_of_n` and `Notifier::add`; public-key recovery is a parameter (`rec` = what
`sig.recover(message).ok()` answers per counted signature). -/
section Alert
open CkbVerif.Alert
variable {K : Type} [DecidableEq K]

/-- DECISION: `verify_m_of_n` answers `Ok` exactly when the signature count is within the two length
bounds and `m` pairwise different configured keys are each recovered from some signature — for
every threshold, key set and signature list (duplicated signatures, several signatures of one key
and the `take(m)` cut-off included) -/
theorem alert_threshold_decision (m : Nat) (rec : List (Option K)) (pks : List K) :
    verifyMofN m rec pks = none ↔
      rec.length ≤ pks.eraseDups.length ∧ m ≤ rec.length ∧
      ∃ ks : List K, ks.Nodup ∧ ks.length = m ∧ ∀ k ∈ ks, k ∈ pks ∧ some k ∈ rec := by
  unfold verifyMofN
  simp only [countDistinct_eq]
  constructor
  · intro h
    split at h
    · simp at h
    · split at h
      · simp at h
      · split at h
        · simp at h
        · rename_i h1 h2 h3
          refine ⟨by omega, by omega, (fresh pks rec []).take m, ?_, ?_, ?_⟩
          · exact List.Sublist.nodup (List.take_sublist _ _) (fresh_nodup pks rec [])
          · simp only [List.length_take]; omega
          · intro k hk
            obtain ⟨a, _, c⟩ := fresh_mem pks rec [] k (List.mem_of_mem_take hk)
            exact ⟨a, c⟩
  · rintro ⟨h1, h2, ks, hn, hl, hm⟩
    have hle : ks.length ≤ (fresh pks rec []).length :=
      nodup_subset_length_le ks _ hn (fun k hk => mem_fresh pks rec [] k (hm k hk).1 (by simp) (hm k hk).2)
    rw [if_neg (by omega), if_neg (by omega), if_neg (by omega)]

/-- SOUNDNESS, the direction that matters for a peer's bytes: an accepted signature list carries
`m` pairwise different configured keys -/
theorem alert_accept_needs_threshold_distinct_member_keys (m : Nat) (rec : List (Option K)) (pks : List K)
    (h : verifyMofN m rec pks = none) :
    ∃ ks : List K, ks.Nodup ∧ ks.length = m ∧ ∀ k ∈ ks, k ∈ pks ∧ some k ∈ rec :=
  ((alert_threshold_decision m rec pks).mp h).2.2

/-- the error a refused list gets, in the order of the code: count above the number of keys, count
below the threshold, else the number of distinct configured keys found (which is below `m`) -/
theorem alert_threshold_error (m : Nat) (rec : List (Option K)) (pks : List K) (e : MErr)
    (h : verifyMofN m rec pks = some e) :
    (e = .sigCountOverflow ∧ rec.length > pks.eraseDups.length) ∨
    (e = .sigNotEnough ∧ rec.length ≤ pks.eraseDups.length ∧ m > rec.length) ∨
    (∃ c, e = .threshold c ∧ c < m ∧ c = (fresh pks rec []).length) := by
  unfold verifyMofN at h
  simp only [countDistinct_eq] at h
  split at h
  · left; cases h; exact ⟨rfl, by assumption⟩
  · split at h
    · right; left; cases h; exact ⟨rfl, by omega, by assumption⟩
    · split at h
      · right; right
        rename_i h3
        cases h
        exact ⟨_, rfl, h3, by omega⟩
      · simp at h

example : verifyMofN 2 [some 1, some 3] [1, 2, 3] = none ∧
    -- the same key twice counts once; an unknown key does not count; a duplicated configured key is one key
    verifyMofN 2 [some 1, some 1] [1, 2, 3] = some (.threshold 1) ∧
    verifyMofN 2 [some 1, some 9] [1, 2, 3] = some (.threshold 1) ∧
    verifyMofN 1 [some 1, none] [1, 1] = some .sigCountOverflow ∧
    verifyMofN 3 [some 1, some 2] [1, 2, 3] = some .sigNotEnough := by decide

/-- WITNESS: a configured threshold of 0 accepts an alert nobody signed (the configuration, not the
code, must exclude it) -/
theorem alert_threshold_zero_accepts_unsigned (pks : List K) : verifyMofN 0 ([] : List (Option K)) pks = none := by
  simp [verifyMofN, countDistinct]

/-- the handler relays a message (and hands it to the notifier) only if it passed the gate, its id
was not known, and `m` pairwise different configured keys each produced one of its counted
(65 bytes, `is_valid`) signature items -/
theorem alert_relayed_only_if_signed (m : Nat) (pks : List K) (st : St) (peer : Nat) (conn : List Nat)
    (bs : Bytes) (cls : List (Option K)) (eff : Bool) (to : List Nat)
    (h : (received m pks st peer conn bs cls eff).2 = .relay to) :
    gate bs = .pass ∧ hasReceived st (alertOf bs).id = false ∧
    ∃ ks : List K, ks.Nodup ∧ ks.length = m ∧
      ∀ k ∈ ks, k ∈ pks ∧ ∃ item, (item, some k) ∈ (sigItems bs).zip cls ∧ sigCounted item = true := by
  unfold received at h
  split at h
  · simp at h
  · simp at h
  · rename_i hg
    simp only at h
    split at h
    · simp at h
    · rename_i hr
      split at h
      · simp at h
      · rename_i hv
        refine ⟨hg, by simpa using hr, ?_⟩
        unfold verifySignatures at hv
        obtain ⟨ks, hn, hl, hm⟩ := alert_accept_needs_threshold_distinct_member_keys _ _ _ hv
        refine ⟨ks, hn, hl, fun k hk => ⟨(hm k hk).1, ?_⟩⟩
        obtain ⟨p, hp, hpk⟩ := List.mem_map.mp (hm k hk).2
        obtain ⟨hz, hc⟩ := List.mem_filter.mp hp
        refine ⟨p.1, ?_, hc⟩
        rw [← hpk]
        exact hz

/-- a 65-byte item with `r = s = 1`, `v = 0` (in range, hence counted) -/
def sigOneOne : Bytes := List.replicate 31 0 ++ [1] ++ List.replicate 31 0 ++ [1] ++ [0]

/-- a well-formed alert (id 1, priority 9, notice_until 5, empty message, no version bounds) with that one item -/
def sampleAlert : Bytes :=
  encDyn [encDyn [[5, 0, 0, 0, 0, 0, 0, 0], le32 1, le32 0, le32 9, le32 0, [], []], encDyn [le32 65 ++ sigOneOne]]

-- non-vacuity: with key 7 configured, threshold 1, peers 1 and 2 connected and the item produced by key 7
-- the message from peer 1 is relayed to peer 2; produced by another key it is refused; a second copy is ignored
example : (received 1 [7] {} 1 [1, 2] sampleAlert [some 7] true).2 = .relay [2] ∧
    (received 1 [7] {} 1 [1, 2] sampleAlert [some 8] true).2 = .badSig (.threshold 0) ∧
    (received 1 [7] (received 1 [7] {} 1 [1, 2] sampleAlert [some 7] true).1 2 [1, 2] sampleAlert [some 7] true).2 = .ignored ∧
    ((connected (received 1 [7] {} 1 [1, 2] sampleAlert [some 7] true).1 4).2.map (·.id) = [1]) ∧
    ((connected (received 1 [7] {} 1 [1, 2] sampleAlert [some 7] true).1 5).2 = []) := by decide +kernel

/-- a message that is not relayed (malformed, not UTF-8, known id, bad signatures) changes nothing:
neither the notifier nor the known lists -/
theorem alert_rejected_no_effect (m : Nat) (pks : List K) (st : St) (peer : Nat) (conn : List Nat)
    (bs : Bytes) (cls : List (Option K)) (eff : Bool)
    (h : ∀ to, (received m pks st peer conn bs cls eff).2 ≠ .relay to) :
    (received m pks st peer conn bs cls eff).1 = st := by
  unfold received at h ⊢
  cases hg : gate bs with
  | malformed => rfl
  | notUtf8 => rfl
  | pass =>
    simp only [hg] at h ⊢
    by_cases hr : hasReceived st (alertOf bs).id = true
    · simp [hr]
    · simp only [hr, if_false] at h ⊢
      cases hv : verifySignatures m pks bs cls with
      | some e => rfl
      | none =>
        simp only [hv] at h
        exact absurd rfl (h _)

/-- BOUNDED STATE: whatever peers send, the two LRU caches of the alert handler stay within their
capacities (`KNOWN_LIST_SIZE` peers, `CANCEL_FILTER_SIZE` cancelled ids) -/
theorem alert_caches_bounded (m : Nat) (pks : List K) (st : St) (peer : Nat) (conn : List Nat)
    (bs : Bytes) (cls : List (Option K)) (eff : Bool)
    (hk : st.known.length ≤ CkbVerif.Gen.Codec.ALERT_KNOWN_LIST_SIZE)
    (hc : st.cancelled.length ≤ CkbVerif.Gen.Codec.ALERT_CANCEL_FILTER_SIZE) :
    (received m pks st peer conn bs cls eff).1.known.length ≤ CkbVerif.Gen.Codec.ALERT_KNOWN_LIST_SIZE ∧
    (received m pks st peer conn bs cls eff).1.cancelled.length ≤ CkbVerif.Gen.Codec.ALERT_CANCEL_FILTER_SIZE := by
  have hadd : ∀ (s : St) (a : AlertV), s.known.length ≤ CkbVerif.Gen.Codec.ALERT_KNOWN_LIST_SIZE →
      s.cancelled.length ≤ CkbVerif.Gen.Codec.ALERT_CANCEL_FILTER_SIZE →
      (add s a eff).known.length ≤ CkbVerif.Gen.Codec.ALERT_KNOWN_LIST_SIZE ∧
      (add s a eff).cancelled.length ≤ CkbVerif.Gen.Codec.ALERT_CANCEL_FILTER_SIZE := by
    intro s a h1 h2
    have hcl : (cancel s a.cancel).cancelled.length ≤ CkbVerif.Gen.Codec.ALERT_CANCEL_FILTER_SIZE :=
      lruPut_length_le _ (by decide) _ _ _ h2
    unfold add
    split
    · exact ⟨h1, h2⟩
    · dsimp only
      split <;> split <;> (try split) <;> first | exact ⟨h1, hcl⟩ | exact ⟨h1, h2⟩
  unfold received
  split
  · exact ⟨hk, hc⟩
  · exact ⟨hk, hc⟩
  · dsimp only
    split
    · exact ⟨hk, hc⟩
    · split
      · exact ⟨hk, hc⟩
      · have h1 := markKnown_length_le st.known peer (alertOf bs).id hk
        have h2 := (selectPeers_spec (alertOf bs).id conn (markKnown st.known peer (alertOf bs).id).1 [] h1).1
        exact hadd _ _ h2 hc

/-- the relay targets are a sub-list of `connected_peers()` (each connected peer at most once when
that list has no repetition), in its order -/
theorem alert_relay_targets_sublist (m : Nat) (pks : List K) (st : St) (peer : Nat) (conn : List Nat)
    (bs : Bytes) (cls : List (Option K)) (eff : Bool) (to : List Nat)
    (hk : st.known.length ≤ CkbVerif.Gen.Codec.ALERT_KNOWN_LIST_SIZE)
    (h : (received m pks st peer conn bs cls eff).2 = .relay to) : to.Sublist conn := by
  unfold received at h
  split at h
  · simp at h
  · simp at h
  · dsimp only at h
    split at h
    · simp at h
    · split at h
      · simp at h
      · have h1 := markKnown_length_le st.known peer (alertOf bs).id hk
        obtain ⟨_, sub, hs, he⟩ := selectPeers_spec (alertOf bs).id conn (markKnown st.known peer (alertOf bs).id).1 [] h1
        simp only [Verdict.relay.injEq] at h
        rw [← h, he]
        simpa using hs

/-- `connected` sends only alerts that have not expired -/
theorem alert_connected_sends_unexpired (st : St) (now : Nat) :
    ∀ a ∈ (connected st now).2, a.noticeUntil > now := by
  intro a ha
  simp only [connected, clearExpired, List.mem_filter, decide_eq_true_eq] at ha
  exact ha.2

/-- an accepted alert that cancels another id makes that id "received" for good (until the cancel
filter rolls over): a later copy of the cancelled alert is ignored -/
theorem alert_cancel_blocks (st : St) (a : AlertV) (eff : Bool) (hc : a.cancel > 0)
    (hr : hasReceived st a.id = false) : hasReceived (add st a eff) a.cancel = true := by
  have hcan : ∀ s : St, hasReceived s a.cancel = true → ∀ b : AlertV,
      hasReceived { s with received := b :: s.received.filter (fun c => !(c.id == b.id)) } a.cancel = true := by
    intro s hs b
    simp only [hasReceived, Bool.or_eq_true] at hs ⊢
    rcases hs with hs | hs
    · simp only [List.any_cons, Bool.or_eq_true, List.any_eq_true, List.mem_filter]
      obtain ⟨x, hx, hxe⟩ := List.any_eq_true.mp hs
      by_cases hxb : x.id = b.id
      · left; left; simpa [← hxb] using hxe
      · left; right; exact ⟨x, ⟨hx, by simpa using hxb⟩, hxe⟩
    · right; exact hs
  have h0 : hasReceived (cancel st a.cancel) a.cancel = true := by
    simp only [hasReceived, cancel, lruPut, Bool.or_eq_true]
    right
    split <;> simp
  unfold add
  rw [if_neg (by simp [hr]), if_pos hc]
  have h1 := hcan (cancel st a.cancel) h0 a
  dsimp only
  split
  · exact h1
  · split
    · exact h1
    · simpa [hasReceived] using h1

/-- `noticed_alerts` stays ordered by priority (highest first) under `Notifier::add`: the stable
`sort_by_key(u32::MAX - priority)` after the push is an insertion in front of the first alert of
strictly lower priority -/
theorem alert_noticed_sorted (st : St) (a : AlertV) (eff : Bool)
    (hs : st.noticed.Pairwise (fun x y => x.priority ≥ y.priority)) :
    (add st a eff).noticed.Pairwise (fun x y => x.priority ≥ y.priority) := by
  have hins : ∀ l : List AlertV, l.Pairwise (fun x y => x.priority ≥ y.priority) →
      (insertByPriority a l).Pairwise (fun x y => x.priority ≥ y.priority) ∧
      ∀ z ∈ insertByPriority a l, z = a ∨ z ∈ l := by
    intro l
    induction l with
    | nil => intro _; simp [insertByPriority]
    | cons b rest ih =>
      intro hl
      obtain ⟨hb, hrest⟩ := List.pairwise_cons.mp hl
      unfold insertByPriority
      split
      · rename_i hlt
        refine ⟨List.pairwise_cons.mpr ⟨fun z hz => ?_, hl⟩, fun z hz => ?_⟩
        · rcases List.mem_cons.mp hz with rfl | hz
          · omega
          · have := hb z hz; omega
        · rcases List.mem_cons.mp hz with rfl | hz
          · exact Or.inl rfl
          · exact Or.inr hz
      · rename_i hge
        obtain ⟨ih1, ih2⟩ := ih hrest
        refine ⟨List.pairwise_cons.mpr ⟨fun z hz => ?_, ih1⟩, fun z hz => ?_⟩
        · rcases ih2 z hz with rfl | hz
          · omega
          · exact hb z hz
        · rcases List.mem_cons.mp hz with rfl | hz
          · exact Or.inr List.mem_cons_self
          · rcases ih2 z hz with h | h
            · exact Or.inl h
            · exact Or.inr (List.mem_cons_of_mem _ h)
  have hc : (cancel st a.cancel).noticed.Pairwise (fun x y => x.priority ≥ y.priority) :=
    List.Pairwise.sublist List.filter_sublist hs
  unfold add
  split
  · exact hs
  · dsimp only
    split <;> split <;> (try split) <;> first | exact hc | exact hs | exact (hins _ hc).1 | exact (hins _ hs).1

/-- `std::str::from_utf8` accepts every ASCII string (`utf8Valid` is total and its fuel is enough:
`utf8Fuel_mono` in `Lemmas/Alert.lean`) -/
theorem utf8_valid_of_ascii (bs : Bytes) (h : ∀ b ∈ bs, b.toNat < 128) : utf8Valid bs = true :=
  utf8Fuel_ascii bs bs.length (Nat.le_refl _) h

/-- `Identify::verify` is decided for every byte string: with the UTF-8 test modelled nothing is left
open, and where `identifyVerify` (`Model/Proto.lean`) already decided, the answer is unchanged -/
theorem identify_verify_decided (name bs : Bytes) :
    identifyVerifyFull name bs ≠ .undecided ∧
    (CkbVerif.Proto.identifyVerify name bs ≠ .undecided → identifyVerifyFull name bs = CkbVerif.Proto.identifyVerify name bs) := by
  unfold identifyVerifyFull
  cases h : CkbVerif.Proto.identifyVerify name bs with
  | none => simp
  | some f => simp
  | undecided =>
    constructor
    · simp only; split <;> simp
    · intro hc; exact absurd rfl hc

/-- every step of the UTF-8 test consumes at least one byte and at most four -/
theorem utf8_step_consumes (bs r : Bytes) (h : utf8Step bs = some r) : r.length < bs.length :=
  utf8Step_shorter bs r h

example : utf8Valid [0xe2, 0x82, 0xac] = true ∧ utf8Valid [0xe2, 0x82] = false ∧ utf8Valid [0xed, 0xa0, 0x80] = false ∧
    utf8Valid [0xf4, 0x8f, 0xbf, 0xbf] = true ∧ utf8Valid [0xf4, 0x90, 0x80, 0x80] = false ∧ utf8Valid [0xc0, 0xaf] = false := by decide

end Alert

end CkbVerif.C16
