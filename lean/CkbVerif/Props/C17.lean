import CkbVerif.Lemmas.Orphan
import CkbVerif.Lemmas.OrphanExpire
import CkbVerif.Lemmas.Skip
import CkbVerif.Lemmas.Inflight
import CkbVerif.Lemmas.HeaderMap
import CkbVerif.Lemmas.Orphan3
import CkbVerif.Lemmas.InflightPolicy

/-!
# C17 — sync bookkeeping structures behave like their simple mathematical models

Four structures, four models (`Model/{Orphan, Skip, Inflight, HeaderMap}.lean`), each following the
Rust code; the theorems relate them to the plain mathematical object: descendant sets of a parent
relation, walking parent links, a partial function block ↦ peer, a plain map.
-/
namespace CkbVerif.C17

/-! ## 1. Orphan block pool -/
section Orphan
open CkbVerif.Orphan

/-- Pool states reachable by any sequence of `insert` (of blocks whose parent is `par id`),
`remove_blocks_by_parent` and `clean_expired_blocks`. -/
inductive OReach (par : Nat → Nat) : Pool → Prop
  | empty : OReach par {}
  | insert {s : Pool} (b : Blk) : OReach par s → b.parent = par b.id → OReach par (insert s b)
  | release {s : Pool} (p : Nat) : OReach par s → OReach par (removeByParent s p).1
  | expire {s : Pool} (tipEpoch : Nat) : OReach par s → OReach par (cleanExpired s tipEpoch).1

theorem orphan_inv {par : Nat → Nat} (hpar : ∀ i, par i ≠ i) {s : Pool} (h : OReach par s) :
    Orphan.Inv par s := by
  induction h with
  | empty => exact Orphan.Inv.empty par
  | insert b _ hb ih => exact ih.insert hpar hb
  | release p _ ih => exact ih.removeByParent p
  | expire e _ ih => exact ih.cleanExpired e

/-- `leaders` = the parents of pooled blocks that are not themselves pooled — after any sequence
of inserts, releases and expiries (no block is its own parent: `par i ≠ i`). -/
theorem leaders_inv {par : Nat → Nat} (hpar : ∀ i, par i ≠ i) {s : Pool} (h : OReach par s) (p : Nat) :
    p ∈ s.leaders ↔ (∃ b, b ∈ s.pool ∧ b.parent = p) ∧ ¬ ∃ b, b ∈ s.pool ∧ b.id = p :=
  (orphan_inv hpar h).leaders p

/-- Releasing a parent `p` that is not itself pooled returns exactly the stored descendants of
`p`, each once, and keeps exactly the rest; the leader invariant holds afterwards. -/
theorem release_exact {par : Nat → Nat} (hpar : ∀ i, par i ≠ i) {s : Pool} (h : OReach par s)
    {p : Nat} (hp : ¬ ∃ b, b ∈ s.pool ∧ b.id = p) :
    (∀ b, b ∈ (removeByParent s p).2 ↔ Desc s.pool p b) ∧
    ((removeByParent s p).2.map (·.id)).Nodup ∧
    (∀ b, b ∈ (removeByParent s p).1.pool ↔ b ∈ s.pool ∧ ¬ Desc s.pool p b) ∧
    LeadersInv (removeByParent s p).1 := by
  have inv := orphan_inv hpar h
  refine ⟨?_, removeByParent_nodup inv.nodup p, ?_, (inv.removeByParent p).leaders⟩
  · by_cases hl : p ∈ s.leaders
    · exact (removeByParent_leader hl).1
    · rw [removeByParent_nonleader hl]
      intro b
      constructor
      · intro hb; cases hb
      · intro hd
        exact (hl ((inv.leaders p).mpr ⟨hd.has_child, hp⟩)).elim
  · by_cases hl : p ∈ s.leaders
    · exact (removeByParent_leader hl).2.1
    · rw [removeByParent_nonleader hl]
      intro b
      constructor
      · intro hb
        exact ⟨hb, fun hd => hl ((inv.leaders p).mpr ⟨hd.has_child, hp⟩)⟩
      · intro hb; exact hb.1

/-- Expiry removes exactly the stored descendants of the leaders whose first child is older than
`EXPIRED_EPOCH` epochs (all children of a leader share their epoch in well-formed histories, so
"first" is immaterial), and keeps exactly the rest. -/
theorem expire_exact {par : Nat → Nat} (hpar : ∀ i, par i ≠ i) {s : Pool} (h : OReach par s) (e : Nat) :
    (∀ b, b ∈ (cleanExpired s e).2 ↔
      ∃ l, l ∈ s.leaders ∧ needClean s.pool l e = true ∧ Desc s.pool l b) ∧
    (∀ b, b ∈ (cleanExpired s e).1.pool ↔
      b ∈ s.pool ∧ ¬ ∃ l, l ∈ s.leaders ∧ needClean s.pool l e = true ∧ Desc s.pool l b) :=
  cleanExpired_exact (orphan_inv hpar h) e

/-- non-vacuity: 1 ← 2 ← 3, 1 ← 4, 7 ← 8 pooled out of order; releasing 1's parent 0 returns
the four descendants and keeps 8 -/
def exPool : Pool :=
  [⟨3, 2, 0⟩, ⟨8, 7, 0⟩, ⟨1, 0, 0⟩, ⟨4, 1, 0⟩, ⟨2, 1, 0⟩].foldl insert {}

example : exPool.leaders = [0, 7] := by decide
example : ((removeByParent exPool 0).2.map (·.id)) = [1, 2, 4, 3] ∧
    ((removeByParent exPool 0).1.pool.map (·.id)) = [8] ∧ (removeByParent exPool 0).1.leaders = [7] := by decide
example : ((cleanExpired exPool 7).2.map (·.id)) = [1, 2, 4, 3, 8] ∧ (cleanExpired exPool 6).2 = [] := by decide
example : OReach (fun i => match i with | 3 => 2 | 8 => 7 | 1 => 0 | 4 => 1 | 2 => 1 | _ => i + 100) exPool :=
  .insert _ (.insert _ (.insert _ (.insert _ (.insert _ .empty (by decide)) (by decide)) (by decide)) (by decide)) (by decide)

/-! ### the three maps of the pool, as the code keeps them (`Model/Orphan3.lean`) -/

/-- Three-map pool states reachable by any sequence of `insert` (duplicates included),
`remove_blocks_by_parent` and `clean_expired_blocks`. -/
inductive O3Reach (par : Nat → Nat) : Pool3 → Prop
  | empty : O3Reach par {}
  | insert {s : Pool3} (b : Blk) : O3Reach par s → b.parent = par b.id → O3Reach par (insert3 s b)
  | release {s : Pool3} (p : Nat) : O3Reach par s → O3Reach par (removeByParent3 s p).1
  | expire {s : Pool3} (tipEpoch : Nat) : O3Reach par s → O3Reach par (cleanExpired3 s tipEpoch).1

/-- Refinement: every reachable three-map state is simulated by a reachable state of the
one-relation model (same operation sequence): `parents` is the relation itself, `blocks[q]` its
children look-up, `leaders` is shared. -/
theorem orphan3_refines {par : Nat → Nat} (hpar : ∀ i, par i ≠ i) {s3 : Pool3} (h : O3Reach par s3) :
    ∃ s, OReach par s ∧ Sim s3 s := by
  induction h with
  | empty => exact ⟨{}, .empty, Sim.empty⟩
  | insert b _ hb ih =>
    obtain ⟨s, hr, hs⟩ := ih
    exact ⟨_, .insert b hr hb, hs.insert (orphan_inv hpar hr) hb⟩
  | release p _ ih =>
    obtain ⟨s, hr, hs⟩ := ih
    exact ⟨_, .release p hr, (hs.removeByParent (orphan_inv hpar hr) p).2⟩
  | expire e _ ih =>
    obtain ⟨s, hr, hs⟩ := ih
    exact ⟨_, .expire e hr, (hs.cleanExpired (orphan_inv hpar hr) e).2⟩

/-- … and the two models return the same released blocks, in the same order. -/
theorem orphan3_answers {par : Nat → Nat} (hpar : ∀ i, par i ≠ i) {s3 : Pool3} {s : Pool}
    (hr : OReach par s) (hs : Sim s3 s) (x : Nat) :
    (removeByParent3 s3 x).2 = (removeByParent s x).2 ∧ (cleanExpired3 s3 x).2 = (cleanExpired s x).2 :=
  ⟨(hs.removeByParent (orphan_inv hpar hr) x).1, (hs.cleanExpired (orphan_inv hpar hr) x).1⟩

theorem mem_parents_entry {pool : List Blk} {h p : Nat} :
    (h, p) ∈ pool.map entry ↔ ∃ b, b ∈ pool ∧ b.id = h ∧ b.parent = p := by
  simp only [List.mem_map, entry, Prod.mk.injEq]

/-- The three-map invariant, after any sequence of inserts (in any order, duplicates included),
releases and expiries: `parents` and `blocks` are maps (unique keys) describing the same relation
— `parents[h] = p` exactly when block `h` sits in the group `blocks[p]` —, no group is empty, a
group holds only children of its key, each once, and `leaders` = the parents of pooled blocks
that are not themselves pooled (read off `parents` alone). -/
theorem three_map_inv {par : Nat → Nat} (hpar : ∀ i, par i ≠ i) {s3 : Pool3} (h : O3Reach par s3) :
    (s3.parents.map (·.1)).Nodup ∧ (s3.blocks.map (·.1)).Nodup ∧
    (∀ h p, (h, p) ∈ s3.parents ↔ ∃ g b, (p, g) ∈ s3.blocks ∧ b ∈ g ∧ b.id = h) ∧
    (∀ p g, (p, g) ∈ s3.blocks → g ≠ [] ∧ (∀ b, b ∈ g → b.parent = p) ∧ (g.map (·.id)).Nodup) ∧
    (∀ p, p ∈ s3.leaders ↔ (∃ h, (h, p) ∈ s3.parents) ∧ ¬ ∃ q, (p, q) ∈ s3.parents) ∧
    s3.leaders.Nodup := by
  obtain ⟨s, hr, hs⟩ := orphan3_refines hpar h
  have inv := orphan_inv hpar hr
  refine ⟨?_, hs.keys, ?_, ?_, ?_, ?_⟩
  · rw [hs.parents, List.map_map]
    exact inv.nodup
  · intro i p
    rw [hs.parents, mem_parents_entry]
    constructor
    · rintro ⟨b, hb, rfl, rfl⟩
      obtain ⟨g, hg, hbg⟩ := hs.mem_blocks_iff.mp hb
      exact ⟨g, b, hg, hbg, rfl⟩
    · rintro ⟨g, b, hg, hbg, rfl⟩
      rw [hs.group_members hg] at hbg
      have := mem_children.mp hbg
      exact ⟨b, this.1, rfl, this.2⟩
  · intro p g hg
    refine ⟨hs.nonempty p g (group_of_mem hs.keys hg), ?_, ?_⟩
    · intro b hb
      rw [hs.group_members hg] at hb
      exact (mem_children.mp hb).2
    · rw [hs.group_members hg]
      exact List.Nodup.sublist (List.Sublist.map _ List.filter_sublist) inv.nodup
  · intro p
    rw [hs.leaders, inv.leaders p, hs.parents]
    constructor
    · rintro ⟨⟨b, hb, hbp⟩, hn⟩
      refine ⟨⟨b.id, mem_parents_entry.mpr ⟨b, hb, rfl, hbp⟩⟩, ?_⟩
      rintro ⟨q, hq⟩
      obtain ⟨c, hc, hci, _⟩ := mem_parents_entry.mp hq
      exact hn ⟨c, hc, hci⟩
    · rintro ⟨⟨i, hi⟩, hn⟩
      obtain ⟨b, hb, _, hbp⟩ := mem_parents_entry.mp hi
      refine ⟨⟨b, hb, hbp⟩, ?_⟩
      rintro ⟨c, hc, hci⟩
      exact hn ⟨c.parent, mem_parents_entry.mpr ⟨c, hc, hci, rfl⟩⟩
  · rw [hs.leaders]; exact inv.leadersNodup

/-- every block stored in some group -/
def allBlocks (s : Pool3) : List Blk := s.blocks.flatMap (·.2)

theorem mem_allBlocks_iff {s3 : Pool3} {s : Pool} (hs : Sim s3 s) (b : Blk) :
    b ∈ allBlocks s3 ↔ b ∈ s.pool := by
  simp only [allBlocks, List.mem_flatMap]
  constructor
  · rintro ⟨⟨q, g⟩, hm, hb⟩
    simp only at hb
    rw [hs.group_members hm] at hb
    exact (mem_children.mp hb).1
  · intro hb
    obtain ⟨g, hg, hbg⟩ := hs.mem_blocks_iff.mp hb
    exact ⟨(b.parent, g), hg, hbg⟩

/-- `release_exact` carried over to the three maps: releasing a parent that is not pooled (no
`parents` entry) returns exactly the descendants stored in `blocks`, each once, and the groups
keep exactly the rest. -/
theorem release3_exact {par : Nat → Nat} (hpar : ∀ i, par i ≠ i) {s3 : Pool3} (h : O3Reach par s3)
    {p : Nat} (hp : ¬ ∃ q, (p, q) ∈ s3.parents) :
    (∀ b, b ∈ (removeByParent3 s3 p).2 ↔ Desc (allBlocks s3) p b) ∧
    ((removeByParent3 s3 p).2.map (·.id)).Nodup ∧
    (∀ b, b ∈ allBlocks (removeByParent3 s3 p).1 ↔ b ∈ allBlocks s3 ∧ ¬ Desc (allBlocks s3) p b) := by
  obtain ⟨s, hr, hs⟩ := orphan3_refines hpar h
  have inv := orphan_inv hpar hr
  obtain ⟨e1, hs'⟩ := hs.removeByParent inv p
  have hp' : ¬ ∃ b, b ∈ s.pool ∧ b.id = p := by
    rintro ⟨b, hb, hbi⟩
    exact hp ⟨b.parent, by rw [hs.parents]; exact mem_parents_entry.mpr ⟨b, hb, hbi, rfl⟩⟩
  obtain ⟨a1, a2, a3, _⟩ := release_exact hpar hr hp'
  have hd : ∀ b, Desc (allBlocks s3) p b ↔ Desc s.pool p b := fun b =>
    ⟨fun d => d.mono (fun c hc => (mem_allBlocks_iff hs c).mp hc),
     fun d => d.mono (fun c hc => (mem_allBlocks_iff hs c).mpr hc)⟩
  refine ⟨?_, ?_, ?_⟩
  · intro b; rw [e1, a1 b, hd b]
  · rw [e1]; exact a2
  · intro b; rw [mem_allBlocks_iff hs' b, a3 b, mem_allBlocks_iff hs b, hd b]

/-- non-vacuity: the pool of `exPool`, three maps; the sibling group of 1 holds 4 and 2, block 1
arrived after its children and is no leader; a duplicate insert changes nothing -/
def exPool3 : Pool3 :=
  [⟨3, 2, 0⟩, ⟨8, 7, 0⟩, ⟨1, 0, 0⟩, ⟨4, 1, 0⟩, ⟨2, 1, 0⟩, ⟨4, 1, 0⟩].foldl insert3 {}

example : exPool3.leaders = [0, 7] ∧ exPool3.parents = [(4, 1), (2, 1), (1, 0), (8, 7), (3, 2)] ∧
    exPool3.blocks.map (fun e => (e.1, e.2.map (·.id))) = [(1, [4, 2]), (0, [1]), (7, [8]), (2, [3])] := by
  decide
example : ((removeByParent3 exPool3 0).2.map (·.id)) = [1, 4, 2, 3] ∧
    (removeByParent3 exPool3 0).1.parents = [(8, 7)] ∧ (removeByParent3 exPool3 0).1.leaders = [7] := by decide
example : O3Reach (fun i => match i with | 3 => 2 | 8 => 7 | 1 => 0 | 4 => 1 | 2 => 1 | _ => i + 100) exPool3 :=
  .insert _ (.insert _ (.insert _ (.insert _ (.insert _ (.insert _ .empty (by decide)) (by decide)) (by decide))
    (by decide)) (by decide)) (by decide)

end Orphan

/-! ## 2. Skip-list ancestor lookup and locator -/
section Skip
open CkbVerif.Skip

/-- the skip height is strictly below the height: `get_ancestor`'s loop terminates -/
theorem get_skip_height_lt {h : Nat} (hpos : 1 ≤ h) : getSkipHeight h < h :=
  getSkipHeight_lt hpos

/-- `HeaderIndexView::get_ancestor` through skip pointers (and the `fast_scanner` shortcut)
returns the same header as walking parent links one by one, for every well-formed store (a tree
of any shape), every start header and every target number. -/
theorem get_ancestor_eq_walk {store : Store} (ok : StoreOk store) {scan : Nat → Hdr → Option Hdr}
    (sok : ScanOk store scan) {h : Hdr} (hs : store h.id = some h) (number : Nat) :
    getAncestor store scan h number =
      if number > h.number then none else walk store (h.number - number) h := by
  by_cases hn : number > h.number
  · simp [getAncestor, hn]
  · rw [if_neg hn]
    exact getAncestor_eq_walk ok sok hs (by omega)

/-- The store hypothesis is what the code maintains: the empty store is well formed, and inserting
a new header whose skip pointer was computed by `build_skip` (as `insert_valid_header` does, the
parent being known) keeps it well formed. -/
theorem build_skip_ok {store : Store} (ok : StoreOk store) {scan : Nat → Hdr → Option Hdr}
    (sok : ScanOk store scan) {h : Hdr} (hnew : store h.id = none) (hskip : h.skip = none)
    (hpar : h.number = 0 ∨ ∃ p, store h.parent = some p ∧ p.number + 1 = h.number) :
    StoreOk (extend store (buildSkip store scan h)) :=
  storeOk_extend ok sok hnew hskip hpar

theorem empty_store_ok : StoreOk (fun _ => none) := by
  refine ⟨?_, ?_, ?_⟩
  · intro i h hs; cases hs
  · intro i h hs; cases hs
  · intro i h s hs; cases hs

/-- the ancestor lookup `get_locator` uses: from a base hash -/
def ancOf (store : Store) (scan : Nat → Hdr → Option Hdr) (base index : Nat) : Option Nat :=
  (store base).bind (fun b => (getAncestor store scan b index).map (·.id))

/-- the ancestor of `start` at `index`, by walking parent links -/
def walkId (store : Store) (start : Hdr) (index : Nat) : Option Nat :=
  if index ≤ start.number then (walk store (start.number - index) start).map (·.id) else none

/-- `get_locator` (which looks each entry up from the previous entry, through skip pointers)
returns the same hashes as walking parent links from the start header. -/
theorem locator_eq_walk {store : Store} (ok : StoreOk store) {scan : Nat → Hdr → Option Hdr}
    (sok : ScanOk store scan) {start : Hdr} (hs : store start.id = some start) (genesis : Nat) :
    getLocator (ancOf store scan) genesis start.number start.id =
      getLocator (fun _ i => walkId store start i) genesis start.number start.id := by
  unfold getLocator
  congr 1
  apply locatorLoop_congr (walkId store start) (ancOf store scan)
  · intro base j i hA hij
    unfold walkId at hA
    split at hA
    · rename_i hj
      obtain ⟨t, ht, htn, hts⟩ := walk_ok ok (start.number - j) start hs (by omega)
      rw [ht] at hA
      have hb : t.id = base := by simpa using hA
      subst hb
      have hi : i ≤ t.number := by omega
      simp only [ancOf, hts, Option.bind_some]
      rw [getAncestor_eq_walk ok sok hts hi]
      unfold walkId
      rw [if_pos (by omega)]
      have : start.number - i = (start.number - j) + (t.number - i) := by omega
      rw [this, walk_add, ht]
      rfl
    · cases hA
  · refine ⟨start.number, Nat.le_refl _, ?_⟩
    simp [walkId, walk]

/-- non-vacuity: a chain 0..20 with a fork 11'..13' off block 10, skip pointers as `build_skip`
records them -/
def exStore : Store := fun i =>
  if i ≤ 20 then some ⟨i, i, i - 1, if i = 0 then none else some (getSkipHeight i)⟩
  else if i ≤ 23 then
    some ⟨i, i - 10, if i = 21 then 10 else i - 1,
      some (if getSkipHeight (i - 10) ≤ 10 then getSkipHeight (i - 10) else getSkipHeight (i - 10) + 10)⟩
  else none

example : (getAncestor exStore (fun _ _ => none) ⟨23, 13, 22, some 22⟩ 3).map (·.id) = some 3 := by decide
example : (getAncestor exStore (fun _ _ => none) ⟨20, 20, 19, some 16⟩ 7).map (·.id) = some 7 := by decide
example : getLocator (ancOf exStore (fun _ _ => none)) 0 13 23 =
    some [23, 22, 21, 10, 9, 8, 7, 6, 5, 4, 2, 0] := by decide

/-- `get_locator` never panics ("index calculated in get_locator") and its loop terminates, for
every well-formed store, every start header and every chain length (in particular above
`ONE_DAY_BLOCK_NUMBER`, where the index is halved): the model's fuel `start.number + 1` is never
the reason to stop — any larger fuel gives the same locator. -/
theorem locator_total {store : Store} (ok : StoreOk store) {scan : Nat → Hdr → Option Hdr}
    (sok : ScanOk store scan) {start : Hdr} (hs : store start.id = some start) (genesis : Nat) :
    (∃ l, getLocator (ancOf store scan) genesis start.number start.id = some l) ∧
    (∀ extra, locatorLoop (ancOf store scan) (start.number + 1 + extra) 1 start.number start.id [] =
      locatorLoop (ancOf store scan) (start.number + 1) 1 start.number start.id []) := by
  constructor
  · rw [locator_eq_walk ok sok hs genesis]
    unfold getLocator
    obtain ⟨r, hr⟩ := locatorLoop_some (walkId store start) (start.number + 1) 1 start.number start.id []
      (by
        intro i hi
        obtain ⟨t, ht, _, _⟩ := walk_ok ok (start.number - i) start hs (by omega)
        exact ⟨t.id, by simp [walkId, hi, ht]⟩)
    rw [hr]
    exact ⟨_, rfl⟩
  · intro extra
    exact locatorLoop_fuel _ _ _ 1 _ _ [] (Nat.le_refl _) (by omega) (by omega)

example : ∃ l, getLocator (ancOf exStore (fun _ _ => none)) 0 13 23 = some l :=
  ⟨[23, 22, 21, 10, 9, 8, 7, 6, 5, 4, 2, 0], by decide⟩

end Skip

/-! ## 3. In-flight download table -/
section Inflight
open CkbVerif.Inflight

/-- Tables reachable by any sequence of the public mutators, at any clock readings. -/
inductive IReach : Inflight → Prop
  | empty : IReach {}
  | insert {s : Inflight} (now peer : Nat) (b : Blk) : IReach s → IReach (insert s now peer b).1
  | removeByPeer {s : Inflight} (peer : Nat) : IReach s → IReach (removeByPeer s peer).1
  | removeByBlock {s : Inflight} (now : Nat) (b : Blk) : IReach s → IReach (removeByBlock s now b).1
  | prune {s : Inflight} (now tip : Nat) : IReach s → IReach (prune s now tip).1
  | markSlow {s : Inflight} (now tip : Nat) : IReach s → IReach (markSlow s now tip)
  | setPolicy {s : Inflight} (adjustment : Bool) (protectNum : Nat) :
      IReach s → IReach (setPolicy s adjustment protectNum)

theorem inflight_inv {s : Inflight} (h : IReach s) : Inflight.Inv s := by
  induction h with
  | empty => exact Inflight.Inv.empty
  | insert now peer b _ ih => exact ih.insert now peer b
  | removeByPeer peer _ ih => exact ih.removeByPeer peer
  | removeByBlock now b _ ih => exact ih.removeByBlock now b
  | prune now tip _ ih => exact ih.prune now tip
  | markSlow now tip _ ih => exact ih.markSlow now tip
  | setPolicy a n _ ih => exact ih.setPolicy a n

/-- Every block listed for a peer is recorded as in flight, from exactly that peer (and the
record is unique). -/
theorem peer_list_sub_states {s : Inflight} (h : IReach s) {p : Nat} {sc : Sched} {b : Blk}
    (hp : (p, sc) ∈ s.scheds) (hb : b ∈ sc.hashes) :
    ∃ st, (b, st) ∈ s.states ∧ st.peer = p ∧ ∀ st', (b, st') ∈ s.states → st' = st := by
  have inv := inflight_inv h
  obtain ⟨st, h1, h2⟩ := inv.listed p sc b hp hb
  exact ⟨st, h1, h2, fun st' h' => assoc_unique inv.statesNodup h' h1⟩

/-- A block is never in flight from two peers at once. -/
theorem assign_unique {s : Inflight} (h : IReach s) {p1 p2 : Nat} {sc1 sc2 : Sched} {b : Blk}
    (h1 : (p1, sc1) ∈ s.scheds) (h2 : (p2, sc2) ∈ s.scheds) (hb1 : b ∈ sc1.hashes)
    (hb2 : b ∈ sc2.hashes) : p1 = p2 := by
  obtain ⟨st1, _, e1, u⟩ := peer_list_sub_states h h1 hb1
  obtain ⟨st2, m2, e2, _⟩ := peer_list_sub_states h h2 hb2
  rw [← e1, ← e2, u st2 m2]

/-- … and a request for a block that is already in flight is refused without any change. -/
theorem insert_refuses_second_peer {s : Inflight} {b : Blk} {st : Req} (hm : (b, st) ∈ s.states)
    (now peer : Nat) : insert s now peer b = (s, false) := by
  have : hasState s b = true := by
    simp only [hasState, List.any_eq_true]
    exact ⟨(b, st), hm, by simp⟩
  simp [CkbVerif.Inflight.insert, this]

/-- Arrival of a block that is in flight releases exactly that block: its record goes, it leaves
every peer's list, every other record and list entry stays. -/
theorem remove_by_block_exact {s : Inflight} (h : IReach s) (now : Nat) {b : Blk} {st : Req}
    (hm : (b, st) ∈ s.states) :
    (removeByBlock s now b).2 = true ∧
    (∀ e, e ∈ (removeByBlock s now b).1.states ↔ e ∈ s.states ∧ e.1 ≠ b) ∧
    (∀ p sc', (p, sc') ∈ (removeByBlock s now b).1.scheds →
      b ∉ sc'.hashes ∧ ∃ sc, (p, sc) ∈ s.scheds ∧ ∀ b', b' ≠ b → (b' ∈ sc'.hashes ↔ b' ∈ sc.hashes)) := by
  have inv := inflight_inv h
  -- the lookup finds this very record
  have hf : s.states.find? (fun e => e.1 == b) = some (b, st) := by
    cases hfind : s.states.find? (fun e => e.1 == b) with
    | none =>
      have := find_none hfind _ hm
      simp at this
    | some e =>
      have he := find_state hfind
      have hmem := (find_mem hfind).1
      rw [he] at hmem
      have := assoc_unique inv.statesNodup hmem hm
      rw [he, this]
  obtain ⟨a1, a2, a3, _⟩ := removeByBlock_found now hf
  refine ⟨a1, ?_, ?_⟩
  · intro e; rw [a2]; simp [List.mem_filter]
  · intro p sc' hsc
    obtain ⟨sc, hsc0, hh⟩ := a3 p sc' hsc
    by_cases hp : p = st.peer
    · rw [if_pos hp] at hh
      refine ⟨by rw [hh]; simp [List.mem_filter], sc, hsc0, ?_⟩
      intro b' hb'
      rw [hh]; simp [List.mem_filter, hb']
    · rw [if_neg hp] at hh
      refine ⟨?_, sc, hsc0, fun b' _ => by rw [hh]⟩
      rw [hh]
      intro hin
      obtain ⟨st', m', e', _⟩ := peer_list_sub_states h hsc0 hin
      have := assoc_unique inv.statesNodup m' hm
      subst this
      exact hp e'.symm

/-- Arrival of a block that is not in flight changes nothing. -/
theorem remove_by_block_absent {s : Inflight} (now : Nat) {b : Blk}
    (hm : ∀ st, (b, st) ∉ s.states) : removeByBlock s now b = (s, false) := by
  cases hfind : s.states.find? (fun e => e.1 == b) with
  | none => unfold removeByBlock; simp only [hfind]
  | some e =>
    have he := find_state hfind
    have hmem := (find_mem hfind).1
    rw [he] at hmem
    exact (hm _ hmem).elim

/-- When a tracked peer leaves, exactly its listed blocks are released (their count is returned),
its scheduler goes, every other scheduler is untouched. -/
theorem remove_by_peer_exact {s : Inflight} (h : IReach s) {peer : Nat} {sc : Sched}
    (hp : (peer, sc) ∈ s.scheds) :
    (removeByPeer s peer).2 = sc.hashes.length ∧
    (∀ e, e ∈ (removeByPeer s peer).1.states ↔ e ∈ s.states ∧ e.1 ∉ sc.hashes) ∧
    (∀ e, e ∈ (removeByPeer s peer).1.scheds ↔ e ∈ s.scheds ∧ e.1 ≠ peer) ∧
    (∀ e, e ∈ s.states → e.1 ∈ sc.hashes → e.2.peer = peer) := by
  have inv := inflight_inv h
  have hf : s.scheds.find? (fun e => e.1 == peer) = some (peer, sc) := by
    cases hfind : s.scheds.find? (fun e => e.1 == peer) with
    | none =>
      have := find_none hfind _ hp
      simp at this
    | some e =>
      obtain ⟨q, sc0⟩ := e
      obtain ⟨hmem, hq⟩ := find_mem hfind
      have hq' : q = peer := by simpa using hq
      subst hq'
      rw [assoc_unique inv.schedsNodup hmem hp]
  unfold removeByPeer
  simp only [hf]
  refine ⟨trivial, ?_, ?_, ?_⟩
  · intro e; simp [List.mem_filter]
  · intro e; simp [List.mem_filter]
  · intro e he hin
    obtain ⟨st, m, ep, u⟩ := peer_list_sub_states h hp hin
    have : e = (e.1, e.2) := rfl
    rw [this] at he
    rw [u e.2 he]; exact ep

/-- A peer that is not tracked leaves: nothing changes. -/
theorem remove_by_peer_untracked {s : Inflight} {peer : Nat}
    (hp : ∀ sc, (peer, sc) ∉ s.scheds) : removeByPeer s peer = (s, 0) := by
  cases hfind : s.scheds.find? (fun e => e.1 == peer) with
  | none => unfold removeByPeer; simp only [hfind]
  | some e =>
    obtain ⟨q, sc0⟩ := e
    obtain ⟨hmem, hq⟩ := find_mem hfind
    have hq' : q = peer := by simpa using hq
    subst hq'
    exact (hp _ hmem).elim

/-- `prune` releases exactly the requests that timed out within `tip + 20` and those whose
slow-block mark expired; every surviving peer's list is its old list restricted to the surviving
requests. -/
theorem prune_exact {s : Inflight} (h : IReach s) (now tip : Nat) :
    (∀ e, e ∈ (prune s now tip).1.states ↔
      e ∈ s.states ∧ timedOut now tip e = false ∧
        ¬ ∃ t, t ∈ s.trace ∧ t.1 = e.1 ∧ now > s.analyzer.low + t.2) ∧
    (∀ p sc', (p, sc') ∈ (prune s now tip).1.scheds → ∃ sc, (p, sc) ∈ s.scheds ∧
      ∀ b, b ∈ sc'.hashes ↔ b ∈ sc.hashes ∧ ∃ st, (b, st) ∈ (prune s now tip).1.states) := by
  have inv := inflight_inv h
  have hstates : ∀ e, e ∈ (prune s now tip).1.states ↔
      e ∈ s.states ∧ timedOut now tip e = false ∧
        ¬ ∃ t, t ∈ s.trace ∧ t.1 = e.1 ∧ now > s.analyzer.low + t.2 := by
    intro e
    simp only [prune, List.mem_filter, Bool.not_eq_true', List.any_eq_false, beq_iff_eq,
      decide_eq_true_eq, not_exists, not_and, and_imp]
    constructor
    · rintro ⟨⟨h1, h2⟩, h3⟩
      refine ⟨h1, h2, ?_⟩
      intro t ht hte hexp
      refine h3 t ht ?_ hexp hte
      intro x hx hto hxe
      -- a timed-out state with the same key would be `e` itself
      have : x = e := by
        have hx' : (x.1, x.2) ∈ s.states := hx
        have he' : (e.1, e.2) ∈ s.states := h1
        rw [hxe, hte] at hx'
        have := assoc_unique inv.statesNodup hx' he'
        exact Prod.ext (hxe.trans hte) this
      subst this
      rw [h2] at hto; cases hto
    · rintro ⟨h1, h2, h3⟩
      refine ⟨⟨h1, h2⟩, ?_⟩
      intro t ht _ hexp hte
      exact h3 t ht hte hexp
  refine ⟨hstates, ?_⟩
  intro p sc3 hm
  have hm' := hm
  simp only [prune] at hm'
  obtain ⟨sc2, hm2, h3⟩ := mem_dropFromScheds hm'
  have hm1 := (List.mem_filter.mp hm2).1
  obtain ⟨sc, hm0, h1⟩ := mem_dropFromScheds hm1
  refine ⟨sc, hm0, ?_⟩
  intro b
  constructor
  · intro hb
    have hb0 := ((h1 b).mp ((h3 b).mp hb).1).1
    obtain ⟨st, hst, _⟩ := (inflight_inv (IReach.prune now tip h)).listed p sc3 b hm hb
    exact ⟨hb0, st, hst⟩
  · rintro ⟨hb0, st, hst⟩
    have hst' := hst
    simp only [prune] at hst'
    obtain ⟨hst1, hnotexp⟩ := List.mem_filter.mp hst'
    obtain ⟨hst0, hnto⟩ := List.mem_filter.mp hst1
    rw [h3 b, h1 b]
    refine ⟨⟨hb0, ?_⟩, ?_⟩
    · rintro ⟨g, hg, _, hgb⟩
      obtain ⟨hg0, hgto⟩ := List.mem_filter.mp hg
      have hg' : (g.1, g.2) ∈ s.states := hg0
      rw [hgb] at hg'
      have := assoc_unique inv.statesNodup hg' hst0
      have hge : g = (b, st) := Prod.ext hgb this
      rw [hge] at hgto
      simp [hgto] at hnto
    · rintro ⟨g, hg, _, hgb⟩
      obtain ⟨hg1, hgany⟩ := List.mem_filter.mp hg
      obtain ⟨hg0, _⟩ := List.mem_filter.mp hg1
      have hg' : (g.1, g.2) ∈ s.states := hg0
      rw [hgb] at hg'
      have := assoc_unique inv.statesNodup hg' hst0
      have hge : g = (b, st) := Prod.ext hgb this
      rw [hge] at hgany
      simp only [hgany, Bool.not_true, Bool.false_eq_true] at hnotexp

/-- non-vacuity: two peers, three requests, a refused duplicate, one arrival, one time-out -/
def exTable : Inflight :=
  let s := (insert {} 1000 1 ⟨5, 50⟩).1
  let s := (insert s 1000 2 ⟨6, 60⟩).1
  let s := (insert s 2000 1 ⟨7, 70⟩).1
  (insert s 3000 2 ⟨5, 50⟩).1

example : exTable.scheds.map (fun e => (e.1, e.2.hashes.map (·.hash))) = [(1, [70, 50]), (2, [60])] := by decide
example : (insert exTable 3000 2 ⟨5, 50⟩).2 = false := by decide
example : ((removeByBlock exTable 4000 ⟨7, 70⟩).1.scheds.map (fun e => (e.1, e.2.hashes.map (·.hash)))) =
    [(1, [50]), (2, [60])] := by decide
example : ((prune exTable 31500 0).1.states.map (·.1.hash)) = [70] ∧
    ((prune exTable 31500 0).1.scheds.map (fun e => (e.1, e.2.hashes.map (·.hash)))) = [(1, [70]), (2, [])] := by decide
example : IReach exTable := .insert _ _ _ (.insert _ _ _ (.insert _ _ _ (.insert _ _ _ .empty)))

/-! ### the internal fields: slow marks, counters, analyzer window, policy, restart number -/

/-- Counters and window stay in range and `trace_number` is a map, after any sequence of the
public mutators (policy changes included), at any clock readings: `task_count ≤
MAX_BLOCKS_IN_TRANSIT_PER_PEER`, `timeout_count ≤ 2`, the analyzer keeps `TIME_TRACE_SIZE` samples
with its write index inside the window. -/
theorem inflight_inv2 {s : Inflight} (h : IReach s) : Inflight.Inv2 s := by
  induction h with
  | empty => exact Inflight.Inv2.empty
  | insert now peer b _ ih => exact ih.insert now peer b
  | removeByPeer peer _ ih => exact ih.removeByPeer peer
  | removeByBlock now b _ ih => exact ih.removeByBlock now b
  | prune now tip _ ih => exact ih.prune now tip
  | @markSlow s now tip hr ih => exact ih.markSlow (inflight_inv hr).statesNodup now tip
  | setPolicy a n _ ih => exact ih.setPolicy a n

theorem counters_in_range {s : Inflight} (h : IReach s) {p : Nat} {sc : Sched} (hp : (p, sc) ∈ s.scheds) :
    sc.taskCount ≤ CkbVerif.Gen.Sync.MAX_BLOCKS_IN_TRANSIT_PER_PEER ∧ sc.timeoutCount ≤ 2 :=
  ⟨(inflight_inv2 h).taskLe p sc hp, (inflight_inv2 h).timeoutLe p sc hp⟩

/-- No operation creates a slow mark without a request, from any table and with any arguments
(since /repo commit 4f3b7cd `remove_by_block` drops the mark with the request whether or not the
requesting peer still has a scheduler; before it, `remove_by_block b` was the one exception — see
`remove_by_block_PreF23_releases_innocent_request`). -/
theorem stale_mark_origin {s : Inflight} (h : IReach s) (x : Blk) :
    (∀ now peer b, Stale (insert s now peer b).1 x → Stale s x) ∧
    (∀ peer, Stale (removeByPeer s peer).1 x → Stale s x) ∧
    (∀ now b, Stale (removeByBlock s now b).1 x → Stale s x) ∧
    (∀ now tip, Stale (prune s now tip).1 x → Stale s x) ∧
    (∀ now tip, Stale (markSlow s now tip) x → Stale s x) ∧
    (∀ a n, Stale (setPolicy s a n) x → Stale s x) :=
  ⟨fun now peer b => stale_insert now peer b, fun peer => stale_removeByPeer peer,
   fun now b => stale_removeByBlock now b,
   fun now tip => stale_prune (inflight_inv2 h).traceNodup now tip,
   fun now tip => stale_markSlow now tip, fun _ _ hst => hst⟩

/-- `trace_number ⊆ inflight_states`, for every reachable table: every slow mark belongs to a block
that is in flight (full invariant; was `trace_sub_states_partial` before the repair of F23). -/
theorem trace_sub_states {s : Inflight} (h : IReach s) : ∀ x, ¬ Stale s x := by
  induction h with
  | empty => rintro x ⟨⟨ts, hm⟩, _⟩; cases hm
  | @insert s now peer b hr ih => exact fun x hs => ih x ((stale_mark_origin hr x).1 now peer b hs)
  | @removeByPeer s peer hr ih => exact fun x hs => ih x ((stale_mark_origin hr x).2.1 peer hs)
  | @removeByBlock s now b hr ih => exact fun x hs => ih x ((stale_mark_origin hr x).2.2.1 now b hs)
  | @prune s now tip hr ih => exact fun x hs => ih x ((stale_mark_origin hr x).2.2.2.1 now tip hs)
  | @markSlow s now tip hr ih => exact fun x hs => ih x ((stale_mark_origin hr x).2.2.2.2.1 now tip hs)
  | setPolicy a n _ ih => exact ih

/-- … in the map reading: every entry of `trace_number` has its entry in `inflight_states`. -/
theorem marked_is_in_flight {s : Inflight} (h : IReach s) {b : Blk} {ts : Nat} (hm : (b, ts) ∈ s.trace) :
    ∃ st, (b, st) ∈ s.states := by
  cases Classical.em (∃ st, (b, st) ∈ s.states) with
  | inl h1 => exact h1
  | inr h1 => exact (trace_sub_states h b ⟨⟨ts, hm⟩, h1⟩).elim

/-- Consequence for `prune`: a request released by the mark loop is released because of a mark made
while this very request was in flight or by its own re-request below `restart_number` — never
because of a mark left behind by an earlier request: right after any operation sequence followed
by a fresh request of an unmarked block, that request survives every `prune` until it times out
itself. -/
theorem fresh_request_survives_prune {s : Inflight} (h : IReach s) {b : Blk} {now peer tip now' : Nat}
    (hnew : ∀ st, (b, st) ∉ s.states) (hr : ¬ s.restartNumber ≥ b.number)
    (hto : timedOut now' tip (b, { peer := peer, ts := now }) = false) :
    (b, { peer := peer, ts := now }) ∈ (prune (insert s now peer b).1 now' tip).1.states := by
  have hs : hasState s b = false := by
    cases hh : hasState s b with
    | false => rfl
    | true =>
      simp only [hasState, List.any_eq_true] at hh
      obtain ⟨e, he, hb⟩ := hh
      have : e.1 = b := by simpa using hb
      exact (hnew e.2 (by rw [← this]; exact he)).elim
  have hi := IReach.insert now peer b h
  rw [(prune_exact hi now' tip).1]
  refine ⟨by rw [insert_states]; simp [hs], hto, ?_⟩
  rintro ⟨t, ht, hk, _⟩
  rw [insert_trace] at ht
  simp only [hs, Bool.false_eq_true, if_false, hr] at ht
  -- a mark of `b` in the old table would be a mark without a request
  have hk' : t.1 = b := hk
  exact trace_sub_states h b ⟨⟨t.2, by rw [← hk']; exact ht⟩, fun ⟨st, hst⟩ => hnew st hst⟩

/-- Witness for finding F23 (the code before /repo commit 4f3b7cd), the history of
`corpus/C17/inflight-stale-mark-from-evicted-peer.ops`: peer 1 is evicted by `prune` (three
time-outs) with its far-ahead request 300 left in flight; block 300 is marked slow and then
arrives: the old `remove_by_block` keeps the mark without a request; peer 2 requests the block
again, and `prune` one millisecond later releases that request (which has not timed out), halves
peer 2's window and raises `restart_number` to 300. With the repaired function the same history
keeps peer 2's request, window and `restart_number`. -/
def f23Before : Inflight :=
  let s := setPolicy {} true 0
  let s := (insert s 1000 1 ⟨5, 50⟩).1
  let s := (insert s 1000 1 ⟨6, 60⟩).1
  let s := (insert s 1000 1 ⟨7, 70⟩).1
  let s := (insert s 1000 1 ⟨300, 3000⟩).1
  let s := (prune s 31001 4).1
  markSlow s 40000 299

theorem remove_by_block_PreF23_releases_innocent_request :
    -- peer 1 is gone, its request 300 is still in flight and marked
    f23Before.scheds = [] ∧ f23Before.states.map (·.1.number) = [300] ∧
    f23Before.trace = [(⟨300, 3000⟩, 40000)] ∧
    -- old code: the arrival leaves a mark without a request …
    (removeByBlockPreF23 f23Before 40100 ⟨300, 3000⟩).1.states = [] ∧
    (removeByBlockPreF23 f23Before 40100 ⟨300, 3000⟩).1.trace = [(⟨300, 3000⟩, 40000)] ∧
    -- … which releases peer 2's 1 ms old request, halves its window and sets restart_number
    timedOut 45001 299 (⟨300, 3000⟩, { peer := 2, ts := 45000 }) = false ∧
    (let s := (insert (removeByBlockPreF23 f23Before 40100 ⟨300, 3000⟩).1 45000 2 ⟨300, 3000⟩).1
     (prune s 45001 299).1.states = [] ∧
     (prune s 45001 299).1.scheds.map (fun e => (e.1, e.2.taskCount, e.2.hashes.length)) = [(2, 16, 0)] ∧
     (prune s 45001 299).1.restartNumber = 300) ∧
    -- repaired code: the mark goes with the request; peer 2 keeps request, window, restart_number
    (removeByBlock f23Before 40100 ⟨300, 3000⟩).1.trace = [] ∧
    (let s := (insert (removeByBlock f23Before 40100 ⟨300, 3000⟩).1 45000 2 ⟨300, 3000⟩).1
     (prune s 45001 299).1.states.map (fun e => (e.1.number, e.2.peer)) = [(300, 2)] ∧
     (prune s 45001 299).1.scheds.map (fun e => (e.1, e.2.taskCount, e.2.hashes.length)) = [(2, 32, 1)] ∧
     (prune s 45001 299).1.restartNumber = 0) := by
  decide

/-- non-vacuity of `trace_sub_states` / `fresh_request_survives_prune`: `f23Before` is reachable and
carries a mark; the repaired history is reachable -/
example : IReach f23Before :=
  .markSlow _ _ (.prune _ _ (.insert _ _ _ (.insert _ _ _ (.insert _ _ _ (.insert _ _ _ (.setPolicy _ _ .empty))))))
example : IReach (removeByBlock f23Before 40100 ⟨300, 3000⟩).1 ∧
    (removeByBlock f23Before 40100 ⟨300, 3000⟩).1.states = [] ∧
    (removeByBlock f23Before 40100 ⟨300, 3000⟩).1.restartNumber = 0 :=
  ⟨.removeByBlock _ _ (.markSlow _ _ (.prune _ _ (.insert _ _ _ (.insert _ _ _ (.insert _ _ _ (.insert _ _ _
    (.setPolicy _ _ .empty))))))), by decide, by decide⟩

/-- When a tracked peer leaves, nothing of its requests stays anywhere: the marks of exactly its
listed blocks go, none of its blocks is in flight, marked, or listed for anybody afterwards, and
restart number, analyzer and policy are untouched. -/
theorem remove_by_peer_leaves_nothing {s : Inflight} (h : IReach s) {peer : Nat} {sc : Sched}
    (hp : (peer, sc) ∈ s.scheds) :
    (∀ t, t ∈ (removeByPeer s peer).1.trace ↔ t ∈ s.trace ∧ t.1 ∉ sc.hashes) ∧
    (∀ b, b ∈ sc.hashes → ¬ Marked (removeByPeer s peer).1 b ∧ ¬ InFlight (removeByPeer s peer).1 b ∧
      ∀ q sc', (q, sc') ∈ (removeByPeer s peer).1.scheds → b ∉ sc'.hashes) ∧
    (removeByPeer s peer).1.restartNumber = s.restartNumber ∧
    (removeByPeer s peer).1.analyzer = s.analyzer ∧
    (removeByPeer s peer).1.adjustment = s.adjustment ∧
    (removeByPeer s peer).1.protectNum = s.protectNum := by
  have inv := inflight_inv h
  have hf : s.scheds.find? (fun e => e.1 == peer) = some (peer, sc) := by
    cases hfind : s.scheds.find? (fun e => e.1 == peer) with
    | none =>
      have := find_none hfind _ hp
      simp at this
    | some e =>
      obtain ⟨q, sc0⟩ := e
      obtain ⟨hmem, hq⟩ := find_mem hfind
      have hq' : q = peer := by simpa using hq
      subst hq'
      rw [assoc_unique inv.schedsNodup hmem hp]
  have ht : ∀ t, t ∈ (removeByPeer s peer).1.trace ↔ t ∈ s.trace ∧ t.1 ∉ sc.hashes := by
    intro t
    unfold removeByPeer
    simp only [hf]
    simp [List.mem_filter]
  have hst : ∀ e, e ∈ (removeByPeer s peer).1.states ↔ e ∈ s.states ∧ e.1 ∉ sc.hashes :=
    (remove_by_peer_exact h hp).2.1
  have hsc : ∀ e, e ∈ (removeByPeer s peer).1.scheds ↔ e ∈ s.scheds ∧ e.1 ≠ peer :=
    (remove_by_peer_exact h hp).2.2.1
  refine ⟨ht, ?_, ?_⟩
  · intro b hb
    refine ⟨?_, ?_, ?_⟩
    · rintro ⟨ts, hm⟩
      exact ((ht (b, ts)).mp hm).2 hb
    · rintro ⟨st, hm⟩
      exact ((hst (b, st)).mp hm).2 hb
    · intro q sc' hm hb'
      obtain ⟨hm0, hq⟩ := (hsc (q, sc')).mp hm
      exact hq (assign_unique h hm0 hp hb' hb)
  · unfold removeByPeer
    simp only [hf]
    exact ⟨trivial, trivial, trivial, trivial⟩

/-- `prune`, policy side. Who is disconnected: every tracked peer is either disconnected or kept,
never both. Counters: without punishment (`download_schedulers.len() ≤ protect_num`, or
`adjustment` off) no counter moves; with it, the window is quartered per timed-out request and
halved per expired slow mark of that peer (`punish(2)`, `punish(1)`), `timeout_count` untouched. -/
theorem prune_policy {s : Inflight} (h : IReach s) (now tip : Nat) :
    (∀ p, p ∈ (prune s now tip).2 → ∀ sc, (p, sc) ∉ (prune s now tip).1.scheds) ∧
    (∀ p sc, (p, sc) ∈ s.scheds → p ∈ (prune s now tip).2 ∨ ∃ sc', (p, sc') ∈ (prune s now tip).1.scheds) ∧
    ((decide (s.scheds.length > s.protectNum) && s.adjustment) = false →
      ∀ p sc', (p, sc') ∈ (prune s now tip).1.scheds →
        ∃ sc, (p, sc) ∈ s.scheds ∧ sc'.taskCount = sc.taskCount ∧ sc'.timeoutCount = sc.timeoutCount) ∧
    ((decide (s.scheds.length > s.protectNum) && s.adjustment) = true →
      ∀ p sc', (p, sc') ∈ (prune s now tip).1.scheds →
        ∃ sc k1 k2, (p, sc) ∈ s.scheds ∧ sc'.timeoutCount = sc.timeoutCount ∧
          sc'.taskCount = sc.taskCount >>> (2 * k1 + k2) ∧
          k1 = ((s.states.filter (timedOut now tip)).filter (fun g => g.2.peer == p)).length) :=
  ⟨fun _ hp => prune_disconnect_disjoint (inflight_inv h).schedsNodup now tip hp,
   fun _ _ hm => prune_disconnect_or_kept now tip hm,
   fun hno _ _ hm => prune_counters_unpunished now tip hno hm,
   fun hyes _ _ hm => prune_counters_punished now tip hyes hm⟩

/-- `prune`, marks and restart number: a mark survives exactly when its request did not time out
in the first loop and the mark itself is not older than `low_time`; `restart_number` (cleared
first once the tip passed it) rises to the highest block whose mark expired, and to nothing else. -/
theorem prune_marks_exact (s : Inflight) (now tip : Nat) :
    (∀ t, t ∈ (prune s now tip).1.trace ↔
      t ∈ s.trace ∧ (¬ ∃ e, e ∈ s.states ∧ timedOut now tip e = true ∧ e.1 = t.1) ∧
        ¬ now > s.analyzer.low + t.2) ∧
    (let r1 := if s.restartNumber != 0 && decide (tip + 1 > s.restartNumber) then 0 else s.restartNumber
     r1 ≤ (prune s now tip).1.restartNumber ∧
     (∀ t, t ∈ s.trace → (¬ ∃ e, e ∈ s.states ∧ timedOut now tip e = true ∧ e.1 = t.1) →
        now > s.analyzer.low + t.2 → t.1.number ≤ (prune s now tip).1.restartNumber) ∧
     ((prune s now tip).1.restartNumber = r1 ∨
        ∃ t, t ∈ s.trace ∧ now > s.analyzer.low + t.2 ∧ (prune s now tip).1.restartNumber = t.1.number)) := by
  refine ⟨prune_trace s now tip, ?_⟩
  simp only [prune]
  obtain ⟨a1, a2, a3⟩ := foldl_max_ge
    ((s.trace.filter (fun t => !(s.states.filter (timedOut now tip)).any (fun e => e.1 == t.1))).filter
      (fun t => decide (now > s.analyzer.low + t.2)))
    (if s.restartNumber != 0 && decide (tip + 1 > s.restartNumber) then 0 else s.restartNumber)
  refine ⟨a1, ?_, ?_⟩
  · intro t ht hnot hexp
    apply a2 t
    simp only [List.mem_filter, Bool.not_eq_true', List.any_eq_false, beq_iff_eq, decide_eq_true_eq,
      and_imp]
    exact ⟨⟨ht, fun e he hto hk => hnot ⟨e, he, hto, hk⟩⟩, hexp⟩
  · rcases a3 with e | ⟨t, ht, e⟩
    · exact Or.inl e
    · right
      simp only [List.mem_filter, decide_eq_true_eq] at ht
      exact ⟨t, ht.1.1, ht.2, e⟩

/-- non-vacuity: five peers over `protect_num = 4` with adjustment on: a time-out quarters the
window (32 → 8) and a second, third one evict the peer; a mark made at the check point outlives
`low_time` and releases its request, raising `restart_number`; a departed peer's mark goes with it -/
def exPolicy : Inflight :=
  let s := (insert {} 1000 1 ⟨5, 50⟩).1
  let s := (insert s 1000 2 ⟨6, 60⟩).1
  let s := (insert s 1000 3 ⟨7, 70⟩).1
  let s := (insert s 1000 4 ⟨8, 80⟩).1
  (insert s 1000 5 ⟨9, 90⟩).1

example : ((prune exPolicy 31001 4).1.scheds.map (fun e => (e.1, e.2.taskCount))) =
    [(1, 8), (2, 8), (3, 8), (4, 8), (5, 8)] := by decide
example : ((prune (setPolicy exPolicy true 5) 31001 4).1.scheds.map (fun e => (e.1, e.2.taskCount))) =
    [(1, 32), (2, 32), (3, 32), (4, 32), (5, 32)] := by decide
example : (prune (markSlow exPolicy 2000 4) 3501 4).1.restartNumber = 5 ∧
    ((prune (markSlow exPolicy 2000 4) 3501 4).1.states.map (·.1.hash)) = [90, 80, 70, 60] ∧
    (prune (markSlow exPolicy 2000 4) 3500 4).1.restartNumber = 0 := by decide
example : (removeByPeer (markSlow exPolicy 2000 4) 1).1.trace = [] ∧
    (markSlow exPolicy 2000 4).trace = [(⟨5, 50⟩, 2000)] := by decide
example : IReach (setPolicy exPolicy true 5) :=
  .setPolicy _ _ (.insert _ _ _ (.insert _ _ _ (.insert _ _ _ (.insert _ _ _ (.insert _ _ _ .empty)))))

/-- The analyzer's three thresholds stay ordered, `fast_time ≤ normal_time ≤ low_time`, after any
sequence of operations: the update averages them (saturating) with the samples at the 1/3, 4/5 and
9/10 positions of the sorted window. So the four response-time classes of `push_time` are nested
intervals and the slow-mark limit `low_time` is the largest of the three. -/
theorem thresholds_ordered {s : Inflight} (h : IReach s) :
    s.analyzer.fast ≤ s.analyzer.normal ∧ s.analyzer.normal ≤ s.analyzer.low := by
  induction h with
  | empty => decide
  | insert now peer b _ ih => rw [(insert_frame _ now peer b).2.1]; exact ih
  | removeByPeer peer _ ih => rw [removeByPeer_analyzer]; exact ih
  | @removeByBlock s now b hr ih =>
    rcases removeByBlock_analyzer s now b with e | ⟨t, e⟩
    · rw [e]; exact ih
    · rw [e]; exact pushTime_ordered _ t (inflight_inv2 hr).windowLen ih
  | prune now tip _ ih => exact ih
  | markSlow now tip _ ih => exact ih
  | setPolicy a n _ ih => exact ih

/-- non-vacuity: a reachable table whose analyzer has taken a sample; and an analyzer with a full
window satisfies the hypotheses of the update step in its sort-and-average branch (`mergeSort`
does not reduce in the kernel, so the averaged values themselves are compared by the
correspondence: the long in-flight runs fill the 512-sample window on the real code) -/
example : (removeByBlock exTable 4000 ⟨7, 70⟩).1.analyzer.index = 1 ∧
    (removeByBlock exTable 4000 ⟨7, 70⟩).1.analyzer.low = 1500 := by decide
example :
    (({ index := TIME_TRACE_SIZE, trace := List.replicate TIME_TRACE_SIZE 3000 } : Analyzer).trace.length = TIME_TRACE_SIZE) ∧
    (({ index := TIME_TRACE_SIZE, trace := List.replicate TIME_TRACE_SIZE 3000 } : Analyzer).fast ≤
      ({ index := TIME_TRACE_SIZE, trace := List.replicate TIME_TRACE_SIZE 3000 } : Analyzer).normal) ∧
    (({ index := TIME_TRACE_SIZE, trace := List.replicate TIME_TRACE_SIZE 3000 } : Analyzer).normal ≤
      ({ index := TIME_TRACE_SIZE, trace := List.replicate TIME_TRACE_SIZE 3000 } : Analyzer).low) ∧
    ¬ ({ index := TIME_TRACE_SIZE, trace := List.replicate TIME_TRACE_SIZE 3000 } : Analyzer).index < TIME_TRACE_SIZE :=
  ⟨List.length_replicate, by decide, by decide, Nat.lt_irrefl _⟩

end Inflight

/-! ## 4. Header map -/
section HeaderMap
open CkbVerif.HeaderMap

/-- For any operation sequence with `limit_memory` steps anywhere, and any memory limit, the
two-tier map answers `get` / `contains_key` exactly like a plain map (`insert`'s return value,
which no caller reads, reports memory-tier presence and is not an answer). -/
theorem refines_plain_map (ops : List Op) : ∀ (s : HM), HeaderMap.Inv s →
    run s ops = specRun (abs s) ops := by
  induction ops with
  | nil => intro s _; rfl
  | cons op ops ih =>
    intro s h
    obtain ⟨a1, a2, a3⟩ := step_refines h op
    simp only [run, specRun]
    rw [a1, ih _ a3, a2]

/-- … in particular from the empty map, whatever the limit. -/
theorem refines_plain_map_from_empty (limit : Nat) (ops : List Op) :
    run { limit := limit } ops = specRun (fun _ => none) ops := by
  have : abs { limit := limit } = fun _ => none := by
    funext k; simp [abs, lk, orE]
  rw [← this]
  exact refines_plain_map ops _ List.nodup_nil

/-- non-vacuity: overwrite after a spill, read back through the backend, remove from both tiers -/
example : run { limit := 1 }
    [.insert 1 10, .insert 2 20, .insert 3 30, .spill, .insert 1 11, .get 2, .spill, .get 1,
     .remove 1, .contains 1, .get 3] =
    [.unit, .unit, .unit, .unit, .unit, .val (some 20), .unit, .val (some 11), .unit, .bool false,
     .val (some 30)] := by decide

end HeaderMap

end CkbVerif.C17
