import CkbVerif.Lemmas.Orphan
import CkbVerif.Lemmas.OrphanExpire
import CkbVerif.Lemmas.Skip
import CkbVerif.Lemmas.Inflight
import CkbVerif.Lemmas.HeaderMap
import CkbVerif.Lemmas.Orphan3
import CkbVerif.Lemmas.InflightPolicy
import CkbVerif.Lemmas.Locate
import CkbVerif.Lemmas.Analyzer
import CkbVerif.Model.HeadersSync
import CkbVerif.Model.Fetch
import CkbVerif.Lemmas.Fetch

/-!
# C17 — sync bookkeeping structures behave like their simple mathematical models

Four structures, four models (`Model/{Orphan, Skip, Inflight, HeaderMap}.lean`), each following the
Rust code; the theorems relate them to the plain mathematical object: descendant sets of a parent
relation, walking parent links, a partial function block ↦ peer, a plain map.
-/
namespace CkbVerif.C17

/-! ## 1. Orphan block pool -/
section Orphan
open CkbVerif.Orphan

/-- Pool states reachable by any sequence of `insert` (of blocks whose parent is `par id`),
`remove_blocks_by_parent` and `clean_expired_blocks`. -/
inductive OReach (par : Nat → Nat) : Pool → Prop
  | empty : OReach par {}
  | insert {s : Pool} (b : Blk) : OReach par s → b.parent = par b.id → OReach par (insert s b)
  | release {s : Pool} (p : Nat) : OReach par s → OReach par (removeByParent s p).1
  | expire {s : Pool} (tipEpoch : Nat) : OReach par s → OReach par (cleanExpired s tipEpoch).1

theorem orphan_inv {par : Nat → Nat} (hpar : ∀ i, par i ≠ i) {s : Pool} (h : OReach par s) :
    Orphan.Inv par s := by
  induction h with
  | empty => exact Orphan.Inv.empty par
  | insert b _ hb ih => exact ih.insert hpar hb
  | release p _ ih => exact ih.removeByParent p
  | expire e _ ih => exact ih.cleanExpired e

/-- `leaders` = the parents of pooled blocks that are not themselves pooled — after any sequence
of inserts, releases and expiries (no block is its own parent: `par i ≠ i`). -/
theorem leaders_inv {par : Nat → Nat} (hpar : ∀ i, par i ≠ i) {s : Pool} (h : OReach par s) (p : Nat) :
    p ∈ s.leaders ↔ (∃ b, b ∈ s.pool ∧ b.parent = p) ∧ ¬ ∃ b, b ∈ s.pool ∧ b.id = p :=
  (orphan_inv hpar h).leaders p

/-- Releasing a parent `p` that is not itself pooled returns exactly the stored descendants of
`p`, each once, and keeps exactly the rest; the leader invariant holds afterwards. -/
theorem release_exact {par : Nat → Nat} (hpar : ∀ i, par i ≠ i) {s : Pool} (h : OReach par s)
    {p : Nat} (hp : ¬ ∃ b, b ∈ s.pool ∧ b.id = p) :
    (∀ b, b ∈ (removeByParent s p).2 ↔ Desc s.pool p b) ∧
    ((removeByParent s p).2.map (·.id)).Nodup ∧
    (∀ b, b ∈ (removeByParent s p).1.pool ↔ b ∈ s.pool ∧ ¬ Desc s.pool p b) ∧
    LeadersInv (removeByParent s p).1 := by
  have inv := orphan_inv hpar h
  refine ⟨?_, removeByParent_nodup inv.nodup p, ?_, (inv.removeByParent p).leaders⟩
  · by_cases hl : p ∈ s.leaders
    · exact (removeByParent_leader hl).1
    · rw [removeByParent_nonleader hl]
      intro b
      constructor
      · intro hb; cases hb
      · intro hd
        exact (hl ((inv.leaders p).mpr ⟨hd.has_child, hp⟩)).elim
  · by_cases hl : p ∈ s.leaders
    · exact (removeByParent_leader hl).2.1
    · rw [removeByParent_nonleader hl]
      intro b
      constructor
      · intro hb
        exact ⟨hb, fun hd => hl ((inv.leaders p).mpr ⟨hd.has_child, hp⟩)⟩
      · intro hb; exact hb.1

/-- Expiry removes exactly the stored descendants of the leaders whose first child is older than
`EXPIRED_EPOCH` epochs (all children of a leader share their epoch in well-formed histories, so
"first" is immaterial), and keeps exactly the rest. -/
theorem expire_exact {par : Nat → Nat} (hpar : ∀ i, par i ≠ i) {s : Pool} (h : OReach par s) (e : Nat) :
    (∀ b, b ∈ (cleanExpired s e).2 ↔
      ∃ l, l ∈ s.leaders ∧ needClean s.pool l e = true ∧ Desc s.pool l b) ∧
    (∀ b, b ∈ (cleanExpired s e).1.pool ↔
      b ∈ s.pool ∧ ¬ ∃ l, l ∈ s.leaders ∧ needClean s.pool l e = true ∧ Desc s.pool l b) :=
  cleanExpired_exact (orphan_inv hpar h) e

/-- non-vacuity: 1 ← 2 ← 3, 1 ← 4, 7 ← 8 pooled out of order; releasing 1's parent 0 returns
the four descendants and keeps 8 -/
def exPool : Pool :=
  [⟨3, 2, 0⟩, ⟨8, 7, 0⟩, ⟨1, 0, 0⟩, ⟨4, 1, 0⟩, ⟨2, 1, 0⟩].foldl insert {}

example : exPool.leaders = [0, 7] := by decide
example : ((removeByParent exPool 0).2.map (·.id)) = [1, 2, 4, 3] ∧
    ((removeByParent exPool 0).1.pool.map (·.id)) = [8] ∧ (removeByParent exPool 0).1.leaders = [7] := by decide
example : ((cleanExpired exPool 7).2.map (·.id)) = [1, 2, 4, 3, 8] ∧ (cleanExpired exPool 6).2 = [] := by decide
example : OReach (fun i => match i with | 3 => 2 | 8 => 7 | 1 => 0 | 4 => 1 | 2 => 1 | _ => i + 100) exPool :=
  .insert _ (.insert _ (.insert _ (.insert _ (.insert _ .empty (by decide)) (by decide)) (by decide)) (by decide)) (by decide)

/-! ### the three maps of the pool, as the code keeps them (`Model/Orphan3.lean`) -/

/-- Three-map pool states reachable by any sequence of `insert` (duplicates included),
`remove_blocks_by_parent` and `clean_expired_blocks`. -/
inductive O3Reach (par : Nat → Nat) : Pool3 → Prop
  | empty : O3Reach par {}
  | insert {s : Pool3} (b : Blk) : O3Reach par s → b.parent = par b.id → O3Reach par (insert3 s b)
  | release {s : Pool3} (p : Nat) : O3Reach par s → O3Reach par (removeByParent3 s p).1
  | expire {s : Pool3} (tipEpoch : Nat) : O3Reach par s → O3Reach par (cleanExpired3 s tipEpoch).1

/-- Refinement: every reachable three-map state is simulated by a reachable state of the
one-relation model (same operation sequence): `parents` is the relation itself, `blocks[q]` its
children look-up, `leaders` is shared. -/
theorem orphan3_refines {par : Nat → Nat} (hpar : ∀ i, par i ≠ i) {s3 : Pool3} (h : O3Reach par s3) :
    ∃ s, OReach par s ∧ Sim s3 s := by
  induction h with
  | empty => exact ⟨{}, .empty, Sim.empty⟩
  | insert b _ hb ih =>
    obtain ⟨s, hr, hs⟩ := ih
    exact ⟨_, .insert b hr hb, hs.insert (orphan_inv hpar hr) hb⟩
  | release p _ ih =>
    obtain ⟨s, hr, hs⟩ := ih
    exact ⟨_, .release p hr, (hs.removeByParent (orphan_inv hpar hr) p).2⟩
  | expire e _ ih =>
    obtain ⟨s, hr, hs⟩ := ih
    exact ⟨_, .expire e hr, (hs.cleanExpired (orphan_inv hpar hr) e).2⟩

/-- … and the two models return the same released blocks, in the same order. -/
theorem orphan3_answers {par : Nat → Nat} (hpar : ∀ i, par i ≠ i) {s3 : Pool3} {s : Pool}
    (hr : OReach par s) (hs : Sim s3 s) (x : Nat) :
    (removeByParent3 s3 x).2 = (removeByParent s x).2 ∧ (cleanExpired3 s3 x).2 = (cleanExpired s x).2 :=
  ⟨(hs.removeByParent (orphan_inv hpar hr) x).1, (hs.cleanExpired (orphan_inv hpar hr) x).1⟩

theorem mem_parents_entry {pool : List Blk} {h p : Nat} :
    (h, p) ∈ pool.map entry ↔ ∃ b, b ∈ pool ∧ b.id = h ∧ b.parent = p := by
  simp only [List.mem_map, entry, Prod.mk.injEq]

/-- The three-map invariant, after any sequence of inserts (in any order, duplicates included),
releases and expiries: `parents` and `blocks` are maps (unique keys) describing the same relation
— `parents[h] = p` exactly when block `h` sits in the group `blocks[p]` —, no group is empty, a
group holds only children of its key, each once, and `leaders` = the parents of pooled blocks
that are not themselves pooled (read off `parents` alone). -/
theorem three_map_inv {par : Nat → Nat} (hpar : ∀ i, par i ≠ i) {s3 : Pool3} (h : O3Reach par s3) :
    (s3.parents.map (·.1)).Nodup ∧ (s3.blocks.map (·.1)).Nodup ∧
    (∀ h p, (h, p) ∈ s3.parents ↔ ∃ g b, (p, g) ∈ s3.blocks ∧ b ∈ g ∧ b.id = h) ∧
    (∀ p g, (p, g) ∈ s3.blocks → g ≠ [] ∧ (∀ b, b ∈ g → b.parent = p) ∧ (g.map (·.id)).Nodup) ∧
    (∀ p, p ∈ s3.leaders ↔ (∃ h, (h, p) ∈ s3.parents) ∧ ¬ ∃ q, (p, q) ∈ s3.parents) ∧
    s3.leaders.Nodup := by
  obtain ⟨s, hr, hs⟩ := orphan3_refines hpar h
  have inv := orphan_inv hpar hr
  refine ⟨?_, hs.keys, ?_, ?_, ?_, ?_⟩
  · rw [hs.parents, List.map_map]
    exact inv.nodup
  · intro i p
    rw [hs.parents, mem_parents_entry]
    constructor
    · rintro ⟨b, hb, rfl, rfl⟩
      obtain ⟨g, hg, hbg⟩ := hs.mem_blocks_iff.mp hb
      exact ⟨g, b, hg, hbg, rfl⟩
    · rintro ⟨g, b, hg, hbg, rfl⟩
      rw [hs.group_members hg] at hbg
      have := mem_children.mp hbg
      exact ⟨b, this.1, rfl, this.2⟩
  · intro p g hg
    refine ⟨hs.nonempty p g (group_of_mem hs.keys hg), ?_, ?_⟩
    · intro b hb
      rw [hs.group_members hg] at hb
      exact (mem_children.mp hb).2
    · rw [hs.group_members hg]
      exact List.Nodup.sublist (List.Sublist.map _ List.filter_sublist) inv.nodup
  · intro p
    rw [hs.leaders, inv.leaders p, hs.parents]
    constructor
    · rintro ⟨⟨b, hb, hbp⟩, hn⟩
      refine ⟨⟨b.id, mem_parents_entry.mpr ⟨b, hb, rfl, hbp⟩⟩, ?_⟩
      rintro ⟨q, hq⟩
      obtain ⟨c, hc, hci, _⟩ := mem_parents_entry.mp hq
      exact hn ⟨c, hc, hci⟩
    · rintro ⟨⟨i, hi⟩, hn⟩
      obtain ⟨b, hb, _, hbp⟩ := mem_parents_entry.mp hi
      refine ⟨⟨b, hb, hbp⟩, ?_⟩
      rintro ⟨c, hc, hci⟩
      exact hn ⟨c.parent, mem_parents_entry.mpr ⟨c, hc, hci, rfl⟩⟩
  · rw [hs.leaders]; exact inv.leadersNodup

/-- every block stored in some group -/
def allBlocks (s : Pool3) : List Blk := s.blocks.flatMap (·.2)

theorem mem_allBlocks_iff {s3 : Pool3} {s : Pool} (hs : Sim s3 s) (b : Blk) :
    b ∈ allBlocks s3 ↔ b ∈ s.pool := by
  simp only [allBlocks, List.mem_flatMap]
  constructor
  · rintro ⟨⟨q, g⟩, hm, hb⟩
    simp only at hb
    rw [hs.group_members hm] at hb
    exact (mem_children.mp hb).1
  · intro hb
    obtain ⟨g, hg, hbg⟩ := hs.mem_blocks_iff.mp hb
    exact ⟨(b.parent, g), hg, hbg⟩

/-- `release_exact` carried over to the three maps: releasing a parent that is not pooled (no
`parents` entry) returns exactly the descendants stored in `blocks`, each once, and the groups
keep exactly the rest. -/
theorem release3_exact {par : Nat → Nat} (hpar : ∀ i, par i ≠ i) {s3 : Pool3} (h : O3Reach par s3)
    {p : Nat} (hp : ¬ ∃ q, (p, q) ∈ s3.parents) :
    (∀ b, b ∈ (removeByParent3 s3 p).2 ↔ Desc (allBlocks s3) p b) ∧
    ((removeByParent3 s3 p).2.map (·.id)).Nodup ∧
    (∀ b, b ∈ allBlocks (removeByParent3 s3 p).1 ↔ b ∈ allBlocks s3 ∧ ¬ Desc (allBlocks s3) p b) := by
  obtain ⟨s, hr, hs⟩ := orphan3_refines hpar h
  have inv := orphan_inv hpar hr
  obtain ⟨e1, hs'⟩ := hs.removeByParent inv p
  have hp' : ¬ ∃ b, b ∈ s.pool ∧ b.id = p := by
    rintro ⟨b, hb, hbi⟩
    exact hp ⟨b.parent, by rw [hs.parents]; exact mem_parents_entry.mpr ⟨b, hb, hbi, rfl⟩⟩
  obtain ⟨a1, a2, a3, _⟩ := release_exact hpar hr hp'
  have hd : ∀ b, Desc (allBlocks s3) p b ↔ Desc s.pool p b := fun b =>
    ⟨fun d => d.mono (fun c hc => (mem_allBlocks_iff hs c).mp hc),
     fun d => d.mono (fun c hc => (mem_allBlocks_iff hs c).mpr hc)⟩
  refine ⟨?_, ?_, ?_⟩
  · intro b; rw [e1, a1 b, hd b]
  · rw [e1]; exact a2
  · intro b; rw [mem_allBlocks_iff hs' b, a3 b, mem_allBlocks_iff hs b, hd b]

/-- non-vacuity: the pool of `exPool`, three maps; the sibling group of 1 holds 4 and 2, block 1
arrived after its children and is no leader; a duplicate insert changes nothing -/
def exPool3 : Pool3 :=
  [⟨3, 2, 0⟩, ⟨8, 7, 0⟩, ⟨1, 0, 0⟩, ⟨4, 1, 0⟩, ⟨2, 1, 0⟩, ⟨4, 1, 0⟩].foldl insert3 {}

example : exPool3.leaders = [0, 7] ∧ exPool3.parents = [(4, 1), (2, 1), (1, 0), (8, 7), (3, 2)] ∧
    exPool3.blocks.map (fun e => (e.1, e.2.map (·.id))) = [(1, [4, 2]), (0, [1]), (7, [8]), (2, [3])] := by
  decide
example : ((removeByParent3 exPool3 0).2.map (·.id)) = [1, 4, 2, 3] ∧
    (removeByParent3 exPool3 0).1.parents = [(8, 7)] ∧ (removeByParent3 exPool3 0).1.leaders = [7] := by decide
example : O3Reach (fun i => match i with | 3 => 2 | 8 => 7 | 1 => 0 | 4 => 1 | 2 => 1 | _ => i + 100) exPool3 :=
  .insert _ (.insert _ (.insert _ (.insert _ (.insert _ (.insert _ .empty (by decide)) (by decide)) (by decide))
    (by decide)) (by decide)) (by decide)

end Orphan

/-! ## 2. Skip-list ancestor lookup and locator -/
section Skip
open CkbVerif.Skip

/-- the skip height is strictly below the height: `get_ancestor`'s loop terminates -/
theorem get_skip_height_lt {h : Nat} (hpos : 1 ≤ h) : getSkipHeight h < h :=
  getSkipHeight_lt hpos

/-- `HeaderIndexView::get_ancestor` through skip pointers (and the `fast_scanner` shortcut)
returns the same header as walking parent links one by one, for every well-formed store (a tree
of any shape), every start header and every target number. -/
theorem get_ancestor_eq_walk {store : Store} (ok : StoreOk store) {scan : Nat → Hdr → Option Hdr}
    (sok : ScanOk store scan) {h : Hdr} (hs : store h.id = some h) (number : Nat) :
    getAncestor store scan h number =
      if number > h.number then none else walk store (h.number - number) h := by
  by_cases hn : number > h.number
  · simp [getAncestor, hn]
  · rw [if_neg hn]
    exact getAncestor_eq_walk ok sok hs (by omega)

/-- The store hypothesis is what the code maintains: the empty store is well formed, and inserting
a new header whose skip pointer was computed by `build_skip` (as `insert_valid_header` does, the
parent being known) keeps it well formed. -/
theorem build_skip_ok {store : Store} (ok : StoreOk store) {scan : Nat → Hdr → Option Hdr}
    (sok : ScanOk store scan) {h : Hdr} (hnew : store h.id = none) (hskip : h.skip = none)
    (hpar : h.number = 0 ∨ ∃ p, store h.parent = some p ∧ p.number + 1 = h.number) :
    StoreOk (extend store (buildSkip store scan h)) :=
  storeOk_extend ok sok hnew hskip hpar

theorem empty_store_ok : StoreOk (fun _ => none) := by
  refine ⟨?_, ?_, ?_⟩
  · intro i h hs; cases hs
  · intro i h hs; cases hs
  · intro i h s hs; cases hs

/-- the ancestor lookup `get_locator` uses: from a base hash -/
def ancOf (store : Store) (scan : Nat → Hdr → Option Hdr) (base index : Nat) : Option Nat :=
  (store base).bind (fun b => (getAncestor store scan b index).map (·.id))

/-- the ancestor of `start` at `index`, by walking parent links -/
def walkId (store : Store) (start : Hdr) (index : Nat) : Option Nat :=
  if index ≤ start.number then (walk store (start.number - index) start).map (·.id) else none

/-- `get_locator` (which looks each entry up from the previous entry, through skip pointers)
returns the same hashes as walking parent links from the start header. -/
theorem locator_eq_walk {store : Store} (ok : StoreOk store) {scan : Nat → Hdr → Option Hdr}
    (sok : ScanOk store scan) {start : Hdr} (hs : store start.id = some start) (genesis : Nat) :
    getLocator (ancOf store scan) genesis start.number start.id =
      getLocator (fun _ i => walkId store start i) genesis start.number start.id := by
  unfold getLocator
  congr 1
  apply locatorLoop_congr (walkId store start) (ancOf store scan)
  · intro base j i hA hij
    unfold walkId at hA
    split at hA
    · rename_i hj
      obtain ⟨t, ht, htn, hts⟩ := walk_ok ok (start.number - j) start hs (by omega)
      rw [ht] at hA
      have hb : t.id = base := by simpa using hA
      subst hb
      have hi : i ≤ t.number := by omega
      simp only [ancOf, hts, Option.bind_some]
      rw [getAncestor_eq_walk ok sok hts hi]
      unfold walkId
      rw [if_pos (by omega)]
      have : start.number - i = (start.number - j) + (t.number - i) := by omega
      rw [this, walk_add, ht]
      rfl
    · cases hA
  · refine ⟨start.number, Nat.le_refl _, ?_⟩
    simp [walkId, walk]

/-- non-vacuity: a chain 0..20 with a fork 11'..13' off block 10, skip pointers as `build_skip`
records them -/
def exStore : Store := fun i =>
  if i ≤ 20 then some ⟨i, i, i - 1, if i = 0 then none else some (getSkipHeight i)⟩
  else if i ≤ 23 then
    some ⟨i, i - 10, if i = 21 then 10 else i - 1,
      some (if getSkipHeight (i - 10) ≤ 10 then getSkipHeight (i - 10) else getSkipHeight (i - 10) + 10)⟩
  else none

example : (getAncestor exStore (fun _ _ => none) ⟨23, 13, 22, some 22⟩ 3).map (·.id) = some 3 := by decide
example : (getAncestor exStore (fun _ _ => none) ⟨20, 20, 19, some 16⟩ 7).map (·.id) = some 7 := by decide
example : getLocator (ancOf exStore (fun _ _ => none)) 0 13 23 =
    some [23, 22, 21, 10, 9, 8, 7, 6, 5, 4, 2, 0] := by decide

/-- `get_locator` never panics ("index calculated in get_locator") and its loop terminates, for
every well-formed store, every start header and every chain length (in particular above
`ONE_DAY_BLOCK_NUMBER`, where the index is halved): the model's fuel `start.number + 1` is never
the reason to stop — any larger fuel gives the same locator. -/
theorem locator_total {store : Store} (ok : StoreOk store) {scan : Nat → Hdr → Option Hdr}
    (sok : ScanOk store scan) {start : Hdr} (hs : store start.id = some start) (genesis : Nat) :
    (∃ l, getLocator (ancOf store scan) genesis start.number start.id = some l) ∧
    (∀ extra, locatorLoop (ancOf store scan) (start.number + 1 + extra) 1 start.number start.id [] =
      locatorLoop (ancOf store scan) (start.number + 1) 1 start.number start.id []) := by
  constructor
  · rw [locator_eq_walk ok sok hs genesis]
    unfold getLocator
    obtain ⟨r, hr⟩ := locatorLoop_some (walkId store start) (start.number + 1) 1 start.number start.id []
      (by
        intro i hi
        obtain ⟨t, ht, _, _⟩ := walk_ok ok (start.number - i) start hs (by omega)
        exact ⟨t.id, by simp [walkId, hi, ht]⟩)
    rw [hr]
    exact ⟨_, rfl⟩
  · intro extra
    exact locatorLoop_fuel _ _ _ 1 _ _ [] (Nat.le_refl _) (by omega) (by omega)

example : ∃ l, getLocator (ancOf exStore (fun _ _ => none)) 0 13 23 = some l :=
  ⟨[23, 22, 21, 10, 9, 8, 7, 6, 5, 4, 2, 0], by decide⟩

end Skip

/-! ## 3. In-flight download table -/
section Inflight
open CkbVerif.Inflight

/-- Tables reachable by any sequence of the public mutators, at any clock readings. -/
inductive IReach : Inflight → Prop
  | empty : IReach {}
  | insert {s : Inflight} (now peer : Nat) (b : Blk) : IReach s → IReach (insert s now peer b).1
  | removeByPeer {s : Inflight} (peer : Nat) : IReach s → IReach (removeByPeer s peer).1
  | removeByBlock {s : Inflight} (now : Nat) (b : Blk) : IReach s → IReach (removeByBlock s now b).1
  | prune {s : Inflight} (now tip : Nat) : IReach s → IReach (prune s now tip).1
  | markSlow {s : Inflight} (now tip : Nat) : IReach s → IReach (markSlow s now tip)
  | setPolicy {s : Inflight} (adjustment : Bool) (protectNum : Nat) :
      IReach s → IReach (setPolicy s adjustment protectNum)

theorem inflight_inv {s : Inflight} (h : IReach s) : Inflight.Inv s := by
  induction h with
  | empty => exact Inflight.Inv.empty
  | insert now peer b _ ih => exact ih.insert now peer b
  | removeByPeer peer _ ih => exact ih.removeByPeer peer
  | removeByBlock now b _ ih => exact ih.removeByBlock now b
  | prune now tip _ ih => exact ih.prune now tip
  | markSlow now tip _ ih => exact ih.markSlow now tip
  | setPolicy a n _ ih => exact ih.setPolicy a n

/-- Every block listed for a peer is recorded as in flight, from exactly that peer (and the
record is unique). -/
theorem peer_list_sub_states {s : Inflight} (h : IReach s) {p : Nat} {sc : Sched} {b : Blk}
    (hp : (p, sc) ∈ s.scheds) (hb : b ∈ sc.hashes) :
    ∃ st, (b, st) ∈ s.states ∧ st.peer = p ∧ ∀ st', (b, st') ∈ s.states → st' = st := by
  have inv := inflight_inv h
  obtain ⟨st, h1, h2⟩ := inv.listed p sc b hp hb
  exact ⟨st, h1, h2, fun st' h' => assoc_unique inv.statesNodup h' h1⟩

/-- A block is never in flight from two peers at once. -/
theorem assign_unique {s : Inflight} (h : IReach s) {p1 p2 : Nat} {sc1 sc2 : Sched} {b : Blk}
    (h1 : (p1, sc1) ∈ s.scheds) (h2 : (p2, sc2) ∈ s.scheds) (hb1 : b ∈ sc1.hashes)
    (hb2 : b ∈ sc2.hashes) : p1 = p2 := by
  obtain ⟨st1, _, e1, u⟩ := peer_list_sub_states h h1 hb1
  obtain ⟨st2, m2, e2, _⟩ := peer_list_sub_states h h2 hb2
  rw [← e1, ← e2, u st2 m2]

/-- … and a request for a block that is already in flight is refused without any change. -/
theorem insert_refuses_second_peer {s : Inflight} {b : Blk} {st : Req} (hm : (b, st) ∈ s.states)
    (now peer : Nat) : insert s now peer b = (s, false) := by
  have : hasState s b = true := by
    simp only [hasState, List.any_eq_true]
    exact ⟨(b, st), hm, by simp⟩
  simp [CkbVerif.Inflight.insert, this]

/-- Arrival of a block that is in flight releases exactly that block: its record goes, it leaves
every peer's list, every other record and list entry stays. -/
theorem remove_by_block_exact {s : Inflight} (h : IReach s) (now : Nat) {b : Blk} {st : Req}
    (hm : (b, st) ∈ s.states) :
    (removeByBlock s now b).2 = true ∧
    (∀ e, e ∈ (removeByBlock s now b).1.states ↔ e ∈ s.states ∧ e.1 ≠ b) ∧
    (∀ p sc', (p, sc') ∈ (removeByBlock s now b).1.scheds →
      b ∉ sc'.hashes ∧ ∃ sc, (p, sc) ∈ s.scheds ∧ ∀ b', b' ≠ b → (b' ∈ sc'.hashes ↔ b' ∈ sc.hashes)) := by
  have inv := inflight_inv h
  -- the lookup finds this very record
  have hf : s.states.find? (fun e => e.1 == b) = some (b, st) := by
    cases hfind : s.states.find? (fun e => e.1 == b) with
    | none =>
      have := find_none hfind _ hm
      simp at this
    | some e =>
      have he := find_state hfind
      have hmem := (find_mem hfind).1
      rw [he] at hmem
      have := assoc_unique inv.statesNodup hmem hm
      rw [he, this]
  obtain ⟨a1, a2, a3, _⟩ := removeByBlock_found now hf
  refine ⟨a1, ?_, ?_⟩
  · intro e; rw [a2]; simp [List.mem_filter]
  · intro p sc' hsc
    obtain ⟨sc, hsc0, hh⟩ := a3 p sc' hsc
    by_cases hp : p = st.peer
    · rw [if_pos hp] at hh
      refine ⟨by rw [hh]; simp [List.mem_filter], sc, hsc0, ?_⟩
      intro b' hb'
      rw [hh]; simp [List.mem_filter, hb']
    · rw [if_neg hp] at hh
      refine ⟨?_, sc, hsc0, fun b' _ => by rw [hh]⟩
      rw [hh]
      intro hin
      obtain ⟨st', m', e', _⟩ := peer_list_sub_states h hsc0 hin
      have := assoc_unique inv.statesNodup m' hm
      subst this
      exact hp e'.symm

/-- Arrival of a block that is not in flight changes nothing. -/
theorem remove_by_block_absent {s : Inflight} (now : Nat) {b : Blk}
    (hm : ∀ st, (b, st) ∉ s.states) : removeByBlock s now b = (s, false) := by
  cases hfind : s.states.find? (fun e => e.1 == b) with
  | none => unfold removeByBlock; simp only [hfind]
  | some e =>
    have he := find_state hfind
    have hmem := (find_mem hfind).1
    rw [he] at hmem
    exact (hm _ hmem).elim

/-- When a tracked peer leaves, exactly its listed blocks are released (their count is returned),
its scheduler goes, every other scheduler is untouched. -/
theorem remove_by_peer_exact {s : Inflight} (h : IReach s) {peer : Nat} {sc : Sched}
    (hp : (peer, sc) ∈ s.scheds) :
    (removeByPeer s peer).2 = sc.hashes.length ∧
    (∀ e, e ∈ (removeByPeer s peer).1.states ↔ e ∈ s.states ∧ e.1 ∉ sc.hashes) ∧
    (∀ e, e ∈ (removeByPeer s peer).1.scheds ↔ e ∈ s.scheds ∧ e.1 ≠ peer) ∧
    (∀ e, e ∈ s.states → e.1 ∈ sc.hashes → e.2.peer = peer) := by
  have inv := inflight_inv h
  have hf : s.scheds.find? (fun e => e.1 == peer) = some (peer, sc) := by
    cases hfind : s.scheds.find? (fun e => e.1 == peer) with
    | none =>
      have := find_none hfind _ hp
      simp at this
    | some e =>
      obtain ⟨q, sc0⟩ := e
      obtain ⟨hmem, hq⟩ := find_mem hfind
      have hq' : q = peer := by simpa using hq
      subst hq'
      rw [assoc_unique inv.schedsNodup hmem hp]
  unfold removeByPeer
  simp only [hf]
  refine ⟨trivial, ?_, ?_, ?_⟩
  · intro e; simp [List.mem_filter]
  · intro e; simp [List.mem_filter]
  · intro e he hin
    obtain ⟨st, m, ep, u⟩ := peer_list_sub_states h hp hin
    have : e = (e.1, e.2) := rfl
    rw [this] at he
    rw [u e.2 he]; exact ep

/-- A peer that is not tracked leaves: nothing changes. -/
theorem remove_by_peer_untracked {s : Inflight} {peer : Nat}
    (hp : ∀ sc, (peer, sc) ∉ s.scheds) : removeByPeer s peer = (s, 0) := by
  cases hfind : s.scheds.find? (fun e => e.1 == peer) with
  | none => unfold removeByPeer; simp only [hfind]
  | some e =>
    obtain ⟨q, sc0⟩ := e
    obtain ⟨hmem, hq⟩ := find_mem hfind
    have hq' : q = peer := by simpa using hq
    subst hq'
    exact (hp _ hmem).elim

/-- `prune` releases exactly the requests that timed out within `tip + 20` and those whose
slow-block mark expired; every surviving peer's list is its old list restricted to the surviving
requests. -/
theorem prune_exact {s : Inflight} (h : IReach s) (now tip : Nat) :
    (∀ e, e ∈ (prune s now tip).1.states ↔
      e ∈ s.states ∧ timedOut now tip e = false ∧
        ¬ ∃ t, t ∈ s.trace ∧ t.1 = e.1 ∧ now > s.analyzer.low + t.2) ∧
    (∀ p sc', (p, sc') ∈ (prune s now tip).1.scheds → ∃ sc, (p, sc) ∈ s.scheds ∧
      ∀ b, b ∈ sc'.hashes ↔ b ∈ sc.hashes ∧ ∃ st, (b, st) ∈ (prune s now tip).1.states) := by
  have inv := inflight_inv h
  have hstates : ∀ e, e ∈ (prune s now tip).1.states ↔
      e ∈ s.states ∧ timedOut now tip e = false ∧
        ¬ ∃ t, t ∈ s.trace ∧ t.1 = e.1 ∧ now > s.analyzer.low + t.2 := by
    intro e
    simp only [prune, List.mem_filter, Bool.not_eq_true', List.any_eq_false, beq_iff_eq,
      decide_eq_true_eq, not_exists, not_and, and_imp]
    constructor
    · rintro ⟨⟨h1, h2⟩, h3⟩
      refine ⟨h1, h2, ?_⟩
      intro t ht hte hexp
      refine h3 t ht ?_ hexp hte
      intro x hx hto hxe
      -- a timed-out state with the same key would be `e` itself
      have : x = e := by
        have hx' : (x.1, x.2) ∈ s.states := hx
        have he' : (e.1, e.2) ∈ s.states := h1
        rw [hxe, hte] at hx'
        have := assoc_unique inv.statesNodup hx' he'
        exact Prod.ext (hxe.trans hte) this
      subst this
      rw [h2] at hto; cases hto
    · rintro ⟨h1, h2, h3⟩
      refine ⟨⟨h1, h2⟩, ?_⟩
      intro t ht _ hexp hte
      exact h3 t ht hte hexp
  refine ⟨hstates, ?_⟩
  intro p sc3 hm
  have hm' := hm
  simp only [prune] at hm'
  obtain ⟨sc2, hm2, h3⟩ := mem_dropFromScheds hm'
  have hm1 := (List.mem_filter.mp hm2).1
  obtain ⟨sc, hm0, h1⟩ := mem_dropFromScheds hm1
  refine ⟨sc, hm0, ?_⟩
  intro b
  constructor
  · intro hb
    have hb0 := ((h1 b).mp ((h3 b).mp hb).1).1
    obtain ⟨st, hst, _⟩ := (inflight_inv (IReach.prune now tip h)).listed p sc3 b hm hb
    exact ⟨hb0, st, hst⟩
  · rintro ⟨hb0, st, hst⟩
    have hst' := hst
    simp only [prune] at hst'
    obtain ⟨hst1, hnotexp⟩ := List.mem_filter.mp hst'
    obtain ⟨hst0, hnto⟩ := List.mem_filter.mp hst1
    rw [h3 b, h1 b]
    refine ⟨⟨hb0, ?_⟩, ?_⟩
    · rintro ⟨g, hg, _, hgb⟩
      obtain ⟨hg0, hgto⟩ := List.mem_filter.mp hg
      have hg' : (g.1, g.2) ∈ s.states := hg0
      rw [hgb] at hg'
      have := assoc_unique inv.statesNodup hg' hst0
      have hge : g = (b, st) := Prod.ext hgb this
      rw [hge] at hgto
      simp [hgto] at hnto
    · rintro ⟨g, hg, _, hgb⟩
      obtain ⟨hg1, hgany⟩ := List.mem_filter.mp hg
      obtain ⟨hg0, _⟩ := List.mem_filter.mp hg1
      have hg' : (g.1, g.2) ∈ s.states := hg0
      rw [hgb] at hg'
      have := assoc_unique inv.statesNodup hg' hst0
      have hge : g = (b, st) := Prod.ext hgb this
      rw [hge] at hgany
      simp only [hgany, Bool.not_true, Bool.false_eq_true] at hnotexp

/-- non-vacuity: two peers, three requests, a refused duplicate, one arrival, one time-out -/
def exTable : Inflight :=
  let s := (insert {} 1000 1 ⟨5, 50⟩).1
  let s := (insert s 1000 2 ⟨6, 60⟩).1
  let s := (insert s 2000 1 ⟨7, 70⟩).1
  (insert s 3000 2 ⟨5, 50⟩).1

example : exTable.scheds.map (fun e => (e.1, e.2.hashes.map (·.hash))) = [(1, [70, 50]), (2, [60])] := by decide
example : (insert exTable 3000 2 ⟨5, 50⟩).2 = false := by decide
example : ((removeByBlock exTable 4000 ⟨7, 70⟩).1.scheds.map (fun e => (e.1, e.2.hashes.map (·.hash)))) =
    [(1, [50]), (2, [60])] := by decide
example : ((prune exTable 31500 0).1.states.map (·.1.hash)) = [70] ∧
    ((prune exTable 31500 0).1.scheds.map (fun e => (e.1, e.2.hashes.map (·.hash)))) = [(1, [70]), (2, [])] := by decide
example : IReach exTable := .insert _ _ _ (.insert _ _ _ (.insert _ _ _ (.insert _ _ _ .empty)))

/-! ### the internal fields: slow marks, counters, analyzer window, policy, restart number -/

/-- Counters and window stay in range and `trace_number` is a map, after any sequence of the
public mutators (policy changes included), at any clock readings: `task_count ≤
MAX_BLOCKS_IN_TRANSIT_PER_PEER`, `timeout_count ≤ 2`, the analyzer keeps `TIME_TRACE_SIZE` samples
with its write index inside the window. -/
theorem inflight_inv2 {s : Inflight} (h : IReach s) : Inflight.Inv2 s := by
  induction h with
  | empty => exact Inflight.Inv2.empty
  | insert now peer b _ ih => exact ih.insert now peer b
  | removeByPeer peer _ ih => exact ih.removeByPeer peer
  | removeByBlock now b _ ih => exact ih.removeByBlock now b
  | prune now tip _ ih => exact ih.prune now tip
  | @markSlow s now tip hr ih => exact ih.markSlow (inflight_inv hr).statesNodup now tip
  | setPolicy a n _ ih => exact ih.setPolicy a n

theorem counters_in_range {s : Inflight} (h : IReach s) {p : Nat} {sc : Sched} (hp : (p, sc) ∈ s.scheds) :
    sc.taskCount ≤ CkbVerif.Gen.Sync.MAX_BLOCKS_IN_TRANSIT_PER_PEER ∧ sc.timeoutCount ≤ 2 :=
  ⟨(inflight_inv2 h).taskLe p sc hp, (inflight_inv2 h).timeoutLe p sc hp⟩

/-- No operation creates a slow mark without a request, from any table and with any arguments
(since /repo commit 4f3b7cd `remove_by_block` drops the mark with the request whether or not the
requesting peer still has a scheduler; before it, `remove_by_block b` was the one exception — see
`remove_by_block_PreF23_releases_innocent_request`). -/
theorem stale_mark_origin {s : Inflight} (h : IReach s) (x : Blk) :
    (∀ now peer b, Stale (insert s now peer b).1 x → Stale s x) ∧
    (∀ peer, Stale (removeByPeer s peer).1 x → Stale s x) ∧
    (∀ now b, Stale (removeByBlock s now b).1 x → Stale s x) ∧
    (∀ now tip, Stale (prune s now tip).1 x → Stale s x) ∧
    (∀ now tip, Stale (markSlow s now tip) x → Stale s x) ∧
    (∀ a n, Stale (setPolicy s a n) x → Stale s x) :=
  ⟨fun now peer b => stale_insert now peer b, fun peer => stale_removeByPeer peer,
   fun now b => stale_removeByBlock now b,
   fun now tip => stale_prune (inflight_inv2 h).traceNodup now tip,
   fun now tip => stale_markSlow now tip, fun _ _ hst => hst⟩

/-- `trace_number ⊆ inflight_states`, for every reachable table: every slow mark belongs to a block
that is in flight (full invariant; was `trace_sub_states_partial` before the repair of F23). -/
theorem trace_sub_states {s : Inflight} (h : IReach s) : ∀ x, ¬ Stale s x := by
  induction h with
  | empty => rintro x ⟨⟨ts, hm⟩, _⟩; cases hm
  | @insert s now peer b hr ih => exact fun x hs => ih x ((stale_mark_origin hr x).1 now peer b hs)
  | @removeByPeer s peer hr ih => exact fun x hs => ih x ((stale_mark_origin hr x).2.1 peer hs)
  | @removeByBlock s now b hr ih => exact fun x hs => ih x ((stale_mark_origin hr x).2.2.1 now b hs)
  | @prune s now tip hr ih => exact fun x hs => ih x ((stale_mark_origin hr x).2.2.2.1 now tip hs)
  | @markSlow s now tip hr ih => exact fun x hs => ih x ((stale_mark_origin hr x).2.2.2.2.1 now tip hs)
  | setPolicy a n _ ih => exact ih

/-- … in the map reading: every entry of `trace_number` has its entry in `inflight_states`. -/
theorem marked_is_in_flight {s : Inflight} (h : IReach s) {b : Blk} {ts : Nat} (hm : (b, ts) ∈ s.trace) :
    ∃ st, (b, st) ∈ s.states := by
  cases Classical.em (∃ st, (b, st) ∈ s.states) with
  | inl h1 => exact h1
  | inr h1 => exact (trace_sub_states h b ⟨⟨ts, hm⟩, h1⟩).elim

/-- Consequence for `prune`: a request released by the mark loop is released because of a mark made
while this very request was in flight or by its own re-request below `restart_number` — never
because of a mark left behind by an earlier request: right after any operation sequence followed
by a fresh request of an unmarked block, that request survives every `prune` until it times out
itself. -/
theorem fresh_request_survives_prune {s : Inflight} (h : IReach s) {b : Blk} {now peer tip now' : Nat}
    (hnew : ∀ st, (b, st) ∉ s.states) (hr : ¬ s.restartNumber ≥ b.number)
    (hto : timedOut now' tip (b, { peer := peer, ts := now }) = false) :
    (b, { peer := peer, ts := now }) ∈ (prune (insert s now peer b).1 now' tip).1.states := by
  have hs : hasState s b = false := by
    cases hh : hasState s b with
    | false => rfl
    | true =>
      simp only [hasState, List.any_eq_true] at hh
      obtain ⟨e, he, hb⟩ := hh
      have : e.1 = b := by simpa using hb
      exact (hnew e.2 (by rw [← this]; exact he)).elim
  have hi := IReach.insert now peer b h
  rw [(prune_exact hi now' tip).1]
  refine ⟨by rw [insert_states]; simp [hs], hto, ?_⟩
  rintro ⟨t, ht, hk, _⟩
  rw [insert_trace] at ht
  simp only [hs, Bool.false_eq_true, if_false, hr] at ht
  -- a mark of `b` in the old table would be a mark without a request
  have hk' : t.1 = b := hk
  exact trace_sub_states h b ⟨⟨t.2, by rw [← hk']; exact ht⟩, fun ⟨st, hst⟩ => hnew st hst⟩

/-- Witness for finding F23 (the code before /repo commit 4f3b7cd), the history of
`corpus/C17/inflight-stale-mark-from-evicted-peer.ops`: peer 1 is evicted by `prune` (three
time-outs) with its far-ahead request 300 left in flight; block 300 is marked slow and then
arrives: the old `remove_by_block` keeps the mark without a request; peer 2 requests the block
again, and `prune` one millisecond later releases that request (which has not timed out), halves
peer 2's window and raises `restart_number` to 300. With the repaired function the same history
keeps peer 2's request, window and `restart_number`. -/
def f23Before : Inflight :=
  let s := setPolicy {} true 0
  let s := (insert s 1000 1 ⟨5, 50⟩).1
  let s := (insert s 1000 1 ⟨6, 60⟩).1
  let s := (insert s 1000 1 ⟨7, 70⟩).1
  let s := (insert s 1000 1 ⟨300, 3000⟩).1
  let s := (prune s 31001 4).1
  markSlow s 40000 299

theorem remove_by_block_PreF23_releases_innocent_request :
    -- peer 1 is gone, its request 300 is still in flight and marked
    f23Before.scheds = [] ∧ f23Before.states.map (·.1.number) = [300] ∧
    f23Before.trace = [(⟨300, 3000⟩, 40000)] ∧
    -- old code: the arrival leaves a mark without a request …
    (removeByBlockPreF23 f23Before 40100 ⟨300, 3000⟩).1.states = [] ∧
    (removeByBlockPreF23 f23Before 40100 ⟨300, 3000⟩).1.trace = [(⟨300, 3000⟩, 40000)] ∧
    -- … which releases peer 2's 1 ms old request, halves its window and sets restart_number
    timedOut 45001 299 (⟨300, 3000⟩, { peer := 2, ts := 45000 }) = false ∧
    (let s := (insert (removeByBlockPreF23 f23Before 40100 ⟨300, 3000⟩).1 45000 2 ⟨300, 3000⟩).1
     (prune s 45001 299).1.states = [] ∧
     (prune s 45001 299).1.scheds.map (fun e => (e.1, e.2.taskCount, e.2.hashes.length)) = [(2, 16, 0)] ∧
     (prune s 45001 299).1.restartNumber = 300) ∧
    -- repaired code: the mark goes with the request; peer 2 keeps request, window, restart_number
    (removeByBlock f23Before 40100 ⟨300, 3000⟩).1.trace = [] ∧
    (let s := (insert (removeByBlock f23Before 40100 ⟨300, 3000⟩).1 45000 2 ⟨300, 3000⟩).1
     (prune s 45001 299).1.states.map (fun e => (e.1.number, e.2.peer)) = [(300, 2)] ∧
     (prune s 45001 299).1.scheds.map (fun e => (e.1, e.2.taskCount, e.2.hashes.length)) = [(2, 32, 1)] ∧
     (prune s 45001 299).1.restartNumber = 0) := by
  decide

/-- non-vacuity of `trace_sub_states` / `fresh_request_survives_prune`: `f23Before` is reachable and
carries a mark; the repaired history is reachable -/
example : IReach f23Before :=
  .markSlow _ _ (.prune _ _ (.insert _ _ _ (.insert _ _ _ (.insert _ _ _ (.insert _ _ _ (.setPolicy _ _ .empty))))))
example : IReach (removeByBlock f23Before 40100 ⟨300, 3000⟩).1 ∧
    (removeByBlock f23Before 40100 ⟨300, 3000⟩).1.states = [] ∧
    (removeByBlock f23Before 40100 ⟨300, 3000⟩).1.restartNumber = 0 :=
  ⟨.removeByBlock _ _ (.markSlow _ _ (.prune _ _ (.insert _ _ _ (.insert _ _ _ (.insert _ _ _ (.insert _ _ _
    (.setPolicy _ _ .empty))))))), by decide, by decide⟩

/-- When a tracked peer leaves, nothing of its requests stays anywhere: the marks of exactly its
listed blocks go, none of its blocks is in flight, marked, or listed for anybody afterwards, and
restart number, analyzer and policy are untouched. -/
theorem remove_by_peer_leaves_nothing {s : Inflight} (h : IReach s) {peer : Nat} {sc : Sched}
    (hp : (peer, sc) ∈ s.scheds) :
    (∀ t, t ∈ (removeByPeer s peer).1.trace ↔ t ∈ s.trace ∧ t.1 ∉ sc.hashes) ∧
    (∀ b, b ∈ sc.hashes → ¬ Marked (removeByPeer s peer).1 b ∧ ¬ InFlight (removeByPeer s peer).1 b ∧
      ∀ q sc', (q, sc') ∈ (removeByPeer s peer).1.scheds → b ∉ sc'.hashes) ∧
    (removeByPeer s peer).1.restartNumber = s.restartNumber ∧
    (removeByPeer s peer).1.analyzer = s.analyzer ∧
    (removeByPeer s peer).1.adjustment = s.adjustment ∧
    (removeByPeer s peer).1.protectNum = s.protectNum := by
  have inv := inflight_inv h
  have hf : s.scheds.find? (fun e => e.1 == peer) = some (peer, sc) := by
    cases hfind : s.scheds.find? (fun e => e.1 == peer) with
    | none =>
      have := find_none hfind _ hp
      simp at this
    | some e =>
      obtain ⟨q, sc0⟩ := e
      obtain ⟨hmem, hq⟩ := find_mem hfind
      have hq' : q = peer := by simpa using hq
      subst hq'
      rw [assoc_unique inv.schedsNodup hmem hp]
  have ht : ∀ t, t ∈ (removeByPeer s peer).1.trace ↔ t ∈ s.trace ∧ t.1 ∉ sc.hashes := by
    intro t
    unfold removeByPeer
    simp only [hf]
    simp [List.mem_filter]
  have hst : ∀ e, e ∈ (removeByPeer s peer).1.states ↔ e ∈ s.states ∧ e.1 ∉ sc.hashes :=
    (remove_by_peer_exact h hp).2.1
  have hsc : ∀ e, e ∈ (removeByPeer s peer).1.scheds ↔ e ∈ s.scheds ∧ e.1 ≠ peer :=
    (remove_by_peer_exact h hp).2.2.1
  refine ⟨ht, ?_, ?_⟩
  · intro b hb
    refine ⟨?_, ?_, ?_⟩
    · rintro ⟨ts, hm⟩
      exact ((ht (b, ts)).mp hm).2 hb
    · rintro ⟨st, hm⟩
      exact ((hst (b, st)).mp hm).2 hb
    · intro q sc' hm hb'
      obtain ⟨hm0, hq⟩ := (hsc (q, sc')).mp hm
      exact hq (assign_unique h hm0 hp hb' hb)
  · unfold removeByPeer
    simp only [hf]
    exact ⟨trivial, trivial, trivial, trivial⟩

/-- `prune`, policy side. Who is disconnected: every tracked peer is either disconnected or kept,
never both. Counters: without punishment (`download_schedulers.len() ≤ protect_num`, or
`adjustment` off) no counter moves; with it, the window is quartered per timed-out request and
halved per expired slow mark of that peer (`punish(2)`, `punish(1)`), `timeout_count` untouched. -/
theorem prune_policy {s : Inflight} (h : IReach s) (now tip : Nat) :
    (∀ p, p ∈ (prune s now tip).2 → ∀ sc, (p, sc) ∉ (prune s now tip).1.scheds) ∧
    (∀ p sc, (p, sc) ∈ s.scheds → p ∈ (prune s now tip).2 ∨ ∃ sc', (p, sc') ∈ (prune s now tip).1.scheds) ∧
    ((decide (s.scheds.length > s.protectNum) && s.adjustment) = false →
      ∀ p sc', (p, sc') ∈ (prune s now tip).1.scheds →
        ∃ sc, (p, sc) ∈ s.scheds ∧ sc'.taskCount = sc.taskCount ∧ sc'.timeoutCount = sc.timeoutCount) ∧
    ((decide (s.scheds.length > s.protectNum) && s.adjustment) = true →
      ∀ p sc', (p, sc') ∈ (prune s now tip).1.scheds →
        ∃ sc k1 k2, (p, sc) ∈ s.scheds ∧ sc'.timeoutCount = sc.timeoutCount ∧
          sc'.taskCount = sc.taskCount >>> (2 * k1 + k2) ∧
          k1 = ((s.states.filter (timedOut now tip)).filter (fun g => g.2.peer == p)).length) :=
  ⟨fun _ hp => prune_disconnect_disjoint (inflight_inv h).schedsNodup now tip hp,
   fun _ _ hm => prune_disconnect_or_kept now tip hm,
   fun hno _ _ hm => prune_counters_unpunished now tip hno hm,
   fun hyes _ _ hm => prune_counters_punished now tip hyes hm⟩

/-- `prune`, marks and restart number: a mark survives exactly when its request did not time out
in the first loop and the mark itself is not older than `low_time`; `restart_number` (cleared
first once the tip passed it) rises to the highest block whose mark expired, and to nothing else. -/
theorem prune_marks_exact (s : Inflight) (now tip : Nat) :
    (∀ t, t ∈ (prune s now tip).1.trace ↔
      t ∈ s.trace ∧ (¬ ∃ e, e ∈ s.states ∧ timedOut now tip e = true ∧ e.1 = t.1) ∧
        ¬ now > s.analyzer.low + t.2) ∧
    (let r1 := if s.restartNumber != 0 && decide (tip + 1 > s.restartNumber) then 0 else s.restartNumber
     r1 ≤ (prune s now tip).1.restartNumber ∧
     (∀ t, t ∈ s.trace → (¬ ∃ e, e ∈ s.states ∧ timedOut now tip e = true ∧ e.1 = t.1) →
        now > s.analyzer.low + t.2 → t.1.number ≤ (prune s now tip).1.restartNumber) ∧
     ((prune s now tip).1.restartNumber = r1 ∨
        ∃ t, t ∈ s.trace ∧ now > s.analyzer.low + t.2 ∧ (prune s now tip).1.restartNumber = t.1.number)) := by
  refine ⟨prune_trace s now tip, ?_⟩
  simp only [prune]
  obtain ⟨a1, a2, a3⟩ := foldl_max_ge
    ((s.trace.filter (fun t => !(s.states.filter (timedOut now tip)).any (fun e => e.1 == t.1))).filter
      (fun t => decide (now > s.analyzer.low + t.2)))
    (if s.restartNumber != 0 && decide (tip + 1 > s.restartNumber) then 0 else s.restartNumber)
  refine ⟨a1, ?_, ?_⟩
  · intro t ht hnot hexp
    apply a2 t
    simp only [List.mem_filter, Bool.not_eq_true', List.any_eq_false, beq_iff_eq, decide_eq_true_eq,
      and_imp]
    exact ⟨⟨ht, fun e he hto hk => hnot ⟨e, he, hto, hk⟩⟩, hexp⟩
  · rcases a3 with e | ⟨t, ht, e⟩
    · exact Or.inl e
    · right
      simp only [List.mem_filter, decide_eq_true_eq] at ht
      exact ⟨t, ht.1.1, ht.2, e⟩

/-- non-vacuity: five peers over `protect_num = 4` with adjustment on: a time-out quarters the
window (32 → 8) and a second, third one evict the peer; a mark made at the check point outlives
`low_time` and releases its request, raising `restart_number`; a departed peer's mark goes with it -/
def exPolicy : Inflight :=
  let s := (insert {} 1000 1 ⟨5, 50⟩).1
  let s := (insert s 1000 2 ⟨6, 60⟩).1
  let s := (insert s 1000 3 ⟨7, 70⟩).1
  let s := (insert s 1000 4 ⟨8, 80⟩).1
  (insert s 1000 5 ⟨9, 90⟩).1

example : ((prune exPolicy 31001 4).1.scheds.map (fun e => (e.1, e.2.taskCount))) =
    [(1, 8), (2, 8), (3, 8), (4, 8), (5, 8)] := by decide
example : ((prune (setPolicy exPolicy true 5) 31001 4).1.scheds.map (fun e => (e.1, e.2.taskCount))) =
    [(1, 32), (2, 32), (3, 32), (4, 32), (5, 32)] := by decide
example : (prune (markSlow exPolicy 2000 4) 3501 4).1.restartNumber = 5 ∧
    ((prune (markSlow exPolicy 2000 4) 3501 4).1.states.map (·.1.hash)) = [90, 80, 70, 60] ∧
    (prune (markSlow exPolicy 2000 4) 3500 4).1.restartNumber = 0 := by decide
example : (removeByPeer (markSlow exPolicy 2000 4) 1).1.trace = [] ∧
    (markSlow exPolicy 2000 4).trace = [(⟨5, 50⟩, 2000)] := by decide
example : IReach (setPolicy exPolicy true 5) :=
  .setPolicy _ _ (.insert _ _ _ (.insert _ _ _ (.insert _ _ _ (.insert _ _ _ (.insert _ _ _ .empty)))))

/-- The analyzer's three thresholds stay ordered, `fast_time ≤ normal_time ≤ low_time`, after any
sequence of operations: the update averages them (saturating) with the samples at the 1/3, 4/5 and
9/10 positions of the sorted window. So the four response-time classes of `push_time` are nested
intervals and the slow-mark limit `low_time` is the largest of the three. -/
theorem thresholds_ordered {s : Inflight} (h : IReach s) :
    s.analyzer.fast ≤ s.analyzer.normal ∧ s.analyzer.normal ≤ s.analyzer.low := by
  induction h with
  | empty => decide
  | insert now peer b _ ih => rw [(insert_frame _ now peer b).2.1]; exact ih
  | removeByPeer peer _ ih => rw [removeByPeer_analyzer]; exact ih
  | @removeByBlock s now b hr ih =>
    rcases removeByBlock_analyzer s now b with e | ⟨t, e⟩
    · rw [e]; exact ih
    · rw [e]; exact pushTime_ordered _ t (inflight_inv2 hr).windowLen ih
  | prune now tip _ ih => exact ih
  | markSlow now tip _ ih => exact ih
  | setPolicy a n _ ih => exact ih

/-- non-vacuity: a reachable table whose analyzer has taken a sample; and an analyzer with a full
window satisfies the hypotheses of the update step in its sort-and-average branch (`mergeSort`
does not reduce in the kernel, so the averaged values themselves are compared by the
correspondence: the long in-flight runs fill the 512-sample window on the real code) -/
example : (removeByBlock exTable 4000 ⟨7, 70⟩).1.analyzer.index = 1 ∧
    (removeByBlock exTable 4000 ⟨7, 70⟩).1.analyzer.low = 1500 := by decide
example :
    (({ index := TIME_TRACE_SIZE, trace := List.replicate TIME_TRACE_SIZE 3000 } : Analyzer).trace.length = TIME_TRACE_SIZE) ∧
    (({ index := TIME_TRACE_SIZE, trace := List.replicate TIME_TRACE_SIZE 3000 } : Analyzer).fast ≤
      ({ index := TIME_TRACE_SIZE, trace := List.replicate TIME_TRACE_SIZE 3000 } : Analyzer).normal) ∧
    (({ index := TIME_TRACE_SIZE, trace := List.replicate TIME_TRACE_SIZE 3000 } : Analyzer).normal ≤
      ({ index := TIME_TRACE_SIZE, trace := List.replicate TIME_TRACE_SIZE 3000 } : Analyzer).low) ∧
    ¬ ({ index := TIME_TRACE_SIZE, trace := List.replicate TIME_TRACE_SIZE 3000 } : Analyzer).index < TIME_TRACE_SIZE :=
  ⟨List.length_replicate, by decide, by decide, Nat.lt_irrefl _⟩

/-! ### The analyzer's averaged values -/

/-- `TimeAnalyzer::push_time`, the averaged values. While the window fills the thresholds do not move.
On the roll-over each new threshold is the saturating average of the old threshold and an actual
SAMPLE of the window (its order statistic at FAST / NORMAL / LOW index): it never exceeds the larger of
the two, and — when the sum does not saturate `u64` — it is not below the smaller of the two. -/
theorem threshold_update_between (a : Analyzer) (t : Nat) (hl : a.trace.length = TIME_TRACE_SIZE) :
    (a.index < TIME_TRACE_SIZE →
      (a.pushTime t).1.fast = a.fast ∧ (a.pushTime t).1.normal = a.normal ∧ (a.pushTime t).1.low = a.low) ∧
    (¬ a.index < TIME_TRACE_SIZE →
      ∃ qf, qf ∈ a.trace ∧ ∃ qn, qn ∈ a.trace ∧ ∃ ql, ql ∈ a.trace ∧
        (a.pushTime t).1.fast ≤ max a.fast qf ∧ (a.fast + qf ≤ U64_MAX → min a.fast qf ≤ (a.pushTime t).1.fast) ∧
        (a.pushTime t).1.normal ≤ max a.normal qn ∧ (a.normal + qn ≤ U64_MAX → min a.normal qn ≤ (a.pushTime t).1.normal) ∧
        (a.pushTime t).1.low ≤ max a.low ql ∧ (a.low + ql ≤ U64_MAX → min a.low ql ≤ (a.pushTime t).1.low)) := by
  refine ⟨(pushTime_thresholds a t).1, ?_⟩
  intro hroll
  obtain ⟨h1, h2, h3⟩ := (pushTime_thresholds a t).2 hroll
  refine ⟨_, sortedWin_getD_mem a.trace FAST_INDEX (by rw [hl]; decide),
    _, sortedWin_getD_mem a.trace NORMAL_INDEX (by rw [hl]; decide),
    _, sortedWin_getD_mem a.trace LOW_INDEX (by rw [hl]; decide), ?_⟩
  rw [h1, h2, h3]
  exact ⟨satAvg_le_max _ _, satAvg_ge_min, satAvg_le_max _ _, satAvg_ge_min, satAvg_le_max _ _, satAvg_ge_min⟩

/-- … the lower bound does need the no-saturation condition: with both the threshold and the sample at
`u64::MAX` the saturating sum halves to `u64::MAX / 2`, below both. -/
theorem threshold_average_saturates : satAdd64 U64_MAX U64_MAX / 2 < min U64_MAX U64_MAX := by decide

/-- Analyzers reachable by any sequence of `push_time` with samples at most `hi`. -/
inductive AReach (hi : Nat) : Analyzer → Prop
  | init : AReach hi {}
  | push (a : Analyzer) (t : Nat) : AReach hi a → t ≤ hi → AReach hi (a.pushTime t).1

/-- For every sequence of samples: no threshold ever exceeds the largest sample seen (or the initial
`low_time` of 1500 ms, whichever is larger), and every window entry is a sample (or the initial 0). -/
theorem thresholds_bounded_by_samples {hi : Nat} (h1500 : 1500 ≤ hi) {a : Analyzer} (h : AReach hi a) :
    a.trace.length = TIME_TRACE_SIZE ∧ (∀ x ∈ a.trace, x ≤ hi) ∧
      a.fast ≤ hi ∧ a.normal ≤ hi ∧ a.low ≤ hi := by
  induction h with
  | init =>
    refine ⟨by simp, ?_, ?_, ?_, ?_⟩
    · intro x hx
      have : x = 0 := List.eq_of_mem_replicate hx
      omega
    · show 1000 ≤ hi; omega
    · show 1250 ≤ hi; omega
    · show 1500 ≤ hi; omega
  | push a t _ ht ih =>
    obtain ⟨hl, hw, hf, hn, hlo⟩ := ih
    by_cases hidx : a.index < TIME_TRACE_SIZE
    · obtain ⟨e1, e2, e3⟩ := (pushTime_thresholds a t).1 hidx
      rw [e1, e2, e3]
      have htr : (a.pushTime t).1.trace = a.trace.set a.index t := by simp [Analyzer.pushTime, hidx]
      refine ⟨by rw [htr, List.length_set]; exact hl, ?_, hf, hn, hlo⟩
      intro x hx
      rw [htr] at hx
      rcases List.mem_or_eq_of_mem_set hx with h | h
      · exact hw x h
      · omega
    · obtain ⟨qf, hqf, qn, hqn, ql, hql, b1, _, b2, _, b3, _⟩ := (threshold_update_between a t hl).2 hidx
      have htr : (a.pushTime t).1.trace = (sortedWin a.trace).set 0 t := by
        simp [Analyzer.pushTime, hidx, sortedWin]
      have := hw qf hqf; have := hw qn hqn; have := hw ql hql
      refine ⟨by rw [htr, List.length_set, sortedWin_length]; exact hl, ?_, by omega, by omega, by omega⟩
      intro x hx
      rw [htr] at hx
      rcases List.mem_or_eq_of_mem_set hx with h | h
      · exact hw x ((sortedWin_perm a.trace).mem_iff.mp h)
      · omega

/-- The thresholds are monotone in the samples: of two analyzers at the same window position, the one
whose window entries (pointwise) and thresholds are at least the other's has, after the next
`push_time` (any samples), thresholds at least the other's — in particular the order statistics of the
sorted window are monotone in every single sample. -/
theorem threshold_update_monotone (a a' : Analyzer) (t t' : Nat) (hidx : a.index = a'.index)
    (hl : a.trace.length = TIME_TRACE_SIZE) (hw : PointwiseLe a.trace a'.trace)
    (hf : a.fast ≤ a'.fast) (hn : a.normal ≤ a'.normal) (hlo : a.low ≤ a'.low) :
    (a.pushTime t).1.fast ≤ (a'.pushTime t').1.fast ∧ (a.pushTime t).1.normal ≤ (a'.pushTime t').1.normal ∧
      (a.pushTime t).1.low ≤ (a'.pushTime t').1.low := by
  by_cases h : a.index < TIME_TRACE_SIZE
  · obtain ⟨e1, e2, e3⟩ := (pushTime_thresholds a t).1 h
    obtain ⟨f1, f2, f3⟩ := (pushTime_thresholds a' t').1 (by rw [← hidx]; exact h)
    rw [e1, e2, e3, f1, f2, f3]; exact ⟨hf, hn, hlo⟩
  · obtain ⟨e1, e2, e3⟩ := (pushTime_thresholds a t).2 h
    obtain ⟨f1, f2, f3⟩ := (pushTime_thresholds a' t').2 (by rw [← hidx]; exact h)
    rw [e1, e2, e3, f1, f2, f3]
    exact ⟨satAvg_mono hf (sortedWin_getD_mono hw _ (by rw [hl]; decide)),
      satAvg_mono hn (sortedWin_getD_mono hw _ (by rw [hl]; decide)),
      satAvg_mono hlo (sortedWin_getD_mono hw _ (by rw [hl]; decide))⟩

/-- non-vacuity: a full window of 100 ms samples moves `fast_time` from 1000 to 550 — between the sample
and the old value (`mergeSort` does not reduce in the kernel: the value is derived through the
theorems); and the bounded reachable set is inhabited beyond the initial analyzer. -/
def exFull : Analyzer := { trace := List.replicate TIME_TRACE_SIZE 100, index := TIME_TRACE_SIZE }
example : (exFull.pushTime 7).1.fast = 550 := by
  obtain ⟨h1, _, _⟩ := (pushTime_thresholds exFull 7).2 (Nat.lt_irrefl _)
  have hm : (sortedWin exFull.trace).getD FAST_INDEX 0 ∈ List.replicate TIME_TRACE_SIZE 100 :=
    sortedWin_getD_mem exFull.trace FAST_INDEX (by show FAST_INDEX < (List.replicate TIME_TRACE_SIZE 100).length; rw [List.length_replicate]; decide)
  have e : (sortedWin exFull.trace).getD FAST_INDEX 0 = 100 := List.eq_of_mem_replicate hm
  rw [h1, e]
  decide
example : AReach 2000 (({} : Analyzer).pushTime 1700).1 := .push _ _ .init (by decide)

/-- Analyzers reachable by any sequence of `push_time` with samples in `[lo, hi]`. -/
inductive AReachB (lo hi : Nat) : Analyzer → Prop
  | init : AReachB lo hi {}
  | push (a : Analyzer) (t : Nat) : AReachB lo hi a → lo ≤ t → t ≤ hi → AReachB lo hi (a.pushTime t).1

theorem AReachB.toAReach {lo hi : Nat} {a : Analyzer} (h : AReachB lo hi a) : AReach hi a := by
  induction h with
  | init => exact .init
  | push a t _ _ h2 ih => exact .push a t ih h2

/-- The window positions below `index` always hold samples that were actually pushed (never the initial
zeros): so at every roll-over (`index = TIME_TRACE_SIZE`) the whole window, and with it each of the three
order statistics that enter the averages, is a pushed sample. -/
theorem window_prefix_fresh {lo hi : Nat} {a : Analyzer} (h : AReachB lo hi a) :
    a.trace.length = TIME_TRACE_SIZE ∧ a.index ≤ TIME_TRACE_SIZE ∧
    ∀ j x, j < a.index → a.trace[j]? = some x → lo ≤ x ∧ x ≤ hi := by
  induction h with
  | init =>
    refine ⟨by simp, Nat.zero_le _, ?_⟩
    intro j x hj
    exact absurd hj (Nat.not_lt_zero _)
  | push a t _ h1 h2 ih =>
    obtain ⟨hl, hle, ih⟩ := ih
    by_cases hidx : a.index < TIME_TRACE_SIZE
    · have htr : (a.pushTime t).1.trace = a.trace.set a.index t := by simp [Analyzer.pushTime, hidx]
      have hix : (a.pushTime t).1.index = a.index + 1 := by simp [Analyzer.pushTime, hidx]
      refine ⟨by rw [htr, List.length_set]; exact hl, by omega, ?_⟩
      intro j x hj hx
      rw [htr, List.getElem?_set] at hx
      rw [hix] at hj
      by_cases hji : a.index = j
      · rw [if_pos hji] at hx
        split at hx
        · cases hx; exact ⟨h1, h2⟩
        · cases hx
      · rw [if_neg hji] at hx
        exact ih j x (by omega) hx
    · have htr : (a.pushTime t).1.trace = (sortedWin a.trace).set 0 t := by
        simp [Analyzer.pushTime, hidx, sortedWin]
      have hix : (a.pushTime t).1.index = 1 := by simp [Analyzer.pushTime, hidx]
      refine ⟨by rw [htr, List.length_set, sortedWin_length]; exact hl, by rw [hix]; decide, ?_⟩
      intro j x hj hx
      rw [hix] at hj
      have hj0 : j = 0 := by omega
      subst hj0
      rw [htr, List.getElem?_set] at hx
      simp only [if_true] at hx
      split at hx
      · cases hx; exact ⟨h1, h2⟩
      · cases hx

/-- For every sequence of samples in `[lo, hi]` (with `2 * hi` inside `u64`, `hi ≥ 1500`): each threshold
stays between the smallest and the largest of the samples seen and its initial value. -/
theorem thresholds_within_sample_range {lo hi : Nat} (h1500 : 1500 ≤ hi) (hsat : 2 * hi ≤ U64_MAX)
    {a : Analyzer} (h : AReachB lo hi a) :
    (min lo 1000 ≤ a.fast ∧ a.fast ≤ hi) ∧ (min lo 1250 ≤ a.normal ∧ a.normal ≤ hi) ∧
      (min lo 1500 ≤ a.low ∧ a.low ≤ hi) := by
  have hup := fun {a} (h : AReachB lo hi a) => thresholds_bounded_by_samples h1500 h.toAReach
  induction h with
  | init =>
    refine ⟨⟨?_, ?_⟩, ⟨?_, ?_⟩, ⟨?_, ?_⟩⟩
    · show min lo 1000 ≤ 1000; omega
    · show 1000 ≤ hi; omega
    · show min lo 1250 ≤ 1250; omega
    · show 1250 ≤ hi; omega
    · show min lo 1500 ≤ 1500; omega
    · show 1500 ≤ hi; omega
  | push a t hr h1 h2 ih =>
    obtain ⟨hl, hw, uf, un, ul⟩ := hup hr
    obtain ⟨_, _, uf', un', ul'⟩ := hup (AReachB.push a t hr h1 h2)
    obtain ⟨⟨lf, _⟩, ⟨ln, _⟩, ⟨ll, _⟩⟩ := ih
    by_cases hidx : a.index < TIME_TRACE_SIZE
    · obtain ⟨e1, e2, e3⟩ := (threshold_update_between a t hl).1 hidx
      rw [e1, e2, e3]
      exact ⟨⟨lf, uf⟩, ⟨ln, un⟩, ⟨ll, ul⟩⟩
    · obtain ⟨qf, hqf, qn, hqn, ql, hql, _, b1, _, b2, _, b3⟩ := (threshold_update_between a t hl).2 hidx
      obtain ⟨_, hle, hfresh⟩ := window_prefix_fresh hr
      have hidx' : a.index = TIME_TRACE_SIZE := by omega
      have fresh : ∀ q, q ∈ a.trace → lo ≤ q ∧ q ≤ hi := by
        intro q hq
        obtain ⟨j, hj, hjq⟩ := List.mem_iff_getElem.mp hq
        exact hfresh j q (by omega) (by rw [List.getElem?_eq_getElem hj, hjq])
      have ⟨f1, f2⟩ := fresh qf hqf
      have ⟨n1, n2⟩ := fresh qn hqn
      have ⟨l1, l2⟩ := fresh ql hql
      have c1 := b1 (by omega); have c2 := b2 (by omega); have c3 := b3 (by omega)
      refine ⟨⟨by omega, uf'⟩, ⟨by omega, un'⟩, ⟨by omega, ul'⟩⟩

example : AReachB 100 2000 (({} : Analyzer).pushTime 1700).1 := .push _ _ .init (by decide) (by decide)

end Inflight

/-! ## 4. Header map -/

/-! ## Common blocks: `last_common_ancestor`, `update_last_common_header`, `locate_latest_common_block` -/
section Locate
open CkbVerif.Skip

/-- every header of the store descends from the one genesis header `g` -/
def Rooted (store : Store) (g : Hdr) : Prop :=
  ∀ h, store h.id = some h → walk store h.number h = some g

/-- `ActiveChain::last_common_ancestor` (swap, ancestor lookup through skip pointers and the main-chain
shortcut, then the two-sided parent loop) returns THE latest common ancestor of any two known
headers of one tree: an ancestor of both, and no common ancestor is higher. It never fails. -/
theorem last_common_ancestor_is_lca {store : Store} (ok : StoreOk store)
    {scan : Nat → Hdr → Option Hdr} (sok : ScanOk store scan) {g : Hdr} (hroot : Rooted store g)
    {a b : Hdr} (ha : store a.id = some a) (hb : store b.id = some b) :
    ∃ c, lastCommonAncestor (ancNH store scan) (nhOf a) (nhOf b) = some (nhOf c) ∧
      IsAnc store c a ∧ IsAnc store c b ∧
      ∀ c', IsAnc store c' a → IsAnc store c' b → c'.number ≤ c.number := by
  have hr : ∀ x y : Hdr, store x.id = some x → store y.id = some y →
      walk store x.number x = walk store y.number y := by
    intro x y hx hy; rw [hroot _ hx, hroot _ hy]
  by_cases hgt : a.number > b.number
  · obtain ⟨c, hc, hcl, hcr, hmax⟩ := lca_core ok sok hb ha (by omega) (hr _ _ hb ha)
    refine ⟨c, ?_, hcr, hcl, ?_⟩
    · have h1 : (nhOf a).1 > (nhOf b).1 := hgt
      simp only [lastCommonAncestor, if_pos h1]
      exact hc
    · intro c' ha' hb'
      apply Nat.le_of_not_lt
      intro hlt
      apply hmax c'.number hlt hb'.1
      rw [ha'.2, hb'.2]
  · obtain ⟨c, hc, hcl, hcr, hmax⟩ := lca_core ok sok ha hb (by omega) (hr _ _ ha hb)
    refine ⟨c, ?_, hcl, hcr, ?_⟩
    · have h1 : ¬ (nhOf a).1 > (nhOf b).1 := hgt
      simp only [lastCommonAncestor, if_neg h1]
      exact hc
    · intro c' ha' hb'
      apply Nat.le_of_not_lt
      intro hlt
      apply hmax c'.number hlt ha'.1
      rw [ha'.2, hb'.2]

/-- `BlockFetcher::update_last_common_header`: whatever the peer's previous last common header `x` was
(any known header: on our chain, on a branch we left, on a branch the peer left), the value written is
the latest common ancestor of `x` and the peer's best known header — in particular an ancestor of
BOTH; and with no previous value it is the latest common ancestor of our main-chain block at
`min(tip, best.number)` and the best known header. The function fails only when that main-chain
block does not exist. -/
theorem update_last_common_header_spec {store : Store} (ok : StoreOk store)
    {scan : Nat → Hdr → Option Hdr} (sok : ScanOk store scan) {g : Hdr} (hroot : Rooted store g)
    (mainHash : Nat → Option Nat) (tip : Nat) {b : Hdr} (hb : store b.id = some b) :
    (∀ x : Hdr, store x.id = some x →
      ∃ c, updateLastCommonValue (ancNH store scan) mainHash tip (some (nhOf x)) (nhOf b) = some (nhOf c) ∧
        IsAnc store c x ∧ IsAnc store c b ∧
        ∀ c', IsAnc store c' x → IsAnc store c' b → c'.number ≤ c.number) ∧
    (∀ m : Hdr, store m.id = some m → m.number = min tip b.number → mainHash m.number = some m.id →
      ∃ c, updateLastCommonValue (ancNH store scan) mainHash tip none (nhOf b) = some (nhOf c) ∧
        IsAnc store c m ∧ IsAnc store c b ∧
        ∀ c', IsAnc store c' m → IsAnc store c' b → c'.number ≤ c.number) := by
  constructor
  · intro x hx
    obtain ⟨c, hc, h1, h2, h3⟩ := last_common_ancestor_is_lca ok sok hroot hx hb
    exact ⟨c, by simpa [updateLastCommonValue] using hc, h1, h2, h3⟩
  · intro m hm hmn hmh
    obtain ⟨c, hc, h1, h2, h3⟩ := last_common_ancestor_is_lca ok sok hroot hm hb
    refine ⟨c, ?_, h1, h2, h3⟩
    have e : min tip (nhOf b).1 = m.number := hmn.symm
    simp only [updateLastCommonValue, e, hmh, Option.map_some, Option.bind_some]
    exact hc

/-- … so the peer's `last_common_header` stays on any ancestor-closed set of headers it was on (our main
chain, the stored blocks, the peer's own chain): it is always an ancestor of both chains. -/
theorem last_common_header_stays_on {store : Store} (P : Hdr → Prop)
    (hP : ∀ h p : Hdr, P h → store h.parent = some p → P p) {c x : Hdr}
    (hc : IsAnc store c x) (hx : P x) : P c := by
  have key : ∀ k (y t : Hdr), P y → walk store k y = some t → P t := by
    intro k
    induction k with
    | zero => intro y t hy hw; simp [walk] at hw; subst hw; exact hy
    | succ k ih =>
      intro y t hy hw
      simp only [walk] at hw
      cases hp : store y.parent with
      | none => rw [hp] at hw; cases hw
      | some p => rw [hp] at hw; exact ih p t (hP y p hy hp) hw
  exact key _ x c hx hc.2

/-- `Peers::may_set_best_known_header`: the total difficulty of a peer's best known header never goes
down, and a peer without state gets none. -/
theorem best_known_td_monotone (ps : PeersSt) (p : Nat) (hi : HIdx) :
    (ps.get p = none → (ps.maySetBestKnown p hi).get p = none) ∧
    ∀ st, ps.get p = some st →
      ∃ st', (ps.maySetBestKnown p hi).get p = some st' ∧ st'.lastCommon = st.lastCommon ∧
        ∃ bh, st'.best = some bh ∧ hi.td ≤ bh.td ∧ (∀ k, st.best = some k → k.td ≤ bh.td) ∧
          (bh = hi ∨ st.best = some bh) := by
  have get_cons : ∀ (e : Nat × PeerHdrs) (t : PeersSt),
      PeersSt.get (e :: t) p = if (e.1 == p) = true then some e.2 else PeersSt.get t p := by
    intro e t
    by_cases he : (e.1 == p) = true
    · simp [PeersSt.get, he]
    · simp [PeersSt.get, he]
  have hget : ∀ (l : PeersSt) (f : PeerHdrs → PeerHdrs),
      (PeersSt.modify l p f).get p = (l.get p).map f := by
    intro l f
    induction l with
    | nil => rfl
    | cons e t ih =>
      have hm : PeersSt.modify (e :: t) p f =
          (if (e.1 == p) = true then (e.1, f e.2) else e) :: PeersSt.modify t p f := rfl
      rw [hm, get_cons, get_cons]
      by_cases he : (e.1 == p) = true
      · simp [he]
      · simp [he, ih]
  constructor
  · intro h
    simp [PeersSt.maySetBestKnown, hget, h]
  · intro st hst
    simp only [PeersSt.maySetBestKnown, hget, hst, Option.map_some]
    cases hb : st.best with
    | none =>
      refine ⟨_, rfl, rfl, hi, rfl, Nat.le_refl _, ?_, Or.inl rfl⟩
      intro k hk; cases hk
    | some known =>
      by_cases hgt : hi.td > known.td
      · simp only [if_pos hgt]
        refine ⟨_, rfl, rfl, hi, rfl, Nat.le_refl _, ?_, Or.inl rfl⟩
        intro k hk; cases hk; omega
      · simp only [if_neg hgt]
        refine ⟨_, rfl, rfl, known, hb, by omega, ?_, Or.inr rfl⟩
        intro k hk; cases hk; omega

/-- what the theorems below assume about the node's view `numOnMain` / `blk` over the header tree -/
structure ViewOk (store : Store) (g : Hdr) (numOnMain : Nat → Option Nat) (blk : Nat → Option Hdr) : Prop where
  rooted : Rooted store g
  /-- the genesis block is on the main chain and its parent hash is no header -/
  gen_main : numOnMain g.id = some 0
  gen_parent : store g.parent = none
  /-- stored block headers are known headers -/
  blk_sub : ∀ id h, blk id = some h → store id = some h

/-- the loop of `locate_latest_common_block` from the parent of a known header `x`: it answers either
the fall-back `latest`, or the number of a main-chain block that is an ancestor of `x`. -/
theorem locateWalk_sound {store : Store} (ok : StoreOk store) {g : Hdr} {numOnMain : Nat → Option Nat}
    {blk : Nat → Option Hdr} (v : ViewOk store g numOnMain blk) (latest : Nat) (fuel : Nat) :
    ∀ x : Hdr, store x.id = some x →
      locateWalk numOnMain blk latest fuel x.parent = latest ∨
      ∃ t, numOnMain t.id = some (locateWalk numOnMain blk latest fuel x.parent) ∧ IsAnc store t x := by
  induction fuel with
  | zero => intro x _; left; rfl
  | succ f ih =>
    intro x hx
    unfold locateWalk
    cases hb : blk x.parent with
    | none => left; rfl
    | some hd =>
      have hs := v.blk_sub _ _ hb
      have hpos : 0 < x.number := by
        apply Nat.pos_of_ne_zero
        intro h0
        have hw := v.rooted x hx
        rw [h0] at hw
        simp [walk] at hw
        subst hw
        rw [v.gen_parent] at hs
        cases hs
      obtain ⟨p, hp1, hpn, hps, _⟩ := walk_one ok hx hpos
      have hpd : p = hd := by
        simp only [walk, Option.bind_eq_some_iff] at hp1
        obtain ⟨q, hq, hq2⟩ := hp1
        rw [hs] at hq
        cases hq
        simpa using hq2.symm
      subst hpd
      have hid : p.id = x.parent := ok.id_ok _ _ hs
      have hanc : IsAnc store p x := ⟨by omega, by
        have : x.number - p.number = 1 := by omega
        rw [this]; exact hp1⟩
      cases hm : numOnMain x.parent with
      | some n =>
        right
        exact ⟨p, by rw [hid]; exact hm, hanc⟩
      | none =>
        simp only
        rcases ih p hps with h | ⟨t, ht, hta⟩
        · left; exact h
        · right; exact ⟨t, ht, isAnc_trans hta hanc⟩

/-- `locate_latest_common_block` on a locator all of whose entries are ancestors of the sender's start
header `h` (what `locator_eq_walk` shows of `get_locator`) and that ends in genesis: the answer exists
and is the number of a COMMON block — on our main chain and an ancestor of `h`. -/
theorem locate_latest_common_block_common {store : Store} (ok : StoreOk store) {g : Hdr}
    {numOnMain : Nat → Option Nat} {blk : Nat → Option Hdr} (v : ViewOk store g numOnMain blk)
    {h : Hdr} (L : List Nat)
    (hL : ∀ e ∈ L, ∃ he, store e = some he ∧ IsAnc store he h)
    (hlast : L.getLast? = some g.id) :
    ∃ n c, locateLatestCommonBlock numOnMain blk g.id L = some n ∧
      numOnMain c.id = some n ∧ IsAnc store c h := by
  have hgmem : g.id ∈ L := List.mem_of_getLast? hlast
  obtain ⟨⟨index, n0⟩, hf⟩ := firstOnMain_some numOnMain L 0 g.id 0 hgmem v.gen_main
  obtain ⟨_, e, he, hen, _⟩ := firstOnMain_spec numOnMain L 0 index n0 hf
  obtain ⟨hde, hdes, hdea⟩ := hL e (List.mem_of_getElem? he)
  have hide : hde.id = e := ok.id_ok _ _ hdes
  have base : numOnMain hde.id = some n0 := by rw [hide]; exact hen
  simp only [locateLatestCommonBlock, hlast, bne_self_eq_false, Bool.false_eq_true, if_false, hf]
  split
  · exact ⟨n0, hde, rfl, base, hdea⟩
  · split
    · rename_i header hh
      obtain ⟨x, hx, hxb⟩ := Option.bind_eq_some_iff.mp hh
      obtain ⟨hdx, hdxs, hdxa⟩ := hL x (List.mem_of_getElem? hx)
      have hxs := v.blk_sub _ _ hxb
      rw [hdxs] at hxs
      have hEq : hdx = header := Option.some.inj hxs
      subst hEq
      have hidx : hdx.id = x := ok.id_ok _ _ hdxs
      rcases locateWalk_sound ok v n0 (hdx.number + 1) hdx (by rw [hidx]; exact hdxs) with h1 | ⟨t, ht, hta⟩
      · exact ⟨_, hde, rfl, by rw [h1]; exact base, hdea⟩
      · exact ⟨_, t, rfl, ht, isAnc_trans hta hdxa⟩
    · exact ⟨n0, hde, rfl, base, hdea⟩

/-- the loop of `locate_latest_common_block` when the sender's branch is known to us (every ancestor of
its start `h` is a stored block): from a branch block `x` that is not on the main chain it answers the
number of the HIGHEST main-chain ancestor of `x` — the fuel of the model never being the reason to stop. -/
theorem locateWalk_exact {store : Store} (ok : StoreOk store) {g : Hdr} {numOnMain : Nat → Option Nat}
    {blk : Nat → Option Hdr} (v : ViewOk store g numOnMain blk) {h : Hdr}
    (hstored : ∀ x, IsAnc store x h → blk x.id = some x)
    (hnum : ∀ x n, store x.id = some x → numOnMain x.id = some n → n = x.number)
    (latest : Nat) (fuel : Nat) :
    ∀ x : Hdr, store x.id = some x → IsAnc store x h → numOnMain x.id = none → x.number ≤ fuel →
      ∃ t, IsAnc store t x ∧ numOnMain t.id = some (locateWalk numOnMain blk latest fuel x.parent) ∧
        ∀ c', IsAnc store c' x → numOnMain c'.id ≠ none → c'.number ≤ t.number := by
  have notgen : ∀ x : Hdr, store x.id = some x → numOnMain x.id = none → 0 < x.number := by
    intro x hx hn
    apply Nat.pos_of_ne_zero
    intro h0
    have hw := v.rooted x hx
    rw [h0] at hw
    simp [walk] at hw
    subst hw
    rw [v.gen_main] at hn
    cases hn
  induction fuel with
  | zero =>
    intro x hx _ hn hle
    have := notgen x hx hn
    omega
  | succ f ih =>
    intro x hx hxa hn hle
    have hpos := notgen x hx hn
    obtain ⟨p, hp1, hpn, hps, _⟩ := walk_one ok hx hpos
    have hanc : IsAnc store p x := ⟨by omega, by
      have : x.number - p.number = 1 := by omega
      rw [this]; exact hp1⟩
    have hpid : p.id = x.parent := by
      simp only [walk, Option.bind_eq_some_iff] at hp1
      obtain ⟨q, hq, hq2⟩ := hp1
      have hqp : q = p := by simpa using hq2
      subst hqp
      exact ok.id_ok _ _ hq
    have hpb : blk x.parent = some p := by
      rw [← hpid]; exact hstored p (isAnc_trans hanc hxa)
    have below : ∀ c', IsAnc store c' x → numOnMain c'.id ≠ none → c'.number ≤ p.number := by
      intro c' hc' hm
      have h1 := hc'.1
      by_cases he : c'.number = x.number
      · have : c' = x := isAnc_unique hc' (isAnc_refl _ _) he
        subst this
        exact absurd hn hm
      · omega
    unfold locateWalk
    rw [hpb]
    cases hm : numOnMain x.parent with
    | some n =>
      have hnp : n = p.number := hnum p n hps (by rw [hpid]; exact hm)
      refine ⟨p, hanc, by rw [hpid]; exact hm, below⟩
    | none =>
      simp only
      obtain ⟨t, hta, htn, htmax⟩ := ih p hps (isAnc_trans hanc hxa) (by rw [hpid]; exact hm) (by omega)
      refine ⟨t, isAnc_trans hta hanc, htn, ?_⟩
      intro c' hc' hmc
      exact htmax c' (isAnc_of_le hc' hanc (below c' hc' hmc)) hmc

/-- Round trip `get_locator` → `locate_latest_common_block`, exactness: for a locator of start header `h`
(first entry `h`, every entry an ancestor of `h`, last entry genesis) received by a node that knows
`h`'s branch (its blocks are stored) and whose main chain is closed under parents, the answer is the
number of the TRUE latest common block — the highest main-chain ancestor of `h` — whenever the first
locator entry on the main chain is `h` itself or is not genesis (when it is genesis the code answers 0
without looking further: the resolution limit of the locator, see the negative example below). -/
theorem locate_latest_common_block_exact {store : Store} (ok : StoreOk store) {g : Hdr}
    {numOnMain : Nat → Option Nat} {blk : Nat → Option Hdr} (v : ViewOk store g numOnMain blk)
    {h : Hdr} (hs : store h.id = some h)
    (hstored : ∀ x, IsAnc store x h → blk x.id = some x)
    (hnum : ∀ x n, store x.id = some x → numOnMain x.id = some n → n = x.number)
    (hclosed : ∀ x c, store x.id = some x → numOnMain x.id ≠ none → IsAnc store c x → numOnMain c.id ≠ none)
    (L : List Nat) (hL : ∀ e ∈ L, ∃ he, store e = some he ∧ IsAnc store he h)
    (hhead : L[0]? = some h.id) (hlast : L.getLast? = some g.id)
    {index n0 : Nat} (hf : firstOnMain numOnMain L 0 = some (index, n0)) (hres : index = 0 ∨ n0 ≠ 0) :
    ∃ n c, locateLatestCommonBlock numOnMain blk g.id L = some n ∧
      numOnMain c.id = some n ∧ IsAnc store c h ∧
      ∀ c', IsAnc store c' h → numOnMain c'.id ≠ none → c'.number ≤ n := by
  obtain ⟨_, e, he, hen, hbefore⟩ := firstOnMain_spec numOnMain L 0 index n0 hf
  simp only [Nat.sub_zero] at he hbefore
  simp only [locateLatestCommonBlock, hlast, bne_self_eq_false, Bool.false_eq_true, if_false, hf]
  by_cases hi0 : index = 0
  · subst hi0
    rw [hhead] at he
    have hee : h.id = e := Option.some.inj he
    have hn0 : n0 = h.number := hnum h n0 hs (by rw [hee]; exact hen)
    simp only [BEq.rfl, Bool.true_or, if_true]
    refine ⟨n0, h, rfl, by rw [hee]; exact hen, isAnc_refl _ _, ?_⟩
    intro c' hc' _
    rw [hn0]; exact hc'.1
  · have hn0 : n0 ≠ 0 := by rcases hres with h | h; exact absurd h hi0; exact h
    have hcond : (index == 0 || n0 == 0) = false := by simp [hi0, hn0]
    simp only [hcond, Bool.false_eq_true, if_false]
    have hlen : index < L.length := by
      rcases Nat.lt_or_ge index L.length with h | h
      · exact h
      · rw [List.getElem?_eq_none h] at he; cases he
    have hx : L[index - 1]? = some (L[index - 1]'(by omega)) := List.getElem?_eq_getElem (by omega)
    obtain ⟨hdx, hdxs, hdxa⟩ := hL _ (List.mem_of_getElem? hx)
    have hidx : hdx.id = L[index - 1]'(by omega) := ok.id_ok _ _ hdxs
    have hxm : numOnMain hdx.id = none := by
      rw [hidx]; exact hbefore (index - 1) (by omega) _ hx
    have hxb : blk (L[index - 1]'(by omega)) = some hdx := by
      rw [← hidx]; exact hstored hdx hdxa
    have hdxs' : store hdx.id = some hdx := by rw [hidx]; exact hdxs
    rw [hx]
    simp only [Option.bind_some, hxb]
    obtain ⟨t, hta, htn, htmax⟩ :=
      locateWalk_exact ok v hstored hnum n0 (hdx.number + 1) hdx hdxs' hdxa hxm (by omega)
    have hth : IsAnc store t h := isAnc_trans hta hdxa
    have hts : store t.id = some t := isAnc_stored ok hs hth
    have hnt := hnum t _ hts htn
    refine ⟨_, t, rfl, htn, hth, ?_⟩
    intro c' hc' hmc
    rw [hnt]
    by_cases hge : hdx.number ≤ c'.number
    · have : IsAnc store hdx c' := isAnc_of_le hdxa hc' hge
      exact absurd hxm (hclosed c' hdx (isAnc_stored ok hs hc') hmc this)
    · exact htmax c' (isAnc_of_le hc' hdxa (by omega)) hmc

theorem walkId_anc {store : Store} (ok : StoreOk store) {start : Hdr} (hs : store start.id = some start)
    {i x : Nat} (h : walkId store start i = some x) :
    ∃ t, store x = some t ∧ IsAnc store t start ∧ t.number = i := by
  unfold walkId at h
  split at h
  · rename_i hi
    obtain ⟨t, ht, htn, hts⟩ := walk_ok ok (start.number - i) start hs (by omega)
    rw [ht] at h
    have hx : t.id = x := by simpa using h
    subst hx
    exact ⟨t, hts, ⟨by omega, by have : start.number - t.number = start.number - i := by omega
                                 rw [this]; exact ht⟩, by omega⟩
  · cases h

/-- What `get_locator` returns for a known start header (any tree, any main chain): every entry is an
ancestor of the start, the first entry is the start itself, the last entry is genesis — the three
hypotheses of the `locate_latest_common_block` theorems. -/
theorem get_locator_props {store : Store} (ok : StoreOk store) {scan : Nat → Hdr → Option Hdr}
    (sok : ScanOk store scan) {g : Hdr} (hroot : Rooted store g) {start : Hdr}
    (hs : store start.id = some start) {L : List Nat}
    (hL : getLocator (ancOf store scan) g.id start.number start.id = some L) :
    (∀ e ∈ L, ∃ he, store e = some he ∧ IsAnc store he start) ∧ L[0]? = some start.id ∧
      L.getLast? = some g.id := by
  rw [locator_eq_walk ok sok hs] at hL
  unfold getLocator at hL
  obtain ⟨⟨l, f⟩, hloop, hmap⟩ := Option.map_eq_some_iff.mp hL
  simp only at hmap
  -- genesis is an ancestor of the start
  obtain ⟨t, ht, htn, hts⟩ := walk_ok ok start.number start hs (Nat.le_refl _)
  have hg := hroot start hs
  rw [hg] at ht
  cases ht
  have hganc : IsAnc store g start := ⟨by omega, by
    have : start.number - g.number = start.number := by omega
    rw [this]; exact hg⟩
  obtain ⟨_, hmem⟩ := locatorLoop_entries (walkId store start) _ _ _ _ _ _ _ hloop
  obtain ⟨hh, rest, hA, hl⟩ := locatorLoop_head (walkId store start) _ _ _ _ _ _ _ hloop
  have hhead : hh = start.id := by
    have : walkId store start start.number = some start.id := by simp [walkId, walk]
    rw [this] at hA; exact (Option.some.inj hA).symm
  have hlmem : ∀ e ∈ l, ∃ he, store e = some he ∧ IsAnc store he start := by
    intro e he
    rcases hmem e he with h | ⟨i, _, hi⟩
    · cases h
    · obtain ⟨t, h1, h2, _⟩ := walkId_anc ok hs hi
      exact ⟨t, h1, h2⟩
  have hl0 : l[0]? = some start.id := by rw [hl, hhead]; simp
  cases f with
  | true =>
    simp only [if_true] at hmap
    subst hmap
    refine ⟨?_, ?_, by simp⟩
    · intro e he
      rcases List.mem_append.mp he with h | h
      · exact hlmem e h
      · have : e = g.id := by simpa using h
        subst this
        exact ⟨g, hts, hganc⟩
    · rw [hl, hhead]; simp
  | false =>
    simp only [Bool.false_eq_true, if_false] at hmap
    subst hmap
    refine ⟨hlmem, hl0, ?_⟩
    obtain ⟨x, hx0, hlast⟩ := locatorLoop_last (walkId store start) _ _ _ _ _ _ (Nat.le_refl 1)
      (Nat.lt_succ_self _) hloop
    have : walkId store start 0 = some g.id := by simp [walkId, hg]
    rw [this] at hx0
    rw [hlast, ← Option.some.inj hx0]

/-- Round trip, soundness: whatever start header a peer takes its locator from and whatever our main
chain is, `locate_latest_common_block(get_locator(start))` exists and is the number of a block that is on
our main chain AND an ancestor of the peer's start header. -/
theorem locator_round_trip_common {store : Store} (ok : StoreOk store) {scan : Nat → Hdr → Option Hdr}
    (sok : ScanOk store scan) {g : Hdr} {numOnMain : Nat → Option Nat} {blk : Nat → Option Hdr}
    (v : ViewOk store g numOnMain blk) {start : Hdr} (hs : store start.id = some start) {L : List Nat}
    (hL : getLocator (ancOf store scan) g.id start.number start.id = some L) :
    ∃ n c, locateLatestCommonBlock numOnMain blk g.id L = some n ∧
      numOnMain c.id = some n ∧ IsAnc store c start := by
  obtain ⟨h1, _, h3⟩ := get_locator_props ok sok v.rooted hs hL
  exact locate_latest_common_block_common ok v L h1 h3

/-- Round trip, exactness: if moreover the start header's branch is stored with us and our main chain is
parent-closed, the located block is the TRUE latest common block (no main-chain ancestor of the start
is higher), provided the first locator entry on our main chain is the start itself or is not genesis. -/
theorem locator_round_trip_exact {store : Store} (ok : StoreOk store) {scan : Nat → Hdr → Option Hdr}
    (sok : ScanOk store scan) {g : Hdr} {numOnMain : Nat → Option Nat} {blk : Nat → Option Hdr}
    (v : ViewOk store g numOnMain blk) {start : Hdr} (hs : store start.id = some start)
    (hstored : ∀ x, IsAnc store x start → blk x.id = some x)
    (hnum : ∀ x n, store x.id = some x → numOnMain x.id = some n → n = x.number)
    (hclosed : ∀ x c, store x.id = some x → numOnMain x.id ≠ none → IsAnc store c x → numOnMain c.id ≠ none)
    {L : List Nat} (hL : getLocator (ancOf store scan) g.id start.number start.id = some L)
    {index n0 : Nat} (hf : firstOnMain numOnMain L 0 = some (index, n0)) (hres : index = 0 ∨ n0 ≠ 0) :
    ∃ n c, locateLatestCommonBlock numOnMain blk g.id L = some n ∧
      numOnMain c.id = some n ∧ IsAnc store c start ∧
      ∀ c', IsAnc store c' start → numOnMain c'.id ≠ none → c'.number ≤ n := by
  obtain ⟨h1, h2, h3⟩ := get_locator_props ok sok v.rooted hs hL
  exact locate_latest_common_block_exact ok v hs hstored hnum hclosed L h1 h2 h3 hf hres

/-- non-vacuity, on `exStore` (main chain 0..20, stored fork 21,22,23 = numbers 11',12',13' off block 10):
the latest common ancestor of the fork tip and the main tip is block 10, from either side; the fork tip's
locator is located at 10 by a node whose main chain is 0..20; and the resolution limit: a main chain of
100 blocks with a stored fork off block 1 — the locator of the fork's header 99' has genesis as its first
main-chain entry and the code answers 0, not 1. -/
def exNumOnMain : Nat → Option Nat := fun i => if i ≤ 20 then some i else none

example : lastCommonAncestor (ancNH exStore (fun _ _ => none)) (13, 23) (20, 20) = some (10, 10) ∧
    lastCommonAncestor (ancNH exStore (fun _ _ => none)) (20, 20) (13, 23) = some (10, 10) ∧
    lastCommonAncestor (ancNH exStore (fun _ _ => none)) (12, 22) (12, 12) = some (10, 10) ∧
    lastCommonAncestor (ancNH exStore (fun _ _ => none)) (7, 7) (13, 23) = some (7, 7) := by decide
example : updateLastCommonValue (ancNH exStore (fun _ _ => none)) (fun n => if n ≤ 20 then some n else none) 20
      none (13, 23) = some (10, 10) ∧
    updateLastCommonValue (ancNH exStore (fun _ _ => none)) (fun n => if n ≤ 20 then some n else none) 20
      (some (15, 15)) (13, 23) = some (10, 10) := by decide
example : locateLatestCommonBlock exNumOnMain exStore 0 [23, 22, 21, 10, 9, 8, 7, 6, 5, 4, 2, 0] = some 10 ∧
    locateLatestCommonBlock exNumOnMain exStore 0 [23, 21, 9, 0] = some 10 ∧
    locateLatestCommonBlock exNumOnMain (fun i => if i ≤ 20 then exStore i else none) 0 [23, 21, 9, 0] = some 9 ∧
    locateLatestCommonBlock exNumOnMain exStore 0 [23, 22] = none ∧
    locateLatestCommonBlock exNumOnMain exStore 0 [] = none := by decide
/-- ids 0..100 main chain; 101.. = fork headers 2',3',… off block 1 (id 100 + k = number k + 1) -/
def exFar : Store := fun i =>
  if i ≤ 100 then some ⟨i, i, i - 1, none⟩
  else if i ≤ 198 then some ⟨i, i - 99, if i = 101 then 1 else i - 1, none⟩ else none
example : locateLatestCommonBlock (fun i => if i ≤ 100 then some i else none) exFar 0
    [198, 197, 196, 195, 194, 193, 192, 191, 190, 189, 187, 183, 175, 159, 127, 0] = some 0 ∧
    locateLatestCommonBlock (fun i => if i ≤ 100 then some i else none) exFar 0
    [198, 197, 196, 195, 194, 193, 192, 191, 190, 189, 187, 183, 175, 159, 127, 1, 0] = some 1 := by decide

theorem locateWalk_on_main (numOnMain : Nat → Option Nat) (blk : Nat → Option Hdr) (latest fuel : Nat) :
    ∀ h, locateWalk numOnMain blk latest fuel h = latest ∨
      ∃ id, numOnMain id = some (locateWalk numOnMain blk latest fuel h) := by
  induction fuel with
  | zero => intro h; left; rfl
  | succ f ih =>
    intro h
    unfold locateWalk
    cases blk h with
    | none => left; rfl
    | some hd =>
      cases hm : numOnMain h with
      | some n => right; exact ⟨h, hm⟩
      | none => exact ih hd.parent

/-- `locate_latest_common_block` on ANY list a peer may send (unknown hashes, any order, repetitions):
it answers exactly when the list is non-empty and ends in the genesis hash — the `expect("locator last
checked")` cannot fire when genesis is on the main chain — and the answer is always the number of a
block of our main chain. -/
theorem locate_any_list (numOnMain : Nat → Option Nat) (blk : Nat → Option Hdr) (genesis : Nat)
    (hg : numOnMain genesis = some 0) (L : List Nat) :
    ((locateLatestCommonBlock numOnMain blk genesis L).isSome ↔ L.getLast? = some genesis) ∧
    ∀ n, locateLatestCommonBlock numOnMain blk genesis L = some n → ∃ id, numOnMain id = some n := by
  unfold locateLatestCommonBlock
  cases hlast : L.getLast? with
  | none => simp
  | some last =>
    simp only
    by_cases hne : last = genesis
    · subst hne
      simp only [bne_self_eq_false, Bool.false_eq_true, if_false]
      obtain ⟨⟨index, n0⟩, hf⟩ := firstOnMain_some numOnMain L 0 last 0 (List.mem_of_getLast? hlast) hg
      obtain ⟨_, e, _, hen, _⟩ := firstOnMain_spec numOnMain L 0 index n0 hf
      rw [hf]
      simp only
      split
      · exact ⟨by simp, fun n hn => ⟨e, by cases hn; exact hen⟩⟩
      · split
        · rename_i header _
          refine ⟨by simp, fun n hn => ?_⟩
          cases hn
          rcases locateWalk_on_main numOnMain blk n0 (header.number + 1) header.parent with h | h
          · rw [h]; exact ⟨e, hen⟩
          · exact h
        · exact ⟨by simp, fun n hn => ⟨e, by cases hn; exact hen⟩⟩
    · have : (last != genesis) = true := by simpa using hne
      simp [this, hne]

/-- Frame: the four writers of the peers' header bookkeeping touch the named peer only — every other
peer's best known header and last common header stay as they were. -/
theorem peers_ops_frame (ps : PeersSt) (p q : Nat) (hq : q ≠ p) :
    (ps.connected p).get q = ps.get q ∧ (ps.disconnected p).get q = ps.get q ∧
    (∀ hi, (ps.maySetBestKnown p hi).get q = ps.get q) ∧
    (∀ x, (ps.setLastCommon p x).get q = ps.get q) := by
  have hmod : ∀ (l : PeersSt) (f : PeerHdrs → PeerHdrs), (PeersSt.modify l p f).get q = l.get q := by
    intro l f
    induction l with
    | nil => rfl
    | cons e t ih =>
      simp only [PeersSt.modify, PeersSt.get, List.map_cons, List.find?_cons] at ih ⊢
      by_cases he : e.1 = p
      · have h1 : (e.1 == p) = true := by simpa using he
        have h2 : (e.1 == q) = false := by simp [he]; omega
        simp only [h1, if_true, h2]
        exact ih
      · have h1 : (e.1 == p) = false := by simpa using he
        simp only [h1, Bool.false_eq_true, if_false]
        cases (e.1 == q)
        · exact ih
        · rfl
  refine ⟨?_, ?_, fun hi => hmod _ _, fun x => hmod _ _⟩
  · unfold PeersSt.connected
    split
    · rfl
    · simp only [PeersSt.get, List.find?_append]
      cases List.find? (fun e => e.1 == q) ps with
      | some e => rfl
      | none =>
        have : (p == q) = false := by simp; omega
        simp [this]
  · unfold PeersSt.disconnected PeersSt.get
    congr 1
    induction ps with
    | nil => rfl
    | cons e t ih =>
      by_cases he : e.1 = p
      · have h1 : (e.1 != p) = false := by simp [he]
        have h2 : (e.1 == q) = false := by simp [he]; omega
        simp only [List.filter_cons, h1, Bool.false_eq_true, if_false, List.find?_cons, h2]
        exact ih
      · have h1 : (e.1 != p) = true := by simpa using he
        simp only [List.filter_cons, h1, if_true, List.find?_cons]
        cases (e.1 == q)
        · exact ih
        · rfl

end Locate

section HeaderMap
open CkbVerif.HeaderMap

/-- For any operation sequence with `limit_memory` steps anywhere, and any memory limit, the
two-tier map answers `get` / `contains_key` exactly like a plain map (`insert`'s return value,
which no caller reads, reports memory-tier presence and is not an answer). -/
theorem refines_plain_map (ops : List Op) : ∀ (s : HM), HeaderMap.Inv s →
    run s ops = specRun (abs s) ops := by
  induction ops with
  | nil => intro s _; rfl
  | cons op ops ih =>
    intro s h
    obtain ⟨a1, a2, a3⟩ := step_refines h op
    simp only [run, specRun]
    rw [a1, ih _ a3, a2]

/-- … in particular from the empty map, whatever the limit. -/
theorem refines_plain_map_from_empty (limit : Nat) (ops : List Op) :
    run { limit := limit } ops = specRun (fun _ => none) ops := by
  have : abs { limit := limit } = fun _ => none := by
    funext k; simp [abs, lk, orE]
  rw [← this]
  exact refines_plain_map ops _ List.nodup_nil

/-- non-vacuity: overwrite after a spill, read back through the backend, remove from both tiers -/
example : run { limit := 1 }
    [.insert 1 10, .insert 2 20, .insert 3 30, .spill, .insert 1 11, .get 2, .spill, .get 1,
     .remove 1, .contains 1, .get 3] =
    [.unit, .unit, .unit, .unit, .unit, .val (some 20), .unit, .val (some 11), .unit, .bool false,
     .val (some 30)] := by decide

end HeaderMap

/-! ## Block fetcher: window arithmetic and its own last-common writes -/
section Fetch
open CkbVerif.Skip CkbVerif.Fetch CkbVerif.Inflight CkbVerif.Gen.Sync

/-- One span of the scan: at most one header is taken per step; the peers change at most by ONE
`set_last_common_header`, and then to a header that is stored and valid and is reached from the span's
top header by parent links (an ancestor of the peer's best known header when the top is one). -/
theorem scanSpan_spec (e : Env) (peer bestN : Nat) : ∀ (k : Nat) (header : Hdr) (st : St),
    ((scanSpan e peer bestN k header st).2.2.1.length ≤ st.2.1.length + k) ∧
    (st.2.1.length ≤ (scanSpan e peer bestN k header st).2.2.1.length) ∧
    ((scanSpan e peer bestN k header st).2.2.2.1 = st.2.2.1 ∨
      ∃ j t, j < k ∧ walk e.hdr j header = some t ∧ e.stored t.id = true ∧ e.valid t.id = true ∧
        (scanSpan e peer bestN k header st).2.2.2.1 = st.2.2.1.setLastCommon peer (t.number, t.id)) := by
  intro k
  induction k with
  | zero => intro header st; simp [scanSpan]
  | succ k ih =>
    intro header st
    obtain ⟨infl, fetched, ps, endN⟩ := st
    unfold scanSpan
    by_cases hs : e.stored header.id = true
    · simp only [hs, if_true]
      refine ⟨by simp, by simp, ?_⟩
      by_cases hv : e.valid header.id = true
      · right
        exact ⟨0, header, by omega, by simp [walk], hs, hv, by simp [hv]⟩
      · left; simp [hv]
    · simp only [hs, Bool.false_eq_true, if_false]
      cases hp : e.hdr header.parent with
      | none =>
        simp only
        refine ⟨?_, ?_, by first | exact Or.inl rfl | simp⟩
        · split
          · simp
          · split <;> simp <;> omega
        · split
          · simp
          · split <;> simp
      | some p =>
        simp only
        generalize hr : (if e.received header.id = true then (infl, fetched)
          else if (Inflight.insert infl e.now peer ⟨header.number, header.id⟩).2 = true then
            ((Inflight.insert infl e.now peer ⟨header.number, header.id⟩).1, fetched ++ [header])
          else ((Inflight.insert infl e.now peer ⟨header.number, header.id⟩).1, fetched)) = r
        have hlen : fetched.length ≤ r.2.length ∧ r.2.length ≤ fetched.length + 1 := by
          rw [← hr]
          split
          · simp
          · split <;> simp
        obtain ⟨i1, i2, i3⟩ := ih p (r.1, r.2, ps, endN)
        refine ⟨by simp only at i1 ⊢; omega, by simp only at i2 ⊢; omega, ?_⟩
        rcases i3 with h | ⟨j, t, hj, hw, h1, h2, h3⟩
        · left; exact h
        · right
          exact ⟨j + 1, t, by omega, by simp [walk, hp, hw], h1, h2, h3⟩

/-- The window arithmetic: the loop never collects more than `n_fetch` headers. -/
theorem fetchLoop_count (e : Env) (peer : Nat) (best : NH) (nFetch : Nat) : ∀ (fuel start : Nat) (st : St),
    st.2.1.length ≤ nFetch → (fetchLoop e peer best nFetch fuel start st).2.2.1.length ≤ nFetch := by
  intro fuel
  induction fuel with
  | zero => intro start st h; simpa [fetchLoop] using h
  | succ fuel ih =>
    intro start st h
    obtain ⟨infl, fetched, ps, endN⟩ := st
    unfold fetchLoop
    simp only []
    split
    · have hmin : min (endN - start + 1) (nFetch - fetched.length) ≤ nFetch - fetched.length := Nat.min_le_right _ _
      generalize min (endN - start + 1) (nFetch - fetched.length) = span at hmin
      cases ha : e.anc best.2 (start + span - 1) with
      | none => simpa using h
      | some header =>
        simp only
        have hsp := (scanSpan_spec e peer best.1 span header (infl, fetched, ps, endN)).1
        simp only at hsp h
        have hb : (scanSpan e peer best.1 span header (infl, fetched, ps, endN)).2.2.1.length ≤ nFetch := by omega
        generalize scanSpan e peer best.1 span header (infl, fetched, ps, endN) = r at hb
        obtain ⟨ok, st'⟩ := r
        cases ok
        · simpa using hb
        · exact ih _ st' hb
    · simpa using h

/-- … so `fetch` never asks a peer for more than its scheduler allows (`peer_can_fetch_count`, read before
the scan) nor for more than the window `start ..= end` holds: `n_fetch = min(end - start + 1, can_fetch)`. -/
theorem fetch_window_bound (e : Env) (peer : Nat) (best : NH) (fuel start endN : Nat) (infl : Inflight)
    (ps : PeersSt) :
    (fetchLoop e peer best (min (endN - start + 1) (peerCanFetch infl peer)) fuel start
        (infl, [], ps, endN)).2.2.1.length ≤ peerCanFetch infl peer ∧
    (fetchLoop e peer best (min (endN - start + 1) (peerCanFetch infl peer)) fuel start
        (infl, [], ps, endN)).2.2.1.length ≤ endN - start + 1 := by
  have h := fetchLoop_count e peer best (min (endN - start + 1) (peerCanFetch infl peer)) fuel start
    (infl, [], ps, endN) (Nat.zero_le _)
  exact ⟨Nat.le_trans h (Nat.min_le_right _ _), Nat.le_trans h (Nat.min_le_left _ _)⟩

/-- Witness of the candidate finding "fetch forgets `fetch_end` once the scan meets a stored block": our
chain is 0..2 (stored, valid), the peer's best known header 5 sits on the header-only chain 3,4,5 above
it, its last common header is block 1, and `fetch_end = 2` (so `end = 2`, `n_fetch = 1`). The first span
meets the stored block 2, the code recomputes `end = min(best.number, 2 + BLOCK_DOWNLOAD_WINDOW) = 5`
without `fetch_end`, and the next span requests header 3 — above `fetch_end`. -/
def exFetchEnv : Env :=
  { anc := fun base n => if base = 5 ∧ n ≤ 5 then some ⟨n, n, n - 1, none⟩ else none,
    hdr := fun i => if i ≤ 5 then some ⟨i, i, i - 1, none⟩ else none,
    stored := fun i => decide (i ≤ 2), valid := fun i => decide (i ≤ 2), received := fun _ => false,
    numOnMain := fun i => if i ≤ 2 then some i else none, mainHash := fun n => if n ≤ 2 then some n else none,
    tipNumber := 2, unverifiedTip := 2, totalDifficulty := 6, ibd := false, now := 0 }

theorem fetch_overruns_fetch_end :
    let r := fetchLoop exFetchEnv 7 (5, 5) 1 7 2 ({}, [], [(7, { best := some ⟨5, 5, 12⟩, lastCommon := some (1, 1) })], 2)
    r.1 = true ∧ r.2.2.1.map (·.number) = [3] ∧ r.2.2.2.2 = 5 ∧
      (r.2.2.2.1.get 7).bind (·.lastCommon) = some (2, 2) := by decide

/-- (1) What `fetch` requests, for EVERY consistent in-flight table, peers state and node view: when it
answers `Some(chunks)`, the chunks concatenate to the requested headers `new` sorted by number; each
requested header is unstored, unreceived, was NOT in flight before (from any peer) and is reached by
parent links from an ancestor-lookup of the peer's best known header; there are at most
`peer_can_fetch_count` of them; afterwards `inflight_states` is exactly the old map plus one entry per
requested header, from exactly this peer — nothing else of the map changes —, the table is still
consistent (no block in flight from two peers, peer lists = states) and `restart_number`, the analyzer
and the policy fields are untouched. -/
theorem fetch_requests_spec (e : Env) {infl : Inflight} (hinv : Inflight.Inv infl) (ps : PeersSt)
    (peer fetchEnd : Nat) {cs : List (List Nat)} {infl' : Inflight} {ps' : PeersSt}
    (h : fetch e infl ps peer fetchEnd = (some cs, infl', ps')) :
    ∃ bk new, (ps.get peer).bind (·.best) = some bk ∧
      cs.flatten = (sortFetched new).map (·.id) ∧ (sortFetched new).Perm new ∧
      (sortFetched new).Pairwise (fun a b => a.number ≤ b.number) ∧
      new.length ≤ peerCanFetch infl peer ∧
      (∀ x ∈ new, e.stored x.id = false ∧ e.received x.id = false ∧ hasState infl ⟨x.number, x.id⟩ = false ∧
        ∃ n top j, e.anc bk.hash n = some top ∧ walk e.hdr j top = some x) ∧
      infl'.states = new.reverse.map (reqEntry e peer) ++ infl.states ∧
      Inflight.Inv infl' ∧ FrameEq infl' infl := by
  obtain ⟨bk, ps1, lc, infl2, fetched, endN2, hbk, _, _, _, _, hloop, hcs, hinfl⟩ :=
    fetch_some_inv e infl ps peer fetchEnd cs infl' ps' h
  obtain ⟨new, r1, r2, r3, r4, r5⟩ := fetchLoop_requests e peer (bk.number, bk.hash)
    (min (fetchEndN e lc bk fetchEnd - fetchStart e lc + 1) (peerCanFetch infl peer)) (bk.number + 2)
    (fetchStart e lc) infl [] ps1 (fetchEndN e lc bk fetchEnd) hinv
  have hcount := (fetch_window_bound e peer (bk.number, bk.hash) (bk.number + 2) (fetchStart e lc)
    (fetchEndN e lc bk fetchEnd) infl ps1).1
  rw [hloop] at r1 r2 r3 r4 hcount
  simp only [List.nil_append] at r1 r2 r3 r4 hcount
  subst r1
  have hstates : infl'.states = infl2.states ∧ Inflight.Inv infl' ∧ FrameEq infl' infl2 := by
    rw [hinfl]
    split
    · exact ⟨(markSlow_states _ _ _).1, Inflight.Inv.markSlow r3 _ _, (markSlow_states _ _ _).2.1⟩
    · exact ⟨rfl, r3, FrameEq.rfl' _⟩
  have hnodup := r3.statesNodup
  rw [r2, List.map_append, List.nodup_append] at hnodup
  refine ⟨bk, fetched, hbk, ?_, List.mergeSort_perm _ _, ?_, hcount, ?_, by rw [hstates.1, r2],
    hstates.2.1, FrameEq.trans' hstates.2.2 r4⟩
  · rw [hcs]
    exact chunks_flatten _ (by decide) _ _ (by simp)
  · have hp := List.pairwise_mergeSort (le := fun (a b : Hdr) => decide (a.number ≤ b.number))
      (by intro a b c h1 h2; simp only [decide_eq_true_eq] at h1 h2 ⊢; omega)
      (by intro a b; simp only [Bool.or_eq_true, decide_eq_true_eq]; omega) fetched
    exact hp.imp (by intro a b h; simpa using h)
  · intro x hx
    obtain ⟨a, b, c⟩ := r5 x hx
    refine ⟨a, b, ?_, c⟩
    cases hh : hasState infl ⟨x.number, x.id⟩ with
    | false => rfl
    | true =>
      exfalso
      obtain ⟨en, hen, heq⟩ := List.any_eq_true.mp hh
      have hk : en.1 = (⟨x.number, x.id⟩ : Blk) := by simpa using heq
      have h2 : (⟨x.number, x.id⟩ : Blk) ∈ infl.states.map (·.1) := List.mem_map.mpr ⟨en, hen, hk⟩
      have h1 : (⟨x.number, x.id⟩ : Blk) ∈ (fetched.reverse.map (reqEntry e peer)).map (·.1) :=
        List.mem_map.mpr ⟨reqEntry e peer x, List.mem_map.mpr ⟨x, List.mem_reverse.mpr hx, rfl⟩, rfl⟩
      exact hnodup.2.2 _ h1 _ h2 rfl

/-- a `set_last_common_header` made by the scan: to a stored and valid header reached by parent links from
an ancestor-lookup of the peer's best known header -/
def GoodScanWrite (e : Env) (bestHash : Nat) (x : NH) : Prop :=
  ∃ n top j t, e.anc bestHash n = some top ∧ walk e.hdr j top = some t ∧ e.stored t.id = true ∧
    e.valid t.id = true ∧ x = (t.number, t.id)

/-- the peers after the writes `ws` (in order) to `peer`'s last common header -/
def applyWrites (peer : Nat) (ws : List NH) (ps : PeersSt) : PeersSt :=
  ws.foldl (fun p x => p.setLastCommon peer x) ps

theorem applyWrites_append (peer : Nat) (a b : List NH) (ps : PeersSt) :
    applyWrites peer (a ++ b) ps = applyWrites peer b (applyWrites peer a ps) := by
  simp [applyWrites, List.foldl_append]

/-- The whole scan, peers side: all it does to the peers is a sequence of `set_last_common_header`
calls for `peer`, each to a stored-and-valid header below the best known header. -/
theorem fetchLoop_writes (e : Env) (peer : Nat) (best : NH) (nFetch : Nat) : ∀ (fuel start : Nat) (st : St),
    ∃ ws, (fetchLoop e peer best nFetch fuel start st).2.2.2.1 = applyWrites peer ws st.2.2.1 ∧
      ∀ x ∈ ws, GoodScanWrite e best.2 x := by
  intro fuel
  induction fuel with
  | zero => intro start st; exact ⟨[], by simp [fetchLoop, applyWrites], by intro x hx; cases hx⟩
  | succ fuel ih =>
    intro start st
    obtain ⟨infl, fetched, ps, endN⟩ := st
    unfold fetchLoop
    simp only []
    split
    · generalize min (endN - start + 1) (nFetch - fetched.length) = span
      cases ha : e.anc best.2 (start + span - 1) with
      | none => exact ⟨[], by simp [applyWrites], by intro x hx; cases hx⟩
      | some header =>
        simp only
        have hsp := (scanSpan_spec e peer best.1 span header (infl, fetched, ps, endN)).2.2
        have hw0 : ∃ ws0, (scanSpan e peer best.1 span header (infl, fetched, ps, endN)).2.2.2.1 =
            applyWrites peer ws0 ps ∧ ∀ x ∈ ws0, GoodScanWrite e best.2 x := by
          rcases hsp with h | ⟨j, t, _, hw, h1, h2, h3⟩
          · exact ⟨[], by simpa [applyWrites] using h, by intro x hx; cases hx⟩
          · refine ⟨[(t.number, t.id)], by simpa [applyWrites] using h3, ?_⟩
            intro x hx
            have : x = (t.number, t.id) := by simpa using hx
            exact ⟨_, header, j, t, ha, hw, h1, h2, this⟩
        generalize scanSpan e peer best.1 span header (infl, fetched, ps, endN) = r at hw0
        obtain ⟨ok, infl1, fetched1, ps1, end1⟩ := r
        obtain ⟨ws0, e0, g0⟩ := hw0
        simp only at e0
        cases ok
        · exact ⟨ws0, e0, g0⟩
        · simp only
          obtain ⟨ws1, e1, g1⟩ := ih (start + span) (infl1, fetched1, ps1, end1)
          refine ⟨ws0 ++ ws1, ?_, ?_⟩
          · rw [e1, applyWrites_append]; simp only; rw [e0]
          · intro x hx
            rcases List.mem_append.mp hx with h | h
            · exact g0 x h
            · exact g1 x h
    · exact ⟨[], by simp [applyWrites], by intro x hx; cases hx⟩

theorem updateLastCommonHeader_inv {anc : Nat → Nat → Option NH} {mainHash : Nat → Option Nat} {tip : Nat}
    {ps ps1 : PeersSt} {p : Nat} {best : NH} {r : Option NH}
    (h : updateLastCommonHeader anc mainHash tip ps p best = (ps1, r)) :
    (r = none → ps1 = ps) ∧
    (∀ x, r = some x → ps1 = ps.setLastCommon p x ∧
      updateLastCommonValue anc mainHash tip ((ps.get p).bind (·.lastCommon)) best = some x) := by
  unfold updateLastCommonHeader at h
  simp only [] at h
  split at h
  · simp only [Prod.mk.injEq] at h
    obtain ⟨rfl, rfl⟩ := h
    exact ⟨fun _ => rfl, fun x hx => (by cases hx)⟩
  · rename_i v hv
    simp only [Prod.mk.injEq] at h
    obtain ⟨rfl, rfl⟩ := h
    refine ⟨fun hx => (by cases hx), fun x hx => ?_⟩
    cases hx
    exact ⟨rfl, hv⟩

/-- (2) Every way `fetch` can end (any early return, `?` exit or answer): all it does to the peers is a
sequence of `set_last_common_header` calls for this peer, and each written value is one of three kinds —
the best known header itself when it is on our main chain (the not-better branch); the value computed by
`update_last_common_header`, i.e. by `update_last_common_header_spec` the latest common ancestor of the
previous value (or the main-chain guess) and the best known header; or a stored-and-valid header met by
the scan below the best known header. Every kind is an ancestor of the peer's best header that is stored
and valid with us or an ancestor of the previous value, so `last_common_header_stays_on` carries over. -/
theorem fetch_last_common_writes (e : Env) (infl : Inflight) (ps : PeersSt) (peer fetchEnd : Nat) :
    ∃ ws, (fetch e infl ps peer fetchEnd).2.2 = applyWrites peer ws ps ∧
      ∀ x ∈ ws, ∃ bk, (ps.get peer).bind (·.best) = some bk ∧
        ((x = (bk.number, bk.hash) ∧ (e.numOnMain bk.hash).isSome = true ∧ ¬ bk.td > e.totalDifficulty) ∨
         updateLastCommonValue (envAncNH e) e.mainHash e.tipNumber ((ps.get peer).bind (·.lastCommon))
            (bk.number, bk.hash) = some x ∨
         GoodScanWrite e bk.hash x) := by
  have nil : ∀ q : PeersSt, q = ps → ∃ ws, q = applyWrites peer ws ps ∧
      ∀ x ∈ ws, ∃ bk, (ps.get peer).bind (·.best) = some bk ∧
        ((x = (bk.number, bk.hash) ∧ (e.numOnMain bk.hash).isSome = true ∧ ¬ bk.td > e.totalDifficulty) ∨
         updateLastCommonValue (envAncNH e) e.mainHash e.tipNumber ((ps.get peer).bind (·.lastCommon))
            (bk.number, bk.hash) = some x ∨
         GoodScanWrite e bk.hash x) := by
    intro q hq; exact ⟨[], by simp [applyWrites, hq], by intro x hx; cases hx⟩
  unfold fetch
  split
  · exact nil _ rfl
  split
  · exact nil _ rfl
  split
  · exact nil _ rfl
  rename_i bk hbk
  simp only []
  split
  · rename_i htd
    split
    · rename_i hm
      refine ⟨[(bk.number, bk.hash)], by simp [applyWrites], ?_⟩
      intro x hx
      have : x = (bk.number, bk.hash) := by simpa using hx
      exact ⟨bk, hbk, Or.inl ⟨this, hm, by simpa using htd⟩⟩
    · exact nil _ rfl
  split
  · rename_i ps1 hup
    exact nil _ ((updateLastCommonHeader_inv hup).1 rfl)
  rename_i ps1 lc hup
  obtain ⟨hps1, hval⟩ := (updateLastCommonHeader_inv hup).2 lc rfl
  have one : ∃ ws, ps1 = applyWrites peer ws ps ∧
      ∀ x ∈ ws, ∃ bk, (ps.get peer).bind (·.best) = some bk ∧
        ((x = (bk.number, bk.hash) ∧ (e.numOnMain bk.hash).isSome = true ∧ ¬ bk.td > e.totalDifficulty) ∨
         updateLastCommonValue (envAncNH e) e.mainHash e.tipNumber ((ps.get peer).bind (·.lastCommon))
            (bk.number, bk.hash) = some x ∨
         GoodScanWrite e bk.hash x) := by
    refine ⟨[lc], by simp [applyWrites, hps1], ?_⟩
    intro x hx
    have : x = lc := by simpa using hx
    subst this
    exact ⟨bk, hbk, Or.inr (Or.inl hval)⟩
  split
  · exact one
  split
  · exact one
  obtain ⟨ws1, e1, g1⟩ := fetchLoop_writes e peer (bk.number, bk.hash)
    (min (fetchEndN e lc bk fetchEnd - fetchStart e lc + 1) (peerCanFetch infl peer)) (bk.number + 2)
    (fetchStart e lc) (infl, [], ps1, fetchEndN e lc bk fetchEnd)
  have both : ∀ q, q = (fetchLoop e peer (bk.number, bk.hash)
      (min (fetchEndN e lc bk fetchEnd - fetchStart e lc + 1) (peerCanFetch infl peer)) (bk.number + 2)
      (fetchStart e lc) (infl, [], ps1, fetchEndN e lc bk fetchEnd)).2.2.2.1 →
      ∃ ws, q = applyWrites peer ws ps ∧
      ∀ x ∈ ws, ∃ bk, (ps.get peer).bind (·.best) = some bk ∧
        ((x = (bk.number, bk.hash) ∧ (e.numOnMain bk.hash).isSome = true ∧ ¬ bk.td > e.totalDifficulty) ∨
         updateLastCommonValue (envAncNH e) e.mainHash e.tipNumber ((ps.get peer).bind (·.lastCommon))
            (bk.number, bk.hash) = some x ∨
         GoodScanWrite e bk.hash x) := by
    intro q hq
    refine ⟨lc :: ws1, ?_, ?_⟩
    · rw [hq, e1]; simp only; rw [hps1]; rfl
    · intro x hx
      rcases List.mem_cons.mp hx with h | h
      · subst h; exact ⟨bk, hbk, Or.inr (Or.inl hval)⟩
      · exact ⟨bk, hbk, Or.inr (Or.inr (g1 x h))⟩
  split
  · rename_i hloop
    exact both _ (congrArg (fun r => r.2.2.2.1) hloop).symm
  · rename_i hloop
    exact both _ (congrArg (fun r => r.2.2.2.1) hloop).symm

/-- (3) The `mark_slow_block` decision of `fetch`: the slow marks are taken exactly when the highest
requested header is more than CHECK_POINT_WINDOW (= 4 × MAX_BLOCKS_IN_TRANSIT_PER_PEER) above the
unverified tip; and `mark_slow_block` changes the marks only (requests, peer lists, counters stay). -/
theorem fetch_mark_slow_iff (e : Env) (infl : Inflight) (ps : PeersSt) (peer fetchEnd : Nat)
    {cs : List (List Nat)} {infl' : Inflight} {ps' : PeersSt}
    (h : fetch e infl ps peer fetchEnd = (some cs, infl', ps')) :
    ∃ infl2 fetched, cs.flatten = (sortFetched fetched).map (·.id) ∧
      infl' = (if shouldMark e (sortFetched fetched) then markSlow infl2 e.now e.unverifiedTip else infl2) ∧
      (shouldMark e (sortFetched fetched) = true ↔
        ∃ last, (sortFetched fetched).getLast? = some last ∧
          last.number > e.unverifiedTip + MAX_BLOCKS_IN_TRANSIT_PER_PEER * CHECK_POINT_WINDOW_FACTOR) ∧
      (markSlow infl2 e.now e.unverifiedTip).states = infl2.states ∧
      (markSlow infl2 e.now e.unverifiedTip).scheds = infl2.scheds := by
  obtain ⟨bk, ps1, lc, infl2, fetched, endN2, _, _, _, _, _, _, hcs, hinfl⟩ :=
    fetch_some_inv e infl ps peer fetchEnd cs infl' ps' h
  refine ⟨infl2, fetched, ?_, hinfl, ?_, (markSlow_states _ _ _).1, (markSlow_states _ _ _).2.2⟩
  · rw [hcs]; exact chunks_flatten _ (by decide) _ _ (by simp)
  · unfold shouldMark
    cases (sortFetched fetched).getLast? with
    | none => simp
    | some last =>
      simp only [decide_eq_true_eq, Option.some.injEq, exists_eq_left']
      omega


/-- in a rooted store whose genesis has no stored parent, a parent walk that succeeds stays above genesis -/
theorem walk_some_isAnc {store : Store} (ok : StoreOk store) {g : Hdr} (hroot : Rooted store g)
    (hgp : store g.parent = none) : ∀ (j : Nat) (h t : Hdr), store h.id = some h →
    walk store j h = some t → IsAnc store t h ∧ store t.id = some t := by
  intro j
  induction j with
  | zero =>
    intro h t hs hw
    simp [walk] at hw
    subst hw
    exact ⟨isAnc_refl _ _, hs⟩
  | succ j ih =>
    intro h t hs hw
    have hpos : 0 < h.number := by
      apply Nat.pos_of_ne_zero
      intro h0
      have hg := hroot h hs
      rw [h0] at hg
      simp [walk] at hg
      subst hg
      simp [walk, hgp] at hw
    obtain ⟨p, hp1, hpn, hps, hpk⟩ := walk_one ok hs hpos
    rw [hpk j] at hw
    obtain ⟨ha, hts⟩ := ih p t hps hw
    have hph : IsAnc store p h := ⟨by omega, by
      have : h.number - p.number = 1 := by omega
      rw [this]; exact hp1⟩
    exact ⟨isAnc_trans ha hph, hts⟩

/-- (2'), in a header store: when the node view of `fetch` is the one over a well-formed, rooted header
store (ancestor lookups through skip pointers, header views from the store) and the peer's best known
header `b` and previous last common header are known headers, EVERY value `fetch` writes to the peer's
last common header is a known header `c` that is an ancestor of the best known header `b`, and it is
stored and valid with us, or is `b` itself on our main chain, or is an ancestor of the previous value
(resp. of our main-chain block at min(tip, b.number) when there was none). -/
theorem fetch_writes_are_ancestors_of_best {store : Store} (ok : StoreOk store)
    {scan : Nat → Hdr → Option Hdr} (sok : ScanOk store scan) {g : Hdr} (hroot : Rooted store g)
    (hgp : store g.parent = none) {e : Env}
    (hanc : ∀ base n, e.anc base n = (store base).bind (fun b => getAncestor store scan b n))
    (hhdr : ∀ i, e.hdr i = store i)
    (infl : Inflight) (ps : PeersSt) (peer fetchEnd : Nat) {bk : HIdx}
    (hbk : (ps.get peer).bind (·.best) = some bk) {b : Hdr} (hb : store b.id = some b)
    (hbn : bk.number = b.number ∧ bk.hash = b.id)
    (hprev : ∀ x, (ps.get peer).bind (·.lastCommon) = some x → ∃ hx, store hx.id = some hx ∧ x = nhOf hx)
    (hmain : ∀ n id, e.mainHash n = some id → ∃ m, store m.id = some m ∧ m.id = id ∧ m.number = n) :
    ∃ ws, (fetch e infl ps peer fetchEnd).2.2 = applyWrites peer ws ps ∧
      ∀ x ∈ ws, ∃ c, x = nhOf c ∧ store c.id = some c ∧ IsAnc store c b ∧
        ((e.stored c.id = true ∧ e.valid c.id = true) ∨ (c = b ∧ (e.numOnMain b.id).isSome = true) ∨
         (∃ hx, (ps.get peer).bind (·.lastCommon) = some (nhOf hx) ∧ IsAnc store c hx) ∨
         ((ps.get peer).bind (·.lastCommon) = none ∧
            ∃ m, e.mainHash (min e.tipNumber b.number) = some m.id ∧ IsAnc store c m)) := by
  obtain ⟨ws, hws, hgood⟩ := fetch_last_common_writes e infl ps peer fetchEnd
  refine ⟨ws, hws, ?_⟩
  intro x hx
  obtain ⟨bk', hbk', hcase⟩ := hgood x hx
  rw [hbk] at hbk'
  cases hbk'
  have hstore : e.hdr = store := funext hhdr
  have hancNH : envAncNH e = ancNH store scan := by
    funext base n
    simp only [envAncNH, ancNH, hanc]
    cases store base with
    | none => rfl
    | some bb => rfl
  have hbest : ((bk.number, bk.hash) : NH) = nhOf b := by simp [nhOf, hbn.1, hbn.2]
  rcases hcase with ⟨hxe, hm, _⟩ | hval | ⟨n, top, j, t, ha, hw, hs, hv, hxt⟩
  · refine ⟨b, by rw [hxe, hbest], hb, isAnc_refl _ _, Or.inr (Or.inl ⟨rfl, by rw [← hbn.2]; exact hm⟩)⟩
  · rw [hancNH, hbest] at hval
    obtain ⟨sp1, sp2⟩ := update_last_common_header_spec ok sok hroot e.mainHash e.tipNumber hb
    cases hl : (ps.get peer).bind (·.lastCommon) with
    | some xp =>
      obtain ⟨hxp, hxps, rfl⟩ := hprev xp hl
      rw [hl] at hval
      obtain ⟨c, hc, h1, h2, _⟩ := sp1 hxp hxps
      rw [hc] at hval
      have hxc : x = nhOf c := (Option.some.inj hval).symm
      exact ⟨c, hxc, isAnc_stored ok hb h2, h2, Or.inr (Or.inr (Or.inl ⟨hxp, rfl, h1⟩))⟩
    | none =>
      rw [hl] at hval
      -- the main-chain guess exists, otherwise the value is `none`
      cases hmh : e.mainHash (min e.tipNumber b.number) with
      | none =>
        simp [updateLastCommonValue, nhOf, hmh] at hval
      | some mid =>
        obtain ⟨m, hms, hmid, hmn⟩ := hmain _ _ hmh
        obtain ⟨c, hc, h1, h2, _⟩ := sp2 m hms hmn (by rw [hmn, hmh, hmid])
        rw [hc] at hval
        have hxc : x = nhOf c := (Option.some.inj hval).symm
        exact ⟨c, hxc, isAnc_stored ok hb h2, h2,
          Or.inr (Or.inr (Or.inr ⟨rfl, m, by rw [hmid], h1⟩))⟩
  · rw [hanc, hbn.2, hb] at ha
    simp only [Option.bind_some] at ha
    have hn : n ≤ b.number := by
      apply Nat.le_of_not_lt
      intro hlt
      simp [getAncestor, hlt] at ha
    rw [getAncestor_eq_walk ok sok hb hn] at ha
    obtain ⟨htop, htops⟩ := walk_some_isAnc ok hroot hgp _ b top hb ha
    rw [hstore] at hw
    obtain ⟨ht, hts⟩ := walk_some_isAnc ok hroot hgp j top t htops hw
    exact ⟨t, hxt, hts, isAnc_trans ht htop, Or.inl ⟨hs, hv⟩⟩

/-- … so `last_common_header_stays_on` extends to `fetch`: whatever parent-closed set of headers the
peer's best known header is in (the peer's chain; the known headers), every last common header `fetch`
writes is in it too. -/
theorem fetch_last_common_stays_on {store : Store} (ok : StoreOk store)
    {scan : Nat → Hdr → Option Hdr} (sok : ScanOk store scan) {g : Hdr} (hroot : Rooted store g)
    (hgp : store g.parent = none) {e : Env}
    (hanc : ∀ base n, e.anc base n = (store base).bind (fun b => getAncestor store scan b n))
    (hhdr : ∀ i, e.hdr i = store i)
    (infl : Inflight) (ps : PeersSt) (peer fetchEnd : Nat) {bk : HIdx}
    (hbk : (ps.get peer).bind (·.best) = some bk) {b : Hdr} (hb : store b.id = some b)
    (hbn : bk.number = b.number ∧ bk.hash = b.id)
    (hprev : ∀ x, (ps.get peer).bind (·.lastCommon) = some x → ∃ hx, store hx.id = some hx ∧ x = nhOf hx)
    (hmain : ∀ n id, e.mainHash n = some id → ∃ m, store m.id = some m ∧ m.id = id ∧ m.number = n)
    (P : Hdr → Prop) (hP : ∀ h p : Hdr, P h → store h.parent = some p → P p) (hPb : P b) :
    ∃ ws, (fetch e infl ps peer fetchEnd).2.2 = applyWrites peer ws ps ∧
      ∀ x ∈ ws, ∃ c, x = nhOf c ∧ P c := by
  obtain ⟨ws, h1, h2⟩ := fetch_writes_are_ancestors_of_best ok sok hroot hgp hanc hhdr infl ps peer fetchEnd
    hbk hb hbn hprev hmain
  refine ⟨ws, h1, ?_⟩
  intro x hx
  obtain ⟨c, hc, _, hca, _⟩ := h2 x hx
  exact ⟨c, hc, last_common_header_stays_on P hP hca hPb⟩


/-- (1'), in a header store: with the node view over a well-formed rooted header store and the peer's best
known header `b` a known header, the headers `fetch` requests are known headers, ancestors of `b`
(`IsAnc`), unstored and unreceived, and the answer lists them in STRICTLY ascending block number (no
number twice: two requests at one number would be the same ancestor of `b`, and no block is requested
twice). -/
theorem fetch_requests_in_store {store : Store} (ok : StoreOk store)
    {scan : Nat → Hdr → Option Hdr} (sok : ScanOk store scan) {g : Hdr} (hroot : Rooted store g)
    (hgp : store g.parent = none) {e : Env}
    (hanc : ∀ base n, e.anc base n = (store base).bind (fun b => getAncestor store scan b n))
    (hhdr : ∀ i, e.hdr i = store i)
    {infl : Inflight} (hinv : Inflight.Inv infl) (ps : PeersSt) (peer fetchEnd : Nat) {bk : HIdx}
    (hbk : (ps.get peer).bind (·.best) = some bk) {b : Hdr} (hb : store b.id = some b)
    (hbn : bk.number = b.number ∧ bk.hash = b.id)
    {cs : List (List Nat)} {infl' : Inflight} {ps' : PeersSt}
    (h : fetch e infl ps peer fetchEnd = (some cs, infl', ps')) :
    ∃ new, cs.flatten = (sortFetched new).map (·.id) ∧ (sortFetched new).Perm new ∧
      (∀ x ∈ new, store x.id = some x ∧ IsAnc store x b ∧ e.stored x.id = false ∧ e.received x.id = false) ∧
      (sortFetched new).Pairwise (fun a c => a.number < c.number) := by
  obtain ⟨bk', ps1, lc, infl2, fetched, endN2, hbk', _, _, _, _, hloop, hcs, _⟩ :=
    fetch_some_inv e infl ps peer fetchEnd cs infl' ps' h
  rw [hbk] at hbk'
  cases hbk'
  obtain ⟨new, r1, r2, r3, _, r5⟩ := fetchLoop_requests e peer (bk.number, bk.hash)
    (min (fetchEndN e lc bk fetchEnd - fetchStart e lc + 1) (peerCanFetch infl peer)) (bk.number + 2)
    (fetchStart e lc) infl [] ps1 (fetchEndN e lc bk fetchEnd) hinv
  rw [hloop] at r1 r2 r3
  simp only [List.nil_append] at r1 r2 r3
  subst r1
  have hstore : e.hdr = store := funext hhdr
  have hmem : ∀ x ∈ fetched, store x.id = some x ∧ IsAnc store x b ∧ e.stored x.id = false ∧
      e.received x.id = false := by
    intro x hx
    obtain ⟨a, c, n, top, j, ha, hw⟩ := r5 x hx
    rw [hanc] at ha
    simp only [hbn.2, hb, Option.bind_some] at ha
    have hn : n ≤ b.number := by
      apply Nat.le_of_not_lt
      intro hlt
      simp [getAncestor, hlt] at ha
    rw [getAncestor_eq_walk ok sok hb hn] at ha
    obtain ⟨htop, htops⟩ := walk_some_isAnc ok hroot hgp _ b top hb ha
    rw [hstore] at hw
    obtain ⟨ht, hts⟩ := walk_some_isAnc ok hroot hgp j top x htops hw
    exact ⟨hts, isAnc_trans ht htop, a, c⟩
  -- no block is requested twice
  have hnodup := r3.statesNodup
  rw [r2, List.map_append, List.nodup_append] at hnodup
  have hnd : fetched.Nodup := by
    have h1 := hnodup.1
    rw [List.map_map] at h1
    have h2 : fetched.reverse.Pairwise (fun a c => a ≠ c) :=
      (List.pairwise_map.mp h1).imp (by intro a c hne heq; exact hne (by rw [heq]))
    exact (List.pairwise_reverse.mp h2).imp (by intro a c hne; exact Ne.symm hne)
  have hperm : (sortFetched fetched).Perm fetched := List.mergeSort_perm _ _
  have hnd' : (sortFetched fetched).Nodup := hperm.nodup_iff.mpr hnd
  have hp := List.pairwise_mergeSort (le := fun (a b : Hdr) => decide (a.number ≤ b.number))
    (by intro a b c h1 h2; simp only [decide_eq_true_eq] at h1 h2 ⊢; omega)
    (by intro a b; simp only [Bool.or_eq_true, decide_eq_true_eq]; omega) fetched
  have hle : (sortFetched fetched).Pairwise (fun a c => a.number ≤ c.number) :=
    hp.imp (by intro a b h; simpa using h)
  refine ⟨fetched, ?_, hperm, hmem, ?_⟩
  · rw [hcs]; exact chunks_flatten _ (by decide) _ _ (by simp)
  · have hboth := hle.and hnd'
    refine hboth.imp_of_mem ?_
    intro a c ha hc hac
    obtain ⟨h1, h2⟩ := hac
    have haa := (hmem a (hperm.mem_iff.mp ha)).2.1
    have hcc := (hmem c (hperm.mem_iff.mp hc)).2.1
    rcases Nat.lt_or_ge a.number c.number with hlt | hge
    · exact hlt
    · exact absurd (isAnc_unique haa hcc (by omega)) h2


/-- non-vacuity of the requests / writes theorems, on the run of `fetch_overruns_fetch_end` (empty, hence
consistent, in-flight table; peer 7 with best known header 5 and last common header 1): the scan records
exactly one request — header 3 from peer 7 — and makes exactly one last-common write, to the stored and
valid block 2. -/
example : Inflight.Inv ({} : Inflight) := Inflight.Inv.empty
example : (fetchLoop exFetchEnv 7 (5, 5) 1 7 2
      ({}, [], [(7, { best := some ⟨5, 5, 12⟩, lastCommon := some (1, 1) })], 2)).2.1.states =
      [reqEntry exFetchEnv 7 ⟨3, 3, 2, none⟩] ∧
    (fetchLoop exFetchEnv 7 (5, 5) 1 7 2
      ({}, [], [(7, { best := some ⟨5, 5, 12⟩, lastCommon := some (1, 1) })], 2)).2.2.2.1 =
      applyWrites 7 [(2, 2)] [(7, { best := some ⟨5, 5, 12⟩, lastCommon := some (1, 1) })] := by decide
example : GoodScanWrite exFetchEnv 5 (2, 2) := ⟨2, ⟨2, 2, 1, none⟩, 0, ⟨2, 2, 1, none⟩, by decide, by decide, by decide, by decide, rfl⟩

end Fetch

/-! ## Headers-sync timeout controller -/
section HeadersSync
open CkbVerif.HeadersSync CkbVerif.Gen.Sync

/-- `is_timeout` answers "evict" exactly in two situations, both of which need a full inspect window
since the last accepted sample and a tip that is at least one inspect window behind the clock: the
instantaneous speed is below a quarter of the expected one, or it is at most the expected one AND the
average since the start is below the expected one. -/
theorem is_timeout_true_iff (c : Ctl) (nowTipTs now : Nat) :
    (isTimeout c nowTipTs now).2 = some true ↔
      (c.closeToEnd = false ∧ HEADERS_DOWNLOAD_INSPECT_WINDOW ≤ now - nowTipTs ∧
        HEADERS_DOWNLOAD_INSPECT_WINDOW ≤ now - c.lastUpdatedTs ∧
        (nowTipTs - c.lastUpdatedTipTs <
            expected (now - c.lastUpdatedTs) / HEADERS_DOWNLOAD_TOLERABLE_BIAS_FOR_SINGLE_SAMPLE ∨
          (nowTipTs - c.lastUpdatedTipTs ≤ expected (now - c.lastUpdatedTs) ∧
            nowTipTs - c.startedTipTs < expected (now - c.startedTs)))) := by
  unfold isTimeout
  cases hc : c.closeToEnd
  · simp only [Bool.false_eq_true, if_false]
    split
    · simp; omega
    · split
      · simp; omega
      · split
        · simp; omega
        · split
          · simp; omega
          · split
            · simp; omega
            · simp; omega
  · simp only [if_true]
    split <;> simp

/-- `None` (send GetHeaders again) is answered exactly when the controller thought it was close to the end
but the tip is more than `expected(inspect window)` behind the clock; the controller is then reset as if
the sync started now. -/
theorem is_timeout_none_iff (c : Ctl) (nowTipTs now : Nat) :
    ((isTimeout c nowTipTs now).2 = none ↔
      (c.closeToEnd = true ∧ expected HEADERS_DOWNLOAD_INSPECT_WINDOW < now - nowTipTs)) ∧
    ((isTimeout c nowTipTs now).2 = none → (isTimeout c nowTipTs now).1 = fromHeader now nowTipTs) := by
  unfold isTimeout fromHeader
  simp only []
  constructor
  · repeat' split
    all_goals simp_all
  · repeat' split
    all_goals simp_all

/-- A peer is never evicted on a sample shorter than the inspect window, nor while its tip is within one
inspect window of the clock, nor once the controller is close to the end. -/
theorem no_timeout_inside_window (c : Ctl) (nowTipTs now : Nat)
    (h : now - c.lastUpdatedTs < HEADERS_DOWNLOAD_INSPECT_WINDOW ∨
         now - nowTipTs < HEADERS_DOWNLOAD_INSPECT_WINDOW ∨ c.closeToEnd = true) :
    (isTimeout c nowTipTs now).2 ≠ some true := by
  intro ht
  have := (is_timeout_true_iff c nowTipTs now).mp ht
  rcases h with h | h | h
  · omega
  · omega
  · rw [h] at this; exact Bool.noConfusion this.1

/-- A peer whose tip timestamp advanced by more than the expected amount since the last accepted sample is
never evicted, and the sample is accepted (the last-updated pair moves to now). -/
theorem fast_peer_not_evicted (c : Ctl) (nowTipTs now : Nat)
    (hfast : expected (now - c.lastUpdatedTs) < nowTipTs - c.lastUpdatedTipTs) :
    (isTimeout c nowTipTs now).2 ≠ some true := by
  intro ht
  have := (is_timeout_true_iff c nowTipTs now).mp ht
  have hb : expected (now - c.lastUpdatedTs) / HEADERS_DOWNLOAD_TOLERABLE_BIAS_FOR_SINGLE_SAMPLE ≤
      expected (now - c.lastUpdatedTs) := Nat.div_le_self _ _
  omega

/-- the controller's bookkeeping invariant: the start is not after the last update, neither in clock nor
in tip time -/
def CtlOk (c : Ctl) : Prop :=
  c.startedTs ≤ c.lastUpdatedTs ∧ c.startedTipTs ≤ c.lastUpdatedTipTs

/-- controllers reachable from `from_header` by any sequence of `is_timeout` calls whose clock readings
and tip timestamps do not go back behind the last accepted sample -/
inductive HReach : Ctl → Prop
  | start (now tipTs : Nat) : HReach (fromHeader now tipTs)
  | call (c : Ctl) (nowTipTs now : Nat) : HReach c → c.lastUpdatedTs ≤ now → c.lastUpdatedTipTs ≤ nowTipTs →
      HReach (isTimeout c nowTipTs now).1

theorem headers_sync_bookkeeping {c : Ctl} (h : HReach c) : CtlOk c := by
  induction h with
  | start now tipTs => exact ⟨Nat.le_refl _, Nat.le_refl _⟩
  | call c nowTipTs now _ h1 h2 ih =>
    obtain ⟨i1, i2⟩ := ih
    unfold isTimeout CtlOk
    simp only []
    repeat' split
    all_goals (simp only []; omega)

example : (isTimeout (fromHeader 1000000 0) 100000 1120000).2 = some true ∧
    (isTimeout (fromHeader 1000000 0) 2000000 1120000).2 = some false ∧
    (isTimeout (fromHeader 1000000 0) 1100000 1119999).2 = some false ∧
    (isTimeout { (fromHeader 1000000 0) with closeToEnd := true } 0 3000000).2 = none := by decide
example : HReach (isTimeout (fromHeader 1000000 0) 2000000 1120000).1 :=
  .call _ _ _ (.start _ _) (by decide) (by decide)

end HeadersSync

end CkbVerif.C17
