import CkbVerif.Gen.Codec
/-!
# Network frame compression decision (C16 b) — `network/src/compress.rs`

`compress`: flag byte + payload; snappy when `1 + len > COMPRESSION_SIZE_THRESHOLD`.
`decompress`: empty → error; flag bit set → the snappy header varint gives the declared
decompressed length, refused above `MAX_UNCOMPRESSED_LEN`, otherwise the snappy decoder (opaque
here: `snap` is a dependency, not modelled) fills a buffer of exactly that length or fails;
flag bit clear → the rest of the frame. Constants come from `Gen/Codec.lean`.
-/
namespace CkbVerif.Frame
open CkbVerif.Gen.Codec

abbrev Bytes := List UInt8

/-- `snap::bytes::read_varu64`: (value, header length), `(0, 0)` on failure -/
def readVaru64Go : Bytes → Nat → Nat → Nat → Nat × Nat
  | [], _, _, _ => (0, 0)
  | b :: rest, n, shift, i =>
    if b.toNat < 128 then
      if shift ≥ 64 then (0, 0) else ((n ||| ((b.toNat <<< shift) % 18446744073709551616)), i + 1)
    else
      if shift ≥ 64 then (0, 0)
      else readVaru64Go rest (n ||| (((b.toNat % 128) <<< shift) % 18446744073709551616)) (shift + 7) (i + 1)

def readVaru64 (bs : Bytes) : Nat × Nat := readVaru64Go bs 0 0 0

/-- `snap::raw::decompress_len` (`MAX_INPUT_SIZE = u32::MAX`) -/
def decompressLen (bs : Bytes) : Option Nat :=
  if bs.isEmpty then some 0 else
  let (n, hl) := readVaru64 bs
  if hl = 0 then none else if n > 4294967295 then none else some n

inductive Decision
  | err
  /-- flag clear: the payload is the frame without its first byte -/
  | raw (payload : Bytes)
  /-- flag set and the declared length is within bounds: hand over to the snappy decoder, which
  returns exactly `len` bytes or fails -/
  | snappy (len : Nat)
deriving Repr

def compressFlag (b : UInt8) : Bool := (b.toNat &&& COMPRESS_FLAG) != 0

/-- `Message::decompress` up to the call of the snappy decoder -/
def decompressDecision (bs : Bytes) : Decision :=
  match bs with
  | [] => .err
  | b :: rest =>
    if compressFlag b then
      match decompressLen rest with
      | some n => if n > MAX_UNCOMPRESSED_LEN then .err else .snappy n
      | none => .err
    else .raw rest

/-- `Message::compress`: is the snappy branch taken for a payload of `len` bytes? -/
def compressTaken (len : Nat) : Bool := decide (len + 1 > COMPRESSION_SIZE_THRESHOLD)

/-- size of what `decompress` can return for a frame, given the decoder contract -/
def outputLen : Decision → Option Nat
  | .err => none
  | .raw p => some p.length
  | .snappy n => some n

end CkbVerif.Frame
