import CkbVerif.Gen.Codec
/-!
# Network frame compression decision (C16 b) — `network/src/compress.rs`

`compress`: flag byte + payload; snappy when `1 + len > COMPRESSION_SIZE_THRESHOLD`.
`decompress`: empty → error; flag bit set → the snappy header varint gives the declared
decompressed length, refused above `MAX_UNCOMPRESSED_LEN`, otherwise the snappy decoder (opaque
here: `snap` is a dependency, not modelled) fills a buffer of exactly that length or fails;
flag bit clear → the rest of the frame. Constants come from `Gen/Codec.lean`.
-/
namespace CkbVerif.Frame
open CkbVerif.Gen.Codec

abbrev Bytes := List UInt8

/-- `snap::bytes::read_varu64`: (value, header length), `(0, 0)` on failure -/
def readVaru64Go : Bytes → Nat → Nat → Nat → Nat × Nat
  | [], _, _, _ => (0, 0)
  | b :: rest, n, shift, i =>
    if b.toNat < 128 then
      if shift ≥ 64 then (0, 0) else ((n ||| ((b.toNat <<< shift) % 18446744073709551616)), i + 1)
    else
      if shift ≥ 64 then (0, 0)
      else readVaru64Go rest (n ||| (((b.toNat % 128) <<< shift) % 18446744073709551616)) (shift + 7) (i + 1)

def readVaru64 (bs : Bytes) : Nat × Nat := readVaru64Go bs 0 0 0

/-- `snap::raw::decompress_len` (`MAX_INPUT_SIZE = u32::MAX`) -/
def decompressLen (bs : Bytes) : Option Nat :=
  if bs.isEmpty then some 0 else
  let (n, hl) := readVaru64 bs
  if hl = 0 then none else if n > 4294967295 then none else some n

inductive Decision
  | err
  /-- flag clear: the payload is the frame without its first byte -/
  | raw (payload : Bytes)
  /-- flag set and the declared length is within bounds: hand over to the snappy decoder, which
  returns exactly `len` bytes or fails -/
  | snappy (len : Nat)
deriving Repr

def compressFlag (b : UInt8) : Bool := (b.toNat &&& COMPRESS_FLAG) != 0

/-- `Message::decompress` up to the call of the snappy decoder -/
def decompressDecision (bs : Bytes) : Decision :=
  match bs with
  | [] => .err
  | b :: rest =>
    if compressFlag b then
      match decompressLen rest with
      | some n => if n > MAX_UNCOMPRESSED_LEN then .err else .snappy n
      | none => .err
    else .raw rest

/-- `Message::compress`: is the snappy branch taken for a payload of `len` bytes? -/
def compressTaken (len : Nat) : Bool := decide (len + 1 > COMPRESSION_SIZE_THRESHOLD)

/-- size of what `decompress` can return for a frame, given the decoder contract -/
def outputLen : Decision → Option Nat
  | .err => none
  | .raw p => some p.length
  | .snappy n => some n


/-! ## The production path: `LengthDelimitedCodecWithCompress` (the codec every CKB protocol
connection is opened with, `network/src/protocols/mod.rs` `CKBProtocol::build`)

`tokio_util::codec::length_delimited::Builder::new().max_frame_length(m).new_codec()`: a 4-byte
big-endian length field at offset 0, no length adjustment, the head is skipped; the decoder is
stateful (`DecodeState::Head | Data(n)`).  `encode` (`process`) writes the same head by hand
(`dst.put_uint(len as u64, 4)`, translated as `ENCODE_LENGTH_FIELD_LEN`). -/

/-- number of head bytes of the tokio_util decoder as configured (builder default) -/
def HEAD_LEN : Nat := 4

structure Cfg where
  /-- `max_frame_length` of the protocol (`SupportProtocols::max_frame_length`) -/
  maxFrame : Nat
  /-- `enable_compress` (only `encode` looks at it) -/
  compress : Bool
deriving Repr

/-- `DecodeState` -/
inductive DecState
  | head
  | data (n : Nat)
deriving Repr, DecidableEq

/-- `Buf::get_uint(4)`: big-endian value of the first four bytes -/
def be32 : Bytes → Nat
  | a :: b :: c :: d :: _ => ((a.toNat * 256 + b.toNat) * 256 + c.toNat) * 256 + d.toNat
  | _ => 0

/-- `BufMut::put_uint(n, 4)`: the low four bytes, big-endian -/
def be32enc (n : Nat) : Bytes :=
  [UInt8.ofNat (n / 16777216 % 256), UInt8.ofNat (n / 65536 % 256), UInt8.ofNat (n / 256 % 256), UInt8.ofNat (n % 256)]

inductive Ld
  | pending
  | err
  | frame (data : Bytes)
deriving Repr

/-- `decode_data` -/
def ldData (n : Nat) (src : Bytes) : Ld × DecState × Bytes :=
  if src.length < n then (.pending, .data n, src) else (.frame (src.take n), .head, src.drop n)

/-- one call of `LengthDelimitedCodec::decode`: (answer, new state, what is left in `src`).
An over-long length field is refused as soon as the four head bytes are there, before any payload
byte has arrived (the head is not consumed in that case: only a `Cursor` was advanced). -/
def ldDecode (maxFrame : Nat) : DecState → Bytes → Ld × DecState × Bytes
  | .head, src =>
    if src.length < HEAD_LEN then (.pending, .head, src)
    else if be32 src > maxFrame then (.err, .head, src)
    else ldData (be32 src) (src.drop HEAD_LEN)
  | .data n, src => ldData n src

/-- what one accepted frame stands for, up to the call of the snappy decoder -/
inductive Item
  /-- flag clear: the frame without its flag byte -/
  | raw (payload : Bytes)
  /-- flag set, announced length `len ≤ MAX_UNCOMPRESSED_LEN`: `BytesMut::zeroed(len)` is handed to
  the snappy decoder together with `body` -/
  | snappy (len : Nat) (body : Bytes)
deriving Repr, DecidableEq

/-- the body of `decode` after the length-delimited layer returned `data`: `none` = `InvalidData` -/
def frameItem (data : Bytes) : Option Item :=
  if data.length < DECODE_MIN_FRAME_LEN then none else
  match data with
  | [] => none
  | b :: rest =>
    if compressFlag b then
      match decompressLen rest with
      | some n => if n > MAX_UNCOMPRESSED_LEN then none else some (.snappy n rest)
      | none => none
    else some (.raw rest)

inductive Step
  | pending
  | err
  | item (i : Item)
deriving Repr

/-- one call of `LengthDelimitedCodecWithCompress::decode` -/
def decodeCall (cfg : Cfg) (st : DecState) (src : Bytes) : Step × DecState × Bytes :=
  if src.isEmpty then (.pending, st, src) else
  match ldDecode cfg.maxFrame st src with
  | (.pending, st', r) => (.pending, st', r)
  | (.err, st', r) => (.err, st', r)
  | (.frame d, st', r) =>
    match frameItem d with
    | none => (.err, st', r)
    | some i => (.item i, st', r)

/-- how a `FramedRead` loop ends for the bytes received so far -/
inductive End
  /-- waiting for more bytes with this decoder state and this unconsumed buffer -/
  | pending (st : DecState) (buf : Bytes)
  /-- the decoder returned an error: the stream is closed, nothing more is decoded -/
  | err
deriving Repr, DecidableEq

/-- `FramedRead::poll_next` until `Ok(None)` / `Err`: the frames decoded from the buffered bytes.
(`fuel`: every accepted frame consumes at least `DECODE_MIN_FRAME_LEN` bytes.) -/
def drainF (cfg : Cfg) : Nat → DecState → Bytes → List Item × End
  | 0, st, src => ([], .pending st src)
  | fuel + 1, st, src =>
    match decodeCall cfg st src with
    | (.pending, st', r) => ([], .pending st' r)
    | (.err, _, _) => ([], .err)
    | (.item i, st', r) =>
      let (is, e) := drainF cfg fuel st' r
      (i :: is, e)

def drain (cfg : Cfg) (st : DecState) (src : Bytes) : List Item × End :=
  drainF cfg (src.length + 1) st src

/-- a connection: the frames delivered so far and how the read loop stands -/
structure Conn where
  items : List Item
  state : End
deriving Repr, DecidableEq

def Conn.init : Conn := ⟨[], .pending .head []⟩

/-- the next chunk of bytes arrives from the socket -/
def feed (cfg : Cfg) (c : Conn) (chunk : Bytes) : Conn :=
  match c.state with
  | .err => c
  | .pending st buf =>
    let (is, e) := drain cfg st (buf ++ chunk)
    ⟨c.items ++ is, e⟩

def feedAll (cfg : Cfg) (c : Conn) (chunks : List Bytes) : Conn := chunks.foldl (feed cfg) c

/-- the decoded message of an item; `snap body = some out`: the snappy decoder succeeded and wrote
`out`.  The returned buffer is the `zeroed(len)` buffer, so its length is `len` whatever the
decoder wrote (`fitTo`); a decoder failure is `InvalidData`. -/
def fitTo (n : Nat) (out : Bytes) : Bytes := (out ++ List.replicate (n - out.length) 0).take n

def finish (snap : Bytes → Option Bytes) : Item → Option Bytes
  | .raw p => some p
  | .snappy n body => (snap body).map (fitTo n)

/-- `process`: head + flag + body, refused above `max_frame_length` -/
def encProcess (cfg : Cfg) (body : Bytes) (flag : Nat) : Option Bytes :=
  if body.length + 1 > cfg.maxFrame then none
  else some (be32enc (body.length + 1) ++ UInt8.ofNat flag :: body)

/-- `Encoder::encode` (`comp` = `snap::raw::Encoder::compress_vec`, which cannot fail below 4 GiB) -/
def encode (comp : Bytes → Bytes) (cfg : Cfg) (data : Bytes) : Option Bytes :=
  if cfg.compress && decide (data.length > COMPRESSION_SIZE_THRESHOLD) then
    let res := comp data
    if res.length ≥ data.length then encProcess cfg data UNCOMPRESS_FLAG
    else encProcess cfg res COMPRESS_FLAG
  else encProcess cfg data UNCOMPRESS_FLAG

end CkbVerif.Frame
