/-
The freeze pass over the COMBINED state: key-value rows (`Model/Freeze.lean`) + the freezer's files
(`Model/Freezer.lean`, `Model/FreezerTop.lean` — the C09 model: INDEX entries, data files, handle,
tip) + the durability mark left by `sync_all`.  Core Lean only.

Sources followed: `shared/src/shared.rs` (`freeze`: threshold, `freezer.freeze(threshold, get)`,
then `wipe_out_frozen_data`), `freezer/src/freezer.rs` (`freeze` = append loop + `sync_all`),
`store/src/store.rs` (`get_frozen_block_by_header`, `get_transaction_with_info`:
`freezer.retrieve(n).expect("block frozen")?`, `BlockReader::from_compatible_slice(..).expect(..)`,
`into_view()`, the hash test).

Write order (the assumption every crash theorem states explicitly as `CutKeepsSynced`): the appends
of one `Freezer::freeze` call are followed by `sync_all` BEFORE `wipe_out_frozen_data` deletes any
row; so a crash may cut the files anywhere (C09's `applyCut`: INDEX at any byte length, head data
file at any length or missing) but never below what the last `sync_all` made durable, and rows are
only deleted for blocks below that mark (`Sys.synced`).
-/
import CkbVerif.Model.Freeze
import CkbVerif.Model.FreezerTop
namespace CkbVerif.FreezeSys
open CkbVerif.Store CkbVerif.Freeze CkbVerif.Freezer

/-- how a block of the store model is handed to the freezer and read back.
`cfg` are the parameters of the C09 `Freezer` model (max file size, snappy pair, the codec of the
freezer's own view of a block: header hash, parent hash, number, tx count, payload); `ser`/`deser`
are `block.data()` / `BlockReader::from_compatible_slice(raw).to_entity().into_view()` for the rest
of the block (the payload). -/
structure Codec where
  cfg : FreezerTop.Cfg
  ser : Block → Bytes
  deser : Bytes → Option Block

/-- the hypotheses on the parameters: C09's (`decompress ∘ compress = id`, `decode ∘ encode = id`)
and the payload round trip -/
structure Codec.Ok (k : Codec) : Prop where
  cfg : k.cfg.Ok
  body : ∀ b, k.deser (k.ser b) = some b

/-- the `BlockView` as `Freezer::freeze` sees it -/
def up (k : Codec) (b : Block) : FreezerTop.Block :=
  ⟨b.id, b.parent, b.number, b.txs.length, k.ser b⟩

/-- the combined state -/
structure Sys where
  /-- the key-value rows and the chain view (`rows.frozen` is not read: the freezer is `top`) -/
  rows : FS
  /-- the freezer: files on disk, in-memory handle, tip -/
  top : FreezerTop.Top
  /-- `freezer.number()` at the last `sync_all` (or open): items below it are durable -/
  synced : Nat

/-- the freezer as `store.rs` sees it: `freezer.number()` and "retrieve + decode" of one item
(`.panic` = one of the `expect`s) -/
structure Fz where
  number : Nat
  item : Nat → Ans Block

/-- the abstract freezer of `Model/Freeze.lean`: item `n` is `l[n-1]` -/
def fzOfList (l : List Block) : Fz :=
  ⟨l.length + 1, fun n => match l[n - 1]? with | some b => .some b | none => .none⟩

/-- `freezer.retrieve(n).expect("block frozen")?` → `from_compatible_slice(..).expect("checked data")`
→ `into_view()`, on the files -/
def readFrozen (k : Codec) (t : FreezerTop.Top) (n : Nat) : Ans Block :=
  match FreezerTop.retrieveTop k.cfg t n with
  | .err => .panic
  | .none => .none
  | .some raw =>
    match k.cfg.dec raw with
    | none => .panic
    | some tb =>
      match k.deser tb.payload with
      | none => .panic
      | some b => .some b

def fzOfTop (k : Codec) (t : FreezerTop.Top) : Fz := ⟨t.number, readFrozen k t⟩

def ofOpt {α : Type} : Option α → Ans α
  | some a => .some a
  | none => .none

/-! ### the accessors of `store/src/store.rs` over rows + a freezer view

The same control flow as `getFrozen` / `getBlock` / `getPart` / `getPacked` / `getTx` of
`Model/Freeze.lean` (which are these functions at `fzOfList s.frozen`: `Lemmas/FreezeSys.lean`), with
the freezer read through `Fz` and its failures (`expect`) kept as `.panic`. -/

def getFrozenG (r : FS) (z : Fz) (id : Nat) : Ans Block :=
  if !r.hdr id then .none else
  match r.v.r.bodies id with
  | none => .none
  | some blk =>
    if 0 < blk.number && blk.number < z.number then
      match z.item blk.number with
      | .some fb => if fb.id = id then .some fb else .none
      | .none => .none
      | .panic => .panic
    else .none

def getBlockG (r : FS) (z : Fz) (id : Nat) : Ans Block :=
  if !r.hdr id then .none else
  match r.v.r.bodies id with
  | none => .none
  | some blk =>
    match getFrozenG r z id with
    | .some fb => .some fb
    | .panic => .panic
    | .none => if r.body id then .some blk else .panic

def getPartG (r : FS) (z : Fz) (id : Nat) : Ans Block :=
  if r.body id then ofOpt (r.v.r.bodies id) else getFrozenG r z id

def getPackedG (r : FS) (z : Fz) (id : Nat) : Ans Block :=
  match getFrozenG r z id with
  | .some fb => .some fb
  | .panic => .panic
  | .none => if r.hdr id && r.body id then ofOpt (r.v.r.bodies id) else .none

def getTxG (r : FS) (z : Fz) (txId : Nat) : Ans (Tx × TxInfo) :=
  match r.v.m.txInfo txId with
  | none => .none
  | some info =>
    if 0 < info.number && info.number < z.number then
      match z.item info.number with
      | .some fb => ofOpt ((fb.txs[info.index]?).map fun t => (t, info))
      | .none => .none
      | .panic => .panic
    else if r.body info.blockId then
      match r.v.r.bodies info.blockId with
      | some blk => ofOpt ((blk.txs[info.index]?).map fun t => (t, info))
      | none => .none
    else .none

/-! the accessors of the combined state -/

def Sys.fz (k : Codec) (s : Sys) : Fz := fzOfTop k s.top
def getBlockS (k : Codec) (s : Sys) (id : Nat) : Ans Block := getBlockG s.rows (s.fz k) id
def getPackedS (k : Codec) (s : Sys) (id : Nat) : Ans Block := getPackedG s.rows (s.fz k) id
def getPartS (k : Codec) (s : Sys) (id : Nat) : Ans Block := getPartG s.rows (s.fz k) id
def getTxS (k : Codec) (s : Sys) (tx : Nat) : Ans (Tx × TxInfo) := getTxG s.rows (s.fz k) tx
/-- the named part accessors as projections of `getPartS` (a failing `expect` propagates as the
empty answer here; the theorems show it does not occur) -/
def getBodyS (k : Codec) (s : Sys) (id : Nat) : List Tx :=
  match getPartS k s id with | .some b => b.txs | _ => []
def getTxsHashesS (k : Codec) (s : Sys) (id : Nat) : List Nat := (getBodyS k s id).map (·.id)
def getCellbaseS (k : Codec) (s : Sys) (id : Nat) : Option Tx :=
  match getPartS k s id with | .some b => b.txs.head? | _ => none
def getUnclesS (k : Codec) (s : Sys) (id : Nat) : Option (List Nat) :=
  match getPartS k s id with | .some b => some b.uncles | _ => none
/-- `get_block_header`: the kv row only -/
def getHeaderS (s : Sys) (id : Nat) : Option Block := getHeader s.rows id
/-- `get_ancestor(tip, n)` on the main chain: number index, then the header row -/
def getAncestorS (s : Sys) (n : Nat) : Option Block := getAncestor s.rows n

/-! ### the steps of `Shared::freeze` on the combined state -/

/-- what `Shared::freeze` passes to `Freezer::freeze` as `get_block_by_number` -/
def source (k : Codec) (r : FS) : Nat → Option FreezerTop.Block :=
  fun n => (getUnfrozen r n).map (up k)

/-- `freezer.freeze(threshold, get_unfrozen_block)`: the real append loop on the real files, for
any threshold and any behaviour of the stop flag (so: every prefix of the appends of a pass) -/
def stepFreeze (k : Codec) (s : Sys) (thr : Nat) (stopped : Nat → Bool) : Sys × FreezerTop.FreezeOut :=
  let r := FreezerTop.freeze k.cfg s.top thr (source k s.rows) stopped
  ({ s with top := r.1 }, r.2)

/-- `sync_all` at the end of `Freezer::freeze` -/
def stepSync (s : Sys) : Sys := { s with synced := s.top.number }

/-- one `delete_block_body` of the first batch of `wipe_out_frozen_data` -/
def stepWipeBody (s : Sys) (id : Nat) : Sys := { s with rows := wipeBody s.rows id }

/-- one `delete_block` of the second batch -/
def stepWipeSide (s : Sys) (id : Nat) : Sys := { s with rows := wipeSide s.rows id }

/-- process death / power loss that leaves INDEX at `il` bytes and the head data file at `fl` bytes
(`none`: missing), followed by `Freezer::open` at the next start; `none` = the open fails.  What
was synced is what the re-opened freezer reports. -/
def stepCrash (k : Codec) (s : Sys) (il : Nat) (fl : Option Nat) : Option Sys :=
  match FreezerTop.crashOpen k.cfg s.top il fl with
  | none => none
  | some t => some { s with top := t, synced := t.number }

/-- `sideOf` of `Model/Freeze.lean` on the returned map `(hash, number, tx count)` -/
def sideOfRet (r : FS) (ret : List (Nat × Nat × Nat)) : List Nat :=
  r.stored.filter fun id => ret.any fun e => numberOfId r id == e.2.1 && id != e.1

/-- `wipe_out_frozen_data(snapshot, ret, stopped)` on the rows -/
def wipeRet (r : FS) (ret : List (Nat × Nat × Nat)) : FS :=
  (sideOfRet r ret).foldl wipeSide (ret.foldl (fun r e => wipeBody r e.1) r)

/-- one whole pass of `Shared::freeze` in the order of the code: threshold (from the epoch rows and
`freezer.number()`), the append loop on the files, `sync_all`, the body batch, the side batch; an
`Err` of the loop (`?`) skips `sync_all` and the wipe -/
def pass (k : Codec) (s : Sys) (stopped : Nat → Bool) : Sys × Res :=
  match thresholdAt s.rows s.top.number with
  | .idle => (s, .idle)
  | .panic => (s, .panic)
  | .at thr =>
    let r := stepFreeze k s thr stopped
    match r.2 with
    | .err => (r.1, .err)
    | .ok ret => ({ stepSync r.1 with rows := wipeRet r.1.rows ret }, .ok)

end CkbVerif.FreezeSys
