import CkbVerif.Gen.MMR
/-!
# Merkle mountain range — executable model of `ckb-merkle-mountain-range 0.5.2` as used by ckb

Follows the crate's code (`helper.rs`, `mmr.rs`, `mmr_store.rs`) and ckb's instantiation
(`util/types/src/utilities/merkle_mountain_range.rs`, `MergeHeaderDigest`), generic over the node
type `α` and the `merge : α → α → α` function (the real one hashes; here it is abstract, and the
driver instantiates it with the free term algebra `Term`).

Abstractions (see checks/C19.json "assumptions"):
* `u64` positions are `Nat` (no overflow; sizes are < 2^64 in every reachable chain);
* `merge` is total (the real `MergeHeaderDigest::merge` fails on non-consecutive block numbers /
  epochs; the chain only ever pushes consecutive headers);
* `MMRBatch` (in-memory overlay committed at the end) is modelled write-through: `push` writes
  straight into the store map.  Reads are the same because the overlay covers exactly the
  positions `≥` the size the MMR object was created with.
* store = total map `pos → Option node`; *nothing is ever deleted from it* (as in
  `COLUMN_CHAIN_ROOT_MMR`): a reorg only re-creates the MMR object with a smaller `size`.
-/
namespace CkbVerif.MMR

/-! ## helper.rs -/

/-- `parent_offset(height) = 2 << height` -/
def parentOffset (h : Nat) : Nat := Gen.MMR.PARENT_OFFSET_BASE * 2 ^ h

/-- `sibling_offset(height) = (2 << height) - 1` -/
def siblingOffset (h : Nat) : Nat := Gen.MMR.SIBLING_OFFSET_BASE * 2 ^ h - 1

/-- `count_ones` -/
def popcountAux : Nat → Nat → Nat
  | 0, _ => 0
  | f + 1, n => if n = 0 then 0 else n % 2 + popcountAux f (n / 2)

def popcount (n : Nat) : Nat := popcountAux n n

/-- `trailing_zeros` (of a non-zero number; 0 for 0, where the crate never calls it) -/
def trailingZerosAux : Nat → Nat → Nat
  | 0, _ => 0
  | f + 1, n => if n = 0 then 0 else if n % 2 = 1 then 0 else 1 + trailingZerosAux f (n / 2)

def trailingZeros (n : Nat) : Nat := trailingZerosAux n n

/-- `leaf_index_to_mmr_size(index) = 2 * (index+1) - count_ones(index+1)` -/
def leafIndexToMmrSize (index : Nat) : Nat :=
  let leavesCount := index + 1
  2 * leavesCount - popcount leavesCount

/-- `leaf_index_to_pos(index) = leaf_index_to_mmr_size(index) - trailing_zeros(index+1) - 1` -/
def leafIndexToPos (index : Nat) : Nat :=
  leafIndexToMmrSize index - trailingZeros (index + 1) - 1

/-- `all_ones(num)`: `num != 0 && num.count_zeros() == num.leading_zeros()`, i.e. `num = 2^k - 1`, `k ≥ 1`. -/
def allOnes (x : Nat) : Bool := x != 0 && x + 1 == 2 ^ (Nat.log2 x + 1)

/-- `jump_left(pos) = pos - (msb - 1)` with `msb = 1 << (bit_length - 1)`. -/
def jumpLeft (x : Nat) : Nat := x - (2 ^ Nat.log2 x - 1)

/-- the `while !all_ones(pos) { pos = jump_left(pos) }` loop on the 1-based index, then
`64 - leading_zeros - 1 = log2`. -/
def posHeightAux : Nat → Nat → Nat
  | 0, x => Nat.log2 x
  | f + 1, x => if allOnes x then Nat.log2 x else posHeightAux f (jumpLeft x)

/-- `pos_height_in_tree(pos)` (0-based position). Every jump shortens the bit length, so
`pos + 1` iterations always suffice. -/
def posHeightInTree (pos : Nat) : Nat := posHeightAux (pos + 1) (pos + 1)

/-- `get_peak_pos_by_height(height) = (1 << (height+1)) - 2` -/
def peakPosByHeight (h : Nat) : Nat := 2 ^ (h + 1) - 2

/-- loop of `left_peak_height_pos` -/
def leftPeakLoop (size : Nat) : Nat → Nat → Nat → Nat → Nat × Nat
  | 0, height, prev, _ => (height - 1, prev)
  | f + 1, height, prev, pos =>
    if pos < size then leftPeakLoop size f (height + 1) pos (peakPosByHeight (height + 1))
    else (height - 1, prev)

def leftPeakHeightPos (size : Nat) : Nat × Nat :=
  leftPeakLoop size (size + 1) 1 0 (peakPosByHeight 1)

/-- loop of `get_right_peak` after `pos += sibling_offset(height)` -/
def rightPeakLoop (size : Nat) : Nat → Nat → Option (Nat × Nat)
  | 0, pos => if pos > size - 1 then none else some (0, pos)
  | h + 1, pos => if pos > size - 1 then rightPeakLoop size h (pos - parentOffset h) else some (h + 1, pos)

def getRightPeak (height pos size : Nat) : Option (Nat × Nat) :=
  rightPeakLoop size height (pos + siblingOffset height)

/-- `while height > 0 { … }` of `get_peaks`; the height strictly decreases. -/
def peaksLoop (size : Nat) : Nat → Nat → Nat → List Nat
  | 0, _, _ => []
  | f + 1, height, pos =>
    if height > 0 then
      match getRightPeak height pos size with
      | none => []
      | some (h, p) => p :: peaksLoop size f h p
    else []

/-- `get_peaks(mmr_size)`: peak positions, left to right. -/
def getPeaks (size : Nat) : List Nat :=
  let hp := leftPeakHeightPos size
  hp.2 :: peaksLoop size (hp.1 + 1) hp.1 hp.2

/-! ## store and MMR object -/

abbrev Store (α : Type) := Nat → Option α

def Store.empty {α : Type} : Store α := fun _ => none

def Store.set {α : Type} (s : Store α) (p : Nat) (v : α) : Store α :=
  fun q => if q = p then some v else s q

/-- `MMRStore::append(pos, elems)`: `elems[i]` goes to `pos + i`. -/
def Store.append {α : Type} (s : Store α) (pos : Nat) : List α → Store α
  | [] => s
  | e :: es => Store.append (s.set pos e) (pos + 1) es

structure MMR (α : Type) where
  size : Nat
  store : Store α

/-- `merge_peaks(a, b)`: ckb's `MergeHeaderDigest` overrides the crate default `merge(a, b)` with
`merge(b, a)`; which of the two is in force is read from the source by `bin/gen_model`. -/
def mergePeaks {α : Type} (merge : α → α → α) (a b : α) : α :=
  if Gen.MMR.MERGE_PEAKS_ARGS == "rhs, lhs" then merge b a else merge a b

/-- `find_elem`: positions `≥ mmr_size` are looked up in the elements produced by this push. -/
def findElem {α : Type} (size : Nat) (st : Store α) (pos : Nat) (hashes : List α) : Option α :=
  if size ≤ pos then
    match hashes[pos - size]? with
    | some e => some e
    | none => st pos
  else st pos

/-- the `while pos_height_in_tree(pos + 1) > height` loop of `push`; returns the last position and
all elements (leaf first) or `none` for `InconsistentStore`. -/
def pushLoop {α : Type} (merge : α → α → α) (size : Nat) (st : Store α) :
    Nat → Nat → Nat → List α → Option (Nat × List α)
  | 0, pos, _, elems => some (pos, elems)
  | f + 1, pos, height, elems =>
    if posHeightInTree (pos + 1) > height then
      let pos' := pos + 1
      let leftPos := pos' - parentOffset height
      let rightPos := leftPos + siblingOffset height
      match findElem size st leftPos elems, findElem size st rightPos elems with
      | some l, some r => pushLoop merge size st f pos' (height + 1) (elems ++ [merge l r])
      | _, _ => none
    else some (pos, elems)

/-- `MMR::push` (+ commit): `(new mmr, position of the leaf)`. -/
def push {α : Type} (merge : α → α → α) (m : MMR α) (elem : α) : Option (MMR α × Nat) :=
  match pushLoop merge m.size m.store (m.size + 2) m.size 0 [elem] with
  | none => none
  | some (pos, elems) => some ({ size := pos + 1, store := m.store.append m.size elems }, m.size)

def pushAll {α : Type} (merge : α → α → α) (m : MMR α) : List α → Option (MMR α)
  | [] => some m
  | e :: es =>
    match push merge m e with
    | none => none
    | some (m', _) => pushAll merge m' es

/-- `bag_rhs_peaks`: pop right, pop left, push `merge_peaks(right, left)`, until one is left. -/
def bagRhsPeaks {α : Type} (merge : α → α → α) (peaks : List α) : Option α :=
  match peaks.reverse with
  | [] => none
  | r :: rest => some (rest.foldl (fun acc l => mergePeaks merge acc l) r)

def mapMOpt {α β : Type} (f : α → Option β) : List α → Option (List β)
  | [] => some []
  | a :: as =>
    match f a, mapMOpt f as with
    | some b, some bs => some (b :: bs)
    | _, _ => none

/-- `MMR::get_root` -/
def getRoot {α : Type} (merge : α → α → α) (m : MMR α) : Option α :=
  if m.size = 0 then none
  else if m.size = 1 then m.store 0
  else
    match mapMOpt m.store (getPeaks m.size) with
    | none => none
    | some peaks => bagRhsPeaks merge peaks

/-- `chain/src/verify.rs` `reconcile_main_chain` / `Snapshot::chain_root_mmr(n)`: a fresh MMR object
of size `leaf_index_to_mmr_size(n)` over the *same* store (stale nodes beyond the size stay). -/
def recreate {α : Type} (m : MMR α) (lastLeafIndex : Nat) : MMR α :=
  { size := leafIndexToMmrSize lastLeafIndex, store := m.store }

/-! ## gen_proof -/

def insertSorted (x : Nat) : List Nat → List Nat
  | [] => [x]
  | y :: ys => if x ≤ y then x :: y :: ys else y :: insertSorted x ys

def sortNat (l : List Nat) : List Nat := l.foldr insertSorted []

def dedupAdj : List Nat → List Nat
  | [] => []
  | [x] => [x]
  | x :: y :: rest => if x = y then dedupAdj (y :: rest) else x :: dedupAdj (y :: rest)

/-- `(sib_pos, parent_pos, is_right)` of the node at `pos` with `height`. -/
def sibParent (pos height : Nat) : Nat × Nat × Bool :=
  let nextHeight := posHeightInTree (pos + 1)
  let so := siblingOffset height
  if nextHeight > height then (pos - so, pos + 1, true)
  else (pos + so, pos + parentOffset height, false)

/-- fuel of the two per-peak queue loops (`gen_proof_for_peak`, `calculate_peak_root`; the Rust
loops have none). Every iteration replaces the front entry by its parent, one level higher, and a
tree below `peakPos` has fewer than `peakPos + 2` levels, so `len` entries need fewer than
`(peakPos + 2) * len` iterations; `Lemmas/MMRProofLoop.lean` proves this is never exhausted. -/
def peakFuel (peakPos len : Nat) : Nat := (peakPos + 2) * (len + 1)

/-- the queue loop of `gen_proof_for_peak` -/
def genPeakLoop {α : Type} (st : Store α) (peakPos : Nat) :
    Nat → List (Nat × Nat) → List α → Option (List α)
  | 0, _, _ => none
  | _ + 1, [], proof => some proof
  | f + 1, (pos, height) :: queue, proof =>
    if pos = peakPos then
      if queue.isEmpty then some proof else none
    else
      let (sib, parent, _) := sibParent pos height
      let step : Option (List (Nat × Nat) × List α) :=
        match queue with
        | (p, _) :: qrest =>
          if p = sib then some (qrest, proof)
          else match st sib with
            | some e => some (queue, proof ++ [e])
            | none => none
        | [] =>
          match st sib with
          | some e => some ([], proof ++ [e])
          | none => none
      match step with
      | none => none
      | some (queue', proof') =>
        let queue'' := if parent < peakPos then queue' ++ [(parent, height + 1)] else queue'
        genPeakLoop st peakPos f queue'' proof'

def genProofForPeak {α : Type} (st : Store α) (proof : List α) (posList : List Nat) (peakPos : Nat) :
    Option (List α) :=
  if posList = [peakPos] then some proof
  else if posList.isEmpty then
    match st peakPos with
    | some e => some (proof ++ [e])
    | none => none
  else genPeakLoop st peakPos (peakFuel peakPos posList.length) (posList.map fun p => (p, 0)) proof

/-- the `for peak_pos in peaks` loop of `gen_proof`: `(remaining positions, proof, bagging_track)` -/
def genProofPeaks {α : Type} (st : Store α) :
    List Nat → List Nat → List α → Nat → Option (List Nat × List α × Nat)
  | [], posList, proof, track => some (posList, proof, track)
  | peakPos :: peaks, posList, proof, track =>
    let mine := posList.takeWhile (fun p => p ≤ peakPos)
    let rest := posList.dropWhile (fun p => p ≤ peakPos)
    let track' := if mine.isEmpty then track + 1 else 0
    match genProofForPeak st proof mine peakPos with
    | none => none
    | some proof' => genProofPeaks st peaks rest proof' track'

/-- `MMR::gen_proof(pos_list)`: the proof items (the proof also carries `mmr_size`). -/
def genProof {α : Type} (merge : α → α → α) (m : MMR α) (posList : List Nat) : Option (List α) :=
  if posList.isEmpty then none
  else if m.size = 1 ∧ posList = [0] then some []
  else if posList.any (fun p => posHeightInTree p > 0) then none
  else
    let posList := dedupAdj (sortNat posList)
    match genProofPeaks m.store (getPeaks m.size) posList [] 0 with
    | none => none
    | some (remaining, proof, track) =>
      if !remaining.isEmpty then none
      else if track > 1 then
        let keep := proof.take (proof.length - track)
        let rhs := proof.drop (proof.length - track)
        match bagRhsPeaks merge rhs with
        | some b => some (keep ++ [b])
        | none => none
      else some proof

/-! ## MerkleProof::verify -/

/-- insert before the first element with a key `≥` -/
def insertLeaf {α : Type} (x : Nat × α) : List (Nat × α) → List (Nat × α)
  | [] => [x]
  | y :: ys => if x.1 ≤ y.1 then x :: y :: ys else y :: insertLeaf x ys

/-- stable sort by position (`sort_by_key`) -/
def sortLeaves {α : Type} (l : List (Nat × α)) : List (Nat × α) := l.foldr insertLeaf []

def dedupLeavesFrom {α : Type} (k : Nat) : List (Nat × α) → List (Nat × α)
  | [] => []
  | y :: ys => if y.1 = k then dedupLeavesFrom k ys else y :: dedupLeavesFrom y.1 ys

/-- `dedup_by(|a, b| a.0 == b.0)`: of consecutive equal positions the first is kept -/
def dedupLeaves {α : Type} : List (Nat × α) → List (Nat × α)
  | [] => []
  | x :: rest => x :: dedupLeavesFrom x.1 rest

/-- `calculate_peak_root`: `(root, remaining proof)` -/
def calcPeakLoop {α : Type} (merge : α → α → α) (peakPos : Nat) :
    Nat → List (Nat × α × Nat) → List α → Option (α × List α)
  | 0, _, _ => none
  | _ + 1, [], _ => none
  | f + 1, (pos, item, height) :: queue, proof =>
    if pos = peakPos then
      if queue.isEmpty then some (item, proof) else none
    else
      let (sib, parent, isRight) := sibParent pos height
      let step : Option (α × List (Nat × α × Nat) × List α) :=
        match queue with
        | (p, it, _) :: qrest =>
          if p = sib then some (it, qrest, proof)
          else match proof with
            | e :: prest => some (e, queue, prest)
            | [] => none
        | [] =>
          match proof with
          | e :: prest => some (e, [], prest)
          | [] => none
      match step with
      | none => none
      | some (sibItem, queue', proof') =>
        let parentItem := if isRight then merge sibItem item else merge item sibItem
        if parent ≤ peakPos then
          calcPeakLoop merge peakPos f (queue' ++ [(parent, parentItem, height + 1)]) proof'
        else none

/-- the `for peak_pos in peaks` loop of `calculate_peaks_hashes`:
returns `(remaining leaves, remaining proof, peaks hashes)` -/
def calcPeaksLoop {α : Type} (merge : α → α → α) :
    List Nat → List (Nat × α) → List α → List α → Option (List (Nat × α) × List α × List α)
  | [], leaves, proof, acc => some (leaves, proof, acc)
  | peakPos :: peaks, leaves, proof, acc =>
    let mine := leaves.takeWhile (fun l => l.1 ≤ peakPos)
    let rest := leaves.dropWhile (fun l => l.1 ≤ peakPos)
    match mine with
    | [] =>
      match proof with
      | e :: prest => calcPeaksLoop merge peaks rest prest (acc ++ [e])
      | [] => some (rest, [], acc)      -- `break`
    | [(p, item)] =>
      if p = peakPos then calcPeaksLoop merge peaks rest proof (acc ++ [item])
      else
        match calcPeakLoop merge peakPos (peakFuel peakPos 1) [(p, item, 0)] proof with
        | none => none
        | some (r, proof') => calcPeaksLoop merge peaks rest proof' (acc ++ [r])
    | _ =>
      match calcPeakLoop merge peakPos (peakFuel peakPos mine.length)
              (mine.map fun l => (l.1, l.2, 0)) proof with
      | none => none
      | some (r, proof') => calcPeaksLoop merge peaks rest proof' (acc ++ [r])

def calculatePeaksHashes {α : Type} (merge : α → α → α) (leaves : List (Nat × α)) (mmrSize : Nat)
    (proof : List α) : Option (List α) :=
  if leaves.any (fun l => posHeightInTree l.1 > 0) then none
  else if mmrSize = 1 ∧ leaves.length = 1 ∧ (leaves.map (·.1)) = [0] then some (leaves.map (·.2))
  else
    let leaves := dedupLeaves (sortLeaves leaves)
    match calcPeaksLoop merge (getPeaks mmrSize) leaves proof [] with
    | none => none
    | some (remLeaves, remProof, hashes) =>
      if !remLeaves.isEmpty then none
      else
        match remProof with
        | [] => some hashes
        | [e] => some (hashes ++ [e])
        | _ => none

/-- `bagging_peaks_hashes` (same loop as `bag_rhs_peaks`) -/
def baggingPeaksHashes {α : Type} (merge : α → α → α) (hashes : List α) : Option α :=
  bagRhsPeaks merge hashes

/-- `calculate_root(leaves, mmr_size, proof)` -/
def calculateRoot {α : Type} (merge : α → α → α) (leaves : List (Nat × α)) (mmrSize : Nat)
    (proof : List α) : Option α :=
  match calculatePeaksHashes merge leaves mmrSize proof with
  | none => none
  | some hashes => baggingPeaksHashes merge hashes

/-- `MerkleProof::verify(root, leaves)`: `none` = `Err`. -/
def verify {α : Type} [DecidableEq α] (merge : α → α → α) (mmrSize : Nat) (proof : List α) (root : α)
    (leaves : List (Nat × α)) : Option Bool :=
  match calculateRoot merge leaves mmrSize proof with
  | none => none
  | some r => some (decide (r = root))

/-! ## `MMRBatch` (mmr_store.rs): the in-memory overlay that `push` really writes to

The functions above write through to the store map. The crate instead appends each push's elements
to `memory_batch` and only `commit` copies them into the store; reads (`get_elem`) scan the batch
from the newest entry backwards. `Lemmas/MMRBatch.lean` proves the two views equal. -/

/-- `MMRBatch::get_elem`: newest entry first; `continue` while `pos` lies before the entry, answer
from the entry that contains `pos`, otherwise (`break`) fall through to the store -/
def batchScan {α : Type} (st : Store α) (pos : Nat) : List (Nat × List α) → Option α
  | [] => st pos
  | (start, elems) :: older =>
    if pos < start then batchScan st pos older
    else if pos < start + elems.length then elems[pos - start]?
    else st pos

/-- `batch` is kept oldest-first, as `memory_batch` is -/
def batchGet {α : Type} (batch : List (Nat × List α)) (st : Store α) (pos : Nat) : Option α :=
  batchScan st pos batch.reverse

/-- `MMRBatch::commit`: `store.append(pos, elems)` for every entry, oldest first -/
def batchCommit {α : Type} (batch : List (Nat × List α)) (st : Store α) : Store α :=
  batch.foldl (fun s e => s.append e.1 e.2) st

/-- the MMR object as the crate has it: size, uncommitted batch, underlying store -/
structure BMMR (α : Type) where
  size : Nat
  batch : List (Nat × List α)
  store : Store α

/-- `find_elem` over the batch -/
def findElemB {α : Type} (m : BMMR α) (pos : Nat) (hashes : List α) : Option α :=
  if m.size ≤ pos then
    match hashes[pos - m.size]? with
    | some e => some e
    | none => batchGet m.batch m.store pos
  else batchGet m.batch m.store pos

def pushLoopB {α : Type} (merge : α → α → α) (m : BMMR α) :
    Nat → Nat → Nat → List α → Option (Nat × List α)
  | 0, pos, _, elems => some (pos, elems)
  | f + 1, pos, height, elems =>
    if posHeightInTree (pos + 1) > height then
      let pos' := pos + 1
      let leftPos := pos' - parentOffset height
      let rightPos := leftPos + siblingOffset height
      match findElemB m leftPos elems, findElemB m rightPos elems with
      | some l, some r => pushLoopB merge m f pos' (height + 1) (elems ++ [merge l r])
      | _, _ => none
    else some (pos, elems)

/-- `MMR::push` exactly as written: `self.batch.append(elem_pos, elems); self.mmr_size = pos + 1` -/
def pushB {α : Type} (merge : α → α → α) (m : BMMR α) (elem : α) : Option (BMMR α × Nat) :=
  match pushLoopB merge m (m.size + 2) m.size 0 [elem] with
  | none => none
  | some (pos, elems) => some ({ size := pos + 1, batch := m.batch ++ [(m.size, elems)], store := m.store }, m.size)

/-- several pushes on one MMR object (what `reconcile_main_chain` does before its single `commit`) -/
def pushAllB {α : Type} (merge : α → α → α) (m : BMMR α) : List α → Option (BMMR α)
  | [] => some m
  | e :: es =>
    match pushB merge m e with
    | none => none
    | some (m', _) => pushAllB merge m' es

/-- the write-through view of a batched MMR -/
def BMMR.flat {α : Type} (m : BMMR α) : MMR α := { size := m.size, store := batchCommit m.batch m.store }

/-! ## `BlockExtensionVerifier::verify` (verification/contextual/src/contextual_block_verifier.rs) -/

inductive ExtVerdict where
  | ok | noBlockExtension | unknownFields | emptyBlockExtension | exceededMaximum
  | invalidBlockExtension | invalidChainRoot | invalidExtraHash | internalMMR
  deriving DecidableEq, Repr

/-- The decision of `BlockExtensionVerifier::verify`, in the order of the code. `extraFields` is
`count_extra_fields()`, `extLen` the extension's byte length (`none`: field present but unreadable),
`rootAvailable` whether `chain_root_mmr.get_root()` succeeded, `prefixIsRoot` whether the first
`CHAIN_ROOT_BYTES` bytes equal `root.calc_mmr_hash()`, `extraHashOk` the final extra-hash check. -/
def extensionVerdict (mmrActive : Bool) (extraFields : Nat) (extLen : Option Nat)
    (rootAvailable prefixIsRoot extraHashOk : Bool) : ExtVerdict :=
  let tail : ExtVerdict := if extraHashOk then .ok else .invalidExtraHash
  match extraFields with
  | 0 => if mmrActive then .noBlockExtension else tail
  | 1 =>
    match extLen with
    | none => .unknownFields
    | some len =>
      if len = 0 then .emptyBlockExtension
      else if len > Gen.MMR.MAX_EXTENSION_BYTES then .exceededMaximum
      else if mmrActive then
        if len < Gen.MMR.CHAIN_ROOT_BYTES then .invalidBlockExtension
        else if !rootAvailable then .internalMMR
        else if !prefixIsRoot then .invalidChainRoot
        else tail
      else tail
  | _ => .unknownFields

/-! ## the free term algebra (what the driver prints) -/

inductive Term where
  | leaf (id : Nat)
  | node (l r : Term)
  deriving DecidableEq, Repr

def Term.render : Term → String
  | .leaf i => s!"L{i}"
  | .node l r => "[" ++ l.render ++ "|" ++ r.render ++ "]"

/-! ## specification side: the root as a function of the leaf list only -/

/-- mountains, lowest (= rightmost, most recent) first: `(height, root of the perfect tree)` -/
abbrev Mountains (α : Type) := List (Nat × α)

/-- binary-counter carry: merge equal-height neighbours (left operand = older mountain) -/
def carry {α : Type} (merge : α → α → α) : Nat → α → Mountains α → Mountains α
  | h, v, [] => [(h, v)]
  | h, v, (h', v') :: rest =>
    if h' = h then carry merge (h + 1) (merge v' v) rest else (h, v) :: (h', v') :: rest

def specPush {α : Type} (merge : α → α → α) (ms : Mountains α) (x : α) : Mountains α :=
  carry merge 0 x ms

/-- the mountains of a leaf list: a function of the leaves only -/
def specMountains {α : Type} (merge : α → α → α) (leaves : List α) : Mountains α :=
  leaves.foldl (specPush merge) []

/-- bag right to left: start from the rightmost mountain, `merge_peaks(acc, next-left)` -/
def specBag {α : Type} (merge : α → α → α) : Mountains α → Option α
  | [] => none
  | (_, r) :: rest => some (rest.foldl (fun acc m => mergePeaks merge acc m.2) r)

/-- the chain root of a leaf list -/
def specRoot {α : Type} (merge : α → α → α) (leaves : List α) : Option α :=
  specBag merge (specMountains merge leaves)

/-- size of the MMR holding these mountains -/
def mountainsSize {α : Type} (ms : Mountains α) : Nat :=
  (ms.map fun m => 2 ^ (m.1 + 1) - 1).sum

end CkbVerif.MMR
