import CkbVerif.Gen.RulesBody
import CkbVerif.Model.Rules

/-!
# The block body as the non-contextual verifiers read it (C03, round 5)

`Model/Rules.lean` states the cellbase / duplicate / reward rules over *features* of a block
(`nCellbase`, `firstIsCellbase`, `cbDataEmpty`, `cbWitnessOk`, `cbLockOk`, `cbSince`, `rewardInsufficient`,
…). Until round 5 the harness computed those features with its own re-implementation of the
conditions; here they are *derived inside the model* from the structure of the transactions, following
the code as written:

* `util/gen-types/src/extension/shortcut.rs` — `Transaction::is_cellbase`: exactly one input, exactly
  one witness, and the input's previous output is the null out-point (`OutPoint::is_null`: zero hash
  and index `u32::MAX`).
* `verification/src/block_verifier.rs` — `CellbaseVerifier::verify`, every branch in the code's order
  (`cellbaseCheckBody`), `DuplicateVerifier` (`hasDup` over the transaction hashes / proposal ids).
* `util/gen-types/src/core.rs` — `ScriptHashType::try_from(u8)` (`from_repr`: `Type = 1`, `Data = 0`,
  `Data1 = 2`, `Data2 = 4`, `DataN = N << 1` for `N in 3..=127`) and
  `util/constant/src/consensus.rs` — `ENABLED_SCRIPT_HASH_TYPE` (both regenerated from the source:
  `Gen/RulesBody.lean`).
* `util/types/src/core/views.rs` / `util/gen-types/src/extension/capacity.rs` — `CellOutput::
  occupied_capacity` and `is_lack_of_capacity` for the reward probe cell of `RewardVerifier`
  (`capacity field 8 bytes + lock (32 + 1 + args) bytes`, no type script, no data; checked
  arithmetic: an overflow is an error, which `RewardVerifier` propagates with `?`).

What stays an input: the molecule parse verdict of the cellbase witness (`CellbaseWitness::from_slice`
— `Wit.malformed`), hashes (transaction hash, proposal short id) as small identifiers.
-/
namespace CkbVerif.Rules
open CkbVerif.Gen.RulesBody

/-- one `CellInput`: is `previous_output` the null out-point, and the `since` field -/
structure TxIn where
  prevNull : Bool
  since : Nat
deriving DecidableEq, Repr, Inhabited

/-- one `CellOutput`: `type_().is_some()` and the byte `lock().hash_type()` -/
structure TxOut where
  hasType : Bool
  lockHashType : Nat
deriving DecidableEq, Repr, Inhabited

/-- `witnesses().get(0)` as `CellbaseVerifier` reads it -/
inductive Wit
  /-- no witness at index 0 -/
  | absent
  /-- `CellbaseWitness::from_slice` fails -/
  | malformed
  /-- a well-formed `CellbaseWitness`; the byte `lock().hash_type()` -/
  | lock (hashType : Nat)
deriving DecidableEq, Repr, Inhabited

structure Tx where
  /-- `tx.hash()` -/
  id : Nat
  /-- `tx.proposal_short_id()` -/
  shortId : Nat := 0
  inputs : List TxIn := []
  outputs : List TxOut := []
  /-- lengths of `outputs_data` -/
  datas : List Nat := []
  /-- `witnesses().len()` -/
  nWitnesses : Nat := 0
  wit0 : Wit := .absent
deriving Repr, Inhabited

/-- `ScriptHashType::from_repr(v).is_some()` for a byte `v` -/
def hashTypeKnown (v : Nat) : Bool :=
  v == HASH_TYPE_TYPE || v == HASH_TYPE_DATA || v == HASH_TYPE_DATA1 || v == HASH_TYPE_DATA2 ||
  (v % (2 ^ HASH_TYPE_DATA_N_SHIFT) == 0 &&
    decide (HASH_TYPE_DATA_N_FIRST ≤ v / (2 ^ HASH_TYPE_DATA_N_SHIFT)) &&
    decide (v / (2 ^ HASH_TYPE_DATA_N_SHIFT) ≤ HASH_TYPE_DATA_N_LAST))

/-- `ENABLED_SCRIPT_HASH_TYPE.contains(&val)` -/
def hashTypeInEnabledSet (v : Nat) : Bool :=
  v == ENABLED_HASH_TYPE_0 || v == ENABLED_HASH_TYPE_1 || v == ENABLED_HASH_TYPE_2 || v == ENABLED_HASH_TYPE_3_LAST

/-- `ScriptHashType::try_from(byte).ok().and_then(|t| ENABLED_SCRIPT_HASH_TYPE.contains(&t.into()).then_some(()))` -/
def hashTypeEnabled (v : Nat) : Bool := hashTypeKnown v && hashTypeInEnabledSet v

/-- `Transaction::is_cellbase` -/
def Tx.isCellbase (t : Tx) : Bool :=
  t.inputs.length == 1 && t.nWitnesses == 1 &&
  match t.inputs with
  | i :: _ => i.prevNull
  | [] => false

/-- the `witnesses().get(0).and_then(..).is_none()` test of `CellbaseVerifier` (true = passes) -/
def Tx.cbWitnessOk (t : Tx) : Bool :=
  match t.wit0 with
  | .lock ht => hashTypeEnabled ht
  | _ => false

/-- `outputs_data().get(0).map(|data| data.is_empty()).unwrap_or(true)` over the data lengths -/
def firstDataEmpty : List Nat → Bool
  | d :: _ => d == 0
  | [] => true

/-- `CellbaseVerifier::verify` on the structure of the transactions, branch by branch -/
def cellbaseCheckBody (number : Nat) (txs : List Tx) : Option Err :=
  if number == 0 then none else
  if (txs.filter Tx.isCellbase).length != 1 then some .cbQuantity else
  match txs with
  | [] => some .cbQuantity   -- not reachable: the count above is 0 (the code would index `[0]`)
  | cb :: _ =>
    if !cb.isCellbase then some .cbPosition else
    if cb.outputs.length > 1 || cb.datas.length > 1 || cb.outputs.length != cb.datas.length then some .cbOutputQuantity else
    if !firstDataEmpty cb.datas then some .cbOutputData else
    if !cb.cbWitnessOk then some .cbWitness else
    if cb.outputs.any (·.hasType) then some .cbTypeScript else
    if !cb.outputs.all (fun o => hashTypeEnabled o.lockHashType) then some .cbOutputLock else
    -- `cellbase_input != &CellInput::new_cellbase_input(number)`: whole-input comparison
    if cb.inputs.head? != some ⟨true, number⟩ then some .cbInput else
    none

/-- the features of `Model/Rules.lean` derived from the transactions (what `describe` of the harness
used to compute) -/
def Blk.withTxs (b : Blk) (txs : List Tx) : Blk :=
  let cb := txs.head?
  { b with
    nCellbase := (txs.filter Tx.isCellbase).length
    firstIsCellbase := (cb.map Tx.isCellbase).getD false
    cbOutputs := (cb.map (·.outputs.length)).getD 0
    cbOutputsData := (cb.map (·.datas.length)).getD 0
    cbDataEmpty := match cb with
      | some t => firstDataEmpty t.datas
      | none => true
    cbWitnessOk := (cb.map Tx.cbWitnessOk).getD false
    cbNoType := match cb with
      | some t => !t.outputs.any (·.hasType)
      | none => true
    cbLockOk := match cb with
      | some t => t.outputs.all (fun o => hashTypeEnabled o.lockHashType)
      | none => true
    /- `cbSince` is compared with `number`; the code compares the whole input with
    `new_cellbase_input(number)`, but that branch is only reached by a transaction that passed
    `is_cellbase`, whose single input has the null out-point (see `cellbaseCheck_withTxs`) -/
    cbSince := match cb.bind (·.inputs.head?) with
      | some i => i.since
      | none => 0
    txIds := txs.map (·.id)
    committed := (txs.drop 1).map (·.shortId) }

/-! ## the reward probe cell (`RewardVerifier`) -/

/-- `u64::MAX + 1` -/
def u64Bound : Nat := 18446744073709551616

/-- `Capacity::bytes(n)`: shannons of `n` bytes; `none` when `checked_mul` leaves `u64` -/
def capacityBytes (n : Nat) : Option Nat :=
  if n * BYTE_SHANNONS < u64Bound then some (n * BYTE_SHANNONS) else none

/-- `CellOutput { capacity: total, lock: target_lock, type_: None }.occupied_capacity(Capacity::zero())`
for a lock with `lockArgs` bytes of arguments: `bytes(8)` (capacity field) `safe_add` the lock's
`bytes(args + 32 + 1)`; `none` = a checked operation overflowed (an `Err`) -/
def probeOccupied (lockArgs : Nat) : Option Nat :=
  match capacityBytes CELL_CAPACITY_FIELD_BYTES, capacityBytes (lockArgs + SCRIPT_FIXED_BYTES) with
  | some a, some l => if l + a < u64Bound then some (l + a) else none
  | _, _ => none

/-- `output.is_lack_of_capacity(Capacity::zero())` of `RewardVerifier`: `occupied > capacity` -/
def rewardLack (total lockArgs : Nat) : Option Bool :=
  (probeOccupied lockArgs).map fun occ => decide (occ > total)

end CkbVerif.Rules
