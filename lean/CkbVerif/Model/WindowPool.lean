import CkbVerif.Model.WindowConsumers

/-!
# The tx-pool as a consumer of the proposal view: the whole-pool stage transition (C20)

Follows the code as written, for independent transactions (no ancestor links, so
`remove_entry_and_descendants` removes the entry alone; no expiry, no size pressure):

* `tx-pool/src/process.rs` — `_submit_entry(status, entry)`: the entry is filed by the `TxStatus`
  that `resolve_tx` → `get_tx_status(snapshot, short_id)` returned (`poolSubmit`); an id that is
  already pooled is refused (`Reject::Duplicated`), the pool is unchanged.
* `tx-pool/src/process.rs` — `update_tx_pool_for_reorg(detached_blocks, attached_blocks,
  detached_proposal_id, snapshot)`, in this order (`poolReorg`):
  1. `retain = detached.difference(&attached)` (transactions of detached blocks that the attached
     blocks do not commit again),
  2. `_update_tx_pool_for_reorg`: `remove_committed_txs(attached)`; `remove_by_detached_proposal`
     and the mine-mode moves gap → proposed, pending → proposed / gap (`stageAfter`, per entry),
  3. `readd_detached_tx(retain)`: every retained transaction is resolved against the NEW snapshot and
     filed by `get_tx_status` (`poolSubmit` on the new view).
* `chain/src/verify.rs` — the chain service hands `fork.detached_blocks()`, `fork.attached_blocks()`,
  `fork.detached_proposal_id()` (= `finalize`'s removed ids) and the new snapshot to the pool
  (`pswitch`).

A pool is a list of `(proposal short id, stage)`; the node keeps, beside the proposal ids of every
main-chain block, the ids of the transactions it commits (`commits`, parallel to `chain`).
-/
namespace CkbVerif.Window

abbrev PoolSt := List (Nat × Stage)

/-- `pool_map.get_by_id(id).is_some()` -/
def PoolSt.has (p : PoolSt) (x : Nat) : Bool := p.any (fun e => e.1 == x)

/-- `_submit_entry` with the status `get_tx_status` gives on view `v`; a pooled id is refused -/
def poolSubmit (v : View) (p : PoolSt) (x : Nat) : PoolSt :=
  if p.has x then p else p ++ [(x, (txStatus v x).stage)]

/-- `update_tx_pool_for_reorg`: `attached` / `detached` = ids of the transactions committed by the
attached / detached blocks, `removed` = `detached_proposal_id`, `v` = the new snapshot's view. -/
def poolReorg (removed : Ids) (v : View) (attached detached : Ids) (p : PoolSt) : PoolSt :=
  let retain := detached.filter (fun x => !attached.contains x)
  let p1 := p.filter (fun e => !attached.contains e.1)
  let p2 := p1.map (fun e => (e.1, stageAfter removed v e.2 e.1))
  retain.foldl (poolSubmit v) p2

/-- node with the tx-pool service: `commits[n]` = ids of the transactions block `n` commits -/
structure PNode where
  node : Node
  commits : List Ids
  pool : PoolSt
deriving Repr

/-- first start on a genesis-only store, empty pool -/
def pboot (w : Win) : PNode := { node := init w [[]], commits := [[]], pool := [] }

/-- `submit_local_tx` of a transaction with short id `x` at the current tip -/
def psubmit (s : PNode) (x : Nat) : PNode := { s with pool := poolSubmit s.node.view s.pool x }

/-- one main-chain change (`verify_block`, new best block) with the pool notified: `branch` = union
proposal ids of ALL attached blocks, `bcommits` = the ids they commit (block by block) -/
def pswitch (w : Win) (s : PNode) (common : Nat) (branch : List Ids) (bcommits : List Ids) : PNode :=
  let r := switch w s.node common branch
  let detached := (s.commits.drop (common + 1)).flatten
  let attached := bcommits.flatten
  { node := r.1
    commits := s.commits.take (common + 1) ++ bcommits
    pool := poolReorg r.2 r.1.view attached detached s.pool }

/-- the transactions `get_block_template` may package: pooled entries staged Proposed -/
def PoolSt.proposedIds (p : PoolSt) : Ids := (p.filter (fun e => e.2 == .proposed)).map (·.1)

def Stage.label : Stage → String
  | .pending => "pending"
  | .gap => "gap"
  | .proposed => "proposed"

end CkbVerif.Window
