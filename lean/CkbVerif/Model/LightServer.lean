import CkbVerif.Gen.LightServer
/-!
# Light-client protocol server — request handling as decision functions (C19)

Follows `util/light-client-protocol-server/src/components/{get_last_state_proof,get_blocks_proof,
get_transactions_proof}.rs` and `src/lib.rs` (`reply_proof`, `reply_tip_state`) as written: same
order of checks, same early returns. Status codes are mapped to what a peer observes
(`Status::should_ban`: 4xx = the peer is banned and nothing is sent; 5xx = nothing is sent).

Abstractions: `U256` total difficulties and `u64` block numbers are `Nat`; the snapshot is seen
through `td : Nat → Option Nat` (`BlockSampler::get_block_total_difficulty`: the total difficulty
of main-chain block `n`, `none` above the tip). `u64` subtractions the code performs are written
with truncated subtraction where the guards in front of them make the operands ordered (stated at
each place).
-/
namespace CkbVerif.LightServer

/-- what the peer observes -/
inductive Outcome (ρ : Type) where
  /-- `StatusCode` 4xx: `nc.ban_peer`, nothing sent -/
  | banned
  /-- `StatusCode` 5xx: warning in the log, nothing sent -/
  | err
  /-- `reply_tip_state`: last hash not on the main chain, the tip header is sent -/
  | tip
  /-- `reply_proof` with this payload -/
  | reply (r : ρ)
  deriving DecidableEq, Repr

/-! ## `FindBlocksViaDifficulties` -/

abbrev TD := Nat → Option Nat

/-- the `loop` of `get_first_block_total_difficulty_is_not_less_than`; the Rust loop has no fuel:
`first_not_less_total` shows `end - start` iterations always suffice -/
def firstLoop (td : TD) (minD : Nat) : Nat → Nat → Nat → Nat → Option (Nat × Nat)
  | 0, _, _, _ => none
  | f + 1, lessN, greaterN, endTd =>
    if greaterN = lessN + 1 then some (greaterN, endTd)
    else
      let next := (lessN + greaterN) / 2
      match td next with
      | none => none
      | some d =>
        if d = minD then some (next, d)
        else if d < minD then firstLoop td minD f next greaterN endTd
        else firstLoop td minD f lessN next d

/-- `get_first_block_total_difficulty_is_not_less_than(start, end, min)`; `end - 1`: every caller
passes `end ≥ 1` (see `lspNumbers`) -/
def firstNotLess (td : TD) (start end_ minD : Nat) : Option (Nat × Nat) :=
  match td start with
  | none => none
  | some sd =>
    if sd ≥ minD then some (start, sd)
    else
      match td (end_ - 1) with
      | none => none
      | some ed =>
        if ed < minD then none
        else firstLoop td minD (end_ - start) start (end_ - 1) ed

/-- the `for difficulty in difficulties` loop of `get_block_numbers_via_difficulties`:
state = (`start_block_number`, `current_difficulty`), result = the pushed numbers -/
def viaDifficulties (td : TD) (end_ : Nat) : Nat → Nat → List Nat → Option (List Nat)
  | _, _, [] => some []
  | start, cur, d :: ds =>
    if cur ≥ d then viaDifficulties td end_ start cur ds
    else
      match firstNotLess td start end_ d with
      | none => none
      | some (num, diff) =>
        let start' := if num > start then num - 1 else start
        match viaDifficulties td end_ start' diff ds with
        | none => none
        | some rest => some (num :: rest)

/-- `(a..b).collect()` -/
def rangeFrom (a b : Nat) : List Nat := (List.range (b - a)).map (· + a)

/-- `difficulties.windows(2).any(|d| d[0] >= d[1])` -/
def notIncreasing : List Nat → Bool
  | a :: b :: rest => a ≥ b || notIncreasing (b :: rest)
  | _ => false

structure LspReq where
  /-- `snapshot.is_main_chain(&last_block_hash)` -/
  lastOnMain : Bool
  /-- `last_block.number()` -/
  last : Nat
  /-- `start_number` -/
  start : Nat
  /-- `get_ancestor(&last_hash, start_number).hash() == start_hash` -/
  startMatches : Bool
  lastN : Nat
  boundary : Nat
  difficulties : List Nat

/-- `reorg_last_n_numbers`: when the client's start block is not on this chain, the `last_n` blocks before it -/
def lspReorg (r : LspReq) : List Nat :=
  if r.start = 0 ∨ r.startMatches then [] else rangeFrom (r.start - min r.start r.lastN) r.start

/-- "Check the request data": `some o` = early return -/
def lspCheck (td : TD) (r : LspReq) : Option (Outcome (List Nat)) :=
  if notIncreasing r.difficulties then some .banned
  else if (match r.difficulties.getLast? with | some d => decide (d ≥ r.boundary) | none => false) then some .banned
  else
    -- "the first difficulty should be greater than the total difficulty before the start block"
    match r.difficulties.head? with
    | some d0 =>
      if r.start > 0 then
        match td (r.start - 1) with
        | some t => if t ≥ d0 then some .banned else none
        | none => some .err
      else none
    | none => none

/-- `(sampled_numbers, last_n_numbers)` -/
def lspSample (td : TD) (r : LspReq) : Outcome (List Nat × List Nat) :=
  if r.last - r.start ≤ r.lastN then .reply ([], rangeFrom r.start r.last)
  else
    -- here `last - start > last_n ≥ 0`, so `last ≥ 1` and `last - 1` does not wrap
    match firstNotLess td r.start r.last r.boundary with
    | none => .banned                  -- InvaildDifficultyBoundary (413)
    | some (bn0, _) =>
      -- "not enough blocks after the difficulty boundary, so we take more"
      let bn := if r.last - bn0 < r.lastN then r.last - r.lastN else bn0
      let lastNs := rangeFrom bn r.last
      if bn > 0 then
        match td (bn - 1) with
        | none => .err
        | some t =>
          match viaDifficulties td bn r.start 0 (r.difficulties.takeWhile (· ≤ t)) with
          | some sampled => .reply (sampled, lastNs)
          | none => .err
      else .reply ([], lastNs)

/-- `GetLastStateProofProcess::execute`: the block numbers whose headers are sent (and proved),
in the order `reorg_last_n_numbers ++ sampled_numbers ++ last_n_numbers` -/
def lspNumbers (td : TD) (r : LspReq) : Outcome (List Nat) :=
  if r.lastN > Gen.LightServer.GET_LAST_STATE_PROOF_LIMIT
      ∨ r.difficulties.length + r.lastN * Gen.LightServer.LAST_N_FACTOR > Gen.LightServer.GET_LAST_STATE_PROOF_LIMIT then .banned
  else if !r.lastOnMain then .tip
  else if r.start > r.last then .banned
  else
    match lspCheck td r with
    | some o => o
    | none =>
      match lspSample td r with
      | .banned => .banned
      | .err => .err
      | .tip => .tip
      | .reply (sampled, lastNs) =>
        let numbers := lspReorg r ++ sampled ++ lastNs
        -- `complete_headers`: `get_ancestor(last_hash, number)` is `None` above the last block
        if numbers.any (· > r.last) then .err
        -- `reply_proof`: genesis as the last block proves nothing
        else if r.last = 0 ∧ !numbers.isEmpty then .banned
        else .reply numbers

/-! ## `GetBlocksProofProcess::execute` -/

structure BpReply where
  /-- the requested hashes on the main chain, in request order (their headers are sent) -/
  found : List Nat
  /-- the others, in request order (`missing_block_hashes`) -/
  missing : List Nat
  deriving DecidableEq, Repr

/-- ids stand for hashes; `onMain` = `snapshot.is_main_chain` -/
def bpDecision (onMain : Nat → Bool) (isGenesis : Nat → Bool) (last : Nat) (ids : List Nat) : Outcome BpReply :=
  if ids.isEmpty then .banned                                        -- "no block"
  else if ids.length > Gen.LightServer.GET_BLOCKS_PROOF_LIMIT then .banned -- "too many blocks"
  else if !onMain last then .tip
  else if (ids ++ [last]).eraseDups.length ≠ ids.length + 1 then .banned   -- "duplicate block hash exists"
  else
    let found := ids.filter onMain
    let missing := ids.filter (fun i => !onMain i)
    -- `reply_proof`: with the genesis block as the last block no item can be proved
    if isGenesis last ∧ !found.isEmpty then .banned
    else .reply ⟨found, missing⟩

/-! ## `GetTransactionsProofProcess::execute` -/

structure TpReply where
  /-- per block (in the order of first appearance in the request — the real code iterates a
  `HashMap`, so the order of the filtered blocks is unspecified): block id and the found
  transactions of that block with their index, in request order -/
  blocks : List (Nat × List (Nat × Nat))
  missing : List Nat
  deriving DecidableEq, Repr

/-- insert `(tx, index)` into the group of `blk` (`entry(block_hash).or_insert_with(Vec::new).push`) -/
def groupInsert (blk : Nat) (e : Nat × Nat) : List (Nat × List (Nat × Nat)) → List (Nat × List (Nat × Nat))
  | [] => [(blk, [e])]
  | (b, es) :: rest => if b = blk then (b, es ++ [e]) :: rest else (b, es) :: groupInsert blk e rest

/-- `txInfo tx` = `get_transaction_info`: the block that holds the transaction in
COLUMN_TRANSACTION_INFO (the most recently attached one) and its index there -/
def tpDecision (onMain : Nat → Bool) (isGenesis : Nat → Bool) (txInfo : Nat → Option (Nat × Nat))
    (last : Nat) (txs : List Nat) : Outcome TpReply :=
  if txs.isEmpty then .banned
  else if txs.length > Gen.LightServer.GET_TRANSACTIONS_PROOF_LIMIT then .banned
  else if !onMain last then .tip
  else if txs.eraseDups.length ≠ txs.length then .banned
  else
    let isFound := fun t => match txInfo t with | some (b, _) => onMain b | none => false
    let found := txs.filter isFound
    let missing := txs.filter (fun t => !isFound t)
    let blocks := found.foldl (fun acc t => match txInfo t with
      | some (b, i) => groupInsert b (t, i) acc
      | none => acc) []
    if isGenesis last ∧ !blocks.isEmpty then .banned
    else .reply ⟨blocks, missing⟩

end CkbVerif.LightServer
