/-
`reconcile_main_chain` as it is coded (core Lean only): the loop structure over
`fork.attached_blocks().iter().take(verified_len)` and
`fork.dirty_exts.iter().zip(fork.attached_blocks.iter().skip(verified_len))`
(`chain/src/verify.rs`), for valid blocks.  `Model/Store.lean`'s `reconcile` decides per block, by
looking at the block's own stored ext, whether to write `insert_ok_ext`; the code does not look:
it trusts the *position* of the ext in `dirty_exts`.  `Props/C02.lean` (`reconcile_zip_eq_reconcile`)
proves the two agree on the lists `find_fork` returns.
-/
import CkbVerif.Model.Store
import CkbVerif.Model.Fork
namespace CkbVerif.Store

/-- first loop: `txn.attach_block(b); attach_block_cell(&txn, b)` — the ext row is not touched -/
def attachVerified (v : View) (b : Block) : View :=
  ⟨attachCell (attach v.m (epochOf v.r b.id) b) b, v.r⟩

/-- second loop, a block that verifies: attach, then `insert_ok_ext(&b.hash(), ext.clone(), …)`
with the ext *taken from `dirty_exts`* -/
def attachDirty (v : View) (e : Ext) (b : Block) : View :=
  ⟨attachCell (attach v.m (epochOf v.r b.id) b) b, putExt v.r b.id (okExt e b)⟩

def attachVerifiedAll (v : View) : List Block → View
  | [] => v
  | b :: bs => attachVerifiedAll (attachVerified v b) bs

def attachDirtyAll (v : View) : List (Ext × Block) → View
  | [] => v
  | (e, b) :: ps => attachDirtyAll (attachDirty v e b) ps

/-- `reconcile_main_chain(fork)`: `exts` are the values `find_fork` collected in `dirty_exts`
(read from the store before anything was written), `blocks` = `attached_blocks` -/
def reconcileZip (v : View) (blocks : List Block) (exts : List Ext) : View :=
  let verifiedLen := blocks.length - exts.length
  attachDirtyAll (attachVerifiedAll v (blocks.take verifiedLen)) (exts.zip (blocks.drop verifiedLen))

end CkbVerif.Store
