import CkbVerif.Model.Molecule
import CkbVerif.Gen.Schemas
import CkbVerif.Gen.Codec
import CkbVerif.Gen.RelayVerifiers
/-!
# Compact-block relay (C16 c) and the message gates of the sync / relay handlers

* `gateSync` / `gateRelay` — the accept logic at the top of `Synchronizer::received` and
  `Relayer::received` (`sync/src/synchronizer/mod.rs`, `sync/src/relayer/mod.rs`): compatible
  decode first; `SendBlock` / `CompactBlock` may carry one extra field (the extension), every
  other message must also pass the strict decoder.
* `cbVerify` — `CompactBlockVerifier` (`sync/src/relayer/compact_block_verifier.rs`).
* `reconstruct` — `Relayer::reconstruct_block` (`sync/src/relayer/mod.rs`) over abstract
  transactions `{id, sid}` (identity incl. witnesses, short id), uncles identified by their header
  hash, and three opaque hash functions (`root`, `phash`, `ehash`).  `Block::into_view()` — which
  the code calls on the rebuilt block — *resets* `transactions_root`, `proposals_hash` and
  `extra_hash` in the header from the body; the model does the same (`resetHeader`).
Core Lean only.
-/
namespace CkbVerif.Compact
open CkbVerif.Molecule CkbVerif.Gen.Schemas CkbVerif.Gen.Codec

/-! ## gates -/

inductive Gate
  | strict (id : Nat)
  | compat (id : Nat)
  | tooManyFields
  | malformed
deriving Repr, DecidableEq

def declaredFields : Schema → Nat
  | .table fs => fs.length
  | _ => 0

/-- `count_extra_fields()` of a verified table reader -/
def extraFields (s : Schema) (bs : Bytes) : Nat := fieldCount bs - declaredFields s

def gateSync (bs : Bytes) : Gate :=
  if verify true S.SyncMessage bs then
    let id := num bs
    let inner := bs.drop 4
    if id = U.SyncMessage.SendBlock then
      let blk := (tableFieldBytes inner 0).getD []
      if fieldCount inner ≠ declaredFields S.SendBlock ∨ extraFields S.Block blk > SENDBLOCK_MAX_BLOCK_EXTRA_FIELDS then .tooManyFields
      else .compat id
    else if verify false S.SyncMessage bs then .strict id else .tooManyFields
  else .malformed

def gateRelay (bs : Bytes) : Gate :=
  if verify true S.RelayMessage bs then
    let id := num bs
    let inner := bs.drop 4
    if id = U.RelayMessage.CompactBlock then
      if extraFields S.CompactBlock inner > COMPACTBLOCK_MAX_EXTRA_FIELDS then .tooManyFields else .compat id
    else if verify false S.RelayMessage bs then .strict id else .tooManyFields
  else .malformed

/-! ## the extension slot -/

/-- `BlockReader::extra_field(index)` / `CompactBlock::extra_field(index)` for a table with `n`
declared fields: which header positions are read and which slice is taken -/
def extraFieldAccess (n index : Nat) (bs : Bytes) : Option Access :=
  let count := fieldCount bs - n
  if count > index then
    let i := (1 + n + index) * 4
    if count = index + 1 then some ⟨[0, 4, i], num (bs.drop i), bs.length⟩
    else some ⟨[0, 4, i, i + 4], num (bs.drop i), num (bs.drop (i + 4))⟩
  else none

/-- `extension()` (after the F16 repair): `None` unless the first extra field is a strictly valid
`Bytes`; never fails -/
def extensionOf (n : Nat) (bs : Bytes) : Option Bytes :=
  match extraFieldAccess n 0 bs with
  | some a =>
    let d := slice bs a.start a.stop
    if verify false S.Bytes d then some d else none
  | none => none

/-! ## compact blocks -/

structure Tx where
  id : Nat
  sid : Nat
deriving Repr, DecidableEq, Inhabited

structure Header where
  txRoot : Nat
  proposalsHash : Nat
  extraHash : Nat
  /-- every other header field (version, target, timestamp, number, epoch, parent, dao, nonce) -/
  other : Nat
deriving Repr, DecidableEq, Inhabited

structure CB where
  header : Header
  shortIds : List Nat
  prefilled : List (Nat × Tx)
  uncles : List Nat
  proposals : List Nat
  extension : Option Nat
deriving Repr, Inhabited

structure Block where
  header : Header
  uncles : List Nat
  txs : List Tx
  proposals : List Nat
  extension : Option Nat
deriving Repr, DecidableEq, Inhabited

/-- opaque hash functions -/
structure Hashes where
  root : List Tx → Nat
  phash : List Nat → Nat
  ehash : List Nat → Option Nat → Nat

inductive CbErr
  | noCellbase
  | outOfIndex
  | outOfOrder
  | dupShortIds
  | dupPrefilled
deriving Repr, DecidableEq

def txsLen (cb : CB) : Nat := cb.prefilled.length + cb.shortIds.length

def increasing : List Nat → Bool
  | a :: b :: rest => decide (a < b) && increasing (b :: rest)
  | _ => true

/-- `PrefilledVerifier` then `ShortIdsVerifier` -/
def cbVerify (cb : CB) : Option CbErr :=
  match cb.prefilled with
  | [] => some .noCellbase
  | (i0, _) :: _ =>
    if i0 ≠ 0 then some .noCellbase
    else if (cb.prefilled.getLast?.map (·.1)).getD 0 ≥ txsLen cb then some .outOfIndex
    else if ¬ increasing (cb.prefilled.map (·.1)) then some .outOfOrder
    else if ¬ cb.shortIds.Nodup then some .dupShortIds
    else if (cb.prefilled.drop 1).any (fun p => cb.shortIds.contains p.2.sid) then some .dupPrefilled
    else none

/-- a slot of the block body: a prefilled transaction or a short id still to resolve -/
inductive Slot
  | pre (t : Tx)
  | short (sid : Nat)
deriving Repr, DecidableEq

/-- "fill transactions gap … append remain transactions": the order in which the code pushes -/
def layoutGo : List (Nat × Tx) → List Nat → Nat → List Slot
  | [], sids, _ => sids.map .short
  | (idx, t) :: ps, sids, len =>
    let gap := idx - len
    (sids.take gap).map .short ++ (.pre t :: layoutGo ps (sids.drop gap) (len + (sids.take gap).length + 1))

def layout (cb : CB) : List Slot := layoutGo cb.prefilled cb.shortIds 0

/-- The same loop with the `usize` subtraction `index - block_transactions.len()` made explicit:
the gaps it computes, or `none` when the subtraction underflows (`index` below the number of
transactions already pushed) — a panic in a build with overflow checks, a gap of almost 2^64
swallowing every remaining short id otherwise.  `layoutGo` uses the truncated subtraction of
`Nat`; the two agree whenever this function answers `some` (`Lemmas/Compact.lean`). -/
def gapsChecked : List (Nat × Tx) → List Nat → Nat → Option (List Nat)
  | [], _, _ => some []
  | (idx, _) :: ps, sids, len =>
    if idx < len then none
    else
      let gap := idx - len
      (gapsChecked ps (sids.drop gap) (len + (sids.take gap).length + 1)).map (gap :: ·)

/-- `PrefilledVerifier`'s order loop with `idx0 > idx1` in place of `idx0 >= idx1` (equal neighbours
tolerated) — NOT the code; the variant `Props/C16.lean` shows to be unsafe -/
def nondecreasing : List Nat → Bool
  | a :: b :: rest => decide (a ≤ b) && nondecreasing (b :: rest)
  | _ => true

/-- `txs_map`: the first received transaction with that short id, else the pool's -/
def txsMap (cb : CB) (received : List Tx) (pool : Nat → Option Tx) (sid : Nat) : Option Tx :=
  if cb.shortIds.contains sid then
    match received.find? (fun t => t.sid == sid) with
    | some t => some t
    | none => pool sid
  else none

def resolve (m : Nat → Option Tx) : Slot → Option Tx
  | .pre t => some t
  | .short sid => m sid

inductive UncleSrc
  | have
  | missing
  | invalid
deriving Repr, DecidableEq

inductive Result
  | block (b : Block)
  | missing (txs : List Nat) (uncles : List Nat)
  | collided
  | unmatched
  | invalidUncle
  /-- the rebuilt block is not the block the compact header commits to (F19 repair) -/
  | invalidHeader
deriving Repr, DecidableEq

def allSome {α : Type} : List (Option α) → Option (List α)
  | [] => some []
  | none :: _ => none
  | some x :: rest => (allSome rest).map (x :: ·)

def noneIndexes {α : Type} : List (Option α) → Nat → List Nat
  | [], _ => []
  | none :: rest, i => i :: noneIndexes rest (i + 1)
  | some _ :: rest, i => noneIndexes rest (i + 1)

/-- `Block::into_view()` → `reset_header_with_hashes` -/
def resetHeader (h : Hashes) (hd : Header) (txs : List Tx) (proposals uncles : List Nat) (ext : Option Nat) : Header :=
  { hd with txRoot := h.root txs, proposalsHash := h.phash proposals, extraHash := h.ehash uncles ext }

/-- uncles loop: `uncles_index` positions come from the peer (`received`), the others from the
local chain by status; first invalid uncle aborts -/
def unclesGo (src : Nat → UncleSrc) (fromPeer : List Nat) : List Nat → Nat → Option (List Nat × List Nat)
  | [], _ => some ([], [])
  | u :: rest, i =>
    if fromPeer.contains i then
      (unclesGo src fromPeer rest (i + 1)).map (fun (us, ms) => (u :: us, ms))
    else
      match src u with
      | .invalid => none
      | .have => (unclesGo src fromPeer rest (i + 1)).map (fun (us, ms) => (u :: us, ms))
      | .missing => (unclesGo src fromPeer rest (i + 1)).map (fun (us, ms) => (us, i :: ms))

def reconstruct (h : Hashes) (cb : CB) (received : List Tx) (pool : Nat → Option Tx)
    (src : Nat → UncleSrc) (unclesFromPeer : List Nat) : Result :=
  let slots := (layout cb).map (resolve (txsMap cb received pool))
  match unclesGo src unclesFromPeer cb.uncles 0 with
  | none => .invalidUncle
  | some (uncles, missingUncles) =>
    match allSome slots, missingUncles with
    | some txs, [] =>
      let hd := resetHeader h cb.header txs cb.proposals uncles cb.extension
      if cb.header.txRoot ≠ hd.txRoot then
        if cb.shortIds.isEmpty ∨ cb.shortIds.length = received.length then .unmatched else .collided
      else if hd ≠ cb.header then .invalidHeader
      else .block { header := hd, uncles := uncles, txs := txs, proposals := cb.proposals, extension := cb.extension }
    | _, _ => .missing (noneIndexes slots 0) missingUncles

/-! ## the BlockTransactions exchange (`block_transactions_verifier.rs`, `block_uncles_verifier.rs`,
`BlockTransactionsProcess::execute`) — transactions are `Tx`, uncles are their header hashes -/

/-- `CompactBlock::block_short_ids()`: one entry per body position, `none` at the prefilled
positions, the short ids in order elsewhere (`short_ids().get(index)`: `none` past the list) -/
def blockShortIdsGo (pre : List Nat) (sids : List Nat) : Nat → Nat → Nat → List (Option Nat)
  | 0, _, _ => []
  | n + 1, i, index =>
    if pre.contains i then none :: blockShortIdsGo pre sids n (i + 1) index
    else sids[index]? :: blockShortIdsGo pre sids n (i + 1) (index + 1)

def blockShortIds (cb : CB) : List (Option Nat) :=
  blockShortIdsGo (cb.prefilled.map (·.1)) cb.shortIds (txsLen cb) 0 0

/-- `CompactBlock::short_id_indexes()` -/
def shortIdIndexes (cb : CB) : List Nat :=
  (List.range (txsLen cb)).filter (fun i => !(cb.prefilled.map (·.1)).contains i)

inductive BtxVerdict
  /-- `block_short_ids.get(index).expect("should never outbound")` -/
  | panic
  | lengthUnmatched
  | shortIdsUnmatched
  | ok
deriving Repr, DecidableEq

/-- the `filter_map` over the requested indexes: `none` = an index past `block_short_ids` (the
`expect` panics), prefilled positions are dropped -/
def missingShortIds (bsi : List (Option Nat)) : List Nat → Option (List Nat)
  | [] => some []
  | i :: rest =>
    match bsi[i]? with
    | none => none
    | some none => missingShortIds bsi rest
    | some (some sid) => (missingShortIds bsi rest).map (sid :: ·)

/-- `BlockTransactionsVerifier::verify(block, indexes, transactions)`; `oobPanics`: an index past
`block_short_ids` is unwrapped (`.expect("should never outbound")`, the code before /repo 804c7e9)
or answered with the length-mismatch status (since) -/
def btxVerifyWith (oobPanics : Bool) (cb : CB) (indexes : List Nat) (txs : List Tx) : BtxVerdict :=
  match missingShortIds (blockShortIds cb) indexes with
  | none => if oobPanics then .panic else .lengthUnmatched
  | some expected =>
    if expected.length ≠ txs.length then .lengthUnmatched
    else if expected ≠ txs.map (·.sid) then .shortIdsUnmatched
    else .ok

/-- the verifier before /repo 804c7e9 -/
def btxVerifyPreFix (cb : CB) (indexes : List Nat) (txs : List Tx) : BtxVerdict := btxVerifyWith true cb indexes txs

/-- the verifier as the source reads at check time (translator `bin/gen.d/relay_verifiers.py`) -/
def btxVerify (cb : CB) (indexes : List Nat) (txs : List Tx) : BtxVerdict :=
  btxVerifyWith CkbVerif.Gen.RelayVerifiers.BTX_INDEX_OUT_OF_BOUNDS_PANICS cb indexes txs

/-- `expected_ids`: `indexes.filter_map(|i| block.uncles().get(i))` -/
def expectedUncles (uncles : List Nat) (indexes : List Nat) : List Nat :=
  indexes.filterMap (fun i => uncles[i]?)

/-- the `zip` loop: the first pair that differs -/
def zipAllEq : List Nat → List Nat → Bool
  | a :: as, b :: bs => a == b && zipAllEq as bs
  | _, _ => true

/-- `BlockUnclesVerifier::verify` before /repo c09cedb: the length-mismatch status is built and
dropped (no `return`), only the pairwise comparison over the common prefix decides.
`true` = `Status::ok()` -/
def unclesVerifyPreFix (uncles : List Nat) (indexes : List Nat) (received : List Nat) : Bool :=
  zipAllEq (expectedUncles uncles indexes) received

/-- … with the `return` (since /repo c09cedb) -/
def unclesVerifyFixed (uncles : List Nat) (indexes : List Nat) (received : List Nat) : Bool :=
  (expectedUncles uncles indexes).length == received.length && zipAllEq (expectedUncles uncles indexes) received

/-- `BlockUnclesVerifier::verify` as the source reads at check time (the translator
`bin/gen.d/relay_verifiers.py` looks whether the length-mismatch status is returned) -/
def unclesVerify (uncles : List Nat) (indexes : List Nat) (received : List Nat) : Bool :=
  if CkbVerif.Gen.RelayVerifiers.UNCLES_LENGTH_MISMATCH_RETURNS then unclesVerifyFixed uncles indexes received
  else unclesVerifyPreFix uncles indexes received

/-- the uncles loop of `reconstruct_block` with `received_uncles.get(position).expect("have checked
the indexes")` explicit: the uncles taken from the peer, position by position; `none` = the `expect`
panics.  (Uncles not in `uncles_index` come from the chain or are reported missing: `unclesGo`.) -/
def unclesTake (fromPeer : List Nat) (received : List Nat) : List Nat → Nat → Nat → Option (List (Nat × Nat))
  | [], _, _ => some []
  | _ :: rest, i, position =>
    if fromPeer.contains i then
      match received[position]? with
      | none => none
      | some r => (unclesTake fromPeer received rest (i + 1) (position + 1)).map ((i, r) :: ·)
    else unclesTake fromPeer received rest (i + 1) position

end CkbVerif.Compact
