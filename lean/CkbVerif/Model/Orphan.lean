import CkbVerif.Gen.Sync

/-!
# Orphan block pool model (C17, stream `orphan`)

Follows `chain/src/utils/orphan_block_pool.rs` (`InnerPool::{insert, remove_blocks_by_parent,
clean_expired_blocks, need_clean}`).

Abstraction: the two indexes `blocks : parent → (hash → block)` and `parents : hash → parent` are
one relation here (`pool`, a list of blocks with their parent; `children` is the `blocks[q]`
lookup, `pooled` the `parents.contains_key` lookup). `leaders` is maintained separately exactly as
the code does. That `blocks` and `parents` stay in step is observed by the correspondence check
(`len()` reads `parents`, releases read `blocks`), not proved.

Block ids stand for hashes; a block's parent (and epoch) is a function of its id.
-/
namespace CkbVerif.Orphan

structure Blk where
  id : Nat
  parent : Nat
  epoch : Nat
deriving DecidableEq, Repr

structure Pool where
  pool : List Blk := []
  leaders : List Nat := []
deriving Repr

/-- `blocks.get(q)`: the pooled blocks whose parent is `q` -/
def children (pool : List Blk) (q : Nat) : List Blk :=
  pool.filter (fun b => b.parent == q)

/-- `parents.contains_key(h)` -/
def pooled (pool : List Blk) (h : Nat) : Bool :=
  pool.any (fun b => b.id == h)

/-- `InnerPool::insert` -/
def insert (s : Pool) (b : Blk) : Pool :=
  let pool' := b :: s.pool.filter (fun c => c.id != b.id)
  let l1 := s.leaders.filter (fun h => h != b.id)
  let l2 := if pooled s.pool b.parent then l1
            else if l1.contains b.parent then l1 else b.parent :: l1
  { pool := pool', leaders := l2 }

/-- the `while let Some(parent_hash) = queue.pop_front()` loop of `remove_blocks_by_parent`:
`(pool, queue, removed) ↦ (pool', removed')`; `fuel` bounds the iterations. -/
def bfs : Nat → List Blk → List Nat → List Blk → List Blk × List Blk
  | 0, pool, _, removed => (pool, removed)
  | _ + 1, pool, [], removed => (pool, removed)
  | fuel + 1, pool, q :: rest, removed =>
    let cs := children pool q
    bfs fuel (pool.filter (fun b => !(b.parent == q))) (rest ++ cs.map (·.id)) (removed ++ cs)

/-- `InnerPool::remove_blocks_by_parent` -/
def removeByParent (s : Pool) (p : Nat) : Pool × List Blk :=
  if s.leaders.contains p then
    let r := bfs (2 * s.pool.length + 2) s.pool [p] []
    ({ pool := r.1, leaders := s.leaders.filter (fun h => h != p) }, r.2)
  else (s, [])

/-- `InnerPool::need_clean`: the first child of `h` is older than `EXPIRED_EPOCH` epochs -/
def needClean (pool : List Blk) (h tipEpoch : Nat) : Bool :=
  match children pool h with
  | [] => false
  | b :: _ => decide (b.epoch + CkbVerif.Gen.Sync.EXPIRED_EPOCH < tipEpoch)

/-- `InnerPool::clean_expired_blocks` -/
def cleanExpired (s : Pool) (tipEpoch : Nat) : Pool × List Blk :=
  s.leaders.foldl
    (fun (acc : Pool × List Blk) h =>
      if needClean acc.1.pool h tipEpoch then
        let r := removeByParent acc.1 h
        (r.1, acc.2 ++ r.2)
      else acc)
    (s, [])

end CkbVerif.Orphan
